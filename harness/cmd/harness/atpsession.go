package main

// Sub-command `atpsession` (property C05): real ATP client + real ATP server (both built from
// /repo's working tree) connected by (i) io.Pipe, (ii) a buffered pipe that fragments and coalesces
// the byte stream at random; generated plugin schemas (hx.Gen step input / output scopes) and
// inputs; 1..N serial, overlapping and mixed Execute calls; ATP v3, and the legacy v1 framing
// against a tiny scripted legacy server (as the SDK's own tests do).
//
// A third transport, `split`, puts a writer in front of the SERVER-to-client direction that passes
// every Write on in pieces of 1..16 bytes (from the seed) with runtime.Gosched() / a tiny sleep
// between the pieces: there is no per-Write atomicity, so two concurrent Writes interleave byte-wise.
// With the server's Encodes serialised by encoderMutex this is harmless; an Encode that bypasses the
// mutex corrupts the stream. The `bulk` stream (every run) aims at exactly that: a fixed plugin whose
// step returns 1-8 KB outputs, several rounds of 2-8 concurrent Executes per session that overlap
// large work-done messages with error reports (rejected input, unknown step) and with each other,
// always over `split`.
//
// Some of the overlapping calls (bulk rounds, and a fifth of the overlapping generated v3 sessions)
// carry an input CBOR cannot encode (a func or a channel inside the map): that Execute must fail on
// its own while writing its work-start, and every other pending Execute must still get its own
// result.
//
// The `reuse` stream (every run) holds serial histories on one v3 client in which a later Execute
// reuses the run ID of an execution that has already completed - succeeded, been rejected, or named
// an unknown step (e.g. a, b(rejected), c, b(retry with good input), a(again), d): a run ID is only
// reserved while its execution is pending, so each of these must return its own in-process result.
//
// The `dup` stream (every run): concurrent use of one run ID. A slow step is in flight, an Execute
// with the same run ID arrives meanwhile (small pools of run IDs used concurrently). The client
// refuses the second with a duplicate-run-ID error; the accepted one must still return its own
// in-process result. Which of two same-ID calls registers first is the scheduler's choice, so the
// oracle is: every call returns within the watchdog; a call returns its own in-process result, or -
// only if it overlapped a same-ID call - an error; of each same-ID group at least one returns its
// own result.
//
// The `signal` stream (every run): Executes that pass a `signalsToStep` channel with a signal
// already queued, to steps that declare the signal. Client.Execute starts the goroutine forwarding
// that channel before it registers the run and writes the work-start, so the signal can reach the
// server ahead of its own work-start and draw an "unknown run" complaint, which must not become
// the run's result. The order is forced for half of these calls by a client logger that stalls on
// the "Preparing result channels" message of that run for a few milliseconds (stat
// `signal:stalled-writes` shows the hook is still hit).
//
// The `rawinput` stream (every run): raw inputs the step's schema rejects although the step would be
// content with an empty object - an untyped nil `InputData`, nil inside, a list, a string, a number -
// on a step whose input has only optional and defaulted properties (`opt`), over v3 and v1. The
// client has to pass the input on as it is: in-process CallStep rejects nil, so Execute must too.
//
// The `blank` stream (every run): an Execute whose step ID is blank (the server answers it with a
// step-fatal error that carries no run ID) on its own, followed by more Executes on the same client,
// serially and as a concurrent burst; every call must return within the watchdog with its own
// in-process result or error.
//
// The `pattern` stream (every run): a step whose input has a pattern-constrained string, and
// rejected values that are long and written in multi-byte scripts (Japanese, Russian, Korean,
// emoji; longer than 48 and 64 bytes; with an ASCII prefix of 0-3 bytes, so that a byte-wise cut
// falls inside a character), serial and concurrent. Here the oracle also looks at the error text:
// a rejected input must come back as that step's error CARRYING ITS TEXT, i.e. the text of the
// in-process CallStep error must be contained in the Execute's error (the text travels inside an
// ATP error message; a text a validating CBOR decoder refuses never arrives).
//
// The `stepid` stream (every run): Executes whose step ID is a declared step ID padded with white
// space of several kinds ("bulk ", " bulk", "bulk\n", "opt\r\n", tab, no-break and em space), with
// an input the step accepts, next to calls with the exact ID; v3 and v1. A step ID is an exact key:
// in-process CallStep answers "Invalid step called", so Execute must return an error too.
//
// The `await` stream (every run): steps that return only when a signal has been delivered to them.
// Step "await" waits for the signal its handler map holds under the KEY "go-key" (the stored signal
// schema's ID is "go": key and ID differ, the hello message announces the key, the client addresses
// the key). Step "hand" takes exactly one signal from a handler ("hand") that hands it over on an
// unbuffered channel and blocks until it is taken: histories send the hand-over twice, or once more
// after the step has ended, and then go on with further Executes (serial and a burst). The signals
// are sent a few milliseconds after the Execute began, i.e. after its work-start. Every Execute must
// return its in-process result (the reference plugin does not wait) within the watchdog: a signal
// that is not delivered, or a blocked signal handler that parks the server's read loop, shows as
// Executes that never return.
//
// For the sessions over the fixed plugin (single, deterministic failures) the comparison of errors is
// textual: the text of the in-process CallStep error must be a substring of the error Execute
// returns. The `pattern` stream therefore also rejects values, property names and step IDs that
// contain `%` (`%`, `%d`, `%s%s`, `100%`, `%!`, `%%`, `20% off`, an unparsable integer "10%"): a text
// that is re-used as a format string on its way arrives rewritten.
//
// The `init` stream (every run): step "istep" has a per-run initializer that takes a few
// milliseconds and keeps the run's release in its step data; the release signal is sent 1-2 ms after
// the Execute began, i.e. directly behind the work-start and while the initializer still runs. The
// step must see the release ("released", as in-process), and the initializer must run exactly once
// per run (reported under prop C11).
//
// Step "nums" returns conforming outputs that hold NaN and infinities (a float field, a float list,
// an any-typed value); the `bulk`, `reuse` and `init` streams call it.
//
// A finding carries the whole session (plugin, calls with inputs, rounds, delays, transport, seed) as
// its detail; `harness atpsession -replay <finding or session json>` re-runs that session.
//
// Every Execute result is compared with calling the same step in-process (`CallStep`) on the same
// input after CBOR normalisation (cbor.Marshal / Unmarshal) of input and output. Findings
// (prop C05): any difference in error-ness, output ID or output data, an Execute that does not
// return (loss), a server that does not return or reports a different number of errors than steps
// failed. Error texts are never compared.
//
// The handlers are deterministic functions of their (unserialized) input, so the in-process call
// and the call behind ATP agree unless the transport path changes something.

import (
	"context"
	"encoding/json"
	"fmt"
	"hash/fnv"
	"io"
	"math"
	"math/rand"
	"os"
	"regexp"
	"runtime"
	"sort"
	"strings"
	"sync"
	"time"

	"github.com/fxamacker/cbor/v2"
	"go.flow.arcalot.io/pluginsdk/atp"
	"go.flow.arcalot.io/pluginsdk/schema"
	"harness/hx"
)

func init() {
	register("atpsession", atpxCmd)
}

// ---------------------------------------------------------------------------------------------
// transports

// atpxChunkPipe is a buffered pipe: writes never block, reads return chunks of arbitrary size
// (a fragment of a message, or several messages at once).
type atpxChunkPipe struct {
	mu     sync.Mutex
	cond   *sync.Cond
	buf    []byte
	closed bool
	r      *rand.Rand
	chunks int
}

func newAtpxChunkPipe(seed int64) *atpxChunkPipe {
	p := &atpxChunkPipe{r: rand.New(rand.NewSource(seed))}
	p.cond = sync.NewCond(&p.mu)
	return p
}

func (p *atpxChunkPipe) Write(b []byte) (int, error) {
	p.mu.Lock()
	defer p.mu.Unlock()
	if p.closed {
		return 0, io.ErrClosedPipe
	}
	p.buf = append(p.buf, b...)
	p.cond.Broadcast()
	return len(b), nil
}

func (p *atpxChunkPipe) Read(b []byte) (int, error) {
	p.mu.Lock()
	defer p.mu.Unlock()
	for len(p.buf) == 0 && !p.closed {
		p.cond.Wait()
	}
	if len(p.buf) == 0 {
		return 0, io.EOF
	}
	if p.r.Intn(3) == 0 {
		// let the writer get ahead, so that several messages coalesce
		p.mu.Unlock()
		time.Sleep(time.Duration(50+p.r.Intn(300)) * time.Microsecond)
		p.mu.Lock()
		// another reader (the drain after Close) may have taken the bytes meanwhile
		for len(p.buf) == 0 && !p.closed {
			p.cond.Wait()
		}
		if len(p.buf) == 0 {
			return 0, io.EOF
		}
	}
	max := len(p.buf)
	if len(b) < max {
		max = len(b)
	}
	n := max
	switch p.r.Intn(4) {
	case 0:
		n = 1
	case 1:
		n = 1 + p.r.Intn(max)
	case 2:
		if max > 7 {
			n = 1 + p.r.Intn(7)
		}
	}
	copy(b, p.buf[:n])
	p.buf = p.buf[n:]
	p.chunks++
	return n, nil
}

func (p *atpxChunkPipe) Close() error {
	p.mu.Lock()
	defer p.mu.Unlock()
	p.closed = true
	p.cond.Broadcast()
	return nil
}

type atpxChannel struct {
	io.Reader
	io.Writer
	closer func()
}

func (c atpxChannel) Close() error {
	if c.closer != nil {
		c.closer()
	}
	return nil
}

// atpxSplitWriter passes every Write on in pieces of 1..16 bytes and yields between the pieces;
// concurrent Writes are NOT serialised (that is the point).
type atpxSplitWriter struct {
	w      io.WriteCloser
	mu     sync.Mutex // protects r and pieces only
	r      *rand.Rand
	pieces int
}

func (sw *atpxSplitWriter) Write(b []byte) (int, error) {
	n := 0
	for len(b) > 0 {
		sw.mu.Lock()
		k := 1 + sw.r.Intn(16)
		nap := sw.r.Intn(24) == 0
		sw.pieces++
		sw.mu.Unlock()
		if k > len(b) {
			k = len(b)
		}
		m, err := sw.w.Write(b[:k])
		n += m
		if err != nil {
			return n, err
		}
		b = b[k:]
		if nap {
			time.Sleep(20 * time.Microsecond)
		} else {
			runtime.Gosched()
		}
	}
	return n, nil
}

func (sw *atpxSplitWriter) Close() error { return sw.w.Close() }

// ---------------------------------------------------------------------------------------------
// generated plugins

type atpxStep struct {
	ID      string
	Input   *hx.Ty // scope
	Payload *hx.Ty // scope, the generated part of the success output
}

type atpxPlugin struct {
	Steps []atpxStep
}

func atpxHash(s string) uint64 {
	h := fnv.New64a()
	h.Write([]byte(s))
	return h.Sum64()
}

// atpxSanitize removes what keeps a generated schema from describing itself over ATP: enum values
// without display names cannot be self-serialized (a known finding of C09, not this property's).
func atpxSanitize(t *hx.Ty) {
	t.WalkTy(func(x *hx.Ty) {
		switch x.T {
		case "enumInt":
			x.T, x.Vals = "int", nil
		case "enumStr":
			x.T, x.Vals = "str", nil
		}
	})
}

// usable reports whether the plugin can say hello: its schema self-serializes and the client can
// rebuild it.
func (p *atpxPlugin) usable() bool {
	r := hx.Guard(func() hx.Result {
		ser, err := p.build().SelfSerialize()
		if err != nil {
			return hx.ErrResult(err)
		}
		norm, err := cborNorm(ser)
		if err != nil {
			return hx.ErrResult(err)
		}
		if _, err := schema.UnserializeSchema(norm); err != nil {
			return hx.ErrResult(err)
		}
		return hx.Result{R: "ok"}
	})
	return r.R == "ok"
}

func (g *atpxGenT) plugin() *atpxPlugin {
	for {
		p := g.plugin1()
		if p.usable() {
			return p
		}
		g.g.Stats["atpx:plugin-regenerated"]++
	}
}

func (g *atpxGenT) plugin1() *atpxPlugin {
	p := &atpxPlugin{}
	n := 1 + g.g.R.Intn(3)
	for i := 0; i < n; i++ {
		in := g.g.Scope(1)
		atpxSanitize(in)
		// a caller-controlled field, so that the inputs (and hence the expected outputs) of
		// different runs differ
		root := in.Objs[0].Ty
		has := false
		for _, np := range root.Props {
			if np.Name == "uid" {
				has = true
			}
		}
		if !has {
			root.Props = append(root.Props, hx.NamedProp{Name: "uid", P: &hx.Prop{Ty: &hx.Ty{T: "str"}}})
		}
		payload := g.g.Scope(1)
		atpxSanitize(payload)
		p.Steps = append(p.Steps, atpxStep{ID: fmt.Sprintf("step%d", i), Input: in, Payload: payload})
	}
	return p
}

// build constructs a fresh CallableSchema (nothing shared between two calls).
func (p *atpxPlugin) build() *schema.CallableSchema {
	var steps []schema.CallableStep
	for _, st := range p.Steps {
		st := st
		payloadForHandler := st.Payload.Build()
		outputs := map[string]*schema.StepOutputSchema{
			"success": schema.NewStepOutputSchema(schema.NewScopeSchema(schema.NewObjectSchema("Success", map[string]*schema.PropertySchema{
				"tag":     atpsProp(schema.NewStringSchema(nil, nil, nil), true),
				"payload": atpsProp(st.Payload.Build(), false),
			})), nil, false),
			"error": schema.NewStepOutputSchema(schema.NewScopeSchema(schema.NewObjectSchema("Failure", map[string]*schema.PropertySchema{
				"error": atpsProp(schema.NewStringSchema(nil, nil, nil), true),
			})), nil, true),
		}
		handler := func(_ context.Context, input any) (string, any) {
			canon := hx.Canon(hx.Enc(input))
			h := atpxHash(canon)
			tag := fmt.Sprintf("%016x", h)
			switch h % 10 {
			case 0:
				return "error", map[string]any{"error": "declared failure " + tag}
			case 1:
				return "no-such-output", map[string]any{"tag": tag}
			case 2:
				return "success", map[string]any{"tag": 5} // invalid data
			}
			out := map[string]any{"tag": tag}
			raw := hx.NewGen(int64(h >> 1)).Value(st.Payload, hx.Env{}, 0)
			res := hx.Guard(func() hx.Result {
				native, err := payloadForHandler.Unserialize(raw.ToGo())
				if err != nil {
					return hx.ErrResult(err)
				}
				out["payload"] = native
				return hx.Result{R: "ok"}
			})
			_ = res
			return "success", out
		}
		steps = append(steps, schema.NewCallableStep[any](st.ID, st.Input.Build().(*schema.ScopeSchema), outputs, nil, handler))
	}
	return schema.NewCallableSchema(steps...)
}

type atpxGenT struct {
	g *hx.Gen
}

type atpxCall struct {
	RunID string  `json:"run"`
	Step  string  `json:"step"`
	V     *hx.Val `json:"input"`    // the input; Execute gets V.ToGo()
	Delay int     `json:"delay_us"` // pattern "rounds": started this long after its round began
	Input any     `json:"-"`
	// a signalsToStep channel with one signal ("sig") already queued is passed to Execute
	Signal bool `json:"queued_signal,omitempty"`
	// overlaps another call with the same run ID: the client may refuse it
	MayBeRefused bool `json:"may_be_refused,omitempty"`
	// signals put into the call's signalsToStep channel after the Execute began
	Late []atpxLateSignal `json:"late_signals,omitempty"`
}

type atpxLateSignal struct {
	ID      string `json:"id"`
	DelayUs int    `json:"delay_us"`
}

// atpxSpec is one session, complete enough to be re-run.
type atpxSpec struct {
	Idx       int         `json:"session"`
	Stream    string      `json:"stream"` // generated | bulk
	Plugin    *atpxPlugin `json:"plugin,omitempty"`
	Calls     []atpxCall  `json:"calls"`
	Pattern   string      `json:"pattern"` // serial | overlap | waves | rounds
	Rounds    [][]int     `json:"rounds,omitempty"`
	Transport string      `json:"transport"` // pipe | chunked | split
	V1        bool        `json:"v1"`
	Seed      int64       `json:"seed"`
	Bulk      bool        `json:"bulk_plugin,omitempty"` // the fixed bulk plugin instead of Plugin
	release   chan struct{} // closed when the client has been closed: ends every wait inside the plugin
	// how the server's returned errors relate to the failing steps: "" exact, "atleast", "skip"
	CountMode string `json:"count_mode,omitempty"`
	// the Execute's error must contain the text of the in-process error
	CheckText bool `json:"check_error_text,omitempty"`
	// every Write of the client-to-server direction is stalled this long
	C2SStallUs int `json:"c2s_stall_us,omitempty"`
	Reuses    int         `json:"run_id_reuses,omitempty"`
}

func (sp *atpxSpec) build() *schema.CallableSchema {
	if sp.Stream == "bulk" || sp.Bulk || sp.Plugin == nil {
		return atpxBulkPlugin(true, sp.release)
	}
	return sp.Plugin.build()
}

// buildRef is the plugin for the in-process reference: the same, but slow steps do not sleep.
func (sp *atpxSpec) buildRef() *schema.CallableSchema {
	if sp.Stream == "bulk" || sp.Bulk || sp.Plugin == nil {
		return atpxBulkPlugin(false, nil)
	}
	return sp.Plugin.build()
}

// ---------------------------------------------------------------------------------------------
// the bulk plugin: large outputs

func atpxBlob(uid string, size int) string {
	var b strings.Builder
	for i := 0; b.Len() < size; i++ {
		fmt.Fprintf(&b, "%s/%d;", uid, i)
	}
	return b.String()[:size]
}

// atpxBulkPlugin: steps "await" and "hand" (return only after a signal has been delivered), step "opt" (input with only optional / defaulted properties: `{}` is accepted, nil is
// not), step "bulk" (large outputs), step "slow" (stays in flight for `ms` milliseconds
// when sleep is set), step "sbulk" (like bulk, declares the signal "sig" and ignores it).
func atpxBulkPlugin(sleep bool, release <-chan struct{}) *schema.CallableSchema {
	in := func() *schema.ScopeSchema {
		return schema.NewScopeSchema(schema.NewObjectSchema("BulkInput", map[string]*schema.PropertySchema{
			"uid":  atpsProp(schema.NewStringSchema(nil, nil, nil), true),
			"size": atpsProp(schema.NewIntSchema(hx_i64(0), hx_i64(1<<20), nil), true),
			"ms":   atpsProp(schema.NewIntSchema(hx_i64(0), hx_i64(1000), nil), false),
		}))
	}
	outputs := func() map[string]*schema.StepOutputSchema {
		return map[string]*schema.StepOutputSchema{
			"success": schema.NewStepOutputSchema(schema.NewScopeSchema(schema.NewObjectSchema("BulkOutput", map[string]*schema.PropertySchema{
				"tag":  atpsProp(schema.NewStringSchema(nil, nil, nil), true),
				"blob": atpsProp(schema.NewStringSchema(nil, nil, nil), true),
			})), nil, false),
		}
	}
	handler := func(_ context.Context, input any) (string, any) {
		m, _ := input.(map[string]any)
		uid, _ := m["uid"].(string)
		size, _ := m["size"].(int64)
		if ms, _ := m["ms"].(int64); ms > 0 && sleep {
			time.Sleep(time.Duration(ms) * time.Millisecond)
		}
		return "success", map[string]any{"tag": uid, "blob": atpxBlob(uid, int(size))}
	}
	sigSchema := schema.NewScopeSchema(schema.NewObjectSchema("SigInput", map[string]*schema.PropertySchema{
		"note": atpsProp(schema.NewStringSchema(nil, nil, nil), false),
	}))
	withSignal := schema.NewCallableStepWithSignals[any, any]("sbulk", in(), outputs(),
		map[string]schema.CallableSignal{"sig": schema.NewCallableSignal[any, any]("sig", sigSchema, nil, func(context.Context, any, any) {})},
		nil, nil, nil, func(ctx context.Context, _ any, input any) (string, any) { return handler(ctx, input) })
	seven := "7"
	optIn := schema.NewScopeSchema(schema.NewObjectSchema("OptInput", map[string]*schema.PropertySchema{
		"uid":  atpsProp(schema.NewStringSchema(nil, nil, nil), false),
		"size": schema.NewPropertySchema(schema.NewIntSchema(hx_i64(0), hx_i64(1<<20), nil), nil, false, nil, nil, nil, &seven, nil),
	}))
	optHandler := func(_ context.Context, input any) (string, any) {
		m, _ := input.(map[string]any)
		uid, ok := m["uid"].(string)
		if !ok {
			uid = "no-uid"
		}
		size, _ := m["size"].(int64)
		return "success", map[string]any{"tag": uid, "blob": atpxBlob(uid, int(size))}
	}
	patIn := schema.NewScopeSchema(schema.NewObjectSchema("PatInput", map[string]*schema.PropertySchema{
		"uid":  atpsProp(schema.NewStringSchema(nil, nil, nil), false),
		"word": atpsProp(schema.NewStringSchema(nil, nil, regexp.MustCompile("^[a-z]+$")), true),
	}))
	patHandler := func(_ context.Context, input any) (string, any) {
		m, _ := input.(map[string]any)
		word, _ := m["word"].(string)
		return "success", map[string]any{"tag": word, "blob": atpxBlob(word, 16)}
	}
	// steps that wait for a signal (only when sleep is set: the reference does not wait)
	var wmu sync.Mutex
	gates := map[string]chan struct{}{}    // uid -> closed by the "go-key" handler
	handoffs := map[string]chan struct{}{} // uid -> unbuffered hand-over
	gate := func(uid string) chan struct{} {
		wmu.Lock()
		defer wmu.Unlock()
		g, ok := gates[uid]
		if !ok {
			g = make(chan struct{})
			gates[uid] = g
		}
		return g
	}
	handoff := func(uid string) chan struct{} {
		wmu.Lock()
		defer wmu.Unlock()
		h, ok := handoffs[uid]
		if !ok {
			h = make(chan struct{})
			handoffs[uid] = h
		}
		return h
	}
	uidOf := func(x any) string {
		m, _ := x.(map[string]any)
		u, _ := m["uid"].(string)
		return u
	}
	sigData := func() *schema.ScopeSchema {
		return schema.NewScopeSchema(schema.NewObjectSchema("WaitSignal", map[string]*schema.PropertySchema{
			"uid": atpsProp(schema.NewStringSchema(nil, nil, nil), true),
		}))
	}
	awaitStep := schema.NewCallableStepWithSignals[any, any]("await", in(), outputs(),
		map[string]schema.CallableSignal{
			// registered under a key that is not the signal's ID
			"go-key": schema.NewCallableSignalFromSchema[any, any](schema.NewSignalSchema("go", sigData(), nil), func(_ context.Context, _ any, d any) {
				g := gate(uidOf(d))
				wmu.Lock()
				select {
				case <-g:
				default:
					close(g)
				}
				wmu.Unlock()
			}),
		}, nil, nil, nil, func(ctx context.Context, _ any, input any) (string, any) {
			if sleep {
				select {
				case <-gate(uidOf(input)):
				case <-release:
				}
			}
			return handler(ctx, input)
		})
	handStep := schema.NewCallableStepWithSignals[any, any]("hand", in(), outputs(),
		map[string]schema.CallableSignal{
			"hand": schema.NewCallableSignal[any, any]("hand", sigData(), nil, func(_ context.Context, _ any, d any) {
				select {
				case handoff(uidOf(d)) <- struct{}{}:
				case <-release:
				}
			}),
		}, nil, nil, nil, func(ctx context.Context, _ any, input any) (string, any) {
			if sleep {
				select {
				case <-handoff(uidOf(input)):
				case <-release:
				}
			}
			return handler(ctx, input)
		})
	// "nums": conforming outputs with NaN and infinities
	numOutputs := map[string]*schema.StepOutputSchema{
		"numbers": schema.NewStepOutputSchema(schema.NewScopeSchema(schema.NewObjectSchema("Numbers", map[string]*schema.PropertySchema{
			"tag": atpsProp(schema.NewStringSchema(nil, nil, nil), true),
			"x":   atpsProp(schema.NewFloatSchema(nil, nil, nil), true),
			"l":   atpsProp(schema.NewListSchema(schema.NewFloatSchema(nil, nil, nil), nil, nil), true),
			"a":   atpsProp(schema.NewAnySchema(), false),
		})), nil, false),
	}
	numsStep := schema.NewCallableStep[any]("nums", in(), numOutputs, nil, func(_ context.Context, input any) (string, any) {
		m, _ := input.(map[string]any)
		uid, _ := m["uid"].(string)
		size, _ := m["size"].(int64)
		special := []float64{math.NaN(), math.Inf(1), math.Inf(-1)}[size%3]
		return "numbers", map[string]any{"tag": uid, "x": special, "l": []any{1.5, special, math.Inf(-1)}, "a": map[string]any{"v": special, "w": []any{math.NaN()}}}
	})
	// "istep": a slow per-run initializer; the release travels in the run's step data
	type istepData struct {
		mu       sync.Mutex
		released chan struct{}
	}
	istep := schema.NewCallableStepWithSignals[*istepData, any]("istep", in(), outputs(),
		map[string]schema.CallableSignal{
			"rel": schema.NewCallableSignal[*istepData, any]("rel", sigData(), nil, func(_ context.Context, d *istepData, _ any) {
				if d == nil {
					return
				}
				d.mu.Lock()
				select {
				case <-d.released:
				default:
					close(d.released)
				}
				d.mu.Unlock()
			}),
		}, nil, nil, func() *istepData {
			if sleep {
				atpxInitCalls.Add(release, 1)
				time.Sleep(6 * time.Millisecond)
			}
			return &istepData{released: make(chan struct{})}
		}, func(_ context.Context, d *istepData, input any) (string, any) {
			uid := uidOf(input)
			tag := "released"
			if sleep && d != nil {
				select {
				case <-d.released:
				case <-time.After(300 * time.Millisecond):
					tag = "expired"
				case <-release:
					tag = "expired"
				}
			}
			return "success", map[string]any{"tag": tag, "blob": uid}
		})
	return schema.NewCallableSchema(
		numsStep, istep,
		awaitStep, handStep,
		schema.NewCallableStep[any]("pat", patIn, outputs(), nil, patHandler),
		schema.NewCallableStep[any]("opt", optIn, outputs(), nil, optHandler),
		schema.NewCallableStep[any]("bulk", in(), outputs(), nil, handler),
		schema.NewCallableStep[any]("slow", in(), outputs(), nil, handler),
		withSignal)
}

// atpxSlowWriter stalls every Write of the client-to-server direction for a moment. The client
// holds its mutex while it writes, so concurrent Executes queue up on that mutex and the order in
// which an Execute's own work-start and the signal forwarded by its (earlier started) signal
// goroutine get to write becomes a matter of chance.
type atpxSlowWriter struct {
	w      io.WriteCloser
	d      time.Duration
	writes int
}

func (sw *atpxSlowWriter) Write(b []byte) (int, error) {
	sw.writes++ // writes are serialised by the client mutex
	time.Sleep(sw.d)
	return sw.w.Write(b)
}

func (sw *atpxSlowWriter) Close() error { return sw.w.Close() }

func atpxBulkInput(uid string, size int, ms int) *hx.Val {
	kvs := [][2]*hx.Val{{hx.Str("uid"), hx.Str(uid)}, {hx.Str("size"), hx.Int("int64", int64(size))}}
	if ms > 0 {
		kvs = append(kvs, [2]*hx.Val{hx.Str("ms"), hx.Int("int64", int64(ms))})
	}
	return hx.StrAny(kvs...)
}

// atpxDupSpec: rounds in which a slow step is in flight while further Executes with the same run
// ID arrive; small pools of run IDs used concurrently.
func atpxDupSpec(idx int, rnd *rand.Rand, seed int64) *atpxSpec {
	sp := &atpxSpec{Idx: idx, Stream: "dup", Bulk: true, Pattern: "rounds", Transport: []string{"pipe", "chunked", "split"}[rnd.Intn(3)], Seed: seed, CountMode: "skip"}
	rounds := 2 + rnd.Intn(3)
	for r := 0; r < rounds; r++ {
		var round []int
		add := func(c atpxCall) {
			round = append(round, len(sp.Calls))
			sp.Calls = append(sp.Calls, c)
		}
		pool := 1 + rnd.Intn(2)
		for id := 0; id < pool; id++ {
			run := fmt.Sprintf("d%d-%d-%c", idx, r, 'a'+id)
			// the slow one first, its duplicates while it is in flight
			add(atpxCall{RunID: run, Step: "slow", V: atpxBulkInput(fmt.Sprintf("%s#0", run), rnd.Intn(2000), 40+rnd.Intn(30)), MayBeRefused: true})
			dups := 1 + rnd.Intn(2)
			for k := 1; k <= dups; k++ {
				c := atpxCall{RunID: run, Step: []string{"bulk", "slow", "sbulk"}[rnd.Intn(3)], Delay: 4000 + rnd.Intn(12000), MayBeRefused: true}
				c.V = atpxBulkInput(fmt.Sprintf("%s#%d", run, k), rnd.Intn(500), 0)
				add(c)
			}
		}
		// bystanders with their own run IDs
		for k := rnd.Intn(3); k > 0; k-- {
			run := fmt.Sprintf("d%d-%d-x%d", idx, r, k)
			c := atpxCall{RunID: run, Step: "bulk", Delay: rnd.Intn(10000), V: atpxBulkInput(run, rnd.Intn(3000), 0)}
			if rnd.Intn(4) == 0 {
				c.V = hx.StrAny([2]*hx.Val{hx.Str("uid"), hx.Str(run)}, [2]*hx.Val{hx.Str("size"), hx.Str("large")})
			}
			add(c)
		}
		sp.Rounds = append(sp.Rounds, round)
	}
	return sp
}

// atpxRawInputSpec: raw shapes the schema rejects, on a step that would accept the empty object.
func atpxRawInputSpec(idx int, rnd *rand.Rand, seed int64) *atpxSpec {
	sp := &atpxSpec{Idx: idx, Stream: "rawinput", Bulk: true, Pattern: []string{"serial", "overlap"}[rnd.Intn(2)],
		Transport: []string{"pipe", "chunked", "split"}[rnd.Intn(3)], Seed: seed, V1: idx%3 == 0, CheckText: idx%3 != 0}
	shapes := []*hx.Val{
		hx.Nil(),
		hx.Nil(),
		hx.StrAny(),
		hx.StrAny([2]*hx.Val{hx.Str("uid"), hx.Str("u")}),
		hx.StrAny([2]*hx.Val{hx.Str("uid"), hx.Nil()}),
		hx.StrAny([2]*hx.Val{hx.Str("size"), hx.Nil()}),
		hx.List(hx.Int("int64", 1)),
		hx.List(),
		hx.Str("just a string"),
		hx.Int("int64", 5),
		hx.Bool(true),
		hx.StrAny([2]*hx.Val{hx.Str("uid"), hx.Str("v")}, [2]*hx.Val{hx.Str("size"), hx.Int("int64", 300)}),
		hx.StrAny([2]*hx.Val{hx.Str("unknown"), hx.Int("int64", 1)}),
	}
	k := 3 + rnd.Intn(6)
	for c := 0; c < k; c++ {
		v := shapes[rnd.Intn(len(shapes))]
		if c == 0 {
			v = hx.Nil() // every session starts with the untyped nil (v1 sessions end at the first failure)
		}
		step := "opt"
		if rnd.Intn(6) == 0 {
			step = "bulk" // nil is rejected here before and after
		}
		sp.Calls = append(sp.Calls, atpxCall{RunID: fmt.Sprintf("n%d-%d", idx, c), Step: step, V: v})
	}
	return sp
}

var atpxScripts = []string{
	"これはパターンに一致しない日本語の長い文章です。",
	"Это предложение на русском языке не соответствует образцу.",
	"이 문장은 패턴과 일치하지 않는 한국어 문장입니다",
	"🚀🌍✨🎉🔥💡🧪📦",
	"ßüöäéèêàçñ",
}

// atpxPatternSpec: rejected pattern values in multi-byte scripts, long enough to be abbreviated.
func atpxPatternSpec(idx int, rnd *rand.Rand, seed int64) *atpxSpec {
	sp := &atpxSpec{Idx: idx, Stream: "pattern", Bulk: true, Pattern: []string{"serial", "overlap", "waves"}[rnd.Intn(3)],
		Transport: []string{"pipe", "chunked", "split"}[rnd.Intn(3)], Seed: seed, CheckText: true}
	k := 3 + rnd.Intn(6)
	for c := 0; c < k; c++ {
		run := fmt.Sprintf("p%d-%d", idx, c)
		var word string
		switch kind := rnd.Intn(10); {
		case kind < 2:
			word = []string{"abc", "pattern", "z"}[rnd.Intn(3)] // accepted
		case kind < 3:
			word = "UPPER CASE is rejected, in ASCII, and is longer than sixty-four bytes in total"
		case kind < 6:
			word = []string{"%", "%d", "%s%s", "100%", "%!", "%%", "20% off", "%v %+v %#v", "50%d0", "%[1]s"}[rnd.Intn(10)]
		default:
			sc := atpxScripts[rnd.Intn(len(atpxScripts))]
			word = "abc"[:rnd.Intn(4)]
			for len(word) < 50+rnd.Intn(60) {
				word += sc
			}
		}
		call := atpxCall{RunID: run, Step: "pat",
			V: hx.StrAny([2]*hx.Val{hx.Str("uid"), hx.Str(run)}, [2]*hx.Val{hx.Str("word"), hx.Str(word)})}
		switch rnd.Intn(12) {
		case 0: // an unparsable integer that carries a %
			call.Step = "bulk"
			call.V = hx.StrAny([2]*hx.Val{hx.Str("uid"), hx.Str(run)}, [2]*hx.Val{hx.Str("size"), hx.Str("10%")})
		case 1: // an undeclared property whose name carries a %
			call.V = hx.StrAny([2]*hx.Val{hx.Str("word"), hx.Str("fine")}, [2]*hx.Val{hx.Str("%s-extra"), hx.Int("int64", 1)})
		case 2: // an unknown step ID that carries a %
			call.Step = "no%such%step%d"
		}
		sp.Calls = append(sp.Calls, call)
	}
	return sp
}

// atpxAwaitSpec: steps released by a signal addressed by its key; doubled and late hand-overs
// followed by more work.
func atpxAwaitSpec(idx int, rnd *rand.Rand, seed int64) *atpxSpec {
	sp := &atpxSpec{Idx: idx, Stream: "await", Bulk: true, Pattern: "rounds", Transport: []string{"pipe", "chunked", "split"}[rnd.Intn(3)], Seed: seed, CountMode: "atleast"}
	n := 0
	mk := func(step string, late ...atpxLateSignal) int {
		run := fmt.Sprintf("a%d-%d", idx, n)
		n++
		sp.Calls = append(sp.Calls, atpxCall{RunID: run, Step: step, V: atpxBulkInput(run, rnd.Intn(1500), 0), Late: late})
		return len(sp.Calls) - 1
	}
	at := func(id string, ms int) atpxLateSignal { return atpxLateSignal{ID: id, DelayUs: ms*1000 + rnd.Intn(2000)} }
	for r := 2 + rnd.Intn(3); r > 0; r-- {
		switch rnd.Intn(3) {
		case 0: // steps that wait for the signal registered as "go-key", some next to plain calls
			var round []int
			for k := 1 + rnd.Intn(3); k > 0; k-- {
				round = append(round, mk("await", at("go-key", 4)))
			}
			if rnd.Intn(2) == 0 {
				round = append(round, mk("bulk"))
			}
			sp.Rounds = append(sp.Rounds, round)
		case 1: // the hand-over sent twice, then more work
			sp.Rounds = append(sp.Rounds, []int{mk("hand", at("hand", 4), at("hand", 8))})
			sp.Rounds = append(sp.Rounds, []int{mk("bulk")})
			sp.Rounds = append(sp.Rounds, []int{mk("await", at("go-key", 4)), mk("bulk"), mk("opt")})
		default: // a hand-over after the step has ended (it ends on its first one), then a burst
			sp.Rounds = append(sp.Rounds, []int{mk("hand", at("hand", 3), at("hand", 30))})
			var burst []int
			for k := 2 + rnd.Intn(3); k > 0; k-- {
				burst = append(burst, mk([]string{"bulk", "opt"}[rnd.Intn(2)]))
			}
			sp.Rounds = append(sp.Rounds, burst)
		}
	}
	return sp
}

// atpxInitSpec: a slow initializer, the release signal directly behind the work-start.
func atpxInitSpec(idx int, rnd *rand.Rand, seed int64) *atpxSpec {
	sp := &atpxSpec{Idx: idx, Stream: "init", Bulk: true, Pattern: "rounds", Transport: []string{"pipe", "chunked", "split"}[rnd.Intn(3)], Seed: seed, CountMode: "atleast"}
	n := 0
	for r := 3 + rnd.Intn(4); r > 0; r-- {
		var round []int
		for k := 1 + rnd.Intn(4); k > 0; k-- {
			run := fmt.Sprintf("t%d-%d", idx, n)
			n++
			c := atpxCall{RunID: run, Step: "istep", V: atpxBulkInput(run, rnd.Intn(200), 0),
				Late: []atpxLateSignal{{ID: "rel", DelayUs: 1000 + rnd.Intn(1000)}}}
			if rnd.Intn(5) == 0 {
				c = atpxCall{RunID: run, Step: "nums", V: atpxBulkInput(run, rnd.Intn(9), 0)}
			}
			round = append(round, len(sp.Calls))
			sp.Calls = append(sp.Calls, c)
		}
		sp.Rounds = append(sp.Rounds, round)
	}
	return sp
}

// atpxStepIDSpec: declared step IDs padded with white space.
func atpxStepIDSpec(idx int, rnd *rand.Rand, seed int64) *atpxSpec {
	sp := &atpxSpec{Idx: idx, Stream: "stepid", Bulk: true, Pattern: []string{"serial", "overlap"}[rnd.Intn(2)],
		Transport: []string{"pipe", "chunked", "split"}[rnd.Intn(3)], Seed: seed, V1: idx%4 == 0}
	pads := [][2]string{{"", " "}, {" ", ""}, {"", "\n"}, {"", "\r\n"}, {"\t", ""}, {"", "\u00a0"}, {"", "\u2003"}, {" ", " "}, {"", "  "}, {"\n", ""}}
	k := 3 + rnd.Intn(5)
	for c := 0; c < k; c++ {
		run := fmt.Sprintf("i%d-%d", idx, c)
		base := []string{"bulk", "opt", "pat", "slow"}[rnd.Intn(4)]
		step := base
		if c == 0 || rnd.Intn(3) > 0 {
			p := pads[rnd.Intn(len(pads))]
			step = p[0] + base + p[1]
		}
		var v *hx.Val
		switch base {
		case "pat":
			v = hx.StrAny([2]*hx.Val{hx.Str("uid"), hx.Str(run)}, [2]*hx.Val{hx.Str("word"), hx.Str("accepted")})
		default:
			v = atpxBulkInput(run, rnd.Intn(600), 0)
		}
		sp.Calls = append(sp.Calls, atpxCall{RunID: run, Step: step, V: v})
	}
	return sp
}

// atpxBlankSpec: a call with a blank step ID on its own, then serial calls, then a burst.
func atpxBlankSpec(idx int, rnd *rand.Rand, seed int64) *atpxSpec {
	sp := &atpxSpec{Idx: idx, Stream: "blank", Bulk: true, Pattern: "rounds", Transport: []string{"pipe", "chunked", "split"}[rnd.Intn(3)], Seed: seed}
	n := 0
	call := func(step string) int {
		run := fmt.Sprintf("k%d-%d", idx, n)
		n++
		c := atpxCall{RunID: run, Step: step, V: atpxBulkInput(run, rnd.Intn(1500), 0)}
		if step != "" && rnd.Intn(5) == 0 {
			c.V = hx.StrAny([2]*hx.Val{hx.Str("uid"), hx.Str(run)}, [2]*hx.Val{hx.Str("size"), hx.Str("large")})
		}
		sp.Calls = append(sp.Calls, c)
		return len(sp.Calls) - 1
	}
	for i := rnd.Intn(3); i > 0; i-- {
		sp.Rounds = append(sp.Rounds, []int{call("bulk")})
	}
	blanks := 1 + rnd.Intn(2)
	for b := 0; b < blanks; b++ {
		sp.Rounds = append(sp.Rounds, []int{call("")}) // alone: nothing else is in flight
		for i := 1 + rnd.Intn(2); i > 0; i-- {
			sp.Rounds = append(sp.Rounds, []int{call([]string{"bulk", "opt", "sbulk"}[rnd.Intn(3)])})
		}
		var burst []int
		for i := 2 + rnd.Intn(4); i > 0; i-- {
			burst = append(burst, call([]string{"bulk", "opt", "no-such-step"}[rnd.Intn(3)]))
		}
		sp.Rounds = append(sp.Rounds, burst)
	}
	return sp
}

// atpxSignalSpec: Executes with a queued signal, half of them with the work-start held back.
func atpxSignalSpec(idx int, rnd *rand.Rand, seed int64, heavy bool) *atpxSpec {
	// All three transports, the unbuffered pipe included: before the client got a write mutex of
	// its own (its sendCBOR used to hold the client mutex) this stream deadlocked client and server
	// over two unbuffered pipes now and then - a write held the client mutex while it waited for the
	// server to read; the server's read loop waited on the full workDone channel because the handler
	// waited for the client to read an error report; the client's read loop waited for the client
	// mutex. It shows as Executes (and Close) that do not return within the watchdog.
	sp := &atpxSpec{Idx: idx, Stream: "signal", Bulk: true, Pattern: "rounds", Transport: []string{"pipe", "chunked", "split"}[rnd.Intn(3)], Seed: seed, CountMode: "atleast"}
	if rnd.Intn(4) > 0 {
		sp.C2SStallUs = 200 + rnd.Intn(1500)
	}
	rounds := 3 + rnd.Intn(4)
	if heavy {
		// two unbuffered pipes, every write stalled, 6-8 concurrent calls per round: five or more
		// complaints about overtaking signals are queued in the server while the client still writes
		sp.Transport = "pipe"
		sp.C2SStallUs = 300 + rnd.Intn(1200)
		rounds = 6 + rnd.Intn(3)
	}
	for r := 0; r < rounds; r++ {
		var round []int
		k := 2 + rnd.Intn(5)
		if heavy {
			k = 6 + rnd.Intn(3)
		}
		for c := 0; c < k; c++ {
			run := fmt.Sprintf("g%d-%d-%d", idx, r, c)
			call := atpxCall{RunID: run, Step: "sbulk", Signal: true, Delay: rnd.Intn(2000)}
			switch kind := rnd.Intn(100); {
			case kind < 60:
				call.V = atpxBulkInput(run, rnd.Intn(3000), 0)
			case kind < 70:
				call.V = atpxBulkInput(run, rnd.Intn(100), 1+rnd.Intn(5))
			case kind < 85: // rejected input: must come back as the step's own error
				call.V = hx.StrAny([2]*hx.Val{hx.Str("uid"), hx.Str(run)}, [2]*hx.Val{hx.Str("size"), hx.Str("large")})
			case kind < 92: // a step that does not declare the signal
				call.Step = "bulk"
				call.V = atpxBulkInput(run, rnd.Intn(1000), 0)
			default:
				call.Step = "no-such-step"
				call.V = atpxBulkInput(run, 8, 0)
			}
			round = append(round, len(sp.Calls))
			sp.Calls = append(sp.Calls, call)
		}
		sp.Rounds = append(sp.Rounds, round)
	}
	return sp
}

func hx_i64(n int64) *int64 { return &n }

// bulkSpec: rounds of 2..8 concurrent Executes mixing large outputs, small outputs, rejected
// input and unknown steps.
func atpxBulkSpec(idx int, rnd *rand.Rand, seed int64) *atpxSpec {
	sp := &atpxSpec{Idx: idx, Stream: "bulk", Pattern: "rounds", Transport: "split", Seed: seed}
	rounds := 3 + rnd.Intn(4)
	for r := 0; r < rounds; r++ {
		k := 2 + rnd.Intn(7)
		var round []int
		for c := 0; c < k; c++ {
			run := fmt.Sprintf("b%d-%d-%d", idx, r, c)
			call := atpxCall{RunID: run, Step: "bulk"}
			kind := rnd.Intn(100)
			if c == 0 {
				kind = 0 // every round has a large output
			} else if c == 1 {
				kind = 60 + rnd.Intn(40) // and something that fails
			}
			if c >= 2 && rnd.Intn(6) == 0 {
				kind = 100 // an input CBOR cannot encode: this Execute fails while writing its work-start
			}
			switch {
			case kind == 100:
				call.V = hx.StrAny([2]*hx.Val{hx.Str("uid"), hx.Str(run)}, [2]*hx.Val{hx.Str("size"), hx.Int("int64", 16)},
					[2]*hx.Val{hx.Str("extra"), hx.Opaque(6 + rnd.Intn(2))}) // a func / a channel
				call.Delay = 200 + rnd.Intn(2500)
			case kind < 45: // 1-8 KB
				call.V = hx.StrAny([2]*hx.Val{hx.Str("uid"), hx.Str(run)}, [2]*hx.Val{hx.Str("size"), hx.Int("int64", int64(1024+rnd.Intn(7*1024)))})
			case kind < 52: // NaN and infinities in a conforming output
				call.Step = "nums"
				call.V = atpxBulkInput(run, rnd.Intn(9), 0)
			case kind < 60: // small
				call.V = hx.StrAny([2]*hx.Val{hx.Str("uid"), hx.Str(run)}, [2]*hx.Val{hx.Str("size"), hx.Int("int64", int64(rnd.Intn(64)))})
			case kind < 75: // rejected: size is not a number
				call.V = hx.StrAny([2]*hx.Val{hx.Str("uid"), hx.Str(run)}, [2]*hx.Val{hx.Str("size"), hx.Str("large")})
				call.Delay = rnd.Intn(3000)
			case kind < 88: // rejected: required field missing
				call.V = hx.StrAny([2]*hx.Val{hx.Str("size"), hx.Int("int64", 10)})
				call.Delay = rnd.Intn(3000)
			default:
				call.Step = "no-such-step"
				call.V = hx.StrAny([2]*hx.Val{hx.Str("uid"), hx.Str(run)}, [2]*hx.Val{hx.Str("size"), hx.Int("int64", 2048)})
				call.Delay = rnd.Intn(3000)
			}
			if call.Delay == 0 && rnd.Intn(3) == 0 {
				call.Delay = rnd.Intn(1500)
			}
			round = append(round, len(sp.Calls))
			sp.Calls = append(sp.Calls, call)
		}
		sp.Rounds = append(sp.Rounds, round)
	}
	return sp
}

func (g *atpxGenT) input(st atpxStep, uid string) *hx.Val {
	for try := 0; try < 20; try++ {
		v := g.g.Value(st.Input, hx.Env{}, 0)
		if v.Kind == "m" {
			kept := v.M[:0:0]
			for _, kv := range v.M {
				if !(kv[0].Kind == "s" && kv[0].S == "uid") {
					kept = append(kept, kv)
				}
			}
			v.M = append(kept, [2]*hx.Val{hx.Str("uid"), hx.Str(uid)})
		}
		if _, err := cborNorm(v.ToGo()); err == nil {
			return v
		}
	}
	return hx.StrAny([2]*hx.Val{hx.Str("uid"), hx.Str(uid)})
}

// ---------------------------------------------------------------------------------------------
// expectations

// atpxInitCalls counts the initializer calls of step "istep" per session (keyed by the session's
// release channel).
type atpxCounter struct {
	mu sync.Mutex
	m  map[<-chan struct{}]int
}

func (c *atpxCounter) Add(k <-chan struct{}, n int) {
	c.mu.Lock()
	if c.m == nil {
		c.m = map[<-chan struct{}]int{}
	}
	c.m[k] += n
	c.mu.Unlock()
}

func (c *atpxCounter) Take(k <-chan struct{}) int {
	c.mu.Lock()
	defer c.mu.Unlock()
	n := c.m[k]
	delete(c.m, k)
	return n
}

var atpxInitCalls atpxCounter

// atpxLastErrText: text of the in-process error per (run ID, step), for the streams that check it.
var atpxLastErrText sync.Map

type atpxExpect struct {
	Err   bool
	OutID string
	Data  string // canonical
}

// atpxReference computes what Execute has to return. An input that CBOR cannot encode (a channel,
// a func ...) never reaches the server: the client fails that Execute while writing its work-start
// (in-process CallStep rejects such a value as well); unsent reports that case.
func atpxReference(ref *schema.CallableSchema, c atpxCall) (e atpxExpect, unsent bool) {
	norm, err := cborNorm(c.Input)
	if err != nil {
		return atpxExpect{Err: true}, true
	}
	r := hx.Guard(func() hx.Result {
		id, data, err := ref.CallStep(context.Background(), c.RunID, c.Step, norm)
		if err != nil {
			e = atpxExpect{Err: true}
			atpxLastErrText.Store(c.RunID+"\x00"+c.Step, err.Error())
			return hx.Result{R: "ok"}
		}
		nd, err := cborNorm(data)
		if err != nil {
			e = atpxExpect{Err: true}
			return hx.Result{R: "ok"}
		}
		e = atpxExpect{OutID: id, Data: hx.Canon(hx.Enc(nd))}
		return hx.Result{R: "ok"}
	})
	if r.R == "panic" {
		// the server recovers a panicking step and reports a step-fatal error
		e = atpxExpect{Err: true}
	}
	return e, false
}

func atpxObserved(res atp.ExecutionResult) atpxExpect {
	if res.Error != nil {
		return atpxExpect{Err: true}
	}
	return atpxExpect{OutID: res.OutputID, Data: hx.Canon(hx.Enc(res.OutputData))}
}

// ---------------------------------------------------------------------------------------------
// one session

type atpxSessionResult struct {
	findings []string
	calls    int
	errs     int
	chunks   int
	pieces   int
	unsent   int
	refused  int
	stalls   int
	excused  int
	inits    int
}

func atpxRunSession(sp *atpxSpec, timeout time.Duration) (out atpxSessionResult) {
	calls, pattern, transport, v1, seed := sp.Calls, sp.Pattern, sp.Transport, sp.V1, sp.Seed
	for i := range calls {
		calls[i].Input = nil // an absent / null input in a replayed session is the untyped nil
		if calls[i].V != nil {
			calls[i].Input = calls[i].V.ToGo()
		}
	}
	find := func(format string, args ...any) { out.findings = append(out.findings, fmt.Sprintf(format, args...)) }
	sp.release = make(chan struct{})
	released := false
	releaseAll := func() {
		if !released {
			released = true
			close(sp.release)
		}
	}
	defer releaseAll()
	ref := sp.buildRef()
	expected := make([]atpxExpect, len(calls))
	unsent := make([]bool, len(calls))
	for i, c := range calls {
		expected[i], unsent[i] = atpxReference(ref, c)
	}

	var c2sR io.ReadCloser
	var c2sW io.WriteCloser
	var s2cR io.ReadCloser
	var s2cW io.WriteCloser
	var chunkPipes []*atpxChunkPipe
	var split *atpxSplitWriter
	if transport == "pipe" {
		c2sR, c2sW = io.Pipe()
		s2cR, s2cW = io.Pipe()
	} else {
		a, b := newAtpxChunkPipe(seed), newAtpxChunkPipe(seed+1)
		c2sR, c2sW, s2cR, s2cW = a, a, b, b
		chunkPipes = []*atpxChunkPipe{a, b}
		if transport == "split" {
			split = &atpxSplitWriter{w: b, r: rand.New(rand.NewSource(seed + 2))}
			s2cW = split
		}
	}
	ctx, cancel := context.WithCancel(context.Background())
	defer cancel()

	serverDone := make(chan int, 1)
	if !v1 {
		srv := sp.build()
		go func() {
			errs := atp.RunATPServer(ctx, c2sR, s2cW, srv)
			serverDone <- len(errs)
			_ = s2cW.Close()
		}()
	} else {
		srv := sp.build()
		go func() {
			// the legacy server: start message, hello with version 1, then work-start / work-done
			// pairs without run IDs
			dec := cbor.NewDecoder(c2sR)
			enc := cbor.NewEncoder(s2cW)
			n := 0
			defer func() { serverDone <- n; _ = s2cW.Close() }()
			var empty any
			if err := dec.Decode(&empty); err != nil {
				return
			}
			ser, err := srv.SelfSerialize()
			if err != nil {
				return
			}
			if err := enc.Encode(atp.HelloMessage{Version: 1, Schema: ser}); err != nil {
				return
			}
			for {
				var ws atp.WorkStartMessage
				if err := dec.Decode(&ws); err != nil {
					return
				}
				var id string
				var data any
				var cerr error
				r := hx.Guard(func() hx.Result {
					id, data, cerr = srv.CallStep(ctx, "v1", ws.StepID, ws.Config)
					return hx.Result{R: "ok"}
				})
				if r.R == "panic" || cerr != nil {
					n++
					return // the legacy protocol has no error message: the connection ends
				}
				if err := enc.Encode(atp.WorkDoneMessage{StepID: ws.StepID, OutputID: id, OutputData: data}); err != nil {
					return
				}
			}
		}()
	}

	var slow *atpxSlowWriter
	if sp.C2SStallUs > 0 {
		slow = &atpxSlowWriter{w: c2sW, d: time.Duration(sp.C2SStallUs) * time.Microsecond}
		c2sW = slow
	}
	cli := atp.NewClientWithLogger(atpxChannel{Reader: s2cR, Writer: c2sW}, nil)
	schemaRead := make(chan error, 1)
	go func() {
		_, err := cli.ReadSchema()
		schemaRead <- err
	}()
	select {
	case err := <-schemaRead:
		if err != nil {
			find("ReadSchema failed: %v", err)
			return
		}
	case <-time.After(timeout):
		find("ReadSchema did not return within %v", timeout)
		return
	}

	results := make([]*atp.ExecutionResult, len(calls))
	var rmu sync.Mutex
	exec := func(i int) {
		c := calls[i]
		done := make(chan atp.ExecutionResult, 1)
		go func() {
			var toStep chan schema.Input
			if c.Signal {
				toStep = make(chan schema.Input, 1)
				toStep <- schema.Input{RunID: c.RunID, ID: "sig", InputData: map[string]any{"note": "queued before Execute"}}
			}
			if len(c.Late) > 0 {
				toStep = make(chan schema.Input, len(c.Late))
				uid := ""
				if m, ok := c.Input.(map[string]any); ok {
					uid, _ = m["uid"].(string)
				}
				go func() {
					begin := time.Now()
					for _, ls := range c.Late {
						if d := time.Duration(ls.DelayUs)*time.Microsecond - time.Since(begin); d > 0 {
							time.Sleep(d)
						}
						toStep <- schema.Input{RunID: c.RunID, ID: ls.ID, InputData: map[string]any{"uid": uid}}
					}
				}()
			}
			if toStep != nil {
				done <- cli.Execute(schema.Input{RunID: c.RunID, ID: c.Step, InputData: c.Input}, toStep, nil)
			} else {
				done <- cli.Execute(schema.Input{RunID: c.RunID, ID: c.Step, InputData: c.Input}, nil, nil)
			}
		}()
		select {
		case r := <-done:
			rmu.Lock()
			results[i] = &r
			rmu.Unlock()
		case <-time.After(timeout):
		}
	}
	stopAt := len(calls)
	switch {
	case v1 || pattern == "serial":
		for i := range calls {
			exec(i)
			if v1 && expected[i].Err {
				// the legacy server ends the connection on a failing step
				stopAt = i + 1
				break
			}
		}
	case pattern == "rounds":
		for _, round := range sp.Rounds {
			// a lost result is reported once; the rounds after it would only wait for the watchdog
			rmu.Lock()
			lostAlready := false
			for i := 0; i < len(calls) && i < round[0]; i++ {
				if results[i] == nil {
					lostAlready = true
				}
			}
			rmu.Unlock()
			if lostAlready {
				stopAt = round[0]
				break
			}
			var wg sync.WaitGroup
			for _, i := range round {
				i := i
				wg.Add(1)
				go func() {
					defer wg.Done()
					if d := calls[i].Delay; d > 0 {
						time.Sleep(time.Duration(d) * time.Microsecond)
					}
					exec(i)
				}()
			}
			wg.Wait()
		}
	case pattern == "overlap":
		var wg sync.WaitGroup
		for i := range calls {
			i := i
			wg.Add(1)
			go func() { defer wg.Done(); exec(i) }()
		}
		wg.Wait()
	default: // waves of overlapping calls
		rnd := rand.New(rand.NewSource(seed))
		for i := 0; i < len(calls); {
			k := 1 + rnd.Intn(3)
			var wg sync.WaitGroup
			for j := i; j < i+k && j < len(calls); j++ {
				j := j
				wg.Add(1)
				go func() { defer wg.Done(); exec(j) }()
			}
			wg.Wait()
			i += k
		}
	}
	closed := make(chan error, 1)
	go func() { closed <- cli.Close() }()
	select {
	case err := <-closed:
		if err != nil {
			find("Close returned an error: %v", err)
		}
	case <-time.After(timeout):
		find("Close did not return within %v", timeout)
	}
	if v1 {
		_ = c2sW.Close()
	}
	// The client has stopped reading. A message the server still writes (e.g. its complaint about a
	// signal that arrived late) would otherwise wait for a reader on an unbuffered pipe until the
	// server's own 60 s send timeout.
	go func() { _, _ = io.Copy(io.Discard, s2cR) }()
	releaseAll() // what still waits inside the plugin (a hand-over nobody takes) ends now
	failing := 0
	for i := 0; i < stopAt; i++ {
		if expected[i].Err && !unsent[i] {
			failing++ // a failure the server sees
		}
	}
	serverNote := ""
	overtaken := false // a signal reached the server ahead of its work-start and was dropped with a complaint
	select {
	case n := <-serverDone:
		overtaken = n > failing
		switch sp.CountMode {
		case "skip": // refused calls never reach the server
		case "atleast": // signals that overtake their work-start draw an extra, non-fatal complaint
			if n < failing {
				serverNote = fmt.Sprintf("the server returned %d errors, %d steps failed", n, failing)
			}
		default:
			if n != failing {
				serverNote = fmt.Sprintf("the server returned %d errors, %d steps failed", n, failing)
			}
		}
	case <-time.After(timeout):
		serverNote = fmt.Sprintf("the server did not return within %v after Close", timeout)
	}
	_ = c2sW.Close()
	_ = c2sR.Close()
	_ = s2cR.Close()

	ownResult := map[string]bool{}
	for i := 0; i < stopAt; i++ {
		out.calls++
		rmu.Lock()
		r := results[i]
		rmu.Unlock()
		if r == nil {
			find("Execute %d (run %s, step %s) did not return within %v: result lost", i, calls[i].RunID, calls[i].Step, timeout)
			continue
		}
		got := atpxObserved(*r)
		want := expected[i]
		if want.Err {
			out.errs++
		}
		if unsent[i] {
			out.unsent++
		}
		if sp.CheckText && got == want && want.Err && !unsent[i] && r.Error != nil {
			if t, ok := atpxLastErrText.Load(calls[i].RunID + "\x00" + calls[i].Step); ok {
				want := t.(string)
				// the list of declared property names in "Invalid parameter 'x', expected one of: ..." follows
				// Go's map order: compare up to it
				if k := strings.Index(want, ", expected one of:"); k >= 0 {
					want = want[:k]
				}
				// with several required properties missing, which one is named first follows map order too
				if !strings.Contains(want, "This field is required") && !strings.Contains(r.Error.Error(), want) {
					find("Execute %d (run %s, step %s) returned an error that does not carry the step's own error text: got %q, in-process CallStep says %q",
						i, calls[i].RunID, calls[i].Step, atpxShort(r.Error.Error()), atpxShort(want))
				}
			}
		}
		if got != want && calls[i].MayBeRefused && got.Err {
			out.refused++
			continue // refused by the client as a duplicate of a run in flight
		}
		if got == want && !want.Err {
			ownResult[calls[i].RunID] = true
		}
		if got != want && sp.Stream == "init" && overtaken && calls[i].Step == "istep" && !got.Err {
			out.excused++
			continue // its release was dropped before the run existed: giving up is what in-process would do too
		}
		if got != want {
			what := "differs from the in-process result"
			for j := range calls {
				if j != i && got == expected[j] && !got.Err {
					what = fmt.Sprintf("is the result of run %s (cross-delivery)", calls[j].RunID)
				}
			}
			find("Execute %d (run %s, step %s) %s: got err=%v id=%q data=%s, want err=%v id=%q data=%s",
				i, calls[i].RunID, calls[i].Step, what, got.Err, got.OutID, atpxShort(got.Data), want.Err, want.OutID, atpxShort(want.Data))
		}
	}
	// of the calls sharing a run ID at least one was accepted and got its own result
	groups := map[string][2]int{} // run -> (calls, calls whose own result is not an error)
	for i := 0; i < stopAt; i++ {
		if calls[i].MayBeRefused {
			g := groups[calls[i].RunID]
			g[0]++
			if !expected[i].Err {
				g[1]++
			}
			groups[calls[i].RunID] = g
		}
	}
	var gkeys []string
	for k := range groups {
		gkeys = append(gkeys, k)
	}
	sort.Strings(gkeys)
	for _, k := range gkeys {
		if g := groups[k]; g[1] == g[0] && !ownResult[k] {
			find("none of the %d overlapping Executes with run ID %s returned its own result", g[0], k)
		}
	}
	if slow != nil {
		out.stalls = slow.writes
	}
	if sp.Stream == "init" {
		runs := 0
		for i := 0; i < stopAt; i++ {
			if calls[i].Step == "istep" && !expected[i].Err {
				runs++
			}
		}
		out.inits = atpxInitCalls.Take(sp.release)
		if out.inits != runs {
			find("[C11] the per-run initializer of step \"istep\" ran %d times for %d runs (a run's step and its signals must share one step data record, created once)", out.inits, runs)
		}
	}
	if serverNote != "" {
		// after the per-Execute differences, which say more
		find("%s", serverNote)
	}
	for _, cp := range chunkPipes {
		out.chunks += cp.chunks
	}
	if split != nil {
		out.pieces = split.pieces
	}
	if len(out.findings) > 4 {
		// the first four, and whatever belongs to another property
		var kept, other []string
		for _, f := range out.findings {
			if strings.HasPrefix(f, "[C11] ") {
				other = append(other, f)
			} else {
				kept = append(kept, f)
			}
		}
		if len(kept) > 4 {
			more := len(kept) - 4
			kept = append(kept[:4], fmt.Sprintf("... and %d more differences in the same session", more))
		}
		out.findings = append(kept, other...)
	}
	return out
}

func atpxShort(s string) string {
	if len(s) > 300 {
		return s[:300] + "..."
	}
	return s
}

// ---------------------------------------------------------------------------------------------
// the command

func atpxReplay(a Args, s *sink) {
	b, err := os.ReadFile(a.Replay)
	if err != nil {
		fmt.Fprintln(os.Stderr, "atpsession: replay:", err)
		os.Exit(2)
	}
	// a replay file written by the orchestrator (a finding with the session in detail[0]), a line of
	// findings.jsonl, or a bare session
	text := string(b)
	var fd struct {
		Detail []string `json:"detail"`
	}
	if json.Unmarshal(b, &fd) == nil && len(fd.Detail) > 0 {
		text = fd.Detail[0]
	}
	var sp atpxSpec
	if err := json.Unmarshal([]byte(text), &sp); err != nil || len(sp.Calls) == 0 {
		fmt.Fprintln(os.Stderr, "atpsession: replay: no session in", a.Replay, err)
		os.Exit(2)
	}
	reps := 5
	for i := 0; i < reps; i++ {
		cp := sp
		cp.Calls = append([]atpxCall{}, sp.Calls...)
		cp.Seed = sp.Seed + int64(i)*7
		r := atpxRunSession(&cp, 5*time.Second)
		s.stats["sessions"]++
		s.stats["executes"] += r.calls
		for _, f := range r.findings {
			desc, _ := json.Marshal(&cp)
			s.finding(Finding{Prop: "C05", What: f, Cases: []int{}, Detail: []string{string(desc)}})
		}
	}
	writeStats(a.Out, s, nil)
}

func atpxCmd(a Args) {
	if err := os.MkdirAll(a.Out, 0o755); err != nil {
		panic(err)
	}
	s := newSink(a.Out)
	defer s.close()
	if a.Replay != "" {
		atpxReplay(a, s)
		return
	}
	thorough := a.Tier == "thorough"
	n := a.N
	if thorough {
		n *= 10
	}
	g := &atpxGenT{g: hx.NewGen(a.Seed)}
	g.g.MaxDepth = 2
	var jobs []*atpxSpec
	for i := 0; i < n; i++ {
		p := g.plugin()
		maxCalls := 6
		if i%7 == 0 {
			maxCalls = 16
		}
		k := 1 + g.g.R.Intn(maxCalls)
		var calls []atpxCall
		for c := 0; c < k; c++ {
			st := p.Steps[g.g.R.Intn(len(p.Steps))]
			run := fmt.Sprintf("s%d-r%d", i, c)
			step := st.ID
			if g.g.R.Intn(25) == 0 {
				step = "no-such-step"
			}
			calls = append(calls, atpxCall{RunID: run, Step: step, V: g.input(st, run)})
		}
		pattern := []string{"serial", "overlap", "waves"}[g.g.R.Intn(3)]
		transport := []string{"pipe", "chunked", "split"}[g.g.R.Intn(3)]
		v1 := g.g.R.Intn(5) == 0
		if !v1 && pattern != "serial" && len(calls) >= 2 && g.g.R.Intn(5) == 0 {
			// one of the overlapping calls cannot even be written
			c := &calls[1+g.g.R.Intn(len(calls)-1)]
			if c.V != nil && c.V.Kind == "m" {
				c.V.M = append(c.V.M, [2]*hx.Val{hx.Str("zz-unencodable"), hx.Opaque(6 + g.g.R.Intn(2))})
			} else {
				c.V = hx.StrAny([2]*hx.Val{hx.Str("uid"), hx.Str(c.RunID)}, [2]*hx.Val{hx.Str("zz-unencodable"), hx.Opaque(7)})
			}
		}
		jobs = append(jobs, &atpxSpec{Idx: i, Stream: "generated", Plugin: p, Calls: calls, Pattern: pattern, Transport: transport, V1: v1, Seed: a.Seed*1000003 + int64(i)})
	}
	// the bulk stream: large work-done messages overlapping error reports over the split transport
	nBulk := 32
	if thorough {
		nBulk = 400
	}
	brnd := rand.New(rand.NewSource(a.Seed*31337 + 5))
	for i := 0; i < nBulk; i++ {
		jobs = append(jobs, atpxBulkSpec(n+i, brnd, a.Seed*2000003+int64(i)))
	}
	// the reuse stream: serial histories that reuse the run IDs of completed executions
	nReuse := 32
	if thorough {
		nReuse = 400
	}
	for i := 0; i < nReuse; i++ {
		idx := n + nBulk + i
		sp := &atpxSpec{Idx: idx, Stream: "reuse", Pattern: "serial", Transport: []string{"pipe", "chunked", "split"}[brnd.Intn(3)], Seed: a.Seed*3000017 + int64(i)}
		pool := 2 + brnd.Intn(3)
		k := 5 + brnd.Intn(6)
		used := map[int]int{}
		if i%2 == 0 {
			sp.Plugin = g.plugin()
		}
		for c := 0; c < k; c++ {
			id := brnd.Intn(pool)
			if c >= 2 && len(used) >= 2 && brnd.Intn(2) == 0 {
				// certainly a reuse: one of the IDs used so far
				var keys []int
				for u := range used {
					keys = append(keys, u)
				}
				sort.Ints(keys)
				id = keys[brnd.Intn(len(keys))]
			}
			used[id]++
			run := fmt.Sprintf("u%d-%c", idx, 'a'+id)
			uid := fmt.Sprintf("%s#%d", run, c)
			call := atpxCall{RunID: run}
			if sp.Plugin != nil {
				st := sp.Plugin.Steps[g.g.R.Intn(len(sp.Plugin.Steps))]
				call.Step = st.ID
				call.V = g.input(st, uid)
				if brnd.Intn(8) == 0 {
					call.Step = "no-such-step"
				}
			} else {
				call.Step = "bulk"
				switch kind := brnd.Intn(100); {
				case kind < 55:
					call.V = hx.StrAny([2]*hx.Val{hx.Str("uid"), hx.Str(uid)}, [2]*hx.Val{hx.Str("size"), hx.Int("int64", int64(brnd.Intn(3000)))})
				case kind < 80:
					call.V = hx.StrAny([2]*hx.Val{hx.Str("uid"), hx.Str(uid)}, [2]*hx.Val{hx.Str("size"), hx.Str("large")})
				case kind < 90:
					call.V = hx.StrAny([2]*hx.Val{hx.Str("size"), hx.Int("int64", 10)})
				default:
					call.Step = "no-such-step"
					call.V = hx.StrAny([2]*hx.Val{hx.Str("uid"), hx.Str(uid)}, [2]*hx.Val{hx.Str("size"), hx.Int("int64", 8)})
				}
			}
			sp.Calls = append(sp.Calls, call)
		}
		sp.Bulk = sp.Plugin == nil
		reuses := 0
		for _, v := range used {
			reuses += v - 1
		}
		sp.Reuses = reuses
		jobs = append(jobs, sp)
	}
	// the dup and signal streams
	nDup, nSig := 24, 48
	if thorough {
		nDup, nSig = 300, 600
	}
	for i := 0; i < nDup; i++ {
		jobs = append(jobs, atpxDupSpec(n+nBulk+nReuse+i, brnd, a.Seed*4000037+int64(i)))
	}
	for i := 0; i < nSig; i++ {
		jobs = append(jobs, atpxSignalSpec(n+nBulk+nReuse+nDup+i, brnd, a.Seed*5000011+int64(i), i%2 == 1))
	}
	// the rawinput and blank streams
	nRaw, nBlank := 30, 16
	if thorough {
		nRaw, nBlank = 300, 200
	}
	base := n + nBulk + nReuse + nDup + nSig
	for i := 0; i < nRaw; i++ {
		jobs = append(jobs, atpxRawInputSpec(base+i, brnd, a.Seed*6000029+int64(i)))
	}
	for i := 0; i < nBlank; i++ {
		jobs = append(jobs, atpxBlankSpec(base+nRaw+i, brnd, a.Seed*7000033+int64(i)))
	}
	nPat, nStepID := 24, 20
	if thorough {
		nPat, nStepID = 300, 200
	}
	for i := 0; i < nStepID; i++ {
		jobs = append(jobs, atpxStepIDSpec(base+nRaw+nBlank+nPat+i, brnd, a.Seed*9000067+int64(i)))
	}
	nAwait, nInit := 24, 24
	if thorough {
		nAwait, nInit = 300, 300
	}
	for i := 0; i < nInit; i++ {
		jobs = append(jobs, atpxInitSpec(base+nRaw+nBlank+nPat+nStepID+nAwait+i, brnd, a.Seed*9700111+int64(i)))
	}
	for i := 0; i < nAwait; i++ {
		jobs = append(jobs, atpxAwaitSpec(base+nRaw+nBlank+nPat+nStepID+i, brnd, a.Seed*9500093+int64(i)))
	}
	for i := 0; i < nPat; i++ {
		jobs = append(jobs, atpxPatternSpec(base+nRaw+nBlank+i, brnd, a.Seed*8000051+int64(i)))
	}
	results := make([]atpxSessionResult, len(jobs))
	sem := make(chan struct{}, 16)
	var wg sync.WaitGroup
	for ji, j := range jobs {
		ji, j := ji, j
		sem <- struct{}{}
		wg.Add(1)
		go func() {
			defer wg.Done()
			defer func() { <-sem }()
			defer func() {
				if r := recover(); r != nil {
					results[ji] = atpxSessionResult{findings: []string{fmt.Sprintf("harness-side panic: %v", r)}}
				}
			}()
			timeout := 10 * time.Second
			if j.Stream == "bulk" {
				timeout = 5 * time.Second
			}
			if j.Stream == "dup" || j.Stream == "signal" || j.Stream == "blank" || j.Stream == "rawinput" || j.Stream == "pattern" || j.Stream == "stepid" || j.Stream == "await" || j.Stream == "init" {
				timeout = 4 * time.Second
			}
			results[ji] = atpxRunSession(j, timeout)
		}()
	}
	wg.Wait()
	for ji, j := range jobs {
		r := results[ji]
		ver := "v3"
		if j.V1 {
			ver = "v1"
		}
		s.stats["sessions"]++
		s.stats["stream:"+j.Stream]++
		s.stats["pattern:"+j.Pattern]++
		s.stats["transport:"+j.Transport]++
		s.stats["version:"+ver]++
		s.stats["executes"] += r.calls
		s.stats["executes-expected-error"] += r.errs
		s.stats["chunks"] += r.chunks
		s.stats["split-pieces"] += r.pieces
		s.stats["executes-unencodable-input"] += r.unsent
		if j.Stream == "bulk" {
			s.stats["bulk:executes"] += r.calls
			s.stats["bulk:rounds"] += len(j.Rounds)
		} else if j.Stream == "rawinput" || j.Stream == "blank" || j.Stream == "pattern" || j.Stream == "stepid" || j.Stream == "await" || j.Stream == "init" {
			s.stats["init:initializer-calls"] += r.inits
			s.stats["init:excused-overtaken"] += r.excused
			s.stats[j.Stream+":executes"] += r.calls
		} else if j.Stream == "dup" {
			s.stats["dup:executes"] += r.calls
			s.stats["dup:refused"] += r.refused
		} else if j.Stream == "signal" {
			s.stats["signal:executes"] += r.calls
			s.stats["signal:stalled-writes"] += r.stalls
		} else if j.Stream == "reuse" {
			s.stats["reuse:executes"] += r.calls
			s.stats["reuse:run-id-reuses"] += j.Reuses
		} else {
			s.stats[fmt.Sprintf("calls-per-session:%02d", len(j.Calls))]++
		}
		for _, f := range r.findings {
			desc, _ := json.Marshal(j)
			prop := "C05"
			if strings.HasPrefix(f, "[C11] ") {
				prop, f = "C11", strings.TrimPrefix(f, "[C11] ")
			}
			s.finding(Finding{Prop: prop, What: f, Cases: []int{}, Detail: []string{string(desc)}})
		}
	}
	keys := make([]string, 0)
	for k := range s.stats {
		keys = append(keys, k)
	}
	sort.Strings(keys)
	writeStats(a.Out, s, g.g)
}
