package main

import (
	"bufio"
	"encoding/json"
	"fmt"
	"math"
	"math/big"
	"math/rand"
	"os"
	"reflect"
	"regexp"
	"sort"
	"strconv"
	"strings"

	"go.flow.arcalot.io/pluginsdk/schema"
	"harness/hx"
)

// Sub-command `structmodel`: struct-mapped objects against the Lean model Model/StructMap.lean
// (driver ops SMU / SMV / SMS).
//
// Go struct types must exist at compile time, so the stream works over a fixed family of
// hand-written struct types (pointer and value fields, nested structs by value and by pointer,
// slices and maps of scalars and of structs, `any`, json tags that differ from the field names,
// clashing tags, fields without tag, unexported fields, one property name at several levels with
// different pointer-ness) and generates, over them, random schemas
// (which fields are properties and under which ID, required / default / required_if /
// required_if_not / conflicts, treat-empty-as-default, disabled, properties without a field,
// properties on unexported fields, mismatched property types, pointer-typed T, typed objects and
// typed scopes, references in one scope or nested objects, scope-wrapped sub-objects) and random
// inputs (valid, keys missing, zero values, extra keys, wrong types; for Validate / Serialize: the
// unserialized structs, structs mutated through reflection, values of the wrong type). The struct
// type is described to the model by reflection (name, json tag, exportedness, static type, zero
// value of every field); nothing about a struct type is written by hand on the model side.

// ---------------------------------------------------------------------------------------------
// the struct family

type zmName string
type zmLevel int32

type zmPtrs struct {
	S *string  `json:"s"`
	N *int64   `json:"n"`
	B *bool    `json:"b"`
	F *float64 `json:"f"`
	X any      `json:"x"`
}

type zmVals struct {
	Title  string  `json:"title"`
	Port   uint16  `json:"port"`
	Narrow int32   `json:"narrow,omitempty"`
	Big    uint64  `json:"big"`
	Ratio  float32 `json:"ratio"`
	Score  float64 `json:"score"`
	Kind   zmName  `json:"kind"`
	Lvl    zmLevel `json:"lvl"`
	On     bool    `json:"on"`
	hidden int64   `json:"hidden"` //nolint:unused
	Spare  string
	spare2 string //nolint:unused
}

type zmInner struct {
	Level int64   `json:"level"`
	Tag   string  `json:"tag"`
	P     *string `json:"p"`
}

type zmMid struct {
	Inner  zmInner  `json:"inner"`
	InnerP *zmInner `json:"innerp"`
	Note   *string  `json:"note"`
	Flag   bool     `json:"flag"`
	Vals   zmVals   `json:"vals"`
}

type zmTop struct {
	Name   string             `json:"name"`
	Mid    zmMid              `json:"mid"`
	MidP   *zmMid             `json:"midp"`
	Ptrs   *zmPtrs            `json:"ptrs"`
	Items  []string           `json:"items"`
	Nums   []int64            `json:"nums"`
	M      map[string]int64   `json:"m"`
	Any    any                `json:"any"`
	Inners []zmInner          `json:"inners"`
	ByKey  map[string]zmInner `json:"bykey"`
	Obj    map[string]any     `json:"obj"`
	Re     *regexp.Regexp     `json:"re"`
	Count  *int64             `json:"count"`
	other  int                //nolint:unused
}

// clashing tags: "x" names two fields (no match by tag, none by name: the constructor panics),
// "Y" is the tag of Z and the name of Y (the tag wins), "y" is the tag of Y.
type zmDup struct {
	A string `json:"x"`
	B string `json:"x"`
	X string
	Y int64 `json:"y"`
	Z int64 `json:"Y"`
}

// members of one-ofs: two plain shapes, and two pairs whose `kind` field carries an INLINED
// discriminator (int and string keyed), as in typed.go's tyStop / tyGo
type zmCircle struct {
	R     int64    `json:"r"`
	Tags  []string `json:"tags"`
	Label *string  `json:"label"`
}

type zmSquare struct {
	S    int64  `json:"s"`
	Port uint16 `json:"port"`
}

type zmStop struct {
	Kind   int64  `json:"kind"`
	Reason string `json:"reason"`
}

type zmGo struct {
	Kind  int64  `json:"kind"`
	Speed *int64 `json:"speed"`
}

type zmStopS struct {
	Kind   string `json:"kind"`
	Reason string `json:"reason"`
}

type zmGoS struct {
	Kind  string `json:"kind"`
	Speed int64  `json:"speed"`
}

// one property name (`limits`) at several levels with different pointer-ness: whether a sub-object is
// filled in from its defaults is decided with the field table of the struct that OWNS the property
// (expandSubObjectDefaultValues), and an absent block without defaults below it stays absent
type zmLim struct {
	Max  int64  `json:"max"`
	Min  *int64 `json:"min"`
	Unit string `json:"unit"`
}

type zmBoxV struct { // `limits` on a plain field
	Limits zmLim   `json:"limits"`
	Label  *string `json:"label"`
}

type zmBoxP struct { // `limits` behind a pointer
	Limits *zmLim  `json:"limits"`
	Label  *string `json:"label"`
}

type zmOuterP struct { // `limits` behind a pointer, below it (by value) on a plain field
	Limits *zmLim  `json:"limits"`
	Box    zmBoxV  `json:"box"`
	Name   *string `json:"name"`
}

type zmOuterV struct { // the mirror image
	Limits zmLim   `json:"limits"`
	Box    zmBoxP  `json:"box"`
	Name   *string `json:"name"`
}

type zmNest struct { // three levels: pointer, plain (outer.limits), pointer (outer.box.limits)
	Limits *zmLim   `json:"limits"`
	Outer  zmOuterV `json:"outer"`
	Name   *string  `json:"name"`
}

type zmType struct {
	rt    reflect.Type
	build func(id string, props map[string]*schema.PropertySchema, ptr bool) *schema.ObjectSchema
	// typed entry points of NewTypedObject[T] (1), its Any() view (2), NewTypedScopeSchema[T] (3)
	typed func(kind int, id string, props map[string]*schema.PropertySchema) (schema.Type, smOps)
}

type smOps struct {
	u func(any) (any, error)
	v func(any) error
	s func(any) (any, error)
}

func zmReg[T any]() *zmType {
	return &zmType{
		rt: reflect.TypeOf((*T)(nil)).Elem(),
		build: func(id string, props map[string]*schema.PropertySchema, ptr bool) *schema.ObjectSchema {
			if ptr {
				return schema.NewStructMappedObjectSchema[*T](id, props)
			}
			return schema.NewStructMappedObjectSchema[T](id, props)
		},
		typed: func(kind int, id string, props map[string]*schema.PropertySchema) (schema.Type, smOps) {
			switch kind {
			case 1:
				ts := schema.NewTypedObject[T](id, props)
				return ts, smOps{
					u: func(x any) (any, error) {
						r, err := ts.UnserializeType(x)
						if err != nil {
							return nil, err
						}
						return r, nil
					},
					v: func(x any) error {
						if d, ok := x.(T); ok {
							return ts.ValidateType(d)
						}
						return ts.Validate(x)
					},
					s: func(x any) (any, error) {
						if d, ok := x.(T); ok {
							return ts.SerializeType(d)
						}
						return ts.Serialize(x)
					},
				}
			case 2:
				as := schema.NewTypedObject[T](id, props).Any()
				return as, smOps{u: as.UnserializeType, v: as.ValidateType, s: as.SerializeType}
			default:
				ts := schema.NewTypedScopeSchema[T](schema.NewStructMappedObjectSchema[T](id, props))
				return ts, smOps{
					u: func(x any) (any, error) {
						r, err := ts.UnserializeType(x)
						if err != nil {
							return nil, err
						}
						return r, nil
					},
					v: func(x any) error {
						if d, ok := x.(T); ok {
							return ts.ValidateType(d)
						}
						return ts.Validate(x)
					},
					s: func(x any) (any, error) {
						if d, ok := x.(T); ok {
							return ts.SerializeType(d)
						}
						return ts.Serialize(x)
					},
				}
			}
		},
	}
}

var zmTypes = []*zmType{zmReg[zmTop](), zmReg[zmMid](), zmReg[zmInner](), zmReg[zmVals](), zmReg[zmPtrs](), zmReg[zmDup](),
	zmReg[zmOuterP](), zmReg[zmOuterV](), zmReg[zmNest](), zmReg[zmBoxV](), zmReg[zmBoxP](), zmReg[zmLim](),
	zmReg[zmCircle](), zmReg[zmSquare](), zmReg[zmStop](), zmReg[zmGo](), zmReg[zmStopS](), zmReg[zmGoS]()}

// zmRoots: the first nine are used as roots of generated groups
const zmRoots = 9

func zmLookup(rt reflect.Type) *zmType {
	for _, z := range zmTypes {
		if z.rt == rt {
			return z
		}
	}
	return nil
}

func zmByName(name string) *zmType {
	for _, z := range zmTypes {
		if z.rt.Name() == name {
			return z
		}
	}
	return nil
}

var zmRegexpT = reflect.TypeOf((*regexp.Regexp)(nil))

// ---------------------------------------------------------------------------------------------
// JSON forms (Lean: Arca.SM.GoTy, Field, StructTy, STy, SProp)

type sGoTy struct {
	G  string `json:"g"`
	K  any    `json:"k,omitempty"` // int/float kind name, or the key type of a map
	ID string `json:"id,omitempty"`
	U  *sGoTy `json:"u,omitempty"`
	E  *sGoTy `json:"e,omitempty"`
	V  *sGoTy `json:"v,omitempty"`
}

type sField struct {
	Name     string  `json:"name"`
	Tag      string  `json:"tag"`
	Exported bool    `json:"exported"`
	Ty       *sGoTy  `json:"ty"`
	Zero     *hx.Val `json:"zero"`
}

type sStruct struct {
	Name   string    `json:"name"`
	Fields []*sField `json:"fields"`
}

type sProp struct {
	Ty             *sTy        `json:"ty"`
	Required       bool        `json:"required,omitempty"`
	RequiredIf     []string    `json:"requiredIf,omitempty"`
	RequiredIfNot  []string    `json:"requiredIfNot,omitempty"`
	Conflicts      []string    `json:"conflicts,omitempty"`
	Default        *hx.Default `json:"default,omitempty"`
	Disabled       bool        `json:"disabled,omitempty"`
	EmptyIsDefault bool        `json:"emptyIsDefault,omitempty"`
}

type sNamedProp struct {
	Name string
	P    *sProp
}

func (n sNamedProp) MarshalJSON() ([]byte, error) { return json.Marshal([]any{n.Name, n.P}) }
func (n *sNamedProp) UnmarshalJSON(b []byte) error {
	var raw []json.RawMessage
	if err := json.Unmarshal(b, &raw); err != nil || len(raw) != 2 {
		return fmt.Errorf("bad named property")
	}
	if err := json.Unmarshal(raw[0], &n.Name); err != nil {
		return err
	}
	n.P = &sProp{}
	return json.Unmarshal(raw[1], n.P)
}

type sTy struct {
	T     string       `json:"t"`
	Ty    *hx.Ty       `json:"ty,omitempty"`
	Item  *sTy         `json:"item,omitempty"`
	K     *hx.Ty       `json:"k,omitempty"`
	V     *sTy         `json:"v,omitempty"`
	Min   *string      `json:"min,omitempty"`
	Max   *string      `json:"max,omitempty"`
	Inner *sTy         `json:"inner,omitempty"`
	ID    string       `json:"id,omitempty"`
	PtrT  bool         `json:"ptrT,omitempty"`
	St    *sStruct     `json:"st,omitempty"`
	Props []sNamedProp `json:"props,omitempty"`
	// one-of over struct-mapped members
	IntKey  bool      `json:"intKey,omitempty"`
	Disc    string    `json:"disc,omitempty"`
	Inlined bool      `json:"inlined,omitempty"`
	Members []sMember `json:"members,omitempty"`
}

type sMember struct {
	Key string // decimal for int keys
	Ty  *sTy
}

func (m sMember) MarshalJSON() ([]byte, error) { return json.Marshal([]any{m.Key, m.Ty}) }
func (m *sMember) UnmarshalJSON(b []byte) error {
	var raw []json.RawMessage
	if err := json.Unmarshal(b, &raw); err != nil || len(raw) != 2 {
		return fmt.Errorf("bad one-of member")
	}
	if err := json.Unmarshal(raw[0], &m.Key); err != nil {
		return err
	}
	m.Ty = &sTy{}
	return json.Unmarshal(raw[1], m.Ty)
}

func goTyOf(rt reflect.Type) *sGoTy {
	scalar := func(g string, k any) *sGoTy {
		base := &sGoTy{G: g, K: k}
		if rt.PkgPath() != "" {
			return &sGoTy{G: "named", ID: rt.Name(), U: base}
		}
		return base
	}
	switch rt.Kind() {
	case reflect.Bool:
		return scalar("bool", nil)
	case reflect.Int, reflect.Int8, reflect.Int16, reflect.Int32, reflect.Int64,
		reflect.Uint, reflect.Uint8, reflect.Uint16, reflect.Uint32, reflect.Uint64:
		return scalar("int", rt.Kind().String())
	case reflect.Float32:
		return scalar("float", "f32")
	case reflect.Float64:
		return scalar("float", "f64")
	case reflect.String:
		return scalar("str", nil)
	case reflect.Interface:
		return &sGoTy{G: "iface"}
	case reflect.Slice:
		return &sGoTy{G: "slice", E: goTyOf(rt.Elem())}
	case reflect.Map:
		return &sGoTy{G: "map", K: goTyOf(rt.Key()), V: goTyOf(rt.Elem())}
	case reflect.Struct:
		return &sGoTy{G: "struct", ID: rt.Name()}
	case reflect.Pointer:
		if rt == zmRegexpT {
			return &sGoTy{G: "regex"}
		}
		return &sGoTy{G: "ptr", E: goTyOf(rt.Elem())}
	}
	panic("structmodel: unsupported field type " + rt.String())
}

func describeStruct(rt reflect.Type) *sStruct {
	st := &sStruct{Name: rt.Name()}
	for i := 0; i < rt.NumField(); i++ {
		f := rt.Field(i)
		st.Fields = append(st.Fields, &sField{
			Name: f.Name, Tag: f.Tag.Get("json"), Exported: f.IsExported(),
			Ty: goTyOf(f.Type), Zero: encSV(reflect.Zero(f.Type)),
		})
	}
	return st
}

// ---------------------------------------------------------------------------------------------
// Go value -> SV (type-directed; reads unexported fields without Interface())

func smTag(tag string, va bool, kvs ...[2]*hx.Val) *hx.Val {
	return &hx.Val{Kind: "m", MK: tag, MVA: va, M: kvs}
}

func hasStruct(rt reflect.Type) bool {
	switch rt.Kind() {
	case reflect.Struct:
		return true
	case reflect.Pointer:
		return rt != zmRegexpT
	case reflect.Slice, reflect.Map:
		return hasStruct(rt.Elem())
	}
	return false
}

func hasIface(rt reflect.Type) bool {
	switch rt.Kind() {
	case reflect.Interface:
		return true
	case reflect.Pointer:
		return rt != zmRegexpT && hasIface(rt.Elem())
	case reflect.Slice, reflect.Map:
		return hasIface(rt.Elem())
	case reflect.Struct:
		for i := 0; i < rt.NumField(); i++ {
			if hasIface(rt.Field(i).Type) {
				return true
			}
		}
	}
	return false
}

func keyTag(rt reflect.Type) string {
	switch {
	case rt.Kind() == reflect.Interface:
		return "any"
	case rt == reflect.TypeOf(""):
		return "string"
	case rt == reflect.TypeOf(int64(0)):
		return "int64"
	}
	return "other"
}

func encSV(rv reflect.Value) *hx.Val {
	if !rv.IsValid() {
		return hx.Nil()
	}
	rt := rv.Type()
	named := func(v *hx.Val) *hx.Val {
		if rt.PkgPath() != "" {
			return hx.Named(v)
		}
		return v
	}
	switch rv.Kind() {
	case reflect.Bool:
		return named(hx.Bool(rv.Bool()))
	case reflect.Int, reflect.Int8, reflect.Int16, reflect.Int32, reflect.Int64:
		return named(hx.Int(rv.Kind().String(), rv.Int()))
	case reflect.Uint, reflect.Uint8, reflect.Uint16, reflect.Uint32, reflect.Uint64:
		return named(hx.Uint(rv.Kind().String(), rv.Uint()))
	case reflect.Float32:
		return named(hx.F32(float32(rv.Float())))
	case reflect.Float64:
		return named(hx.F64(rv.Float()))
	case reflect.String:
		return named(hx.Str(rv.String()))
	case reflect.Interface:
		if rv.IsNil() {
			return hx.Nil()
		}
		return encSV(rv.Elem())
	case reflect.Pointer:
		if rv.IsNil() {
			return smTag("nilptr", false)
		}
		if rt == zmRegexpT {
			return hx.Enc(rv.Interface())
		}
		return smTag("ptr", false, [2]*hx.Val{hx.Str("*"), encSV(rv.Elem())})
	case reflect.Struct:
		out := smTag("struct:"+rt.Name(), false)
		for i := 0; i < rt.NumField(); i++ {
			out.M = append(out.M, [2]*hx.Val{hx.Str(rt.Field(i).Name), encSV(rv.Field(i))})
		}
		return out
	case reflect.Slice:
		if rv.IsNil() {
			return smTag("nilslice", false)
		}
		if hasStruct(rt.Elem()) {
			out := smTag("slice", false)
			for i := 0; i < rv.Len(); i++ {
				out.M = append(out.M, [2]*hx.Val{hx.Int("int", int64(i)), encSV(rv.Index(i))})
			}
			return out
		}
		return hx.Enc(rv.Interface())
	case reflect.Map:
		va := rt.Elem().Kind() == reflect.Interface && rt.Elem().NumMethod() == 0
		if rv.IsNil() {
			return smTag("nilmap:"+keyTag(rt.Key()), va)
		}
		if hasStruct(rt.Elem()) {
			out := smTag("smap:"+keyTag(rt.Key()), va)
			for it := rv.MapRange(); it.Next(); {
				out.M = append(out.M, [2]*hx.Val{hx.Enc(it.Key().Interface()), encSV(it.Value())})
			}
			return out
		}
		return hx.Enc(rv.Interface())
	}
	return hx.Opaque(0)
}

// encAny encodes what an SDK call returned or is given.
func encAny(x any) *hx.Val {
	if x == nil {
		return hx.Nil()
	}
	return encSV(reflect.ValueOf(x))
}

// ---------------------------------------------------------------------------------------------
// SV (JSON) -> Go value, for replays

func decInto(rv reflect.Value, v *hx.Val) error {
	rt := rv.Type()
	if v == nil || v.Kind == "nil" {
		rv.Set(reflect.Zero(rt))
		return nil
	}
	special := v.Kind == "m" && (v.MK == "nilptr" || v.MK == "ptr" || v.MK == "nilslice" || v.MK == "slice" ||
		strings.HasPrefix(v.MK, "struct:") || strings.HasPrefix(v.MK, "nilmap:") || strings.HasPrefix(v.MK, "smap:"))
	if !special {
		if rt.Kind() == reflect.Interface {
			rv.Set(reflect.ValueOf(v.ToGo()))
			return nil
		}
		g := reflect.ValueOf(v.ToGo())
		if v.Kind == "n" {
			// a defined scalar type: the harness's own named types stand in; convert to the field's
			g = reflect.ValueOf(v.N.ToGo())
		}
		if g.Type().ConvertibleTo(rt) && (g.Kind() == rt.Kind() || rt.Kind() == reflect.Slice || rt.Kind() == reflect.Map) {
			if rt.Kind() == reflect.Slice && g.Type() != rt {
				out := reflect.MakeSlice(rt, g.Len(), g.Len())
				for i := 0; i < g.Len(); i++ {
					out.Index(i).Set(reflect.ValueOf(g.Index(i).Interface()).Convert(rt.Elem()))
				}
				rv.Set(out)
				return nil
			}
			if rt.Kind() == reflect.Map && g.Type() != rt {
				out := reflect.MakeMap(rt)
				for it := g.MapRange(); it.Next(); {
					out.SetMapIndex(reflect.ValueOf(it.Key().Interface()).Convert(rt.Key()), reflect.ValueOf(it.Value().Interface()).Convert(rt.Elem()))
				}
				rv.Set(out)
				return nil
			}
			rv.Set(g.Convert(rt))
			return nil
		}
		if rt.Kind() == reflect.Slice && g.Kind() == reflect.Slice {
			out := reflect.MakeSlice(rt, g.Len(), g.Len())
			for i := 0; i < g.Len(); i++ {
				out.Index(i).Set(reflect.ValueOf(g.Index(i).Interface()).Convert(rt.Elem()))
			}
			rv.Set(out)
			return nil
		}
		if rt.Kind() == reflect.Map && g.Kind() == reflect.Map {
			out := reflect.MakeMap(rt)
			for it := g.MapRange(); it.Next(); {
				out.SetMapIndex(reflect.ValueOf(it.Key().Interface()).Convert(rt.Key()), reflect.ValueOf(it.Value().Interface()).Convert(rt.Elem()))
			}
			rv.Set(out)
			return nil
		}
		return fmt.Errorf("cannot place %s into %s", v.Kind, rt)
	}
	if rt.Kind() == reflect.Interface {
		x, err := decTop(v)
		if err != nil {
			return err
		}
		if x == nil {
			rv.Set(reflect.Zero(rt))
		} else {
			rv.Set(reflect.ValueOf(x))
		}
		return nil
	}
	switch {
	case v.MK == "nilptr" || v.MK == "nilslice" || strings.HasPrefix(v.MK, "nilmap:"):
		rv.Set(reflect.Zero(rt))
	case v.MK == "ptr":
		if rt.Kind() != reflect.Pointer {
			return fmt.Errorf("pointer value for %s", rt)
		}
		p := reflect.New(rt.Elem())
		if err := decInto(p.Elem(), v.M[0][1]); err != nil {
			return err
		}
		rv.Set(p)
	case strings.HasPrefix(v.MK, "struct:"):
		if rt.Kind() != reflect.Struct {
			return fmt.Errorf("struct value for %s", rt)
		}
		for _, kv := range v.M {
			f, ok := rt.FieldByName(kv[0].S)
			if !ok {
				return fmt.Errorf("no field %s in %s", kv[0].S, rt)
			}
			if !f.IsExported() {
				continue // unexported fields cannot be set from outside; they keep their zero value
			}
			if err := decInto(rv.FieldByIndex(f.Index), kv[1]); err != nil {
				return err
			}
		}
	case v.MK == "slice":
		out := reflect.MakeSlice(rt, len(v.M), len(v.M))
		for i, kv := range v.M {
			if err := decInto(out.Index(i), kv[1]); err != nil {
				return err
			}
		}
		rv.Set(out)
	case strings.HasPrefix(v.MK, "smap:"):
		out := reflect.MakeMap(rt)
		for _, kv := range v.M {
			e := reflect.New(rt.Elem()).Elem()
			if err := decInto(e, kv[1]); err != nil {
				return err
			}
			out.SetMapIndex(reflect.ValueOf(kv[0].ToGo()).Convert(rt.Key()), e)
		}
		rv.Set(out)
	}
	return nil
}

// decTop rebuilds the top-level Go value of a replayed Validate / Serialize case.
func decTop(v *hx.Val) (any, error) {
	if v == nil || v.Kind != "m" {
		return v.ToGo(), nil
	}
	sv := v
	ptr := false
	if v.MK == "ptr" {
		ptr = true
		sv = v.M[0][1]
	}
	if sv.Kind == "m" && strings.HasPrefix(sv.MK, "struct:") {
		z := zmByName(strings.TrimPrefix(sv.MK, "struct:"))
		if z == nil {
			return nil, fmt.Errorf("unknown struct type %s", sv.MK)
		}
		p := reflect.New(z.rt)
		if err := decInto(p.Elem(), sv); err != nil {
			return nil, err
		}
		if ptr {
			return p.Interface(), nil
		}
		return p.Elem().Interface(), nil
	}
	if v.MK == "nilptr" {
		return (*zmTop)(nil), nil
	}
	return v.ToGo(), nil
}

// ---------------------------------------------------------------------------------------------
// building the real schema

type smBuilt struct {
	root schema.Type
	ops  smOps
}

// buildSM constructs a fresh schema. mode: 0 nested objects, bare root; 1 nested objects, root in a
// scope; 2 every struct-mapped object in ONE scope, linked by references; 3 NewTypedObject[T];
// 4 its Any() view; 5 NewTypedScopeSchema[T].
func buildSM(t *sTy, mode int) smBuilt {
	var hoisted []*schema.ObjectSchema
	var build func(t *sTy, top bool) schema.Type
	buildProps := func(t *sTy) map[string]*schema.PropertySchema {
		props := map[string]*schema.PropertySchema{}
		// insertion order decides the slots of a small Go map, and iteration only rotates them: a random
		// insertion order per instance makes every relative order of two properties equally likely
		for _, pi := range rand.Perm(len(t.Props)) {
			np := t.Props[pi]
			p := np.P
			var def *string
			if p.Default != nil {
				def = hx.StrP(p.Default.Text)
			}
			own := func(l []string) []string {
				if l == nil {
					return nil
				}
				return append(make([]string, 0, len(l)), l...)
			}
			ps := schema.NewPropertySchema(build(p.Ty, false), nil, p.Required, own(p.RequiredIf), own(p.RequiredIfNot), own(p.Conflicts), def, nil)
			if p.Disabled {
				ps.Disable("harness")
			}
			if p.EmptyIsDefault {
				ps.TreatEmptyAsDefaultValue()
			}
			props[np.Name] = ps
		}
		return props
	}
	build = func(t *sTy, top bool) schema.Type {
		switch t.T {
		case "leaf":
			return t.Ty.Build()
		case "list":
			return schema.NewListSchema(build(t.Item, false), smOptInt(t.Min), smOptInt(t.Max))
		case "map":
			return schema.NewMapSchema(t.K.Build(), build(t.V, false), smOptInt(t.Min), smOptInt(t.Max))
		case "scope":
			inner := build(t.Inner, top)
			if o, ok := inner.(*schema.ObjectSchema); ok {
				return schema.NewScopeSchema(o)
			}
			return inner
		case "oneOf":
			if t.IntKey {
				members := map[int64]schema.Object{}
				for _, m := range t.Members {
					n, err := strconv.ParseInt(m.Key, 10, 64)
					if err != nil {
						panic(err)
					}
					members[n] = build(m.Ty, false).(schema.Object)
				}
				return schema.NewOneOfIntSchema[any](members, t.Disc, t.Inlined)
			}
			members := map[string]schema.Object{}
			for _, m := range t.Members {
				members[m.Key] = build(m.Ty, false).(schema.Object)
			}
			return schema.NewOneOfStringSchema[any](members, t.Disc, t.Inlined)
		case "sobj":
			z := zmByName(t.St.Name)
			o := z.build(t.ID, buildProps(t), t.PtrT)
			if mode == 2 && !top {
				hoisted = append(hoisted, o)
				return schema.NewRefSchema(t.ID, nil)
			}
			return o
		}
		panic("structmodel: bad node " + t.T)
	}
	generic := func(s schema.Type) smBuilt {
		return smBuilt{root: s, ops: smOps{u: s.Unserialize, v: s.Validate, s: s.Serialize}}
	}
	obj := t
	if t.T == "scope" {
		obj = t.Inner
	}
	switch mode {
	case 3, 4, 5:
		z := zmByName(obj.St.Name)
		s, ops := z.typed(mode-2, obj.ID, buildProps(obj))
		return smBuilt{root: s, ops: ops}
	case 2:
		root := build(obj, true).(*schema.ObjectSchema)
		return generic(schema.NewScopeSchema(root, hoisted...))
	default:
		return generic(build(t, true))
	}
}

func smOptInt(p *string) *int64 {
	if p == nil {
		return nil
	}
	n := new(big.Int)
	n.SetString(*p, 10)
	x := n.Int64()
	return &x
}

// ---------------------------------------------------------------------------------------------
// generation of schemas

type smGen struct {
	g      *hx.Gen
	nextID int
	stats  map[string]int
	// features of the schema being generated
	illFormed map[string]bool
	// set by schemaFor when it deliberately picked a type that does not fit the field
	mismatch bool
	// faithful: generate only pairs in the scope of the end-to-end round-trip theorem (rtOKB): exact field
	// types, treat-empty-as-default only on optional leaves without default, presence rules only between
	// properties on pointer / interface fields, optional non-pointer properties accept their zero value
	faithful bool
}

// smExactCapable: can a property's reflected type be exactly this field type (or what it points to)?
func smExactCapable(rt reflect.Type) bool {
	switch rt.Kind() {
	case reflect.String, reflect.Bool, reflect.Int64, reflect.Float64:
		return rt.PkgPath() == ""
	case reflect.Interface:
		return true
	case reflect.Pointer:
		return rt == zmRegexpT || (rt.Elem().Kind() != reflect.Pointer && smExactCapable(rt.Elem()))
	case reflect.Slice:
		return smExactCapable(rt.Elem()) && rt.Elem().Kind() != reflect.Interface
	case reflect.Map:
		return rt.Key() == reflect.TypeOf("") && smExactCapable(rt.Elem())
	case reflect.Struct:
		return zmLookup(rt) != nil
	}
	return false
}

func smPtrLike(rt reflect.Type) bool {
	return rt.Kind() == reflect.Pointer || rt.Kind() == reflect.Interface
}

// plainOf replaces a scalar schema by the unconstrained schema of its kind (it accepts the zero value)
func smPlainOf(t *hx.Ty) *hx.Ty {
	switch t.T {
	case "int", "enumInt":
		return &hx.Ty{T: "int"}
	case "float":
		return &hx.Ty{T: "float"}
	case "str", "enumStr":
		return &hx.Ty{T: "str"}
	}
	return t
}

func (q *smGen) p(x float64) bool { return q.g.R.Float64() < x }

func (q *smGen) scalarOf(kinds ...string) *hx.Ty {
	for i := 0; i < 200; i++ {
		t := q.g.Scalar()
		for _, k := range kinds {
			if t.T == k {
				return t
			}
		}
	}
	return &hx.Ty{T: kinds[0]}
}

func (q *smGen) leaf(t *hx.Ty) *sTy { return &sTy{T: "leaf", Ty: t} }

func (q *smGen) bounds() (*string, *string) {
	var lo, hi *string
	if q.p(0.25) {
		lo = hx.IntP(int64(q.g.R.Intn(3)))
	}
	if q.p(0.25) {
		hi = hx.IntP(int64(1 + q.g.R.Intn(4)))
	}
	return lo, hi
}

// schemaFor picks a schema for a field of Go type ft.
func (q *smGen) schemaFor(ft reflect.Type, depth int) *sTy {
	if !q.faithful && q.p(0.025) {
		q.stats["prop:mismatched-type"]++
		q.mismatch = true
		return q.leaf(q.g.Scalar())
	}
	switch ft.Kind() {
	case reflect.String:
		return q.leaf(q.scalarOf("str", "str", "enumStr"))
	case reflect.Bool:
		return q.leaf(&hx.Ty{T: "bool"})
	case reflect.Int, reflect.Int8, reflect.Int16, reflect.Int32, reflect.Int64,
		reflect.Uint, reflect.Uint8, reflect.Uint16, reflect.Uint32, reflect.Uint64:
		return q.leaf(q.scalarOf("int", "int", "enumInt"))
	case reflect.Float32, reflect.Float64:
		return q.leaf(q.scalarOf("float"))
	case reflect.Interface:
		if depth < 2 && q.p(0.4) {
			return q.oneOf(depth)
		}
		if q.faithful || q.p(0.6) {
			return q.leaf(&hx.Ty{T: "any"})
		}
		return q.leaf(q.g.Scalar())
	case reflect.Slice:
		lo, hi := q.bounds()
		if hasStruct(ft.Elem()) {
			return &sTy{T: "list", Item: q.schemaFor(ft.Elem(), depth+1), Min: lo, Max: hi}
		}
		return q.leaf(&hx.Ty{T: "list", Item: q.schemaFor(ft.Elem(), depth+1).Ty, Min: lo, Max: hi})
	case reflect.Map:
		lo, hi := q.bounds()
		key := q.scalarOf("str")
		key.Pat = nil
		if hasStruct(ft.Elem()) {
			return &sTy{T: "map", K: key, V: q.schemaFor(ft.Elem(), depth+1), Min: lo, Max: hi}
		}
		if ft.Elem().Kind() == reflect.Interface {
			if q.p(0.6) {
				q.stats["prop:map-backed-sub-object"]++
				q.g.SetNoShorthand(false)
				return q.leaf(q.g.Object(2, nil, 0))
			}
			return q.leaf(&hx.Ty{T: "map", K: key, V: &hx.Ty{T: "any"}, Min: lo, Max: hi})
		}
		return q.leaf(&hx.Ty{T: "map", K: key, V: q.schemaFor(ft.Elem(), depth+1).Ty, Min: lo, Max: hi})
	case reflect.Struct:
		ptrT := q.p(0.04) && !q.faithful
		if ptrT {
			q.mismatch = true // T = *S for a field of type S
		}
		o := q.object(zmLookup(ft), depth+1, ptrT)
		if q.p(0.15) {
			q.stats["prop:scope-wrapped-sub-object"]++
			return &sTy{T: "scope", Inner: o}
		}
		return o
	case reflect.Pointer:
		if ft == zmRegexpT {
			return q.leaf(&hx.Ty{T: "pattern"})
		}
		if ft.Elem().Kind() == reflect.Struct {
			o := q.object(zmLookup(ft.Elem()), depth+1, q.p(0.3))
			if q.p(0.1) {
				q.stats["prop:scope-wrapped-sub-object"]++
				return &sTy{T: "scope", Inner: o}
			}
			return o
		}
		return q.schemaFor(ft.Elem(), depth)
	}
	return q.leaf(&hx.Ty{T: "any"})
}

// oneOf generates a one-of over struct-mapped members: string or int keys, separate or inlined
// discriminator (the inlined one is the members' `kind` field, treat-empty-as-default half of the time:
// the member keyed by the zero value then serializes without it and the one-of puts it back; required
// a quarter of the time). Members
// may be wrapped in scopes. Outside the faithful mode two members occasionally share a struct type:
// findUnderlyingType then picks one by map order, which the runs on fresh instances expose.
func (q *smGen) oneOf(depth int) *sTy {
	t := &sTy{T: "oneOf", IntKey: q.p(0.5), Inlined: q.p(0.45)}
	q.stats["oneof:total"]++
	var pool []reflect.Type
	var keys []string
	if t.Inlined {
		t.Disc = "kind"
		q.stats["oneof:inlined"]++
		if t.IntKey {
			pool = []reflect.Type{reflect.TypeOf(zmStop{}), reflect.TypeOf(zmGo{})}
		} else {
			pool = []reflect.Type{reflect.TypeOf(zmStopS{}), reflect.TypeOf(zmGoS{})}
		}
	} else {
		t.Disc = []string{"kind", "type", "_t"}[q.g.R.Intn(3)]
		q.stats["oneof:separate"]++
		pool = []reflect.Type{reflect.TypeOf(zmCircle{}), reflect.TypeOf(zmSquare{}), reflect.TypeOf(zmInner{}),
			reflect.TypeOf(zmStop{}), reflect.TypeOf(zmGoS{})}
		q.g.R.Shuffle(len(pool), func(i, j int) { pool[i], pool[j] = pool[j], pool[i] })
		pool = pool[:2+q.g.R.Intn(2)]
	}
	if t.IntKey {
		keys = []string{"0", "1", "7", "-2"}
		q.stats["oneof:int-keys"]++
	} else {
		keys = []string{"", "go", "c", "5"}
		q.stats["oneof:string-keys"]++
	}
	if !q.faithful && !t.Inlined && q.p(0.08) {
		pool = append(pool, pool[0]) // two keys, one struct type
		q.stats["oneof:shared-member-type"]++
		q.illFormed["oneof-shared-type"] = true
	}
	for i, rt := range pool {
		key := keys[i]
		faithfulSave := q.faithful
		m := q.object(zmLookup(rt), depth+2, false)
		q.faithful = faithfulSave
		// the discriminator property: absent when separate, present with a type of the key kind when inlined
		props := m.Props[:0]
		for _, np := range m.Props {
			// (an inlined member gets its own discriminator property below; a second property on the
			// same field - `Kind` by name, `kind` by tag - would make the pair ill-formed)
			if np.Name != t.Disc && !(t.Inlined && strings.EqualFold(np.Name, t.Disc)) {
				props = append(props, np)
			}
		}
		m.Props = props
		for _, np := range m.Props {
			np.P.RequiredIf, np.P.RequiredIfNot, np.P.Conflicts = smDrop(np.P.RequiredIf, t.Disc), smDrop(np.P.RequiredIfNot, t.Disc), smDrop(np.P.Conflicts, t.Disc)
			if t.Inlined {
				np.P.RequiredIf, np.P.RequiredIfNot, np.P.Conflicts = smDrop(np.P.RequiredIf, "Kind"), smDrop(np.P.RequiredIfNot, "Kind"), smDrop(np.P.Conflicts, "Kind")
			}
		}
		if t.Inlined {
			var dty *hx.Ty
			switch {
			case t.IntKey && q.p(0.5):
				dty = &hx.Ty{T: "enumInt", Vals: []string{key}}
			case t.IntKey:
				dty = &hx.Ty{T: "int"}
			case q.p(0.5):
				dty = &hx.Ty{T: "enumStr", Vals: []string{key}}
			default:
				dty = &hx.Ty{T: "str"}
			}
			dp := &sProp{Ty: q.leaf(dty)}
			if q.p(0.5) {
				dp.EmptyIsDefault = true
				q.stats["oneof:inlined-empty-is-default"]++
			} else if q.p(0.5) || (q.faithful && (dty.T == "enumInt" || dty.T == "enumStr") && key != "0" && key != "") {
				// (an optional enum that excludes the zero value on a plain field is the recorded finding
				// struct-optional-bounded-zero-value: outside the faithful mode only)
				dp.Required = true
				q.stats["oneof:inlined-required-discriminator"]++
			}
			m.Props = append(m.Props, sNamedProp{Name: t.Disc, P: dp})
		}
		var mt *sTy = m
		if q.p(0.15) {
			mt = &sTy{T: "scope", Inner: m}
		}
		t.Members = append(t.Members, sMember{Key: key, Ty: mt})
	}
	return t
}

func smDrop(l []string, x string) []string {
	var out []string
	for _, e := range l {
		if e != x {
			out = append(out, e)
		}
	}
	return out
}

// jsonDefault renders a JSON object text for a struct-mapped sub-object from its properties' own
// plausible defaults.
func (q *smGen) jsonDefault(t *sTy) string {
	for t.T == "scope" {
		t = t.Inner
	}
	if t.T != "sobj" {
		return "{}"
	}
	var parts []string
	for _, np := range t.Props {
		// properties that carry their own default are named more often: the sub-object's default then
		// competes with the parent's (applySubObjectDefaultValues lets the sub-object's win)
		if !q.p(0.5) && !(np.P.Default != nil && q.p(0.8)) {
			continue
		}
		switch np.P.Ty.T {
		case "leaf":
			if d := q.defaultText(np.P.Ty.Ty); d != "" {
				parts = append(parts, fmt.Sprintf("%q:%s", np.Name, d))
			}
		case "sobj", "scope":
			parts = append(parts, fmt.Sprintf("%q:%s", np.Name, q.jsonDefault(np.P.Ty)))
		}
	}
	return "{" + strings.Join(parts, ",") + "}"
}

// defaultText is a JSON text the leaf type accepts most of the time ("" = none available).
func (q *smGen) defaultText(t *hx.Ty) string {
	v := q.leafValue(t)
	g := v.ToGo()
	b, err := json.Marshal(g)
	if err != nil {
		return ""
	}
	var back any
	if json.Unmarshal(b, &back) != nil {
		return ""
	}
	return string(b)
}

func (q *smGen) object(z *zmType, depth int, ptrT bool) *sTy {
	q.nextID++
	t := &sTy{T: "sobj", ID: fmt.Sprintf("S%d", q.nextID), PtrT: ptrT, St: describeStruct(z.rt)}
	q.stats["struct:"+z.rt.Name()]++
	if ptrT {
		q.stats["object:pointer-T"]++
	}
	rt := z.rt
	usedField := map[string]bool{}
	usedID := map[string]bool{}
	ptrLikeID := map[string]bool{}
	for i := 0; i < rt.NumField(); i++ {
		f := rt.Field(i)
		include := q.p(0.72)
		if !f.IsExported() {
			// (sources of panics that depend on the iteration order are generated in the root object only:
			// there a handful of fresh-instance runs shows every order; nested, the probability of seeing
			// the panicking order shrinks with every level)
			include = depth == 0 && q.p(0.04)
		}
		if depth >= 3 && hasStruct(f.Type) {
			include = false
		}
		if q.faithful && (!f.IsExported() || !smExactCapable(f.Type)) {
			include = false
		}
		if !include {
			continue
		}
		tag := strings.SplitN(f.Tag.Get("json"), ",", 2)[0]
		id := f.Name
		if f.Tag.Get("json") != "" && q.p(0.88) && !(tag == "x" && (q.faithful || q.p(0.85))) {
			id = tag
		} else {
			q.stats["prop:by-field-name"]++
		}
		if q.faithful && id == f.Name {
			// the field's own name may be another field's json tag (zmDup: "Y" is the tag of Z), and the tag
			// wins in buildObjectFieldCache: two properties would share a field - outside the theorem's scope
			for j := 0; j < rt.NumField(); j++ {
				if j != i && strings.SplitN(rt.Field(j).Tag.Get("json"), ",", 2)[0] == id {
					id = ""
				}
			}
			if id == "" {
				continue
			}
		}
		if usedID[id] {
			continue
		}
		usedID[id] = true
		usedField[f.Name] = true
		if !f.IsExported() {
			q.stats["prop:on-unexported-field"]++
			q.illFormed["unexported"] = true
		}
		outer := q.mismatch
		q.mismatch = false
		p := &sProp{Ty: q.schemaFor(f.Type, depth)}
		mismatched := q.mismatch
		q.mismatch = outer || mismatched // nested objects run this loop too: keep what the enclosing call saw
		p.Required = q.p(0.2)
		if q.p(0.18) && !hasIface(f.Type) && !(mismatched && depth > 0) {
			p.EmptyIsDefault = true
			q.stats["prop:empty-is-default"]++
			if mismatched {
				// the zero value of the property's type may not convert to the field's: Validate / Serialize panic
				q.illFormed["mismatch+empty-is-default"] = true
			}
		}
		if q.p(0.02) && !hasIface(f.Type) {
			// (a disabled property reads as unset while its field holds the zero value; like
			// treat-empty-as-default it is kept off struct types with `any` fields, see DESIGN)
			p.Disabled = true
			q.stats["prop:disabled"]++
		}
		if q.faithful && p.EmptyIsDefault && !(p.Ty.T == "leaf" && p.Ty.Ty.T != "obj") {
			p.EmptyIsDefault = false
		}
		if q.faithful && p.EmptyIsDefault {
			p.Required = false
		}
		if q.faithful && p.Disabled {
			p.Required = false
		}
		if q.p(0.25) && !(q.faithful && (p.EmptyIsDefault || p.Disabled)) {
			switch p.Ty.T {
			case "leaf":
				if d := q.defaultText(p.Ty.Ty); d != "" {
					if p.Ty.Ty.T == "str" && q.p(0.3) && smPlainWord(d) {
						d = d[1 : len(d)-1] // unquoted: the quoting fallback of extractObjectDefaultValues
					}
					p.Default = hx.MkDefault(d)
				}
			case "sobj", "scope":
				if q.p(0.06) && !q.faithful {
					p.Default = hx.MkDefault(q.pickDefaultOdd())
				} else if q.p(0.01) && !q.faithful {
					q.stats["prop:default-undecodable"]++
					q.illFormed["bad-default"] = true
					p.Default = hx.MkDefault("{")
				} else {
					p.Default = hx.MkDefault(q.jsonDefault(p.Ty))
				}
			}
			if p.Default != nil {
				q.stats["prop:default"]++
				if p.Ty.T == "leaf" && p.Ty.Ty.T == "obj" && (p.Default.D1 == nil || p.Default.D1.V == nil || p.Default.D1.V.Kind != "m") {
					// the single-property shorthand as the default of a map-backed sub-object: fine for that
					// object; applySubObjectDefaultValues of the struct-mapped parent leaves it alone
					q.stats["prop:default-not-a-map"]++
				}
			}
		}
		if q.faithful && !smPtrLike(f.Type) && !p.EmptyIsDefault && !p.Disabled && !p.Required && p.Default == nil {
			// an optional property on a plain field comes back holding the zero value: its type must accept it
			switch {
			case p.Ty.T == "leaf" && (p.Ty.Ty.T == "list" || p.Ty.Ty.T == "map"):
				p.EmptyIsDefault = true
			case p.Ty.T == "leaf" && p.Ty.Ty.T != "obj" && p.Ty.Ty.T != "any":
				p.Ty = q.leaf(smPlainOf(p.Ty.Ty))
			default:
				p.Required = true
			}
		}
		ptrLikeID[id] = smPtrLike(f.Type)
		t.Props = append(t.Props, sNamedProp{Name: id, P: p})
	}
	// a property without a field
	if q.p(0.008) && !q.faithful {
		t.Props = append(t.Props, sNamedProp{Name: "zzz", P: &sProp{Ty: q.leaf(&hx.Ty{T: "bool"})}})
		q.stats["prop:without-field"]++
		q.illFormed["no-field"] = true
	}
	if rt.Name() == "zmDup" && q.p(0.1) && !usedID["x"] && !q.faithful {
		t.Props = append(t.Props, sNamedProp{Name: "x", P: &sProp{Ty: q.leaf(&hx.Ty{T: "str"})}})
		q.stats["prop:clashing-tags"]++
		q.illFormed["no-field"] = true
	}
	// presence rules between the declared properties
	ids := []string{}
	ruleOK := map[string]bool{}
	for _, np := range t.Props {
		// (faithful: only properties whose presence survives the struct take part in rules)
		if !q.faithful || (ptrLikeID[np.Name] && !np.P.EmptyIsDefault) {
			ids = append(ids, np.Name)
			ruleOK[np.Name] = true
		}
	}
	pickOthers := func(self string) []string {
		var out []string
		n := 1 + q.g.R.Intn(2)
		for i := 0; i < n && len(ids) > 1; i++ {
			o := ids[q.g.R.Intn(len(ids))]
			if o != self {
				out = append(out, o)
			}
		}
		if q.p(0.1) {
			out = append(out, "nonexistent")
		}
		return out
	}
	for _, np := range t.Props {
		if !ruleOK[np.Name] {
			continue
		}
		if q.p(0.05) {
			np.P.RequiredIf = pickOthers(np.Name)
			q.stats["prop:required-if"]++
		}
		if q.p(0.05) {
			np.P.RequiredIfNot = pickOthers(np.Name)
			q.stats["prop:required-if-not"]++
		}
		if q.p(0.04) {
			np.P.Conflicts = pickOthers(np.Name)
			q.stats["prop:conflicts"]++
		}
	}
	q.g.R.Shuffle(len(t.Props), func(i, j int) { t.Props[i], t.Props[j] = t.Props[j], t.Props[i] })
	return t
}

// smPlainWord: a JSON string literal of lower-case letters that is no JSON keyword
func smPlainWord(d string) bool {
	if len(d) < 3 || d[0] != '"' || d[len(d)-1] != '"' {
		return false
	}
	w := d[1 : len(d)-1]
	if w == "true" || w == "false" || w == "null" {
		return false
	}
	for _, c := range w {
		if c < 'a' || c > 'z' {
			return false
		}
	}
	return true
}

func (q *smGen) pickDefaultOdd() string {
	switch q.g.R.Intn(4) {
	case 0:
		q.stats["prop:default-not-a-map"]++
		return "5"
	case 1:
		q.stats["prop:default-null"]++
		return "null"
	case 2:
		q.stats["prop:default-undecodable"]++
		q.illFormed["bad-default"] = true
		return "{"
	default:
		q.stats["prop:default-not-a-map"]++
		return "[1]"
	}
}

// ---------------------------------------------------------------------------------------------
// generation of raw inputs

func zeroRaw(t *sTy) *hx.Val {
	switch t.T {
	case "leaf":
		switch t.Ty.T {
		case "int", "enumInt":
			return hx.Int("int64", 0)
		case "float":
			return hx.F64(0)
		case "str", "enumStr", "pattern":
			return hx.Str("")
		case "bool":
			return hx.Bool(false)
		case "list":
			return hx.List()
		default:
			return hx.StrAny()
		}
	case "list":
		return hx.List()
	case "scope":
		return zeroRaw(t.Inner)
	}
	return hx.StrAny()
}

// leafValue draws a raw value for a map-backed schema; nine times out of ten one that the schema
// itself accepts (a struct with a dozen properties is otherwise almost never accepted as a whole).
func (q *smGen) leafValue(t *hx.Ty) *hx.Val {
	v := q.g.Value(t, hx.Env{}, 0)
	if q.p(0.1) {
		return v
	}
	for i := 0; i < 5; i++ {
		if hx.RunOp("U", t.Build(), v.ToGo()).R == "ok" {
			return v
		}
		v = q.g.Value(t, hx.Env{}, 0)
	}
	return v
}

func (q *smGen) raw(t *sTy, depth int) *hx.Val {
	switch t.T {
	case "leaf":
		return q.leafValue(t.Ty)
	case "list":
		n := q.g.R.Intn(3)
		out := &hx.Val{Kind: "l"}
		for i := 0; i < n; i++ {
			out.L = append(out.L, q.raw(t.Item, depth+1))
		}
		return out
	case "map":
		out := hx.StrAny()
		if q.p(0.3) {
			out.MK = "any"
		}
		seen := map[string]bool{}
		for i := q.g.R.Intn(3); i > 0; i-- {
			k := q.g.Value(t.K, hx.Env{}, 0)
			if k.Kind != "s" || seen[k.S] {
				continue
			}
			seen[k.S] = true
			out.M = append(out.M, [2]*hx.Val{k, q.raw(t.V, depth+1)})
		}
		return out
	case "scope":
		return q.raw(t.Inner, depth)
	case "oneOf":
		mb := t.Members[q.g.R.Intn(len(t.Members))]
		m := q.raw(mb.Ty, depth+1)
		if m.Kind != "m" || (m.MK != "string" && m.MK != "any") {
			m = hx.StrAny()
		}
		kept := m.M[:0]
		for _, kv := range m.M {
			if !(kv[0].Kind == "s" && kv[0].S == t.Disc) {
				kept = append(kept, kv)
			}
		}
		m.M = kept
		var d *hx.Val
		if t.IntKey {
			n, _ := strconv.ParseInt(mb.Key, 10, 64)
			switch q.g.R.Intn(4) {
			case 0:
				d = hx.Int("int64", n)
			case 1:
				d = hx.Int("int", n)
			case 2:
				d = hx.Str(mb.Key)
			default:
				d = hx.F64(float64(n))
			}
		} else {
			d = hx.Str(mb.Key)
			if q.p(0.15) {
				if n, err := strconv.ParseInt(mb.Key, 10, 64); err == nil {
					d = hx.Int("int64", n) // the string mapper accepts integers
				}
			}
		}
		switch {
		case q.p(0.04):
			q.stats["input:oneof-no-discriminator"]++
		case q.p(0.04):
			q.stats["input:oneof-unknown-key"]++
			m.M = append(m.M, [2]*hx.Val{hx.Str(t.Disc), hx.Str("no such member")})
		default:
			m.M = append(m.M, [2]*hx.Val{hx.Str(t.Disc), d})
		}
		q.g.R.Shuffle(len(m.M), func(i, j int) { m.M[i], m.M[j] = m.M[j], m.M[i] })
		return m
	}
	// sobj
	if len(t.Props) == 1 && q.p(0.15) {
		q.stats["input:single-property-shorthand"]++
		return q.raw(t.Props[0].P.Ty, depth+1)
	}
	m := hx.StrAny()
	if q.p(0.3) {
		m.MK = "any"
	}
	for _, np := range t.Props {
		p := np.P
		supply := p.Required || q.p(0.55)
		if p.Required && q.p(0.03) {
			supply = false
			q.stats["input:required-missing"]++
		}
		if p.Disabled && q.p(0.85) {
			supply = false
		}
		if !supply {
			continue
		}
		v := q.raw(p.Ty, depth+1)
		switch {
		case q.p(0.035):
			v = zeroRaw(p.Ty)
			q.stats["input:zero-value"]++
		case q.p(0.012):
			v = q.g.RandomVal(0)
			q.stats["input:wrong-type"]++
		}
		m.M = append(m.M, [2]*hx.Val{hx.Str(np.Name), v})
	}
	if q.p(0.8) {
		q.repairRules(t, m, depth)
	}
	if q.p(0.02) {
		m.M = append(m.M, [2]*hx.Val{hx.Str("extra"), hx.Int("int64", 1)})
		q.stats["input:extra-key"]++
	}
	q.g.R.Shuffle(len(m.M), func(i, j int) { m.M[i], m.M[j] = m.M[j], m.M[i] })
	return m
}

// repairRules makes one pass over the presence rules so that most inputs satisfy them: a present
// property that conflicts with another present one loses that other one (unless required), an
// absent property that a rule asks for is supplied. Defaults count as present, as in the SDK.
func (q *smGen) repairRules(t *sTy, m *hx.Val, depth int) {
	has := func(k string) bool {
		for _, kv := range m.M {
			if kv[0].S == k {
				return true
			}
		}
		for _, np := range t.Props {
			if np.Name == k && np.P.Default != nil {
				return true
			}
		}
		return false
	}
	prop := func(k string) *sProp {
		for _, np := range t.Props {
			if np.Name == k {
				return np.P
			}
		}
		return nil
	}
	drop := func(k string) {
		for i, kv := range m.M {
			if kv[0].S == k {
				m.M = append(m.M[:i:i], m.M[i+1:]...)
				return
			}
		}
	}
	for _, np := range t.Props {
		if has(np.Name) {
			for _, c := range np.P.Conflicts {
				if pc := prop(c); pc != nil && has(c) && !pc.Required && pc.Default == nil {
					drop(c)
				}
			}
		}
	}
	for _, np := range t.Props {
		if has(np.Name) || np.P.Disabled {
			continue
		}
		need := false
		for _, r := range np.P.RequiredIf {
			if has(r) {
				need = true
			}
		}
		if len(np.P.RequiredIfNot) > 0 {
			any := false
			for _, r := range np.P.RequiredIfNot {
				if has(r) {
					any = true
				}
			}
			if !any {
				need = true
			}
		}
		if need {
			m.M = append(m.M, [2]*hx.Val{hx.Str(np.Name), q.raw(np.P.Ty, depth+1)})
		}
	}
}

// ---------------------------------------------------------------------------------------------
// mutation of struct values through reflection (inputs of Validate / Serialize)

func (q *smGen) mutate(rv reflect.Value, depth int) {
	rt := rv.Type()
	switch rv.Kind() {
	case reflect.Struct:
		var idx []int
		for i := 0; i < rt.NumField(); i++ {
			if rt.Field(i).IsExported() {
				idx = append(idx, i)
			}
		}
		n := 1 + q.g.R.Intn(2)
		for ; n > 0 && len(idx) > 0; n-- {
			q.mutate(rv.Field(idx[q.g.R.Intn(len(idx))]), depth+1)
		}
	case reflect.Pointer:
		if rt == zmRegexpT {
			if q.p(0.5) {
				rv.Set(reflect.Zero(rt))
			} else {
				rv.Set(reflect.ValueOf(regexp.MustCompile("^a+$")))
			}
			return
		}
		switch {
		case q.p(0.3):
			rv.Set(reflect.Zero(rt))
		case rv.IsNil() || q.p(0.3):
			rv.Set(reflect.New(rt.Elem())) // pointer to the zero value
			if q.p(0.5) {
				q.mutate(rv.Elem(), depth+1)
			}
		default:
			q.mutate(rv.Elem(), depth+1)
		}
	case reflect.String:
		rv.SetString([]string{"", "a", "abc", "hello", "\x00", "zz"}[q.g.R.Intn(6)])
	case reflect.Bool:
		rv.SetBool(q.p(0.5))
	case reflect.Int, reflect.Int8, reflect.Int16, reflect.Int32, reflect.Int64:
		rv.SetInt([]int64{0, 1, -1, 5, 100, 127}[q.g.R.Intn(6)])
	case reflect.Uint, reflect.Uint8, reflect.Uint16, reflect.Uint32, reflect.Uint64:
		rv.SetUint([]uint64{0, 1, 5, 200, 255}[q.g.R.Intn(5)])
	case reflect.Float32, reflect.Float64:
		rv.SetFloat([]float64{0, math.Copysign(0, -1), 1.5, -2, 0.1}[q.g.R.Intn(5)])
	case reflect.Interface:
		switch q.g.R.Intn(9) {
		case 5:
			rv.Set(reflect.ValueOf(zmCircle{R: int64(q.g.R.Intn(3))}))
		case 6:
			rv.Set(reflect.ValueOf(zmStop{Kind: int64(q.g.R.Intn(3)), Reason: "r"}))
		case 7:
			rv.Set(reflect.ValueOf(zmGoS{Kind: []string{"", "go", "zz"}[q.g.R.Intn(3)]}))
		case 8:
			if !rv.IsNil() && (rv.Elem().Kind() == reflect.Struct) {
				cp := reflect.New(rv.Elem().Type()).Elem()
				cp.Set(rv.Elem())
				q.mutate(cp, depth+1)
				rv.Set(cp)
			} else {
				rv.Set(reflect.ValueOf(&zmSquare{S: 2}))
			}
		case 0:
			rv.Set(reflect.Zero(rt))
		case 1:
			rv.Set(reflect.ValueOf(int64(0)))
		case 2:
			rv.Set(reflect.ValueOf("x"))
		case 3:
			rv.Set(reflect.ValueOf(map[any]any{"k": int64(1)}))
		default:
			rv.Set(reflect.ValueOf([]any{"a", int64(2)}))
		}
	case reflect.Slice:
		switch q.g.R.Intn(3) {
		case 0:
			rv.Set(reflect.Zero(rt))
		case 1:
			rv.Set(reflect.MakeSlice(rt, 0, 0))
		default:
			s := reflect.MakeSlice(rt, 1, 1)
			q.mutate(s.Index(0), depth+1)
			rv.Set(s)
		}
	case reflect.Map:
		switch q.g.R.Intn(3) {
		case 0:
			rv.Set(reflect.Zero(rt))
		case 1:
			rv.Set(reflect.MakeMap(rt))
		default:
			m := reflect.MakeMap(rt)
			e := reflect.New(rt.Elem()).Elem()
			q.mutate(e, depth+1)
			if rt.Key().Kind() == reflect.String {
				m.SetMapIndex(reflect.ValueOf("k").Convert(rt.Key()), e)
			}
			rv.Set(m)
		}
	}
}

// ---------------------------------------------------------------------------------------------
// cases

type smCase struct {
	ID      int     `json:"id"`
	Op      string  `json:"op"`
	Schema  *hx.Ty  `json:"schema"`
	SSchema *sTy    `json:"sschema"`
	SV      *hx.Val `json:"sv"`
	Ext     *hx.Ext `json:"ext,omitempty"`
	Fuel    int     `json:"fuel"`
	Cmp     string  `json:"cmp,omitempty"`
	Note    string  `json:"note,omitempty"`
	Mode    int     `json:"mode"`
	Flags   string  `json:"flags,omitempty"` // why the pair is ill-formed (generator's view), diagnostics only
	Runs    int     `json:"runs,omitempty"`  // how many times the implementation was run (fresh instances)
}

// smExt collects the externals for all leaves and values of a case.
func smExt(t *sTy, vs ...*hx.Val) *hx.Ext {
	fake := &hx.Ty{T: "obj", ID: "ext"}
	n := 0
	var walk func(t *sTy)
	walk = func(t *sTy) {
		if t == nil {
			return
		}
		add := func(x *hx.Ty) {
			if x != nil {
				n++
				fake.Props = append(fake.Props, hx.NamedProp{Name: fmt.Sprintf("p%d", n), P: &hx.Prop{Ty: x}})
			}
		}
		add(t.Ty)
		add(t.K)
		walk(t.Item)
		walk(t.V)
		walk(t.Inner)
		for _, m := range t.Members {
			walk(m.Ty)
		}
		for _, np := range t.Props {
			walk(np.P.Ty)
			if np.P.Default != nil {
				if np.P.Default.D1 != nil {
					vs = append(vs, np.P.Default.D1.V)
				}
				if np.P.Default.D2 != nil {
					vs = append(vs, np.P.Default.D2.V)
				}
			}
			for _, f := range t.St.Fields {
				vs = append(vs, f.Zero)
			}
		}
	}
	walk(t)
	return hx.MkExt(fake, vs...)
}

type smRunner struct {
	s *sink
	q *smGen
}

// runGo performs one operation on a FRESH schema instance (construction inside the guarded region).
func smRunGo(t *sTy, mode int, op string, arg any) (hx.Result, any) {
	var raw any
	res := hx.Guard(func() hx.Result {
		b := buildSM(t, mode)
		switch op {
		case "SMU":
			out, err := b.ops.u(arg)
			if err != nil {
				return hx.ErrResult(err)
			}
			raw = out
			return hx.Result{R: "ok", V: encAny(out)}
		case "SMV":
			if err := b.ops.v(arg); err != nil {
				return hx.ErrResult(err)
			}
			return hx.Result{R: "ok", V: hx.Nil()}
		default:
			out, err := b.ops.s(arg)
			if err != nil {
				return hx.ErrResult(err)
			}
			raw = out
			return hx.Result{R: "ok", V: encAny(out)}
		}
	})
	return res, raw
}

func smSame(a, b hx.Result, cmp string) bool {
	if a.R != b.R {
		return false
	}
	if a.R == "ok" {
		return hx.Canon(a.V) == hx.Canon(b.V)
	}
	if a.R == "err" && cmp == "path" {
		return fmt.Sprint(a.Path) == fmt.Sprint(b.Path) && (a.C != nil && b.C != nil && *a.C == *b.C)
	}
	return true
}

// emit runs the operation (several times on fresh instances: Go's map order varies) and writes the
// case and the implementation's result. Cases whose observable outcome varies between runs are not
// comparable with a function and are counted, not emitted.
func (r *smRunner) emit(t *sTy, mode int, op string, arg any, argEnc *hx.Val, cmp, note string, repeats int) (hx.Result, any, bool) {
	res, raw := smRunGo(t, mode, op, arg)
	for i := 1; i < repeats; i++ {
		again, _ := smRunGo(t, mode, op, arg)
		if !smSame(res, again, cmp) {
			if res.R != again.R || res.R == "ok" {
				r.s.stats["structmodel:order-dependent-outcome"]++
				return res, raw, false
			}
			cmp = "class"
		}
	}
	r.s.nextID++
	var flags []string
	for k := range r.q.illFormed {
		flags = append(flags, k)
	}
	sort.Strings(flags)
	if r.q.faithful {
		flags = append(flags, "faithful")
	}
	c := smCase{ID: r.s.nextID, Op: op, SSchema: t, SV: argEnc, Ext: smExt(t, argEnc), Fuel: 400, Cmp: cmp, Note: note, Mode: mode,
		Flags: strings.Join(flags, ","), Runs: repeats}
	b, err := json.Marshal(c)
	if err != nil {
		panic(err)
	}
	r.s.cases.Write(b)
	r.s.cases.WriteByte('\n')
	rb, _ := json.Marshal(res)
	r.s.results.Write(rb)
	r.s.results.WriteByte('\n')
	r.s.stats["op:"+op]++
	r.s.stats["res:"+op+":"+res.R]++
	r.s.stats["cmp:"+cmp]++
	return res, raw, true
}

func smRepeats(q *smGen) int {
	if len(q.illFormed) > 0 {
		return 32
	}
	return 3
}

// group: one generated schema over one struct type with several inputs.
func groupStructModel(s *sink, g *hx.Gen, q *smGen) {
	q.illFormed = map[string]bool{}
	q.faithful = q.p(0.35)
	if q.faithful {
		s.stats["structmodel:faithful-pair (scope of the end-to-end theorem)"]++
	}
	r := &smRunner{s: s, q: q}
	z := zmTypes[g.R.Intn(zmRoots)]
	if g.R.Intn(3) == 0 {
		z = zmTypes[0]
	}
	ptrT := q.p(0.15)
	var t *sTy = q.object(z, 0, ptrT)
	mode := g.R.Intn(3)
	if !ptrT && q.p(0.3) {
		mode = 3 + g.R.Intn(3)
	}
	if q.p(0.1) {
		// a one-of as the root schema (bare: it has no scope of its own)
		t = q.oneOf(0)
		mode = 0
		s.stats["structmodel:one-of-root"]++
	}
	if mode == 1 || mode == 2 || mode == 5 {
		t = &sTy{T: "scope", Inner: t}
	}
	if mode == 2 && smHasScopeInside(t.Inner) {
		mode = 1
	}
	s.stats[fmt.Sprintf("structmodel:mode-%d", mode)]++
	if built := hx.Guard(func() hx.Result { buildSM(t, mode); return hx.Result{R: "ok"} }); built.R == "panic" {
		q.illFormed["constructor-panics"] = true
	}
	for k := range q.illFormed {
		s.stats["structmodel:ill-formed:"+k]++
	}
	if len(q.illFormed) == 0 {
		s.stats["structmodel:well-formed-pair"]++
	}
	reps := smRepeats(q)
	n := 2 + g.R.Intn(4)
	for i := 0; i < n; i++ {
		raw := q.raw(t, 0)
		note := "generated"
		if g.R.Intn(10) == 0 {
			raw = g.RandomVal(0)
			note = "random"
		}
		res, x, ok := r.emit(t, mode, "SMU", raw.ToGo(), raw, "class", note, reps)
		if !ok || res.R != "ok" {
			if ok && res.R == "panic" && len(q.illFormed) == 0 {
				// direct oracle (C04): the generator built this pair without any of the known panic sources
				s.stats["structmodel:panic-on-well-formed-pair"]++
				sj, _ := json.Marshal(t)
				s.finding(Finding{Prop: "C04", What: "Unserialize of a struct-mapped object panicked on a well-formed schema: " + res.Msg,
					Cases: []int{s.nextID}, Input: raw, Detail: []string{string(sj)}})
			}
			continue
		}
		if q.faithful {
			r.endToEnd(t, mode, raw, x)
		}
		// the planted single fault, with path comparison
		r.planted(t, mode, raw, reps)
		// Validate / Serialize of the result, then the wire form back in
		xe := encAny(x)
		r.emit(t, mode, "SMV", x, xe, "class", "validate-own", reps)
		sres, w, ok := r.emit(t, mode, "SMS", x, xe, "class", "serialize-own", reps)
		if ok && sres.R == "ok" {
			we := hx.Enc(w)
			r.emit(t, mode, "SMU", w, we, "class", "unserialize-wire", reps)
		}
		// mutated structs
		for j := 0; j < 2; j++ {
			_, y := smRunGo(t, mode, "SMU", raw.ToGo())
			if y == nil {
				break
			}
			yv := reflect.ValueOf(y)
			var target reflect.Value
			if yv.Kind() == reflect.Pointer {
				target = yv.Elem()
			} else {
				cp := reflect.New(yv.Type())
				cp.Elem().Set(yv)
				target = cp.Elem()
			}
			q.mutate(target, 0)
			var arg any
			if yv.Kind() == reflect.Pointer {
				arg = yv.Interface()
			} else {
				arg = target.Interface()
			}
			ae := encAny(arg)
			r.emit(t, mode, "SMV", arg, ae, "class", "mutated", reps)
			r.emit(t, mode, "SMS", arg, ae, "class", "mutated", reps)
		}
		// values of the wrong type
		if g.R.Intn(4) == 0 {
			var wrong any
			switch g.R.Intn(5) {
			case 0:
				if reflect.ValueOf(x).Kind() == reflect.Pointer {
					wrong = reflect.ValueOf(x).Elem().Interface()
				} else {
					p := reflect.New(reflect.TypeOf(x))
					p.Elem().Set(reflect.ValueOf(x))
					wrong = p.Interface()
				}
			case 1:
				wrong = zmInner{Level: 1}
			case 2:
				wrong = nil
			case 3:
				wrong = reflect.Zero(reflect.PointerTo(z.rt)).Interface()
			default:
				wrong = raw.ToGo()
			}
			we := encAny(wrong)
			r.emit(t, mode, "SMV", wrong, we, "class", "wrong-type", reps)
			r.emit(t, mode, "SMS", wrong, we, "class", "wrong-type", reps)
		}
	}
}

// endToEnd evaluates the conclusion of C01_struct_end_to_end_partial directly on the implementation, for
// a pair generated inside the theorem's scope and an input Unserialize accepted: the result validates
// and serializes, the serialized form unserializes, to the identical value when no property of the
// schema is treat-empty-as-default, and serializes to the identical wire form again.
func (r *smRunner) endToEnd(t *sTy, mode int, raw *hx.Val, x any) {
	r.s.stats["structmodel:end-to-end-evaluations"]++
	fail := func(what string, detail ...string) {
		sj, _ := json.Marshal(t)
		r.s.finding(Finding{Prop: "C01", What: "struct-mapped round trip (pair in the scope of C01_struct_end_to_end_partial): " + what,
			Cases: []int{r.s.nextID}, Input: raw, Detail: append(detail, string(sj))})
	}
	if v, _ := smRunGo(t, mode, "SMV", x); v.R != "ok" {
		fail("the result of Unserialize fails Validate: " + v.Msg)
		return
	}
	sres, w := smRunGo(t, mode, "SMS", x)
	if sres.R != "ok" {
		fail("the result of Unserialize fails Serialize: " + sres.Msg)
		return
	}
	ures, x2 := smRunGo(t, mode, "SMU", w)
	if ures.R != "ok" {
		fail("the serialized form is rejected: " + ures.Msg)
		return
	}
	if !smHasEmpty(t) && hx.Canon(encAny(x2)) != hx.Canon(encAny(x)) {
		fail("Unserialize(Serialize(s)) differs from s", hx.Canon(encAny(x)), hx.Canon(encAny(x2)))
		return
	}
	if v, _ := smRunGo(t, mode, "SMV", x2); v.R != "ok" {
		fail("the value unserialized from the serialized form fails Validate: " + v.Msg)
		return
	}
	s2, _ := smRunGo(t, mode, "SMS", x2)
	if s2.R != "ok" || hx.Canon(s2.V) != hx.Canon(sres.V) {
		fail("Serialize is not idempotent on wire forms", sres.JSON(), s2.JSON())
	}
}

func smHasEmpty(t *sTy) bool {
	if t == nil {
		return false
	}
	if smHasEmpty(t.Item) || smHasEmpty(t.V) || smHasEmpty(t.Inner) {
		return true
	}
	for _, m := range t.Members {
		if smHasEmpty(m.Ty) {
			return true
		}
	}
	for _, np := range t.Props {
		if np.P.EmptyIsDefault || smHasEmpty(np.P.Ty) {
			return true
		}
	}
	return false
}

func smHasScopeInside(t *sTy) bool {
	if t == nil {
		return false
	}
	if t.T == "scope" {
		return true
	}
	if smHasScopeInside(t.Item) || smHasScopeInside(t.V) || smHasScopeInside(t.Inner) {
		return true
	}
	for _, m := range t.Members {
		if smHasScopeInside(m.Ty) {
			return true
		}
	}
	for _, np := range t.Props {
		if smHasScopeInside(np.P.Ty) {
			return true
		}
	}
	return false
}

// planted: into an input the implementation accepts, exactly one fault is planted at a random
// struct-mapped object: an unknown key, a required key removed (when no other rule mentions it and
// it has no default), or a leaf value of a kind the property's type cannot take. With one fault the
// reported path does not depend on iteration order, so it is compared too.
func (r *smRunner) planted(t *sTy, mode int, raw *hx.Val, reps int) {
	q := r.q
	type site struct {
		obj *sTy
		val *hx.Val
	}
	var sites []site
	var walk func(t *sTy, v *hx.Val)
	walk = func(t *sTy, v *hx.Val) {
		if v == nil {
			return
		}
		switch t.T {
		case "scope":
			walk(t.Inner, v)
		case "list":
			for _, e := range v.L {
				walk(t.Item, e)
			}
		case "map":
			if v.Kind == "m" {
				for _, kv := range v.M {
					walk(t.V, kv[1])
				}
			}
		case "sobj":
			if v.Kind != "m" {
				return
			}
			sites = append(sites, site{t, v})
			for _, kv := range v.M {
				for _, np := range t.Props {
					if kv[0].Kind == "s" && np.Name == kv[0].S {
						walk(np.P.Ty, kv[1])
					}
				}
			}
		}
	}
	cp := smCloneVal(raw)
	walk(t, cp)
	if len(sites) == 0 {
		return
	}
	st := sites[q.g.R.Intn(len(sites))]
	if st.val.MK != "string" && st.val.MK != "any" {
		return
	}
	kind := ""
	switch q.g.R.Intn(3) {
	case 0:
		st.val.M = append(st.val.M, [2]*hx.Val{hx.Str("unknown-key"), hx.Int("int64", 1)})
		kind = "unknown-key"
	case 1:
		for i, kv := range st.val.M {
			var p *sProp
			for _, np := range st.obj.Props {
				if kv[0].Kind == "s" && np.Name == kv[0].S {
					p = np.P
				}
			}
			if p == nil || !p.Required || p.Default != nil || p.Ty.T != "leaf" || p.Ty.Ty.T == "obj" {
				// (an absent sub-object may be recreated from the defaults below it and then fail in several
				// places at once: not a single fault)
				continue
			}
			mentioned := false
			for _, np := range st.obj.Props {
				for _, o := range np.P.RequiredIfNot {
					if o == kv[0].S {
						mentioned = true
					}
				}
			}
			if mentioned {
				continue
			}
			st.val.M = append(st.val.M[:i:i], st.val.M[i+1:]...)
			kind = "required-removed"
			break
		}
	default:
		for i, kv := range st.val.M {
			for _, np := range st.obj.Props {
				if kv[0].Kind == "s" && np.Name == kv[0].S && np.P.Ty.T == "leaf" {
					switch np.P.Ty.Ty.T {
					case "int", "float", "bool", "enumInt":
						st.val.M[i][1] = hx.List(hx.Str("not a scalar"))
						kind = "wrong-kind"
					case "list":
						st.val.M[i][1] = hx.Int("int64", 3)
						kind = "wrong-kind"
					}
				}
			}
			if kind != "" {
				break
			}
		}
	}
	if kind == "" {
		return
	}
	r.s.stats["input:planted:"+kind]++
	r.emit(t, mode, "SMU", cp.ToGo(), cp, "path", "planted:"+kind, reps+2)
}

func smCloneVal(v *hx.Val) *hx.Val {
	if v == nil {
		return nil
	}
	c := *v
	if v.L != nil {
		c.L = make([]*hx.Val, len(v.L))
		for i, e := range v.L {
			c.L[i] = smCloneVal(e)
		}
	}
	if v.M != nil {
		c.M = make([][2]*hx.Val, len(v.M))
		for i, kv := range v.M {
			c.M[i] = [2]*hx.Val{smCloneVal(kv[0]), smCloneVal(kv[1])}
		}
	}
	if v.N != nil {
		c.N = smCloneVal(v.N)
	}
	return &c
}

// ---------------------------------------------------------------------------------------------
// fixed cases: the documented oddities, each on every run

func smFixed(s *sink, g *hx.Gen, q *smGen) {
	r := &smRunner{s: s, q: q}
	str := func() *sTy { return &sTy{T: "leaf", Ty: &hx.Ty{T: "str"}} }
	strMin1 := func() *sTy { return &sTy{T: "leaf", Ty: &hx.Ty{T: "str", Min: hx.IntP(1)}} }
	intT := func() *sTy { return &sTy{T: "leaf", Ty: &hx.Ty{T: "int"}} }
	obj := func(z reflect.Type, ptr bool, props ...sNamedProp) *sTy {
		q.nextID++
		return &sTy{T: "sobj", ID: fmt.Sprintf("F%d", q.nextID), PtrT: ptr, St: describeStruct(z), Props: props}
	}
	np := func(name string, p *sProp) sNamedProp { return sNamedProp{Name: name, P: p} }
	inner := func(levelDefault string) *sTy {
		lp := &sProp{Ty: intT()}
		if levelDefault != "" {
			lp.Default = hx.MkDefault(levelDefault)
		}
		return obj(reflect.TypeOf(zmInner{}), false, np("level", lp), np("tag", &sProp{Ty: str()}), np("p", &sProp{Ty: str()}))
	}
	type fx struct {
		name string
		t    *sTy
		raws []*hx.Val
	}
	empty := hx.StrAny()
	cases := []fx{
		{"optional non-pointer field with a minimum: unset reads back as the zero value",
			obj(reflect.TypeOf(zmInner{}), false, np("tag", &sProp{Ty: strMin1()}), np("level", &sProp{Ty: intT()})), []*hx.Val{empty}},
		{"the parent's default for a sub-object is kept, the sub-object's own defaults fill the rest",
			obj(reflect.TypeOf(zmMid{}), false, np("inner", &sProp{Ty: inner("7"), Default: hx.MkDefault(`{"level":5,"tag":"t"}`)})),
			[]*hx.Val{empty, hx.StrAny([2]*hx.Val{hx.Str("inner"), hx.StrAny()})}},
		{"a default that is not a map under a non-pointer sub-object is left to the sub-object to judge",
			obj(reflect.TypeOf(zmMid{}), false, np("inner", &sProp{Ty: inner("7"), Default: hx.MkDefault(`5`)})),
			[]*hx.Val{empty, hx.StrAny([2]*hx.Val{hx.Str("inner"), hx.StrAny()})}},
		{"the same default under a pointer-typed sub-object",
			obj(reflect.TypeOf(zmMid{}), false, np("innerp", &sProp{Ty: func() *sTy { o := inner("7"); o.PtrT = true; return o }(), Default: hx.MkDefault(`5`)})),
			[]*hx.Val{empty}},
		{"integer property on a string field: Convert makes a one-rune string",
			obj(reflect.TypeOf(zmInner{}), false, np("tag", &sProp{Ty: intT(), EmptyIsDefault: true})),
			[]*hx.Val{hx.StrAny([2]*hx.Val{hx.Str("tag"), hx.Int("int64", 65)}), hx.StrAny([2]*hx.Val{hx.Str("tag"), hx.Int("int64", 0)})}},
		{"property on an unexported field",
			obj(reflect.TypeOf(zmVals{}), false, np("hidden", &sProp{Ty: intT()}), np("title", &sProp{Ty: str()})),
			[]*hx.Val{empty, hx.StrAny([2]*hx.Val{hx.Str("hidden"), hx.Int("int64", 1)})}},
		{"clashing tags: property Y goes to field Z, property y to field Y",
			obj(reflect.TypeOf(zmDup{}), false, np("Y", &sProp{Ty: intT()}), np("y", &sProp{Ty: intT()}), np("A", &sProp{Ty: str()})),
			[]*hx.Val{hx.StrAny([2]*hx.Val{hx.Str("Y"), hx.Int("int64", 1)}, [2]*hx.Val{hx.Str("y"), hx.Int("int64", 2)}, [2]*hx.Val{hx.Str("A"), hx.Str("a")})}},
		{"clashing tags: property x has no field",
			obj(reflect.TypeOf(zmDup{}), false, np("x", &sProp{Ty: str()})), []*hx.Val{empty}},
		{"required treat-empty-as-default property holding the zero value",
			obj(reflect.TypeOf(zmInner{}), false, np("level", &sProp{Ty: intT(), Required: true, EmptyIsDefault: true})),
			[]*hx.Val{hx.StrAny([2]*hx.Val{hx.Str("level"), hx.Int("int64", 0)}), hx.StrAny([2]*hx.Val{hx.Str("level"), hx.Int("int64", 3)})}},
		{"a sub-object on a pointer field is not synthesized from the defaults below it",
			obj(reflect.TypeOf(zmMid{}), false, np("innerp", &sProp{Ty: inner("7")}), np("inner", &sProp{Ty: inner("7")})),
			[]*hx.Val{empty, hx.StrAny([2]*hx.Val{hx.Str("innerp"), hx.StrAny()})}},
		{"a disabled property on a plain field reads as unset while the field holds the zero value",
			obj(reflect.TypeOf(zmInner{}), false, np("tag", &sProp{Ty: strMin1(), Disabled: true}), np("level", &sProp{Ty: intT(), RequiredIfNot: []string{"tag"}})),
			[]*hx.Val{hx.StrAny([2]*hx.Val{hx.Str("level"), hx.Int("int64", 1)}), hx.StrAny([2]*hx.Val{hx.Str("tag"), hx.Str("x")})}},
		{"treat-empty-as-default behind a pointer: pointer to the zero value reads as unset",
			obj(reflect.TypeOf(zmInner{}), false, np("p", &sProp{Ty: str(), EmptyIsDefault: true}), np("level", &sProp{Ty: intT(), RequiredIfNot: []string{"p"}})),
			[]*hx.Val{hx.StrAny([2]*hx.Val{hx.Str("p"), hx.Str("")}), hx.StrAny([2]*hx.Val{hx.Str("p"), hx.Str("v")})}},
	}
	// one-ofs over struct-mapped members
	kv := func(k string, v *hx.Val) [2]*hx.Val { return [2]*hx.Val{hx.Str(k), v} }
	oneOf := func(intKey bool, disc string, inlined bool, ms ...sMember) *sTy {
		return &sTy{T: "oneOf", IntKey: intKey, Disc: disc, Inlined: inlined, Members: ms}
	}
	kindInt := func(eid bool) sNamedProp { return np("kind", &sProp{Ty: intT(), EmptyIsDefault: eid}) }
	kindStr := func(eid bool) sNamedProp { return np("kind", &sProp{Ty: str(), EmptyIsDefault: eid}) }
	signal := func(eid bool) *sTy {
		return oneOf(true, "kind", true,
			sMember{Key: "0", Ty: obj(reflect.TypeOf(zmStop{}), false, kindInt(eid), np("reason", &sProp{Ty: str()}))},
			sMember{Key: "1", Ty: obj(reflect.TypeOf(zmGo{}), false, kindInt(eid), np("speed", &sProp{Ty: intT()}))})
	}
	signalS := func(eid bool) *sTy {
		return oneOf(false, "kind", true,
			sMember{Key: "", Ty: obj(reflect.TypeOf(zmStopS{}), false, kindStr(eid), np("reason", &sProp{Ty: str()}))},
			sMember{Key: "go", Ty: &sTy{T: "scope", Inner: obj(reflect.TypeOf(zmGoS{}), false, kindStr(eid), np("speed", &sProp{Ty: intT()}))}})
	}
	circle := func() *sTy {
		return obj(reflect.TypeOf(zmCircle{}), false, np("r", &sProp{Ty: intT(), Required: true}), np("label", &sProp{Ty: str()}))
	}
	square := func() *sTy {
		return obj(reflect.TypeOf(zmSquare{}), false, np("s", &sProp{Ty: intT(), Required: true}))
	}
	signalRaws := []*hx.Val{
		hx.StrAny(kv("kind", hx.Str("0")), kv("reason", hx.Str("r"))),
		hx.StrAny(kv("kind", hx.Int("int64", 0))),
		hx.StrAny(kv("kind", hx.Int("int64", 1)), kv("speed", hx.Int("int64", 7))),
		hx.StrAny(kv("kind", hx.Int("int64", 1)), kv("reason", hx.Str("r"))),
		hx.StrAny(kv("kind", hx.Int("int64", 2))),
		hx.StrAny(kv("reason", hx.Str("r"))),
	}
	signalSRaws := []*hx.Val{
		hx.StrAny(kv("kind", hx.Str("")), kv("reason", hx.Str("r"))),
		hx.StrAny(kv("kind", hx.Str("go")), kv("speed", hx.Int("int64", 7))),
		hx.StrAny(kv("kind", hx.Str("stop"))),
		hx.StrAny(kv("speed", hx.Int("int64", 7))),
	}
	cases = append(cases,
		fx{"one-of, inlined int discriminator, treat-empty-as-default: member 0 drops it, the one-of puts it back", signal(true), signalRaws},
		fx{"one-of, inlined int discriminator kept by the members", signal(false), signalRaws},
		fx{"one-of, inlined string discriminator, treat-empty-as-default: the member keyed \"\" drops it", signalS(true), signalSRaws},
		fx{"one-of, inlined string discriminator kept by the members", signalS(false), signalSRaws},
		fx{"one-of, separate discriminator: Serialize attaches the key of the member found by the struct's type",
			oneOf(false, "_type", false, sMember{Key: "circle", Ty: circle()}, sMember{Key: "square", Ty: &sTy{T: "scope", Inner: square()}}),
			[]*hx.Val{
				hx.StrAny(kv("_type", hx.Str("circle")), kv("r", hx.Int("int64", 2)), kv("label", hx.Str("l"))),
				hx.StrAny(kv("_type", hx.Str("square")), kv("s", hx.Str("3"))),
				hx.StrAny(kv("_type", hx.Str("square")), kv("r", hx.Int("int64", 2))),
				hx.StrAny(kv("r", hx.Int("int64", 2))),
			}},
		fx{"one-of in an interface field of a struct-mapped object",
			obj(reflect.TypeOf(zmMid{}), false, np("any", &sProp{Ty: oneOf(true, "t", false, sMember{Key: "7", Ty: circle()}, sMember{Key: "-2", Ty: square()})})),
			[]*hx.Val{
				hx.StrAny(kv("any", hx.StrAny(kv("t", hx.Str("-2")), kv("s", hx.Int("int64", 1))))),
				hx.StrAny(kv("any", hx.StrAny(kv("t", hx.Int("int64", 7)), kv("r", hx.Int("int64", 1))))),
				hx.StrAny(),
			}},
	)
	for _, c := range cases {
		q.illFormed = map[string]bool{"fixed": true}
		for _, raw := range c.raws {
			res, x, ok := r.emit(c.t, 0, "SMU", raw.ToGo(), raw, "path", "fixed: "+c.name, 6)
			if !ok || res.R != "ok" {
				continue
			}
			xe := encAny(x)
			r.emit(c.t, 0, "SMV", x, xe, "path", "fixed: "+c.name, 6)
			sres, w, ok := r.emit(c.t, 0, "SMS", x, xe, "path", "fixed: "+c.name, 6)
			if ok && sres.R == "ok" {
				res2, x2, ok2 := r.emit(c.t, 0, "SMU", w, hx.Enc(w), "path", "fixed: "+c.name, 6)
				if ok2 && res2.R == "ok" {
					r.emit(c.t, 0, "SMS", x2, encAny(x2), "path", "fixed: "+c.name, 6)
				}
			}
		}
	}
	s.stats["structmodel:fixed-groups"] += len(cases)
	// two keys for one struct type: which discriminator Serialize attaches depends on the iteration
	// order of the members map (findUnderlyingType keeps the last match) - observed, not compared
	twins := oneOf(false, "_type", false, sMember{Key: "a", Ty: circle()}, sMember{Key: "b", Ty: circle()})
	seen := map[string]bool{}
	for i := 0; i < 64; i++ {
		b := buildSM(twins, 0)
		x, err := b.ops.u(map[string]any{"_type": "a", "r": int64(2)})
		if err != nil {
			continue
		}
		if w, err := b.ops.s(x); err == nil {
			if m, ok := w.(map[string]any); ok {
				seen[fmt.Sprint(m["_type"])] = true
			}
		}
	}
	var ds []string
	for d := range seen {
		ds = append(ds, d)
	}
	sort.Strings(ds)
	s.stats["structmodel:shared-member-type: input _type=a serialized with _type="+strings.Join(ds, "|")+" (64 runs)"]++
}

// ---------------------------------------------------------------------------------------------
// planted family: defaults of nested sub-objects (applySubObjectDefaultValues)
//
// Two things the free generator hardly ever lines up. (A) One property name at two levels with different
// pointer-ness: `limits` behind a pointer in the outer struct and on a plain field of a by-value struct below
// it (and the mirror image, and three levels), the inner object with defaults whose zero value is invalid,
// nothing declared in between, the block in between absent from the input: the inner defaults must appear
// (pointer-ness is looked up in the field table of the struct that owns the property). (B) An absent by-value
// block with NO default anywhere below it stays absent: an optional block with a required member may be left
// out, a required block with only optional members may not, and sibling rules (required_if, required_if_not,
// conflicts) that name the block see it as absent. Every input carries its expected verdict (and, for A, the
// expected field values): a deviation of the implementation is a finding of its own, next to the comparison
// with the model.

type smExpect struct {
	verdict string            // "ok" / "err"
	path    []string          // of the error, when err (nil = not checked)
	fields  map[string]string // dotted field path -> fmt.Sprint of the expected value ("<nil>" for a nil pointer)
}

type smPlantedCase struct {
	raw    *hx.Val
	expect smExpect
}

func smField(x any, path string) (string, bool) {
	v := reflect.ValueOf(x)
	for _, name := range strings.Split(path, ".") {
		for v.Kind() == reflect.Pointer || v.Kind() == reflect.Interface {
			if v.IsNil() {
				return "<nil>", true
			}
			v = v.Elem()
		}
		if v.Kind() != reflect.Struct {
			return "", false
		}
		v = v.FieldByName(name)
		if !v.IsValid() {
			return "", false
		}
	}
	if v.Kind() == reflect.Pointer {
		if v.IsNil() {
			return "<nil>", true
		}
		v = v.Elem()
	}
	return fmt.Sprint(v.Interface()), true
}

// which: the family (0..smNestedFamilies-1), or -1 for a random one
const smNestedFamilies = 12

func groupNestedDefaults(s *sink, g *hx.Gen, q *smGen, which int) {
	r := &smRunner{s: s, q: q}
	q.illFormed = map[string]bool{}
	q.faithful = false
	kv := func(k string, v *hx.Val) [2]*hx.Val { return [2]*hx.Val{hx.Str(k), v} }
	str := func() *sTy { return &sTy{T: "leaf", Ty: &hx.Ty{T: "str"}} }
	intT := func() *sTy { return &sTy{T: "leaf", Ty: &hx.Ty{T: "int"}} }
	intMin1 := func() *sTy { return &sTy{T: "leaf", Ty: &hx.Ty{T: "int", Min: hx.IntP(1)}} }
	obj := func(z any, props ...sNamedProp) *sTy {
		q.nextID++
		return &sTy{T: "sobj", ID: fmt.Sprintf("N%d", q.nextID), St: describeStruct(reflect.TypeOf(z)), Props: props}
	}
	np := func(name string, p *sProp) sNamedProp { return sNamedProp{Name: name, P: p} }
	wrap := func(t *sTy) *sTy { // (a scope-wrapped sub-object is not expanded at all: kept out of this family)
		return t
	}
	dflt := int64(2 + g.R.Intn(8))
	unit := []string{"ms", "s", "B"}[g.R.Intn(3)]
	// the leaf object, three flavours
	limDefaults := func() *sTy {
		ps := []sNamedProp{np("max", &sProp{Ty: intMin1(), Default: hx.MkDefault(fmt.Sprint(dflt))})}
		if q.p(0.6) {
			ps = append(ps, np("unit", &sProp{Ty: str(), Default: hx.MkDefault(fmt.Sprintf("%q", unit))}))
		}
		if q.p(0.5) {
			ps = append(ps, np("min", &sProp{Ty: intT()}))
		}
		return obj(zmLim{}, ps...)
	}
	limRequired := func() *sTy {
		ps := []sNamedProp{np("max", &sProp{Ty: intT(), Required: true})}
		if q.p(0.5) {
			ps = append(ps, np("min", &sProp{Ty: intT()}))
		}
		if q.p(0.5) {
			ps = append(ps, np("unit", &sProp{Ty: str()}))
		}
		return obj(zmLim{}, ps...)
	}
	limOptional := func() *sTy {
		ps := []sNamedProp{np("max", &sProp{Ty: intT()})}
		if q.p(0.5) {
			ps = append(ps, np("min", &sProp{Ty: intT()}))
		}
		if q.p(0.5) {
			ps = append(ps, np("unit", &sProp{Ty: str(), EmptyIsDefault: q.p(0.5)}))
		}
		return obj(zmLim{}, ps...)
	}
	name := func(p *sProp) sNamedProp { p.Ty = str(); return np("name", p) }
	empty := hx.StrAny()
	ok := func(fields map[string]string) smExpect { return smExpect{verdict: "ok", fields: fields} }
	bad := func(path ...string) smExpect { return smExpect{verdict: "err", path: path} }
	ds := fmt.Sprint(dflt)
	var t *sTy
	var cases []smPlantedCase
	var family string
	if which < 0 {
		which = g.R.Intn(smNestedFamilies)
	}
	switch which {
	case 0: // A: pointer above, plain below
		family = "A: limits behind a pointer above, on a plain field below"
		t = obj(zmOuterP{}, np("limits", &sProp{Ty: limDefaults()}),
			np("box", &sProp{Ty: wrap(obj(zmBoxV{}, np("limits", &sProp{Ty: limDefaults()}), np("label", &sProp{Ty: str()})))}),
			name(&sProp{}))
		cases = []smPlantedCase{
			{empty, ok(map[string]string{"Limits": "<nil>", "Box.Limits.Max": ds})},
			{hx.StrAny(kv("name", hx.Str("n"))), ok(map[string]string{"Limits": "<nil>", "Box.Limits.Max": ds})},
			{hx.StrAny(kv("box", hx.StrAny())), ok(map[string]string{"Limits": "<nil>", "Box.Limits.Max": ds})},
			{hx.StrAny(kv("limits", hx.StrAny())), ok(map[string]string{"Limits.Max": ds, "Box.Limits.Max": ds})},
			{hx.StrAny(kv("box", hx.StrAny(kv("limits", hx.StrAny(kv("max", hx.Int("int64", 0))))))), bad("box", "limits", "max")},
		}
	case 1: // A, mirror image: plain above, pointer below
		family = "A: limits on a plain field above, behind a pointer below"
		t = obj(zmOuterV{}, np("limits", &sProp{Ty: limDefaults()}),
			np("box", &sProp{Ty: wrap(obj(zmBoxP{}, np("limits", &sProp{Ty: limDefaults()}), np("label", &sProp{Ty: str()})))}),
			name(&sProp{}))
		cases = []smPlantedCase{
			{empty, ok(map[string]string{"Limits.Max": ds, "Box.Limits": "<nil>"})},
			{hx.StrAny(kv("name", hx.Str("n"))), ok(map[string]string{"Limits.Max": ds, "Box.Limits": "<nil>"})},
			{hx.StrAny(kv("box", hx.StrAny())), ok(map[string]string{"Limits.Max": ds, "Box.Limits": "<nil>"})},
			{hx.StrAny(kv("box", hx.StrAny(kv("limits", hx.StrAny())))), ok(map[string]string{"Limits.Max": ds, "Box.Limits.Max": ds})},
		}
	case 2: // A, three levels
		family = "A: limits behind a pointer, on a plain field, behind a pointer (three levels)"
		t = obj(zmNest{}, np("limits", &sProp{Ty: limDefaults()}),
			np("outer", &sProp{Ty: obj(zmOuterV{}, np("limits", &sProp{Ty: limDefaults()}),
				np("box", &sProp{Ty: obj(zmBoxP{}, np("limits", &sProp{Ty: limDefaults()}))}))}),
			name(&sProp{}))
		cases = []smPlantedCase{
			{empty, ok(map[string]string{"Limits": "<nil>", "Outer.Limits.Max": ds, "Outer.Box.Limits": "<nil>"})},
			{hx.StrAny(kv("outer", hx.StrAny())), ok(map[string]string{"Limits": "<nil>", "Outer.Limits.Max": ds, "Outer.Box.Limits": "<nil>"})},
			{hx.StrAny(kv("outer", hx.StrAny(kv("box", hx.StrAny(kv("limits", hx.StrAny())))))),
				ok(map[string]string{"Limits": "<nil>", "Outer.Limits.Max": ds, "Outer.Box.Limits.Max": ds})},
		}
	case 3: // A with the parent's declared default for the block in between
		family = "A: the block in between comes from its declared default"
		t = obj(zmOuterP{}, np("limits", &sProp{Ty: limOptional()}),
			np("box", &sProp{Ty: obj(zmBoxV{}, np("limits", &sProp{Ty: limDefaults()}), np("label", &sProp{Ty: str()})),
				Default: hx.MkDefault(`{"label":"l"}`)}))
		cases = []smPlantedCase{
			{empty, ok(map[string]string{"Limits": "<nil>", "Box.Limits.Max": ds, "Box.Label": "l"})},
			{hx.StrAny(kv("box", hx.StrAny())), ok(map[string]string{"Box.Limits.Max": ds, "Box.Label": "<nil>"})},
		}
	case 4: // B: optional block, required member
		family = "B: optional block with a required member, left out"
		t = obj(zmOuterV{}, np("limits", &sProp{Ty: limRequired()}), name(&sProp{}))
		cases = []smPlantedCase{
			{empty, ok(map[string]string{"Limits.Max": "0"})},
			{hx.StrAny(kv("name", hx.Str("n"))), ok(map[string]string{"Limits.Max": "0"})},
			{hx.StrAny(kv("limits", hx.StrAny())), bad("limits", "max")},
			{hx.StrAny(kv("limits", hx.StrAny(kv("max", hx.Int("int64", 4))))), ok(map[string]string{"Limits.Max": "4"})},
		}
	case 5: // B: required block, optional members
		family = "B: required block with only optional members, left out"
		t = obj(zmOuterV{}, np("limits", &sProp{Ty: limOptional(), Required: true}), name(&sProp{}))
		cases = []smPlantedCase{
			{empty, bad("limits")},
			{hx.StrAny(kv("name", hx.Str("n"))), bad("limits")},
			{hx.StrAny(kv("limits", hx.StrAny())), ok(nil)},
		}
	case 6: // B: sibling required_if
		family = "B: sibling required_if the absent block"
		t = obj(zmOuterV{}, np("limits", &sProp{Ty: limOptional()}), name(&sProp{RequiredIf: []string{"limits"}}))
		cases = []smPlantedCase{
			{empty, ok(map[string]string{"Name": "<nil>"})},
			{hx.StrAny(kv("limits", hx.StrAny())), bad("name")},
			{hx.StrAny(kv("limits", hx.StrAny()), kv("name", hx.Str("n"))), ok(nil)},
		}
	case 7: // B: sibling required_if_not
		family = "B: sibling required_if_not the absent block"
		t = obj(zmOuterV{}, np("limits", &sProp{Ty: limOptional()}), name(&sProp{RequiredIfNot: []string{"limits"}}))
		cases = []smPlantedCase{
			{empty, bad("name")},
			{hx.StrAny(kv("limits", hx.StrAny())), ok(nil)},
			{hx.StrAny(kv("name", hx.Str("n"))), ok(nil)},
		}
	case 8: // B: sibling conflicts
		family = "B: sibling conflicts with the absent block"
		t = obj(zmOuterV{}, np("limits", &sProp{Ty: limOptional()}), name(&sProp{Conflicts: []string{"limits"}}))
		cases = []smPlantedCase{
			{hx.StrAny(kv("name", hx.Str("n"))), ok(map[string]string{"Name": "n"})},
			{hx.StrAny(kv("name", hx.Str("n")), kv("limits", hx.StrAny())), bad("name")},
			{empty, ok(nil)},
		}
	case 9: // B: two levels down
		family = "B: optional block whose by-value sub-block has a required member, both left out"
		t = obj(zmOuterP{}, np("box", &sProp{Ty: obj(zmBoxV{}, np("limits", &sProp{Ty: limRequired()}), np("label", &sProp{Ty: str()}))}),
			name(&sProp{}))
		cases = []smPlantedCase{
			{empty, ok(map[string]string{"Box.Limits.Max": "0"})},
			{hx.StrAny(kv("box", hx.StrAny())), ok(map[string]string{"Box.Limits.Max": "0"})},
			{hx.StrAny(kv("box", hx.StrAny(kv("limits", hx.StrAny())))), bad("box", "limits", "max")},
		}
	case 10: // B: the only sub-block is behind a pointer
		family = "B: optional block with a required member and a sub-block behind a pointer, left out"
		t = obj(zmOuterV{}, np("box", &sProp{Ty: obj(zmBoxP{}, np("limits", &sProp{Ty: limDefaults()}), np("label", &sProp{Ty: str(), Required: true}))}),
			name(&sProp{}))
		cases = []smPlantedCase{
			{empty, ok(map[string]string{"Box.Limits": "<nil>", "Box.Label": "<nil>"})},
			{hx.StrAny(kv("box", hx.StrAny())), bad("box", "label")},
			{hx.StrAny(kv("box", hx.StrAny(kv("label", hx.Str("l"))))), ok(map[string]string{"Box.Limits": "<nil>", "Box.Label": "l"})},
		}
	default: // B: required block two levels, and the rule on the block in between
		family = "B: required sub-block inside an absent optional block; sibling rule on the block"
		t = obj(zmOuterP{}, np("box", &sProp{Ty: obj(zmBoxV{}, np("limits", &sProp{Ty: limOptional(), Required: true}))}),
			name(&sProp{RequiredIf: []string{"box"}}))
		cases = []smPlantedCase{
			{empty, ok(map[string]string{"Name": "<nil>"})},
			{hx.StrAny(kv("box", hx.StrAny())), bad("box", "limits")},
			{hx.StrAny(kv("box", hx.StrAny(kv("limits", hx.StrAny())))), bad("name")},
		}
	}
	s.stats["structmodel:nested-defaults:"+family]++
	mode := 0
	if q.p(0.3) {
		t = &sTy{T: "scope", Inner: t}
		mode = 1
	}
	for _, c := range cases {
		res, x, emitted := r.emit(t, mode, "SMU", c.raw.ToGo(), c.raw, "path", "nested-defaults: "+family, 3)
		if !emitted {
			continue
		}
		// the direct expectations
		var wrong []string
		if res.R != c.expect.verdict {
			wrong = append(wrong, fmt.Sprintf("Unserialize: expected %s, got %s %s %v", c.expect.verdict, res.R, res.Msg, res.Path))
		} else if res.R == "err" && c.expect.path != nil && fmt.Sprint(res.Path) != fmt.Sprint(c.expect.path) {
			wrong = append(wrong, fmt.Sprintf("Unserialize: expected an error at %v, got one at %v (%s)", c.expect.path, res.Path, res.Msg))
		}
		if res.R == "ok" {
			var names []string
			for f := range c.expect.fields {
				names = append(names, f)
			}
			sort.Strings(names)
			for _, f := range names {
				if got, found := smField(x, f); !found || got != c.expect.fields[f] {
					wrong = append(wrong, fmt.Sprintf("field %s: expected %s, got %s", f, c.expect.fields[f], got))
				}
			}
		}
		if len(wrong) > 0 {
			sj, _ := json.Marshal(t)
			prop := "C03"
			if strings.HasPrefix(family, "A") {
				prop = "C01"
			}
			s.finding(Finding{Prop: prop, What: "defaults of nested sub-objects of a struct-mapped object (" + family + "): " + strings.Join(wrong, "; "),
				Cases: []int{s.nextID}, Input: c.raw, Detail: []string{string(sj)}})
		}
		if res.R != "ok" {
			continue
		}
		xe := encAny(x)
		r.emit(t, mode, "SMV", x, xe, "path", "nested-defaults: "+family, 3)
		sres, w, emitted := r.emit(t, mode, "SMS", x, xe, "path", "nested-defaults: "+family, 3)
		if emitted && sres.R == "ok" {
			r.emit(t, mode, "SMU", w, hx.Enc(w), "path", "nested-defaults: "+family, 3)
		}
	}
}

// ---------------------------------------------------------------------------------------------
// replay

func smReplay(s *sink, path string) {
	f, err := os.Open(path)
	if err != nil {
		panic(err)
	}
	defer f.Close()
	sc := bufio.NewScanner(f)
	sc.Buffer(make([]byte, 1<<20), 1<<26)
	r := &smRunner{s: s, q: &smGen{stats: s.stats, illFormed: map[string]bool{}}}
	for sc.Scan() {
		line := strings.TrimSpace(sc.Text())
		if line == "" {
			continue
		}
		var c smCase
		if err := json.Unmarshal([]byte(line), &c); err != nil {
			fmt.Fprintln(os.Stderr, "structmodel replay: bad case line:", err)
			os.Exit(2)
		}
		if c.SSchema == nil {
			continue
		}
		var arg any
		if c.Op == "SMU" {
			arg = c.SV.ToGo()
		} else {
			a, err := decTop(c.SV)
			if err != nil {
				fmt.Fprintln(os.Stderr, "structmodel replay: cannot rebuild the Go value:", err)
				os.Exit(2)
			}
			arg = a
		}
		r.emit(c.SSchema, c.Mode, c.Op, arg, c.SV, c.Cmp, c.Note, 1)
	}
}

func structModel(a Args) {
	if err := os.MkdirAll(a.Out, 0o755); err != nil {
		panic(err)
	}
	s := newSink(a.Out)
	defer s.close()
	if a.Replay != "" {
		smReplay(s, a.Replay)
		writeStats(a.Out, s, nil)
		return
	}
	g := hx.NewGen(a.Seed)
	q := &smGen{g: g, stats: s.stats}
	smFixed(s, g, q)
	for f := 0; f < smNestedFamilies; f++ {
		groupNestedDefaults(s, g, q, f) // every family once on every run, more of them at random below
	}
	for i := 0; i < a.N; i++ {
		groupStructModel(s, g, q)
		if q.p(0.2) {
			groupNestedDefaults(s, g, q, -1)
		}
	}
	writeStats(a.Out, s, g)
}

func init() {
	register("structmodel", structModel)
}
