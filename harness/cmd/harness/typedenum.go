package main

// Oracle-only group of the `typed` stream: typed string enums over Go types that carry display methods
// (String, Error, Format). Membership is a matter of the VALUE (==), never of how a value prints: a raw value
// that merely prints like a member is refused, by every entry point; members are accepted and come back as
// themselves.

import (
	"fmt"
	"strings"

	"go.flow.arcalot.io/pluginsdk/schema"

	"harness/hx"
)

type tyLevel string

func (l tyLevel) String() string { return strings.ToLower(string(l)) }

type tyProto string

func (p tyProto) String() string {
	if p == "tcp" {
		return "TCP/IP"
	}
	return string(p)
}

type tySize string

func (z tySize) Error() string { return strings.ToUpper(string(z))[:1] }

func groupStringerEnums(s *sink) {
	if s.stats["typed:stringer-enums"] > 0 {
		return
	}
	s.stats["typed:stringer-enums"]++
	type probe struct {
		raw    any
		member bool
	}
	check := func(name string, sch schema.Type, probes []probe) {
		for _, p := range probes {
			p := p
			var out any
			var err error
			r := hx.Guard(func() hx.Result { out, err = sch.Unserialize(p.raw); return hx.Result{R: "ok"} })
			where := fmt.Sprintf("%s, raw %T(%q)", name, p.raw, fmt.Sprint(p.raw))
			switch {
			case r.R == "panic":
				s.finding(Finding{Prop: "C04", What: "Unserialize of a typed string enum panicked: " + r.Msg, Detail: []string{where}})
			case p.member && err != nil:
				s.finding(Finding{Prop: "C02", What: "a declared member of a typed string enum is refused", Detail: []string{where, err.Error()}})
			case !p.member && err == nil:
				s.finding(Finding{Prop: "C02", What: "a typed string enum accepts a value that is not among its declared members (it only prints like one)",
					Detail: []string{where, fmt.Sprintf("result %#v", out)}})
			}
			if err == nil && r.R == "ok" {
				var verr, serr error
				r2 := hx.Guard(func() hx.Result { verr = sch.Validate(out); _, serr = sch.Serialize(out); return hx.Result{R: "ok"} })
				if r2.R != "ok" || (p.member && (verr != nil || serr != nil)) {
					s.finding(Finding{Prop: "C01", What: "Validate / Serialize reject what Unserialize of a typed string enum returned", Detail: []string{where, fmt.Sprint(verr, serr, r2.Msg)}})
				}
			}
		}
	}
	levels := schema.NewTypedStringEnumSchema(map[tyLevel]*schema.DisplayValue{"debug": nil, "info": nil, "warn": nil})
	check("enum[tyLevel]{debug, info, warn} (String lower-cases)", levels, []probe{{"debug", true}, {"info", true}, {"DEBUG", false}, {"Info", false},
		{"wArN", false}, {"trace", false}, {"", false}})
	protos := schema.NewTypedStringEnumSchema(map[tyProto]*schema.DisplayValue{"tcp": nil, "udp": nil})
	check("enum[tyProto]{tcp, udp} (String labels tcp as TCP/IP)", protos, []probe{{"tcp", true}, {"udp", true}, {"TCP/IP", false}, {"icmp", false}})
	sizes := schema.NewTypedStringEnumSchema(map[tySize]*schema.DisplayValue{"small": nil, "medium": nil, "large": nil})
	check("enum[tySize]{small, medium, large} (Error abbreviates)", sizes, []probe{{"small", true}, {"large", true}, {"S", false}, {"swamped", false}, {"m", false}})
	// the same below a list and as a map key
	check("list of enum[tyLevel]", schema.NewListSchema(levels, nil, nil), []probe{{[]any{"debug", "warn"}, true}, {[]any{"debug", "WARN"}, false}})
	check("map keyed by enum[tyProto]", schema.NewMapSchema(protos, schema.NewIntSchema(nil, nil, nil), nil, nil),
		[]probe{{map[string]any{"tcp": 1}, true}, {map[string]any{"TCP/IP": 1}, false}})
}
