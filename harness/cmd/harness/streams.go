package main

import (
	"bytes"
	"encoding/json"
	"fmt"
	"math"
	"math/big"
	"os"
	"os/exec"
	"reflect"
	"regexp"
	"runtime/debug"
	"strconv"
	"strings"
	"sync"
	"syscall"
	"time"

	"harness/hx"
)

// groupBounds: every boundary of a scalar schema in every Go representation (C02).
func groupBounds(s *sink, g *hx.Gen) {
	t := g.Scalar()
	if g.R.Intn(8) == 0 {
		// the any schema: it converts every integer kind to int64 and must refuse what does not fit
		t = &hx.Ty{T: "any"}
	}
	var vals []*hx.Val
	switch t.T {
	case "any":
		for _, k := range []string{"uint64", "uint"} {
			vals = append(vals, hx.Uint(k, math.MaxUint64), hx.Uint(k, 1<<63), hx.Uint(k, 1<<63+1), hx.Uint(k, math.MaxInt64), hx.Uint(k, 0))
		}
		vals = append(vals, hx.Int("int64", math.MinInt64), hx.Int("int64", math.MaxInt64), hx.Uint("uint32", math.MaxUint32), hx.Uint("uint8", 255),
			hx.Int("int8", -128), hx.F64(1e300), hx.F32(1.5), hx.List(hx.Uint("uint64", math.MaxUint64)), hx.StrAny([2]*hx.Val{hx.Str("k"), hx.Uint("uint", 1<<63)}),
			hx.AnyAny([2]*hx.Val{hx.Uint("uint64", math.MaxUint64), hx.Int("int64", 1)}))
	case "int", "enumInt":
		var pts []int64
		add := func(n int64) { pts = append(pts, n-1, n, n+1) }
		if t.Min != nil {
			n, _ := strconv.ParseInt(*t.Min, 10, 64)
			add(n)
		}
		if t.Max != nil {
			n, _ := strconv.ParseInt(*t.Max, 10, 64)
			add(n)
		}
		for _, v := range t.Vals {
			n, _ := strconv.ParseInt(v, 10, 64)
			add(n)
		}
		pts = append(pts, 0, 1, -1, math.MaxInt64, math.MinInt64, 1<<53, 1<<53+1)
		for _, n := range pts {
			vals = append(vals, hx.Int("int64", n), hx.Str(strconv.FormatInt(n, 10)))
			if n >= 0 {
				vals = append(vals, hx.Uint("uint64", uint64(n)), hx.Uint("uint", uint64(n)))
			}
			if n >= math.MinInt32 && n <= math.MaxInt32 {
				vals = append(vals, hx.Int("int32", n), hx.Int("int", n))
			}
			if n >= -128 && n <= 127 {
				vals = append(vals, hx.Int("int8", n))
			}
			if n >= 0 && n <= 255 {
				vals = append(vals, hx.Uint("uint8", uint64(n)))
			}
			vals = append(vals, hx.F64(float64(n)), hx.F32(float32(n)))
			if t.Units != nil && n >= 0 {
				vals = append(vals, hx.Str(g.FormatUnits(t.Units, n)))
			}
		}
		if t.Units != nil {
			// unit strings whose count x multiplier lies around 2^63 and 2^64 (a product that wraps past
			// 2^64 is non-negative again), and zero-padded counts (decimal, never octal)
			names := [][2]string{{t.Units.Base[0], "1"}}
			for _, m := range t.Units.Mults {
				names = append(names, [2]string{m.Names[0], strconv.FormatInt(m.M, 10)})
			}
			for _, nm := range names {
				mult, _ := new(big.Int).SetString(nm[1], 10)
				if mult.Sign() <= 0 {
					continue
				}
				for _, e := range []uint{63, 64, 65} {
					lim := new(big.Int).Lsh(big.NewInt(1), e)
					q := new(big.Int).Div(lim, mult)
					for _, d := range []int64{-1, 0, 1, 2} {
						c := new(big.Int).Add(q, big.NewInt(d))
						if c.Sign() >= 0 {
							vals = append(vals, hx.Str(c.String()+nm[0]))
						}
					}
				}
				vals = append(vals, hx.Str("010"+nm[0]), hx.Str("0019"+nm[0]), hx.Str("00"+nm[0]))
			}
			// a second definition of the same scale (same base names, same multiplier amounts) whose multiplier
			// units are NAMED differently: each accepts its own names only, whichever was used first
			if len(t.Units.Mults) > 0 {
				twinU := &hx.Units{Base: t.Units.Base}
				for _, m := range t.Units.Mults {
					twinU.Mults = append(twinU.Mults, hx.UnitMult{M: m.M, Names: [4]string{m.Names[0] + "i", m.Names[1] + "i", m.Names[2] + "i", m.Names[3] + "i"}})
				}
				twin := *t
				twin.Units = twinU
				m0, t0 := t.Units.Mults[0], twinU.Mults[0]
				pairs := []struct {
					ty *hx.Ty
					s  string
				}{{t, "3" + m0.Names[0]}, {&twin, "3" + t0.Names[0]}, {t, "3" + t0.Names[0]}, {&twin, "3" + m0.Names[0]},
					{t, "2" + m0.Names[2] + " 1" + t.Units.Base[0]}, {&twin, "2" + t0.Names[2] + " 1" + t.Units.Base[0]}}
				g.R.Shuffle(len(pairs), func(i, j int) { pairs[i], pairs[j] = pairs[j], pairs[i] })
				for _, pr := range pairs {
					s.emit("U", pr.ty, hx.Str(pr.s), nil, false, "class", "bounds:twin-units")
				}
			}
			// several components, each below 2^63, whose TOTAL lies beyond 2^64 (a sum that wraps twice is
			// non-negative again) or just beyond 2^63
			if len(names) >= 3 {
				for _, num := range []int64{7, 5, 4} { // each component about num/10 of 2^63
					str := ""
					for i := len(names) - 1; i >= 0 && i >= len(names)-4; i-- {
						mult, _ := new(big.Int).SetString(names[i][1], 10)
						if mult.Sign() <= 0 {
							continue
						}
						part := new(big.Int).Div(new(big.Int).Mul(new(big.Int).Lsh(big.NewInt(1), 63), big.NewInt(num)), big.NewInt(10))
						c := new(big.Int).Div(part, mult)
						str += c.String() + names[i][0] + " "
					}
					vals = append(vals, hx.Str(str))
				}
			}
		}
		vals = append(vals, hx.Uint("uint64", math.MaxUint64), hx.Uint("uint64", 1<<63), hx.F64(9.223372036854775807e18),
			hx.F64(-9.223372036854775808e18), hx.F64(0.5), hx.F64(math.NaN()), hx.F64(math.Inf(1)), hx.Bool(true), hx.Bool(false),
			hx.Str("9223372036854775808"), hx.Str("-9223372036854775809"), hx.Str(" 5"), hx.Str("+5"), hx.Str("5.0"), hx.Str(""), hx.Nil(),
			// numerals only decimal notation denotes: zero padding is not octal, no prefixes, no separators, no blanks
			hx.Str("010"), hx.Str("-010"), hx.Str("08"), hx.Str("0777"), hx.Str("0x10"), hx.Str("0b101"), hx.Str("0o17"), hx.Str("1_000"),
			hx.Str(" "), hx.Str("\t"), hx.Str("\n \r"), hx.Str("5 "), hx.Str("1e3"), hx.Str("٣"), hx.Str("--5"), hx.Str("+-5"), hx.Str("0"), hx.Str("-0"), hx.Str("+0"), hx.Str("00"))
	case "float":
		var pts []float64
		add := func(f float64) { pts = append(pts, math.Nextafter(f, math.Inf(-1)), f, math.Nextafter(f, math.Inf(1))) }
		if t.Min != nil {
			add(math.Float64frombits(parseHex(*t.Min)))
		}
		if t.Max != nil {
			add(math.Float64frombits(parseHex(*t.Max)))
		}
		pts = append(pts, 0, math.Copysign(0, -1), 1, -1, math.NaN(), math.Inf(1), math.Inf(-1), 1e-320, math.MaxFloat64, 1<<53, 0.1)
		for _, f := range pts {
			vals = append(vals, hx.F64(f), hx.Str(strconv.FormatFloat(f, 'g', -1, 64)), hx.Str(strconv.FormatFloat(f, 'f', -1, 64)))
			if float64(float32(f)) == f || f != f {
				vals = append(vals, hx.F32(float32(f)))
			}
			if f == math.Trunc(f) && math.Abs(f) < 9e18 {
				vals = append(vals, hx.Int("int64", int64(f)), hx.Int("int", int64(f)))
				if f >= 0 {
					vals = append(vals, hx.Uint("uint64", uint64(f)))
					if t.Units != nil {
						vals = append(vals, hx.Str(g.FormatUnits(t.Units, int64(f))))
					}
				}
			}
		}
		if t.Units != nil && len(t.Units.Mults) >= 3 {
			// several units and a fractional base count with a total beyond 2^53: every addition rounds, so the
			// order in which the components are added shows in the last bits (it must be the declared order).
			// Evaluated on the same schema without bounds, so that the value (not a bound) decides.
			free := *t
			free.Min, free.Max = nil, nil
			for k := 0; k < 12; k++ {
				str := ""
				for i := len(t.Units.Mults) - 1; i >= 0; i-- {
					m := t.Units.Mults[i]
					c := int64(1 + g.R.Intn(999))
					if i == len(t.Units.Mults)-1 && m.M > 0 {
						c = (int64(1)<<uint(54+g.R.Intn(8)))/m.M + int64(g.R.Intn(1000))
					}
					if c > 0 {
						str += strconv.FormatInt(c, 10) + m.Names[0]
					}
				}
				str += strconv.Itoa(g.R.Intn(10)) + "." + strconv.Itoa(1+g.R.Intn(9)) + t.Units.Base[0]
				s.emit("U", &free, hx.Str(str), nil, false, "class", "bounds:float-sum-order")
			}
		}
		vals = append(vals, hx.Int("int64", math.MaxInt64), hx.Int("int64", 1<<53+1), hx.Uint("uint64", math.MaxUint64), hx.Bool(true), hx.Str("NaN"), hx.Str("Inf"), hx.Str("1e999"), hx.Str("0x1p-2"), hx.Str("1_0"), hx.Str(""), hx.Nil())
	case "str", "enumStr":
		lens := []int64{0, 1}
		if t.Min != nil {
			n, _ := strconv.ParseInt(*t.Min, 10, 64)
			lens = append(lens, n-1, n, n+1)
		}
		if t.Max != nil {
			n, _ := strconv.ParseInt(*t.Max, 10, 64)
			lens = append(lens, n-1, n, n+1)
		}
		for _, n := range lens {
			if n < 0 {
				continue
			}
			vals = append(vals, hx.Str(repeat("a", int(n))), hx.Str(repeat("é", int(n)/2)), hx.Str(repeat("7", int(n))))
		}
		for _, v := range t.Vals {
			vals = append(vals, hx.Str(v), hx.Str(v+"x"))
			if n, err := strconv.ParseInt(v, 10, 64); err == nil {
				vals = append(vals, hx.Int("int64", n), hx.Uint("uint8", uint64(n&0x7f)))
			}
		}
		vals = append(vals, hx.Int("int64", 12345), hx.Int("int8", -7), hx.Uint("uint64", math.MaxUint64), hx.F64(1.5), hx.F32(2.25), hx.F64(1e21), hx.F64(math.NaN()), hx.Bool(true), hx.Nil(), hx.Bytes([]byte("ab")))
	case "bool":
		for _, w := range []string{"1", "yes", "y", "on", "true", "enable", "enabled", "0", "no", "n", "off", "false", "disable", "disabled", "YES", "On", "tRuE", "dİsable", "ye", "2", "", " yes"} {
			vals = append(vals, hx.Str(w))
		}
		for _, k := range []string{"int", "int8", "int16", "int32", "int64"} {
			vals = append(vals, hx.Int(k, 0), hx.Int(k, 1), hx.Int(k, 2), hx.Int(k, -1))
		}
		for _, k := range []string{"uint", "uint8", "uint16", "uint32", "uint64"} {
			vals = append(vals, hx.Uint(k, 0), hx.Uint(k, 1), hx.Uint(k, 2))
		}
		vals = append(vals, hx.Uint("uint64", math.MaxUint64), hx.Uint("uint64", 1<<32), hx.Bool(true), hx.Bool(false), hx.F64(1), hx.F64(0), hx.Nil(),
			hx.Uint("uint", math.MaxUint64), hx.Uint("uint", 1<<63), hx.Uint("uint", math.MaxInt64), hx.Uint("uint64", 1<<63), hx.Uint("uint", math.MaxUint64-1))
	case "pattern":
		for _, w := range []string{"^a+$", "a(b", "", "[", "x|y", "\\d+", "(?P<n>a)", "a{2,1}", "a\n", "\n", "\r\n", "^a$\r\n", "a\\\n", "a\\\r", " a ", "\ta\t", "a\n\n"} {
			vals = append(vals, hx.Str(w))
		}
		vals = append(vals, hx.Int("int64", 5), hx.F64(1.5), hx.Bool(true), hx.Nil())
	}
	for _, v := range vals {
		res, _, out := s.emit("U", t, v, nil, false, "class", "bounds")
		s.emit("C", t, v, nil, false, "class", "bounds:compat")
		if res.R == "ok" {
			// native form: Validate and Serialize enforce the same constraints
			s.emit("V", t, hx.Enc(out), out, true, "class", "bounds:validate-own")
			s.emit("S", t, hx.Enc(out), out, true, "class", "bounds:serialize-own")
		}
	}
	// natives that violate the constraints: Validate / Serialize must reject exactly those
	for i := 0; i < 6; i++ {
		other := g.Scalar()
		if other.T != t.T {
			continue
		}
		other.Units = nil
		v := g.Value(other, hx.Env{}, 0)
		if r, _, out := s.emit("U", other, v, nil, false, "class", "bounds:other"); r.R == "ok" {
			s.emit("V", t, hx.Enc(out), out, true, "class", "bounds:validate-foreign")
			s.emit("S", t, hx.Enc(out), out, true, "class", "bounds:serialize-foreign")
		}
	}
}

func parseHex(s string) uint64 {
	n, err := strconv.ParseUint(s, 16, 64)
	if err != nil {
		panic(err)
	}
	return n
}

func repeat(s string, n int) string {
	if n > 64 {
		n = 64
	}
	out := ""
	for i := 0; i < n; i++ {
		out += s
	}
	return out
}

// groupContainers: lists and maps over scalar items with sizes at and around the bounds (C02).
func groupContainers(s *sink, g *hx.Gen) {
	var t *hx.Ty
	elem := g.Scalar()
	if g.R.Intn(5) == 0 {
		// loosely typed items / values: what they unserialize to is still exactly what the raw value denotes
		elem = &hx.Ty{T: "any"}
	}
	if g.R.Intn(2) == 0 {
		t = &hx.Ty{T: "list", Item: elem}
	} else {
		t = &hx.Ty{T: "map", K: keyScalar(g), V: elem}
	}
	if g.R.Intn(3) == 0 {
		chain(s, &hx.Ty{T: "any"}, g.AnyValue(0), "containers:any")
	}
	if g.R.Intn(4) > 0 {
		t.Min = hx.IntP(int64(g.R.Intn(3)))
	}
	if g.R.Intn(4) > 0 {
		t.Max = hx.IntP(int64(1 + g.R.Intn(3)))
	}
	for i := 0; i < 6; i++ {
		chain(s, t, g.Value(t, hx.Env{}, 0), "containers")
	}
	// the empty container in its other Go representations: a nil slice / nil map (what `var x []T` and
	// a decoder's zero value are), untyped and typed - the size bounds apply to them as to `[]any{}`
	if t.T == "list" {
		for _, lt := range []string{"", "string", "int64"} {
			chain(s, t, &hx.Val{Kind: "l", NilC: true, LT: lt}, "containers:nil")
		}
		wrapped := &hx.Ty{T: "list", Item: t}
		chain(s, wrapped, hx.List(&hx.Val{Kind: "l", NilC: true}), "containers:nil-nested")
	} else {
		for _, mk := range []string{"any", "string"} {
			chain(s, t, &hx.Val{Kind: "m", MK: mk, MVA: true, NilC: true}, "containers:nil")
		}
	}
}

func keyScalar(g *hx.Gen) *hx.Ty {
	for {
		t := g.Scalar()
		switch t.T {
		case "int", "str", "enumInt", "enumStr":
			return t
		}
	}
}

// groupObjects: small objects (<= 3 properties) with all presence subsets, and one-of dispatch
// with every discriminator representation (C03).
func groupObjects(s *sink, g *hx.Gen) {
	if g.R.Intn(3) == 0 {
		t := g.OneOf(1, nil)
		for i := 0; i < 8; i++ {
			chain(s, t, g.Value(t, hx.Env{}, 0), "objects:oneof")
		}
		if t.IntKey {
			// discriminators of the platform-sized unsigned type beyond int64: they denote no key (and must not
			// wrap into a negative one, which the generated one-ofs declare)
			for _, d := range []*hx.Val{hx.Uint("uint", math.MaxUint64), hx.Uint("uint", math.MaxUint64-1), hx.Uint("uint", 1<<63), hx.Uint("uint64", math.MaxUint64)} {
				chain(s, t, hx.StrAny([2]*hx.Val{hx.Str(t.Disc), d}), "objects:oneof-uint")
			}
		}
		return
	}
	if g.R.Intn(6) == 0 {
		// an object without properties (an empty output, a marker, a parameterless member): only the empty map
		// is a value of it; anything that is not a map is refused (there is no single property to stand for)
		empty := &hx.Ty{T: "obj", ID: "Empty"}
		holder := &hx.Ty{T: "obj", ID: "H", Props: []hx.NamedProp{{Name: "marker", P: &hx.Prop{Ty: empty}}, {Name: "n", P: &hx.Prop{Ty: &hx.Ty{T: "int"}}}}}
		for _, v := range []*hx.Val{hx.StrAny(), hx.AnyAny(), hx.Nil(), hx.Int("int64", 5), hx.Str("x"), hx.List(), hx.Bool(true), hx.StrAny([2]*hx.Val{hx.Str("a"), hx.Int("int64", 1)})} {
			chain(s, empty, v, "objects:empty")
			chain(s, holder, hx.StrAny([2]*hx.Val{hx.Str("marker"), v}), "objects:empty-nested")
			chain(s, &hx.Ty{T: "list", Item: empty}, hx.List(v), "objects:empty-item")
		}
	}
	old := g.MaxDepth
	g.MaxDepth = 2
	t := g.Object(1, nil, 0)
	g.MaxDepth = old
	if len(t.Props) > 3 {
		t.Props = t.Props[:3]
	}
	n := len(t.Props)
	for mask := 0; mask < 1<<n; mask++ {
		m := hx.StrAny()
		if g.R.Intn(2) == 0 {
			m.MK = "any"
		}
		for i, np := range t.Props {
			if mask&(1<<i) != 0 {
				m.M = append(m.M, [2]*hx.Val{hx.Str(np.Name), g.Value(np.P.Ty, hx.Env{}, 2)})
			}
		}
		chain(s, t, m, "objects:subset")
	}
	// an explicit null supplied for one property (the others valid): no type accepts nil, and a
	// supplied value is never replaced by a default
	for i := range t.Props {
		m := hx.StrAny()
		if g.R.Intn(2) == 0 {
			m.MK = "any"
		}
		for j, np := range t.Props {
			switch {
			case j == i:
				m.M = append(m.M, [2]*hx.Val{hx.Str(np.Name), hx.Nil()})
			case np.P.Required || g.R.Intn(2) == 0:
				m.M = append(m.M, [2]*hx.Val{hx.Str(np.Name), g.Value(np.P.Ty, hx.Env{}, 2)})
			}
		}
		chain(s, t, m, "objects:null")
	}
	// Validate and Serialize applied directly to native maps that Unserialize did NOT produce: every
	// subset of natively typed property values (defaults not filled in), with and without an undeclared key
	natives := map[string]any{}
	for _, np := range t.Props {
		pt := np.P.Ty
		pv := g.Value(pt, hx.Env{}, 2)
		r := hx.Guard(func() hx.Result {
			rr, out := hx.RunOpRaw("U", pt.Build(), pv.ToGo())
			if rr.R == "ok" {
				natives[np.Name] = out
			}
			return rr
		})
		_ = r
	}
	for mask := 0; mask < 1<<n; mask++ {
		nm := map[string]any{}
		for i, np := range t.Props {
			if v, ok := natives[np.Name]; ok && mask&(1<<i) != 0 {
				nm[np.Name] = v
			}
		}
		for _, extra := range []bool{false, true} {
			if extra {
				if mask%3 != 0 {
					continue
				}
				nm["undeclared_key"] = int64(1)
			}
			s.emit("V", t, hx.Enc(nm), nm, true, "class", "objects:native-subset")
			s.emit("S", t, hx.Enc(nm), nm, true, "class", "objects:native-subset")
		}
	}
	// property IDs that look like numbers or booleans, and keys that RENDER to them without being strings
	{
		nt := &hx.Ty{T: "obj", ID: "N", Props: []hx.NamedProp{
			{Name: "1", P: &hx.Prop{Ty: &hx.Ty{T: "int"}}}, {Name: "true", P: &hx.Prop{Ty: &hx.Ty{T: "str"}}},
			{Name: "2.5", P: &hx.Prop{Ty: &hx.Ty{T: "bool"}}}, {Name: "k", P: &hx.Prop{Ty: &hx.Ty{T: "int"}}}}}
		one := hx.Int("int64", 1)
		for _, m := range []*hx.Val{
			hx.AnyAny([2]*hx.Val{hx.Str("1"), one}), hx.AnyAny([2]*hx.Val{hx.Int("int64", 1), one}), hx.AnyAny([2]*hx.Val{hx.Int("int", 1), one}),
			hx.AnyAny([2]*hx.Val{hx.Uint("uint8", 1), one}), hx.AnyAny([2]*hx.Val{hx.Bool(true), hx.Str("x")}), hx.AnyAny([2]*hx.Val{hx.F64(2.5), hx.Bool(true)}),
			hx.AnyAny([2]*hx.Val{hx.Str("1"), one}, [2]*hx.Val{hx.Int("int64", 1), hx.Int("int64", 2)}),
			hx.Map("int64", true, [2]*hx.Val{hx.Int("int64", 1), one}), hx.Map("other", true, [2]*hx.Val{hx.Bool(true), hx.Str("x")}),
			hx.Map("nstr", true, [2]*hx.Val{hx.Named(hx.Str("1")), one}), hx.AnyAny([2]*hx.Val{hx.Named(hx.Str("k")), one}),
		} {
			chain(s, nt, m, "objects:numeric-ids")
		}
	}
	// undeclared key, non-string key, shorthand
	extra := hx.AnyAny([2]*hx.Val{hx.Str("zz"), hx.Int("int64", 1)})
	chain(s, t, extra, "objects:undeclared")
	chain(s, t, hx.AnyAny([2]*hx.Val{hx.Int("int64", 1), hx.Int("int64", 1)}), "objects:nonstring-key")
	if n >= 1 {
		chain(s, t, g.Value(t.Props[0].P.Ty, hx.Env{}, 2), "objects:shorthand")
	}
}

// groupCorrupt: an accepted value corrupted at one position at a time; the rejection must carry
// the path to that position (C17). The expected path is computed from the position alone.
func groupCorrupt(s *sink, g *hx.Gen) {
	if g.R.Intn(12) == 0 {
		groupCorruptLongList(s, g)
		return
	}
	t := g.Schema(0, nil)
	g.SetNoShorthand(true)
	v := g.Value(t, hx.Env{}, 0)
	g.SetNoShorthand(false)
	res := hx.Guard(func() hx.Result { r, _ := hx.RunOpRaw("U", t.Build(), v.ToGo()); return r })
	if res.R != "ok" {
		s.stats["corrupt:base-rejected"]++
		return
	}
	corruptWith(s, g, "U", t, v)
	// the same for Validate on the native value
	corruptWith(s, g, "V", t, res.V)
}

// groupCorruptLongList: the same question for lists of 60 to 260 items (samples, log lines), alone and as a
// property, with the single fault planted around the positions where an implementation working in blocks of
// 2^k items would restart its count.
func groupCorruptLongList(s *sink, g *hx.Gen) {
	var item *hx.Ty
	if g.R.Intn(2) == 0 {
		item = g.Scalar()
	} else {
		item = g.Object(2, nil, 1)
	}
	t := &hx.Ty{T: "list", Item: item}
	n := 60 + g.R.Intn(200)
	v := &hx.Val{Kind: "l"}
	g.SetNoShorthand(true)
	isch := item.Build()
	var good []*hx.Val
	for i := 0; i < n; i++ {
		var e *hx.Val
		for try := 0; try < 4 && e == nil; try++ {
			c := g.Value(item, hx.Env{}, 2)
			if r := hx.Guard(func() hx.Result { r, _ := hx.RunOpRaw("U", isch, c.ToGo()); return r }); r.R == "ok" {
				e = c
				good = append(good, c)
			}
		}
		if e == nil {
			if len(good) == 0 {
				continue
			}
			e = good[g.R.Intn(len(good))]
		}
		v.L = append(v.L, e)
	}
	g.SetNoShorthand(false)
	n = len(v.L)
	if n < 40 {
		s.stats["corrupt:base-rejected"]++
		return
	}
	if g.R.Intn(2) == 0 {
		t = &hx.Ty{T: "obj", ID: "Series", Props: []hx.NamedProp{{Name: "samples", P: &hx.Prop{Ty: t, Required: true}}}}
		v = hx.StrAny([2]*hx.Val{hx.Str("samples"), v})
	}
	res := hx.Guard(func() hx.Result { r, _ := hx.RunOpRaw("U", t.Build(), v.ToGo()); return r })
	if res.R != "ok" {
		s.stats["corrupt:base-rejected"]++
		return
	}
	s.stats["corrupt:long-list"]++
	near := func(c hx.Corruption) bool {
		for _, seg := range c.Path {
			if len(seg) > 2 && seg[0] == '[' {
				if i, err := strconv.Atoi(seg[1 : len(seg)-1]); err == nil {
					return i >= n-2 || i%32 <= 1 || i%32 == 31 || i%7 == 0
				}
			}
		}
		return false
	}
	for _, opv := range []struct {
		op string
		v  *hx.Val
	}{{"U", v}, {"V", res.V}} {
		var cs []hx.Corruption
		for _, c := range hx.Corruptions(t, opv.v, hx.Env{}) {
			if near(c) {
				cs = append(cs, c)
			}
		}
		corruptCases(s, g, opv.op, t, cs)
	}
}

func corruptWith(s *sink, g *hx.Gen, op string, t *hx.Ty, v *hx.Val) {
	corruptCases(s, g, op, t, hx.Corruptions(t, v, hx.Env{}))
}

func corruptCases(s *sink, g *hx.Gen, op string, t *hx.Ty, cs []hx.Corruption) {
	if len(cs) > 40 {
		g.R.Shuffle(len(cs), func(i, j int) { cs[i], cs[j] = cs[j], cs[i] })
		cs = cs[:40]
	}
	for _, c := range cs {
		r, id, _ := s.emit(op, t, c.V, nil, false, "path", "corrupt:"+op+":"+c.What)
		s.stats["corrupt:"+op+":"+c.What]++
		if r.R == "panic" {
			continue
		}
		if r.R != "err" {
			// the fault may be absorbed by a lenient conversion elsewhere; not a path question
			s.stats["corrupt:absorbed"]++
			continue
		}
		if c.Names != "" && r.C != nil && *r.C && samePath(stripMarkers(r.Path), c.Path) && !strings.Contains(r.Msg, c.Names) {
			s.finding(Finding{Prop: "C17", What: "rejection does not name the undeclared key (" + c.What + ")",
				Cases: []int{id}, Schema: t, Input: c.V, Detail: []string{"expected the key " + c.Names + " in the message", "got " + r.JSON()}})
		}
		if r.C == nil || !*r.C || !samePath(stripMarkers(r.Path), c.Path) {
			s.finding(Finding{Prop: "C17", What: "rejection does not name the offending element (" + c.What + ")",
				Cases: []int{id}, Schema: t, Input: c.V, Detail: []string{"expected path " + pathText(c.Path), "got " + r.JSON()}})
		}
	}
}

func samePath(a, b []string) bool {
	if len(a) != len(b) {
		return false
	}
	for i := range a {
		if a[i] != b[i] {
			return false
		}
	}
	return true
}

func pathText(p []string) string {
	out := "["
	for i, s := range p {
		if i > 0 {
			out += " -> "
		}
		out += s
	}
	return out + "]"
}

// stripMarkers drops the "{oneof[k]}" marker that only Validate inserts; it is not a property
// name, index or key.
func stripMarkers(p []string) []string {
	var out []string
	for _, s := range p {
		if len(s) > 7 && s[:7] == "{oneof[" {
			continue
		}
		out = append(out, s)
	}
	return out
}

// groupHistory: one schema instance used for a whole sequence of calls (including failing and
// default-filling ones); every call must return what a FRESH instance returns for the same
// (operation, argument), must leave its argument untouched, and the instance's self-description
// must not change (C12).
func groupHistory(s *sink, g *hx.Gen) {
	t := g.Schema(0, nil)
	// every fourth history: a number with units, fed empty / blank / malformed / multi-unit strings in
	// random order (lazily built parser state must not depend on which string came first)
	var unitPool []*hx.Val
	if g.R.Intn(4) == 0 {
		u := g.GenUnits()
		for u == nil || len(u.Mults) < 2 {
			u = g.GenUnits()
		}
		t = &hx.Ty{T: []string{"int", "float"}[g.R.Intn(2)], Units: u}
		unitPool = []*hx.Val{hx.Str(""), hx.Str(" "), hx.Str("\t\n"), hx.Str("x"), hx.Str("1" + u.Mults[0].Names[0] + "1" + u.Mults[0].Names[0])}
		for i := 0; i < 6; i++ {
			var n int64 = 1
			for _, m := range u.Mults {
				n += m.M * int64(1+g.R.Intn(3))
			}
			unitPool = append(unitPool, hx.Str(g.FormatUnits(u, n+int64(g.R.Intn(50)))))
		}
		if g.R.Intn(2) == 0 {
			t = &hx.Ty{T: "obj", ID: "H", Props: []hx.NamedProp{{Name: "t", P: &hx.Prop{Ty: t, Required: true}}, {Name: "z", P: &hx.Prop{Ty: &hx.Ty{T: "bool"}}}}}
			for i, v := range unitPool {
				unitPool[i] = hx.StrAny([2]*hx.Val{hx.Str("t"), v})
			}
		}
	}
	// every sixth history: properties whose defaults are mutable values (a list, a map, an object): the
	// callers edit what they get back, and every later call must still receive the declared default
	if unitPool == nil && g.R.Intn(6) == 0 {
		t = &hx.Ty{T: "obj", ID: "Job", Props: []hx.NamedProp{
			{Name: "name", P: &hx.Prop{Ty: &hx.Ty{T: "str"}}},
			{Name: "tags", P: &hx.Prop{Ty: &hx.Ty{T: "list", Item: &hx.Ty{T: "str"}}, Default: hx.MkDefault(`["beta","alpha","gamma"]`)}},
			{Name: "limits", P: &hx.Prop{Ty: &hx.Ty{T: "map", K: &hx.Ty{T: "str"}, V: &hx.Ty{T: "int"}}, Default: hx.MkDefault(`{"cpu":2,"mem":4}`)}},
			{Name: "extra", P: &hx.Prop{Ty: &hx.Ty{T: "any"}, Default: hx.MkDefault(`{"a":[1,2,3],"b":{"c":"d"}}`)}},
			{Name: "inner", P: &hx.Prop{Ty: &hx.Ty{T: "obj", ID: "In", Props: []hx.NamedProp{{Name: "x", P: &hx.Prop{Ty: &hx.Ty{T: "int"}}},
				{Name: "ys", P: &hx.Prop{Ty: &hx.Ty{T: "list", Item: &hx.Ty{T: "int"}}, Default: hx.MkDefault(`[3,1,2]`)}}}}, Default: hx.MkDefault(`{"x":1}`)}},
		}}
		if g.R.Intn(2) == 0 {
			t = &hx.Ty{T: "list", Item: t}
		}
		for rep := 0; rep < 5; rep++ {
			for _, v := range []*hx.Val{hx.StrAny([2]*hx.Val{hx.Str("name"), hx.Str("x")}), hx.StrAny(),
				hx.StrAny([2]*hx.Val{hx.Str("tags"), hx.List(hx.Str("own"))}), hx.StrAny([2]*hx.Val{hx.Str("inner"), hx.StrAny()})} {
				if t.T == "list" {
					v = hx.List(v, hx.StrAny())
				}
				unitPool = append(unitPool, v)
			}
		}
		s.stats["history:mutable-defaults"]++
	}
	// every sixth history: a one-of whose members have several optional properties, fed rejected inputs
	// with a key that is not a string next to valid ones (a scratch buffer handed back uncleared on that
	// early return would show in the next call), interleaved with minimal valid inputs
	if unitPool == nil && g.R.Intn(6) == 0 {
		mk := func(id string) *hx.Ty {
			return &hx.Ty{T: "obj", ID: id, Props: []hx.NamedProp{
				{Name: "name", P: &hx.Prop{Ty: &hx.Ty{T: "str"}}}, {Name: "admin", P: &hx.Prop{Ty: &hx.Ty{T: "bool"}}},
				{Name: "quota", P: &hx.Prop{Ty: &hx.Ty{T: "int"}}}}}
		}
		oo := &hx.Ty{T: "oneOf", Disc: "kind", Members: []hx.Member{{Key: "user", Ty: mk("U")}, {Key: "svc", Ty: mk("S")}}}
		t = oo
		if g.R.Intn(2) == 0 {
			t = &hx.Ty{T: "obj", ID: "Acc", Props: []hx.NamedProp{{Name: "account", P: &hx.Prop{Ty: oo}}}}
		}
		wrap := func(v *hx.Val) *hx.Val {
			if t == oo {
				return v
			}
			return hx.StrAny([2]*hx.Val{hx.Str("account"), v})
		}
		for rep := 0; rep < 6; rep++ {
			bad := hx.AnyAny([2]*hx.Val{hx.Str("kind"), hx.Str("user")}, [2]*hx.Val{hx.Str("name"), hx.Str("mallory")},
				[2]*hx.Val{hx.Str("admin"), hx.Bool(true)}, [2]*hx.Val{hx.Str("quota"), hx.Int("int64", 1000000)}, [2]*hx.Val{hx.Int("int64", 7), hx.Str("x")})
			unitPool = append(unitPool, wrap(bad),
				wrap(hx.StrAny([2]*hx.Val{hx.Str("kind"), hx.Str([]string{"user", "svc"}[rep%2])}, [2]*hx.Val{hx.Str("name"), hx.Str("bob")})),
				wrap(hx.AnyAny([2]*hx.Val{hx.Str("kind"), hx.Str("svc")})))
		}
		s.stats["history:oneof-badkey"]++
	}
	// every fifth history: presence rules naming several other fields, fed every combination of set
	// fields in random order (a rejected call must not rewrite the rule lists of the schema)
	if unitPool == nil && g.R.Intn(5) == 0 {
		names := []string{"user", "group", "role", "token"}
		nn := 3 + g.R.Intn(2)
		props := make([]hx.NamedProp, nn)
		for i := range props {
			props[i] = hx.NamedProp{Name: names[i], P: &hx.Prop{Ty: &hx.Ty{T: "int"}}}
		}
		others := func(i int) []string {
			var o []string
			for j := range props {
				if j != i {
					o = append(o, names[j])
				}
			}
			g.R.Shuffle(len(o), func(a, b int) { o[a], o[b] = o[b], o[a] })
			return o[:2+g.R.Intn(len(o)-1)]
		}
		for k := 0; k < 1+g.R.Intn(2); k++ {
			i := g.R.Intn(nn)
			switch g.R.Intn(3) {
			case 0:
				props[i].P.RequiredIf = others(i)
			case 1:
				props[i].P.RequiredIfNot = others(i)
			default:
				props[i].P.Conflicts = others(i)
			}
		}
		t = &hx.Ty{T: "scope", Root: "R", Objs: []hx.NamedObj{{ID: "R", Ty: &hx.Ty{T: "obj", ID: "R", Props: props}}}}
		for rep := 0; rep < 2; rep++ {
			for mask := 0; mask < 1<<nn; mask++ {
				m := hx.StrAny()
				for i := range props {
					if mask&(1<<i) != 0 {
						m.M = append(m.M, [2]*hx.Val{hx.Str(names[i]), hx.Int("int64", int64(i+1))})
					}
				}
				unitPool = append(unitPool, m)
			}
		}
		g.R.Shuffle(len(unitPool), func(a, b int) { unitPool[a], unitPool[b] = unitPool[b], unitPool[a] })
		s.stats["history:rules"]++
	}
	// every fifth history: several REQUIRED properties, checked mostly through data-mode ValidateCompatibility,
	// starting with documents that lack some of them (what a rejected first call notes about the schema must
	// not be what later calls rely on)
	preferC := false
	if unitPool == nil && g.R.Intn(5) == 0 {
		names := []string{"host", "port", "user", "path", "note"}
		nn := 3 + g.R.Intn(2)
		props := make([]hx.NamedProp, nn+1)
		for i := 0; i < nn; i++ {
			props[i] = hx.NamedProp{Name: names[i], P: &hx.Prop{Ty: &hx.Ty{T: "int"}, Required: true}}
		}
		props[nn] = hx.NamedProp{Name: names[4], P: &hx.Prop{Ty: &hx.Ty{T: "str"}}}
		t = &hx.Ty{T: "obj", ID: "Req", Props: props}
		if g.R.Intn(2) == 0 {
			t = &hx.Ty{T: "scope", Root: "Req", Objs: []hx.NamedObj{{ID: "Req", Ty: t}}}
		}
		var rest []*hx.Val
		for rep := 0; rep < 2; rep++ {
			for mask := 0; mask < 1<<nn; mask++ {
				m := hx.StrAny()
				for i := 0; i < nn; i++ {
					if mask&(1<<i) != 0 {
						m.M = append(m.M, [2]*hx.Val{hx.Str(names[i]), hx.Int("int64", int64(i+1))})
					}
				}
				if rep == 0 && mask == 0 {
					unitPool = append(unitPool, m)
				} else {
					rest = append(rest, m)
				}
			}
		}
		g.R.Shuffle(len(rest), func(a, b int) { rest[a], rest[b] = rest[b], rest[a] })
		if g.R.Intn(2) == 0 {
			unitPool = nil // sometimes the first document is any of them
		}
		unitPool = append(unitPool, rest...)
		preferC = true
		s.stats["history:required"]++
	}
	used := t.Build()
	describe := func() string {
		r := hx.Guard(func() hx.Result {
			if sc, ok := used.(interface{ SelfSerialize() (any, error) }); ok {
				d, err := sc.SelfSerialize()
				if err != nil {
					return hx.Result{R: "err"}
				}
				return hx.Result{R: "ok", V: hx.Enc(d)}
			}
			return hx.Result{R: "ok", V: hx.Nil()}
		})
		if r.R != "ok" {
			return r.R
		}
		return hx.Canon(r.V)
	}
	before := describe()
	n := 5 + g.R.Intn(20)
	if t.T == "scope" && t.Root == "R" && len(unitPool) > 0 {
		n = len(unitPool)
	}
	sequential := unitPool != nil && ((s.stats["history:oneof-badkey"] > 0 && (t.T == "oneOf" || (t.T == "obj" && t.ID == "Acc"))) ||
		(t.T == "obj" && t.ID == "Job") || (t.T == "list" && t.Item != nil && t.Item.ID == "Job"))
	if sequential || preferC {
		n = len(unitPool)
	}
	var natives []any
	for i := 0; i < n; i++ {
		op := []string{"U", "U", "U", "C", "V", "S"}[g.R.Intn(6)]
		var v *hx.Val
		var arg any
		if sequential {
			op = "U"
		}
		if preferC && g.R.Intn(3) > 0 {
			op = "C"
		}
		if sequential || preferC {
			v = unitPool[i]
			arg = v.ToGo()
		} else if (op == "V" || op == "S") && len(natives) > 0 && g.R.Intn(3) > 0 {
			arg = natives[g.R.Intn(len(natives))]
			v = hx.Enc(arg)
		} else {
			switch {
			case unitPool != nil && (i < 2 || g.R.Intn(3) > 0):
				v = unitPool[g.R.Intn(len(unitPool))]
				if i == 0 && g.R.Intn(2) == 0 {
					v = unitPool[g.R.Intn(3)] // empty or blank first
				}
			case g.R.Intn(4) == 0:
				v = g.RandomVal(0)
			default:
				v = g.Value(t, hx.Env{}, 0)
			}
			arg = v.ToGo()
		}
		snap := hx.Canon(hx.Enc(arg))
		var out any
		resUsed := hx.Guard(func() hx.Result { r, o := hx.RunOpRaw(op, used, arg); out = o; return r })
		if after := hx.Canon(hx.Enc(arg)); after != snap {
			s.finding(Finding{Prop: "C12", What: op + " modified its argument", Schema: t, Input: v, Detail: []string{snap, after}})
		}
		// the same call on a fresh instance, recorded as a case for the model as well
		resFresh, id, _ := s.emit(op, t, v, arg, true, "class", "history")
		if resUsed.R != resFresh.R || (resUsed.R == "ok" && hx.Canon(resUsed.V) != hx.Canon(resFresh.V)) {
			s.finding(Finding{Prop: "C12", What: "result depends on the calls made before on the same schema instance",
				Cases: []int{id}, Schema: t, Input: v, Detail: []string{"used instance: " + resUsed.JSON(), "fresh instance: " + resFresh.JSON()}})
		}
		if op == "U" && resUsed.R == "ok" {
			natives = append(natives, deepCopyGo(out))
			// what Unserialize returns belongs to the caller: edit it in place (as a step handler sorting its
			// input would); later results of this instance must not show the edit
			scribble(out)
		}
	}
	if after := describe(); after != before {
		s.finding(Finding{Prop: "C12", What: "the schema's self-description changed after a history of calls", Schema: t,
			Detail: []string{before, after}})
	}
}

// runCaseIsolated executes one schema-operation case in a child process, so that a fatal stack
// overflow or a hang is attributed to this case: the result is then "fuel".
func runCaseIsolated(c hx.Case) hx.Result {
	b, _ := json.Marshal(c)
	cmd := exec.Command(os.Args[0], "op-child")
	cmd.Stdin = bytes.NewReader(b)
	var out bytes.Buffer
	cmd.Stdout = &out
	if err := cmd.Start(); err != nil {
		return hx.Result{R: "panic", Msg: err.Error()}
	}
	done := make(chan error, 1)
	go func() { done <- cmd.Wait() }()
	select {
	case err := <-done:
		if err != nil {
			return hx.Result{R: "fuel", Msg: "child died: " + err.Error()}
		}
	case <-time.After(20 * time.Second):
		_ = cmd.Process.Kill()
		return hx.Result{R: "fuel", Msg: "timeout"}
	}
	var r hx.Result
	if err := json.Unmarshal(bytes.TrimSpace(out.Bytes()), &r); err != nil {
		return hx.Result{R: "fuel", Msg: "no result from child"}
	}
	return r
}

func opChild() {
	debug.SetMaxStack(64 << 20)
	// a ceiling on the address space: an operation whose memory doubles per nesting level dies here
	// instead of taking the machine with it
	_ = syscall.Setrlimit(syscall.RLIMIT_AS, &syscall.Rlimit{Cur: 6 << 30, Max: 6 << 30})
	var c hx.Case
	if err := json.NewDecoder(os.Stdin).Decode(&c); err != nil {
		fmt.Fprintln(os.Stderr, err)
		os.Exit(2)
	}
	r := hx.Guard(func() hx.Result { rr, _ := hx.RunOpRaw(c.Op, c.Schema.Build(), c.V.ToGo()); return rr })
	fmt.Println(r.JSON())
}

// groupRecursionWitness: the recorded non-termination (known finding): a single-property object
// whose property refers to the object itself, given a non-map value, re-enters the single-property
// shorthand for ever. Replayed in a child process on every run.
func groupRecursionWitness(s *sink, g *hx.Gen) {
	if s.stats["witness:done"] > 0 {
		return
	}
	s.stats["witness:done"]++
	groupNaNKeys(s)
	groupDeepValues(s)
	groupListCycleWitness(s)
	t := &hx.Ty{T: "scope", Root: "A", Objs: []hx.NamedObj{{ID: "A", Ty: &hx.Ty{T: "obj", ID: "A",
		Props: []hx.NamedProp{{Name: "next", P: &hx.Prop{Ty: &hx.Ty{T: "ref", ID: "A"}}}}}}}}
	for _, v := range []*hx.Val{hx.Int("int64", 5), hx.Str("x"), hx.Nil()} {
		for _, op := range []string{"U", "C"} {
			s.nextID++
			c := hx.Case{ID: s.nextID, Op: op, Schema: t, V: v, Ext: hx.MkExt(t, v), Fuel: 400, Cmp: "class", Note: "recursion-witness"}
			b, _ := json.Marshal(c)
			s.cases.Write(b)
			s.cases.WriteByte('\n')
			res := runCaseIsolated(c)
			rb, _ := json.Marshal(res)
			s.results.Write(rb)
			s.results.WriteByte('\n')
			if res.R == "fuel" {
				s.finding(Finding{Prop: "C04", What: "operation does not terminate: single-property object referring to itself, non-map input (shorthand recursion)",
					Cases: []int{c.ID}, Schema: t, Input: v, Detail: []string{"single-property-self-reference-shorthand", res.Msg}})
				s.finding(Finding{Prop: "C14", What: "self-referential object graph does not work on a finite input: single-property object referring to itself, non-map input (shorthand recursion)",
					Cases: []int{c.ID}, Schema: t, Input: v, Detail: []string{"single-property-self-reference-shorthand", res.Msg}})
			}
		}
	}
}

// groupListCycleWitness: recursive schemas whose reference cycle passes through single-property objects AND
// lists (node{children: list[ref node]}, a{bs: list[ref b]} with b{as: list[ref a]}, grid{rows: list[list[ref
// grid]]}): a scalar where a node or its list is expected is refused after finitely many steps - the list does
// not accept a lone item, so the single-property shorthand cannot come round again. Each case in a child process.
func groupListCycleWitness(s *sink) {
	ref := func(id string) *hx.Ty { return &hx.Ty{T: "ref", ID: id} }
	list := func(i *hx.Ty) *hx.Ty { return &hx.Ty{T: "list", Item: i} }
	obj := func(id, prop string, t *hx.Ty) hx.NamedObj {
		return hx.NamedObj{ID: id, Ty: &hx.Ty{T: "obj", ID: id, Props: []hx.NamedProp{{Name: prop, P: &hx.Prop{Ty: t}}}}}
	}
	schemas := []*hx.Ty{
		{T: "scope", Root: "node", Objs: []hx.NamedObj{obj("node", "children", list(ref("node")))}},
		{T: "scope", Root: "a", Objs: []hx.NamedObj{obj("a", "bs", list(ref("b"))), obj("b", "as", list(ref("a")))}},
		{T: "scope", Root: "grid", Objs: []hx.NamedObj{obj("grid", "rows", list(list(ref("grid"))))}},
	}
	for si, t := range schemas {
		prop := t.Objs[0].Ty.Props[0].Name
		values := []*hx.Val{hx.Bool(true), hx.Int("int64", 5), hx.Str("leaf"), hx.List(hx.Str("leaf")),
			hx.StrAny([2]*hx.Val{hx.Str(prop), hx.Str("leaf")}), hx.StrAny([2]*hx.Val{hx.Str(prop), hx.List(hx.Int("int64", 1))}),
			hx.StrAny([2]*hx.Val{hx.Str(prop), hx.List()})}
		for _, v := range values {
			for _, op := range []string{"U", "C"} {
				s.nextID++
				c := hx.Case{ID: s.nextID, Op: op, Schema: t, V: v, Ext: hx.MkExt(t, v), Fuel: 400, Cmp: "class", Note: "list-cycle-witness"}
				b, _ := json.Marshal(c)
				s.cases.Write(b)
				s.cases.WriteByte('\n')
				res := runCaseIsolated(c)
				rb, _ := json.Marshal(res)
				s.results.Write(rb)
				s.results.WriteByte('\n')
				s.stats["witness:list-cycle"]++
				if res.R == "fuel" {
					s.finding(Finding{Prop: "C04", What: "operation " + op + " does not return: a recursive schema whose cycle passes through single-property objects and lists, given a value that is not a node",
						Cases: []int{c.ID}, Schema: t, Input: v, Detail: []string{fmt.Sprintf("list-cycle schema %d", si), res.Msg}})
				}
			}
		}
	}
}

// groupNaNKeys: maps with NaN keys (reflect.Value.MapIndex cannot find them); fixed defect, kept as
// a regression witness on every run. Differential, and a panic is a direct C04 finding.
func groupNaNKeys(s *sink) {
	nan := hx.F64(math.NaN())
	one := hx.Int("int64", 1)
	ms := []*hx.Val{
		hx.AnyAny([2]*hx.Val{nan, one}),
		hx.AnyAny([2]*hx.Val{nan, one}, [2]*hx.Val{hx.Str("a"), one}),
	}
	ts := []*hx.Ty{
		{T: "map", K: &hx.Ty{T: "str"}, V: &hx.Ty{T: "any"}},
		{T: "map", K: &hx.Ty{T: "int"}, V: &hx.Ty{T: "int"}},
		{T: "any"},
		{T: "list", Item: &hx.Ty{T: "any"}},
	}
	for _, t := range ts {
		for _, m := range ms {
			v := m
			if t.T == "list" {
				v = hx.List(m)
			}
			for _, op := range []string{"U", "V", "S", "C"} {
				res, id, _ := s.emit(op, t, v, nil, false, "class", "nan-key")
				if res.R == "panic" {
					s.finding(Finding{Prop: "C04", What: "panic on a map with a NaN key", Cases: []int{id}, Schema: t, Input: v, Detail: []string{res.Msg}})
				}
			}
		}
	}
}

// groupDupKeys: two raw map keys that denote the same key after conversion (one already in
// canonical form, one not; or two non-canonical ones). The verdict must not depend on the order
// in which the runtime visits the entries (C12), and the model says: rejected.
func groupDupKeys(s *sink, g *hx.Gen) {
	val := func() *hx.Val { return hx.Int("int64", int64(g.R.Intn(5))) }
	n := int64(g.R.Intn(7))
	ns := strconv.FormatInt(n, 10)
	var t *hx.Ty
	var pairs [][2]*hx.Val
	strKeyed := false
	switch g.R.Intn(6) {
	case 0: // integer-keyed map: canonical int64 plus a string / another integer kind
		t = &hx.Ty{T: "map", K: &hx.Ty{T: "int"}, V: &hx.Ty{T: "int"}}
		pairs = [][2]*hx.Val{{hx.Int("int64", n), val()}, {hx.Str(ns), val()}}
		if g.R.Intn(2) == 0 {
			pairs[1][0] = hx.Uint("uint64", uint64(n))
		}
	case 1: // string-keyed map: canonical string plus an integer rendering to it
		t = &hx.Ty{T: "map", K: &hx.Ty{T: "str"}, V: &hx.Ty{T: "int"}}
		pairs = [][2]*hx.Val{{hx.Str(ns), val()}, {hx.Int("int64", n), val()}}
	case 2: // two non-canonical keys
		t = &hx.Ty{T: "map", K: &hx.Ty{T: "int"}, V: &hx.Ty{T: "int"}}
		pairs = [][2]*hx.Val{{hx.Uint("uint64", uint64(n)), val()}, {hx.Str(ns), val()}}
	case 3: // the any schema converts integer kinds to int64
		t = &hx.Ty{T: "any"}
		pairs = [][2]*hx.Val{{hx.Int("int64", n), val()}, {hx.Uint("uint64", uint64(n)), val()}}
	case 4: // a statically typed raw map (map[string]any as encoding/json produces): distinct strings, one integer
		t = &hx.Ty{T: "map", K: &hx.Ty{T: "int"}, V: &hx.Ty{T: "int"}}
		alt := []string{"0" + ns, "+" + ns, "00" + ns}[g.R.Intn(3)]
		pairs = [][2]*hx.Val{{hx.Str(ns), val()}, {hx.Str(alt), val()}}
		strKeyed = true
	default: // the same through unit strings: "60s" and "1m", "1kB" and "1024B"
		u := g.GenUnits()
		for u == nil || len(u.Mults) == 0 {
			u = g.GenUnits()
		}
		t = &hx.Ty{T: "map", K: &hx.Ty{T: "int", Units: u}, V: &hx.Ty{T: "int"}}
		mult := u.Mults[g.R.Intn(len(u.Mults))]
		k := n + 1
		pairs = [][2]*hx.Val{{hx.Str(strconv.FormatInt(k, 10) + mult.Names[0]), val()},
			{hx.Str(strconv.FormatInt(k*mult.M, 10) + u.Base[0]), val()}}
		strKeyed = true
	}
	// a few unrelated entries around them, in random order
	for i := 0; i < g.R.Intn(3); i++ {
		if strKeyed {
			pairs = append(pairs, [2]*hx.Val{hx.Str(strconv.Itoa(100 + i)), val()})
		} else {
			pairs = append(pairs, [2]*hx.Val{hx.Int("int64", 100+int64(i)), val()})
		}
	}
	g.R.Shuffle(len(pairs), func(i, j int) { pairs[i], pairs[j] = pairs[j], pairs[i] })
	m := hx.AnyAny(pairs...)
	if strKeyed {
		m = hx.StrAny(pairs...)
	}
	// a minimal size equal to the number of raw entries: if two raw keys were merged instead of
	// rejected, the result would be shorter than its own schema allows (C01: Validate / Serialize of
	// the value Unserialize returned)
	if t.T == "map" && g.R.Intn(2) == 0 {
		min := strconv.Itoa(len(pairs) - g.R.Intn(2))
		t.Min = &min
	}
	// wrap it at a random position so that nested maps are covered too
	switch g.R.Intn(3) {
	case 1:
		t = &hx.Ty{T: "list", Item: t}
		m = hx.List(m)
	case 2:
		t = &hx.Ty{T: "obj", ID: "W", Props: []hx.NamedProp{{Name: "m", P: &hx.Prop{Ty: t}}, {Name: "x", P: &hx.Prop{Ty: &hx.Ty{T: "bool"}}}}}
		m = hx.StrAny([2]*hx.Val{hx.Str("m"), m})
	}
	chain(s, t, m, "dupkeys:chain")
	res, id, _ := s.emit("U", t, m, nil, false, "class", "dupkeys")
	for i := 0; i < 12; i++ {
		again := hx.Guard(func() hx.Result { rr, _ := hx.RunOpRaw("U", t.Build(), m.ToGo()); return rr })
		if again.R != res.R || (res.R == "ok" && hx.Canon(again.V) != hx.Canon(res.V)) {
			s.finding(Finding{Prop: "C12", What: "Unserialize is not a function of its argument: keys that denote the same key are accepted or rejected depending on map iteration order",
				Cases: []int{id}, Schema: t, Input: m, Detail: []string{res.JSON(), again.JSON()}})
			break
		}
	}
}

// groupRules: an object whose properties carry presence rules, nested under a random container
// path, given otherwise valid inputs that violate EXACTLY ONE rule of ONE property: the rejection
// must be a constraint error whose path leads to that property (C17). The expected path is computed
// from the rule and the container path alone. Keys of the enclosing maps include characters that are
// special to fmt (%), to regexps and to paths.
func groupRules(s *sink, g *hx.Gen) {
	if s.stats["errorvalues:done"] == 0 || g.R.Intn(40) == 0 {
		s.stats["errorvalues:done"]++
		groupErrorValues(s, g)
	}
	leaf := func() *hx.Ty {
		return []*hx.Ty{{T: "int"}, {T: "str"}, {T: "bool"}}[g.R.Intn(3)]
	}
	names := []string{"mode", "detail", "extra", "other"}
	n := 2 + g.R.Intn(3)
	props := make([]hx.NamedProp, n)
	for i := range props {
		props[i] = hx.NamedProp{Name: names[i], P: &hx.Prop{Ty: leaf()}}
	}
	// one or two rules
	for k := 0; k < 1+g.R.Intn(2); k++ {
		i := g.R.Intn(n)
		j := (i + 1 + g.R.Intn(n-1)) % n
		switch g.R.Intn(4) {
		case 0:
			props[i].P.Required = true
		case 1:
			props[i].P.RequiredIf = append(props[i].P.RequiredIf, names[j])
		case 2:
			props[i].P.RequiredIfNot = append(props[i].P.RequiredIfNot, names[j])
		default:
			props[i].P.Conflicts = append(props[i].P.Conflicts, names[j])
		}
	}
	obj := &hx.Ty{T: "obj", ID: "R", Props: props}
	// the rules violated by a set of present properties: (property, rule) pairs
	violations := func(present map[string]bool) []string {
		var out []string
		for _, np := range props {
			if !present[np.Name] {
				if np.P.Required {
					out = append(out, np.Name)
				}
				for _, r := range np.P.RequiredIf {
					if present[r] {
						out = append(out, np.Name)
					}
				}
				if len(np.P.RequiredIfNot) > 0 {
					none := true
					for _, r := range np.P.RequiredIfNot {
						if present[r] {
							none = false
						}
					}
					if none {
						out = append(out, np.Name)
					}
				}
			} else {
				for _, r := range np.P.Conflicts {
					if present[r] {
						out = append(out, np.Name)
					}
				}
			}
		}
		return out
	}
	// container path around the object
	keyPool := []string{"k", "cpu%", "100%d", "%s", "x%%y", "a b", "a.b", "[0]", "é", "", "rate(%)", "Aoife O'Brien", "rock'n'roll", "'", "a' -> 'b", "back\\slash", "q\"uote"}
	type wrap struct {
		ty  func(*hx.Ty) *hx.Ty
		val func(*hx.Val) *hx.Val
		seg string
	}
	var wraps []wrap
	for d := g.R.Intn(3); d > 0; d-- {
		switch g.R.Intn(3) {
		case 0:
			wraps = append(wraps, wrap{func(t *hx.Ty) *hx.Ty { return &hx.Ty{T: "list", Item: t} },
				func(v *hx.Val) *hx.Val { return hx.List(v) }, "[0]"})
		case 1:
			key := keyPool[g.R.Intn(len(keyPool))]
			wraps = append(wraps, wrap{func(t *hx.Ty) *hx.Ty { return &hx.Ty{T: "map", K: &hx.Ty{T: "str"}, V: t} },
				func(v *hx.Val) *hx.Val { return hx.StrAny([2]*hx.Val{hx.Str(key), v}) }, "[" + key + "]"})
		default:
			wraps = append(wraps, wrap{func(t *hx.Ty) *hx.Ty {
				return &hx.Ty{T: "obj", ID: "W" + strconv.Itoa(g.R.Intn(1000)), Props: []hx.NamedProp{{Name: "child", P: &hx.Prop{Ty: t}}, {Name: "n", P: &hx.Prop{Ty: &hx.Ty{T: "int"}}}}}
			}, func(v *hx.Val) *hx.Val { return hx.StrAny([2]*hx.Val{hx.Str("child"), v}) }, "child"})
		}
	}
	t := obj
	for _, w := range wraps {
		t = w.ty(t)
	}
	for mask := 0; mask < 1<<n; mask++ {
		present := map[string]bool{}
		m := hx.StrAny()
		for i, np := range props {
			if mask&(1<<i) != 0 {
				present[np.Name] = true
				var pv *hx.Val
				switch np.P.Ty.T {
				case "int":
					pv = []*hx.Val{hx.Int("int64", 5), hx.Str("12"), hx.Uint("uint8", 3)}[g.R.Intn(3)]
				case "str":
					pv = []*hx.Val{hx.Str("s"), hx.Str("cpu%d"), hx.Int("int64", 7)}[g.R.Intn(3)]
				default:
					pv = []*hx.Val{hx.Bool(true), hx.Str("yes"), hx.Int("int64", 0)}[g.R.Intn(3)]
				}
				m.M = append(m.M, [2]*hx.Val{hx.Str(np.Name), pv})
			}
		}
		viol := violations(present)
		var v *hx.Val = m
		var path []string
		for _, w := range wraps {
			v = w.val(v)
			path = append([]string{w.seg}, path...)
		}
		for _, op := range []string{"U"} {
			arg := v
			cmp := "class" // with several violated rules the one reported depends on map iteration order
			if len(viol) <= 1 {
				cmp = "path"
			}
			r, id, _ := s.emit(op, t, arg, nil, false, cmp, "rules:"+op)
			s.stats[fmt.Sprintf("rules:violations=%d", len(viol))]++
			if len(viol) == 1 && r.R == "err" {
				want := append(append([]string{}, path...), viol[0])
				if r.C == nil || !*r.C || !samePath(stripMarkers(r.Path), want) {
					s.finding(Finding{Prop: "C17", What: "rejection does not name the property whose presence rule is violated",
						Cases: []int{id}, Schema: t, Input: arg, Detail: []string{"expected path " + pathText(want), "got " + r.JSON()}})
				}
			}
			if len(viol) == 0 && r.R == "err" {
				s.finding(Finding{Prop: "C03", What: "an input violating no presence rule, with valid values, is rejected", Cases: []int{id}, Schema: t, Input: arg, Detail: []string{r.JSON()}})
			}
			if len(viol) > 0 && r.R == "ok" {
				s.finding(Finding{Prop: "C03", What: "an input violating a presence rule is accepted", Cases: []int{id}, Schema: t, Input: arg, Detail: viol})
			}
		}
	}
	// rejections that start as plain errors below the same containers: the short form of a
	// single-property object given a value its property rejects, and nil where a one-of is expected.
	// The element must still be named by the full container path.
	if len(wraps) == 0 {
		wraps = append(wraps, wrap{func(t *hx.Ty) *hx.Ty { return &hx.Ty{T: "list", Item: t} },
			func(v *hx.Val) *hx.Val { return hx.List(v) }, "[0]"})
	}
	one := "1"
	single := &hx.Ty{T: "obj", ID: "Only", Props: []hx.NamedProp{{Name: "only", P: &hx.Prop{Ty: &hx.Ty{T: "int", Min: &one}, Required: true}}}}
	singleList := &hx.Ty{T: "obj", ID: "OnlyL", Props: []hx.NamedProp{{Name: "items", P: &hx.Prop{Ty: &hx.Ty{T: "list", Item: &hx.Ty{T: "int"}, Min: &one}, Required: true}}}}
	oneOf := &hx.Ty{T: "oneOf", Disc: "kind", Members: []hx.Member{
		{Key: "a", Ty: &hx.Ty{T: "obj", ID: "MA", Props: []hx.NamedProp{{Name: "x", P: &hx.Prop{Ty: &hx.Ty{T: "int"}}}}}},
		{Key: "b", Ty: &hx.Ty{T: "obj", ID: "MB", Props: []hx.NamedProp{{Name: "y", P: &hx.Prop{Ty: &hx.Ty{T: "str"}}}}}}}}
	type plain struct {
		ty   *hx.Ty
		v    *hx.Val
		what string
	}
	// single-property objects whose property holds a MAP (the short form cannot be told from the long one by
	// the kind of the value): written in long form with one fault inside
	mapHolder := &hx.Ty{T: "obj", ID: "Limits", Props: []hx.NamedProp{{Name: "values", P: &hx.Prop{Ty: &hx.Ty{T: "map", K: &hx.Ty{T: "str"}, V: &hx.Ty{T: "int"}}, Required: true}}}}
	objHolder := &hx.Ty{T: "obj", ID: "Env", Props: []hx.NamedProp{{Name: "settings", P: &hx.Prop{Ty: &hx.Ty{T: "obj", ID: "Settings", Props: []hx.NamedProp{
		{Name: "region", P: &hx.Prop{Ty: &hx.Ty{T: "str"}}}, {Name: "replicas", P: &hx.Prop{Ty: &hx.Ty{T: "int"}, Required: true}}}}, Required: true}}}}
	kv := func(k string, v *hx.Val) [2]*hx.Val { return [2]*hx.Val{hx.Str(k), v} }
	for _, pc := range []plain{
		{mapHolder, hx.StrAny(kv("values", hx.StrAny(kv("cpu", hx.Str("x")), kv("mem", hx.Int("int64", 1))))), "long form of a single-property object holding a map, bad map value"},
		{mapHolder, hx.StrAny(kv("values", hx.StrAny(kv("cpu", hx.Int("int64", 1)))), kv("burst", hx.Int("int64", 2))), "long form of a single-property object holding a map, undeclared key next to it"},
		{objHolder, hx.StrAny(kv("settings", hx.StrAny(kv("region", hx.Str("eu")), kv("replicas", hx.Str("x"))))), "long form of a single-property object holding an object, bad leaf"},
		{objHolder, hx.StrAny(kv("settings", hx.StrAny(kv("region", hx.Str("eu"))))), "long form of a single-property object holding an object, required property missing below"},
		{objHolder, hx.StrAny(kv("settings", hx.StrAny(kv("replicas", hx.Int("int64", 1)), kv("zone", hx.Str("a"))))), "long form of a single-property object holding an object, undeclared key below"},
	} {
		pt, pv := pc.ty, pc.v
		for _, w := range wraps {
			pt = w.ty(pt)
			pv = w.val(pv)
		}
		r, id, _ := s.emit("U", pt, pv, nil, false, "path", "rules:holder")
		s.stats["rules:holder"]++
		if r.R == "ok" {
			s.finding(Finding{Prop: "C03", What: "invalid element accepted (" + pc.what + ")", Cases: []int{id}, Schema: pt, Input: pv})
		} else if r.R == "err" && (r.C == nil || !*r.C) {
			s.finding(Finding{Prop: "C17", What: "rejection is not a constraint error (" + pc.what + ")", Cases: []int{id}, Schema: pt, Input: pv, Detail: []string{r.JSON()}})
		}
	}
	for _, pc := range []plain{
		{single, hx.Str("x"), "short form, value not a number"},
		{single, hx.Int("int64", -5), "short form, value below the minimum"},
		{single, hx.Str(""), "short form, empty string for a number"},
		{single, hx.List(hx.Int("int64", 1)), "short form, a list for a number"},
		{singleList, hx.List(), "short form, list too short"},
		{singleList, hx.List(hx.Str("x")), "short form, list item not a number"},
		{oneOf, hx.Nil(), "nil for a one-of"},
		{oneOf, hx.Int("int64", 3), "a number for a one-of"},
	} {
		pt := pc.ty
		pv := pc.v
		var path []string
		for _, w := range wraps {
			pt = w.ty(pt)
			pv = w.val(pv)
			path = append([]string{w.seg}, path...)
		}
		r, id, _ := s.emit("U", pt, pv, nil, false, "path", "rules:plain")
		s.stats["rules:plain"]++
		if r.R == "ok" {
			s.finding(Finding{Prop: "C03", What: "invalid element accepted (" + pc.what + ")", Cases: []int{id}, Schema: pt, Input: pv})
		} else if r.R == "err" {
			got := stripMarkers(r.Path)
			if r.C == nil || !*r.C || len(got) < len(path) || !samePath(got[:len(path)], path) {
				s.finding(Finding{Prop: "C17", What: "rejection does not name the offending element (" + pc.what + ")",
					Cases: []int{id}, Schema: pt, Input: pv, Detail: []string{"expected a path starting with " + pathText(path), "got " + r.JSON()}})
			}
		}
	}
	// the same native value validated repeatedly: a rejection must name the offending element every
	// time (an operation that edits the value it is given - and puts it back only on success - would
	// report the first rejection correctly and every later one somewhere else)
	{
		five := "5"
		member := func(id string) *hx.Ty {
			return &hx.Ty{T: "obj", ID: id, Props: []hx.NamedProp{{Name: "timeout", P: &hx.Prop{Ty: &hx.Ty{T: "int", Min: &five}}}, {Name: "name", P: &hx.Prop{Ty: &hx.Ty{T: "str"}}}}}
		}
		for _, inl := range []bool{false, true} {
			oo := &hx.Ty{T: "oneOf", Disc: "kind", Inlined: inl, Members: []hx.Member{{Key: "job", Ty: member("Job")}, {Key: "task", Ty: member("Task")}}}
			if inl {
				for i := range oo.Members {
					oo.Members[i].Ty.Props = append(oo.Members[i].Ty.Props, hx.NamedProp{Name: "kind", P: &hx.Prop{Ty: &hx.Ty{T: "str"}}})
				}
			}
			nv := hx.StrAny([2]*hx.Val{hx.Str("kind"), hx.Str("job")}, [2]*hx.Val{hx.Str("timeout"), hx.Int("int64", 1)}, [2]*hx.Val{hx.Str("name"), hx.Str("n")})
			pt, pv := oo, nv
			var path []string
			for _, w := range wraps {
				pt = w.ty(pt)
				pv = w.val(pv)
				path = append([]string{w.seg}, path...)
			}
			want := append(append([]string{}, path...), "timeout")
			s.emit("V", pt, pv, nil, false, "path", "rules:repeat")
			sch := pt.Build()
			native := pv.ToGo()
			before := hx.Canon(hx.Enc(native))
			for i, op := range []string{"V", "V", "S", "V", "C", "V"} {
				r := hx.Guard(func() hx.Result { rr, _ := hx.RunOpRaw(op, sch, native); return rr })
				s.stats["rules:repeat"]++
				if op == "C" {
					continue
				}
				if r.R == "ok" || r.R == "panic" {
					s.finding(Finding{Prop: "C03", What: "a value with an element below its minimum is not rejected (call " + strconv.Itoa(i+1) + " on the same value, " + op + "): " + r.R + " " + r.Msg, Schema: pt, Input: pv})
					break
				}
				if r.C == nil || !*r.C || !samePath(stripMarkers(r.Path), want) {
					s.finding(Finding{Prop: "C17", What: "rejection does not name the offending element when the same value is checked again (call " + strconv.Itoa(i+1) + ", " + op + ")",
						Schema: pt, Input: pv, Detail: []string{"expected path " + pathText(want), "got " + r.JSON()}})
					break
				}
			}
			if after := hx.Canon(hx.Enc(native)); after != before {
				s.finding(Finding{Prop: "C12", What: "Validate / Serialize modified the value they were given", Schema: pt, Input: pv, Detail: []string{before, after}})
			}
		}
	}

}

// groupErrorValues: errors are values. A rejection returned by one call must not change when later
// calls are rejected (a shared error object whose path is extended in place would): several
// rejections are collected on one schema instance, and the path and text of each is read again after
// all calls have been made. Also run from several goroutines at once (C13).
func groupErrorValues(s *sink, g *hx.Gen) {
	inner := &hx.Ty{T: "obj", ID: "Lim", Props: []hx.NamedProp{
		{Name: "cpu", P: &hx.Prop{Ty: &hx.Ty{T: "int"}, Required: true}}, {Name: "mem", P: &hx.Prop{Ty: &hx.Ty{T: "int"}}}}}
	item := &hx.Ty{T: "obj", ID: "Item", Props: []hx.NamedProp{
		{Name: "name", P: &hx.Prop{Ty: &hx.Ty{T: "str"}, Required: true}}, {Name: "limits", P: &hx.Prop{Ty: inner}},
		{Name: "legacy", P: &hx.Prop{Ty: &hx.Ty{T: "str"}, Disabled: true}}, {Name: "old", P: &hx.Prop{Ty: &hx.Ty{T: "int"}, Disabled: true}}}}
	t := &hx.Ty{T: "obj", ID: "Doc", Props: []hx.NamedProp{
		{Name: "containers", P: &hx.Prop{Ty: &hx.Ty{T: "list", Item: item}}},
		{Name: "sidecars", P: &hx.Prop{Ty: &hx.Ty{T: "map", K: &hx.Ty{T: "str"}, V: item}}}}}
	sch := t.Build()
	good := func(n string) map[string]any { return map[string]any{"name": n, "limits": map[string]any{"cpu": 1}} }
	docs := []any{
		map[string]any{"containers": []any{good("a"), map[string]any{"limits": map[string]any{"cpu": 1}}}},                 // containers[1].name missing
		map[string]any{"sidecars": map[string]any{"log": map[string]any{"name": "l", "limits": map[string]any{"mem": 2}}}}, // sidecars[log].limits.cpu missing
		map[string]any{"containers": []any{good("a"), good("b"), "bare string"}},                                           // containers[2] not a map
		map[string]any{"sidecars": map[string]any{"proxy": map[string]any{"limits": map[string]any{"cpu": 1}}}},            // sidecars[proxy].name missing
		map[string]any{"containers": []any{map[string]any{"name": "x", "limits": "not a map"}}},                            // containers[0].limits not a map
		map[string]any{"containers": []any{good("a"), good("b"), good("c"), map[string]any{"name": "d", "legacy": "x"}}},   // containers[3].legacy disabled (no reason)
		map[string]any{"sidecars": map[string]any{"s": map[string]any{"name": "d", "legacy": "y"}}},                        // sidecars[s].legacy disabled (no reason)
		map[string]any{"containers": []any{map[string]any{"name": "d", "old": 1}}},                                         // containers[0].old disabled (with reason)
	}
	type kept struct {
		op   string
		err  error
		path []string
		msg  string
	}
	collect := func(rounds int) []kept {
		var ks []kept
		for r := 0; r < rounds; r++ {
			for _, d := range docs {
				for _, op := range []string{"Unserialize", "Validate", "Serialize"} {
					var err error
					res := hx.Guard(func() hx.Result {
						switch op {
						case "Unserialize":
							_, err = sch.Unserialize(d)
						case "Validate":
							err = sch.Validate(d)
						default:
							_, err = sch.Serialize(d)
						}
						return hx.Result{R: "ok"}
					})
					if res.R == "panic" || err == nil {
						continue
					}
					er := hx.ErrResult(err)
					ks = append(ks, kept{op, err, er.Path, err.Error()})
				}
			}
		}
		return ks
	}
	check := func(ks []kept, how string) {
		bad := 0
		for _, k := range ks {
			now := hx.ErrResult(k.err)
			s.stats["errorvalues:"+how]++
			if !samePath(now.Path, k.path) || k.err.Error() != k.msg {
				bad++
				s.stats["errorvalues:bad"]++
				if bad <= 3 {
					s.finding(Finding{Prop: "C17", What: "a rejection's path changed after it was returned (" + how + "): errors of different calls share state",
						Detail: []string{k.op, "when returned: " + pathText(k.path), "read again later: " + pathText(now.Path)}})
					s.finding(Finding{Prop: "C12", What: "the rejection of one call is rewritten by later calls (" + how + "): the same (schema, argument) is reported differently from one evaluation to the next",
						Detail: []string{k.op, "when returned: " + pathText(k.path), "read again later: " + pathText(now.Path)}})
				}
			}
		}
	}
	before := s.stats["errorvalues:bad"]
	check(collect(2), "sequential")
	s.findings.Flush()
	if s.stats["errorvalues:bad"] > before {
		return // shared state already shown; running it concurrently only corrupts memory further
	}
	// concurrently: every goroutine keeps its own errors; all are re-read at the end
	var mu sync.Mutex
	var all []kept
	var wg sync.WaitGroup
	for i := 0; i < 4; i++ {
		wg.Add(1)
		go func() {
			defer wg.Done()
			ks := collect(3)
			mu.Lock()
			all = append(all, ks...)
			mu.Unlock()
		}()
	}
	wg.Wait()
	// the first-read paths themselves must be one of the paths the same call gives when run alone
	alone := map[string]bool{}
	for _, k := range collect(1) {
		alone[k.op+"|"+pathText(k.path)] = true
	}
	for _, k := range all {
		if !alone[k.op+"|"+pathText(k.path)] {
			s.finding(Finding{Prop: "C13", What: "a rejection returned under concurrent use carries a path no call gives when run alone", Detail: []string{k.op, pathText(k.path)}})
			break
		}
	}
	check(all, "concurrent")
}

// groupDeepValues: a recursive schema whose objects nest through a list and through a map, and values
// 40 levels deep: every operation must return (in time linear in the value: a child process with a
// deadline; doing the work of a level twice per level would take 2^40 steps).
func groupDeepValues(s *sink) {
	node := &hx.Ty{T: "obj", ID: "Node", Props: []hx.NamedProp{
		{Name: "v", P: &hx.Prop{Ty: &hx.Ty{T: "int"}, Required: true}},
		{Name: "children", P: &hx.Prop{Ty: &hx.Ty{T: "list", Item: &hx.Ty{T: "ref", ID: "Node"}}}},
		{Name: "entries", P: &hx.Prop{Ty: &hx.Ty{T: "map", K: &hx.Ty{T: "str"}, V: &hx.Ty{T: "ref", ID: "Node"}}}}}}
	t := &hx.Ty{T: "scope", Root: "Node", Objs: []hx.NamedObj{{ID: "Node", Ty: node}}}
	var deep func(d int, viaList bool) *hx.Val
	deep = func(d int, viaList bool) *hx.Val {
		m := hx.StrAny([2]*hx.Val{hx.Str("v"), hx.Int("int64", int64(d))})
		if d > 0 {
			if viaList {
				m.M = append(m.M, [2]*hx.Val{hx.Str("children"), hx.List(deep(d-1, !viaList))})
			} else {
				m.M = append(m.M, [2]*hx.Val{hx.Str("entries"), hx.StrAny([2]*hx.Val{hx.Str("k"), deep(d-1, !viaList)})})
			}
		}
		return m
	}
	groupDeepAny(s)
	v := deep(40, true)
	for _, op := range []string{"U", "V", "S", "C"} {
		s.nextID++
		c := hx.Case{ID: s.nextID, Op: op, Schema: t, V: v, Ext: hx.MkExt(t, v), Fuel: 2000, Cmp: "class", Note: "deep-value"}
		b, _ := json.Marshal(c)
		s.cases.Write(b)
		s.cases.WriteByte('\n')
		res := runCaseIsolated(c)
		rb, _ := json.Marshal(res)
		s.results.Write(rb)
		s.results.WriteByte('\n')
		if res.R == "fuel" {
			s.finding(Finding{Prop: "C04", What: "operation " + op + " on a value 40 levels deep (recursive schema through a list and a map) does not return within the deadline",
				Cases: []int{c.ID}, Schema: t, Detail: []string{"deep-value", res.Msg}})
		}
	}
}

// groupDeepAny: values 48 container levels deep below an `any` position, ending in a leaf the any type
// takes (an integer) or refuses (null): every operation returns - with work that grows with the depth, not
// with 2^depth (an error text that quotes the level below twice never finishes at this depth). Each case in
// a child process with a memory ceiling and a deadline; differential like every other case.
func groupDeepAny(s *sink) {
	anyT := &hx.Ty{T: "any"}
	holder := &hx.Ty{T: "obj", ID: "Holder", Props: []hx.NamedProp{{Name: "payload", P: &hx.Prop{Ty: anyT}}}}
	wrap := func(shape int, d int, inner *hx.Val) *hx.Val {
		switch (shape + d*(shape/3)) % 3 {
		case 0:
			return hx.List(inner)
		case 1:
			return hx.StrAny([2]*hx.Val{hx.Str("k"), inner})
		default:
			return hx.AnyAny([2]*hx.Val{hx.Str("k"), inner})
		}
	}
	for shape := 0; shape < 4; shape++ {
		for _, leaf := range []*hx.Val{hx.Nil(), hx.Int("int64", 7)} {
			v := leaf
			for d := 0; d < 48; d++ {
				v = wrap(shape, d, v)
			}
			for ti, t := range []*hx.Ty{anyT, holder} {
				in := v
				if ti == 1 {
					in = hx.StrAny([2]*hx.Val{hx.Str("payload"), v})
				}
				for _, op := range []string{"U", "V", "C"} {
					s.nextID++
					c := hx.Case{ID: s.nextID, Op: op, Schema: t, V: in, Ext: hx.MkExt(t, in), Fuel: 4000, Cmp: "class", Note: "deep-any"}
					b, _ := json.Marshal(c)
					s.cases.Write(b)
					s.cases.WriteByte('\n')
					res := runCaseIsolated(c)
					rb, _ := json.Marshal(res)
					s.results.Write(rb)
					s.results.WriteByte('\n')
					s.stats["witness:deep-any"]++
					if res.R == "fuel" {
						s.finding(Finding{Prop: "C04", What: "operation " + op + " on a value 48 levels deep below an any-typed position does not return within the deadline and the memory ceiling",
							Cases: []int{c.ID}, Schema: t, Detail: []string{"deep-any", fmt.Sprintf("shape %d, leaf %s", shape, leaf.Kind), res.Msg}})
					}
				}
			}
		}
	}
}

// scribble edits a result in place: every map gets an extra entry, every slice has its elements
// overwritten with its first one reversed in order; scalars cannot be edited.
func scribble(x any) {
	if re, ok := x.(*regexp.Regexp); ok && re != nil {
		// a compiled pattern belongs to the caller as well: configure it
		re.Longest()
		return
	}
	v := reflect.ValueOf(x)
	switch v.Kind() { //nolint:exhaustive
	case reflect.Map:
		for _, k := range v.MapKeys() {
			scribble(v.MapIndex(k).Interface())
		}
		if v.Type().Key().Kind() == reflect.String && v.Type().Elem().Kind() == reflect.Interface && !v.IsNil() {
			v.SetMapIndex(reflect.ValueOf("scribbled by the caller").Convert(v.Type().Key()), reflect.ValueOf("x"))
		}
	case reflect.Slice:
		for i := 0; i < v.Len(); i++ {
			scribble(v.Index(i).Interface())
		}
		for i, j := 0, v.Len()-1; i < j; i, j = i+1, j-1 {
			a, b := v.Index(i).Interface(), v.Index(j).Interface()
			if v.Index(i).CanSet() {
				v.Index(i).Set(reflect.ValueOf(b))
				v.Index(j).Set(reflect.ValueOf(a))
			}
		}
	case reflect.Pointer:
		if !v.IsNil() {
			scribble(v.Elem().Interface())
		}
	}
}

// deepCopyGo copies maps and slices (the harness keeps natives for later Validate / Serialize calls;
// they must not see the scribbles).
func deepCopyGo(x any) any {
	if re, ok := x.(*regexp.Regexp); ok && re != nil {
		return regexp.MustCompile(re.String())
	}
	v := reflect.ValueOf(x)
	switch v.Kind() { //nolint:exhaustive
	case reflect.Map:
		if v.IsNil() {
			return x
		}
		c := reflect.MakeMapWithSize(v.Type(), v.Len())
		for _, k := range v.MapKeys() {
			e := deepCopyGo(v.MapIndex(k).Interface())
			ev := reflect.ValueOf(e)
			if e == nil {
				ev = reflect.Zero(v.Type().Elem())
			}
			c.SetMapIndex(k, ev)
		}
		return c.Interface()
	case reflect.Slice:
		if v.IsNil() {
			return x
		}
		c := reflect.MakeSlice(v.Type(), v.Len(), v.Len())
		for i := 0; i < v.Len(); i++ {
			e := deepCopyGo(v.Index(i).Interface())
			if e != nil {
				c.Index(i).Set(reflect.ValueOf(e))
			}
		}
		return c.Interface()
	}
	return x
}
