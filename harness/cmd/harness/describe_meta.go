package main

// The "meta" extractor: `harness metadump -out <dir-or-file>` writes ArcaModel/Gen/Meta.lean, a
// reflective dump of the SDK's meta-schema (DescribeScope / DescribeSchema / DescribeStepOutput:
// object IDs, property names, types, required flags, defaults, presence rules, one-of member
// tables) as values of the model's `Ty`, and of the Go structs those objects are mapped to (json
// tags of the exported fields and whether a field can be omitted: pointer or interface).
// The output is deterministic (everything that comes out of a Go map is sorted).

import (
	"encoding/json"
	"fmt"
	"math"
	"os"
	"path/filepath"
	"reflect"
	"sort"
	"strings"

	"go.flow.arcalot.io/pluginsdk/schema"
	"harness/hx"
)

func dmStr(s string) string {
	var sb strings.Builder
	sb.WriteByte('"')
	for _, r := range s {
		switch {
		case r == '"':
			sb.WriteString("\\\"")
		case r == '\\':
			sb.WriteString("\\\\")
		case r == '\n':
			sb.WriteString("\\n")
		case r == '\t':
			sb.WriteString("\\t")
		case r < 0x20 || r == 0x7f:
			fmt.Fprintf(&sb, "\\x%02x", r)
		default:
			sb.WriteRune(r)
		}
	}
	sb.WriteByte('"')
	return sb.String()
}

func dmOptInt(p *int64) string {
	if p == nil {
		return "none"
	}
	if *p < 0 {
		return fmt.Sprintf("(some (%d))", *p)
	}
	return fmt.Sprintf("(some %d)", *p)
}

func dmOptFloat(p *float64) string {
	if p == nil {
		return "none"
	}
	return fmt.Sprintf("(some 0x%016x)", math.Float64bits(*p))
}

func dmStrList(xs []string) string {
	q := make([]string, len(xs))
	for i, x := range xs {
		q[i] = dmStr(x)
	}
	return "[" + strings.Join(q, ", ") + "]"
}

func dmUnitNames(u *schema.UnitDefinition) string {
	return fmt.Sprintf("⟨%s, %s, %s, %s⟩", dmStr(u.NameShortSingular()), dmStr(u.NameShortPlural()), dmStr(u.NameLongSingular()), dmStr(u.NameLongPlural()))
}

func dmUnits(u *schema.UnitsDefinition) string {
	if u == nil {
		return "none"
	}
	keys := make([]int64, 0, len(u.Multipliers()))
	for k := range u.Multipliers() {
		keys = append(keys, k)
	}
	sort.Slice(keys, func(i, j int) bool { return keys[i] < keys[j] })
	ms := make([]string, len(keys))
	for i, k := range keys {
		ms[i] = fmt.Sprintf("(%d, %s)", k, dmUnitNames(u.Multipliers()[k]))
	}
	return fmt.Sprintf("(some ⟨%s, [%s]⟩)", dmUnitNames(u.BaseUnit()), strings.Join(ms, ", "))
}

// dmV renders a decoded JSON value as a term of the model's `V`.
func dmV(v *hx.Val) string {
	switch v.Kind {
	case "nil":
		return "V.nil"
	case "b":
		return fmt.Sprintf("(V.bool %v)", v.B)
	case "s":
		return "(V.str " + dmStr(v.S) + ")"
	case "f":
		return fmt.Sprintf("(V.float .f64 0x%016x)", v.F)
	case "l":
		xs := make([]string, len(v.L))
		for i, e := range v.L {
			xs[i] = dmV(e)
		}
		return "(V.list [" + strings.Join(xs, ", ") + "])"
	case "m":
		xs := make([]string, len(v.M))
		for i, kv := range v.M {
			xs[i] = "(" + dmV(kv[0]) + ", " + dmV(kv[1]) + ")"
		}
		return "(V.map .strAny [" + strings.Join(xs, ", ") + "])"
	}
	panic("metadump: unexpected default value kind " + v.Kind)
}

func dmDefault(text *string) string {
	if text == nil {
		return "none"
	}
	d := hx.MkDefault(*text)
	opt := func(w *hx.Wrapped) string {
		if w == nil {
			return "none"
		}
		return "(some " + dmV(w.V) + ")"
	}
	return fmt.Sprintf("(some ⟨%s, %s⟩)", opt(d.D1), opt(d.D2))
}

func dmTy(t schema.Type) string {
	switch s := t.(type) {
	case *schema.IntSchema:
		return fmt.Sprintf("(.int %s %s %s)", dmOptInt(s.MinValue), dmOptInt(s.MaxValue), dmUnits(s.UnitsValue))
	case *schema.FloatSchema:
		return fmt.Sprintf("(.float %s %s %s)", dmOptFloat(s.MinValue), dmOptFloat(s.MaxValue), dmUnits(s.UnitsValue))
	case *schema.StringSchema:
		pat := "none"
		if s.PatternValue != nil {
			pat = "(some " + dmStr(s.PatternValue.String()) + ")"
		}
		return fmt.Sprintf("(.str %s %s %s)", dmOptInt(s.MinValue), dmOptInt(s.MaxValue), pat)
	case *schema.BoolSchema:
		return ".bool"
	case *schema.PatternSchema:
		return ".pattern"
	case *schema.AnySchema:
		return ".any"
	case *schema.ListSchema:
		return fmt.Sprintf("(.list %s %s %s)", dmTy(s.ItemsValue), dmOptInt(s.MinValue), dmOptInt(s.MaxValue))
	case *schema.MapSchema[schema.Type, schema.Type]:
		return fmt.Sprintf("(.map %s %s %s %s)", dmTy(s.KeysValue), dmTy(s.ValuesValue), dmOptInt(s.MinValue), dmOptInt(s.MaxValue))
	case *schema.RefSchema:
		if s.Namespace() != schema.SelfNamespace {
			panic("metadump: the model has no namespaced references in the meta-schema")
		}
		return "(.ref " + dmStr(s.ID()) + ")"
	case *schema.OneOfSchema[string]:
		keys := make([]string, 0, len(s.TypesValue))
		for k := range s.TypesValue {
			keys = append(keys, k)
		}
		sort.Strings(keys)
		ms := make([]string, len(keys))
		for i, k := range keys {
			ms[i] = fmt.Sprintf("(.s %s, %s)", dmStr(k), dmTy(s.TypesValue[k]))
		}
		return fmt.Sprintf("(.oneOf false %s %v [%s])", dmStr(s.DiscriminatorFieldNameValue), s.DiscriminatorInlined, strings.Join(ms, ", "))
	case *schema.ObjectSchema:
		return dmObj(s)
	}
	panic(fmt.Sprintf("metadump: type %T is not part of the model of the meta-schema", t))
}

func dmObj(o *schema.ObjectSchema) string {
	names := make([]string, 0, len(o.PropertiesValue))
	for n := range o.PropertiesValue {
		names = append(names, n)
	}
	sort.Strings(names)
	ps := make([]string, len(names))
	for i, n := range names {
		p := o.PropertiesValue[n]
		ps[i] = fmt.Sprintf("(%s, .mk %s %v %s %s %s %s %v)", dmStr(n), dmTy(p.TypeValue), p.RequiredValue,
			dmStrList(p.RequiredIfValue), dmStrList(p.RequiredIfNotValue), dmStrList(p.ConflictsValue), dmDefault(p.DefaultValue), p.Disabled)
	}
	return fmt.Sprintf("(.obj %s [\n      %s])", dmStr(o.ID()), strings.Join(ps, ",\n      "))
}

func dmScope(name string, sc *schema.ScopeSchema) string {
	ids := make([]string, 0, len(sc.Objects()))
	for id := range sc.Objects() {
		ids = append(ids, id)
	}
	sort.Strings(ids)
	os := make([]string, len(ids))
	for i, id := range ids {
		os[i] = fmt.Sprintf("(%s, %s)", dmStr(id), dmObj(sc.Objects()[id]))
	}
	return fmt.Sprintf("def %sObjs : List (String × Ty) := [\n  %s]\n\ndef %sRoot : String := %s\n", name, strings.Join(os, ",\n  "), name, dmStr(sc.Root()))
}

// dmStructFields lists the json-tagged exported fields (also of inlined embedded structs) of the
// Go struct an object is mapped to, sorted by tag, with "opt" when the field can be omitted from a
// description (pointer or interface: nil is not serialized) and "req" otherwise.
func dmStructFields(o *schema.ObjectSchema) [][2]string {
	t := o.ReflectedType()
	for t.Kind() == reflect.Pointer {
		t = t.Elem()
	}
	var out [][2]string
	for _, f := range reflect.VisibleFields(t) {
		if !f.IsExported() || f.Anonymous {
			continue
		}
		tag := strings.SplitN(f.Tag.Get("json"), ",", 2)[0]
		if tag == "" || tag == "-" {
			continue
		}
		kind := "req"
		if f.Type.Kind() == reflect.Pointer || f.Type.Kind() == reflect.Interface {
			kind = "opt"
		}
		out = append(out, [2]string{tag, kind})
	}
	sort.Slice(out, func(i, j int) bool { return out[i][0] < out[j][0] })
	return out
}

func dsMetaDumpCmd(a Args) {
	path := a.Out
	if !strings.HasSuffix(path, ".lean") {
		path = filepath.Join(path, "Meta.lean")
	}
	var sb strings.Builder
	sb.WriteString("import ArcaModel.Model.Value\n")
	sb.WriteString("/-\n  GENERATED by `harness metadump` from /repo/schema/schema_schema.go (reflectively, from the live\n")
	sb.WriteString("  objects DescribeScope(), DescribeSchema(), DescribeStepOutput()). Do not edit.\n")
	sb.WriteString("  Objects and properties sorted by name; one-of members sorted by key.\n-/\n")
	sb.WriteString("namespace Arca.Gen.Meta\nopen Arca\n\n")
	sb.WriteString(dmScope("scope", schema.DescribeScope()))
	sb.WriteString("\n")
	sb.WriteString(dmScope("schema", schema.DescribeSchema()))
	sb.WriteString("\n")
	sb.WriteString(dmScope("stepOutput", schema.DescribeStepOutput()))
	sb.WriteString("\n/-- per meta object: the json-tagged exported fields of the Go struct it is mapped to; `true` = pointer or\n    interface (omitted from a description when nil) -/\n")
	sb.WriteString("def structFields : List (String × List (String × Bool)) := [\n")
	all := schema.DescribeSchema().Objects()
	ids := make([]string, 0, len(all))
	for id := range all {
		ids = append(ids, id)
	}
	sort.Strings(ids)
	for i, id := range ids {
		fs := dmStructFields(all[id])
		parts := make([]string, len(fs))
		for j, f := range fs {
			parts[j] = fmt.Sprintf("(%s, %v)", dmStr(f[0]), f[1] == "opt")
		}
		sep := ","
		if i == len(ids)-1 {
			sep = ""
		}
		fmt.Fprintf(&sb, "  (%s, [%s])%s\n", dmStr(id), strings.Join(parts, ", "), sep)
	}
	sb.WriteString("]\n\n/-- Go type of the struct each meta object is mapped to (documentation) -/\ndef structTypes : List (String × String) := [\n")
	for i, id := range ids {
		sep := ","
		if i == len(ids)-1 {
			sep = ""
		}
		fmt.Fprintf(&sb, "  (%s, %s)%s\n", dmStr(id), dmStr(all[id].ReflectedType().String()), sep)
	}
	sb.WriteString("]\n\n")
	// type IDs of the value one-of, with the object each routes to
	sb.WriteString("def typeIDs : List String := " + dmStrList(dmTypeIDs()) + "\n\n")
	sb.WriteString("end Arca.Gen.Meta\n")
	if err := os.MkdirAll(filepath.Dir(path), 0o755); err != nil {
		panic(err)
	}
	if err := os.WriteFile(path, []byte(sb.String()), 0o644); err != nil {
		panic(err)
	}
	b, _ := json.Marshal(map[string]any{"written": path, "objects": len(ids)})
	fmt.Println(string(b))
}

func dmTypeIDs() []string {
	ids := []string{string(schema.TypeIDAny), string(schema.TypeIDBool), string(schema.TypeIDIntEnum), string(schema.TypeIDStringEnum),
		string(schema.TypeIDFloat), string(schema.TypeIDInt), string(schema.TypeIDList), string(schema.TypeIDMap), string(schema.TypeIDObject),
		string(schema.TypeIDOneOfInt), string(schema.TypeIDOneOfString), string(schema.TypeIDPattern), string(schema.TypeIDRef),
		string(schema.TypeIDScope), string(schema.TypeIDString)}
	sort.Strings(ids)
	return ids
}
