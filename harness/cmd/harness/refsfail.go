package main

// Fourth part of sub-command `refs` (property C14): histories with a FAILING application that the
// caller recovers from, on scopes written as literals (stream "failing"; also run once at the start
// of stream "link"). Oracle-only: a scope literal whose object table changes between applications
// is outside the Lean linking model (there a scope's table is fixed).
//
// For every position of the reference (directly in a property, below a list, a list of lists, a map,
// a one-of member, an inline object) and both kinds of reference:
//   (b) a scope literal with a single dangling self reference: ApplySelf must panic; afterwards the
//       reference is NOT linked and ValidateReferences reports it;
//   (c) the completing application (the missing object added, ApplySelf again) links it;
//   (a) a complete application followed by a failing one (a table lacking the ID): the reference
//       keeps its object; and a failing one followed by the complete one: unlinked, then linked.
// After every step: ValidateReferences() == nil exactly when GetObject() is a non-nil *ObjectSchema
// that is the lexical target; once linked, Unserialize and Validate agree with the inlined tree.

import (
	"fmt"

	"go.flow.arcalot.io/pluginsdk/schema"
	"harness/hx"
)

type failWrap struct {
	name  string
	wrap  func(t schema.Type) schema.Type
	value func(v any) any
}

var failWraps = []failWrap{
	{"property", func(t schema.Type) schema.Type { return t }, func(v any) any { return v }},
	{"list", func(t schema.Type) schema.Type { return schema.NewListSchema(t, nil, nil) }, func(v any) any { return []any{v} }},
	{"list of lists", func(t schema.Type) schema.Type {
		return schema.NewListSchema(schema.NewListSchema(t, nil, nil), nil, nil)
	}, func(v any) any { return []any{[]any{v}} }},
	{"map", func(t schema.Type) schema.Type {
		return schema.NewMapSchema(schema.NewStringSchema(nil, nil, nil), t, nil, nil)
	}, func(v any) any { return map[string]any{"k": v} }},
	{"one-of member", func(t schema.Type) schema.Type {
		return schema.NewOneOfStringSchema[any](map[string]schema.Object{"m": t.(schema.Object)}, "_t", false)
	}, func(v any) any {
		m := map[string]any{"_t": "m"}
		if vm, ok := v.(map[string]any); ok {
			for k, e := range vm {
				m[k] = e
			}
		}
		return m
	}},
	{"inline object", func(t schema.Type) schema.Type {
		return schema.NewObjectSchema("W", map[string]*schema.PropertySchema{
			"w": schema.NewPropertySchema(t, nil, false, nil, nil, nil, nil, nil),
			"z": schema.NewPropertySchema(schema.NewIntSchema(nil, nil, nil), nil, false, nil, nil, nil, nil, nil),
		})
	}, func(v any) any { return map[string]any{"w": v} }},
}

func failTarget() *schema.ObjectSchema {
	return schema.NewObjectSchema("B", map[string]*schema.PropertySchema{
		"n": schema.NewPropertySchema(schema.NewIntSchema(nil, nil, nil), nil, true, nil, nil, nil, nil, nil),
		"s": schema.NewPropertySchema(schema.NewStringSchema(nil, nil, nil), nil, false, nil, nil, nil, nil, nil),
	})
}

func failRoot(inner schema.Type) *schema.ObjectSchema {
	return schema.NewObjectSchema("A", map[string]*schema.PropertySchema{
		"p": schema.NewPropertySchema(inner, nil, false, nil, nil, nil, nil, nil),
		"q": schema.NewPropertySchema(schema.NewIntSchema(nil, nil, nil), nil, false, nil, nil, nil, nil, nil),
	})
}

func panics(f func()) (p bool) {
	defer func() {
		if r := recover(); r != nil {
			p = true
		}
	}()
	f()
	return false
}

func outcomeOf(op string, s schema.Type, v any) string {
	r := hx.Guard(func() hx.Result { rr, _ := hx.RunOpRaw(op, s, v); return rr })
	if r.R == "ok" {
		return "ok " + hx.Canon(r.V)
	}
	return r.R
}

func groupFailing(s *sink) {
	report := func(what string, detail ...string) {
		s.finding(Finding{Prop: "C14", What: what, Detail: detail})
	}
	// state of one reference against what it must be
	check := func(where string, scope schema.Type, ref *schema.RefSchema, want *schema.ObjectSchema) {
		s.stats["failing:checks"]++
		linked := false
		if ref.ObjectReady() {
			o, ok := ref.GetObject().(*schema.ObjectSchema)
			switch {
			case !ok || o == nil:
				report(where + ": ObjectReady() is true but GetObject() is not an object (typed nil): the reference counts as linked without denoting anything")
			case o != want:
				report(where + ": the reference denotes another object than its lexical target")
			default:
				linked = true
			}
		}
		if want == nil && ref.ObjectReady() {
			if o, ok := ref.GetObject().(*schema.ObjectSchema); ok && o != nil {
				report(where + ": the reference is linked although the application that should have linked it failed")
			}
		}
		if want != nil && !linked {
			report(where + ": the reference lost (or never got) the link to its lexical target")
		}
		if valid := scope.ValidateReferences() == nil; valid != linked {
			report(fmt.Sprintf("%s: ValidateReferences succeeds = %v, but the reference is linked to its object = %v", where, valid, linked))
		}
	}
	behaves := func(where string, scope schema.Type, inlined schema.Type, fw failWrap) {
		inputs := []any{
			map[string]any{"p": fw.value(map[string]any{"n": 1})},
			map[string]any{"p": fw.value(map[string]any{"n": 2, "s": "x"})},
			map[string]any{"p": fw.value(map[string]any{"s": "x"})},
			map[string]any{"p": fw.value(map[string]any{"n": "no"})},
			map[string]any{"q": 3},
			map[string]any{},
		}
		for _, in := range inputs {
			s.stats["failing:inputs"]++
			a, b := outcomeOf("U", scope, in), outcomeOf("U", inlined, in)
			if a != b {
				report(where+": Unserialize differs from the inlined tree", fmt.Sprint(in), a, b)
				continue
			}
			if r := hx.Guard(func() hx.Result { rr, _ := hx.RunOpRaw("U", inlined, in); return rr }); r.R == "ok" {
				_, out := hx.RunOpRaw("U", inlined, in)
				if a, b := outcomeOf("V", scope, out), outcomeOf("V", inlined, out); a != b {
					report(where+": Validate differs from the inlined tree", fmt.Sprint(in), a, b)
				}
			}
		}
	}
	for _, fw := range failWraps {
		fw := fw
		inlined := schema.NewScopeSchema(failRoot(fw.wrap(failTarget())))

		// (b) + (c): a scope literal with a single dangling self reference
		{
			where := "scope literal, dangling self reference below " + fw.name
			ref := schema.NewRefSchema("B", nil)
			lit := &schema.ScopeSchema{ObjectsValue: map[string]*schema.ObjectSchema{"A": failRoot(fw.wrap(ref))}, RootValue: "A"}
			check(where+", before any application", lit, ref, nil)
			if !panics(func() { lit.ApplySelf() }) {
				report(where + ": ApplySelf did not panic although the referenced ID is missing")
			}
			check(where+", after the failed ApplySelf", lit, ref, nil)
			b := failTarget()
			lit.ObjectsValue["B"] = b
			if panics(func() { lit.ApplySelf() }) {
				report(where + ": the completing ApplySelf panicked")
			}
			check(where+", after the completing ApplySelf", lit, ref, b)
			behaves(where+", completed", lit, inlined, fw)
		}
		// (a): complete, then failing; and failing, then complete - another namespace
		for _, failFirst := range []bool{false, true} {
			where := fmt.Sprintf("namespaced reference below %s (failing application first = %v)", fw.name, failFirst)
			ref := schema.NewNamespacedRefSchema("B", "X", nil)
			sc := schema.NewScopeSchema(failRoot(fw.wrap(ref)))
			b := failTarget()
			full := map[string]*schema.ObjectSchema{"B": b, "C": failTarget()}
			lacking := map[string]*schema.ObjectSchema{"C": full["C"]}
			fail := func(state *schema.ObjectSchema, when string) {
				if !panics(func() { sc.ApplyNamespace(lacking, "X") }) {
					report(where + ": applying a table without the referenced ID did not panic")
				}
				check(where+", after the failed application "+when, sc, ref, state)
			}
			if failFirst {
				fail(nil, "(nothing applied before)")
			}
			if panics(func() { sc.ApplyNamespace(full, "X") }) {
				report(where + ": the complete application panicked")
			}
			check(where+", after the complete application", sc, ref, b)
			if !failFirst {
				fail(b, "(after the complete one)")
				fail(b, "(a second time)")
			}
			behaves(where, sc, inlined, fw)
		}
	}
}
