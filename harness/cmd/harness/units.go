package main

// Sub-command "units": property C16 (unit formatting and parsing are inverse; parsing never
// returns a wrong number) on schema/units.go.
//
// Case lines (cases.jsonl) for the Lean driver: UNITS_FMT, UNITS_PARSE, UNITS_PARSEF; the
// implementation's results go to go.jsonl, direct violations of C16 to findings.jsonl.
// Every call of the code under test runs on a FRESH schema.UnitsDefinition (it caches its sorted
// multipliers and its regular expression lazily); cases on a built-in set are additionally run on
// the package variable and the two results are compared.
//
// Streams (field "note" of a case): roundtrip, wellformed, nearmiss, floats, floats:huge, nonwf,
// longdigits. floats:huge is 1e15 < x < 2^63; floats x >= 2^63 are only counted (stats
// "floats:beyond_int64:*"). longdigits: counts of 1..400 digits (around the float64 range limit of
// 308/309 digits in particular, leading zeros too) with and without a fraction, through ParseInt,
// ParseFloat and through int and float schemas carrying the definition (op "U" cases of the schema
// model); a returned float must be finite: beyond the float64 range the answer is an error.
// All randomness derives from Args.Seed; no Go map is iterated to produce output.

import (
	"bufio"
	"encoding/json"
	"fmt"
	"math"
	"math/big"
	"math/rand"
	"os"
	"path/filepath"
	"sort"
	"strconv"
	"strings"
	"unicode"
	"unicode/utf8"

	"go.flow.arcalot.io/pluginsdk/schema"
	"harness/hx"
)

func init() {
	register("units", func(a Args) { unitsCmd(a) })
}

// ---------------------------------------------------------------------------------------------
// configuration

type unitsCfg struct {
	exhaustN     int64 // round trip of every integer in [0, exhaustN]
	exhaustGen   int   // generated WF definitions in the exhaustive part (the first two are fixed)
	specialDefs  int   // further generated WF definitions: special values only
	rtRandoms    int   // random 63-bit values per definition
	pool         int   // size of the pool of generated WF definitions used by (b), (c), (d)
	wellformed   int   // strings in stream (b)
	nearmiss     int   // strings in stream (c)
	floatDefs    int   // generated definitions in stream (d) (plus the five built-ins)
	floatRandoms int   // random floats per definition
	nonwfDefs    int   // definitions in stream (e)
	floatRich    bool  // more multiples of every multiplier in stream (d)
	longDefs     int   // generated definitions in stream (f) (plus the built-ins and the featured ones)
	longPerDef   int   // strings per definition in stream (f)
}

func unitsTier(tier string) unitsCfg {
	switch tier {
	case "quick", "":
		return unitsCfg{exhaustN: 300, exhaustGen: 3, specialDefs: 4, rtRandoms: 10, pool: 80,
			wellformed: 2600, nearmiss: 2600, floatDefs: 4, floatRandoms: 25, nonwfDefs: 40, longDefs: 4, longPerDef: 90}
	case "thorough":
		return unitsCfg{exhaustN: 200000, exhaustGen: 6, specialDefs: 150, rtRandoms: 40, pool: 800,
			wellformed: 120000, nearmiss: 110000, floatDefs: 70, floatRandoms: 260, nonwfDefs: 800, floatRich: true,
			longDefs: 60, longPerDef: 260}
	}
	fmt.Fprintln(os.Stderr, "units: unknown tier", tier)
	os.Exit(2)
	return unitsCfg{}
}

const (
	unitsPFMax      = 60  // PARSEF cases of generated strings: shorter than this many bytes
	unitsPFMaxFloat = 160 // PARSEF cases of formatter output (stream d)
	unitsFindingCap = 2000
	unitsPFRun      = 40 // longer digit runs get a reduced strconv table (see unitsPF)
)

var unitsStreamNames = []string{"roundtrip", "wellformed", "nearmiss", "floats", "nonwf", "longdigits"}

// ---------------------------------------------------------------------------------------------
// built-in sets

type unitsBuiltin struct {
	name string
	u    *hx.Units
	pv   *schema.UnitsDefinition
}

func unitsBuiltins() []unitsBuiltin {
	return []unitsBuiltin{
		{"bytes", hx.BuiltinUnits["bytes"], schema.UnitBytes},
		{"nanoseconds", hx.BuiltinUnits["nanoseconds"], schema.UnitDurationNanoseconds},
		{"seconds", hx.BuiltinUnits["seconds"], schema.UnitDurationSeconds},
		{"characters", hx.BuiltinUnits["characters"], schema.UnitCharacters},
		{"percentage", hx.BuiltinUnits["percentage"], schema.UnitPercentage},
	}
}

// ---------------------------------------------------------------------------------------------
// well-formedness (mirrors the Lean predicate WFu)

func wfUnitName(n string) bool {
	if n == "" || !utf8.ValidString(n) {
		return false
	}
	for _, r := range n {
		if (r >= '0' && r <= '9') || unicode.IsSpace(r) {
			return false
		}
	}
	return true
}

// wfUnits: every multiplier >= 2 and pairwise distinct; every name non-empty, valid UTF-8, without
// ASCII digit and without white space; no multiplier unit is named "."; names of different units
// are distinct.
func wfUnits(u *hx.Units) bool {
	if u == nil {
		return false
	}
	seenM := map[int64]bool{}
	for _, m := range u.Mults {
		if m.M < 1 || seenM[m.M] { // a multiplier of 1 is a second name for the base unit
			return false
		}
		seenM[m.M] = true
	}
	owner := map[string]int{}
	check := func(idx int, names [4]string) bool {
		for _, n := range names {
			if !wfUnitName(n) {
				return false
			}
			if idx > 0 && n == "." {
				return false
			}
			if o, ok := owner[n]; ok && o != idx {
				return false
			}
			owner[n] = idx
		}
		return true
	}
	if !check(0, u.Base) {
		return false
	}
	for i, m := range u.Mults {
		if !check(i+1, m.Names) {
			return false
		}
	}
	return true
}

// representable: what the Go type can hold and compile (non-WF definitions stay inside this).
func unitsRepresentable(u *hx.Units) bool {
	seenM := map[int64]bool{}
	for _, m := range u.Mults {
		if m.M < 2 || seenM[m.M] {
			return false
		}
		seenM[m.M] = true
	}
	ok := func(names [4]string) bool {
		for _, n := range names {
			if !utf8.ValidString(n) {
				return false
			}
			for _, r := range n {
				if unicode.IsSpace(r) {
					return false
				}
			}
		}
		return true
	}
	if !ok(u.Base) {
		return false
	}
	for _, m := range u.Mults {
		if !ok(m.Names) {
			return false
		}
	}
	return true
}

// ---------------------------------------------------------------------------------------------
// sink

type unitsFinding struct {
	Prop   string    `json:"prop"`
	What   string    `json:"what"`
	Cases  []int     `json:"cases"`
	Units  *hx.Units `json:"units"`
	Input  string    `json:"input"`
	Detail []string  `json:"detail"`
}

// unitsRes is one observation of the implementation.
type unitsRes struct {
	R   string // ok err panic
	S   string // UNITS_FMT
	I   int64  // UNITS_PARSE
	F   float64
	Msg string
}

func (r unitsRes) key(op string) string {
	if r.R != "ok" {
		return r.R
	}
	switch op {
	case "UNITS_FMT":
		return "ok:" + r.S
	case "UNITS_PARSE":
		return "ok:" + strconv.FormatInt(r.I, 10)
	}
	return "ok:" + unitsBits(r.F)
}

func (r unitsRes) show(op string) string {
	if r.R != "ok" {
		return r.R + ": " + r.Msg
	}
	switch op {
	case "UNITS_FMT":
		return strconv.Quote(r.S)
	case "UNITS_PARSE":
		return strconv.FormatInt(r.I, 10)
	}
	return strconv.FormatFloat(r.F, 'g', -1, 64) + " (bits " + unitsBits(r.F) + ")"
}

func unitsBits(f float64) string {
	if f != f {
		return fmt.Sprintf("%016x", uint64(hx.NaNBits))
	}
	return fmt.Sprintf("%016x", math.Float64bits(f))
}

type unitsSink struct {
	cases, results, findings *bufio.Writer
	files                    []*os.File
	nextID                   int
	stats                    map[string]int
	ujson                    map[*hx.Units][]byte
	pkg                      map[*hx.Units]*schema.UnitsDefinition
	variants                 map[*hx.Units]map[string]*schema.UnitsDefinition
	perWhat                  map[string]int
	buf                      []byte
}

func newUnitsSink(dir string) *unitsSink {
	s := &unitsSink{stats: map[string]int{}, ujson: map[*hx.Units][]byte{},
		pkg: map[*hx.Units]*schema.UnitsDefinition{}, perWhat: map[string]int{}}
	open := func(name string) *bufio.Writer {
		f, err := os.Create(filepath.Join(dir, name))
		if err != nil {
			panic(err)
		}
		s.files = append(s.files, f)
		return bufio.NewWriterSize(f, 1<<20)
	}
	s.cases = open("cases.jsonl")
	s.results = open("go.jsonl")
	s.findings = open("findings.jsonl")
	for _, b := range unitsBuiltins() {
		s.pkg[b.u] = b.pv
	}
	return s
}

func (s *unitsSink) close() {
	for _, w := range []*bufio.Writer{s.cases, s.results, s.findings} {
		if err := w.Flush(); err != nil {
			panic(err)
		}
	}
	for _, f := range s.files {
		if err := f.Close(); err != nil {
			panic(err)
		}
	}
}

func unitsQ(x string) []byte {
	if !utf8.ValidString(x) {
		panic("units: generated string is not valid UTF-8: " + strconv.Quote(x))
	}
	b, err := json.Marshal(x)
	if err != nil {
		panic(err)
	}
	return b
}

func (s *unitsSink) unitsJSON(u *hx.Units) []byte {
	if b, ok := s.ujson[u]; ok {
		return b
	}
	b, err := json.Marshal(u)
	if err != nil {
		panic(err)
	}
	s.ujson[u] = b
	return b
}

func (s *unitsSink) finding(what string, ids []int, u *hx.Units, input string, detail ...string) {
	s.stats["finding:"+what]++
	s.perWhat[what]++
	if s.perWhat[what] > unitsFindingCap {
		s.stats["finding_not_written(cap):"+what]++
		return
	}
	if !utf8.ValidString(input) {
		input = strconv.QuoteToASCII(input)
	}
	b, err := json.Marshal(unitsFinding{Prop: "C16", What: what, Cases: ids, Units: u, Input: input, Detail: detail})
	if err != nil {
		panic(err)
	}
	s.findings.Write(b)
	s.findings.WriteByte('\n')
}

// writeCase writes {"id":N,"op":OP,"units":U,<extra>,"note":NOTE,"schema":null,"v":null}.
func (s *unitsSink) writeCase(op string, u *hx.Units, extra []byte, note string) int {
	s.nextID++
	b := s.buf[:0]
	b = append(b, `{"id":`...)
	b = strconv.AppendInt(b, int64(s.nextID), 10)
	b = append(b, `,"op":"`...)
	b = append(b, op...)
	b = append(b, `","units":`...)
	b = append(b, s.unitsJSON(u)...)
	b = append(b, ',')
	b = append(b, extra...)
	b = append(b, `,"note":`...)
	b = append(b, unitsQ(note)...)
	b = append(b, `,"schema":null,"v":null}`...)
	b = append(b, '\n')
	s.cases.Write(b)
	s.buf = b
	return s.nextID
}

func unitsTrunc(msg string) string {
	msg = strings.ToValidUTF8(msg, "?")
	n := 0
	for i := range msg {
		if n == 120 {
			return msg[:i] + "..."
		}
		n++
	}
	return msg
}

func (s *unitsSink) writeResult(op, note string, r unitsRes) {
	var b []byte
	switch r.R {
	case "ok":
		switch op {
		case "UNITS_FMT":
			b = append(append([]byte(`{"r":"ok","v":{"s":`), unitsQ(r.S)...), `}}`...)
		case "UNITS_PARSE":
			b = []byte(`{"r":"ok","v":{"int":"` + strconv.FormatInt(r.I, 10) + `"}}`)
		case "UNITS_PARSEF":
			b = []byte(`{"r":"ok","v":{"bits":"` + unitsBits(r.F) + `"}}`)
		}
	default:
		b = append(append([]byte(`{"r":"`+r.R+`","msg":`), unitsQ(unitsTrunc(r.Msg))...), '}')
	}
	s.results.Write(b)
	s.results.WriteByte('\n')
	stream := note
	if i := strings.IndexByte(stream, ':'); i >= 0 && !strings.HasPrefix(stream, "floats:huge") {
		stream = stream[:i]
	} else if strings.HasPrefix(stream, "floats:huge") {
		stream = "floats:huge"
	}
	s.stats["cases"]++
	s.stats["stream:"+stream]++
	s.stats["op:"+op]++
	s.stats["res:"+op+":"+r.R]++
	s.stats["stream-op:"+stream+":"+op]++
	if r.R == "panic" {
		s.stats["panic"]++
	}
}

// unitsGuard runs f (one call of the code under test) under recover.
func unitsGuard(f func() unitsRes) (res unitsRes) {
	defer func() {
		if r := recover(); r != nil {
			res = unitsRes{R: "panic", Msg: fmt.Sprint(r)}
		}
	}()
	return f()
}

// pkgCheck runs the same call on the package variable of a built-in set.
// unitsVariants: the same definition obtained without NewUnits - a struct literal, a round trip
// through encoding/json, and the units of an integer property of a scope rebuilt from its own
// description (what an engine holds after reading a plugin's schema). All of them must parse and
// format exactly like the constructor-built definition.
func unitsVariants(u *hx.Units) map[string]*schema.UnitsDefinition {
	out := map[string]*schema.UnitsDefinition{}
	built := u.Build()
	out["struct literal"] = &schema.UnitsDefinition{BaseUnitValue: built.BaseUnitValue, MultipliersValue: built.MultipliersValue}
	if b, err := json.Marshal(built); err == nil {
		var d schema.UnitsDefinition
		if json.Unmarshal(b, &d) == nil && d.BaseUnitValue != nil {
			out["encoding/json"] = &d
		}
	}
	func() {
		defer func() { _ = recover() }()
		sc := schema.NewScopeSchema(schema.NewObjectSchema("U", map[string]*schema.PropertySchema{
			"n": schema.NewPropertySchema(schema.NewIntSchema(nil, nil, u.Build()), nil, false, nil, nil, nil, nil, nil)}))
		desc, err := sc.SelfSerialize()
		if err != nil {
			return
		}
		re, err := schema.UnserializeScope(desc)
		if err != nil {
			return
		}
		if it, ok := re.Objects()["U"].Properties()["n"].Type().(*schema.IntSchema); ok && it.UnitsValue != nil {
			out["rebuilt from the description"] = it.UnitsValue
		}
	}()
	return out
}

func (s *unitsSink) pkgCheck(op string, u *hx.Units, id int, input string, fresh unitsRes, call func(d *schema.UnitsDefinition) unitsRes) {
	if s.variants == nil {
		s.variants = map[*hx.Units]map[string]*schema.UnitsDefinition{}
	}
	vs, seen := s.variants[u]
	if !seen {
		vs = unitsVariants(u)
		if len(s.variants) > 4000 {
			s.variants = map[*hx.Units]map[string]*schema.UnitsDefinition{}
		}
		s.variants[u] = vs
	}
	for how, d := range vs {
		s.stats["variant_checked"]++
		other := unitsGuard(func() unitsRes { return call(d) })
		if other.key(op) != fresh.key(op) {
			var ids []int
			if id > 0 {
				ids = []int{id}
			}
			s.finding("a definition not built by NewUnits ("+how+") differs from the constructor-built one", ids, u, input,
				"op "+op, "NewUnits "+fresh.show(op), how+" "+other.show(op))
		}
	}
	pv, ok := s.pkg[u]
	if !ok {
		return
	}
	s.stats["pkgvar_checked"]++
	other := unitsGuard(func() unitsRes { return call(pv) })
	if other.key(op) != fresh.key(op) {
		var ids []int
		if id > 0 {
			ids = []int{id}
		}
		s.finding("package variable differs from fresh definition", ids, u, input,
			"op "+op, "fresh "+fresh.show(op), "package variable "+other.show(op))
	}
}

func (s *unitsSink) fmtCase(u *hx.Units, n int64, long bool, note string) (unitsRes, int) {
	extra := []byte(`"n":"` + strconv.FormatInt(n, 10) + `","long":` + strconv.FormatBool(long))
	id := s.writeCase("UNITS_FMT", u, extra, note)
	call := func(d *schema.UnitsDefinition) unitsRes {
		if long {
			return unitsRes{R: "ok", S: d.FormatLongInt(n)}
		}
		return unitsRes{R: "ok", S: d.FormatShortInt(n)}
	}
	res := unitsGuard(func() unitsRes { return call(u.Build()) })
	s.writeResult("UNITS_FMT", note, res)
	s.pkgCheck("UNITS_FMT", u, id, strconv.FormatInt(n, 10), res, call)
	return res, id
}

func unitsParseIntCall(str string) func(d *schema.UnitsDefinition) unitsRes {
	return func(d *schema.UnitsDefinition) unitsRes {
		i, err := d.ParseInt(str)
		if err != nil {
			return unitsRes{R: "err", Msg: err.Error()}
		}
		return unitsRes{R: "ok", I: i}
	}
}

func unitsParseFloatCall(str string) func(d *schema.UnitsDefinition) unitsRes {
	return func(d *schema.UnitsDefinition) unitsRes {
		f, err := d.ParseFloat(str)
		if err != nil {
			return unitsRes{R: "err", Msg: err.Error()}
		}
		return unitsRes{R: "ok", F: f}
	}
}

func (s *unitsSink) parseCase(u *hx.Units, str string, note string) (unitsRes, int) {
	extra := append([]byte(`"s":`), unitsQ(str)...)
	id := s.writeCase("UNITS_PARSE", u, extra, note)
	call := unitsParseIntCall(str)
	res := unitsGuard(func() unitsRes { return call(u.Build()) })
	s.writeResult("UNITS_PARSE", note, res)
	s.pkgCheck("UNITS_PARSE", u, id, str, res, call)
	return res, id
}

func isDig(b byte) bool { return b >= '0' && b <= '9' }

// unitsPF is the table of strconv.ParseFloat for str and all its substrings digits '.' digits.
func unitsPF(str string) []byte {
	seen := map[string]bool{}
	b := []byte(`{"pf":[`)
	add := func(x string) {
		if seen[x] {
			return
		}
		if len(seen) > 0 {
			b = append(b, ',')
		}
		seen[x] = true
		b = append(b, '[')
		b = append(b, unitsQ(x)...)
		b = append(b, ',')
		f, err := strconv.ParseFloat(x, 64)
		if err != nil {
			b = append(b, `null`...)
		} else {
			b = append(b, '"')
			b = append(b, unitsBits(f)...)
			b = append(b, '"')
		}
		b = append(b, ']')
	}
	add(str)
	for i := 0; i < len(str); i++ {
		if !isDig(str[i]) {
			continue
		}
		k := i
		for k < len(str) && isDig(str[k]) {
			k++
		}
		r0 := i
		for r0 > 0 && isDig(str[r0-1]) {
			r0--
		}
		if k-r0 > unitsPFRun && i > r0 {
			// inside a long digit run: a capture starting here would need a unit name that ends in
			// digits; the table of such strings is kept to the captures that start at the run
			continue
		}
		if k+1 < len(str) && str[k] == '.' && isDig(str[k+1]) {
			for j := k + 2; j <= len(str) && isDig(str[j-1]); j++ {
				lim := unitsPFRun
				if k-r0 > unitsPFRun {
					lim = 2
				}
				if j-(k+1) > lim && j < len(str) && isDig(str[j]) {
					continue // long number: only the full fraction (and its first digits)
				}
				add(str[i:j])
			}
		}
	}
	b = append(b, `]}`...)
	return b
}

func (s *unitsSink) parseFCase(u *hx.Units, str string, note string) (unitsRes, int) {
	extra := append([]byte(`"s":`), unitsQ(str)...)
	extra = append(extra, `,"ext":`...)
	extra = append(extra, unitsPF(str)...)
	id := s.writeCase("UNITS_PARSEF", u, extra, note)
	call := unitsParseFloatCall(str)
	res := unitsGuard(func() unitsRes { return call(u.Build()) })
	s.writeResult("UNITS_PARSEF", note, res)
	s.pkgCheck("UNITS_PARSEF", u, id, str, res, call)
	return res, id
}

// ---------------------------------------------------------------------------------------------
// independent reference recogniser of the unit grammar (no package regexp, nothing taken from
// units.go):   ws* (count ws* name_k ws*)? ... (units by descending multiplier) (count ws* basename? ws*)?
// with ws = [ \t\n\f\r], count = [0-9]+, at least one unit present, on strings.TrimSpace(s).
// With allowFrac the base count may also be digits '.' digits (the float grammar).
// All alternatives are explored; the result is the set of distinct outcomes.
// White space is skipped greedily: no name and no count starts with white space (unitsRepresentable).

type uUnit struct {
	m     int64
	names [4]string
	base  bool
}

// unitsOrder lists the units by descending multiplier, the base unit (multiplier 1) last.
func unitsOrder(u *hx.Units) []uUnit {
	us := make([]uUnit, 0, len(u.Mults)+1)
	for _, m := range u.Mults {
		us = append(us, uUnit{m.M, m.Names, false})
	}
	sort.SliceStable(us, func(i, j int) bool { return us[i].m > us[j].m })
	return append(us, uUnit{1, u.Base, true})
}

type refAlt struct {
	sum  *big.Int // sum of count x multiplier over the integer counts
	frac string   // the base count when it is of the form digits '.' digits, else ""
}

type refParser struct {
	s         string
	us        []uUnit
	allowFrac bool
	alts      []refAlt
	seen      map[string]bool
}

func isGrammarWS(b byte) bool { return b == ' ' || b == '\t' || b == '\n' || b == '\f' || b == '\r' }

func (p *refParser) skip(i int) int {
	for i < len(p.s) && isGrammarWS(p.s[i]) {
		i++
	}
	return i
}

func (p *refParser) record(sum *big.Int, frac string) {
	k := sum.String() + "|" + frac
	if p.seen[k] {
		return
	}
	p.seen[k] = true
	p.alts = append(p.alts, refAlt{new(big.Int).Set(sum), frac})
}

func (p *refParser) rec(pos, k int, acc *big.Int, frac string) {
	if k == len(p.us) {
		if pos == len(p.s) {
			p.record(acc, frac)
		}
		return
	}
	// unit k absent
	p.rec(pos, k+1, acc, frac)
	// unit k present
	d := 0
	for pos+d < len(p.s) && isDig(p.s[pos+d]) {
		d++
	}
	un := p.us[k]
	for l := 1; l <= d; l++ {
		// (the big-number value of a count is only computed where something can follow it: very
		// long digit runs would otherwise cost a quadratic number of conversions)
		if q := p.skip(pos + l); un.base || p.nameAt(q, un) {
			cnt, ok := new(big.Int).SetString(p.s[pos:pos+l], 10)
			if !ok {
				panic("units: refParse count")
			}
			acc2 := new(big.Int).Add(acc, cnt.Mul(cnt, big.NewInt(un.m)))
			p.afterCount(pos+l, k, acc2, "")
		}
		if un.base && p.allowFrac && pos+l < len(p.s) && p.s[pos+l] == '.' {
			f := 0
			for pos+l+1+f < len(p.s) && isDig(p.s[pos+l+1+f]) {
				f++
			}
			for ff := 1; ff <= f; ff++ {
				p.afterCount(pos+l+1+ff, k, acc, p.s[pos:pos+l+1+ff])
			}
		}
	}
}

func (p *refParser) nameAt(q int, un uUnit) bool {
	for _, n := range un.names {
		if strings.HasPrefix(p.s[q:], n) {
			return true
		}
	}
	return false
}

func (p *refParser) afterCount(q, k int, acc *big.Int, frac string) {
	q = p.skip(q)
	un := p.us[k]
	for i, n := range un.names {
		dup := false
		for j := 0; j < i; j++ {
			if un.names[j] == n {
				dup = true
			}
		}
		if !dup && strings.HasPrefix(p.s[q:], n) {
			p.rec(p.skip(q+len(n)), k+1, acc, frac)
		}
	}
	if un.base {
		p.rec(q, k+1, acc, frac) // the base unit may go without a name
	}
}

func refParseAlts(u *hx.Units, s string, allowFrac bool) []refAlt {
	t := strings.TrimSpace(s)
	if t == "" {
		return nil
	}
	p := &refParser{s: t, us: unitsOrder(u), allowFrac: allowFrac, seen: map[string]bool{}}
	p.rec(p.skip(0), 0, new(big.Int), "")
	return p.alts
}

// refParseAll returns all distinct sums of the parses of s in the INTEGER grammar.
func refParseAll(u *hx.Units, s string) []*big.Int {
	var out []*big.Int
	for _, a := range refParseAlts(u, s, false) {
		out = append(out, a.sum)
	}
	return out
}

// refParse decides membership in the integer grammar and returns the (first) sum.
func refParse(u *hx.Units, s string) (*big.Int, bool) {
	all := refParseAll(u, s)
	if len(all) == 0 {
		return nil, false
	}
	return all[0], true
}

var unitsMaxI64 = big.NewInt(math.MaxInt64)

// checkParseInt is the semantic oracle of ParseInt on an arbitrary string (WF definitions only).
func (s *unitsSink) checkParseInt(u *hx.Units, str string, res unitsRes, id int, sums []*big.Int) {
	if res.R == "panic" {
		s.finding("ParseInt panicked", []int{id}, u, str, "got "+res.show("UNITS_PARSE"), "want a number or an error")
		return
	}
	switch {
	case len(sums) > 1:
		s.finding("ambiguous grammar", []int{id}, u, str, fmt.Sprintf("reference sums %v", sums), "got "+res.show("UNITS_PARSE"))
	case len(sums) == 0:
		s.stats["oracle:int:outside"]++
		if res.R == "ok" {
			s.finding("string outside the grammar accepted", []int{id}, u, str, "got "+res.show("UNITS_PARSE"), "want an error")
		}
	case sums[0].Cmp(unitsMaxI64) <= 0:
		s.stats["oracle:int:inside-fits"]++
		if res.R != "ok" {
			s.finding("well-formed string rejected", []int{id}, u, str, "got "+res.show("UNITS_PARSE"), "want "+sums[0].String())
		} else if res.I != sums[0].Int64() {
			s.finding("well-formed string parsed to another number", []int{id}, u, str, "got "+res.show("UNITS_PARSE"), "want "+sums[0].String())
		}
	default:
		s.stats["oracle:int:inside-overflow"]++
		if res.R == "ok" {
			s.finding("overflowing string accepted", []int{id}, u, str, "got "+res.show("UNITS_PARSE"), "want an error: the value is "+sums[0].String())
		}
	}
}

// unitsShort abbreviates a long digit string for a finding text.
func unitsShort(x string) string {
	if len(x) <= 48 {
		return x
	}
	digits := 0
	for i := 0; i < len(x); i++ {
		if isDig(x[i]) {
			digits++
		}
	}
	return fmt.Sprintf("%s...%s (%d bytes, %d digits)", x[:20], x[len(x)-16:], len(x), digits)
}

// checkFinite: a float handed back WITHOUT an error is a number. +Inf, -Inf or NaN as the result of
// parsing a string of digits is "a wrong number" (C16): beyond the float64 range the answer is an
// error. Holds for every definition; returns true if it reported.
func (s *unitsSink) checkFinite(who string, u *hx.Units, str string, res unitsRes, id int) bool {
	if res.R != "ok" || !(math.IsInf(res.F, 0) || math.IsNaN(res.F)) {
		return false
	}
	which := "NaN"
	switch {
	case math.IsInf(res.F, 1):
		which = "+Inf"
	case math.IsInf(res.F, -1):
		which = "-Inf"
	}
	var ids []int
	if id > 0 {
		ids = []int{id}
	}
	s.finding(who+" returned "+which+" without an error", ids, u, str, "got "+res.show("UNITS_PARSEF"),
		"want a finite float64, or an error when the value is beyond the float64 range", "input "+unitsShort(str))
	return true
}

// checkParseFloat is the oracle of ParseFloat on an arbitrary string (WF definitions only).
func (s *unitsSink) checkParseFloat(u *hx.Units, str string, res unitsRes, id int, sums []*big.Int) {
	const op = "UNITS_PARSEF"
	if res.R == "panic" {
		s.finding("ParseFloat panicked", []int{id}, u, str, "got "+res.show(op), "want a number or an error")
		return
	}
	if s.checkFinite("ParseFloat", u, str, res, id) {
		return
	}
	switch {
	case len(sums) > 1:
		return // reported by checkParseInt
	case len(sums) == 1 && sums[0].Cmp(unitsMaxI64) <= 0:
		s.stats["oracle:float:int-fits"]++
		want := float64(sums[0].Int64())
		if res.R != "ok" {
			s.finding("well-formed string rejected (ParseFloat)", []int{id}, u, str, "got "+res.show(op), "want "+unitsBits(want))
		} else if math.Float64bits(res.F) != math.Float64bits(want) {
			s.finding("well-formed string parsed to another number (ParseFloat)", []int{id}, u, str, "got "+res.show(op), "want "+unitsBits(want))
		}
	case len(sums) == 1:
		s.stats["oracle:float:int-overflow"]++
		if res.R == "ok" {
			s.finding("overflowing string accepted (ParseFloat)", []int{id}, u, str, "got "+res.show(op), "want an error: the value is "+sums[0].String())
		}
	case !strings.Contains(str, "."):
		s.stats["oracle:float:outside"]++
		if res.R == "ok" {
			s.finding("string outside the grammar accepted (ParseFloat)", []int{id}, u, str, "got "+res.show(op), "want an error")
		}
	default:
		// not in the integer grammar, contains '.': decide membership in the float grammar
		alts := refParseAlts(u, str, true)
		switch {
		case len(alts) == 0:
			s.stats["oracle:float:outside-with-dot"]++
			if res.R == "ok" {
				s.finding("string outside the float grammar accepted (ParseFloat)", []int{id}, u, str, "got "+res.show(op), "want an error")
			}
		case len(alts) > 1:
			s.stats["oracle:float:ambiguous-skipped"]++
		case alts[0].sum.Cmp(unitsMaxI64) > 0:
			s.stats["oracle:float:frac-overflow"]++
			if res.R == "ok" {
				s.finding("overflowing string accepted (ParseFloat)", []int{id}, u, str, "got "+res.show(op), "want an error: integer part "+alts[0].sum.String())
			}
		default:
			s.stats["oracle:float:frac"]++
			// exact big-number oracle of the fractional count (independent of strconv): the nearest
			// float64, or "beyond the range" when the exact value rounds to an infinity
			r, okr := new(big.Rat).SetString(alts[0].frac)
			if !okr {
				panic("units: oracle cannot read " + alts[0].frac)
			}
			f, _ := r.Float64()
			if math.IsInf(f, 0) {
				s.stats["oracle:float:frac-beyond-float64"]++
				if res.R == "ok" {
					s.finding("a count beyond the float64 range is accepted (ParseFloat)", []int{id}, u, str,
						"got "+res.show(op), "want an error: the exact value of the count "+unitsShort(alts[0].frac)+" rounds to no finite float64")
				}
				return
			}
			want := float64(alts[0].sum.Int64()) + f
			if res.R != "ok" {
				s.finding("float-grammar string rejected (ParseFloat)", []int{id}, u, str, "got "+res.show(op), fmt.Sprintf("want about %v", want))
			} else if math.Abs(res.F-want) > 1e-12*math.Max(1, math.Abs(want)) {
				s.finding("float-grammar string parsed to another number (ParseFloat)", []int{id}, u, str, "got "+res.show(op), fmt.Sprintf("want about %v", want))
			}
		}
	}
}

// ---------------------------------------------------------------------------------------------
// generator of definitions

type unitsGen struct {
	r  *rand.Rand
	st map[string]int
}

func (g *unitsGen) p(prob float64) bool     { return g.r.Float64() < prob }
func (g *unitsGen) pick(xs []string) string { return xs[g.r.Intn(len(xs))] }

var unitsPrefixFamilies = [][]string{
	{"m", "ms", "msx"},
	{"a", "ab", "abc"},
	{"s", "se", "sec", "second", "seconds"},
	{"k", "kB", "kBs"},
	{".", "..", "..."},
	{"-", "-q", "-qq"},
}

var unitsNameMeta = []string{".x", "x.", "(z", "k*", "w+", "[u", "t|", "a|b", "^", "$", "\\", "?", "{}", "..",
	")", "]", "*", "|", "(?:", "\\s", "[a-z]", "\\Q", "\\E", "(?i)x", "x{,}"}
var unitsNameMulti = []string{"μs", "é", "日", "µ", "日本", "ß", "Ω", "μ", "éé", "ſ", "K"}
var unitsNameLead = []string{".x", ".", "-", "+", "-q", "+p", "-.", "+.", ".y", "--", "++", "..."}
var unitsNameOne = []string{"x", "y", "z", "B", "b", "%", "d", "H", "h", "q", "_", "e", "E", "m", "s", "a", "k", "K", "M", "n"}
var unitsNameWords = []string{"second", "seconds", "minute", "minutes", "hour", "hours", "byte", "bytes", "kilobyte",
	"kB", "KB", "kb", "Kb", "ms", "ns", "us", "inf", "Inf", "NaN", "nan", "e+", "E-", "x", "unit", "units", "ab", "abc", "ba"}

func (g *unitsGen) anyName() string {
	switch g.r.Intn(10) {
	case 0, 1:
		return g.pick(unitsNameMeta)
	case 2:
		return g.pick(unitsNameMulti)
	case 3:
		return g.pick(unitsNameLead)
	case 4, 5:
		return g.pick(unitsNameOne)
	case 6:
		f := unitsPrefixFamilies[g.r.Intn(len(unitsPrefixFamilies))]
		return g.pick(f)
	default:
		return g.pick(unitsNameWords)
	}
}

// unitNames draws the four names of one unit.
func (g *unitsGen) unitNames() [4]string {
	switch g.r.Intn(6) {
	case 0: // root family, as hx.GenUnits
		r := g.anyName()
		return [4]string{r, r + "s", r + "long", r + "longs"}
	case 1: // four independent names (may coincide within the unit)
		return [4]string{g.anyName(), g.anyName(), g.anyName(), g.anyName()}
	case 2: // all equal
		r := g.anyName()
		return [4]string{r, r, r, r}
	case 3: // as the built-ins: "B","B","byte","bytes"
		r, w := g.anyName(), g.anyName()
		return [4]string{r, r, w, w + "s"}
	case 4: // names that are prefixes of each other inside the unit
		r := g.anyName()
		return [4]string{r, r + "x", r + "xy", r + "xyz"}
	default: // short pair and a long pair sharing the short name as prefix
		r := g.anyName()
		return [4]string{r, r, r + "-long", r + "-longs"}
	}
}

var unitsPrimes = []int64{2, 3, 5, 7, 11, 13, 97, 101, 257, 65537, 1000003, 2147483647, 4294967311, 2305843009213693951}
var unitsHugeMults = []int64{4611686018427387904, 9223372036854775807, 9223372036854775806, 4611686018427387905,
	4611686018427387903, 3037000500, 3037000499, 4294967296, 2147483648, 9007199254740992, 9007199254740993, 1000000000000000000}

func (g *unitsGen) randBits(maxBits int) int64 {
	bl := 1 + g.r.Intn(maxBits)
	v := g.r.Uint64() >> (64 - uint(bl))
	v |= 1 << uint(bl-1)
	return int64(v)
}

// multipliers draws n distinct multipliers >= 2. small: products of small factors / close values.
func (g *unitsGen) multipliers(n int, small bool) []int64 {
	var ms []int64
	has := func(m int64) bool {
		for _, x := range ms {
			if x == m {
				return true
			}
		}
		return false
	}
	chain := int64(1)
	for len(ms) < n {
		var m int64
		kind := g.r.Intn(20)
		if small {
			kind = g.r.Intn(6) // chain or close
		}
		switch {
		case kind < 5: // running product of small factors
			f := int64(2 + g.r.Intn(60))
			if small {
				f = int64(2 + g.r.Intn(11))
			}
			if chain > math.MaxInt64/f {
				chain = 1
			}
			chain *= f
			m = chain
		case kind < 8: // close to one already chosen
			if len(ms) == 0 {
				m = int64(2 + g.r.Intn(12))
			} else {
				m = ms[g.r.Intn(len(ms))]
				if g.p(0.5) && m < math.MaxInt64 {
					m++
				} else {
					m--
				}
			}
		case kind < 11:
			m = unitsPrimes[g.r.Intn(len(unitsPrimes))]
		case kind < 14:
			m = int64(1) << uint(1+g.r.Intn(62))
		case kind < 16:
			m = unitsHugeMults[g.r.Intn(len(unitsHugeMults))]
		default:
			m = g.randBits(63)
		}
		if g.r.Intn(25) == 0 {
			m = 1 // a second name for the base unit
		}
		if m >= 1 && !has(m) {
			ms = append(ms, m)
		}
	}
	return ms
}

// genWF returns a generated well-formed definition.
func (g *unitsGen) genWF(small bool) *hx.Units {
	nm := g.r.Intn(6)
	if small && nm == 0 {
		nm = 1 + g.r.Intn(4)
	}
	ms := g.multipliers(nm, small)
	used := map[string]bool{}
	// optionally the members of one prefix family go to different units: slot[unit] = member index
	var family []string
	slot := make([]int, nm+1)
	for i := range slot {
		slot[i] = -1
	}
	if g.p(0.4) {
		family = unitsPrefixFamilies[g.r.Intn(len(unitsPrefixFamilies))]
		for i, unitIdx := range g.r.Perm(nm + 1) {
			if i < len(family) {
				slot[unitIdx] = i
			}
		}
		if family[0] == "." {
			// "." may only name the base unit
			for j := range slot {
				if slot[j] == 0 {
					slot[0], slot[j] = slot[j], slot[0]
					break
				}
			}
		}
	}
	draw := func(idx int) [4]string {
		for try := 0; ; try++ {
			if try > 500 {
				panic("units: cannot draw distinct names")
			}
			names := g.unitNames()
			if slot[idx] >= 0 && try < 20 {
				names[0] = family[slot[idx]]
				if g.p(0.5) {
					names[1] = names[0]
				}
			}
			ok := true
			for _, n := range names {
				if !wfUnitName(n) || used[n] || (idx > 0 && n == ".") {
					ok = false
				}
			}
			if ok {
				for _, n := range names {
					used[n] = true
				}
				return names
			}
			g.st["wf:name-retry"]++
		}
	}
	u := &hx.Units{Base: draw(0)}
	for i := 0; i < nm; i++ {
		u.Mults = append(u.Mults, hx.UnitMult{M: ms[i], Names: draw(i + 1)})
	}
	// the Go side keeps them in a map; list order here is arbitrary on purpose
	g.r.Shuffle(len(u.Mults), func(i, j int) { u.Mults[i], u.Mults[j] = u.Mults[j], u.Mults[i] })
	if nm == 0 && g.p(0.5) {
		u.Mults = []hx.UnitMult{} // "mults":[] as well as null
	}
	if !wfUnits(u) {
		b, _ := json.Marshal(u)
		panic("units: generator produced a non-WF definition: " + string(b))
	}
	g.classify("wf", u)
	return u
}

// two fixed definitions that carry the required name material whatever the seed
func unitsFeatured() []*hx.Units {
	return []*hx.Units{
		{Base: [4]string{"m", "m", "meter", "meters"}, Mults: []hx.UnitMult{
			{M: 8, Names: [4]string{"msx", "msx", "msxl", "msxls"}},
			{M: 7, Names: [4]string{"ms", "ms", "msec", "msecs"}},
			{M: 56, Names: [4]string{"a", "ab", "abc", "abcd"}},
		}},
		{Base: [4]string{"b", "b", "byte", "bytes"}, Mults: []hx.UnitMult{
			{M: 1, Names: [4]string{"o", "o", "octet", "octets"}},
			{M: 1000, Names: [4]string{"k", "k", "kilo", "kilos"}},
		}},
		{Base: [4]string{"x", "xs", "ex", "exes"}, Mults: []hx.UnitMult{
			{M: 1, Names: [4]string{"u", "us", "unit", "units"}},
		}},
		{Base: [4]string{".", ".", "dot", "dots"}, Mults: []hx.UnitMult{
			{M: 10, Names: [4]string{".x", "x.", "(z", "k*"}},
			{M: 3600, Names: [4]string{"$", "\\", "?", "{}"}},
			{M: 100, Names: [4]string{"μs", "é", "日", "w+"}},
			{M: 1000, Names: [4]string{"[u", "t|", "a|b", "^"}},
			{M: 86400, Names: [4]string{"..", "-", "+", "-+"}},
		}},
	}
}

const unitsMetaChars = `\.+*?()|[]{}^$`

// classify counts the name classes of a definition.
func (g *unitsGen) classify(prefix string, u *hx.Units) {
	g.st[prefix+":defs"]++
	g.st[fmt.Sprintf("%s:mults=%d", prefix, len(u.Mults))]++
	if u.Mults == nil {
		g.st[prefix+":mults-null"]++
	}
	units := [][4]string{u.Base}
	for _, m := range u.Mults {
		units = append(units, m.Names)
	}
	var meta, multi, lead, one, prefixPair, dotBase, within bool
	for i, ns := range units {
		for k, n := range ns {
			if strings.ContainsAny(n, unitsMetaChars) {
				meta = true
			}
			if len(n) > utf8.RuneCountInString(n) {
				multi = true
			}
			if n != "" && strings.ContainsRune(".-+", rune(n[0])) {
				lead = true
			}
			if utf8.RuneCountInString(n) == 1 {
				one = true
			}
			if i == 0 && n == "." {
				dotBase = true
			}
			for k2 := 0; k2 < k; k2++ {
				if ns[k2] == n {
					within = true
				}
			}
			for j, os := range units {
				if j == i {
					continue
				}
				for _, o := range os {
					if n != "" && len(n) < len(o) && strings.HasPrefix(o, n) {
						prefixPair = true
					}
				}
			}
		}
	}
	for _, c := range []struct {
		b bool
		k string
	}{{meta, "metachar"}, {multi, "multibyte"}, {lead, "leading.-+"}, {one, "one-char"},
		{prefixPair, "prefix-pair-across-units"}, {dotBase, "base-named-dot"}, {within, "same-name-twice-in-a-unit"}} {
		if c.b {
			g.st[prefix+":names:"+c.k]++
		}
	}
	for _, m := range u.Mults {
		switch {
		case m.M >= 1<<62:
			g.st[prefix+":mult:>=2^62"]++
		case m.M >= 1<<32:
			g.st[prefix+":mult:2^32..2^62"]++
		case m.M >= 1000:
			g.st[prefix+":mult:1000..2^32"]++
		default:
			g.st[prefix+":mult:<1000"]++
		}
	}
}

// genNonWF breaks exactly one rule of a well-formed definition.
func (g *unitsGen) genNonWF() (*hx.Units, string) {
	for {
		w := g.genWFQuiet()
		u := &hx.Units{Base: w.Base}
		for _, m := range w.Mults {
			u.Mults = append(u.Mults, m)
		}
		if w.Mults != nil && u.Mults == nil {
			u.Mults = []hx.UnitMult{}
		}
		nunits := len(u.Mults) + 1
		get := func(i int) *[4]string {
			if i == 0 {
				return &u.Base
			}
			return &u.Mults[i-1].Names
		}
		kind := []string{"mult-named-dot", "digit-in-name", "empty-name", "same-name-in-two-units"}[g.r.Intn(4)]
		switch kind {
		case "mult-named-dot":
			if nunits < 2 {
				continue
			}
			dot := false
			for i := 0; i < nunits; i++ {
				for _, n := range get(i) {
					if n == "." {
						dot = true
					}
				}
			}
			if dot {
				continue
			}
			t := get(1 + g.r.Intn(nunits-1))
			if g.p(0.4) {
				*t = [4]string{".", ".", ".", "."}
			} else {
				t[g.r.Intn(4)] = "."
				if g.p(0.5) {
					t[g.r.Intn(4)] = "."
				}
			}
		case "digit-in-name":
			t := get(g.r.Intn(nunits))
			k := g.r.Intn(4)
			repl := []string{"x2", "2x", "k9k", "7", t[k] + "3", "0" + t[k], "1."}[g.r.Intn(7)]
			t[k] = repl
		case "empty-name":
			t := get(g.r.Intn(nunits))
			t[g.r.Intn(4)] = ""
			if g.p(0.2) {
				*t = [4]string{"", "", "", ""}
			}
		case "same-name-in-two-units":
			if nunits < 2 {
				continue
			}
			a := g.r.Intn(nunits)
			b := g.r.Intn(nunits - 1)
			if b >= a {
				b++
			}
			n := get(a)[g.r.Intn(4)]
			if b > 0 && n == "." {
				continue
			}
			get(b)[g.r.Intn(4)] = n
		}
		if wfUnits(u) || !unitsRepresentable(u) {
			continue // e.g. the changed name was already that value
		}
		g.classify("nonwf", u)
		g.st["nonwf:kind:"+kind]++
		return u, kind
	}
}

// genWFQuiet: a WF definition that is not counted in the "wf" statistics.
func (g *unitsGen) genWFQuiet() *hx.Units {
	saved := g.st
	g.st = map[string]int{}
	u := g.genWF(g.p(0.5))
	g.st = saved
	return u
}

// ---------------------------------------------------------------------------------------------
// strings of the grammar, as token lists

type uTok struct {
	unit                  int // index into unitsOrder
	count, ws1, name, ws2 string
}

type uStr struct {
	lead, trail string
	toks        []uTok
}

func (x uStr) render() string {
	var sb strings.Builder
	sb.WriteString(x.lead)
	for _, t := range x.toks {
		sb.WriteString(t.count)
		sb.WriteString(t.ws1)
		sb.WriteString(t.name)
		sb.WriteString(t.ws2)
	}
	sb.WriteString(x.trail)
	return sb.String()
}

func (x uStr) clone() uStr {
	y := uStr{lead: x.lead, trail: x.trail}
	y.toks = append([]uTok{}, x.toks...)
	return y
}

// sum is the value of a well-formed token list, computed in math/big.
func (x uStr) sum(us []uUnit) *big.Int {
	total := new(big.Int)
	for _, t := range x.toks {
		c, ok := new(big.Int).SetString(t.count, 10)
		if !ok {
			panic("units: count is not decimal: " + t.count)
		}
		total.Add(total, c.Mul(c, big.NewInt(us[t.unit].m)))
	}
	return total
}

const unitsASCIIWS = " \t\n\f\r"

var unitsUniSpaces = []string{"\u00a0", "\u2003", "\v", "\u3000", "\u0085", "\u2028", "\u1680", "\u205f"}
var unitsInnerUniSpaces = []string{"\u00a0", "\u2003", "\u3000", "\v"}

func (g *unitsGen) ws() string {
	if g.p(0.8) {
		return ""
	}
	n := 1 + g.r.Intn(3)
	b := make([]byte, n)
	for i := range b {
		b[i] = unitsASCIIWS[g.r.Intn(len(unitsASCIIWS))]
	}
	if g.p(0.5) {
		return " "
	}
	return string(b)
}

func (g *unitsGen) outerWS() string {
	switch x := g.r.Intn(20); {
	case x < 14:
		return ""
	case x < 18:
		n := 1 + g.r.Intn(3)
		b := make([]byte, n)
		for i := range b {
			b[i] = unitsASCIIWS[g.r.Intn(len(unitsASCIIWS))]
		}
		return string(b)
	default:
		out := ""
		for i, n := 0, 1+g.r.Intn(3); i < n; i++ {
			if g.p(0.6) {
				out += g.pick(unitsUniSpaces)
			} else {
				out += string(unitsASCIIWS[g.r.Intn(len(unitsASCIIWS))])
			}
		}
		return out
	}
}

func (g *unitsGen) digits(n int) string {
	b := make([]byte, n)
	for i := range b {
		b[i] = byte('0' + g.r.Intn(10))
	}
	if n > 0 && b[0] == '0' {
		b[0] = byte('1' + g.r.Intn(9))
	}
	return string(b)
}

// count renders one count. ratio = next larger multiplier / this multiplier (nil for the largest).
func (g *unitsGen) count(ratio *big.Int, plain bool) string {
	var c string
	x := g.r.Intn(100)
	if plain && x >= 80 {
		x = g.r.Intn(80)
	}
	switch {
	case x < 8:
		c = "0"
	case x < 40:
		c = strconv.Itoa(1 + g.r.Intn(20))
	case x < 55:
		if ratio == nil || ratio.Sign() == 0 {
			c = strconv.Itoa(1 + g.r.Intn(100))
		} else {
			v := new(big.Int).Add(ratio, big.NewInt(int64(g.r.Intn(3)-1)))
			c = v.String()
		}
	case x < 65:
		if ratio == nil || ratio.Sign() == 0 {
			c = strconv.Itoa(100 + g.r.Intn(100000))
		} else {
			v := new(big.Int).Mul(ratio, big.NewInt(int64(2+g.r.Intn(999))))
			v.Add(v, big.NewInt(int64(g.r.Intn(1000))))
			c = v.String()
		}
	case x < 80:
		c = g.digits(1 + g.r.Intn(18))
	case x < 83:
		c = []string{"9223372036854775807", "9223372036854775808", "18446744073709551616", "18446744073709551615", "9223372036854775806"}[g.r.Intn(5)]
	case x < 90:
		c = g.digits(19 + g.r.Intn(2))
	default:
		c = g.digits(21 + g.r.Intn(10))
	}
	if g.p(0.12) {
		c = []string{"0", "00", "000"}[g.r.Intn(3)] + c
	}
	return c
}

// grammarString generates a string of the unit grammar of u as a token list.
// mode: normal | plain (small counts) | edge-sum | edge-product | hugecount.
func (g *unitsGen) grammarString(us []uUnit, mode string, minToks int) uStr {
	n := len(us)
	if minToks > n {
		minToks = n
	}
	present := make([]bool, n)
	cnt := 0
	for i := range present {
		if g.p(0.55) {
			present[i] = true
			cnt++
		}
	}
	for cnt < minToks || cnt == 0 {
		i := g.r.Intn(n)
		if !present[i] {
			present[i] = true
			cnt++
		}
	}
	if mode == "edge-sum" {
		present[n-1] = true
	}
	var x uStr
	for i := 0; i < n; i++ {
		if !present[i] {
			continue
		}
		var ratio *big.Int
		if i > 0 {
			ratio = new(big.Int).Div(big.NewInt(us[i-1].m), big.NewInt(us[i].m))
		}
		t := uTok{unit: i, count: g.count(ratio, mode != "normal"), ws1: g.ws(), ws2: g.ws()}
		t.name = us[i].names[g.r.Intn(4)]
		if us[i].base && g.p(0.25) {
			t.name = ""
		}
		x.toks = append(x.toks, t)
	}
	small := func() string {
		if g.p(0.6) {
			return []string{"0", "00", "0"}[g.r.Intn(3)]
		}
		return strconv.Itoa(g.r.Intn(4))
	}
	switch mode {
	case "edge-sum":
		// total = MaxInt64 + d exactly
		var d int64
		if g.p(0.7) {
			d = int64(g.r.Intn(7) - 3)
		} else {
			d = int64(g.r.Intn(2001) - 1000)
		}
		target := new(big.Int).Add(unitsMaxI64, big.NewInt(d))
		last := len(x.toks) - 1 // the base unit
		pivot := 0
		if last > 0 && g.p(0.3) {
			pivot = g.r.Intn(last)
		}
		partial := new(big.Int)
		for i := range x.toks {
			if i == pivot || i == last {
				continue
			}
			c, _ := new(big.Int).SetString(x.toks[i].count, 10)
			partial.Add(partial, c.Mul(c, big.NewInt(us[x.toks[i].unit].m)))
		}
		if partial.Cmp(target) > 0 {
			for i := range x.toks {
				if i != pivot && i != last {
					x.toks[i].count = "0"
				}
			}
			partial.SetInt64(0)
		}
		rest := new(big.Int).Sub(target, partial)
		if pivot != last {
			q, r := new(big.Int).QuoRem(rest, big.NewInt(us[x.toks[pivot].unit].m), new(big.Int))
			x.toks[pivot].count = q.String()
			rest = r
		}
		x.toks[last].count = rest.String()
	case "edge-product":
		pv := g.r.Intn(len(x.toks))
		for i := range x.toks {
			if i != pv && g.p(0.7) {
				x.toks[i].count = small()
			}
		}
		q := new(big.Int).Div(unitsMaxI64, big.NewInt(us[x.toks[pv].unit].m))
		q.Add(q, big.NewInt(int64(g.r.Intn(2))))
		x.toks[pv].count = q.String()
	case "hugecount":
		pv := g.r.Intn(len(x.toks))
		x.toks[pv].count = g.digits(20 + g.r.Intn(11))
	}
	x.lead, x.trail = g.outerWS(), g.outerWS()
	return x
}

func unitsNameSet(us []uUnit) map[string]bool {
	set := map[string]bool{}
	for _, un := range us {
		for _, n := range un.names {
			set[n] = true
		}
	}
	return set
}

var unitsMutations = []string{"swap", "repeat", "unknown-name", "prefix-of-name", "name-plus-letter", "drop-count",
	"drop-name", "garbage", "dot-in-nonbase-count", "dot-in-base-count", "sign-front", "sign-inner",
	"unicode-space-inside", "space-in-count", "space-in-name", "case-variant", "empty", "spaces-only",
	"name-only", "digits-two-names", "huge-count"}

// mutate breaks the well-formed token list x in exactly one way; false: not applicable to x.
func (g *unitsGen) mutate(kind string, x uStr, us []uUnit) (string, bool) {
	x = x.clone()
	names := unitsNameSet(us)
	nt := len(x.toks)
	switch kind {
	case "swap":
		if nt < 2 {
			return "", false
		}
		i := g.r.Intn(nt - 1)
		x.toks[i], x.toks[i+1] = x.toks[i+1], x.toks[i]
	case "repeat":
		i := g.r.Intn(nt)
		t := x.toks[i]
		if g.p(0.5) {
			t.count = g.count(nil, true)
			t.name = us[t.unit].names[g.r.Intn(4)]
		}
		x.toks = append(x.toks[:i+1], append([]uTok{t}, x.toks[i+1:]...)...)
	case "unknown-name":
		var cand []string
		for _, c := range []string{"zz", "Q", "qq", "unit", "µµ", "—", "xx.", "#", "@", "Zs", "nope", "_", "'"} {
			if !names[c] {
				cand = append(cand, c)
			}
		}
		if len(cand) == 0 {
			return "", false
		}
		x.toks[g.r.Intn(nt)].name = g.pick(cand)
	case "prefix-of-name":
		var idx []int
		var repl []string
		for i, t := range x.toks {
			for _, n := range us[t.unit].names {
				rs := []rune(n)
				for l := 1; l < len(rs); l++ {
					if p := string(rs[:l]); !names[p] {
						idx = append(idx, i)
						repl = append(repl, p)
					}
				}
			}
		}
		if len(idx) == 0 {
			return "", false
		}
		k := g.r.Intn(len(idx))
		x.toks[idx[k]].name = repl[k]
	case "name-plus-letter":
		i := g.r.Intn(nt)
		n := us[x.toks[i].unit].names[g.r.Intn(4)] + g.pick([]string{"x", "q", "s", "S", ".", "é"})
		if names[n] {
			return "", false
		}
		x.toks[i].name = n
	case "drop-count":
		i := g.r.Intn(nt)
		if x.toks[i].name == "" {
			x.toks[i].name = us[x.toks[i].unit].names[g.r.Intn(4)]
		}
		x.toks[i].count = ""
	case "drop-name":
		var idx []int
		for i, t := range x.toks {
			if !us[t.unit].base {
				idx = append(idx, i)
			}
		}
		if len(idx) == 0 {
			return "", false
		}
		x.toks[idx[g.r.Intn(len(idx))]].name = ""
	case "garbage":
		gb := g.pick([]string{"x", "5x", ".", "1.", "-", "+", "e", "5e", "..", "0x", ",", "1,0"})
		if g.p(0.5) {
			x.trail = gb + x.trail
		} else {
			x.trail = x.trail + gb
		}
	case "dot-in-nonbase-count":
		var idx []int
		for i, t := range x.toks {
			if !us[t.unit].base {
				idx = append(idx, i)
			}
		}
		if len(idx) == 0 {
			return "", false
		}
		i := idx[g.r.Intn(len(idx))]
		x.toks[i].count = g.pick([]string{"1.5", "1.0", "0.5", "2.", ".5", "1.000000", "10.25"})
	case "dot-in-base-count":
		if nt == 0 || !us[x.toks[nt-1].unit].base {
			t := uTok{unit: len(us) - 1, name: us[len(us)-1].names[g.r.Intn(4)]}
			if g.p(0.2) {
				t.name = ""
			}
			x.toks = append(x.toks, t)
			nt++
		}
		x.toks[nt-1].count = g.pick([]string{"1.5", "1.", ".5", "1..5", "0.000001", "1.500000", "12.25", "1.5.5", "007.50", "3.0"})
	case "sign-front":
		x.toks[0].count = g.pick([]string{"+", "-"}) + x.toks[0].count
	case "sign-inner":
		if nt < 2 {
			return "", false
		}
		i := 1 + g.r.Intn(nt-1)
		x.toks[i].count = g.pick([]string{"+", "-"}) + x.toks[i].count
	case "unicode-space-inside":
		sp := g.pick(unitsInnerUniSpaces)
		if g.p(0.3) {
			sp = " " + sp
		}
		var named []int
		for i, t := range x.toks {
			if t.name != "" {
				named = append(named, i)
			}
		}
		if nt >= 2 && (len(named) == 0 || g.p(0.5)) {
			x.toks[g.r.Intn(nt-1)].ws2 = sp
		} else if len(named) > 0 {
			x.toks[named[g.r.Intn(len(named))]].ws1 = sp
		} else {
			return "", false
		}
	case "space-in-count":
		i := g.r.Intn(nt)
		c := x.toks[i].count
		if len(c) < 2 {
			c += "0"
		}
		k := 1 + g.r.Intn(len(c)-1)
		x.toks[i].count = c[:k] + g.pick([]string{" ", " ", "\t", "  "}) + c[k:]
	case "space-in-name":
		var idx []int
		var repl []string
		for i, t := range x.toks {
			for _, n := range us[t.unit].names {
				rs := []rune(n)
				if len(rs) >= 2 {
					k := 1 + g.r.Intn(len(rs)-1)
					idx = append(idx, i)
					repl = append(repl, string(rs[:k])+" "+string(rs[k:]))
				}
			}
		}
		if len(idx) == 0 {
			return "", false
		}
		k := g.r.Intn(len(idx))
		x.toks[idx[k]].name = repl[k]
	case "case-variant":
		var idx []int
		var repl []string
		for i, t := range x.toks {
			for _, n := range us[t.unit].names {
				for _, v := range []string{strings.ToUpper(n), strings.ToLower(n)} {
					if v != n && !names[v] && wfUnitName(v) {
						idx = append(idx, i)
						repl = append(repl, v)
					}
				}
			}
		}
		if len(idx) == 0 {
			return "", false
		}
		k := g.r.Intn(len(idx))
		x.toks[idx[k]].name = repl[k]
	case "empty":
		return "", true
	case "spaces-only":
		return g.pick([]string{" ", "\t\n", "\u00a0", " \u2003 ", "   ", "\v", "\r\n", "\u3000\u3000"}), true
	case "name-only":
		un := us[g.r.Intn(len(us))]
		return g.outerWS() + un.names[g.r.Intn(4)] + g.outerWS(), true
	case "digits-two-names":
		a := us[g.r.Intn(len(us))]
		b := us[g.r.Intn(len(us))]
		return g.count(nil, true) + g.ws() + a.names[g.r.Intn(4)] + g.ws() + b.names[g.r.Intn(4)], true
	case "huge-count":
		x.toks[g.r.Intn(nt)].count = g.digits(30)
	default:
		panic("units: unknown mutation " + kind)
	}
	return x.render(), true
}

// ---------------------------------------------------------------------------------------------
// the command

func unitsCmd(a Args) {
	cfg := unitsTier(a.Tier)
	if err := os.MkdirAll(a.Out, 0o755); err != nil {
		panic(err)
	}
	s := newUnitsSink(a.Out)
	g := &unitsGen{r: rand.New(rand.NewSource(a.Seed)), st: map[string]int{}}
	for _, b := range unitsBuiltins() {
		if !wfUnits(b.u) {
			panic("units: built-in set is not WF: " + b.name)
		}
	}
	for _, f := range unitsFeatured() {
		if !wfUnits(f) {
			panic("units: featured definition is not WF")
		}
	}
	want := map[string]bool{}
	for _, st := range strings.Split(a.Streams, ",") {
		for _, n := range unitsStreamNames {
			if st == n {
				want[n] = true
			}
		}
	}
	all := len(want) == 0
	// pool of generated WF definitions shared by (b), (c), (d)
	pool := append([]*hx.Units{}, unitsFeatured()...)
	for _, f := range pool {
		g.classify("wf", f)
	}
	for len(pool) < cfg.pool {
		pool = append(pool, g.genWF(g.p(0.35)))
	}
	unitsLateMultipliers(s)
	if all || want["roundtrip"] {
		unitsStreamRoundtrip(s, g, cfg)
	}
	if all || want["wellformed"] {
		unitsStreamWellformed(s, g, cfg, pool)
	}
	if all || want["nearmiss"] {
		unitsStreamNearmiss(s, g, cfg, pool)
	}
	if all || want["floats"] {
		unitsStreamFloats(s, g, cfg, pool)
	}
	if all || want["nonwf"] {
		unitsStreamNonWF(s, g, cfg)
	}
	if all || want["longdigits"] {
		unitsStreamLongDigits(s, g, cfg, pool)
	}
	s.close()
	gen := map[string]any{}
	for k, v := range g.st {
		gen[k] = v
	}
	if n := g.st["wellformed:strings"]; n > 0 {
		gen["wellformed:overflow_share"] = float64(g.st["wellformed:overflow"]) / float64(n)
	}
	st := map[string]any{"harness": s.stats, "generator": gen, "seed": a.Seed, "tier": a.Tier}
	b, err := json.MarshalIndent(st, "", " ")
	if err != nil {
		panic(err)
	}
	if err := os.WriteFile(filepath.Join(a.Out, "stats.json"), append(b, '\n'), 0o644); err != nil {
		panic(err)
	}
}

// ---------------------------------------------------------------------------------------------
// (a) roundtrip

func unitsMulFits(a, b int64) (int64, bool) {
	p := new(big.Int).Mul(big.NewInt(a), big.NewInt(b))
	if p.IsInt64() {
		return p.Int64(), true
	}
	return 0, false
}

// specials lists the interesting non-negative integers of a definition.
func (g *unitsGen) specials(u *hx.Units, randoms int) []int64 {
	var out []int64
	seen := map[int64]bool{}
	add := func(n int64) {
		if n >= 0 && !seen[n] {
			seen[n] = true
			out = append(out, n)
		}
	}
	addAround := func(n int64) {
		add(n - 1)
		add(n)
		if n < math.MaxInt64 {
			add(n + 1)
		}
	}
	p := int64(1)
	for i := 0; i <= 18; i++ {
		add(p)
		p *= 10
	}
	us := unitsOrder(u)
	for _, un := range us[:len(us)-1] {
		for _, k := range []int64{1, 2, 3, 7} {
			if v, ok := unitsMulFits(k, un.m); ok {
				addAround(v)
			}
		}
	}
	for i := 0; i < len(us)-1; i++ {
		for j := i; j < len(us)-1; j++ {
			if v, ok := unitsMulFits(us[i].m, us[j].m); ok {
				addAround(v)
			}
		}
	}
	add(math.MaxInt64)
	add(math.MaxInt64 - 1)
	add(1 << 62)
	add(1<<53 - 1)
	add(1<<53 + 1)
	add(0)
	for i := 0; i < randoms; i++ {
		add(g.randBits(63))
	}
	return out
}

func (s *unitsSink) roundtrip(u *hx.Units, n int64, long bool) {
	fr, id1 := s.fmtCase(u, n, long, "roundtrip")
	if fr.R != "ok" {
		s.finding("integer formatting panicked", []int{id1}, u, strconv.FormatInt(n, 10), "got "+fr.show("UNITS_FMT"), "want a string")
		return
	}
	pr, id2 := s.parseCase(u, fr.S, "roundtrip:parse")
	if pr.R != "ok" || pr.I != n {
		form := "short"
		if long {
			form = "long"
		}
		s.finding("integer round trip differs", []int{id1, id2}, u, strconv.FormatInt(n, 10),
			"form "+form, "formatted "+strconv.Quote(fr.S), "got "+pr.show("UNITS_PARSE"), "want "+strconv.FormatInt(n, 10))
	}
}

func unitsStreamRoundtrip(s *unitsSink, g *unitsGen, cfg unitsCfg) {
	var exhaust []*hx.Units
	for _, b := range unitsBuiltins() {
		exhaust = append(exhaust, b.u)
	}
	gen := unitsFeatured()
	for i := len(gen); i < cfg.exhaustGen; i++ {
		gen = append(gen, g.genWF(i%2 == 0)) // small multipliers so that [0,N] crosses them, and arbitrary ones
	}
	gen = gen[:cfg.exhaustGen]
	exhaust = append(exhaust, gen...)
	for _, u := range exhaust {
		g.classify("roundtrip:exhaustive", u)
		for _, long := range []bool{false, true} {
			for n := int64(0); n <= cfg.exhaustN; n++ {
				s.roundtrip(u, n, long)
			}
		}
	}
	defs := append([]*hx.Units{}, exhaust...)
	for i := 0; i < cfg.specialDefs; i++ {
		defs = append(defs, g.genWF(false))
	}
	for _, u := range defs {
		g.classify("roundtrip:special", u)
		vals := g.specials(u, cfg.rtRandoms)
		negs := []int64{-1, -59, -61, math.MinInt64, math.MinInt64 + 1, -g.randBits(63), -g.randBits(63), -g.randBits(20)}
		for _, long := range []bool{false, true} {
			for _, n := range vals {
				s.roundtrip(u, n, long)
			}
			for _, n := range negs {
				// correspondence of the formatter's wrap-around behaviour only
				s.fmtCase(u, n, long, "roundtrip:negative")
			}
		}
		g.st["roundtrip:special-values"] += len(vals)
		g.st["roundtrip:negative-values"] += len(negs)
	}
}

// ---------------------------------------------------------------------------------------------
// (b) wellformed

func (g *unitsGen) pickDef(pool []*hx.Units, pBuiltin float64) *hx.Units {
	if g.p(pBuiltin) {
		bs := unitsBuiltins()
		return bs[g.r.Intn(len(bs))].u
	}
	return pool[g.r.Intn(len(pool))]
}

func unitsStreamWellformed(s *unitsSink, g *unitsGen, cfg unitsCfg, pool []*hx.Units) {
	for i := 0; i < cfg.wellformed; i++ {
		u := g.pickDef(pool, 0.3)
		us := unitsOrder(u)
		mode := "normal"
		switch x := g.r.Intn(100); {
		case x < 58:
		case x < 78:
			mode = "edge-sum"
		case x < 90:
			mode = "edge-product"
		default:
			mode = "hugecount"
		}
		x := g.grammarString(us, mode, 1)
		str := x.render()
		want := x.sum(us)
		fits := want.Cmp(unitsMaxI64) <= 0
		g.st["wellformed:strings"]++
		g.st["wellformed:mode:"+mode]++
		g.st[fmt.Sprintf("wellformed:tokens=%d", len(x.toks))]++
		if !fits {
			g.st["wellformed:overflow"]++
		}
		res, id := s.parseCase(u, str, "wellformed")
		switch {
		case res.R == "panic":
			s.finding("ParseInt panicked", []int{id}, u, str, "got "+res.show("UNITS_PARSE"))
		case fits && res.R != "ok":
			s.finding("well-formed string rejected", []int{id}, u, str, "got "+res.show("UNITS_PARSE"), "want "+want.String())
		case fits && res.I != want.Int64():
			s.finding("well-formed string parsed to another number", []int{id}, u, str, "got "+res.show("UNITS_PARSE"), "want "+want.String())
		case !fits && res.R == "ok":
			s.finding("overflowing string accepted", []int{id}, u, str, "got "+res.show("UNITS_PARSE"), "want an error: the value is "+want.String())
		}
		// cross-check of the generator's expectation with the reference recogniser
		sums := refParseAll(u, str)
		if len(sums) != 1 || sums[0].Cmp(want) != 0 {
			s.finding("harness: generator and reference recogniser disagree", []int{id}, u, str,
				fmt.Sprintf("reference %v", sums), "generator "+want.String())
		}
		if len(str) < unitsPFMax && g.r.Intn(5) == 0 {
			fres, fid := s.parseFCase(u, str, "wellformed:float")
			s.checkParseFloat(u, str, fres, fid, []*big.Int{want})
		}
	}
}

// ---------------------------------------------------------------------------------------------
// (c) nearmiss

func unitsStreamNearmiss(s *unitsSink, g *unitsGen, cfg unitsCfg, pool []*hx.Units) {
	for i := 0; i < cfg.nearmiss; i++ {
		u := g.pickDef(pool, 0.35)
		us := unitsOrder(u)
		kind := unitsMutations[g.r.Intn(len(unitsMutations))]
		var str string
		done := false
		for try := 0; try < 20 && !done; try++ {
			minToks := 1
			if g.p(0.5) {
				minToks = 2
			}
			mode := "plain"
			if g.p(0.1) {
				mode = "normal"
			}
			str, done = g.mutate(kind, g.grammarString(us, mode, minToks), us)
		}
		if !done {
			g.st["nearmiss:inapplicable:"+kind]++
			kind = "garbage"
			str, _ = g.mutate(kind, g.grammarString(us, "plain", 1), us)
		}
		g.st["nearmiss:strings"]++
		g.st["nearmiss:mutation:"+kind]++
		sums := refParseAll(u, str)
		if len(sums) > 0 {
			g.st["nearmiss:still-in-grammar"]++
			g.st["nearmiss:still-in-grammar:"+kind]++
		}
		res, id := s.parseCase(u, str, "nearmiss:"+kind)
		s.checkParseInt(u, str, res, id, sums)
		if len(str) < unitsPFMax && (strings.Contains(str, ".") || g.r.Intn(5) == 0) {
			fres, fid := s.parseFCase(u, str, "nearmiss:float:"+kind)
			s.checkParseFloat(u, str, fres, fid, sums)
		}
	}
}

// ---------------------------------------------------------------------------------------------
// (d) floats

func (g *unitsGen) floatValues(u *hx.Units, randoms int, rich bool) (main []float64, huge []float64) {
	seen := map[uint64]bool{}
	add := func(x float64) {
		if x < 0 || x != x || math.IsInf(x, 0) {
			return
		}
		if x == 0 {
			x = 0 // +0 only
		}
		b := math.Float64bits(x)
		if seen[b] {
			return
		}
		seen[b] = true
		if x <= 1e15 {
			main = append(main, x)
		} else if x <= 1e19 {
			huge = append(huge, x)
		}
	}
	add(0)
	for i := 1; i <= 12; i++ {
		add(float64(i))
	}
	for _, x := range []float64{59, 60, 61, 100, 1000, 1023, 1024, 1025, 3599, 3600, 86399, 86400, 1e6, 1e9, 1e12, 1e15,
		999999999999999, 123456789, 4503599627370496, 0.5, 1.5, 0.000001, 12345.678901, 0.1, 0.2, 0.3, 0.25, 0.75,
		0.999999, 0.9999999, 0.0000005, 0.0000004, 1e-7, 59.999999, 59.9999999, 59.5, 60.5, 1023.999999, 2.000001,
		99.99, 1234.5, 0.01, 0.07, 1e15 - 0.125, 1e14 + 0.5} {
		add(x)
	}
	for k := 1; k <= 9; k++ {
		add(float64(k) / 10)
		add(float64(k*11) / 100)
	}
	us := unitsOrder(u)
	for _, un := range us[:len(us)-1] {
		m := float64(un.m)
		ks := []float64{1, 2, 3, 7}
		if rich {
			ks = append(ks, 10, 59, 1000, 1e6+1)
		}
		for _, k := range ks {
			add(k * m)
			add(k*m - 1)
			add(k*m + 1)
			add(k*m + 0.5)
			add(k*m - 0.000001)
			add(math.Nextafter(k*m, 0))
			add(math.Nextafter(k*m, math.Inf(1)))
		}
	}
	for i := 0; i < randoms; i++ {
		// log-uniform in [1e-7, 1e15]
		add(math.Pow(10, -7+22*g.r.Float64()))
		if i%3 == 0 {
			// at most 6 fractional digits
			add(float64(g.r.Int63n(1e12)) / 1e6)
		}
		if i%5 == 0 {
			add(float64(g.randBits(49)))
		}
	}
	// huge: (1e15, 1e19]
	for _, x := range []float64{9007199254740992, 9007199254740994, 1e16, 1e17, 1e18, 4611686018427387904,
		9223372036854775808, math.Nextafter(9223372036854775808, 0), 9223372036854775808 + 2048, 1e19, 18446744073709551616 / 2,
		1.5e15, 1e15 + 0.5, 2e15 + 0.25} {
		add(x)
	}
	for i := 0; i < randoms/5+3; i++ {
		add(math.Pow(10, 15+4*g.r.Float64()) * 1.0000001)
	}
	return main, huge
}

func (s *unitsSink) floatCase(u *hx.Units, x float64, long bool, huge bool) {
	note, what := "floats", "float round trip differs"
	if huge {
		note, what = "floats:huge", "float round trip differs (huge)"
	}
	form := "short"
	if long {
		form = "long"
	}
	input := strconv.FormatFloat(x, 'g', -1, 64)
	call := func(d *schema.UnitsDefinition) unitsRes {
		if long {
			return unitsRes{R: "ok", S: d.FormatLongFloat(x)}
		}
		return unitsRes{R: "ok", S: d.FormatShortFloat(x)}
	}
	if x >= 9223372036854775808 {
		// beyond int64: outside the 64-bit domain of C16 (the formatter's base*multiplier wraps, the
		// parser rejects products beyond int64 by design). No model case and no finding, unless a
		// WRONG NUMBER comes back without an error.
		const k = "floats:beyond_int64:"
		s.stats[k+"values:"+form]++
		fr := unitsGuard(func() unitsRes { return call(u.Build()) })
		if fr.R != "ok" {
			s.stats[k+"format_panic"]++
			return
		}
		pcall := unitsParseFloatCall(fr.S)
		pr := unitsGuard(func() unitsRes { return pcall(u.Build()) })
		switch {
		case pr.R == "panic":
			s.stats[k+"parse_panic"]++
		case pr.R != "ok":
			s.stats[k+"parse_error"]++
		case math.Abs(pr.F-x) <= 1e-9*math.Abs(x)+5.1e-7:
			s.stats[k+"roundtrip_ok"]++
		default:
			s.stats[k+"wrong_number"]++
			s.finding("float beyond int64 parsed to a wrong number", nil, u, input, "form "+form, "bits "+unitsBits(x),
				"formatted "+strconv.Quote(fr.S), "got "+pr.show("UNITS_PARSEF"), "want "+input+" within 1e-9 relative + 5.1e-7, or an error")
		}
		return
	}
	fr := unitsGuard(func() unitsRes { return call(u.Build()) })
	s.stats[note+":values:"+form]++
	if fr.R != "ok" {
		s.finding("float formatting panicked", nil, u, input, "form "+form, "got "+fr.show("UNITS_FMT"))
		return
	}
	s.pkgCheck("UNITS_FMT", u, 0, input, fr, call)
	var pr unitsRes
	var ids []int
	if len(fr.S) <= unitsPFMaxFloat && utf8.ValidString(fr.S) {
		var id int
		pr, id = s.parseFCase(u, fr.S, note)
		ids = []int{id}
	} else {
		s.stats[note+":parsef-case-skipped(long string)"]++
		pcall := unitsParseFloatCall(fr.S)
		pr = unitsGuard(func() unitsRes { return pcall(u.Build()) })
		s.pkgCheck("UNITS_PARSEF", u, 0, fr.S, pr, pcall)
	}
	bad := pr.R != "ok"
	if !bad {
		diff := math.Abs(pr.F - x)
		rel := 1e-9 * math.Abs(x)
		if diff > rel {
			s.stats[note+":needed_abs_slack"]++
		}
		bad = !(diff <= rel+5.1e-7)
	}
	if bad {
		s.stats[note+":finding:"+form]++
		s.finding(what, ids, u, input, "form "+form, "bits "+unitsBits(x), "formatted "+strconv.Quote(fr.S),
			"got "+pr.show("UNITS_PARSEF"), "want "+input+" within 1e-9 relative + 5.1e-7")
	}
}

func unitsStreamFloats(s *unitsSink, g *unitsGen, cfg unitsCfg, pool []*hx.Units) {
	var defs []*hx.Units
	for _, b := range unitsBuiltins() {
		defs = append(defs, b.u)
	}
	for i := 0; i < cfg.floatDefs; i++ {
		defs = append(defs, pool[i%len(pool)])
	}
	for _, u := range defs {
		g.classify("floats", u)
		main, huge := g.floatValues(u, cfg.floatRandoms, cfg.floatRich)
		g.st["floats:values"] += len(main)
		g.st["floats:huge:values"] += len(huge)
		for _, long := range []bool{false, true} {
			for _, x := range main {
				s.floatCase(u, x, long, false)
			}
			for _, x := range huge {
				s.floatCase(u, x, long, true)
			}
		}
	}
}

// ---------------------------------------------------------------------------------------------
// (e) nonwf: model correspondence only, no findings

func unitsStreamNonWF(s *unitsSink, g *unitsGen, cfg unitsCfg) {
	for i := 0; i < cfg.nonwfDefs; i++ {
		u, kind := g.genNonWF()
		us := unitsOrder(u)
		ns := []int64{0, 1, int64(g.r.Intn(100)), g.randBits(20), g.randBits(63)}
		for _, un := range us[:len(us)-1] {
			if v, ok := unitsMulFits(un.m, int64(1+g.r.Intn(3))); ok {
				ns = append(ns, v, v+int64(g.r.Intn(5)))
			}
		}
		if len(ns) > 8 {
			ns = ns[:8]
		}
		for _, n := range ns {
			if n < 0 {
				continue
			}
			long := g.p(0.5)
			fr, _ := s.fmtCase(u, n, long, "nonwf:"+kind)
			if fr.R == "ok" {
				s.parseCase(u, fr.S, "nonwf:parse:"+kind)
			}
		}
		for j := 0; j < 12; j++ {
			mode := "plain"
			if g.p(0.3) {
				mode = []string{"normal", "edge-sum", "edge-product", "hugecount"}[g.r.Intn(4)]
			}
			x := g.grammarString(us, mode, 1)
			if g.p(0.7) {
				// no white space: adjacent tokens interact with the irregular names
				x.lead, x.trail = "", ""
				for k := range x.toks {
					x.toks[k].ws1, x.toks[k].ws2 = "", ""
				}
			}
			s.parseCase(u, x.render(), "nonwf:grammar:"+kind)
		}
	}
}

// unitsLateMultipliers: a definition whose multiplier table (the map Multipliers() hands out) is
// extended AFTER its first use. Whatever the lazily built parser state then knows, a string is parsed
// into the sum it stands for under the final table, or rejected - never into another number
// ("parsing never returns a wrong number"). Three histories: formatted first, parsed first, extended
// before any use (control: everything is accepted and correct).
func unitsLateMultipliers(s *unitsSink) {
	type step struct{ name string }
	texts := []struct {
		s    string
		want int64
	}{
		{"1H", 3600}, {"1H1m1s", 3661}, {"1d 1H 1m 1s", 90061}, {"2m", 120}, {"2m3s", 123}, {"59", 59}, {"1d", 86400}, {"3days 5", 259205},
		{"1 hour 1 minute", 3660}, {"2H30m", 9000},
	}
	for _, history := range []string{"formatted-then-extended", "parsed-then-extended", "extended-then-used"} {
		u := schema.NewUnits(schema.NewUnit("s", "s", "second", "seconds"), map[int64]*schema.UnitDefinition{
			60: schema.NewUnit("m", "m", "minute", "minutes")})
		switch history {
		case "formatted-then-extended":
			_ = u.FormatShortInt(61)
		case "parsed-then-extended":
			_, _ = u.ParseInt("1m1s")
		}
		u.Multipliers()[3600] = schema.NewUnit("H", "H", "hour", "hours")
		u.Multipliers()[86400] = schema.NewUnit("d", "d", "day", "days")
		for _, tc := range texts {
			s.stats["late_multipliers"]++
			res := unitsGuard(func() unitsRes {
				n, err := u.ParseInt(tc.s)
				if err != nil {
					return unitsRes{R: "err", Msg: err.Error()}
				}
				return unitsRes{R: "ok", I: n}
			})
			switch {
			case res.R == "panic":
				s.finding("ParseInt panicked on a definition extended after its first use", nil, nil, tc.s, history, res.Msg)
			case res.R == "ok" && res.I != tc.want:
				s.finding("ParseInt returns a wrong number on a definition whose multiplier table was extended after its first use", nil, nil, tc.s,
					history, fmt.Sprintf("the string stands for %d, got %d without an error", tc.want, res.I))
			case res.R == "err" && history == "extended-then-used":
				s.finding("a well-formed string is rejected by a definition completed before its first use", nil, nil, tc.s, history, res.Msg)
			}
			fres := unitsGuard(func() unitsRes {
				f, err := u.ParseFloat(tc.s)
				if err != nil {
					return unitsRes{R: "err", Msg: err.Error()}
				}
				return unitsRes{R: "ok", F: f}
			})
			if fres.R == "ok" && fres.F != float64(tc.want) {
				s.finding("ParseFloat returns a wrong number on a definition whose multiplier table was extended after its first use", nil, nil, tc.s,
					history, fmt.Sprintf("the string stands for %d, got %v without an error", tc.want, fres.F))
			}
		}
	}
}

// ---------------------------------------------------------------------------------------------
// (f) longdigits: very long counts, with and without a fraction

// unitsFloatEdges: the largest float64 (2^1024-2^971), the largest integer that still rounds to it
// (2^1024-2^970-1) and the smallest one that rounds to +Inf (2^1024-2^970: the midpoint between
// MaxFloat64 and 2^1024, and ties go to the even neighbour, which is 2^1024).
func unitsFloatEdges() (maxF, lastIn, firstOut *big.Int) {
	one := big.NewInt(1)
	p1024 := new(big.Int).Lsh(one, 1024)
	maxF = new(big.Int).Sub(p1024, new(big.Int).Lsh(one, 971))
	firstOut = new(big.Int).Sub(p1024, new(big.Int).Lsh(one, 970))
	lastIn = new(big.Int).Sub(firstOut, one)
	return
}

var unitsLongLens = []int{1, 2, 17, 18, 19, 20, 21, 39, 40, 41, 100, 200, 300, 305, 306, 307, 308, 309, 310, 311, 312,
	320, 325, 326, 350, 399, 400}

// longRun returns a digit string of 1..400 digits and what it is.
func (g *unitsGen) longRun() (string, string) {
	maxF, lastIn, firstOut := unitsFloatEdges()
	pad := func(x string) string { // leading zeros, total at most 400 digits
		room := 400 - len(x)
		if room <= 0 {
			return x
		}
		z := []int{1, 2, 5, 50, 91, room}[g.r.Intn(6)]
		if z > room {
			z = room
		}
		return strings.Repeat("0", z) + x
	}
	n := unitsLongLens[g.r.Intn(len(unitsLongLens))]
	if g.p(0.3) {
		n = 1 + g.r.Intn(400)
	}
	switch x := g.r.Intn(100); {
	case x < 22:
		return g.digits(n), "random"
	case x < 28:
		return strings.Repeat("9", n), "nines"
	case x < 34:
		return "1" + strings.Repeat("0", n-1), "power-of-ten"
	case x < 40:
		return maxF.String(), "max-float64"
	case x < 48:
		return lastIn.String(), "last-in-range"
	case x < 56:
		return firstOut.String(), "first-out-of-range"
	case x < 66:
		// 309 digits sharing a prefix with the edge: on either side of it
		e := firstOut.String()
		k := 1 + g.r.Intn(20)
		return e[:k] + g.digits(len(e)-k), "near-edge"
	case x < 72:
		// the edge plus or minus a little
		d := big.NewInt(int64(g.r.Intn(2000) - 1000))
		return new(big.Int).Add(firstOut, d).String(), "edge-plus-minus"
	case x < 80:
		return pad(g.digits(1 + g.r.Intn(18))), "zeros+small"
	case x < 87:
		return pad([]string{maxF.String(), lastIn.String(), firstOut.String()}[g.r.Intn(3)]), "zeros+edge"
	case x < 93:
		return pad(g.digits(1 + g.r.Intn(330))), "zeros+random"
	default:
		return strings.Repeat("0", n), "all-zeros"
	}
}

func (g *unitsGen) longFraction() (string, string) {
	switch x := g.r.Intn(100); {
	case x < 34:
		return "", "none"
	case x < 42:
		return ".0", ".0"
	case x < 50:
		return ".5", ".5"
	case x < 60:
		return ".87890", "short"
	case x < 70:
		return "." + strings.Repeat("9", 1+g.r.Intn(30)), "nines"
	case x < 80:
		return "." + g.digits(1+g.r.Intn(12)), "short"
	case x < 88:
		return "." + g.digits(100+g.r.Intn(250)), "long"
	case x < 94:
		return "." + strings.Repeat("0", 1+g.r.Intn(60)) + "1", "zeros-then-one"
	default:
		return "." + strings.Repeat("0", 1+g.r.Intn(40)), "zeros"
	}
}

// schemaCase: the string through an int or float schema carrying the definition (operation
// Unserialize, op "U" of the schema model; UnserializeType is run too and must agree).
func (s *unitsSink) schemaCase(u *hx.Units, str string, float bool, note string) (hx.Result, unitsRes, int) {
	s.nextID++
	id := s.nextID
	kind := "int"
	if float {
		kind = "float"
	}
	b := s.buf[:0]
	b = append(b, `{"id":`...)
	b = strconv.AppendInt(b, int64(id), 10)
	b = append(b, `,"op":"U","schema":{"t":"`...)
	b = append(b, kind...)
	b = append(b, `","units":`...)
	b = append(b, s.unitsJSON(u)...)
	b = append(b, `},"v":{"s":`...)
	b = append(b, unitsQ(str)...)
	b = append(b, '}')
	if float {
		b = append(b, `,"ext":`...)
		b = append(b, unitsPF(str)...)
	}
	b = append(b, `,"fuel":50,"note":`...)
	b = append(b, unitsQ(note)...)
	b = append(b, '}', '\n')
	s.cases.Write(b)
	s.buf = b
	var plain unitsRes
	res := hx.Guard(func() hx.Result {
		if float {
			sch := schema.NewFloatSchema(nil, nil, u.Build())
			r, out := hx.RunOpRaw("U", sch, str)
			if f, ok := out.(float64); ok && r.R == "ok" {
				plain = unitsRes{R: "ok", F: f}
			} else {
				plain = unitsRes{R: r.R, Msg: r.Msg}
			}
			f2, err := schema.NewFloatSchema(nil, nil, u.Build()).UnserializeType(str)
			if (err == nil) != (r.R == "ok") || (err == nil && unitsBits(f2) != unitsBits(plain.F)) {
				s.finding("FloatSchema.UnserializeType differs from Unserialize", []int{id}, u, str,
					"Unserialize "+plain.show("UNITS_PARSEF"), fmt.Sprintf("UnserializeType %v %v", f2, err))
			}
			return r
		}
		sch := schema.NewIntSchema(nil, nil, u.Build())
		r, out := hx.RunOpRaw("U", sch, str)
		if i, ok := out.(int64); ok && r.R == "ok" {
			plain = unitsRes{R: "ok", I: i}
		} else {
			plain = unitsRes{R: r.R, Msg: r.Msg}
		}
		i2, err := schema.NewIntSchema(nil, nil, u.Build()).UnserializeType(str)
		if (err == nil) != (r.R == "ok") || (err == nil && i2 != plain.I) {
			s.finding("IntSchema.UnserializeType differs from Unserialize", []int{id}, u, str,
				"Unserialize "+plain.show("UNITS_PARSE"), fmt.Sprintf("UnserializeType %v %v", i2, err))
		}
		return r
	})
	if res.R == "panic" {
		plain = unitsRes{R: "panic", Msg: res.Msg}
	}
	res.Msg = unitsTrunc(res.Msg)
	rb, err := json.Marshal(res)
	if err != nil {
		panic(err)
	}
	s.results.Write(rb)
	s.results.WriteByte('\n')
	op := "U:" + kind
	s.stats["cases"]++
	s.stats["stream:longdigits"]++
	s.stats["op:"+op]++
	s.stats["res:"+op+":"+res.R]++
	s.stats["stream-op:longdigits:"+op]++
	return res, plain, id
}

func unitsStreamLongDigits(s *unitsSink, g *unitsGen, cfg unitsCfg, pool []*hx.Units) {
	var defs []*hx.Units
	for _, b := range unitsBuiltins() {
		defs = append(defs, b.u)
	}
	defs = append(defs, unitsFeatured()...)
	for i := 0; i < cfg.longDefs && len(pool) > 0; i++ {
		defs = append(defs, pool[g.r.Intn(len(pool))])
	}
	for _, u := range defs {
		g.classify("longdigits", u)
		us := unitsOrder(u)
		base := us[len(us)-1]
		for i := 0; i < cfg.longPerDef; i++ {
			run, rkind := g.longRun()
			frac, fkind := g.longFraction()
			place := "base-named"
			var str string
			small := func() string { return strconv.Itoa(g.r.Intn(60)) }
			switch x := g.r.Intn(100); {
			case x < 40:
				str = run + frac + base.names[g.r.Intn(4)]
			case x < 55:
				place = "base-bare"
				str = run + frac
			case x < 75 && len(us) > 1:
				place = "after-multiplier"
				m := us[g.r.Intn(len(us)-1)]
				str = small() + m.names[g.r.Intn(4)] + g.ws() + run + frac + g.ws() + base.names[g.r.Intn(4)]
			case x < 90 && len(us) > 1:
				place = "multiplier-count"
				m := us[g.r.Intn(len(us)-1)]
				str = run + frac + m.names[g.r.Intn(4)]
				if g.p(0.5) {
					str += small() + base.names[g.r.Intn(4)]
				}
			case len(us) > 1:
				place = "both-long"
				m := us[g.r.Intn(len(us)-1)]
				run2, _ := g.longRun()
				str = run2 + m.names[g.r.Intn(4)] + run + frac + base.names[g.r.Intn(4)]
			default:
				place = "base-spaced"
				str = g.outerWS() + run + frac + g.ws() + base.names[g.r.Intn(4)] + g.outerWS()
			}
			g.st["longdigits:strings"]++
			g.st["longdigits:run:"+rkind]++
			g.st["longdigits:fraction:"+fkind]++
			g.st["longdigits:place:"+place]++
			g.st[fmt.Sprintf("longdigits:digits:%d-%d", len(run)/50*50, len(run)/50*50+49)]++
			note := "longdigits:" + place + ":" + rkind + ":" + fkind
			sums := refParseAll(u, str)
			// ParseInt, ParseFloat
			res, id := s.parseCase(u, str, note)
			s.checkParseInt(u, str, res, id, sums)
			fres, fid := s.parseFCase(u, str, note)
			s.checkParseFloat(u, str, fres, fid, sums)
			switch {
			case fres.R != "ok":
				g.st["longdigits:ParseFloat:error"]++
			case math.Abs(fres.F) == math.MaxFloat64:
				g.st["longdigits:ParseFloat:max-float64"]++
			case math.Abs(fres.F) > 1e300:
				g.st["longdigits:ParseFloat:above-1e300"]++
			default:
				g.st["longdigits:ParseFloat:finite"]++
			}
			// the same string through schemas that carry the definition
			_, ip, iid := s.schemaCase(u, str, false, note)
			if ip.key("UNITS_PARSE") != res.key("UNITS_PARSE") {
				s.finding("IntSchema with units differs from ParseInt", []int{id, iid}, u, str,
					"ParseInt "+res.show("UNITS_PARSE"), "IntSchema.Unserialize "+ip.show("UNITS_PARSE"))
			}
			_, fp, fsid := s.schemaCase(u, str, true, note)
			if !s.checkFinite("FloatSchema.Unserialize", u, str, fp, fsid) && fp.key("UNITS_PARSEF") != fres.key("UNITS_PARSEF") {
				s.finding("FloatSchema with units differs from ParseFloat", []int{fid, fsid}, u, str,
					"ParseFloat "+fres.show("UNITS_PARSEF"), "FloatSchema.Unserialize "+fp.show("UNITS_PARSEF"))
			}
		}
	}
}
