package main

// Sub-command `atpclient` (properties C06, C08): the concurrency tie between atp/client.go and the
// Lean model ArcaModel/Model/AtpClient.lean.
//
// On every run it
//  1. instruments a copy of atp/client.go FROM THE CURRENT WORKING TREE (harness/atpcs/instrument.go:
//     a yield point before every statement, abstract-state snapshots at the end of every critical
//     section, events for decode/encode/goroutine start) and builds the session driver
//     (cmd/atpclientsession) against it with `go build -tags verif -overlay`; nothing is written
//     into the repository;
//  2. runs scripted sessions of the real client against a scripted server over an unbuffered pipe
//     and over a buffered pipe with arbitrary chunking, each session once undisturbed and then once
//     per yield point it executes with that point delayed (thorough: also pairs), plus - for C08 -
//     the server-to-client byte stream cut / failing / corrupted at byte offsets, bad versions,
//     bad schema, and a failing write side;
//  3. applies the direct oracle (Execute that does not return, success without an intact work-done
//     of the same run, panic, Close that does not return, goroutines left after Close) ->
//     findings.jsonl, and translates every recorded history into labels of the Lean model ->
//     cases.jsonl (op ATP_CLIENT_TRACE) with the implementation's verdict in go.jsonl, for the
//     trace-inclusion check of the Lean driver.

import (
	"bufio"
	"bytes"
	"encoding/json"
	"fmt"
	"math/rand"
	"os"
	"os/exec"
	"path/filepath"
	"runtime"
	"sort"
	"strconv"
	"strings"
	"sync"
	"time"

	"harness/atpcs"
)

func init() {
	register("atpclient", func(a Args) { atpcMain(a) })
}

type atpcBuild struct {
	dir     string
	exe     string
	points  []atpcs.Point
	repoDir string
}

func atpcGoEnv() []string {
	env := os.Environ()
	env = append(env, "GOFLAGS=-mod=mod", "GOPROXY=off", "GOSUMDB=off", "GOTOOLCHAIN=local", "CGO_ENABLED=0")
	return env
}

// atpcHarnessDir finds the harness module (the orchestrator runs us with it as working directory).
func atpcHarnessDir() string {
	if d := os.Getenv("VERIF_HARNESS_DIR"); d != "" {
		return d
	}
	d, _ := os.Getwd()
	for x := d; x != "/" && x != "."; x = filepath.Dir(x) {
		if b, err := os.ReadFile(filepath.Join(x, "go.mod")); err == nil && strings.HasPrefix(string(b), "module harness") {
			return x
		}
	}
	return "/verif/harness"
}

// atpcRepoDir asks the go command where the SDK under test lives (the module's replace target).
func atpcRepoDir(harnessDir string) string {
	if d := os.Getenv("VERIF_REPO_DIR"); d != "" {
		return d
	}
	cmd := exec.Command("go", "list", "-m", "-f", "{{.Dir}}", "go.flow.arcalot.io/pluginsdk")
	cmd.Dir = harnessDir
	cmd.Env = atpcGoEnv()
	out, err := cmd.Output()
	if err == nil && strings.TrimSpace(string(out)) != "" {
		return strings.TrimSpace(string(out))
	}
	return "/repo"
}

// atpcBuildDriver instruments clientSrc (default: <repo>/atp/client.go) and builds the session driver.
func atpcBuildDriver(clientSrc string) (*atpcBuild, error) {
	hd := atpcHarnessDir()
	repo := atpcRepoDir(hd)
	if clientSrc == "" {
		clientSrc = filepath.Join(repo, "atp", "client.go")
	}
	src, err := os.ReadFile(clientSrc)
	if err != nil {
		return nil, err
	}
	inst, points, err := atpcs.Instrument(src, "client.go")
	if err != nil {
		return nil, fmt.Errorf("instrumenting %s: %w", clientSrc, err)
	}
	dir, err := os.MkdirTemp("", "atpclient-")
	if err != nil {
		return nil, err
	}
	b := &atpcBuild{dir: dir, points: points, repoDir: repo, exe: filepath.Join(dir, "atpclientsession")}
	must := func(e error) {
		if e != nil && err == nil {
			err = e
		}
	}
	must(os.WriteFile(filepath.Join(dir, "client.go"), inst, 0o644))
	must(os.WriteFile(filepath.Join(dir, "zz_verif.go"), []byte(atpcs.SupportFile), 0o644))
	ov := map[string]map[string]string{"Replace": {
		filepath.Join(repo, "atp", "client.go"):   filepath.Join(dir, "client.go"),
		filepath.Join(repo, "atp", "zz_verif.go"): filepath.Join(dir, "zz_verif.go"),
	}}
	// experiments: further files of the repository replaced for the build of the session driver,
	// VERIF_REPO_OVERLAY="schema/object.go=/tmp/x/object.go,..."
	for _, kv := range strings.Split(os.Getenv("VERIF_REPO_OVERLAY"), ",") {
		if i := strings.IndexByte(kv, '='); i > 0 {
			ov["Replace"][filepath.Join(repo, kv[:i])] = kv[i+1:]
		}
	}
	ob, _ := json.Marshal(ov)
	must(os.WriteFile(filepath.Join(dir, "overlay.json"), ob, 0o644))
	if err != nil {
		return nil, err
	}
	cmd := exec.Command("go", "build", "-tags", "verif", "-overlay", filepath.Join(dir, "overlay.json"),
		"-o", b.exe, "./cmd/atpclientsession")
	cmd.Dir = hd
	cmd.Env = atpcGoEnv()
	if out, e := cmd.CombinedOutput(); e != nil {
		return nil, fmt.Errorf("building the instrumented session driver failed: %v\n%s", e, out)
	}
	return b, nil
}

// ---- running jobs ---------------------------------------------------------------------------------

type atpcOutcome struct {
	job    atpcs.Job
	res    *atpcs.JobResult
	crash  string // the worker process died while running this job
	stderr string
}

// atpcRunJobs runs the jobs on a pool of worker processes and hands every outcome to sink (calls are
// serialised; the order is the order of completion).
func atpcRunJobs(b *atpcBuild, jobs []atpcs.Job, workers int, sink func(atpcOutcome)) {
	var mu, sinkMu sync.Mutex
	next := 0
	take := func(n int) (int, int) {
		mu.Lock()
		defer mu.Unlock()
		lo := next
		hi := lo + n
		if hi > len(jobs) {
			hi = len(jobs)
		}
		next = hi
		return lo, hi
	}
	var wg sync.WaitGroup
	for w := 0; w < workers; w++ {
		wg.Add(1)
		go func() {
			defer wg.Done()
			for {
				lo, hi := take(8)
				if lo >= hi {
					return
				}
				// one process per batch; a process that exits early is restarted on the rest
				for lo < hi {
					out := make([]atpcOutcome, hi-lo)
					done := atpcRunBatch(b, jobs[lo:hi], out)
					sinkMu.Lock()
					for _, o := range out[:done] {
						sink(o)
					}
					sinkMu.Unlock()
					lo += done
				}
			}
		}()
	}
	wg.Wait()
}

// atpcRunBatch feeds the batch to one driver process; returns how many jobs were settled.
func atpcRunBatch(b *atpcBuild, jobs []atpcs.Job, out []atpcOutcome) int {
	var in bytes.Buffer
	for _, j := range jobs {
		jb, _ := json.Marshal(j)
		in.Write(jb)
		in.WriteByte('\n')
	}
	cmd := exec.Command(b.exe)
	cmd.Stdin = &in
	var stderr bytes.Buffer
	cmd.Stderr = &stderr
	cmd.Env = append(os.Environ(), "GOTRACEBACK=all")
	stdout, err := cmd.StdoutPipe()
	if err != nil {
		panic(err)
	}
	if err := cmd.Start(); err != nil {
		panic(err)
	}
	sc := bufio.NewScanner(stdout)
	sc.Buffer(make([]byte, 1<<20), 1<<28)
	n := 0
	for sc.Scan() {
		var r atpcs.JobResult
		if e := json.Unmarshal(sc.Bytes(), &r); e != nil {
			continue
		}
		if n < len(jobs) {
			rr := r
			out[n] = atpcOutcome{job: jobs[n], res: &rr}
			n++
		}
	}
	werr := cmd.Wait()
	if n < len(jobs) {
		code := -1
		if ee, ok := werr.(*exec.ExitError); ok {
			code = ee.ExitCode()
		}
		if code == 3 && n > 0 {
			return n // deliberate restart after a failed job (already reported)
		}
		// the process died inside job n
		st := stderr.String()
		if len(st) > 6000 {
			st = st[len(st)-6000:]
		}
		out[n] = atpcOutcome{job: jobs[n], crash: fmt.Sprintf("driver process exited (%v) while running the job", werr), stderr: st}
		n++
	}
	return n
}

// ---- the search -----------------------------------------------------------------------------------

type atpcStats struct {
	Sessions     int            `json:"sessions"`
	Jobs         int            `json:"jobs"`
	DelayJobs    int            `json:"delay_jobs"`
	PairJobs     int            `json:"pair_jobs"`
	FaultJobs    int            `json:"fault_jobs"`
	Points       int            `json:"points_total"`
	PointsHit    int            `json:"points_hit"`
	PointsNever  []string       `json:"points_never_hit"`
	Traces       int            `json:"traces"`
	Labels       int            `json:"labels"`
	LabelKinds   map[string]int `json:"label_kinds"`
	Verdicts     map[string]int `json:"verdicts"`
	Findings     int            `json:"findings"`
	ByClass      map[string]int `json:"jobs_by_class"`
	Seconds      float64        `json:"seconds"`
	BuildSeconds float64        `json:"build_seconds"`
	ClientSrc    string         `json:"client_src"`
	Workers      int            `json:"workers"`
	Untranslated int            `json:"untranslatable_histories"`
}

func atpcMain(a Args) {
	t0 := time.Now()
	if err := os.MkdirAll(a.Out, 0o755); err != nil {
		panic(err)
	}
	clientSrc := os.Getenv("VERIF_ATP_CLIENT_SRC") // experiments: instrument another copy of client.go
	b, err := atpcBuildDriver(clientSrc)
	if err != nil {
		fmt.Fprintln(os.Stderr, err)
		os.Exit(1)
	}
	defer os.RemoveAll(b.dir)
	buildSecs := time.Since(t0).Seconds()
	pinned := os.Getenv("VERIF_ATP_PINNED") == "1"
	thorough := a.Tier == "thorough"
	streams := map[string]bool{}
	for _, s := range strings.Split(a.Streams, ",") {
		streams[strings.TrimSpace(s)] = true
	}
	if streams["valid"] || streams["random"] || a.Streams == "" { // the orchestrator's default
		streams = map[string]bool{"c06": true, "c08": true}
	}
	rng := rand.New(rand.NewSource(a.Seed))
	workers := runtime.NumCPU() * 3
	if w, e := strconv.Atoi(os.Getenv("VERIF_ATP_WORKERS")); e == nil && w > 0 {
		workers = w
	}
	st := &atpcStats{LabelKinds: map[string]int{}, Verdicts: map[string]int{}, ByClass: map[string]int{},
		Points: len(b.points), BuildSeconds: buildSecs, Workers: workers, ClientSrc: clientSrc}
	s := newSink(a.Out)
	defer s.close()

	var jobs []atpcs.Job
	class := map[int]string{}
	add := func(j atpcs.Job, c string) {
		j.ID = len(jobs)
		if j.TimeoutMs == 0 {
			j.TimeoutMs = 3000
		}
		jobs = append(jobs, j)
		class[j.ID] = c
		st.ByClass[c]++
	}
	delayMs := 25
	if thorough {
		delayMs = 40
	}
	hitPoints := map[int]bool{}

	if a.Replay != "" {
		for _, j := range atpcReplayJobs(a.Replay) {
			add(j, "replay")
		}
	} else {
		// -- C06: healthy sessions x schedules
		if streams["c06"] {
			sessions := atpcs.HealthySessions(rng, thorough)
			st.Sessions += len(sessions)
			// pass 1: undisturbed, both transports, several chunk seeds
			var base []atpcs.Job
			for _, ss := range sessions {
				base = append(base, atpcs.Job{Session: ss, Transport: "pipe", WriteFailAfter: -1})
				for k := 0; k < 3; k++ {
					base = append(base, atpcs.Job{Session: ss, Transport: "buf", ChunkSeed: rng.Int63(), WriteFailAfter: -1})
				}
			}
			for i := range base {
				base[i].ID = i
				base[i].TimeoutMs = 3000
			}
			// pass 2: every point a session executes, delayed singly
			hitsOf := map[string]map[int]bool{}
			atpcRunJobs(b, base, workers, func(o atpcOutcome) {
				if o.res == nil {
					return
				}
				m := hitsOf[o.job.Session.Name]
				if m == nil {
					m = map[int]bool{}
					hitsOf[o.job.Session.Name] = m
				}
				for p := range o.res.Hits {
					n, _ := strconv.Atoi(p)
					m[n] = true
					hitPoints[n] = true
				}
			})
			for _, j := range base {
				add(j, "c06-base")
			}
			budget := 12000
			if thorough {
				budget = 1 << 30
			}
			type sp struct {
				s atpcs.Session
				p int
			}
			var singles []sp
			for _, ss := range sessions {
				var ps []int
				for p := range hitsOf[ss.Name] {
					ps = append(ps, p)
				}
				sort.Ints(ps)
				for _, p := range ps {
					singles = append(singles, sp{ss, p})
				}
			}
			if len(singles) > budget {
				// stratified: keep every (session, function) pair represented, fill up at random
				rng.Shuffle(len(singles), func(i, j int) { singles[i], singles[j] = singles[j], singles[i] })
				seen := map[string]bool{}
				var keep, rest []sp
				for _, x := range singles {
					k := x.s.Name + "/" + b.points[x.p-1].Fn
					if !seen[k] {
						seen[k] = true
						keep = append(keep, x)
					} else {
						rest = append(rest, x)
					}
				}
				for _, x := range rest {
					if len(keep) >= budget {
						break
					}
					keep = append(keep, x)
				}
				singles = keep
			}
			for i, x := range singles {
				tr := "pipe"
				if i%4 == 3 {
					tr = "buf"
				}
				add(atpcs.Job{Session: x.s, Transport: tr, ChunkSeed: rng.Int63(), WriteFailAfter: -1,
					Delays: []atpcs.Delay{{Point: x.p, Ms: delayMs, Max: 6}}}, "c06-delay1")
				st.DelayJobs++
			}
			if thorough {
				// pairs: all pairs of points for a core of sessions; for the others all pairs of points
				// in the functions that register, wait, deliver, decide to exit and close
				core := map[string]bool{"serial-2": true, "serial-3": true, "overlap-2-12": true, "overlap-2-21": true, "eager-2": true,
					"staggered-2": true, "signals-closed": true, "err-serverfatal": true, "close-pending": true, "close-race": true,
					"late-nonfatal": true, "duplicate-run": true}
				hot := map[string]bool{"Execute": true, "prepareResultChannels": true, "getResultV2": true, "executeReadLoop": true,
					"hasEntriesRemaining": true, "sendErrorToAll": true, "sendErrorToAllAndStopReading": true, "handleErrorMessage": true,
					"handleWorkDoneMessage": true, "sendExecutionResult": true, "Close": true, "removeResultChannels": true}
				for _, ss := range sessions {
					var ps []int
					for p := range hitsOf[ss.Name] {
						if core[ss.Name] || hot[b.points[p-1].Fn] {
							ps = append(ps, p)
						}
					}
					sort.Ints(ps)
					for i := 0; i < len(ps); i++ {
						for j := i + 1; j < len(ps); j++ {
							add(atpcs.Job{Session: ss, Transport: "pipe", WriteFailAfter: -1,
								Delays: []atpcs.Delay{{Point: ps[i], Ms: delayMs, Max: 4}, {Point: ps[j], Ms: delayMs, Max: 4}}}, "c06-delay2")
							st.PairJobs++
						}
					}
				}
			}
		}
		// -- C06: deterministic witnesses of a write under the client mutex meeting a server that
		// stops reading (unbuffered pipe; the buffered pipe is the control: it must always pass)
		if streams["c06"] {
			firstPoint := func(fn string) int {
				for _, p := range b.points {
					if p.Fn == fn {
						return p.ID
					}
				}
				return 0
			}
			for _, ss := range append(atpcs.BackpressureSessions(), atpcs.SignalEchoWitnesses()...) {
				st.Sessions++
				var ds []atpcs.Delay
				if p := firstPoint(ss.DelayFn); p > 0 {
					ds = []atpcs.Delay{{Point: p, Ms: ss.DelayMs, Max: 16}}
				}
				add(atpcs.Job{Session: ss, Transport: "pipe", WriteFailAfter: -1, Delays: ds}, "c06-witness")
				add(atpcs.Job{Session: ss, Transport: "buf", ChunkSeed: rng.Int63(), WriteFailAfter: -1, Delays: ds}, "c06-witness-control")
			}
		}
		// -- C06, thorough tier: sessions that take seconds by design
		if streams["c06"] && thorough {
			for _, ss := range atpcs.SlowSessions() {
				st.Sessions++
				for _, t := range []string{"pipe", "buf"} {
					add(atpcs.Job{Session: ss, Transport: t, ChunkSeed: rng.Int63(), WriteFailAfter: -1, TimeoutMs: 9000}, "c06-slow")
				}
			}
		}
		// -- C08: damaged streams
		if streams["c08"] {
			for _, fj := range atpcs.FaultJobs(rng, thorough) {
				add(fj.Job, fj.Class)
				st.FaultJobs++
			}
		}
	}
	// experiments: VERIF_ATP_ONLY_CLASS=c06-slow,c08-sigfail keeps only the jobs of those classes
	if only := os.Getenv("VERIF_ATP_ONLY_CLASS"); only != "" {
		keep := map[string]bool{}
		for _, c := range strings.Split(only, ",") {
			keep[strings.TrimSpace(c)] = true
		}
		var kept []atpcs.Job
		newClass := map[int]string{}
		for _, j := range jobs {
			if keep[class[j.ID]] {
				c := class[j.ID]
				j.ID = len(kept)
				newClass[j.ID] = c
				kept = append(kept, j)
			}
		}
		jobs, class = kept, newClass
	}
	// Jobs that take seconds by design (Close's own 5 s timeout, silent peers) are spread over the
	// list: a worker process runs its batch sequentially.
	{
		slowClass := map[string]bool{"c08-sigslow": true, "c08-wfail": true, "c06-witness": true, "c08-twosessions": true, "c06-slow": true}
		var fast, slow []atpcs.Job
		for _, j := range jobs {
			if slowClass[class[j.ID]] {
				slow = append(slow, j)
			} else {
				fast = append(fast, j)
			}
		}
		if len(slow) > 0 && len(fast) > 0 {
			var mixed []atpcs.Job
			k := 0
			for i, j := range fast {
				for k < len(slow) && k*len(fast)/len(slow) <= i {
					mixed = append(mixed, slow[k])
					k++
				}
				mixed = append(mixed, j)
			}
			mixed = append(mixed, slow[k:]...)
			newClass := map[int]string{}
			for i := range mixed {
				newClass[i] = class[mixed[i].ID]
				mixed[i].ID = i
			}
			jobs, class = mixed, newClass
		}
	}
	st.Jobs = len(jobs)

	// ---- run and evaluate
	atpcRunJobs(b, jobs, workers, func(o atpcOutcome) {
		cl := class[o.job.ID]
		if o.res != nil {
			for p := range o.res.Hits {
				n, _ := strconv.Atoi(p)
				hitPoints[n] = true
			}
		}
		s.nextID++
		id := s.nextID
		desc := atpcDescribe(b, o.job)
		if o.res == nil {
			// the driver process died: a panic in one of the client's own goroutines, or a fatal error
			prop := "C08"
			if o.job.Session.Healthy && o.job.Fault == nil && o.job.WriteFailAfter < 0 {
				prop = "C06"
			}
			what := "the process running the client died: " + o.crash
			if strings.Contains(o.stderr, "panic:") {
				i := strings.Index(o.stderr, "panic:")
				e := i + 300
				if e > len(o.stderr) {
					e = len(o.stderr)
				}
				what = "client goroutine panicked: " + strings.ReplaceAll(o.stderr[i:e], "\n", " | ")
			}
			s.finding(Finding{Prop: prop, What: what, Cases: []int{id}, Detail: []string{desc, o.stderr}})
			st.Findings++
			st.Verdicts["crash"]++
			cb, _ := json.Marshal(map[string]any{"id": id, "op": "ATP_CLIENT_TRACE", "pinned": pinned, "labels": []any{},
				"session": o.job.Session.Name, "class": cl, "job": o.job, "note": "driver crashed"})
			s.cases.Write(cb)
			s.cases.WriteByte('\n')
			s.results.WriteString(`{"r":"crash"}` + "\n")
			return
		}
		st.Verdicts[o.res.Verdict]++
		for _, p := range o.res.Problems {
			s.finding(Finding{Prop: p.Prop, What: p.What, Cases: []int{id},
				Detail: []string{desc, "run=" + p.Run, "verdict=" + o.res.Verdict}})
			st.Findings++
		}
		labels, terr := atpcs.Translate(o.job, o.res.Events, pinned)
		if terr != nil {
			st.Untranslated++
			s.finding(Finding{Prop: "harness", What: "history could not be translated: " + terr.Error(), Cases: []int{id}, Detail: []string{desc}})
		}
		for _, l := range labels {
			if k, ok := l["l"].(string); ok {
				st.LabelKinds[k]++
			}
		}
		st.Labels += len(labels)
		st.Traces++
		c := map[string]any{"id": id, "op": "ATP_CLIENT_TRACE", "pinned": pinned, "labels": labels,
			"session": o.job.Session.Name, "class": cl, "job": o.job}
		cb, _ := json.Marshal(c)
		s.cases.Write(cb)
		s.cases.WriteByte('\n')
		r := "ok"
		if o.res.Verdict != "ok" {
			r = o.res.Verdict
		}
		s.results.WriteString(`{"r":"` + r + `"}` + "\n")
		if os.Getenv("VERIF_ATP_DUMP") != "" && (o.res.Verdict != "ok" || os.Getenv("VERIF_ATP_DUMP") == "all") {
			eb, _ := json.MarshalIndent(o.res.Events, "", " ")
			_ = os.WriteFile(filepath.Join(a.Out, fmt.Sprintf("events-%d.json", id)), eb, 0o644)
		}
	})
	for _, p := range b.points {
		if hitPoints[p.ID] {
			st.PointsHit++
		} else {
			st.PointsNever = append(st.PointsNever, fmt.Sprintf("%d:%s:%d", p.ID, p.Fn, p.Line))
		}
	}
	st.Seconds = time.Since(t0).Seconds()
	sb, _ := json.MarshalIndent(map[string]any{"harness": s.stats, "atpclient": st}, "", " ")
	_ = os.WriteFile(filepath.Join(a.Out, "stats.json"), sb, 0o644)
	pb, _ := json.MarshalIndent(b.points, "", " ")
	_ = os.WriteFile(filepath.Join(a.Out, "points.json"), pb, 0o644)
	fmt.Fprintf(os.Stderr, "atpclient: %d jobs (%d single-delay, %d pair, %d fault), %d traces, %d findings, %.1fs\n",
		st.Jobs, st.DelayJobs, st.PairJobs, st.FaultJobs, st.Traces, st.Findings, st.Seconds)
}

func atpcDescribe(b *atpcBuild, j atpcs.Job) string {
	var sb strings.Builder
	fmt.Fprintf(&sb, "session=%s transport=%s", j.Session.Name, j.Transport)
	for _, d := range j.Delays {
		if d.Point >= 1 && d.Point <= len(b.points) {
			p := b.points[d.Point-1]
			fmt.Fprintf(&sb, " delay %dms at point %d (%s, client.go:%d, %s)", d.Ms, d.Point, p.Fn, p.Line, p.Kind)
		}
	}
	if j.Fault != nil {
		fmt.Fprintf(&sb, " fault=%s@%d(0x%02x)", j.Fault.Kind, j.Fault.Off, j.Fault.Val)
	}
	if j.WriteFailAfter >= 0 {
		if j.WriteFailOnce {
			fmt.Fprintf(&sb, " write %d fails (only that one)", j.WriteFailAfter+1)
		} else {
			fmt.Fprintf(&sb, " writes fail after %d", j.WriteFailAfter)
		}
	}
	if j.PreHello != "" {
		fmt.Fprintf(&sb, " after-another-client-rejected-hello=%s", j.PreHello)
	}
	if j.Session.Marker != "" {
		fmt.Fprintf(&sb, " marker=%s", j.Session.Marker)
	}
	return sb.String()
}

// atpcReplayJobs reads the jobs back from a cases.jsonl written earlier.
func atpcReplayJobs(path string) []atpcs.Job {
	f, err := os.Open(path)
	if err != nil {
		panic(err)
	}
	defer f.Close()
	var out []atpcs.Job
	sc := bufio.NewScanner(f)
	sc.Buffer(make([]byte, 1<<20), 1<<28)
	for sc.Scan() {
		var c struct {
			Op  string     `json:"op"`
			Job *atpcs.Job `json:"job"`
		}
		if json.Unmarshal(sc.Bytes(), &c) == nil && c.Op == "ATP_CLIENT_TRACE" && c.Job != nil {
			out = append(out, *c.Job)
		}
	}
	return out
}
