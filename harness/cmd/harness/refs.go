package main

// Sub-command `refs` (property C14): references resolve lexically; inlining never changes behaviour.
//
// Stream "link": generated scope trees - nested scopes whose object IDs COLLIDE across levels,
// references below properties / list items / map values / one-of members / inline objects, 1..3
// external namespaces with their own scopes, recursive and mutually recursive objects, dangling
// references - are built through the public constructors (NewScopeSchema, NewNamespacedRefSchema),
// then a random subset of the namespaces is applied in a random order. For every reference the
// linked object is observed by pointer identity (ObjectReady / GetObject) and reported as
// (owner tree, path of the scope holding the object, object ID). Compared with
//   - the Lean model (op LINK, line by line), and
//   - an oracle computed here from the tree description alone (lexical lookup),
// plus ValidateReferences() == nil  <=>  every reference linked, and order independence.
//
// Stream "behave": scopes that use the self namespace only are built (a) as they are and (b) with
// references mechanically replaced by the objects they denote, to unfolding depth 1..3 (recursive
// objects are unfolded finitely, references stay at the leaves). Unserialize / Validate / Serialize
// run on both with generated inputs, including deeply recursive ones; any difference in verdict or
// value is a finding. All of these runs are also ordinary U/V/S cases for the model.
//
// Stream "shared" (not run by default; a recorded limitation, see the report): one *ObjectSchema
// placed into two scopes - the later NewScopeSchema relinks the object's references.

import (
	"encoding/json"
	"fmt"
	"os"
	"sort"
	"strings"

	"go.flow.arcalot.io/pluginsdk/schema"
	"harness/hx"
)

func init() {
	register("refs", func(a Args) { refsCmd(a) })
}

// ---------------------------------------------------------------------------------------------
// link trees

type lkid struct {
	Name string
	N    *lnode
}

func (k lkid) MarshalJSON() ([]byte, error) { return json.Marshal([]any{k.Name, k.N}) }

// lnode is the JSON form of Arca.Link.LTy.
type lnode struct {
	T       string `json:"t"`
	ID      string `json:"id"`
	NS      string `json:"ns,omitempty"`
	Item    *lnode `json:"item,omitempty"`
	K       *lnode `json:"k,omitempty"`
	V       *lnode `json:"v,omitempty"`
	Props   []lkid `json:"props,omitempty"`
	Disc    string `json:"disc,omitempty"`
	Members []lkid `json:"members,omitempty"`
	Objs    []lkid `json:"objs,omitempty"`
	Root    string `json:"root,omitempty"`
	// names of the properties marked disabled (PropertySchema.Disable). Linking and
	// ValidateReferences do not look at the flag, so the model ignores this field.
	Disabled []string `json:"disabled,omitempty"`
}

func (n *lnode) isDisabled(name string) bool {
	for _, d := range n.Disabled {
		if d == name {
			return true
		}
	}
	return false
}

type extTree struct {
	NS   string
	Tree *lnode
}

func (e extTree) MarshalJSON() ([]byte, error) { return json.Marshal([]any{e.NS, e.Tree}) }

type linkCase struct {
	ID     int       `json:"id"`
	Op     string    `json:"op"`
	Schema *struct{} `json:"schema"` // always null: the orchestrator's diff printer reads this key
	Tree   *lnode    `json:"tree"`
	Ext    []extTree `json:"ext"`
	Order  []string  `json:"order"`
	Note   string    `json:"note,omitempty"`
}

type linkObs struct {
	Refs   [][2]any `json:"refs"` // [path, null | [owner, scopePath, id]]
	Valid0 bool     `json:"valid0"`
	Valid  bool     `json:"valid"`
}

type linkResult struct {
	R   string   `json:"r"`
	V   *linkObs `json:"v,omitempty"`
	Msg string   `json:"msg,omitempty"`
}

var linkIDs = []string{"A", "B", "C", "D"}
var linkProps = []string{"p", "q", "r", "s", "u"}

type linkGen struct {
	g       *hx.Gen
	nss     []string // external namespaces of this case
	extIDs  map[string][]string
	dangle  float64 // probability of a dangling reference
	maxDeep int
}

func (lg *linkGen) pickIDs() []string {
	ids := append([]string{}, linkIDs...)
	lg.g.R.Shuffle(len(ids), func(i, j int) { ids[i], ids[j] = ids[j], ids[i] })
	return ids[:1+lg.g.R.Intn(3)]
}

// scope: objects with >= 2 properties whose types may refer to each other and to themselves.
func (lg *linkGen) scope(depth int, outer []string, allowNS bool) *lnode {
	return lg.scopeWithIDs(lg.pickIDs(), depth, outer, allowNS)
}

func (lg *linkGen) scopeWithIDs(ids []string, depth int, outer []string, allowNS bool) *lnode {
	n := &lnode{T: "scope", Root: ids[0]}
	for _, id := range ids {
		n.Objs = append(n.Objs, lkid{id, lg.object(id, depth, ids, outer, allowNS, 2)})
	}
	return n
}

func (lg *linkGen) object(id string, depth int, ids, outer []string, allowNS bool, minProps int) *lnode {
	o := &lnode{T: "obj", ID: id}
	names := append([]string{}, linkProps...)
	lg.g.R.Shuffle(len(names), func(i, j int) { names[i], names[j] = names[j], names[i] })
	k := minProps + lg.g.R.Intn(3)
	for _, name := range names[:k] {
		o.Props = append(o.Props, lkid{name, lg.ty(depth+1, ids, outer, allowNS)})
		if lg.g.R.Intn(7) == 0 {
			o.Disabled = append(o.Disabled, name)
		}
	}
	return o
}

func (lg *linkGen) selfRef(ids, outer []string) *lnode {
	r := lg.g.R
	if len(ids) == 0 {
		// outside every scope: stays unlinked
		return &lnode{T: "ref", ID: linkIDs[r.Intn(len(linkIDs))]}
	}
	if r.Float64() < lg.dangle {
		// an ID of the OUTER scope that the nearest scope does not have, or one nobody has
		var cands []string
		for _, o := range outer {
			found := false
			for _, i := range ids {
				if i == o {
					found = true
				}
			}
			if !found {
				cands = append(cands, o)
			}
		}
		if len(cands) > 0 && r.Intn(3) > 0 {
			return &lnode{T: "ref", ID: cands[r.Intn(len(cands))]}
		}
		if r.Intn(4) == 0 {
			return &lnode{T: "ref", ID: ""} // a reference with no ID at all
		}
		return &lnode{T: "ref", ID: "Zz"}
	}
	return &lnode{T: "ref", ID: ids[r.Intn(len(ids))]}
}

func (lg *linkGen) nsRef() *lnode {
	r := lg.g.R
	ns := lg.nss[r.Intn(len(lg.nss))]
	ids := lg.extIDs[ns]
	if r.Float64() < lg.dangle {
		return &lnode{T: "ref", ID: "Zz", NS: ns}
	}
	return &lnode{T: "ref", ID: ids[r.Intn(len(ids))], NS: ns}
}

func (lg *linkGen) objectLike(depth int, ids, outer []string, allowNS bool) *lnode {
	r := lg.g.R
	switch x := r.Intn(10); {
	case x < 4:
		return lg.selfRef(ids, outer)
	case x < 6 && allowNS && len(lg.nss) > 0:
		return lg.nsRef()
	case x < 8 || depth >= lg.maxDeep:
		return lg.object(fmt.Sprintf("I%d", r.Intn(100)), depth, ids, outer, allowNS, 1)
	default:
		return lg.scope(depth+1, ids, allowNS)
	}
}

// wrappedRef: a reference below a list, below one to three further containers (list of lists, map of
// lists, a list inside an inline object or inside the object member of a one-of).
func (lg *linkGen) wrappedRef(ids, outer []string, allowNS bool) *lnode {
	r := lg.g.R
	var n *lnode
	if allowNS && len(lg.nss) > 0 && r.Intn(5) < 3 {
		n = lg.nsRef()
	} else {
		n = lg.selfRef(ids, outer)
	}
	n = &lnode{T: "list", Item: n}
	for i := r.Intn(3); i > 0; i-- {
		switch r.Intn(4) {
		case 0:
			n = &lnode{T: "list", Item: n}
		case 1:
			n = &lnode{T: "map", K: &lnode{T: "leaf"}, V: n}
		case 2:
			n = &lnode{T: "obj", ID: fmt.Sprintf("W%d", r.Intn(100)), Props: []lkid{{"w", n}, {"z", &lnode{T: "leaf"}}}}
		default:
			n = &lnode{T: "oneOf", Disc: "_t", Members: []lkid{{"m0",
				&lnode{T: "obj", ID: fmt.Sprintf("W%d", r.Intn(100)), Props: []lkid{{"w", n}, {"z", &lnode{T: "leaf"}}}}}}}
		}
	}
	return n
}

func (lg *linkGen) ty(depth int, ids, outer []string, allowNS bool) *lnode {
	r := lg.g.R
	if depth >= lg.maxDeep+2 {
		switch {
		case r.Intn(2) == 0:
			return &lnode{T: "leaf"}
		case allowNS && len(lg.nss) > 0 && r.Intn(2) == 0:
			return lg.nsRef()
		}
		return lg.selfRef(ids, outer)
	}
	if r.Intn(8) == 0 {
		return lg.wrappedRef(ids, outer, allowNS)
	}
	switch x := r.Intn(100); {
	case x < 22:
		return &lnode{T: "leaf"}
	case x < 42:
		return lg.selfRef(ids, outer)
	case x < 54:
		if allowNS && len(lg.nss) > 0 {
			return lg.nsRef()
		}
		return lg.selfRef(ids, outer)
	case x < 64:
		return &lnode{T: "list", Item: lg.ty(depth+1, ids, outer, allowNS)}
	case x < 72:
		return &lnode{T: "map", K: &lnode{T: "leaf"}, V: lg.ty(depth+1, ids, outer, allowNS)}
	case x < 82:
		n := &lnode{T: "oneOf", Disc: "_t"}
		for i := 0; i < 1+r.Intn(3); i++ {
			n.Members = append(n.Members, lkid{fmt.Sprintf("m%d", i), lg.objectLike(depth+1, ids, outer, allowNS)})
		}
		return n
	case x < 90:
		return lg.object(fmt.Sprintf("I%d", r.Intn(100)), depth, ids, outer, allowNS, 1)
	default:
		if depth >= lg.maxDeep {
			return lg.selfRef(ids, outer)
		}
		return lg.scope(depth+1, ids, allowNS)
	}
}

// ---------------------------------------------------------------------------------------------
// building link trees through the public constructors, with identities

type objAddr struct {
	Owner, Scope, ID string
}

type refRec struct {
	path string
	ref  *schema.RefSchema
}

type linkBuilder struct {
	objs map[*schema.ObjectSchema]objAddr
	refs []refRec
}

func pstr(p []string) string { return strings.Join(p, "/") }

func with(p []string, seg ...string) []string {
	out := make([]string, 0, len(p)+len(seg))
	out = append(out, p...)
	return append(out, seg...)
}

func (b *linkBuilder) prop(t schema.Type) *schema.PropertySchema {
	return schema.NewPropertySchema(t, nil, false, nil, nil, nil, nil, nil)
}

func (b *linkBuilder) object(n *lnode, owner string, p []string) *schema.ObjectSchema {
	props := map[string]*schema.PropertySchema{}
	for _, k := range n.Props {
		props[k.Name] = b.prop(b.build(k.N, owner, with(p, k.Name)))
		if n.isDisabled(k.Name) {
			props[k.Name].Disable("harness")
		}
	}
	return schema.NewObjectSchema(n.ID, props)
}

func (b *linkBuilder) build(n *lnode, owner string, p []string) schema.Type {
	switch n.T {
	case "leaf":
		return schema.NewIntSchema(nil, nil, nil)
	case "ref":
		r := schema.NewNamespacedRefSchema(n.ID, n.NS, nil)
		if owner == "" {
			b.refs = append(b.refs, refRec{pstr(p), r})
		}
		return r
	case "list":
		return schema.NewListSchema(b.build(n.Item, owner, with(p, "[]")), nil, nil)
	case "map":
		// the key schema is built first, as the model traverses it first
		k := schema.NewStringSchema(nil, nil, nil)
		return schema.NewMapSchema(k, b.build(n.V, owner, with(p, "{v}")), nil, nil)
	case "obj":
		return b.object(n, owner, p)
	case "oneOf":
		members := map[string]schema.Object{}
		for _, k := range n.Members {
			members[k.Name] = b.build(k.N, owner, with(p, k.Name)).(schema.Object)
		}
		return schema.NewOneOfStringSchema[any](members, n.Disc, false)
	case "scope":
		var root *schema.ObjectSchema
		var others []*schema.ObjectSchema
		for _, k := range n.Objs {
			o := b.object(k.N, owner, with(p, k.Name))
			b.objs[o] = objAddr{owner, pstr(p), k.Name}
			if k.Name == n.Root {
				root = o
			} else {
				others = append(others, o)
			}
		}
		return schema.NewScopeSchema(root, others...)
	}
	panic("harness: bad link node " + n.T)
}

func (b *linkBuilder) observe() [][2]any {
	out := make([][2]any, 0, len(b.refs))
	for _, r := range b.refs {
		if !r.ref.ObjectReady() {
			out = append(out, [2]any{r.path, nil})
			continue
		}
		ptr, ok := r.ref.GetObject().(*schema.ObjectSchema)
		if !ok {
			out = append(out, [2]any{r.path, []string{"?", "?", "not an *ObjectSchema"}})
			continue
		}
		if ptr == nil {
			// "ready", but the link is a typed nil: not linked to anything
			out = append(out, [2]any{r.path, []string{"!", "!", "ObjectReady() but GetObject() is a nil *ObjectSchema"}})
			continue
		}
		a, known := b.objs[ptr]
		if !known {
			out = append(out, [2]any{r.path, []string{"?", "?", "unknown object " + ptr.ID()}})
			continue
		}
		out = append(out, [2]any{r.path, []string{a.Owner, a.Scope, a.ID}})
	}
	return out
}

// runLink builds everything and applies the namespaces in the given order.
func runLink(c *linkCase, order []string) (res linkResult) {
	defer func() {
		if r := recover(); r != nil {
			res = linkResult{R: "panic", Msg: fmt.Sprint(r)}
		}
	}()
	b := &linkBuilder{objs: map[*schema.ObjectSchema]objAddr{}}
	main := b.build(c.Tree, "", nil)
	tables := map[string]map[string]*schema.ObjectSchema{}
	for _, e := range c.Ext {
		sc := b.build(e.Tree, e.NS, nil).(*schema.ScopeSchema)
		tables[e.NS] = sc.Objects()
	}
	obs := &linkObs{Valid0: main.ValidateReferences() == nil}
	for _, ns := range order {
		main.ApplyNamespace(tables[ns], ns)
	}
	obs.Valid = main.ValidateReferences() == nil
	obs.Refs = b.observe()
	return linkResult{R: "ok", V: obs}
}

// ---------------------------------------------------------------------------------------------
// the oracle: lexical lookup computed from the description alone

type lexCtx struct {
	path string
	ids  map[string]bool
}

type oracleRef struct {
	path   string
	target []string // nil = unlinked
}

// oracle returns the expected observation, or panics=true when some lookup must fail.
func oracle(c *linkCase, order []string) (refs []oracleRef, panics bool) {
	applied := map[string]bool{}
	for _, ns := range order {
		applied[ns] = true
	}
	extIDs := map[string]map[string]bool{}
	for _, e := range c.Ext {
		ids := map[string]bool{}
		for _, k := range e.Tree.Objs {
			ids[k.Name] = true
		}
		extIDs[e.NS] = ids
	}
	var walk func(n *lnode, owner string, p []string, ctx *lexCtx)
	walk = func(n *lnode, owner string, p []string, ctx *lexCtx) {
		switch n.T {
		case "ref":
			var target []string
			switch {
			case n.NS == "":
				if ctx != nil {
					if ctx.ids[n.ID] {
						target = []string{owner, ctx.path, n.ID}
					} else {
						panics = true
					}
				}
			case owner == "" && applied[n.NS]:
				if extIDs[n.NS][n.ID] {
					target = []string{n.NS, "", n.ID}
				} else {
					panics = true
				}
			}
			if owner == "" {
				refs = append(refs, oracleRef{pstr(p), target})
			}
		case "list":
			walk(n.Item, owner, with(p, "[]"), ctx)
		case "map":
			walk(n.V, owner, with(p, "{v}"), ctx)
		case "obj":
			for _, k := range n.Props {
				walk(k.N, owner, with(p, k.Name), ctx)
			}
		case "oneOf":
			for _, k := range n.Members {
				walk(k.N, owner, with(p, k.Name), ctx)
			}
		case "scope":
			nc := &lexCtx{path: pstr(p), ids: map[string]bool{}}
			for _, k := range n.Objs {
				nc.ids[k.Name] = true
			}
			for _, k := range n.Objs {
				for _, pk := range k.N.Props {
					walk(pk.N, owner, with(p, k.Name, pk.Name), nc)
				}
			}
		}
	}
	walk(c.Tree, "", nil, nil)
	for _, e := range c.Ext {
		walk(e.Tree, e.NS, nil, nil)
	}
	return refs, panics
}

func sameTarget(a any, b []string) bool {
	if a == nil {
		return b == nil
	}
	as, ok := a.([]string)
	if !ok || b == nil || len(as) != len(b) {
		return false
	}
	for i := range as {
		if as[i] != b[i] {
			return false
		}
	}
	return true
}

type refsSink struct {
	*sink
}

func (s *sink) emitLink(c *linkCase, res linkResult) {
	b, err := json.Marshal(c)
	if err != nil {
		panic(err)
	}
	s.cases.Write(b)
	s.cases.WriteByte('\n')
	res.Msg = ""
	rb, _ := json.Marshal(res)
	s.results.Write(rb)
	s.results.WriteByte('\n')
	s.stats["op:LINK"]++
	s.stats["res:LINK:"+res.R]++
}

func groupLink(s *sink, g *hx.Gen) {
	r := g.R
	lg := &linkGen{g: g, extIDs: map[string][]string{}, maxDeep: 2}
	// most trees have no dangling reference at all; some have a few
	if r.Intn(4) == 0 {
		lg.dangle = 0.08
	}
	c := &linkCase{Op: "LINK"}
	nns := r.Intn(4) // 0..3 external namespaces
	for i := 0; i < nns; i++ {
		ns := []string{"n1", "n2", "n3"}[i]
		lg.nss = append(lg.nss, ns)
	}
	// external scopes first (their IDs are the targets of namespaced references); they use the
	// self namespace only, with IDs from the same pool as the main tree (collisions intended)
	saveNS := lg.nss
	for _, ns := range saveNS {
		lg.nss = nil
		d := lg.dangle
		lg.dangle = 0
		if r.Intn(40) == 0 {
			lg.dangle = 0.1
		}
		t := lg.scope(1, nil, false)
		lg.dangle = d
		var ids []string
		for _, k := range t.Objs {
			ids = append(ids, k.Name)
		}
		lg.extIDs[ns] = ids
		c.Ext = append(c.Ext, extTree{ns, t})
	}
	lg.nss = saveNS
	switch x := r.Intn(20); {
	case x < 17:
		c.Tree = lg.scope(0, nil, true)
	case x == 17:
		c.Tree = &lnode{T: "list", Item: lg.scope(0, nil, true)}
	case x == 18:
		// references outside every scope
		c.Tree = lg.object("Top", 0, nil, nil, true, 2)
	default:
		c.Tree = &lnode{T: "oneOf", Disc: "_t", Members: []lkid{{"m0", lg.scope(0, nil, true)}, {"m1", lg.objectLike(0, nil, nil, true)}}}
	}
	// a random subset of the namespaces in a random order
	var order []string
	for _, ns := range lg.nss {
		if r.Intn(5) > 0 {
			order = append(order, ns)
		}
	}
	r.Shuffle(len(order), func(i, j int) { order[i], order[j] = order[j], order[i] })
	c.Order = order
	if c.Ext == nil {
		c.Ext = []extTree{}
	}
	if c.Order == nil {
		c.Order = []string{}
	}

	s.nextID++
	c.ID = s.nextID
	res := runLink(c, order)
	s.emitLink(c, res)

	// oracle
	want, wantPanic := oracle(c, order)
	s.stats[fmt.Sprintf("link:namespaces:%d", nns)]++
	s.stats[fmt.Sprintf("link:applied:%d", len(order))]++
	s.stats["link:refs"] += len(want)
	if wantPanic {
		s.stats["link:expected-panic"]++
	}
	detail := func() []string {
		cb, _ := json.Marshal(c)
		rb, _ := json.Marshal(res)
		return []string{string(cb), string(rb)}
	}
	switch {
	case wantPanic && res.R != "panic":
		s.finding(Finding{Prop: "C14", What: "a reference whose ID is missing from the table it must be looked up in did not panic (it was linked elsewhere or left unlinked)", Cases: []int{c.ID}, Detail: detail()})
		return
	case !wantPanic && res.R == "panic":
		s.finding(Finding{Prop: "C14", What: "linking panicked although every reference has its target: " + res.Msg, Cases: []int{c.ID}, Detail: detail()})
		return
	case wantPanic:
		return
	}
	allLinked := true
	if len(want) != len(res.V.Refs) {
		s.finding(Finding{Prop: "C14", What: "harness: reference count mismatch", Cases: []int{c.ID}, Detail: detail()})
		return
	}
	for i, w := range want {
		got := res.V.Refs[i]
		if got[0] != w.path || !sameTarget(got[1], w.target) {
			s.finding(Finding{Prop: "C14", What: fmt.Sprintf("reference at %s does not denote the object lexical lookup gives: want %v, got %v", w.path, w.target, got[1]), Cases: []int{c.ID}, Detail: detail()})
			return
		}
		if w.target == nil {
			allLinked = false
		} else {
			s.stats["link:linked"]++
			if w.target[0] != "" {
				s.stats["link:linked-external"]++
			} else if w.target[1] != "" {
				s.stats["link:linked-inner-scope"]++
			}
		}
	}
	if res.V.Valid != allLinked {
		s.finding(Finding{Prop: "C14", What: fmt.Sprintf("ValidateReferences succeeds = %v, but every reference linked = %v", res.V.Valid, allLinked), Cases: []int{c.ID}, Detail: detail()})
	}
	if allLinked {
		s.stats["link:fully-linked"]++
	}
	// order independence, directly: the reverse order and one more shuffle
	if len(order) > 1 {
		rev := make([]string, len(order))
		for i, ns := range order {
			rev[len(order)-1-i] = ns
		}
		other := runLink(c, rev)
		ob, _ := json.Marshal(other.V)
		rb, _ := json.Marshal(res.V)
		if other.R != res.R || string(ob) != string(rb) {
			s.finding(Finding{Prop: "C14", What: "the order in which namespaces are applied changes the links", Cases: []int{c.ID}, Detail: append(detail(), string(ob))})
		}
		s.stats["link:reordered"]++
	}
}

// ---------------------------------------------------------------------------------------------
// behaviour: a scope against the same scope with references inlined

var behIDs = []string{"A", "B", "C"}

type behGen struct {
	g       *hx.Gen
	maxDeep int
}

func (bg *behGen) scalar() *hx.Ty {
	// scalars whose accepted values are easy to hit, plus the library's own mix
	switch bg.g.R.Intn(5) {
	case 0:
		return &hx.Ty{T: "int", Min: hx.IntP(0), Max: hx.IntP(50)}
	case 1:
		return &hx.Ty{T: "str", Max: hx.IntP(8)}
	case 2:
		return &hx.Ty{T: "bool"}
	default:
		return bg.g.Scalar()
	}
}

func (bg *behGen) scope(depth int) *hx.Ty {
	r := bg.g.R
	ids := append([]string{}, behIDs...)
	r.Shuffle(len(ids), func(i, j int) { ids[i], ids[j] = ids[j], ids[i] })
	ids = ids[:1+r.Intn(3)]
	t := &hx.Ty{T: "scope", Root: ids[0]}
	for _, id := range ids {
		t.Objs = append(t.Objs, hx.NamedObj{ID: id, Ty: bg.object(id, depth, ids, 2)})
	}
	return t
}

func hasRef(t *hx.Ty) bool {
	found := false
	var walk func(x *hx.Ty)
	walk = func(x *hx.Ty) {
		if x == nil || found {
			return
		}
		switch x.T {
		case "ref":
			found = true
		case "list", "map", "oneOf":
			// a list / map may be empty and a one-of is a choice, but a value still has to be given;
			// keep such properties optional too
			found = true
		case "obj":
			for _, p := range x.Props {
				walk(p.P.Ty)
			}
		case "scope":
			// self-contained
		}
	}
	walk(t)
	return found
}

func (bg *behGen) object(id string, depth int, ids []string, minProps int) *hx.Ty {
	r := bg.g.R
	o := &hx.Ty{T: "obj", ID: id}
	names := []string{"a", "b", "c", "d", "e"}
	r.Shuffle(len(names), func(i, j int) { names[i], names[j] = names[j], names[i] })
	k := minProps + r.Intn(3)
	if k > len(names) {
		k = len(names)
	}
	for i, name := range names[:k] {
		var pt *hx.Ty
		if i == 0 {
			pt = bg.scalar() // every object has a scalar property: finite values exist
		} else {
			pt = bg.ty(depth+1, ids)
		}
		p := &hx.Prop{Ty: pt}
		if !hasRef(pt) {
			if r.Intn(3) == 0 {
				p.Required = true
			}
			if !p.Required && r.Intn(3) == 0 {
				// objects that merely share an ID (across nested scopes) declare DIFFERENT defaults
				p.Default = randomDefault(r, pt)
			}
		} else if pt.T == "scope" && r.Intn(3) == 0 {
			p.Required = true
		}
		// disabled properties, mostly ones whose type holds references: their references must be
		// linked and validated like all others, and Validate / Serialize / data compatibility (which
		// do not look at the flag first) must treat a value that sets them like the inlined tree does
		if i > 0 && !p.Required && ((hasRef(pt) && r.Intn(5) == 0) || r.Intn(25) == 0) {
			p.Disabled = true
		}
		o.Props = append(o.Props, hx.NamedProp{Name: name, P: p})
	}
	return o
}

func (bg *behGen) ty(depth int, ids []string) *hx.Ty {
	r := bg.g.R
	ref := func() *hx.Ty { return &hx.Ty{T: "ref", ID: ids[r.Intn(len(ids))]} }
	if depth > bg.maxDeep+1 {
		if r.Intn(2) == 0 {
			return bg.scalar()
		}
		return ref()
	}
	switch x := r.Intn(100); {
	case x < 22:
		return bg.scalar()
	case x < 50:
		return ref()
	case x < 62:
		t := &hx.Ty{T: "list", Item: bg.ty(depth+1, ids)}
		if r.Intn(3) == 0 {
			t.Max = hx.IntP(3)
		}
		return t
	case x < 70:
		return &hx.Ty{T: "map", K: &hx.Ty{T: "str"}, V: bg.ty(depth+1, ids)}
	case x < 82:
		t := &hx.Ty{T: "oneOf", Disc: "_type"}
		for i := 0; i < 1+r.Intn(3); i++ {
			var m *hx.Ty
			switch r.Intn(3) {
			case 0:
				m = bg.object(fmt.Sprintf("M%d", r.Intn(100)), depth+1, ids, 1)
			default:
				m = ref()
			}
			t.Members = append(t.Members, hx.Member{Key: fmt.Sprintf("k%d", i), Ty: m})
		}
		return t
	case x < 90:
		return bg.object(fmt.Sprintf("I%d", r.Intn(100)), depth+1, ids, 1)
	default:
		if depth >= bg.maxDeep {
			return ref()
		}
		return bg.scope(depth + 1) // IDs collide with the enclosing scope's on purpose
	}
}

func copyTy(t *hx.Ty) *hx.Ty {
	if t == nil {
		return nil
	}
	c := *t
	c.Item = copyTy(t.Item)
	c.K = copyTy(t.K)
	c.V = copyTy(t.V)
	if t.Props != nil {
		c.Props = make([]hx.NamedProp, len(t.Props))
		for i, p := range t.Props {
			pc := *p.P
			pc.Ty = copyTy(p.P.Ty)
			c.Props[i] = hx.NamedProp{Name: p.Name, P: &pc}
		}
	}
	if t.Members != nil {
		c.Members = make([]hx.Member, len(t.Members))
		for i, m := range t.Members {
			c.Members[i] = hx.Member{Key: m.Key, Ty: copyTy(m.Ty)}
		}
	}
	if t.Objs != nil {
		c.Objs = make([]hx.NamedObj, len(t.Objs))
		for i, o := range t.Objs {
			c.Objs[i] = hx.NamedObj{ID: o.ID, Ty: copyTy(o.Ty)}
		}
	}
	return &c
}

// inlineTy returns t with references replaced by (copies of) the objects they denote in env (the
// ORIGINAL objects of the nearest enclosing scope), to unfolding depth `depth`; each reference is
// inlined with probability prob. Inside an inner scope the scope's own original objects are env.
func inlineTy(g *hx.Gen, t *hx.Ty, env map[string]*hx.Ty, depth int, prob float64, count *int) *hx.Ty {
	if t == nil {
		return nil
	}
	switch t.T {
	case "ref":
		o, ok := env[t.ID]
		if !ok || depth <= 0 || g.R.Float64() >= prob {
			return copyTy(t)
		}
		*count++
		return inlineTy(g, o, env, depth-1, prob, count)
	case "scope":
		env2 := map[string]*hx.Ty{}
		for _, o := range t.Objs {
			env2[o.ID] = o.Ty
		}
		c := *t
		c.Objs = make([]hx.NamedObj, len(t.Objs))
		for i, o := range t.Objs {
			c.Objs[i] = hx.NamedObj{ID: o.ID, Ty: inlineTy(g, o.Ty, env2, depth, prob, count)}
		}
		return &c
	}
	c := *t
	c.Item = inlineTy(g, t.Item, env, depth, prob, count)
	c.K = copyTy(t.K)
	c.V = inlineTy(g, t.V, env, depth, prob, count)
	if t.Props != nil {
		c.Props = make([]hx.NamedProp, len(t.Props))
		for i, p := range t.Props {
			pc := *p.P
			pc.Ty = inlineTy(g, p.P.Ty, env, depth, prob, count)
			c.Props[i] = hx.NamedProp{Name: p.Name, P: &pc}
		}
	}
	if t.Members != nil {
		c.Members = make([]hx.Member, len(t.Members))
		for i, m := range t.Members {
			c.Members[i] = hx.Member{Key: m.Key, Ty: inlineTy(g, m.Ty, env, depth, prob, count)}
		}
	}
	return &c
}

// deepValue builds a raw value for t that follows references for `budget` more levels, so that
// recursive objects are exercised far beyond the library generator's depth. nil = leave out.
func deepValue(g *hx.Gen, t *hx.Ty, env map[string]*hx.Ty, budget int) *hx.Val {
	r := g.R
	switch t.T {
	case "ref":
		o, ok := env[t.ID]
		if !ok || budget <= 0 {
			return nil
		}
		return deepValue(g, o, env, budget-1)
	case "scope":
		env2 := map[string]*hx.Ty{}
		for _, o := range t.Objs {
			env2[o.ID] = o.Ty
		}
		return deepValue(g, env2[t.Root], env2, budget)
	case "obj":
		m := hx.StrAny()
		if r.Intn(3) == 0 {
			m.MK = "any"
		}
		// follow ONE recursive property deeply, the others shallowly
		deep := -1
		var cands []int
		for i, np := range t.Props {
			if hasRef(np.P.Ty) {
				cands = append(cands, i)
			}
		}
		if len(cands) > 0 {
			deep = cands[r.Intn(len(cands))]
		}
		for i, np := range t.Props {
			if np.P.Disabled {
				continue
			}
			b := 0
			if i == deep {
				b = budget
			} else if hasRef(np.P.Ty) {
				if r.Intn(3) > 0 {
					continue
				}
				b = budget / 4
			} else if !np.P.Required && r.Intn(4) == 0 {
				continue
			}
			v := deepValue(g, np.P.Ty, env, b)
			if v == nil {
				continue
			}
			m.M = append(m.M, [2]*hx.Val{hx.Str(np.Name), v})
		}
		return m
	case "list":
		l := &hx.Val{Kind: "l"}
		n := 1
		if r.Intn(4) == 0 {
			n = 2
		}
		for i := 0; i < n; i++ {
			b := budget
			if i > 0 {
				b = budget / 4
			}
			if v := deepValue(g, t.Item, env, b); v != nil {
				l.L = append(l.L, v)
			}
		}
		return l
	case "map":
		m := hx.AnyAny()
		if v := deepValue(g, t.V, env, budget); v != nil {
			m.M = append(m.M, [2]*hx.Val{hx.Str("k"), v})
		}
		return m
	case "oneOf":
		mem := t.Members[r.Intn(len(t.Members))]
		mt := mem.Ty
		if mt.T == "ref" {
			if budget <= 0 {
				return nil
			}
			mt = env[mt.ID]
			budget--
		}
		v := deepValue(g, mt, env, budget)
		if v == nil || v.Kind != "m" {
			return nil
		}
		v.M = append(v.M, [2]*hx.Val{hx.Str(t.Disc), hx.Str(mem.Key)})
		return v
	}
	return goodLeaf(g, t)
}

// goodLeaf draws values for a reference-free schema until the SDK accepts one (a few tries), so
// that deep values are not rejected for an unrelated boundary value somewhere inside.
func goodLeaf(g *hx.Gen, t *hx.Ty) *hx.Val {
	var v *hx.Val
	for i := 0; i < 6; i++ {
		v = g.Value(t, hx.Env{}, 0)
		res := hx.Guard(func() hx.Result { r, _ := hx.RunOpRaw("U", t.Build(), v.ToGo()); return r })
		if res.R == "ok" {
			return v
		}
	}
	return v
}

func cloneValTree(v *hx.Val) *hx.Val {
	if v == nil {
		return nil
	}
	c := *v
	if v.L != nil {
		c.L = make([]*hx.Val, len(v.L))
		for i, e := range v.L {
			c.L[i] = cloneValTree(e)
		}
	}
	if v.M != nil {
		c.M = make([][2]*hx.Val, len(v.M))
		for i, kv := range v.M {
			c.M[i] = [2]*hx.Val{cloneValTree(kv[0]), cloneValTree(kv[1])}
		}
	}
	if v.N != nil {
		c.N = cloneValTree(v.N)
	}
	return &c
}

// corruptLeaf returns a copy of v in which one leaf, reached by a random walk from the root, is
// replaced by a value no scalar schema accepts. Typed maps are not entered (their elements cannot
// hold a value of another type). nil when v has no such leaf.
func corruptLeaf(g *hx.Gen, v *hx.Val) *hx.Val {
	c := cloneValTree(v)
	cur := c
	for steps := 0; steps < 10000; steps++ {
		var kids []**hx.Val
		for i := range cur.L {
			kids = append(kids, &cur.L[i])
		}
		if cur.Kind == "m" && cur.MVA {
			for i := range cur.M {
				kids = append(kids, &cur.M[i][1])
			}
		}
		if len(kids) == 0 {
			return nil
		}
		k := kids[g.R.Intn(len(kids))]
		child := *k
		if child == nil || (child.Kind != "l" && child.Kind != "m") || (len(child.L) == 0 && len(child.M) == 0) ||
			(child.Kind == "m" && !child.MVA) {
			if g.R.Intn(2) == 0 {
				*k = hx.List()
			} else {
				*k = hx.Opaque(0)
			}
			cur.LT = ""
			return c
		}
		cur = child
	}
	return nil
}

// canBuild reports whether the harness can construct the Go value (a fault variant may ask for
// an entry that the static type of its map cannot hold).
func canBuild(v *hx.Val) (ok bool) {
	defer func() {
		if r := recover(); r != nil {
			ok = false
		}
	}()
	_ = v.ToGo()
	return true
}

// typedMapDepth is the maximal number of nested maps with a typed (non-interface) element type.
func typedMapDepth(v *hx.Val) int {
	if v == nil {
		return 0
	}
	best := 0
	for _, e := range v.L {
		if d := typedMapDepth(e); d > best {
			best = d
		}
	}
	for _, kv := range v.M {
		if d := typedMapDepth(kv[1]); d > best {
			best = d
		}
	}
	if v.Kind == "m" && !v.MVA {
		best++
	}
	return best
}

func sameResult(a, b hx.Result) bool {
	if a.R != b.R {
		return false
	}
	if a.R == "ok" {
		return hx.Canon(a.V) == hx.Canon(b.V)
	}
	return true
}

func groupBehave(s *sink, g *hx.Gen) {
	r := g.R
	bg := &behGen{g: g, maxDeep: 2}
	t := bg.scope(0)
	depth := 1 + r.Intn(3)
	n := 0
	ti := inlineTy(g, t, nil, depth, 0.75, &n)
	if n == 0 {
		s.stats["behave:nothing-inlined"]++
	}
	s.stats[fmt.Sprintf("behave:unfold-depth:%d", depth)]++
	s.stats["behave:refs-inlined"] += n
	// the construction itself must agree
	var vals []*hx.Val
	for i := 0; i < 4; i++ {
		vals = append(vals, g.Value(t, hx.Env{}, 0))
	}
	for _, b := range []int{3, 8, 20, 45} {
		if v := deepValue(g, t, nil, b); v != nil {
			vals = append(vals, v)
		}
	}
	// values built for the INLINED schema are equally legitimate inputs
	if v := deepValue(g, ti, nil, 12); v != nil {
		vals = append(vals, v)
	}
	vals = append(vals, g.RandomVal(0), hx.Int("int64", 5), hx.StrAny())
	both := func(op string, val *hx.Val, goVal any, useGo bool, note string) {
		if !useGo && !canBuild(val) {
			s.stats["behave:unbuildable-variant"]++
			return
		}
		// a single planted fault (hx.Corruptions): the rejection must also name the same element
		cmp := "class"
		if note == "U-fault" || note == "V-fault" {
			cmp = "path"
		}
		xa, i1, _ := s.emit(op, t, val, goVal, useGo, cmp, "refs:asis:"+note)
		xb, i2, _ := s.emit(op, ti, val, goVal, useGo, cmp, "refs:inlined:"+note)
		if !sameResult(xa, xb) {
			s.finding(Finding{Prop: "C14", What: op + " differs between a scope and the same scope with references inlined (" + note + ")", Cases: []int{i1, i2}, Schema: t, Input: val, Detail: []string{xa.JSON(), xb.JSON()}})
		} else if cmp == "path" && xa.R == "err" && !sameErrPath(xa, xb) {
			s.finding(Finding{Prop: "C17", What: op + ": the rejection of a single fault carries another path in a scope than in the same scope with references inlined (references add no path segment)", Cases: []int{i1, i2}, Schema: t, Input: val, Detail: []string{xa.JSON(), xb.JSON()}})
		}
		s.stats["behave:"+note+":"+xa.R]++
	}
	// the same tree with its NESTED scopes not linked at construction: written as plain
	// &ScopeSchema{} values (only the root's NewScopeSchema links them), and rebuilt from its own
	// description (SelfSerialize + UnserializeScope); both must behave like the tree itself
	var variants []struct {
		what string
		s    schema.Type
	}
	if hasNestedScope(t) {
		var plain, rebuilt schema.Type
		if res := hx.Guard(func() hx.Result { plain = (&nsBuilder{plainNested: true}).build(t); return hx.Result{R: "ok"} }); res.R != "ok" {
			s.finding(Finding{Prop: "C14", What: "building the tree with plain nested scopes panicked: " + res.Msg, Schema: t})
		} else if err := plain.ValidateReferences(); err != nil {
			s.finding(Finding{Prop: "C14", What: "nested scopes written as plain values stay unlinked after the root scope applied itself: " + err.Error(), Schema: t})
		} else {
			variants = append(variants, struct {
				what string
				s    schema.Type
			}{"plain nested scopes", plain})
		}
		// objects written as literals arrive without the defaults the constructor extracts
		var lit schema.Type
		if res := hx.Guard(func() hx.Result { lit = (&nsBuilder{literalObjects: true}).build(t); return hx.Result{R: "ok"} }); res.R != "ok" {
			s.finding(Finding{Prop: "C14", What: "building the tree from object literals panicked: " + res.Msg, Schema: t})
		} else {
			variants = append(variants, struct {
				what string
				s    schema.Type
			}{"objects written as literals", lit})
		}
		res := hx.Guard(func() hx.Result {
			d, err := (&nsBuilder{describable: true}).build(t).(*schema.ScopeSchema).SelfSerialize()
			if err != nil {
				// not a linking matter (e.g. enum values without display values cannot be described)
				return hx.Result{R: "fuel"}
			}
			sc, err := schema.UnserializeScope(d)
			if err != nil {
				return hx.Result{R: "err", Msg: "UnserializeScope: " + err.Error()}
			}
			if err := sc.ValidateReferences(); err != nil {
				return hx.Result{R: "err", Msg: "ValidateReferences of the rebuilt scope: " + err.Error()}
			}
			rebuilt = sc
			return hx.Result{R: "ok"}
		})
		if res.R == "fuel" {
			s.stats["behave:not-describable"]++
		} else if res.R != "ok" {
			s.finding(Finding{Prop: "C14", What: "a valid linked tree with nested scopes cannot be rebuilt from its own description: " + res.Msg, Schema: t})
		} else {
			variants = append(variants, struct {
				what string
				s    schema.Type
			}{"rebuilt from description", rebuilt})
		}
		s.stats["behave:nested-scope-trees"]++
	}
	for _, v := range vals {
		if canBuild(v) {
			for _, vr := range variants {
				ra := hx.Guard(func() hx.Result { rr, _ := hx.RunOpRaw("U", t.Build(), v.ToGo()); return rr })
				rv, idv, _ := s.emitAgainst("U", t, vr.s, v, nil, false, "refs:"+vr.what)
				if !sameResult(ra, rv) {
					s.finding(Finding{Prop: "C14", What: "Unserialize differs between a tree and the same tree with " + vr.what, Cases: []int{idv}, Schema: t, Input: v, Detail: []string{ra.JSON(), rv.JSON()}})
				}
				s.stats["behave:"+vr.what+":"+rv.R]++
			}
		}
		depthOf := 0
		v.Walk(func(*hx.Val) { depthOf++ })
		s.stats["behave:value-nodes"] += depthOf
		ra, ida, outA := s.emit("U", t, v, nil, false, "class", "refs:asis")
		rb, idb, _ := s.emit("U", ti, v, nil, false, "class", "refs:inlined")
		if !sameResult(ra, rb) {
			s.finding(Finding{Prop: "C14", What: "Unserialize differs between a scope and the same scope with references inlined", Cases: []int{ida, idb}, Schema: t, Input: v, Detail: []string{ra.JSON(), rb.JSON()}})
			continue
		}
		if ra.R == "panic" {
			s.finding(Finding{Prop: "C14", What: "Unserialize panicked on a linked scope: " + ra.Msg, Cases: []int{ida}, Schema: t, Input: v})
		}
		if ra.R != "ok" {
			continue
		}
		s.stats["behave:accepted"]++
		nat := hx.Enc(outA)
		both("V", nat, outA, true, "V")
		both("S", nat, outA, true, "S")
		both("C", v, nil, false, "C")
		// single-fault variants of the accepted raw value and of the native value, at any depth:
		// the rejection (or lenient acceptance) must be the same on both schemas
		sample := func(cs []hx.Corruption, k int) []hx.Corruption {
			if len(cs) > k {
				r.Shuffle(len(cs), func(i, j int) { cs[i], cs[j] = cs[j], cs[i] })
				cs = cs[:k]
			}
			return cs
		}
		nodes := func(x *hx.Val) int { n := 0; x.Walk(func(*hx.Val) { n++ }); return n }
		if nodes(v) <= 120 {
			for _, c := range sample(hx.Corruptions(t, v, hx.Env{}), 3) {
				both("U", c.V, nil, false, "U-fault")
			}
		}
		if nodes(nat) <= 120 && typedMapDepth(nat) <= 8 {
			for _, c := range sample(hx.Corruptions(t, nat, hx.Env{}), 2) {
				both("V", c.V, nil, false, "V-fault")
				both("S", c.V, nil, false, "S-fault")
			}
		}
		// big / deep values: one fault at a random leaf, however deep (hx.Corruptions enumerates all
		// faults and is quadratic; hx.Val.ToGo is exponential in the nesting of typed maps)
		for i := 0; i < 1; i++ {
			if c := corruptLeaf(g, v); c != nil {
				both("U", c, nil, false, "U-deepfault")
			}
			if typedMapDepth(nat) <= 8 {
				if c := corruptLeaf(g, nat); c != nil {
					both("V", c, nil, false, "V-deepfault")
					both("S", c, nil, false, "S-deepfault")
				}
			}
		}
	}
	// values that SET the disabled properties: built for (and unserialized by) the twin schema in
	// which nothing is disabled, then given to Validate / Serialize / data compatibility of the real
	// schemas (Unserialize refuses a disabled field up front, the other operations do not)
	if hasDisabled(t) {
		tEn := enableAll(t)
		for _, b := range []int{2, 5, 9, 14} {
			vE := deepValue(g, tEn, nil, b)
			if vE == nil || !canBuild(vE) {
				continue
			}
			var outE any
			rE := hx.Guard(func() hx.Result { rr, o := hx.RunOpRaw("U", tEn.Build(), vE.ToGo()); outE = o; return rr })
			both("C", vE, nil, false, "C-disabled-set")
			both("U", vE, nil, false, "U-disabled-set")
			if rE.R != "ok" {
				continue
			}
			natE := hx.Enc(outE)
			both("V", natE, outE, true, "V-disabled-set")
			both("S", natE, outE, true, "S-disabled-set")
		}
	}
}

// hasNestedScope: is there a scope below the top one?
func hasNestedScope(t *hx.Ty) bool {
	n := 0
	t.WalkTy(func(x *hx.Ty) {
		if x.T == "scope" {
			n++
		}
	})
	return n > 1
}

func hasDisabled(t *hx.Ty) bool {
	found := false
	t.WalkTy(func(x *hx.Ty) {
		for _, p := range x.Props {
			if p.P.Disabled {
				found = true
			}
		}
	})
	return found
}

// enableAll returns a copy of t in which no property is disabled.
func enableAll(t *hx.Ty) *hx.Ty {
	c := copyTy(t)
	c.WalkTy(func(x *hx.Ty) {
		for _, p := range x.Props {
			p.P.Disabled = false
		}
	})
	return c
}

// groupShared: one object placed into two scopes. Not part of the default streams.
func groupShared(s *sink, g *hx.Gen) {
	prop := func(t schema.Type) *schema.PropertySchema {
		return schema.NewPropertySchema(t, nil, false, nil, nil, nil, nil, nil)
	}
	res := hx.Guard(func() hx.Result {
		ref := schema.NewRefSchema("B", nil)
		shared := schema.NewObjectSchema("S", map[string]*schema.PropertySchema{"x": prop(ref), "y": prop(schema.NewIntSchema(nil, nil, nil))})
		b1 := schema.NewObjectSchema("B", map[string]*schema.PropertySchema{"p": prop(schema.NewIntSchema(nil, nil, nil)), "q": prop(schema.NewIntSchema(nil, nil, nil))})
		b2 := schema.NewObjectSchema("B", map[string]*schema.PropertySchema{"p": prop(schema.NewStringSchema(nil, nil, nil)), "q": prop(schema.NewIntSchema(nil, nil, nil))})
		s1 := schema.NewScopeSchema(shared, b1)
		_ = schema.NewScopeSchema(shared, b2)
		if ref.GetObject() != schema.Object(b1) {
			_, err := s1.Unserialize(map[string]any{"x": map[string]any{"p": "abc"}})
			return hx.Result{R: "err", Msg: fmt.Sprintf("reference B inside scope 1 denotes scope 2's object; scope 1 accepts a string for B.p: err=%v", err)}
		}
		return hx.Result{R: "ok"}
	})
	if res.R != "ok" {
		s.finding(Finding{Prop: "C14", What: "an object placed into two scopes is relinked by the later NewScopeSchema: inside the first scope its references no longer denote the first scope's objects", Detail: []string{res.Msg}})
	}
}

func refsCmd(a Args) {
	if err := os.MkdirAll(a.Out, 0o755); err != nil {
		panic(err)
	}
	s := newSink(a.Out)
	defer s.close()
	if a.Replay != "" {
		replayRefs(s, a.Replay)
		writeStats(a.Out, s, nil)
		return
	}
	g := hx.NewGen(a.Seed)
	streams := a.Streams
	if streams == "valid,random" { // the global default
		streams = "link,behave"
	}
	mult := 1
	if a.Tier == "thorough" {
		mult = 5
	}
	for _, stream := range strings.Split(streams, ",") {
		switch stream {
		case "failing":
			groupFailing(s)
		case "link":
			groupFailing(s)
			for i := 0; i < a.N*10*mult; i++ {
				groupLink(s, g)
			}
			for i := 0; i < a.N*mult; i++ {
				groupSched(s, g)
			}
			for i := 0; i < a.N*mult/2; i++ {
				groupSharedSlice(s, g)
			}
		case "slices":
			for i := 0; i < a.N*mult/2; i++ {
				groupSharedSlice(s, g)
			}
		case "structs":
			groupStructMapped(s)
		case "behave":
			groupStructMapped(s)
			for i := 0; i < a.N*mult/2; i++ {
				groupBehave(s, g)
			}
			for i := 0; i < a.N*mult/4; i++ {
				groupNSBehave(s, g)
			}
		case "sched":
			for i := 0; i < a.N*mult; i++ {
				groupSched(s, g)
			}
		case "nsbehave":
			for i := 0; i < a.N*mult/4; i++ {
				groupNSBehave(s, g)
			}
		case "shared":
			groupShared(s, g)
		}
	}
	keys := make([]string, 0, len(s.stats))
	for k := range s.stats {
		keys = append(keys, k)
	}
	sort.Strings(keys)
	writeStats(a.Out, s, g)
}
