package main

// Third part of sub-command `refs` (property C14): a fixed family of STRUCT-MAPPED scope trees
// (stream "structs"; also run once at the start of stream "behave").
//
// The generated trees of the other streams are map-based; one code path exists only for objects
// tied to Go structs: when a property of a struct-mapped object is unset and its type is an object or
// a reference to one (non-pointer field), the defaults of that sub-object are expanded into the
// input (ObjectSchema.applySubObjectDefaultValues), following references. Each tree shape below is
// built twice from one description - with references (self namespace, another namespace, below a
// nested scope) and with every reference replaced by the object it denotes - under EVERY assignment
// of object IDs from a three-letter pool, so that IDs collide across scopes / namespaces in all
// possible patterns. Both trees must accept the same inputs and unserialize them to the same
// values; the value must validate and serialize identically. No Lean model of struct mapping
// exists: this is an oracle-only comparison (nothing is written to cases.jsonl).

import (
	"fmt"
	"reflect"

	"go.flow.arcalot.io/pluginsdk/schema"
	"harness/hx"
)

type smLeaf struct {
	A string `json:"a"`
	N int64  `json:"n"`
	O *int64 `json:"o"`
}

type smMid struct {
	Leaf smLeaf  `json:"leaf"`
	Note *string `json:"note"`
}

type smTop struct {
	Name  *string `json:"name"`
	Inner smLeaf  `json:"inner"`
}

type smTopDeep struct {
	Name *string `json:"name"`
	Mid  smMid   `json:"mid"`
}

type smTopTwo struct {
	First  smLeaf `json:"first"`
	Second smLeaf `json:"second"`
}

type smOuter struct {
	Sub smTop `json:"sub"`
}

type smIDs struct {
	root, mid, foreign, outer string
}

func smProp(t schema.Type, def string) *schema.PropertySchema {
	var d *string
	if def != "" {
		d = &def
	}
	return schema.NewPropertySchema(t, nil, false, nil, nil, nil, d, nil)
}

func smLeafObject(id string) *schema.ObjectSchema {
	return schema.NewStructMappedObjectSchema[smLeaf](id, map[string]*schema.PropertySchema{
		"a": smProp(schema.NewStringSchema(nil, nil, nil), `"hello"`),
		"n": smProp(schema.NewIntSchema(nil, nil, nil), `7`),
		"o": smProp(schema.NewIntSchema(nil, nil, nil), ""),
	})
}

// leafType: the position of a reference to the leaf object of namespace "X" (or the object itself)
func smLeafType(id string, inline bool) schema.Type {
	if inline {
		return smLeafObject(id)
	}
	return schema.NewNamespacedRefSchema(id, "X", nil)
}

type smShape struct {
	name   string
	valid  func(i smIDs) bool
	build  func(i smIDs, inline bool) schema.Type
	inputs []any
}

func smForeign(i smIDs) *schema.ScopeSchema { return schema.NewScopeSchema(smLeafObject(i.foreign)) }

type smHolder struct {
	Pair map[string]any `json:"pair"`
	Name *string        `json:"name"`
}

func smEndpoint(id string) *schema.ObjectSchema {
	return schema.NewObjectSchema(id, map[string]*schema.PropertySchema{
		"host": smProp(schema.NewStringSchema(nil, nil, nil), `"localhost"`),
		"port": smProp(schema.NewIntSchema(nil, nil, nil), `7`),
	})
}

// smShared: one map-backed object with defaults reached through references TWICE below an unset, non-pointer
// property of a struct-mapped parent - as two sibling properties, or as a diamond through two intermediate
// objects. Sharing is not recursion: every occurrence gets the defaults, whichever is walked first.
func smShared(diamond bool) smShape {
	name := "shared-siblings"
	if diamond {
		name = "shared-diamond"
	}
	return smShape{
		name:  name,
		valid: func(i smIDs) bool { return i.root != i.mid && i.root != i.foreign && i.mid != i.foreign && i.outer == "A" },
		build: func(i smIDs, inline bool) schema.Type {
			end := func() schema.Type {
				if inline {
					return smEndpoint(i.foreign)
				}
				return schema.NewRefSchema(i.foreign, nil)
			}
			var pairProps map[string]*schema.PropertySchema
			if diamond {
				via := func(id string) schema.Type {
					return schema.NewObjectSchema(id, map[string]*schema.PropertySchema{"to": smProp(end(), ""), "w": smProp(schema.NewIntSchema(nil, nil, nil), `1`)})
				}
				pairProps = map[string]*schema.PropertySchema{"src": smProp(via("Src"), ""), "dst": smProp(via("Dst"), ""), "label": smProp(schema.NewStringSchema(nil, nil, nil), `"pair"`)}
			} else {
				pairProps = map[string]*schema.PropertySchema{"left": smProp(end(), ""), "right": smProp(end(), ""), "third": smProp(end(), ""), "label": smProp(schema.NewStringSchema(nil, nil, nil), `"pair"`)}
			}
			pair := schema.NewObjectSchema(i.mid, pairProps)
			var pairType schema.Type = schema.NewRefSchema(i.mid, nil)
			if inline {
				pairType = pair
			}
			root := schema.NewStructMappedObjectSchema[smHolder](i.root, map[string]*schema.PropertySchema{
				"pair": smProp(pairType, ""),
				"name": smProp(schema.NewStringSchema(nil, nil, nil), ""),
			})
			if inline {
				return schema.NewScopeSchema(root)
			}
			return schema.NewScopeSchema(root, pair, smEndpoint(i.foreign))
		},
		inputs: []any{
			map[string]any{}, map[string]any{}, map[string]any{}, map[string]any{}, map[string]any{}, map[string]any{},
			map[string]any{"name": "n"}, map[string]any{"name": "m"}, map[string]any{"name": "o"},
			map[string]any{"pair": map[string]any{}},
			map[string]any{"pair": map[string]any{"label": "own"}},
		},
	}
}

func init() { smShapes = append(smShapes, smShared(false), smShared(true)) }

var smShapes = []smShape{
	{
		// flat: root{name, inner -> X:foreign}
		name:  "flat",
		valid: func(smIDs) bool { return true },
		build: func(i smIDs, inline bool) schema.Type {
			s := schema.NewScopeSchema(schema.NewStructMappedObjectSchema[smTop](i.root, map[string]*schema.PropertySchema{
				"name":  smProp(schema.NewStringSchema(nil, nil, nil), ""),
				"inner": smProp(smLeafType(i.foreign, inline), ""),
			}))
			s.ApplyNamespace(smForeign(i).Objects(), "X")
			return s
		},
		inputs: []any{
			map[string]any{},
			map[string]any{"name": "n"},
			map[string]any{"inner": map[string]any{}},
			map[string]any{"inner": map[string]any{"a": "x"}},
			map[string]any{"inner": map[string]any{"n": 1, "o": 2}, "name": "n"},
			map[string]any{"inner": "x"},
			map[string]any{"unknown": 1},
		},
	},
	{
		// selfflat: root{name, inner -> leaf} with the leaf in the SAME scope (self namespace)
		name:  "selfflat",
		valid: func(i smIDs) bool { return i.root != i.mid },
		build: func(i smIDs, inline bool) schema.Type {
			var inner schema.Type = schema.NewRefSchema(i.mid, nil)
			if inline {
				inner = smLeafObject(i.mid)
			}
			root := schema.NewStructMappedObjectSchema[smTop](i.root, map[string]*schema.PropertySchema{
				"name":  smProp(schema.NewStringSchema(nil, nil, nil), ""),
				"inner": smProp(inner, ""),
			})
			if inline {
				return schema.NewScopeSchema(root)
			}
			return schema.NewScopeSchema(root, smLeafObject(i.mid))
		},
		inputs: []any{
			map[string]any{},
			map[string]any{"inner": map[string]any{"a": "x"}},
			map[string]any{"name": "q"},
		},
	},
	{
		// two: root{first -> X:foreign, second -> leaf of the same scope}
		name:  "two",
		valid: func(i smIDs) bool { return i.root != i.mid },
		build: func(i smIDs, inline bool) schema.Type {
			var second schema.Type = schema.NewRefSchema(i.mid, nil)
			if inline {
				second = smLeafObject(i.mid)
			}
			root := schema.NewStructMappedObjectSchema[smTopTwo](i.root, map[string]*schema.PropertySchema{
				"first":  smProp(smLeafType(i.foreign, inline), ""),
				"second": smProp(second, ""),
			})
			var s *schema.ScopeSchema
			if inline {
				s = schema.NewScopeSchema(root)
			} else {
				s = schema.NewScopeSchema(root, smLeafObject(i.mid))
			}
			s.ApplyNamespace(smForeign(i).Objects(), "X")
			return s
		},
		inputs: []any{
			map[string]any{},
			map[string]any{"first": map[string]any{"n": 3}},
			map[string]any{"second": map[string]any{"a": "z"}},
		},
	},
	{
		// deep: root{name, mid -> mid}, mid{leaf -> X:foreign, note}
		name:  "deep",
		valid: func(i smIDs) bool { return i.root != i.mid },
		build: func(i smIDs, inline bool) schema.Type {
			midObject := func(leafType schema.Type) *schema.ObjectSchema {
				return schema.NewStructMappedObjectSchema[smMid](i.mid, map[string]*schema.PropertySchema{
					"leaf": smProp(leafType, ""),
					"note": smProp(schema.NewStringSchema(nil, nil, nil), ""),
				})
			}
			var s *schema.ScopeSchema
			if inline {
				s = schema.NewScopeSchema(schema.NewStructMappedObjectSchema[smTopDeep](i.root, map[string]*schema.PropertySchema{
					"name": smProp(schema.NewStringSchema(nil, nil, nil), ""),
					"mid":  smProp(midObject(smLeafObject(i.foreign)), ""),
				}))
			} else {
				s = schema.NewScopeSchema(
					schema.NewStructMappedObjectSchema[smTopDeep](i.root, map[string]*schema.PropertySchema{
						"name": smProp(schema.NewStringSchema(nil, nil, nil), ""),
						"mid":  smProp(schema.NewRefSchema(i.mid, nil), ""),
					}),
					midObject(schema.NewNamespacedRefSchema(i.foreign, "X", nil)),
				)
			}
			s.ApplyNamespace(smForeign(i).Objects(), "X")
			return s
		},
		inputs: []any{
			map[string]any{},
			map[string]any{"name": "n"},
			map[string]any{"mid": map[string]any{}},
			map[string]any{"mid": map[string]any{"note": "z"}},
			map[string]any{"mid": map[string]any{"leaf": map[string]any{"a": "x"}}},
			map[string]any{"mid": map[string]any{"leaf": map[string]any{}, "note": "y"}},
			map[string]any{"mid": 5},
		},
	},
	{
		// nested: outer{sub: scope(root{name, inner -> X:foreign})}; the namespace is applied on the
		// enclosing scope and passed through the nested one
		name:  "nested",
		valid: func(smIDs) bool { return true },
		build: func(i smIDs, inline bool) schema.Type {
			nested := schema.NewScopeSchema(schema.NewStructMappedObjectSchema[smTop](i.root, map[string]*schema.PropertySchema{
				"name":  smProp(schema.NewStringSchema(nil, nil, nil), ""),
				"inner": smProp(smLeafType(i.foreign, inline), ""),
			}))
			s := schema.NewScopeSchema(schema.NewStructMappedObjectSchema[smOuter](i.outer, map[string]*schema.PropertySchema{
				"sub": schema.NewPropertySchema(nested, nil, true, nil, nil, nil, nil, nil),
			}))
			s.ApplyNamespace(smForeign(i).Objects(), "X")
			return s
		},
		inputs: []any{
			map[string]any{"sub": map[string]any{}},
			map[string]any{"sub": map[string]any{"name": "n"}},
			map[string]any{"sub": map[string]any{"inner": map[string]any{"n": 2}}},
			map[string]any{"sub": map[string]any{"inner": map[string]any{}}},
			map[string]any{},
		},
	},
}

// smRender prints a result with pointers followed, so that the results of two trees compare as text.
func smRender(v any) string {
	var walk func(rv reflect.Value) any
	walk = func(rv reflect.Value) any {
		switch rv.Kind() {
		case reflect.Pointer:
			if rv.IsNil() {
				return nil
			}
			return walk(rv.Elem())
		case reflect.Struct:
			out := map[string]any{}
			for f := 0; f < rv.NumField(); f++ {
				out[rv.Type().Field(f).Name] = walk(rv.Field(f))
			}
			return out
		case reflect.Interface:
			if rv.IsNil() {
				return nil
			}
			return walk(rv.Elem())
		}
		return rv.Interface()
	}
	if v == nil {
		return "<nil>"
	}
	return fmt.Sprintf("%v", walk(reflect.ValueOf(v)))
}

// smObserve runs Unserialize, then Validate and Serialize of the result, and renders all of it.
func smObserve(build func() schema.Type, input any) (out string) {
	defer func() {
		if r := recover(); r != nil {
			out = fmt.Sprintf("PANIC: %v", r)
		}
	}()
	s := build()
	if err := s.ValidateReferences(); err != nil {
		return "unlinked"
	}
	v, err := s.Unserialize(input)
	if err != nil {
		return "rejected"
	}
	out = "value " + smRender(v)
	if err := s.Validate(v); err != nil {
		return out + " | does not validate"
	}
	w, err := s.Serialize(v)
	if err != nil {
		return out + " | does not serialize"
	}
	return out + " | wire " + hx.Canon(hx.Enc(w))
}

func groupStructMapped(s *sink) {
	pool := []string{"A", "B", "C"}
	for _, sh := range smShapes {
		for _, root := range pool {
			for _, mid := range pool {
				for _, foreign := range pool {
					for _, outer := range pool {
						i := smIDs{root, mid, foreign, outer}
						if !sh.valid(i) {
							continue
						}
						s.stats["structs:trees"]++
						collide := root == foreign || mid == foreign || outer == foreign || root == outer
						for _, in := range sh.inputs {
							a := smObserve(func() schema.Type { return sh.build(i, false) }, in)
							b := smObserve(func() schema.Type { return sh.build(i, true) }, in)
							s.stats["structs:inputs"]++
							if collide {
								s.stats["structs:inputs-colliding-ids"]++
							}
							// repeated evaluation on fresh instances: one (schema, argument), one answer
							for rep := 0; rep < 6; rep++ {
								if again := smObserve(func() schema.Type { return sh.build(i, false) }, in); again != a {
									s.finding(Finding{Prop: "C12", What: fmt.Sprintf("struct-mapped tree %q: Unserialize of one argument gives different results from one evaluation to the next", sh.name),
										Input: hx.Enc(in), Detail: []string{"one evaluation: " + a, "another:        " + again}})
									break
								}
							}
							if a != b {
								s.finding(Finding{Prop: "C14", What: fmt.Sprintf("struct-mapped tree %q with object IDs root=%s mid=%s foreign=%s outer=%s: the tree with references and the tree with the references inlined disagree", sh.name, root, mid, foreign, outer),
									Input:  hx.Enc(in),
									Detail: []string{"with references: " + a, "inlined:         " + b}})
							}
						}
					}
				}
			}
		}
	}
}
