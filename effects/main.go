// Command effects extracts, from the working tree of the SDK, the table the C13 theorems are
// checked against (lean/ArcaModel/Gen/Effects.lean):
//
//   - every function of packages schema and atp (generic instances, wrappers and closures included)
//     with its call successors: static calls, class-hierarchy edges for interface and function-value
//     calls (golang.org/x/tools/go/callgraph/cha), every function referenced as a value, and the
//     methods looked up reflectively by name;
//   - the roots (the schema operations, the step calls, the unit Parse*/Format* methods, and the
//     methods library code calls back: Error, String, ...), and the set reachable from them;
//   - per function the writes whose target is memory shared between calls (see origin.go), with the
//     lock that dominates them, if any; and the reads of the locations that have a guarded write.
//
// Usage (module directory /verif/effects):
//
//	go run . -repo /repo -out /verif/lean/ArcaModel/Gen/Effects.lean [-explain]
package main

import (
	"flag"
	"fmt"
	"go/token"
	"go/types"
	"math/big"
	"os"
	"path/filepath"
	"regexp"
	"sort"
	"strings"

	"golang.org/x/tools/go/callgraph/cha"
	"golang.org/x/tools/go/packages"
	"golang.org/x/tools/go/ssa"
	"golang.org/x/tools/go/ssa/ssautil"
)

const modPrefix = "go.flow.arcalot.io/pluginsdk/"

var scopePkgs = map[string]bool{modPrefix + "schema": true, modPrefix + "atp": true}

// operation names that are roots when they are methods of a type of package schema
var opNames = map[string]bool{
	"Unserialize": true, "Validate": true, "Serialize": true, "ValidateCompatibility": true,
	"UnserializeType": true, "ValidateType": true, "SerializeType": true,
}

// methods library code (fmt, errors, encoding/json) calls on values it is handed
var callbackNames = map[string]bool{
	"Error": true, "String": true, "Unwrap": true, "Is": true, "As": true, "GoString": true, "Format": true,
	"MarshalJSON": true, "UnmarshalJSON": true, "MarshalText": true, "UnmarshalText": true,
	"MarshalCBOR": true, "UnmarshalCBOR": true, "MarshalYAML": true, "UnmarshalYAML": true,
}

type world struct {
	prog  *ssa.Program
	fset  *token.FileSet
	funcs []*ssa.Function // in scope, sorted by name
	id    map[*ssa.Function]int
	name  []string
	info  []*finfo
	succ  []map[int]bool
	// allShared[f]: f can be entered from outside the static call sites we see
	// (root, callback, interface/function-value dispatch, referenced as a value)
	allShared []bool
	root      []bool
	statics   [][]staticSite // per callee: static call sites
	closures  [][]*ssa.MakeClosure
	// in-scope class-hierarchy callees of interface call sites
	siteCallees map[ssa.CallInstruction][]int
}

type staticSite struct {
	caller int
	args   []ssa.Value
}

func pkgPathOf(f *ssa.Function) string {
	for g := f; g != nil; g = g.Parent() {
		if g.Pkg != nil {
			return g.Pkg.Pkg.Path()
		}
		if o := g.Origin(); o != nil && o.Pkg != nil {
			return o.Pkg.Pkg.Path()
		}
		if obj := g.Object(); obj != nil && obj.Pkg() != nil {
			return obj.Pkg().Path()
		}
	}
	return ""
}

func shortName(f *ssa.Function) string {
	return strings.ReplaceAll(f.String(), modPrefix, "")
}

func recvNamed(f *ssa.Function) *types.Named {
	if f.Signature == nil || f.Signature.Recv() == nil {
		return nil
	}
	t := f.Signature.Recv().Type()
	if p, ok := t.(*types.Pointer); ok {
		t = p.Elem()
	}
	n, _ := types.Unalias(t).(*types.Named)
	return n
}

func main() {
	repo := flag.String("repo", "/repo", "working tree of the SDK")
	out := flag.String("out", "", "Lean file to write (default: stdout)")
	explain := flag.Bool("explain", false, "print the reachable shared writes and guarded-location reads to stderr")
	flag.Parse()

	// Generic code only has a body to analyse where it is instantiated. Pass 1 finds the generic functions
	// of the packages; pass 2 loads the packages again with one extra (overlay, in-memory) file per package
	// that instantiates each of them, so that the step, signal and typed schema types get their methods.
	load := func(overlay map[string][]byte) []*packages.Package {
		cfg := &packages.Config{Mode: packages.LoadAllSyntax, Dir: *repo, Tests: false, Overlay: overlay}
		pkgs, err := packages.Load(cfg, "./schema", "./atp")
		if err != nil {
			fatal("load: %v", err)
		}
		if packages.PrintErrors(pkgs) > 0 {
			fatal("packages have errors")
		}
		return pkgs
	}
	overlay := map[string][]byte{}
	for _, pkg := range load(nil) {
		if src := instancesFile(pkg); src != "" && len(pkg.GoFiles) > 0 {
			overlay[filepath.Join(filepath.Dir(pkg.GoFiles[0]), "zz_effects_instances.go")] = []byte(src)
		}
	}
	if os.Getenv("EFFECTS_DEBUG") != "" {
		for k, v := range overlay {
			fmt.Fprintf(os.Stderr, "OVERLAY %s\n%s\n", k, v)
		}
	}
	pkgs := load(overlay)
	prog, _ := ssautil.AllPackages(pkgs, ssa.InstantiateGenerics)
	prog.Build()

	w := &world{prog: prog, fset: prog.Fset, id: map[*ssa.Function]int{}, siteCallees: map[ssa.CallInstruction][]int{}}
	all := ssautil.AllFunctions(prog)
	debugAll(w, all)
	for f := range all {
		if scopePkgs[pkgPathOf(f)] {
			w.funcs = append(w.funcs, f)
		}
	}
	// deterministic order: by name, then by position
	sort.Slice(w.funcs, func(i, j int) bool {
		a, b := shortName(w.funcs[i]), shortName(w.funcs[j])
		if a != b {
			return a < b
		}
		return w.funcs[i].Pos() < w.funcs[j].Pos()
	})
	seen := map[string]int{}
	for i, f := range w.funcs {
		n := shortName(f)
		seen[n]++
		if seen[n] > 1 {
			n = fmt.Sprintf("%s#%d", n, seen[n])
		}
		w.id[f] = i
		w.name = append(w.name, n)
	}
	n := len(w.funcs)
	w.succ = make([]map[int]bool, n)
	w.allShared = make([]bool, n)
	w.root = make([]bool, n)
	w.statics = make([][]staticSite, n)
	w.closures = make([][]*ssa.MakeClosure, n)
	for i := range w.succ {
		w.succ[i] = map[int]bool{}
	}

	// ---- call edges ------------------------------------------------------------------------
	methodsByName := map[string][]int{}
	for i, f := range w.funcs {
		if f.Signature != nil && f.Signature.Recv() != nil {
			methodsByName[f.Name()] = append(methodsByName[f.Name()], i)
		}
	}
	cg := cha.CallGraph(prog)
	for f, node := range cg.Nodes {
		ci, ok := w.id[f]
		if !ok {
			continue
		}
		for _, e := range node.Out {
			cj, ok := w.id[e.Callee.Func]
			if !ok {
				continue
			}
			w.succ[ci][cj] = true
			if e.Site != nil && e.Site.Common().IsInvoke() {
				w.siteCallees[e.Site] = append(w.siteCallees[e.Site], cj)
			}
			if e.Site != nil && e.Site.Common().StaticCallee() == e.Callee.Func {
				w.statics[cj] = append(w.statics[cj], staticSite{ci, e.Site.Common().Args})
			} else {
				w.allShared[cj] = true
			}
		}
	}
	for i, f := range w.funcs {
		for _, b := range f.Blocks {
			for _, ins := range b.Instrs {
				// functions referenced as values (closures, method values, handlers passed to library code)
				var ops []*ssa.Value
				for _, op := range ins.Operands(ops) {
					if op == nil || *op == nil {
						continue
					}
					g, ok := (*op).(*ssa.Function)
					if !ok {
						continue
					}
					j, ok := w.id[g]
					if !ok {
						continue
					}
					w.succ[i][j] = true
					if mc, ok := ins.(*ssa.MakeClosure); ok && mc.Fn == g {
						w.closures[j] = append(w.closures[j], mc)
						// the closure's own parameters are supplied by whoever calls it
						continue
					}
					if call, ok := ins.(ssa.CallInstruction); ok && call.Common().StaticCallee() == g {
						continue
					}
					w.allShared[j] = true
				}
				// reflect.Value.MethodByName("M"): every method M in scope
				if call, ok := ins.(ssa.CallInstruction); ok {
					if g := call.Common().StaticCallee(); g != nil && g.Name() == "MethodByName" && len(call.Common().Args) == 2 {
						if c, ok := call.Common().Args[1].(*ssa.Const); ok && c.Value != nil {
							mname := strings.Trim(c.Value.ExactString(), "\"")
							for _, j := range methodsByName[mname] {
								w.succ[i][j] = true
								w.allShared[j] = true
							}
						} else {
							fatal("MethodByName with a non-constant name in %s", w.name[i])
						}
					}
				}
			}
		}
	}

	// ---- roots -----------------------------------------------------------------------------
	for i, f := range w.funcs {
		if f.Parent() != nil || f.Signature == nil || f.Signature.Recv() == nil {
			continue
		}
		rn := recvNamed(f)
		pkg := pkgPathOf(f)
		m := f.Name()
		if i := strings.IndexByte(m, '$'); i >= 0 { // $bound, $thunk wrappers are reached through edges
			continue
		}
		if i := strings.IndexByte(m, '['); i >= 0 { // methods of generic instances: Name[typeargs]
			m = m[:i]
		}
		isRoot := false
		if pkg == modPrefix+"schema" {
			if opNames[m] {
				isRoot = true
			}
			if rn != nil && rn.Obj().Name() == "CallableSchema" && (m == "CallStep" || m == "CallSignal") {
				isRoot = true
			}
			if rn != nil && (rn.Obj().Name() == "UnitsDefinition" || rn.Obj().Name() == "UnitDefinition") &&
				(strings.HasPrefix(m, "Parse") || strings.HasPrefix(m, "Format")) {
				isRoot = true
			}
			if callbackNames[m] {
				isRoot = true
			}
		}
		if isRoot {
			w.root[i] = true
			w.allShared[i] = true
		}
	}

	// ---- reachability ----------------------------------------------------------------------
	reach := make([]bool, n)
	var stack []int
	for i := range w.funcs {
		if w.root[i] {
			reach[i] = true
			stack = append(stack, i)
		}
	}
	for len(stack) > 0 {
		i := stack[len(stack)-1]
		stack = stack[:len(stack)-1]
		for j := range w.succ[i] {
			if !reach[j] {
				reach[j] = true
				stack = append(stack, j)
			}
		}
	}

	// ---- effects ---------------------------------------------------------------------------
	w.analyse()
	w.debugSummaries()
	w.debugFunc()

	var writes, reads []access
	guardedLoc := map[string]bool{}
	for i := range w.funcs {
		for _, a := range w.info[i].writes {
			if !w.sharedOrg(i, a.org) {
				continue
			}
			a.fn = i
			writes = append(writes, a)
			if a.guard != 0 && a.loc != "" {
				guardedLoc[a.loc] = true
			}
		}
	}
	for i := range w.funcs {
		for _, a := range w.info[i].reads {
			if !guardedLoc[a.loc] || !w.sharedOrg(i, a.org) {
				continue
			}
			a.fn = i
			reads = append(reads, a)
		}
	}
	externSet := map[string]bool{}
	for i := range w.funcs {
		if !reach[i] {
			continue
		}
		for _, a := range w.info[i].externs {
			if w.sharedOrg(i, a.org) {
				externSet[a.kind] = true
			}
		}
	}
	var externs []string
	for e := range externSet {
		externs = append(externs, e)
	}
	sort.Strings(externs)
	spawns := new(big.Int)
	for i := range w.funcs {
		if w.info[i].spawns {
			spawns.SetBit(spawns, i, 1)
		}
	}

	// ---- output ----------------------------------------------------------------------------
	var sb strings.Builder
	p := func(format string, a ...any) { fmt.Fprintf(&sb, format, a...) }
	p("import ArcaModel.Model.Effects\n")
	p("/-\n  GENERATED by /verif/effects (go run . -repo /repo -out <this file>) from the working tree of the SDK.\n")
	p("  Do not edit: the orchestrator regenerates this file before every `lake build`.\n")
	p("  Functions are referred to by their index in `names`; sets of functions are `Nat` bit masks.\n-/\n")
	p("namespace Arca.Gen\nopen Arca.Effects\n\n")
	p("def effectsNames : List String := [\n")
	for i, nm := range w.name {
		sep := ","
		if i == n-1 {
			sep = ""
		}
		p("  %s%s\n", leanStr(nm), sep)
	}
	p("]\n\n")
	p("/-- successor masks, one per function, in index order -/\ndef effectsSucc : List Nat := [\n")
	nedges := 0
	for i := range w.funcs {
		m := new(big.Int)
		for j := range w.succ[i] {
			m.SetBit(m, j, 1)
			nedges++
		}
		sep := ","
		if i == n-1 {
			sep = ""
		}
		p("  0x%s%s\n", m.Text(16), sep)
	}
	p("]\n\n")
	var roots []string
	rm := new(big.Int)
	nreach := 0
	for i := range w.funcs {
		if w.root[i] {
			roots = append(roots, fmt.Sprint(i))
		}
		if reach[i] {
			rm.SetBit(rm, i, 1)
			nreach++
		}
	}
	p("def effectsRoots : List Nat := [%s]\n\n", strings.Join(roots, ", "))
	p("def effectsReach : Nat := 0x%s\n\n", rm.Text(16))
	p("def effectsSpawns : Nat := 0x%s\n\n", spawns.Text(16))
	emit := func(name string, as []access) {
		p("def %s : List Access := [\n", name)
		for k, a := range as {
			sep := ","
			if k == len(as)-1 {
				sep = ""
			}
			p("  ⟨%d, %s, %s, %d, %s, %s, %s⟩%s\n", a.fn, leanStr(a.kind), leanStr(a.target), a.guard, leanStr(a.loc), leanStr(a.lock), leanStr(a.pos), sep)
		}
		p("]\n\n")
	}
	emit("effectsWrites", writes)
	emit("effectsReads", reads)
	p("/-- library functions that receive a reference to shared memory from a reachable function\n    (those known to write through it are listed as writes instead) -/\ndef effectsExterns : List String := [\n")
	for k, e := range externs {
		sep := ","
		if k == len(externs)-1 {
			sep = ""
		}
		p("  %s%s\n", leanStr(e), sep)
	}
	p("]\n\n")
	p("def effects : Table :=\n  { names := effectsNames, succ := effectsSucc, roots := effectsRoots, reach := effectsReach,\n")
	p("    spawns := effectsSpawns, writes := effectsWrites, reads := effectsReads, externs := effectsExterns }\n\n")
	nw, ng, nr, nrg := 0, 0, 0, 0
	for _, a := range writes {
		if reach[a.fn] {
			nw++
			if a.guard != 0 {
				ng++
			}
		}
	}
	for _, a := range reads {
		if reach[a.fn] {
			nr++
			if a.guard != 0 {
				nrg++
			}
		}
	}
	p("/- summary: %d functions, %d edges, %d roots, %d reachable; shared writes %d (%d in reachable functions, %d of them guarded);\n", n, nedges, len(roots), nreach, len(writes), nw, ng)
	p("   reads of guarded locations %d (%d in reachable functions, %d of them guarded) -/\n", len(reads), nr, nrg)
	p("end Arca.Gen\n")

	if *out == "" {
		fmt.Print(sb.String())
	} else {
		if err := os.MkdirAll(filepath.Dir(*out), 0o755); err != nil {
			fatal("%v", err)
		}
		if err := os.WriteFile(*out, []byte(sb.String()), 0o644); err != nil {
			fatal("%v", err)
		}
	}
	fmt.Fprintf(os.Stderr, "effects: %d functions, %d edges, %d roots, %d reachable; shared writes in reachable functions %d (guarded %d); guarded-location reads %d (guarded %d)\n",
		n, nedges, len(roots), nreach, nw, ng, nr, nrg)
	if *explain {
		for _, e := range externs {
			fmt.Fprintf(os.Stderr, "EXTERN %s\n", e)
		}
		for _, a := range writes {
			if reach[a.fn] {
				fmt.Fprintf(os.Stderr, "WRITE guard=%d %-10s %-50s in %s (%s) loc=%s lock=%s\n", a.guard, a.kind, a.target, w.name[a.fn], a.pos, a.loc, a.lock)
			}
		}
		for _, a := range reads {
			if reach[a.fn] {
				fmt.Fprintf(os.Stderr, "READ  guard=%d %-10s %-50s in %s (%s) loc=%s lock=%s\n", a.guard, a.kind, a.target, w.name[a.fn], a.pos, a.loc, a.lock)
			}
		}
	}
}

// instancesFile: Go source instantiating every generic function and every generic (non-interface) type of
// the package once; the types are converted to an interface so that their method sets (wrappers included)
// are built.
func instancesFile(pkg *packages.Package) string {
	var lines []string
	scope := pkg.Types.Scope()
	for _, name := range scope.Names() {
		var tps *types.TypeParamList
		isType := false
		switch obj := scope.Lookup(name).(type) {
		case *types.Func:
			tps = obj.Type().(*types.Signature).TypeParams()
		case *types.TypeName:
			if n, ok := obj.Type().(*types.Named); ok && !obj.IsAlias() {
				if _, isIface := n.Underlying().(*types.Interface); !isIface {
					tps = n.TypeParams()
					isType = true
				}
			}
		}
		if tps == nil || tps.Len() == 0 {
			continue
		}
		var args []string
		subst := map[string]string{}
		for i := 0; i < tps.Len(); i++ {
			a := typeArgFor(tps.At(i).Constraint(), subst)
			subst[tps.At(i).Obj().Name()] = a
			args = append(args, a)
		}
		inst := fmt.Sprintf("%s[%s]", name, strings.Join(args, ", "))
		if isType {
			lines = append(lines, fmt.Sprintf("\t\t(*%s)(nil),", inst))
		} else {
			lines = append(lines, fmt.Sprintf("\t\t%s,", inst))
		}
	}
	if len(lines) == 0 {
		return ""
	}
	return "package " + pkg.Types.Name() + "\n\nfunc zzEffectsInstances() []any {\n\treturn []any{\n" +
		strings.Join(lines, "\n") + "\n\t}\n}\n"
}

// typeArgFor: a type satisfying the constraint: the first term of a union, the constraint itself if it
// has methods (an interface type implements itself), string for comparable, any otherwise
func typeArgFor(c types.Type, subst map[string]string) string {
	noPkg := func(*types.Package) string { return "" }
	iface, ok := c.Underlying().(*types.Interface)
	if !ok {
		return "any"
	}
	var union func(it *types.Interface) string
	union = func(it *types.Interface) string {
		for i := 0; i < it.NumEmbeddeds(); i++ {
			switch e := it.EmbeddedType(i).(type) {
			case *types.Union:
				return types.TypeString(e.Term(0).Type(), noPkg)
			default:
				if sub, isIface := e.Underlying().(*types.Interface); isIface {
					if r := union(sub); r != "" {
						return r
					}
				} else {
					return types.TypeString(e, noPkg)
				}
			}
		}
		return ""
	}
	if r := union(iface); r != "" {
		return r
	}
	if iface.NumMethods() > 0 {
		str := types.TypeString(c, noPkg)
		for name, arg := range subst {
			str = regexp.MustCompile(`\b`+regexp.QuoteMeta(name)+`\b`).ReplaceAllString(str, arg)
		}
		return str
	}
	if iface.IsComparable() {
		return "string"
	}
	return "any"
}

func leanStr(s string) string {
	var b strings.Builder
	b.WriteByte('"')
	for _, r := range s {
		switch {
		case r == '"' || r == '\\':
			b.WriteByte('\\')
			b.WriteRune(r)
		case r == '\n':
			b.WriteString("\\n")
		case r == '\t':
			b.WriteString("\\t")
		case r < 0x20:
			fmt.Fprintf(&b, "\\x%02x", r)
		default:
			b.WriteRune(r)
		}
	}
	b.WriteByte('"')
	return b.String()
}

func fatal(format string, a ...any) {
	fmt.Fprintf(os.Stderr, "effects: "+format+"\n", a...)
	os.Exit(1)
}
