package main

import (
	"fmt"
	"os"
	"strings"

	"golang.org/x/tools/go/ssa"
)

var debugAll func(w *world, all map[*ssa.Function]bool)

// debugSummaries prints the return summaries of the functions whose name contains pat (EFFECTS_DEBUG=pat)
func (w *world) debugSummaries() {
	pat := os.Getenv("EFFECTS_DEBUG")
	if pat == "" {
		return
	}
	for i, fi := range w.info {
		if strings.Contains(w.name[i], pat) {
			fmt.Fprintf(os.Stderr, "SUMMARY %-70s ret=%+v cont=%+v shared=%v allShared=%v\n", w.name[i], fi.ret, fi.retCont, fi.shared, w.allShared[i])
		}
	}
}

func init() {
	debugAll = func(w *world, all map[*ssa.Function]bool) {
		if os.Getenv("EFFECTS_DEBUG") == "" {
			return
		}
		for f := range all {
			if strings.Contains(f.String(), "TypedObject") || strings.Contains(f.String(), "WithSignals") {
				fmt.Fprintf(os.Stderr, "FUNC %s pkg=%q origin=%v synthetic=%q\n", f.String(), pkgPathOf(f), f.Origin() != nil, f.Synthetic)
			}
		}
	}
}

func (w *world) debugFunc() {
	pat := os.Getenv("EFFECTS_DUMP")
	if pat == "" {
		return
	}
	for i, f := range w.funcs {
		if w.name[i] == pat {
			f.WriteTo(os.Stderr)
			for _, a := range w.info[i].reads {
				fmt.Fprintf(os.Stderr, "RAWREAD %+v\n", a)
			}
		}
	}
}
