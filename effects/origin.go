package main

// Classification of writes (trusted part of the C13 argument; the Lean side only checks the table).
//
// For every SSA value of reference kind the analysis computes its ORIGIN: which memory the value may
// refer to, relative to the function it occurs in:
//
//	local        an allocation of this very call (Alloc, new, make, composite literals, the results of
//	             allocating library functions) - never shared between two calls;
//	param-direct the object a parameter (or captured variable) itself denotes: the pointee of a pointer
//	             parameter, the map/slice/channel passed. Shared iff some caller passes a shared object:
//	             decided by a fixpoint over the static call sites; a function that can be entered by
//	             interface dispatch, through a function value, reflectively or as a root has all its
//	             parameters shared;
//	param-deep   anything LOADED out of memory reachable from a parameter (field, element, map value,
//	             dereference): always treated as shared;
//	global       a package-level variable, or loaded from one: shared;
//	unknown      anything the rules below do not cover: shared.
//
// Loading a reference out of a LOCAL container yields the union of the origins of everything stored
// into that container (flattened over nesting); a local container handed to a function of the
// analysed packages, captured by a closure or stored elsewhere has unknown content. Results of calls:
// static calls to analysed functions use a summary of the returned values in terms of the callee's
// parameters; interface calls, function-value calls and library calls returning references are
// assumed to return something derived from any of their arguments.
//
// Goroutines started inside an operation would make "local" memory shared within one call; the table
// lists the functions containing a `go` statement and the Lean check requires none to be reachable.

import (
	"fmt"
	"go/token"
	"go/types"
	"path/filepath"
	"sort"
	"strings"

	"golang.org/x/tools/go/ssa"
)

type org struct {
	pdir, pdeep     uint64
	global, unknown bool
}

func (o org) union(p org) org {
	return org{o.pdir | p.pdir, o.pdeep | p.pdeep, o.global || p.global, o.unknown || p.unknown}
}
func (o org) deepen() org  { return org{0, o.pdeep | o.pdir, o.global, o.unknown} }
func (o org) isZero() bool { return o == org{} }

type access struct {
	fn     int
	kind   string
	target string
	pos    string
	guard  int
	lock   string // the mutex held ("Struct.field" or "global name"), "" if none
	org    org
	loc    string
}

type finfo struct {
	w       *world
	idx     int
	f       *ssa.Function
	nparams int
	val     map[ssa.Value]org
	cont    map[ssa.Value]org          // content of local root objects
	contrib map[ssa.Value][]func() org // what is stored into a local root
	ret     org                        // summary: origin of returned references (callee terms)
	retCont org                        // summary: content of returned references
	writes  []access
	reads   []access
	externs []access // library calls that receive a reference to shared memory (kind = callee name)
	spawns  bool
	shared  []bool // per parameter / free variable: may denote a shared object
}

var plCache = map[types.Type]bool{}

// pointerLike: values of this type may refer to memory
func pointerLike(t types.Type) bool {
	if t == nil {
		return false
	}
	if r, ok := plCache[t]; ok {
		return r
	}
	plCache[t] = true // recursive types go through a pointer
	var r bool
	switch u := t.Underlying().(type) {
	case *types.Basic:
		r = u.Kind() == types.UnsafePointer || u.Kind() == types.UntypedNil
	case *types.Struct:
		for i := 0; i < u.NumFields(); i++ {
			if pointerLike(u.Field(i).Type()) {
				r = true
			}
		}
	case *types.Array:
		r = pointerLike(u.Elem())
	case *types.Tuple:
		for i := 0; i < u.Len(); i++ {
			if pointerLike(u.At(i).Type()) {
				r = true
			}
		}
	default:
		r = true
	}
	plCache[t] = r
	return r
}

func (fi *finfo) bit(i int) org {
	if i >= 64 {
		return org{unknown: true}
	}
	return org{pdir: 1 << uint(i)}
}

func (fi *finfo) get(v ssa.Value) org {
	switch v := v.(type) {
	case nil:
		return org{}
	case *ssa.Parameter:
		if !pointerLike(v.Type()) {
			return org{}
		}
		for i, p := range fi.f.Params {
			if p == v {
				return fi.bit(i)
			}
		}
		return org{unknown: true}
	case *ssa.FreeVar:
		for i, p := range fi.f.FreeVars {
			if p == v {
				return fi.bit(fi.nparams + i)
			}
		}
		return org{unknown: true}
	case *ssa.Global:
		return org{global: true}
	case *ssa.Const, *ssa.Function, *ssa.Builtin:
		return org{}
	}
	return fi.val[v]
}

// rootsOf: the local objects v may denote directly
func rootsOf(v ssa.Value, seen map[ssa.Value]bool, out *[]ssa.Value) {
	if v == nil || seen[v] {
		return
	}
	seen[v] = true
	switch v := v.(type) {
	case *ssa.Alloc, *ssa.MakeMap, *ssa.MakeSlice, *ssa.MakeChan:
		*out = append(*out, v)
	case *ssa.FieldAddr:
		rootsOf(v.X, seen, out)
	case *ssa.IndexAddr:
		rootsOf(v.X, seen, out)
	case *ssa.Slice:
		rootsOf(v.X, seen, out)
	case *ssa.ChangeType:
		rootsOf(v.X, seen, out)
	case *ssa.Convert:
		rootsOf(v.X, seen, out)
	case *ssa.MakeInterface:
		rootsOf(v.X, seen, out)
	case *ssa.ChangeInterface:
		rootsOf(v.X, seen, out)
	case *ssa.TypeAssert:
		rootsOf(v.X, seen, out)
	case *ssa.SliceToArrayPointer:
		rootsOf(v.X, seen, out)
	case *ssa.Extract:
		rootsOf(v.Tuple, seen, out)
	case *ssa.Phi:
		for _, e := range v.Edges {
			rootsOf(e, seen, out)
		}
	case *ssa.Call:
		*out = append(*out, v) // content given by the callee summary
		if b, ok := v.Call.Value.(*ssa.Builtin); ok && (b.Name() == "append" || b.Name() == "ssa:wrapnilchk") {
			rootsOf(v.Call.Args[0], seen, out)
		}
	}
}

func roots(v ssa.Value) []ssa.Value {
	var out []ssa.Value
	rootsOf(v, map[ssa.Value]bool{}, &out)
	return out
}

// load: origin of a reference loaded out of the memory v denotes
func (fi *finfo) load(v ssa.Value) org {
	o := fi.get(v).deepen()
	for _, r := range roots(v) {
		o = o.union(fi.cont[r])
	}
	return o
}

func (fi *finfo) both(v ssa.Value) org {
	if v == nil || !pointerLike(v.Type()) {
		return org{}
	}
	return fi.get(v).union(fi.load(v))
}

// library functions whose reference results are fresh
var allocators = map[string]bool{
	"reflect.New": true, "reflect.MakeMap": true, "reflect.MakeMapWithSize": true, "reflect.MakeSlice": true,
	"reflect.Zero": true, "reflect.TypeOf": true, "reflect.MakeChan": true, "reflect.PointerTo": true,
	"reflect.PtrTo": true, "reflect.SliceOf": true, "reflect.MapOf": true,
	"regexp.MustCompile": true, "regexp.Compile": true, "errors.New": true, "fmt.Errorf": true,
	"strings.Split": true, "strings.SplitN": true, "strings.Fields": true, "strings.NewReader": true,
	"bytes.NewReader": true, "bytes.NewBuffer": true, "context.Background": true,
	"(*regexp.Regexp).FindStringSubmatch": true, "(*regexp.Regexp).SubexpNames": true,
	"(reflect.Value).Type": true, "(reflect.Value).MapKeys": true, "(reflect.Value).MapRange": true,
}

func calleeName(c *ssa.CallCommon) string {
	if c.IsInvoke() {
		return "invoke " + c.Method.Name()
	}
	if g := c.StaticCallee(); g != nil {
		return shortName(g)
	}
	if b, ok := c.Value.(*ssa.Builtin); ok {
		return "builtin " + b.Name()
	}
	return "dynamic"
}

func (fi *finfo) argsOf(c *ssa.CallCommon) []ssa.Value {
	var as []ssa.Value
	if c.IsInvoke() || c.StaticCallee() == nil {
		as = append(as, c.Value)
	}
	return append(as, c.Args...)
}

// calleeArg maps parameter / free variable index k of the static callee to the caller's value
func calleeArg(c *ssa.CallCommon, g *ssa.Function, k int) ssa.Value {
	if k < len(g.Params) {
		if k < len(c.Args) {
			return c.Args[k]
		}
		return nil
	}
	if mc, ok := c.Value.(*ssa.MakeClosure); ok {
		if k-len(g.Params) < len(mc.Bindings) {
			return mc.Bindings[k-len(g.Params)]
		}
	}
	return nil
}

func inScopeInterface(t types.Type) bool {
	n, ok := types.Unalias(t).(*types.Named)
	if !ok {
		return false
	}
	if _, isIface := n.Underlying().(*types.Interface); !isIface {
		return false
	}
	return n.Obj().Pkg() != nil && scopePkgs[n.Obj().Pkg().Path()]
}

func (fi *finfo) mapSummary(c *ssa.CallCommon, g *ssa.Function, s org) org {
	return fi.mapWith(func(k int) ssa.Value { return calleeArg(c, g, k) }, s)
}

func (fi *finfo) mapWith(argOf func(k int) ssa.Value, s org) org {
	res := org{global: s.global, unknown: s.unknown}
	for k := 0; k < 64; k++ {
		m := uint64(1) << uint(k)
		if s.pdir&m == 0 && s.pdeep&m == 0 {
			continue
		}
		a := argOf(k)
		if a == nil {
			res.unknown = true
			continue
		}
		if s.pdir&m != 0 {
			res = res.union(fi.get(a))
		}
		if s.pdeep&m != 0 {
			res = res.union(fi.load(a))
		}
	}
	return res
}

// callOrg: (origin of the result, content of the result)
func (fi *finfo) callOrg(call *ssa.Call) (org, org) {
	c := &call.Call
	if !pointerLike(call.Type()) {
		return org{}, org{}
	}
	if b, ok := c.Value.(*ssa.Builtin); ok {
		switch b.Name() {
		case "append":
			cont := org{}
			if len(c.Args) > 1 && pointerLike(c.Args[1].Type()) {
				cont = fi.load(c.Args[1])
			}
			return fi.get(c.Args[0]), cont
		case "ssa:wrapnilchk": // returns its first argument
			return fi.get(c.Args[0]), fi.load(c.Args[0])
		default:
			return org{}, org{}
		}
	}
	if g := c.StaticCallee(); g != nil {
		if j, ok := fi.w.id[g]; ok && len(g.Blocks) > 0 {
			gi := fi.w.info[j]
			return fi.mapSummary(c, g, gi.ret), fi.mapSummary(c, g, gi.retCont)
		}
		name := shortName(g)
		if allocators[name] {
			return org{}, org{}
		}
		if strings.HasPrefix(name, "maps.Clone[") || strings.HasPrefix(name, "slices.Clone[") {
			return org{}, fi.load(c.Args[0]) // a fresh container with the same elements
		}
		if strings.HasPrefix(name, "(reflect.Value).") && len(c.Args) > 0 {
			o := fi.both(c.Args[0]) // a view of the receiver
			return o, o
		}
	}
	if c.IsInvoke() && inScopeInterface(c.Value.Type()) {
		// an interface declared in the analysed packages: its implementations are the analysed ones
		// (schemas are composed of the SDK's own schema types)
		if callees := fi.w.siteCallees[call]; len(callees) > 0 {
			o, cont := org{}, org{}
			for _, j := range callees {
				g := fi.w.funcs[j]
				gi := fi.w.info[j]
				if len(g.Blocks) == 0 {
					o.unknown = true
					continue
				}
				argOf := func(k int) ssa.Value {
					if k == 0 {
						return c.Value
					}
					if k-1 < len(c.Args) && k < len(g.Params) {
						return c.Args[k-1]
					}
					return nil
				}
				o = o.union(fi.mapWith(argOf, gi.ret))
				cont = cont.union(fi.mapWith(argOf, gi.retCont))
			}
			return o, cont
		}
	}
	o := org{}
	for _, a := range fi.argsOf(c) {
		o = o.union(fi.both(a))
	}
	return o, o
}

func (fi *finfo) transfer(v ssa.Value) org {
	if !pointerLike(v.Type()) {
		return org{}
	}
	switch v := v.(type) {
	case *ssa.Alloc, *ssa.MakeMap, *ssa.MakeSlice, *ssa.MakeChan, *ssa.MakeClosure, *ssa.BinOp, *ssa.Range:
		return org{}
	case *ssa.UnOp:
		if v.Op == token.MUL || v.Op == token.ARROW {
			return fi.load(v.X)
		}
		return org{}
	case *ssa.FieldAddr:
		return fi.get(v.X)
	case *ssa.IndexAddr:
		return fi.get(v.X)
	case *ssa.Slice:
		return fi.get(v.X)
	case *ssa.Field:
		return fi.get(v.X).deepen().union(fi.load(v.X))
	case *ssa.Index:
		return fi.get(v.X).deepen().union(fi.load(v.X))
	case *ssa.Lookup:
		return fi.load(v.X)
	case *ssa.Phi:
		o := org{}
		for _, e := range v.Edges {
			o = o.union(fi.get(e))
		}
		return o
	case *ssa.Select:
		o := org{}
		for _, st := range v.States {
			if st.Dir == types.RecvOnly {
				o = o.union(fi.load(st.Chan))
			}
		}
		return o
	case *ssa.TypeAssert:
		return fi.get(v.X)
	case *ssa.ChangeType:
		return fi.get(v.X)
	case *ssa.Convert:
		return fi.get(v.X)
	case *ssa.MultiConvert:
		return fi.get(v.X)
	case *ssa.ChangeInterface:
		return fi.get(v.X)
	case *ssa.MakeInterface:
		return fi.get(v.X)
	case *ssa.SliceToArrayPointer:
		return fi.get(v.X)
	case *ssa.Extract:
		return fi.get(v.Tuple)
	case *ssa.Next:
		if r, ok := v.Iter.(*ssa.Range); ok {
			return fi.load(r.X)
		}
		return org{unknown: true}
	case *ssa.Call:
		o, _ := fi.callOrg(v)
		return o
	}
	return org{unknown: true}
}

// capturedReadOnly: closure g only ever loads its k-th captured variable, and stores no reference
// into memory reached from it, nor hands a reference loaded from it to a call
func capturedReadOnly(g *ssa.Function, k int) bool {
	if k >= len(g.FreeVars) || len(g.Blocks) == 0 {
		return false
	}
	fv := g.FreeVars[k]
	for _, ref := range *fv.Referrers() {
		if u, ok := ref.(*ssa.UnOp); !ok || u.Op != token.MUL {
			return false
		}
	}
	derived := func(v ssa.Value) bool { return v != nil && baseOf(v, 0) == ssa.Value(fv) }
	for _, b := range g.Blocks {
		for _, ins := range b.Instrs {
			switch ins := ins.(type) {
			case *ssa.Store:
				if derived(ins.Addr) && pointerLike(ins.Val.Type()) {
					return false
				}
			case *ssa.MapUpdate:
				if derived(ins.Map) && (pointerLike(ins.Value.Type()) || pointerLike(ins.Key.Type())) {
					return false
				}
			case *ssa.Send:
				if derived(ins.Chan) {
					return false
				}
			case *ssa.MakeClosure:
				for _, bnd := range ins.Bindings {
					if derived(bnd) {
						return false
					}
				}
			case ssa.CallInstruction:
				c := ins.Common()
				if _, ok := c.Value.(*ssa.Builtin); ok {
					continue
				}
				for _, a := range append([]ssa.Value{c.Value}, c.Args...) {
					if derived(a) && pointerLike(a.Type()) {
						if _, isFn := a.(*ssa.Function); !isFn {
							return false
						}
					}
				}
			}
		}
	}
	return true
}

// prepare collects what is stored into the local roots of the function
func (fi *finfo) prepare() {
	add := func(target ssa.Value, f func() org) {
		for _, r := range roots(target) {
			fi.contrib[r] = append(fi.contrib[r], f)
		}
	}
	unknown := func() org { return org{unknown: true} }
	escape := func(v ssa.Value) {
		if v != nil && pointerLike(v.Type()) {
			add(v, unknown)
		}
	}
	for _, b := range fi.f.Blocks {
		for _, ins := range b.Instrs {
			switch ins := ins.(type) {
			case *ssa.Store:
				val := ins.Val
				add(ins.Addr, func() org { return fi.both(val) })
				if _, isAlloc := ins.Addr.(*ssa.Alloc); !isAlloc {
					escape(val)
				}
			case *ssa.MapUpdate:
				k, val := ins.Key, ins.Value
				add(ins.Map, func() org { return fi.both(k).union(fi.both(val)) })
				escape(val)
				escape(k)
			case *ssa.Send:
				x := ins.X
				add(ins.Chan, func() org { return fi.both(x) })
				escape(x)
			case *ssa.MakeClosure:
				for k, bnd := range ins.Bindings {
					if g, ok := ins.Fn.(*ssa.Function); ok && capturedReadOnly(g, k) {
						continue
					}
					escape(bnd)
				}
			case *ssa.Go:
				fi.spawns = true
				for _, a := range fi.argsOf(&ins.Call) {
					escape(a)
				}
			case ssa.CallInstruction: // *ssa.Call, *ssa.Defer
				c := ins.Common()
				if bi, ok := c.Value.(*ssa.Builtin); ok {
					switch bi.Name() {
					case "append": // handled as a root of its own
					case "copy":
						src := c.Args[1]
						add(c.Args[0], func() org { return fi.load(src) })
					}
					continue
				}
				inScope := false
				if g := c.StaticCallee(); g != nil {
					_, inScope = fi.w.id[g]
				} else {
					inScope = true // interface or function-value call: may reach analysed code
				}
				args := fi.argsOf(c)
				for _, a := range args {
					if !pointerLike(a.Type()) {
						continue
					}
					if inScope {
						add(a, unknown)
					} else {
						add(a, func() org {
							o := org{}
							for _, b := range args {
								o = o.union(fi.both(b))
							}
							return o
						})
					}
				}
			}
		}
	}
	// a call result is a root whose content the summary gives
	for _, b := range fi.f.Blocks {
		for _, ins := range b.Instrs {
			if call, ok := ins.(*ssa.Call); ok && pointerLike(call.Type()) {
				c := call
				fi.contrib[c] = append(fi.contrib[c], func() org { _, cont := fi.callOrg(c); return cont })
			}
		}
	}
}

// step runs one round of the per-function fixpoint; reports whether anything changed
func (fi *finfo) step() bool {
	changed := false
	for {
		inner := false
		for _, b := range fi.f.Blocks {
			for _, ins := range b.Instrs {
				v, ok := ins.(ssa.Value)
				if !ok {
					continue
				}
				n := fi.val[v].union(fi.transfer(v))
				if n != fi.val[v] {
					fi.val[v] = n
					inner = true
				}
			}
		}
		for r, fs := range fi.contrib {
			n := fi.cont[r]
			for _, f := range fs {
				n = n.union(f())
			}
			if n != fi.cont[r] {
				fi.cont[r] = n
				inner = true
			}
		}
		if !inner {
			break
		}
		changed = true
	}
	ret, retCont := fi.ret, fi.retCont
	for _, b := range fi.f.Blocks {
		for _, ins := range b.Instrs {
			if r, ok := ins.(*ssa.Return); ok {
				for _, x := range r.Results {
					if pointerLike(x.Type()) {
						ret = ret.union(fi.get(x))
						retCont = retCont.union(fi.load(x))
					}
				}
			}
		}
	}
	if ret != fi.ret || retCont != fi.retCont {
		fi.ret, fi.retCont = ret, retCont
		changed = true
	}
	return changed
}

func (w *world) sharedOrg(i int, o org) bool {
	if o.unknown || o.global || o.pdeep != 0 {
		return true
	}
	fi := w.info[i]
	for k := 0; k < 64 && k < len(fi.shared); k++ {
		if o.pdir&(1<<uint(k)) != 0 && fi.shared[k] {
			return true
		}
	}
	return o.pdir>>uint(len(fi.shared)) != 0
}

func (w *world) analyse() {
	w.info = make([]*finfo, len(w.funcs))
	for i, f := range w.funcs {
		fi := &finfo{w: w, idx: i, f: f, nparams: len(f.Params), val: map[ssa.Value]org{},
			cont: map[ssa.Value]org{}, contrib: map[ssa.Value][]func() org{}}
		fi.shared = make([]bool, len(f.Params)+len(f.FreeVars))
		w.info[i] = fi
	}
	for _, fi := range w.info {
		fi.prepare()
	}
	for round := 0; ; round++ {
		changed := false
		for _, fi := range w.info {
			if fi.step() {
				changed = true
			}
		}
		if !changed {
			break
		}
		if round > 100 {
			fatal("summary fixpoint does not converge")
		}
	}
	// which parameters may denote shared objects
	for i, fi := range w.info {
		all := w.allShared[i]
		// a closure value that is used other than by calling it directly gets its arguments from elsewhere
		for _, mc := range w.closures[i] {
			for _, ref := range *mc.Referrers() {
				if ci, ok := ref.(ssa.CallInstruction); ok && ci.Common().Value == mc {
					continue
				}
				all = true
			}
		}
		if fi.f.Parent() != nil && len(w.closures[i]) == 0 {
			all = true
			for k := range fi.shared {
				fi.shared[k] = true
			}
		}
		if all {
			for k := 0; k < fi.nparams; k++ {
				fi.shared[k] = true
			}
		}
	}
	for changed := true; changed; {
		changed = false
		for j, fj := range w.info {
			for _, site := range w.statics[j] {
				ci := w.info[site.caller]
				for k, a := range site.args {
					if k < len(fj.shared) && !fj.shared[k] && w.sharedOrg(site.caller, ci.get(a)) {
						fj.shared[k] = true
						changed = true
					}
				}
			}
			for _, mc := range w.closures[j] {
				pi := w.id[mc.Parent()]
				for k, bnd := range mc.Bindings {
					kk := fj.nparams + k
					if kk < len(fj.shared) && !fj.shared[kk] && w.sharedOrg(pi, w.info[pi].get(bnd)) {
						fj.shared[kk] = true
						changed = true
					}
				}
			}
		}
	}
	for _, fi := range w.info {
		fi.collect()
	}
}

// ---- writes, reads, guards -------------------------------------------------------------------

var mutators = map[string]int{ // library functions that write through an argument: its index
	"sort.Slice": 0, "sort.SliceStable": 0, "sort.Sort": 0, "sort.Stable": 0, "sort.Strings": 0, "sort.Ints": 0,
	"sort.Float64s": 0, "encoding/json.Unmarshal": 1, "(*encoding/json.Decoder).Decode": 1,
	"github.com/fxamacker/cbor/v2.Unmarshal": 1, "(*github.com/fxamacker/cbor/v2.Decoder).Decode": 1,
	"gopkg.in/yaml.v3.Unmarshal": 1, "reflect.Copy": 0, "errors.As": 1,
}

func isMutator(name string) (int, bool) {
	if i, ok := mutators[name]; ok {
		return i, true
	}
	if strings.HasPrefix(name, "(reflect.Value).Set") {
		return 0, true
	}
	return 0, false
}

// synchronisation operations are what guards are made of, not writes
func isSyncOp(name string) bool {
	return strings.HasPrefix(name, "(*sync.") || strings.HasPrefix(name, "sync/atomic.") || strings.HasPrefix(name, "(*sync/atomic.")
}

// externName: the library function without its type arguments
func externName(g *ssa.Function) string {
	if o := g.Origin(); o != nil {
		g = o
	}
	return shortName(g)
}

func (fi *finfo) pos(p token.Pos) string {
	if !p.IsValid() {
		return ""
	}
	ps := fi.w.fset.Position(p)
	return fmt.Sprintf("%s:%d", filepath.Base(ps.Filename), ps.Line)
}

func structName(t types.Type) string {
	if p, ok := t.Underlying().(*types.Pointer); ok {
		t = p.Elem()
	}
	if n, ok := types.Unalias(t).(*types.Named); ok {
		return n.Origin().Obj().Name()
	}
	return "struct"
}

func fieldOf(x ssa.Value, idx int) (string, string) {
	t := x.Type()
	if p, ok := t.Underlying().(*types.Pointer); ok {
		t = p.Elem()
	}
	st, ok := t.Underlying().(*types.Struct)
	if !ok {
		return "?", "?"
	}
	return structName(t), st.Field(idx).Name()
}

func describe(v ssa.Value, seen map[ssa.Value]bool) string {
	if v == nil {
		return "nil"
	}
	if seen[v] {
		return "…"
	}
	seen[v] = true
	switch v := v.(type) {
	case *ssa.Parameter:
		return v.Name()
	case *ssa.FreeVar:
		return "^" + v.Name()
	case *ssa.Global:
		return v.Name()
	case *ssa.FieldAddr:
		_, f := fieldOf(v.X, v.Field)
		return describe(v.X, seen) + "." + f
	case *ssa.Field:
		_, f := fieldOf(v.X, v.Field)
		return describe(v.X, seen) + "." + f
	case *ssa.IndexAddr:
		return describe(v.X, seen) + "[]"
	case *ssa.Index:
		return describe(v.X, seen) + "[]"
	case *ssa.Lookup:
		return describe(v.X, seen) + "[]"
	case *ssa.UnOp:
		return describe(v.X, seen)
	case *ssa.Slice:
		return describe(v.X, seen)
	case *ssa.TypeAssert:
		return describe(v.X, seen)
	case *ssa.ChangeType:
		return describe(v.X, seen)
	case *ssa.Convert:
		return describe(v.X, seen)
	case *ssa.ChangeInterface:
		return describe(v.X, seen)
	case *ssa.MakeInterface:
		return describe(v.X, seen)
	case *ssa.Extract:
		return describe(v.Tuple, seen)
	case *ssa.Next:
		if r, ok := v.Iter.(*ssa.Range); ok {
			return describe(r.X, seen) + "[range]"
		}
	case *ssa.Phi:
		var parts []string
		have := map[string]bool{}
		for _, e := range v.Edges {
			d := describe(e, seen)
			if !have[d] {
				have[d] = true
				parts = append(parts, d)
			}
		}
		sort.Strings(parts)
		return "phi(" + strings.Join(parts, "|") + ")"
	case *ssa.Call:
		if isNilChk(v) {
			return describe(v.Call.Args[0], seen)
		}
		return calleeName(&v.Call) + "()"
	case *ssa.Alloc:
		return "local"
	case *ssa.MakeMap, *ssa.MakeSlice, *ssa.MakeChan:
		return "made"
	case *ssa.Const:
		return "const"
	}
	return fmt.Sprintf("?%T", v)
}

// locOf: the struct field the target lives in or hangs off ("Struct.field"), "" if none
func locOf(v ssa.Value, depth int) string {
	if v == nil || depth > 20 {
		return ""
	}
	switch v := v.(type) {
	case *ssa.FieldAddr:
		s, f := fieldOf(v.X, v.Field)
		return s + "." + f
	case *ssa.IndexAddr:
		return locOf(v.X, depth+1)
	case *ssa.UnOp:
		return locOf(v.X, depth+1)
	case *ssa.Slice:
		return locOf(v.X, depth+1)
	case *ssa.Lookup:
		return locOf(v.X, depth+1)
	case *ssa.Global:
		return v.Name()
	}
	return ""
}

// baseOf: the parameter, captured variable or global an address is computed from
func baseOf(v ssa.Value, depth int) ssa.Value {
	if v == nil || depth > 30 {
		return nil
	}
	switch v := v.(type) {
	case *ssa.Parameter, *ssa.FreeVar, *ssa.Global:
		return v
	case *ssa.FieldAddr:
		return baseOf(v.X, depth+1)
	case *ssa.Field:
		return baseOf(v.X, depth+1)
	case *ssa.IndexAddr:
		return baseOf(v.X, depth+1)
	case *ssa.Index:
		return baseOf(v.X, depth+1)
	case *ssa.Lookup:
		return baseOf(v.X, depth+1)
	case *ssa.UnOp:
		return baseOf(v.X, depth+1)
	case *ssa.Slice:
		return baseOf(v.X, depth+1)
	case *ssa.TypeAssert:
		return baseOf(v.X, depth+1)
	case *ssa.ChangeType:
		return baseOf(v.X, depth+1)
	case *ssa.Call:
		if isNilChk(v) {
			return baseOf(v.Call.Args[0], depth+1)
		}
		return nil
	case *ssa.Phi:
		var b ssa.Value
		for _, e := range v.Edges {
			if _, isConst := e.(*ssa.Const); isConst {
				continue
			}
			x := baseOf(e, depth+1)
			if x == nil || (b != nil && x != b) {
				return nil
			}
			b = x
		}
		return b
	}
	return nil
}

func isNilChk(c *ssa.Call) bool {
	b, ok := c.Call.Value.(*ssa.Builtin)
	return ok && b.Name() == "ssa:wrapnilchk"
}

type ipos struct {
	b *ssa.BasicBlock
	i int
}

type lockOp struct {
	at       ipos
	mutex    ssa.Value
	read     bool // RLock / RUnlock
	deferred bool
}

func sameMutex(a, b ssa.Value) bool {
	if a == b {
		return true
	}
	fa, ok1 := a.(*ssa.FieldAddr)
	fb, ok2 := b.(*ssa.FieldAddr)
	if ok1 && ok2 && fa.Field == fb.Field {
		if fa.X == fb.X {
			return true
		}
		ba, bb := baseOf(fa.X, 0), baseOf(fb.X, 0)
		return ba != nil && ba == bb && describe(fa.X, map[ssa.Value]bool{}) == describe(fb.X, map[ssa.Value]bool{})
	}
	return false
}

// after: can control flow from just after p reach q
func after(p, q ipos) bool {
	if p.b == q.b && p.i < q.i {
		return true
	}
	seen := map[*ssa.BasicBlock]bool{}
	stack := append([]*ssa.BasicBlock{}, p.b.Succs...)
	for len(stack) > 0 {
		b := stack[len(stack)-1]
		stack = stack[:len(stack)-1]
		if seen[b] {
			continue
		}
		seen[b] = true
		if b == q.b {
			return true
		}
		stack = append(stack, b.Succs...)
	}
	return false
}

func dominates(p, q ipos) bool {
	if p.b == q.b {
		return p.i < q.i
	}
	return p.b.Dominates(q.b)
}

// onceGuarded: the function is a closure whose only use is as the argument of (*sync.Once).Do
func (fi *finfo) onceGuarded() bool {
	sites := fi.w.closures[fi.idx]
	if fi.f.Parent() == nil || len(sites) == 0 {
		return false
	}
	for _, mc := range sites {
		refs := *mc.Referrers()
		if len(refs) != 1 {
			return false
		}
		call, ok := refs[0].(*ssa.Call)
		if !ok {
			return false
		}
		g := call.Call.StaticCallee()
		if g == nil || shortName(g) != "(*sync.Once).Do" || len(call.Call.Args) != 2 || call.Call.Args[1] != mc {
			return false
		}
		switch baseOf(call.Call.Args[0], 0).(type) {
		case *ssa.Parameter, *ssa.Global, *ssa.FreeVar:
		default:
			return false
		}
	}
	return true
}

func (fi *finfo) collect() {
	var locks, unlocks []lockOp
	for _, b := range fi.f.Blocks {
		for i, ins := range b.Instrs {
			ci, ok := ins.(ssa.CallInstruction)
			if !ok {
				continue
			}
			g := ci.Common().StaticCallee()
			if g == nil || len(ci.Common().Args) < 1 {
				continue
			}
			_, deferred := ins.(*ssa.Defer)
			op := lockOp{at: ipos{b, i}, mutex: ci.Common().Args[0], deferred: deferred}
			switch shortName(g) {
			case "(*sync.Mutex).Lock", "(*sync.RWMutex).Lock":
				if !deferred {
					locks = append(locks, op)
				}
			case "(*sync.RWMutex).RLock":
				op.read = true
				if !deferred {
					locks = append(locks, op)
				}
			case "(*sync.Mutex).Unlock", "(*sync.RWMutex).Unlock":
				unlocks = append(unlocks, op)
			case "(*sync.RWMutex).RUnlock":
				op.read = true
				unlocks = append(unlocks, op)
			}
		}
	}
	once := fi.onceGuarded()
	// guard of an access at position at, to memory based at target; reads may be guarded by RLock
	guardOf := func(at ipos, target ssa.Value, isRead bool) (int, string) {
		if once {
			return 3, "once"
		}
		tb := baseOf(target, 0)
		best, bestLock := 0, ""
		for _, l := range locks {
			if l.read && !isRead {
				continue
			}
			if !dominates(l.at, at) {
				continue
			}
			released := false
			for _, u := range unlocks {
				if u.deferred || !sameMutex(u.mutex, l.mutex) {
					continue
				}
				if after(l.at, u.at) && after(u.at, at) {
					released = true
				}
			}
			if released {
				continue
			}
			mb := baseOf(l.mutex, 0)
			switch mb.(type) {
			case *ssa.Global:
				if best == 0 {
					best, bestLock = 2, "global "+locOf(l.mutex, 0)
				}
			case *ssa.Parameter, *ssa.FreeVar:
				if tb != nil && tb == mb {
					best, bestLock = 1, locOf(l.mutex, 0)
				}
			}
		}
		return best, bestLock
	}
	write := func(at ipos, ins ssa.Instruction, kind string, target ssa.Value) {
		o := fi.get(target)
		if o.isZero() {
			return
		}
		gk, lock := guardOf(at, target, false)
		fi.writes = append(fi.writes, access{kind: kind, target: describe(target, map[ssa.Value]bool{}),
			pos: fi.pos(ins.Pos()), guard: gk, lock: lock, org: o, loc: locOf(target, 0)})
	}
	for _, b := range fi.f.Blocks {
		for i, ins := range b.Instrs {
			at := ipos{b, i}
			switch ins := ins.(type) {
			case *ssa.Store:
				write(at, ins, "store", ins.Addr)
			case *ssa.MapUpdate:
				write(at, ins, "mapupdate", ins.Map)
			case *ssa.Send:
				write(at, ins, "send", ins.Chan)
			case ssa.CallInstruction:
				c := ins.Common()
				if bi, ok := c.Value.(*ssa.Builtin); ok {
					switch bi.Name() {
					case "close", "delete", "copy", "append", "clear":
						write(at, ins, bi.Name(), c.Args[0])
					}
				} else if g := c.StaticCallee(); g != nil {
					if _, in := fi.w.id[g]; !in {
						if k, ok := isMutator(shortName(g)); ok && k < len(c.Args) {
							write(at, ins, "extern "+shortName(g), c.Args[k])
						} else if !isSyncOp(shortName(g)) {
							for _, a := range c.Args {
								if !pointerLike(a.Type()) {
									continue
								}
								if o := fi.get(a); !o.isZero() {
									fi.externs = append(fi.externs, access{kind: externName(g), org: o})
								}
							}
						}
					}
				}
			case *ssa.FieldAddr:
				// a read of the field unless the address is only stored through
				onlyStores := true
				for _, ref := range *ins.Referrers() {
					if st, ok := ref.(*ssa.Store); !ok || st.Addr != ins {
						onlyStores = false
					}
				}
				if onlyStores {
					continue
				}
				if o := fi.get(ins.X); !o.isZero() {
					s, f := fieldOf(ins.X, ins.Field)
					gk, lock := guardOf(at, ins, true)
					fi.reads = append(fi.reads, access{kind: "read", target: describe(ins, map[ssa.Value]bool{}),
						pos: fi.pos(ins.Pos()), guard: gk, lock: lock, org: o, loc: s + "." + f})
				}
			case *ssa.UnOp:
				// copying a whole struct reads every field it holds by value
				if ins.Op != token.MUL {
					continue
				}
				if _, ok := ins.Type().Underlying().(*types.Struct); !ok {
					continue
				}
				o := fi.get(ins.X)
				if o.isZero() {
					continue
				}
				gk, lock := guardOf(at, ins.X, true)
				for _, loc := range structLocs(ins.Type()) {
					fi.reads = append(fi.reads, access{kind: "copy", target: describe(ins.X, map[ssa.Value]bool{}) + "{" + loc + "}",
						pos: fi.pos(ins.Pos()), guard: gk, lock: lock, org: o, loc: loc})
				}
			}
		}
	}
}

var structLocCache = map[types.Type][]string{}

// structLocs: "Struct.field" for every field a value of struct type t holds by value (nested structs included)
func structLocs(t types.Type) []string {
	if r, ok := structLocCache[t]; ok {
		return r
	}
	var out []string
	st := t.Underlying().(*types.Struct)
	for i := 0; i < st.NumFields(); i++ {
		out = append(out, structName(t)+"."+st.Field(i).Name())
		if _, ok := st.Field(i).Type().Underlying().(*types.Struct); ok {
			out = append(out, structLocs(st.Field(i).Type())...)
		}
	}
	structLocCache[t] = out
	return out
}
