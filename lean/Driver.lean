import Lean.Data.Json
import ArcaModel.Model.Dispatch
import ArcaModel.Model.DispatchFunc
import ArcaModel.Model.DispatchCodegen
import ArcaModel.Model.DispatchStep
import ArcaModel.Model.DispatchEffects
import ArcaModel.Model.DispatchUnits
import ArcaModel.Model.DispatchAtpClient
import ArcaModel.Model.DispatchAtpServer
import ArcaModel.Model.DispatchDescribe
import ArcaModel.Model.DispatchLink
import ArcaModel.Model.DispatchStruct
/-
  Line-protocol driver: one JSON case per input line, one JSON result per output line.
  Runs the model's executable definitions; used by the correspondence checks.
-/
open Lean Arca

/-- every model's line-protocol handler: `op name → case → result` -/
def handlers : List (String → Json → Option (Except String Json)) :=
  [Arca.Dispatch.schemaHandler, Arca.Dispatch.funcHandler, Arca.Dispatch.codegenHandler, Arca.Dispatch.stepHandler, Arca.Dispatch.raceHandler, Arca.Dispatch.unitsHandler,
   Arca.Dispatch.atpClientHandler, Arca.Dispatch.atpServerHandler, Arca.Dispatch.describeHandler, Arca.Dispatch.linkHandler,
   Arca.Dispatch.structHandler]

partial def loop (stdin stdout : IO.FS.Stream) : IO Unit := do
  let line ← stdin.getLine
  if line.isEmpty then return ()
  let t := line.trimAscii.toString
  if t.isEmpty then loop stdin stdout else
  let out := match Json.parse t with
    | .error e => Json.mkObj [("r", "badjson"), ("msg", e)]
    | .ok j => Arca.Dispatch.handleWith handlers j
  stdout.putStrLn out.compress
  loop stdin stdout

def main : IO Unit := do
  loop (← IO.getStdin) (← IO.getStdout)
