import ArcaModel.Model.Basic
import ArcaModel.Model.Value
import ArcaModel.Model.Scalar
import ArcaModel.Model.Ops
import ArcaModel.Model.Dispatch
