import ArcaModel.Model.Describe
import ArcaModel.Lemmas.Out
import ArcaModel.Lemmas.Termination
/-
  Generic evaluation lemmas for `run .U` (used to evaluate the meta-schema on descriptions, C09).

  `Evals x env t v out`: with enough fuel, `Unserialize` of `v` by `t` in `env` yields `out`.
-/
namespace Arca
open Out

/-- with enough fuel the unserialization of `v` by `t` yields `out` -/
def Evals (x : Ext) (env : Env) (t : Ty) (v out : V) : Prop :=
  ∃ f0, ∀ f, f0 ≤ f → run x f .U env t v = .ok out

theorem Evals.intro {x : Ext} {env : Env} {t : Ty} {v out : V} (c : Nat)
    (h : ∀ k, run x (k + c) .U env t v = .ok out) : Evals x env t v out :=
  ⟨c, fun f hf => by
    obtain ⟨k, rfl⟩ := Nat.exists_eq_add_of_le hf
    rw [Nat.add_comm]; exact h k⟩

/-- one more level of the schema tree: if every `run x f` with `f` large gives the sub-results,
    `run x (f+1)` gives the result -/
theorem Evals.step {x : Ext} {env : Env} {t : Ty} {v out : V} (f0 : Nat)
    (h : ∀ f, f0 ≤ f → run x (f + 1) .U env t v = .ok out) : Evals x env t v out :=
  ⟨f0 + 1, fun f hf => by
    obtain ⟨k, rfl⟩ := Nat.exists_eq_add_of_le hf
    have := h (f0 + k) (Nat.le_add_right _ _)
    rw [show f0 + 1 + k = f0 + k + 1 by omega]; exact this⟩

@[simp] theorem Out.ds_bind_ok {α β} (a : α) (f : α → Out β) : (Out.ok a).bind f = f a := rfl
@[simp] theorem Out.ds_addSeg_ok {α} (a : α) (s : String) : (Out.ok a : Out α).addSeg s = .ok a := rfl

theorem all_mem' {α} {p : α → Bool} {l : List α} (h : l.all p = true) {a : α} (ha : a ∈ l) : p a = true := by
  simp only [List.all_eq_true] at h
  exact h a ha

/-! ### unfolding `run` one level -/

theorem run_int (x : Ext) (f : Nat) (op : Op) (env : Env) (a b : Option Int) (u : Option Units) (v : V) :
    run x (f + 1) op env (.int a b u) v = runInt op a b u v := rfl
theorem run_float (x : Ext) (f : Nat) (op : Op) (env : Env) (a b : Option Nat) (u : Option Units) (v : V) :
    run x (f + 1) op env (.float a b u) v = runFloat x op a b u v := rfl
theorem run_str (x : Ext) (f : Nat) (op : Op) (env : Env) (a b : Option Int) (p : Option String) (v : V) :
    run x (f + 1) op env (.str a b p) v = runStr x op a b p v := rfl
theorem run_bool (x : Ext) (f : Nat) (op : Op) (env : Env) (v : V) :
    run x (f + 1) op env .bool v = runBool op v := rfl
theorem run_pattern (x : Ext) (f : Nat) (op : Op) (env : Env) (v : V) :
    run x (f + 1) op env .pattern v = runPattern x op v := rfl
theorem run_list (x : Ext) (f : Nat) (op : Op) (env : Env) (item : Ty) (a b : Option Int) (v : V) :
    run x (f + 1) op env (.list item a b) v = runList (run x f) op env item a b v := rfl
theorem run_map (x : Ext) (f : Nat) (op : Op) (env : Env) (k e : Ty) (a b : Option Int) (v : V) :
    run x (f + 1) op env (.map k e a b) v = runMap (run x f) op env k e a b v := rfl
theorem run_obj (x : Ext) (f : Nat) (op : Op) (env : Env) (id : String) (props : List (String × PropT)) (v : V) :
    run x (f + 1) op env (.obj id props) v = runObj (run x f) op env id props v := rfl
theorem run_oneOf (x : Ext) (f : Nat) (op : Op) (env : Env) (ik : Bool) (d : String) (inl : Bool)
    (ms : List (Key × Ty)) (v : V) :
    run x (f + 1) op env (.oneOf ik d inl ms) v = runOneOf (run x f) x op env ik d inl ms v := rfl
theorem run_ref (x : Ext) (f : Nat) (op : Op) (env : Env) (id : String) (v : V) :
    run x (f + 1) op env (.ref id) v =
      match lookupS id env with
      | none => .panic
      | some o => run x f op env o v := rfl

/-! ### leaves -/

theorem evals_int {x : Ext} {env : Env} {a b : Option Int} {u : Option Units} {k : IKind} {n : Int}
    (hn : inInt64 n = true) (hc : checkInt a b n = .ok ()) :
    Evals x env (.int a b u) (.int k n) (.int .int64 n) :=
  Evals.intro 1 fun f => by
    simp [run_int, runInt, intInputMapper, hn, rewrapC, hc]

theorem evals_float {x : Ext} {env : Env} {b : Nat} :
    Evals x env (.float none none none) (.float .f64 b) (.float .f64 b) :=
  Evals.intro 1 fun f => by
    simp [run_float, runFloat, floatInputMapper, rewrapC, checkFloat]

theorem evals_str {x : Ext} {env : Env} {a b : Option Int} {p : Option String} {s : String}
    (hc : checkStr x a b p s = .ok ()) : Evals x env (.str a b p) (.str s) (.str s) :=
  Evals.intro 1 fun f => by
    simp [run_str, runStr, stringInputMapper, rewrapC, hc]

theorem evals_bool {x : Ext} {env : Env} {b : Bool} : Evals x env .bool (.bool b) (.bool b) :=
  Evals.intro 1 fun f => by simp [run_bool, runBool, boolInputMapper]

theorem evals_pattern {x : Ext} {env : Env} {s : String} (h : x.reCompiles s = true) :
    Evals x env .pattern (.str s) (.regex s) :=
  Evals.intro 1 fun f => by simp [run_pattern, runPattern, stringInputMapper, rewrapC, h]

theorem checkStr_none (x : Ext) (s : String) : checkStr x none none none s = .ok () := by
  simp [checkStr, checkLen]

theorem checkStr_min1 (x : Ext) (s : String) (h : 1 ≤ s.utf8ByteSize) : checkStr x (some 1) none none s = .ok () := by
  have : ¬ ((1 : Int) > (s.utf8ByteSize : Int)) := by omega
  simp [checkStr, checkLen, this]

/-! ### references -/

theorem evals_ref {x : Ext} {env : Env} {id : String} {o : Ty} {v out : V}
    (hl : lookupS id env = some o) (h : Evals x env o v out) : Evals x env (.ref id) v out := by
  obtain ⟨f0, hf⟩ := h
  exact Evals.step f0 fun f hle => by simp [run_ref, hl, hf f hle]

/-! ### lists of strings -/

theorem forIdx_strs (rec : Rec) (env : Env) (t : Ty) (h : ∀ s, rec .U env t (.str s) = .ok (.str s)) :
    ∀ (i : Nat) (ss : List String),
      forIdx (fun i e => (rec .U env t e).addSeg (idxSeg i)) i (ss.map V.str) = .ok (ss.map V.str)
  | _, [] => by simp [forIdx]
  | i, s :: rest => by
    simp [forIdx, h s, forIdx_strs rec env t h (i + 1) rest]

theorem evals_strList {x : Ext} {env : Env} (ss : List String) :
    Evals x env (.list (.str none none none) none none) (strList ss) (strList ss) :=
  Evals.intro 2 fun f => by
    have h : ∀ s, run x (f + 1) .U env (.str none none none) (.str s) = .ok (.str s) := fun s => by
      simp [run_str, runStr, stringInputMapper, rewrapC, checkStr_none]
    simp [run_list, runList, strList, V.sliceElems?, checkLen, forIdx_strs _ env _ h]

/-! ### objects -/

/-- the entries of a `map[string]any` built from a string-keyed list -/
def kvsOf (m : List (String × V)) : List (V × V) := m.map fun kv => (V.str kv.1, kv.2)

theorem toStrAny_eq (m : List (String × V)) : toStrAny m = .map .strAny (kvsOf m) := rfl
theorem Rep.obj_eq (r : Rep) (m : List (String × V)) : r.obj m = .map r.objShape (kvsOf m) := rfl
theorem Rep.typed_eq (r : Rep) (tid : String) (m : List (String × V)) :
    r.typed tid m = .map r.objShape (kvsOf (m ++ [("type_id", V.str tid)])) := rfl

/-- the keys of a string-keyed entry list -/
def keysOf {α} (m : List (String × α)) : List String := m.map (·.1)

theorem strKeys?_map (m : List (String × V)) : strKeys? (kvsOf m) = some m := by
  induction m with
  | nil => simp [strKeys?, kvsOf]
  | cons p rest ih =>
    obtain ⟨k, v⟩ := p
    simp only [kvsOf, List.map_cons] at *
    simp [strKeys?, ih]

theorem hasKey_append {α} (k : String) (a b : List (String × α)) : hasKey k (a ++ b) = (hasKey k a || hasKey k b) := by
  induction a with
  | nil => simp [hasKey, lookupS]
  | cons p rest ih =>
    obtain ⟨k', v⟩ := p
    simp only [hasKey, lookupS, List.cons_append] at *
    split <;> simp_all

theorem lookupS_append {α} (k : String) (a b : List (String × α)) :
    lookupS k (a ++ b) = match lookupS k a with
      | some v => some v
      | none => lookupS k b := by
  induction a with
  | nil => simp [lookupS]
  | cons p rest ih =>
    obtain ⟨k', v⟩ := p
    simp only [lookupS, List.cons_append]
    split <;> simp_all

/-- entry-wise evaluation of the entries of an object: same keys, each value unserialized by the
    type of its (declared, enabled) property -/
inductive EntEvals (x : Ext) (env : Env) (props : List (String × PropT)) :
    List (String × V) → List (String × V) → Prop
  | nil : EntEvals x env props [] []
  | cons {k : String} {p : PropT} {v v' : V} {rest rest' : List (String × V)} :
      lookupS k props = some p → p.disabled = false → Evals x env p.ty v v' →
      EntEvals x env props rest rest' → EntEvals x env props ((k, v) :: rest) ((k, v') :: rest')

theorem EntEvals.append {x : Ext} {env : Env} {props : List (String × PropT)} {a a' b b' : List (String × V)}
    (ha : EntEvals x env props a a') (hb : EntEvals x env props b b') : EntEvals x env props (a ++ b) (a' ++ b') := by
  induction ha with
  | nil => simpa using hb
  | cons h1 h2 h3 _ ih => exact .cons h1 h2 h3 ih

theorem EntEvals.one {x : Ext} {env : Env} {props : List (String × PropT)} {k : String} {p : PropT} {v v' : V}
    (h1 : lookupS k props = some p) (h2 : p.disabled = false) (h3 : Evals x env p.ty v v') :
    EntEvals x env props [(k, v)] [(k, v')] := .cons h1 h2 h3 .nil

theorem EntEvals.optF {α} {x : Ext} {env : Env} {props : List (String × PropT)} {k : String} {p : PropT}
    {f g : α → V} (o : Option α)
    (h1 : lookupS k props = some p) (h2 : p.disabled = false) (h3 : ∀ a, o = some a → Evals x env p.ty (f a) (g a)) :
    EntEvals x env props (optF k f o) (optF k g o) := by
  cases o with
  | none => exact .nil
  | some a => exact .one h1 h2 (h3 a rfl)

theorem EntEvals.keys {x : Ext} {env : Env} {props : List (String × PropT)} {m m' : List (String × V)}
    (h : EntEvals x env props m m') : keysOf m' = keysOf m := by
  induction h with
  | nil => rfl
  | cons _ _ _ _ ih => simp [keysOf] at *; exact ih

theorem hasKey_of_keys {α β} {m : List (String × α)} {m' : List (String × β)} (h : keysOf m' = keysOf m) (k : String) :
    hasKey k m' = hasKey k m := by
  induction m generalizing m' with
  | nil =>
    cases m' with
    | nil => rfl
    | cons p r => simp [keysOf] at h
  | cons p rest ih =>
    cases m' with
    | nil => simp [keysOf] at h
    | cons p' rest' =>
      obtain ⟨k1, v1⟩ := p
      obtain ⟨k2, v2⟩ := p'
      simp only [keysOf, List.map_cons, List.cons.injEq] at h
      obtain ⟨h1, h2⟩ := h
      subst h1
      have := ih (m' := rest') h2
      simp only [hasKey, lookupS] at *
      split <;> simp_all

theorem EntEvals.declared {x : Ext} {env : Env} {props : List (String × PropT)} {m m' : List (String × V)}
    (h : EntEvals x env props m m') : m.any (fun kv => !(hasKey kv.1 props)) = false := by
  induction h with
  | nil => rfl
  | cons h1 _ _ _ ih =>
    simp only [List.any_cons, hasKey, h1, Option.isSome_some, Bool.not_true, Bool.false_or]
    exact ih

theorem EntEvals.forSV {x : Ext} {env : Env} {props : List (String × PropT)} {m m' : List (String × V)}
    (h : EntEvals x env props m m') :
    ∃ f0, ∀ f, f0 ≤ f → forSV (objEntryU (run x f) env props) m = .ok m' := by
  induction h with
  | nil => exact ⟨0, fun _ _ => rfl⟩
  | cons h1 h2 h3 _ ih =>
    obtain ⟨f1, hf1⟩ := h3
    obtain ⟨f2, hf2⟩ := ih
    refine ⟨max f1 f2, fun f hf => ?_⟩
    have a := hf1 f (by omega)
    have b := hf2 f (by omega)
    simp [Arca.forSV, objEntryU, h1, h2, a, b]

/-- no default is pending: every property with a default is set -/
def noPending (props : List (String × PropT)) (m : List (String × V)) : Bool :=
  props.all fun kp => hasKey kp.1 m || kp.2.defaultV.isNone

theorem applyDefaults_noPending : ∀ (props : List (String × PropT)) (m : List (String × V)),
    noPending props m = true → applyDefaults props m = .ok m
  | [], m, _ => rfl
  | (id, p) :: rest, m, h => by
    simp only [noPending, List.all_cons, Bool.and_eq_true, Bool.or_eq_true] at h
    have ih := applyDefaults_noPending rest m (by simpa [noPending] using h.2)
    simp only [applyDefaults]
    rcases h.1 with h1 | h1
    · simp [h1, ih]
    · split
      · exact ih
      · cases hd : p.defaultV with
        | none => simp [ih]
        | some d => simp [hd] at h1

/-- the presence rules of the meta-schema: only `required` is used -/
def requiredSet (props : List (String × PropT)) (m : List (String × V)) : Bool :=
  props.all fun kp => (hasKey kp.1 m || !kp.2.required) && kp.2.requiredIf.isEmpty &&
    kp.2.requiredIfNot.isEmpty && kp.2.conflicts.isEmpty

theorem interdeps_requiredSet (props : List (String × PropT)) (m : List (String × V))
    (h : requiredSet props m = true) : interdeps props (fun k => hasKey k m) = .ok () := by
  unfold interdeps
  induction props with
  | nil => rfl
  | cons kp rest ih =>
    obtain ⟨id, p⟩ := kp
    simp only [requiredSet, List.all_cons, Bool.and_eq_true, Bool.or_eq_true, List.isEmpty_iff,
      Bool.not_eq_true'] at h
    obtain ⟨⟨⟨⟨h1, h2⟩, h3⟩, h4⟩, hr⟩ := h
    have ih' := ih (by simpa [requiredSet] using hr)
    simp only [interdeps.go]
    by_cases hk : hasKey id m = true
    · simp [hk, h4, ih']
    · have hk' : hasKey id m = false := by simpa using hk
      have : p.required = false := by simpa [hk'] using h1
      simp [hk', this, h2, h3, ih']

/-- `Unserialize` of an object on a map all of whose entries evaluate -/
theorem evals_obj {x : Ext} {env : Env} {id : String} {props : List (String × PropT)} {sh : MapShape}
    {m m' : List (String × V)} (hent : EntEvals x env props m m')
    (hdef : noPending props m = true) (hreq : requiredSet props m = true) :
    Evals x env (.obj id props) (.map sh (kvsOf m)) (toStrAny m') := by
  obtain ⟨f0, hf⟩ := hent.forSV
  refine Evals.step f0 fun f hle => ?_
  have hreq' : requiredSet props m' = true := by
    unfold requiredSet at *
    simpa [hasKey_of_keys hent.keys] using hreq
  simp [run_obj, runObj, objRaw, V.mapEntries?, strKeys?_map, hent.declared, applyDefaults_noPending _ _ hdef,
    hf f hle, interdeps_requiredSet _ _ hreq']

/-! ### maps -/

/-- entry-wise evaluation of the entries of a map -/
inductive KVEvals (x : Ext) (env : Env) (kt vt : Ty) : List (V × V) → List (V × V) → Prop
  | nil : KVEvals x env kt vt [] []
  | cons {k k' v v' : V} {rest rest' : List (V × V)} :
      Evals x env kt k k' → Evals x env vt v v' → KVEvals x env kt vt rest rest' →
      KVEvals x env kt vt ((k, v) :: rest) ((k', v') :: rest')

theorem KVEvals.length {x : Ext} {env : Env} {kt vt : Ty} {kvs kvs' : List (V × V)}
    (h : KVEvals x env kt vt kvs kvs') : kvs'.length = kvs.length := by
  induction h with
  | nil => rfl
  | cons _ _ _ ih => simp [ih]

theorem KVEvals.forKV {x : Ext} {env : Env} {kt vt : Ty} {kvs kvs' : List (V × V)}
    (h : KVEvals x env kt vt kvs kvs') :
    ∃ f0, ∀ f, f0 ≤ f → forKV (entryKV (run x f) .U env kt vt) kvs = .ok kvs' := by
  induction h with
  | nil => exact ⟨0, fun _ _ => rfl⟩
  | cons hk hv _ ih =>
    obtain ⟨f1, hf1⟩ := hk
    obtain ⟨f2, hf2⟩ := hv
    obtain ⟨f3, hf3⟩ := ih
    refine ⟨max f1 (max f2 f3), fun f hf => ?_⟩
    have a := hf1 f (by omega)
    have b := hf2 f (by omega)
    have c := hf3 f (by omega)
    simp [Arca.forKV, entryKV, a, b, c]

theorem evals_map {x : Ext} {env : Env} {kt vt : Ty} {a b : Option Int} {sh : MapShape} {kvs kvs' : List (V × V)}
    (h : KVEvals x env kt vt kvs kvs') (hlen : checkLen a b kvs.length = .ok ()) (hdup : dupKey kvs' = false) :
    Evals x env (.map kt vt a b) (.map sh kvs) (.map ⟨kt.keyTy, vt.reflectsAny⟩ kvs') := by
  obtain ⟨f0, hf⟩ := h.forKV
  exact Evals.step f0 fun f hle => by
    simp [run_map, runMap, V.mapEntries?, hlen, hf f hle, hdup]

/-! ### duplicate keys -/

theorem dupKey_go_of (kvs : List (V × V)) (ks : List Key) (seen : List Key)
    (hk : kvs.map (fun kv => kv.1.key?) = ks.map some) (hnd : (seen ++ ks).Nodup) :
    dupKey.go kvs seen = false := by
  induction kvs generalizing ks seen with
  | nil => rfl
  | cons kv rest ih =>
    obtain ⟨k, v⟩ := kv
    cases ks with
    | nil => simp at hk
    | cons key ks' =>
      simp only [List.map_cons, List.cons.injEq] at hk
      obtain ⟨hk1, hk2⟩ := hk
      simp only [dupKey.go, hk1]
      have hnot : seen.contains key = false := by
        rw [List.nodup_append] at hnd
        have := hnd.2.2
        simp only [List.contains_eq_mem, decide_eq_false_iff_not]
        intro hmem
        exact this key hmem key (by simp) rfl
      simp only [hnot]
      apply ih ks' (key :: seen) hk2
      rw [List.nodup_append] at hnd ⊢
      obtain ⟨h1, h2, h3⟩ := hnd
      simp only [List.nodup_cons] at h2
      refine ⟨?_, h2.2, ?_⟩
      · simp only [List.nodup_cons]
        refine ⟨?_, h1⟩
        intro hmem
        exact h3 key hmem key (by simp) rfl
      · intro a ha b hb
        simp only [List.mem_cons] at ha
        rcases ha with rfl | ha
        · intro hab; subst hab; exact h2.1 hb
        · exact h3 a ha b (by simp [hb])

theorem dupKey_false_of_keys (kvs : List (V × V)) (ks : List Key)
    (hk : kvs.map (fun kv => kv.1.key?) = ks.map some) (hnd : ks.Nodup) : dupKey kvs = false := by
  unfold dupKey
  exact dupKey_go_of kvs ks [] hk (by simpa using hnd)

/-! ### the `type_id` one-of -/

theorem eraseKey_append_last {α} (k : String) (v : α) (m : List (String × α)) (h : hasKey k m = false) :
    eraseKey k (m ++ [(k, v)]) = m := by
  induction m with
  | nil => simp [eraseKey]
  | cons p rest ih =>
    obtain ⟨k', v'⟩ := p
    simp only [hasKey, lookupS] at h
    split at h
    · simp at h
    · rename_i hne
      simp only [List.cons_append, eraseKey, hne]
      have : hasKey k rest = false := by simpa [hasKey] using h
      simp [ih this]

theorem setKey_absent {α} (k : String) (v : α) (m : List (String × α)) (h : hasKey k m = false) :
    setKey k v m = m ++ [(k, v)] := by
  induction m with
  | nil => simp [setKey]
  | cons p rest ih =>
    obtain ⟨k', v'⟩ := p
    simp only [hasKey, lookupS] at h
    split at h
    · simp at h
    · rename_i hne
      have : hasKey k rest = false := by simpa [hasKey] using h
      simp [setKey, hne, ih this]

theorem find?_append_last {α} (P : α → Bool) (b : α) : ∀ (l : List α), (∀ a, a ∈ l → P a = false) → P b = true →
    (l ++ [b]).find? P = some b
  | [], _, hb => by simp [List.find?, hb]
  | a :: rest, h, hb => by
    have ha : P a = false := h a (by simp)
    simp only [List.cons_append, List.find?_cons, ha]
    exact find?_append_last P b rest (fun a' ha' => h a' (by simp [ha'])) hb

theorem hasKey_false_mem {α} {k : String} {m : List (String × α)} (h : hasKey k m = false) :
    ∀ kv, kv ∈ m → (kv.1 == k) = false := by
  induction m with
  | nil => intro kv hkv; simp at hkv
  | cons p rest ih =>
    obtain ⟨k', v'⟩ := p
    simp only [hasKey, lookupS] at h
    split at h
    · simp at h
    · rename_i hne
      have hr : hasKey k rest = false := by simpa [hasKey] using h
      intro kv hkv
      simp only [List.mem_cons] at hkv
      rcases hkv with rfl | hkv
      · cases hb : (k' == k)
        · rfl
        · have : k' = k := by simpa using hb
          subst this; simp at hne
      · exact ih hr kv hkv

theorem find_disc (disc : String) (tid : V) (m : List (String × V)) (h : hasKey disc m = false) :
    (kvsOf (m ++ [(disc, tid)])).find? (isDiscKey disc) = some (V.str disc, tid) := by
  simp only [kvsOf, List.map_append, List.map_cons, List.map_nil]
  apply find?_append_last
  · intro a ha
    simp only [List.mem_map] at ha
    obtain ⟨kv, hkv, rfl⟩ := ha
    exact hasKey_false_mem h kv hkv
  · simp [isDiscKey]

theorem oneOfUnser_typed (rec : Rec) (x : Ext) (env : Env) {disc tid : String} {members : List (Key × Ty)} {mt : Ty}
    {sh : MapShape} (hsh : sh.key = .any ∨ sh.key = .string) {m m' : List (String × V)}
    (hm : lookupK (.s tid) members = some mt)
    (hnk : hasKey disc m = false) (hnk' : hasKey disc m' = false)
    (h : rec .U env mt (toStrAny m) = .ok (toStrAny m')) :
    oneOfUnser rec x env false disc false members (.map sh (kvsOf (m ++ [(disc, V.str tid)]))) =
      .ok (toStrAny (m' ++ [(disc, V.str tid)])) := by
  have hk : (!(sh.key == KeyTy.any || sh.key == KeyTy.string)) = false := by
    rcases hsh with h | h <;> simp [h]
  unfold oneOfUnser
  simp only [V.mapEntries?, hk, find_disc disc (V.str tid) m hnk, Bool.false_eq_true, ↓reduceIte,
    stringInputMapper, rewrapC, Out.ds_bind_ok, strKeys?_map, hm, eraseKey_append_last disc _ m hnk, h]
  simp only [toStrAny_eq, Key.toV]
  show (match V.map ⟨.string, true⟩ (kvsOf m') with
    | V.map ⟨.string, true⟩ rk =>
      (match strKeys? rk with
       | some rm => Out.ok (V.map MapShape.strAny (kvsOf (setKey disc (V.str tid) rm)))
       | none => Out.cerr)
    | _ => Out.ok (V.map MapShape.strAny (kvsOf m'))) = _
  simp only [strKeys?_map, setKey_absent disc _ m' hnk']

/-- `Unserialize` by a string-keyed, non-inlined one-of of a map carrying the discriminator last -/
theorem evals_typed {x : Ext} {env : Env} {disc tid : String} {members : List (Key × Ty)} {mt : Ty}
    {sh : MapShape} (hsh : sh.key = .any ∨ sh.key = .string) {m m' : List (String × V)}
    (hm : lookupK (.s tid) members = some mt)
    (hnk : hasKey disc m = false) (hnk' : hasKey disc m' = false)
    (h : Evals x env mt (toStrAny m) (toStrAny m')) :
    Evals x env (.oneOf false disc false members) (.map sh (kvsOf (m ++ [(disc, V.str tid)])))
      (toStrAny (m' ++ [(disc, V.str tid)])) := by
  obtain ⟨f0, hf⟩ := h
  exact Evals.step f0 fun f hle => by
    rw [run_oneOf]
    exact oneOfUnser_typed (run x f) x env hsh hm hnk hnk' (hf f hle)

end Arca
