import ArcaModel.Lemmas.Out
/-
  Characterisations of the traversal helpers: success means every element succeeded, and the
  error of a traversal is the error of its first failing element.
-/
namespace Arca
open Out

/-- two lists related element by element (core Lean has no `List.Forall₂`) -/
inductive Forall2 {α β} (R : α → β → Prop) : List α → List β → Prop
  | nil : Forall2 R [] []
  | cons {a b as bs} : R a b → Forall2 R as bs → Forall2 R (a :: as) (b :: bs)

theorem Forall2.length_eq {α β} {R : α → β → Prop} {as : List α} {bs : List β} (h : Forall2 R as bs) :
    as.length = bs.length := by
  induction h with
  | nil => rfl
  | cons _ _ ih => simp [ih]

/-- element-wise success of an indexed traversal -/
inductive AllIdx (f : Nat → V → Out V) : Nat → List V → List V → Prop
  | nil {n} : AllIdx f n [] []
  | cons {n x y xs ys} : f n x = .ok y → AllIdx f (n + 1) xs ys → AllIdx f n (x :: xs) (y :: ys)

theorem forIdx_ok_iff {f : Nat → V → Out V} : ∀ {n : Nat} {xs ys : List V},
    forIdx f n xs = .ok ys ↔ AllIdx f n xs ys := by
  intro n xs
  induction xs generalizing n with
  | nil =>
    intro ys
    constructor
    · intro h; simp [forIdx] at h; subst h; exact .nil
    · intro h; cases h; simp [forIdx]
  | cons x xs ih =>
    intro ys
    constructor
    · intro h
      simp only [forIdx] at h
      cases hx : f n x with
      | ok y =>
        rw [hx] at h
        simp only at h
        cases hr : forIdx f (n + 1) xs with
        | ok ys' =>
          rw [hr] at h
          simp at h
          subst h
          exact .cons hx (ih.mp hr)
        | err e => rw [hr] at h; simp at h
        | panic => rw [hr] at h; simp at h
        | fuel => rw [hr] at h; simp at h
      | err e => rw [hx] at h; simp at h
      | panic => rw [hx] at h; simp at h
      | fuel => rw [hx] at h; simp at h
    · intro h
      cases h with
      | cons hx hr =>
        simp only [forIdx, hx, ih.mpr hr]

theorem AllIdx.length {f : Nat → V → Out V} {n : Nat} {xs ys : List V} (h : AllIdx f n xs ys) :
    ys.length = xs.length := by
  induction h with
  | nil => rfl
  | cons _ _ ih => simp [ih]

/-- the first failing element decides the error of the traversal -/
theorem forIdx_err_first {f : Nat → V → Out V} {n : Nat} {pre : List V} {x : V} {post : List V} {pre' : List V} {e : Err}
    (hpre : AllIdx f n pre pre') (hx : f (n + pre.length) x = .err e) :
    forIdx f n (pre ++ x :: post) = .err e := by
  induction hpre with
  | nil => simp [forIdx] at hx ⊢; simp [hx]
  | @cons n a b as bs ha _ ih =>
    simp only [List.cons_append, forIdx, ha]
    have : forIdx f (n + 1) (as ++ x :: post) = .err e := by
      apply ih
      simpa [Nat.add_assoc, Nat.add_comm 1] using hx
    simp [this]

/-- element-wise success of a map traversal -/
inductive AllKV (f : V → V → Out (V × V)) : List (V × V) → List (V × V) → Prop
  | nil : AllKV f [] []
  | cons {k v kv rest rest'} : f k v = .ok kv → AllKV f rest rest' → AllKV f ((k, v) :: rest) (kv :: rest')

theorem forKV_ok_iff {f : V → V → Out (V × V)} : ∀ {kvs kvs' : List (V × V)},
    forKV f kvs = .ok kvs' ↔ AllKV f kvs kvs' := by
  intro kvs
  induction kvs with
  | nil =>
    intro kvs'
    constructor
    · intro h; simp [forKV] at h; subst h; exact .nil
    · intro h; cases h; simp [forKV]
  | cons p rest ih =>
    obtain ⟨k, v⟩ := p
    intro kvs'
    constructor
    · intro h
      simp only [forKV] at h
      cases hx : f k v with
      | ok y =>
        rw [hx] at h
        simp only at h
        cases hr : forKV f rest with
        | ok ys' =>
          rw [hr] at h
          simp at h
          subst h
          exact .cons hx (ih.mp hr)
        | err e => rw [hr] at h; simp at h
        | panic => rw [hr] at h; simp at h
        | fuel => rw [hr] at h; simp at h
      | err e => rw [hx] at h; simp at h
      | panic => rw [hx] at h; simp at h
      | fuel => rw [hx] at h; simp at h
    · intro h
      cases h with
      | cons hx hr => simp only [forKV, hx, ih.mpr hr]

theorem forKV_err_first {f : V → V → Out (V × V)} {pre : List (V × V)} {k v : V} {post : List (V × V)}
    {pre' : List (V × V)} {e : Err} (hpre : AllKV f pre pre') (hx : f k v = .err e) :
    forKV f (pre ++ (k, v) :: post) = .err e := by
  induction hpre with
  | nil => simp [forKV, hx]
  | cons ha _ ih => simp [forKV, ha, ih]

/-- element-wise success of a string-keyed traversal -/
inductive AllSV (f : String → V → Out V) : List (String × V) → List (String × V) → Prop
  | nil : AllSV f [] []
  | cons {k v v' rest rest'} : f k v = .ok v' → AllSV f rest rest' → AllSV f ((k, v) :: rest) ((k, v') :: rest')

theorem forSV_ok_iff {f : String → V → Out V} : ∀ {kvs kvs' : List (String × V)},
    forSV f kvs = .ok kvs' ↔ AllSV f kvs kvs' := by
  intro kvs
  induction kvs with
  | nil =>
    intro kvs'
    constructor
    · intro h; simp [forSV] at h; subst h; exact .nil
    · intro h; cases h; simp [forSV]
  | cons p rest ih =>
    obtain ⟨k, v⟩ := p
    intro kvs'
    constructor
    · intro h
      simp only [forSV] at h
      cases hx : f k v with
      | ok y =>
        rw [hx] at h
        simp only at h
        cases hr : forSV f rest with
        | ok ys' =>
          rw [hr] at h
          simp at h
          subst h
          exact .cons hx (ih.mp hr)
        | err e => rw [hr] at h; simp at h
        | panic => rw [hr] at h; simp at h
        | fuel => rw [hr] at h; simp at h
      | err e => rw [hx] at h; simp at h
      | panic => rw [hx] at h; simp at h
      | fuel => rw [hx] at h; simp at h
    · intro h
      cases h with
      | cons hx hr => simp only [forSV, hx, ih.mpr hr]

theorem forSV_err_first {f : String → V → Out V} {pre : List (String × V)} {k : String} {v : V}
    {post : List (String × V)} {pre' : List (String × V)} {e : Err} (hpre : AllSV f pre pre') (hx : f k v = .err e) :
    forSV f (pre ++ (k, v) :: post) = .err e := by
  induction hpre with
  | nil => simp [forSV, hx]
  | cons ha _ ih => simp [forSV, ha, ih]

end Arca
