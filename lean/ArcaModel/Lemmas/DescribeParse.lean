import ArcaModel.Lemmas.DescribeEval
import ArcaModel.Lemmas.DescribeMeta
/-
  `ofDescription` reads the normal representation of a description back into the schema tree it
  describes (C09).
-/
namespace Arca
open Parse

theorem fields?_norm (m : List (String × V)) : fields? (Rep.norm.obj m) = some m := by
  show strKeys? (kvsOf m) = some m
  exact strKeys?_map m

theorem lookupS_optF_self {α} (k : String) (f : α → V) (o : Option α) : lookupS k (optF k f o) = o.map f := by
  cases o <;> simp [optF, lookupS]

theorem lookupS_optF_ne {α} (k k' : String) (f : α → V) (o : Option α) (h : (k == k') = false) :
    lookupS k (optF k' f o) = none := by
  cases o <;> simp [optF, lookupS, h]

@[simp] theorem Rep.norm_int (n : Int) : Rep.norm.int n = .int .int64 n := rfl
@[simp] theorem Rep.norm_kv (kt : KeyTy) (va : Bool) (kvs : List (V × V)) : Rep.norm.kv kt va kvs = .map ⟨kt, va⟩ kvs := rfl
@[simp] theorem Rep.norm_pat (s : String) : Rep.norm.pat s = .regex s := rfl

theorem intKeyed_nil {α} (f : V → Option α) : intKeyed f [] = some [] := rfl
theorem intKeyed_cons {α} (f : V → Option α) (k : Int) (v : V) (rest : List (V × V)) {a : α} {as : List (Int × α)}
    (h1 : f v = some a) (h2 : intKeyed f rest = some as) :
    intKeyed f ((.int .int64 k, v) :: rest) = some ((k, a) :: as) := by
  simp only [intKeyed] at h2 ⊢
  simp [h1, h2]

theorem strKeyed_nil {α} (f : V → Option α) : strKeyed f [] = some [] := rfl
theorem strKeyed_cons {α} (f : V → Option α) (k : String) (v : V) (rest : List (V × V)) {a : α} {as : List (String × α)}
    (h1 : f v = some a) (h2 : strKeyed f rest = some as) :
    strKeyed f ((.str k, v) :: rest) = some ((k, a) :: as) := by
  simp only [strKeyed] at h2 ⊢
  simp [h1, h2]

theorem parse_disp (d : Disp) : disp (descDisp .norm d) = some d := by
  obtain ⟨a, b, c⟩ := d
  simp only [disp, descDisp, fields?_norm]
  cases a <;> cases b <;> cases c <;> simp [optF, optStr, lookupS]

theorem parse_unit (u : UnitNames) : unit (descUnit .norm u) = some u := by
  simp [unit, descUnit, fields?_norm, reqStr, lookupS]

theorem parse_mults : ∀ (ms : List (Int × UnitNames)), intKeyed unit (descMults .norm ms) = some ms
  | [] => rfl
  | (m, n) :: rest => by
    simp only [descMults, Rep.norm_int]
    exact intKeyed_cons _ _ _ _ (parse_unit n) (parse_mults rest)

theorem parse_units (u : Units) : units (descUnits .norm u) = some u := by
  simp [units, descUnits, fields?_norm, lookupS, parse_unit, entries, parse_mults]

theorem parse_optUnits (m : List (String × V)) (u : Option Units)
    (h : lookupS "units" m = u.map (descUnits .norm)) : optUnits m = some u := by
  cases u <;> simp_all [optUnits, parse_units]

theorem parse_intVals : ∀ (vs : List (Int × Disp)), intKeyed disp (descIntVals .norm vs) = some vs
  | [] => rfl
  | (n, d) :: rest => by
    simp only [descIntVals, Rep.norm_int]
    exact intKeyed_cons _ _ _ _ (parse_disp d) (parse_intVals rest)

theorem parse_strVals : ∀ (vs : List (String × Disp)), strKeyed disp (descStrVals .norm vs) = some vs
  | [] => rfl
  | (n, d) :: rest => by
    simp only [descStrVals]
    exact strKeyed_cons _ _ _ _ (parse_disp d) (parse_strVals rest)

theorem mapM_strs : ∀ (ss : List String),
    (ss.map V.str).mapM (fun v => match v with | V.str s => some s | _ => none) = some ss
  | [] => rfl
  | s :: rest => by simp [mapM_strs rest]

theorem parse_strs (m : List (String × V)) (k : String) (ss : List String) (h : lookupS k m = some (strList ss)) :
    strs m k = some ss := by
  simp only [strs, h, strList]
  exact mapM_strs ss

theorem strs_cons_hit (m : List (String × V)) (k : String) (ss : List String) :
    strs ((k, strList ss) :: m) k = some ss := parse_strs _ _ _ (by simp [lookupS])

theorem strs_cons_miss (m : List (String × V)) (k k' : String) (v : V) (h : (k == k') = false) :
    strs ((k', v) :: m) k = strs m k := by
  simp [strs, lookupS, h]

/-! ### one type -/

theorem lookupS_snoc_ne {α} (k k' : String) (v : α) (m : List (String × α)) (h : (k == k') = false) :
    lookupS k (m ++ [(k', v)]) = lookupS k m := by
  rw [lookupS_append]
  cases lookupS k m <;> simp [lookupS, h]

theorem lookupS_none_of_hasKey {α} {k : String} {m : List (String × α)} (h : hasKey k m = false) : lookupS k m = none := by
  simpa [hasKey] using h

theorem ty_step (n : Nat) (t : DTy) :
    Parse.ty (n + 1) (descTy .norm t) = tyOf (Parse.ty n) t.typeId (descTyF .norm t ++ [("type_id", V.str t.typeId)]) := by
  have : reqStr (descTyF .norm t ++ [("type_id", V.str t.typeId)]) "type_id" = some t.typeId := by
    simp [reqStr, lookupS_append, lookupS_none_of_hasKey (noTypeId .norm t), lookupS]
  simp [Parse.ty, descTy, Rep.typed, fields?_norm, this]

theorem tid_int (a b : Option Int) (u : Option Units) : (DTy.int a b u).typeId = "integer" := rfl
theorem tid_float (a b : Option Nat) (u : Option Units) : (DTy.float a b u).typeId = "float" := rfl
theorem tid_str (a b : Option Int) (p : Option String) : (DTy.str a b p).typeId = "string" := rfl
theorem tid_enumInt (vs : List (Int × Disp)) (u : Option Units) : (DTy.enumInt vs u).typeId = "enum_integer" := rfl
theorem tid_enumStr (vs : List (String × Disp)) : (DTy.enumStr vs).typeId = "enum_string" := rfl
theorem tid_list (i : DTy) (a b : Option Int) : (DTy.list i a b).typeId = "list" := rfl
theorem tid_map (k v : DTy) (a b : Option Int) : (DTy.map k v a b).typeId = "map" := rfl
theorem tid_obj (o : DObj) : (DTy.obj o).typeId = "object" := rfl
theorem tid_oneOfInt (d : String) (inl : Bool) (ms : List (Key × DTy)) : (DTy.oneOf true d inl ms).typeId = "one_of_int" := rfl
theorem tid_oneOfStr (d : String) (inl : Bool) (ms : List (Key × DTy)) : (DTy.oneOf false d inl ms).typeId = "one_of_string" := rfl
theorem tid_ref (id ns : String) (d : Option Disp) : (DTy.ref id ns d).typeId = "ref" := rfl
theorem tid_scope (objs : List (String × DObj)) (root : String) : (DTy.scope objs root).typeId = "scope" := rfl

theorem parse_int (n : Nat) (a b : Option Int) (u : Option Units) :
    Parse.ty (n + 1) (descTy .norm (.int a b u)) = some (.int a b u) := by
  rw [ty_step]
  cases a <;> cases b <;> cases u <;>
    simp [tid_int, tyOf, pInt, descTyF, optF, optInt, optUnits, lookupS, parse_units]

theorem parse_float (n : Nat) (a b : Option Nat) (u : Option Units) :
    Parse.ty (n + 1) (descTy .norm (.float a b u)) = some (.float a b u) := by
  rw [ty_step]
  cases a <;> cases b <;> cases u <;>
    simp [tid_float, tyOf, pFloat, descTyF, optF, optFloat, optUnits, lookupS, parse_units, f64]

theorem parse_str (n : Nat) (a b : Option Int) (p : Option String) :
    Parse.ty (n + 1) (descTy .norm (.str a b p)) = some (.str a b p) := by
  rw [ty_step]
  cases a <;> cases b <;> cases p <;>
    simp [tid_str, tyOf, pStr, descTyF, optF, optInt, optPattern, lookupS]

theorem parse_enumInt (n : Nat) (vs : List (Int × Disp)) (u : Option Units) :
    Parse.ty (n + 1) (descTy .norm (.enumInt vs u)) = some (.enumInt vs u) := by
  rw [ty_step]
  cases u <;>
    simp [tid_enumInt, tyOf, pEnumInt, descTyF, optF, entries, optUnits, lookupS, parse_units, parse_intVals]

theorem parse_enumStr (n : Nat) (vs : List (String × Disp)) :
    Parse.ty (n + 1) (descTy .norm (.enumStr vs)) = some (.enumStr vs) := by
  rw [ty_step]
  simp [tid_enumStr, tyOf, pEnumStr, descTyF, entries, lookupS, parse_strVals]

theorem parse_ref (n : Nat) (id ns : String) (d : Option Disp) :
    Parse.ty (n + 1) (descTy .norm (.ref id ns d)) = some (.ref id ns d) := by
  rw [ty_step]
  cases d <;>
    simp [tid_ref, tyOf, pRef, descTyF, optF, strOr, optDisp, lookupS, parse_disp]

theorem parse_list_of (n : Nat) (item : DTy) (a b : Option Int)
    (h : Parse.ty n (descTy .norm item) = some item) :
    Parse.ty (n + 1) (descTy .norm (.list item a b)) = some (.list item a b) := by
  rw [ty_step]
  have h' : Parse.ty n (Rep.norm.typed item.typeId (descTyF .norm item)) = some item := h
  cases a <;> cases b <;>
    simp [tid_list, tyOf, pList, descTyF, optF, optInt, lookupS, h']

theorem parse_map_of (n : Nat) (k v : DTy) (a b : Option Int)
    (hk : Parse.ty n (descTy .norm k) = some k) (hv : Parse.ty n (descTy .norm v) = some v) :
    Parse.ty (n + 1) (descTy .norm (.map k v a b)) = some (.map k v a b) := by
  rw [ty_step]
  have hk' : Parse.ty n (Rep.norm.typed k.typeId (descTyF .norm k)) = some k := hk
  have hv' : Parse.ty n (Rep.norm.typed v.typeId (descTyF .norm v)) = some v := hv
  cases a <;> cases b <;>
    simp [tid_map, tyOf, pMap, descTyF, optF, optInt, lookupS, hk', hv']

theorem parse_obj_of (recTy : V → Option DTy) (id : String) (unenf : Bool) (props : List (String × DProp))
    (h : strKeyed (prop recTy) (descProps .norm props) = some props) (extra : List (String × V)) :
    obj recTy (descObjF .norm (.mk id unenf props) ++ extra) = some (.mk id unenf props) := by
  simp [obj, descObjF, entries, lookupS, strOr, boolOr, h]

theorem strs_hit (m : List (String × V)) (k : String) (ss : List String) (h : lookupS k m = some (strList ss)) :
    strs m k = some ss := parse_strs m k ss h

theorem parse_prop_of (recTy : V → Option DTy) (ty : DTy) (disp : Option Disp) (req : Bool)
    (rif rifn conf : List String) (dflt : Option String) (ex : List String) (dis : Bool) (reason : Option String)
    (h : recTy (descTy .norm ty) = some ty) :
    prop recTy (descProp .norm (.mk ty disp req rif rifn conf dflt ex dis reason)) =
      some (.mk ty disp req rif rifn conf dflt ex dis reason) := by
  have h' : recTy (Rep.norm.typed ty.typeId (descTyF .norm ty)) = some ty := h
  simp only [prop, descProp, fields?_norm]
  generalize Rep.norm.typed ty.typeId (descTyF .norm ty) = T at h'
  cases disp <;> cases dflt <;> cases reason <;> (
    simp only [optF, List.append_nil, List.nil_append, List.cons_append, Option.bind_eq_bind, Option.bind_some]
    rw [strs_hit _ "required_if" rif (by simp [lookupS]), strs_hit _ "required_if_not" rifn (by simp [lookupS]),
      strs_hit _ "conflicts" conf (by simp [lookupS]), strs_hit _ "examples" ex (by simp [lookupS])]
    simp [lookupS, h', optDisp, parse_disp, boolOr, optStr])

/-- the `Object` fields, possibly followed by the `type_id` -/
theorem parse_objF_of (recTy : V → Option DTy) (id : String) (unenf : Bool) (props : List (String × DProp))
    (h : strKeyed (prop recTy) (descProps .norm props) = some props) (extra : List (String × V)) :
    obj recTy (descObjF .norm (.mk id unenf props) ++ extra) = some (.mk id unenf props) := by
  simp [obj, descObjF, entries, lookupS, strOr, boolOr, h]

theorem parse_scopeF_of (recTy : V → Option DTy) (objs : List (String × DObj)) (root : String)
    (h : strKeyed (objV recTy) (descObjs .norm objs) = some objs) (extra : List (String × V)) :
    scope recTy (descTyF .norm (.scope objs root) ++ extra) = some (.scope objs root) := by
  simp [scope, descTyF, entries, lookupS, strOr, h]

theorem parse_oneOfF_of (recTy : V → Option DTy) (ik : Bool) (d : String) (inl : Bool) (ms : List (Key × DTy))
    (h : members recTy ik (descMembers .norm ms) = some ms) (extra : List (String × V)) :
    pOneOf recTy ik (descTyF .norm (.oneOf ik d inl ms) ++ extra) = some (.oneOf ik d inl ms) := by
  cases ik <;> simp [pOneOf, descTyF, entries, lookupS, strOr, boolOr, h]

theorem members_nil (recTy : V → Option DTy) (ik : Bool) : members recTy ik [] = some [] := rfl

theorem members_cons (recTy : V → Option DTy) (ik : Bool) (k : Key) (v : V) (rest : List (V × V)) {t : DTy}
    {ms : List (Key × DTy)} (hk : keyKindOK ik k = true) (h1 : recTy v = some t)
    (h2 : members recTy ik rest = some ms) :
    members recTy ik ((k.rep .norm, v) :: rest) = some ((k, t) :: ms) := by
  simp only [members] at h2 ⊢
  cases k with
  | i n =>
    have : ik = true := by simpa [keyKindOK] using hk
    subst this
    simp [Key.rep, h1, h2]
  | s s =>
    have : ik = false := by simpa [keyKindOK] using hk
    subst this
    simp [Key.rep, h1, h2]

/-! ### the induction over the schema tree -/

theorem size_pos (t : DTy) : 0 < t.size := by
  cases t <;> simp [DTy.size]

theorem objV_norm (recTy : V → Option DTy) (m : List (String × V)) : objV recTy (Rep.norm.obj m) = obj recTy m := by
  simp [objV, fields?_norm]

mutual
theorem parse_ty {x : Ext} : (t : DTy) → describable x t = true → (n : Nat) → t.size ≤ n →
    Parse.ty n (descTy .norm t) = some t
  | t, _, 0, h => by have := size_pos t; omega
  | .int a b u, _, n + 1, _ => parse_int n a b u
  | .float a b u, _, n + 1, _ => parse_float n a b u
  | .str a b p, _, n + 1, _ => parse_str n a b p
  | .bool, _, n + 1, _ => by rw [ty_step]; rfl
  | .pattern, _, n + 1, _ => by rw [ty_step]; rfl
  | .any, _, n + 1, _ => by rw [ty_step]; rfl
  | .enumInt vs u, _, n + 1, _ => parse_enumInt n vs u
  | .enumStr vs, _, n + 1, _ => parse_enumStr n vs
  | .list item a b, hd, n + 1, h => by
    simp only [DTy.size] at h
    simp only [describable, Bool.and_eq_true] at hd
    exact parse_list_of n item a b (parse_ty item hd.1.1 n (by omega))
  | .map k v a b, hd, n + 1, h => by
    simp only [DTy.size] at h
    simp only [describable, Bool.and_eq_true] at hd
    exact parse_map_of n k v a b (parse_ty k hd.1.1.1.2 n (by omega)) (parse_ty v hd.1.1.2 n (by omega))
  | .obj o, hd, n + 1, h => by
    simp only [DTy.size] at h
    simp only [describable] at hd
    rw [ty_step, tid_obj]
    show pObj (Parse.ty n) (descObjF .norm o ++ _) = _
    simp only [pObj, parse_objF o hd n (by omega)]
    rfl
  | .oneOf ik d inl ms, hd, n + 1, h => by
    simp only [DTy.size] at h
    simp only [describable, Bool.and_eq_true, decide_eq_true_eq] at hd
    have hm := parse_members ik ms hd.1.2 hd.2 n (by omega)
    rw [ty_step]
    cases ik with
    | true =>
      rw [tid_oneOfInt]
      show pOneOf (Parse.ty n) true _ = _
      exact parse_oneOfF_of _ true d inl ms hm _
    | false =>
      rw [tid_oneOfStr]
      show pOneOf (Parse.ty n) false _ = _
      exact parse_oneOfF_of _ false d inl ms hm _
  | .ref id ns d, _, n + 1, _ => parse_ref n id ns d
  | .scope objs root, hd, n + 1, h => by
    simp only [DTy.size] at h
    simp only [describable, Bool.and_eq_true, decide_eq_true_eq] at hd
    rw [ty_step, tid_scope]
    show scope (Parse.ty n) _ = _
    exact parse_scopeF_of _ objs root (parse_objs objs hd.2 n (by omega)) _
termination_by structural t => t
theorem parse_objF {x : Ext} : (o : DObj) → describableObj x o = true → (n : Nat) → o.size ≤ n → ∀ extra,
    obj (Parse.ty n) (descObjF .norm o ++ extra) = some o
  | .mk id unenf props, hd, n, h => by
    simp only [DObj.size] at h
    simp only [describableObj, Bool.and_eq_true] at hd
    intro extra
    exact parse_objF_of _ id unenf props (parse_props props hd.2 n (by omega)) extra
termination_by structural o => o
theorem parse_props {x : Ext} : (ps : List (String × DProp)) → describableProps x ps = true → (n : Nat) →
    DTy.sizeProps ps ≤ n → strKeyed (prop (Parse.ty n)) (descProps .norm ps) = some ps
  | [], _, _, _ => rfl
  | (k, p) :: rest, hd, n, h => by
    simp only [DTy.sizeProps] at h
    simp only [describableProps, Bool.and_eq_true] at hd
    simp only [descProps]
    exact strKeyed_cons _ _ _ _ (parse_prop p hd.1.2 n (by omega)) (parse_props rest hd.2 n (by omega))
termination_by structural ps => ps
theorem parse_prop {x : Ext} : (p : DProp) → describableProp x p = true → (n : Nat) → p.size ≤ n →
    prop (Parse.ty n) (descProp .norm p) = some p
  | .mk ty disp req rif rifn conf dflt ex dis reason, hd, n, h => by
    simp only [DProp.size] at h
    simp only [describableProp, Bool.and_eq_true] at hd
    exact parse_prop_of _ ty disp req rif rifn conf dflt ex dis reason (parse_ty ty hd.1 n (by omega))
termination_by structural p => p
theorem parse_members {x : Ext} (ik : Bool) : (ms : List (Key × DTy)) →
    (ms.all fun m => match m.1 with | .i _ => ik | .s _ => !ik) = true → describableMembers x ms = true →
    (n : Nat) → DTy.sizeMembers ms ≤ n → members (Parse.ty n) ik (descMembers .norm ms) = some ms
  | [], _, _, _, _ => rfl
  | (k, t) :: rest, hk, hd, n, h => by
    simp only [DTy.sizeMembers] at h
    simp only [describableMembers, Bool.and_eq_true] at hd
    simp only [List.all_cons, Bool.and_eq_true] at hk
    simp only [descMembers]
    exact members_cons _ ik k _ _ hk.1 (parse_ty t hd.1.2 n (by omega)) (parse_members ik rest hk.2 hd.2 n (by omega))
termination_by structural ms => ms
theorem parse_objs {x : Ext} : (objs : List (String × DObj)) → describableObjs x objs = true → (n : Nat) →
    DTy.sizeObjs objs ≤ n → strKeyed (objV (Parse.ty n)) (descObjs .norm objs) = some objs
  | [], _, _, _ => rfl
  | (k, o) :: rest, hd, n, h => by
    simp only [DTy.sizeObjs] at h
    simp only [describableObjs, Bool.and_eq_true] at hd
    simp only [descObjs]
    refine strKeyed_cons _ _ _ _ ?_ (parse_objs rest hd.2 n (by omega))
    rw [objV_norm]
    have := parse_objF o hd.1.2 n (by omega) []
    simpa using this
termination_by structural objs => objs
end

/-- `ofDescription` reads the normal representation of the description of a scope back -/
theorem parse_scope {x : Ext} (objs : List (String × DObj)) (root : String)
    (h : describable x (.scope objs root) = true) (n : Nat) (hn : (DTy.scope objs root).size ≤ n + 1) :
    ofDescription n (describeR .norm (.scope objs root)) = some (.scope objs root) := by
  simp only [DTy.size] at hn
  simp only [describable, Bool.and_eq_true, decide_eq_true_eq] at h
  simp only [ofDescription, describeR, fields?_norm]
  have := parse_scopeF_of (Parse.ty n) objs root (parse_objs objs h.2 n (by omega)) []
  simpa using this

end Arca
