import ArcaModel.Model.Ops
/-
  Generic lemmas about `Out` and the traversal helpers.
-/
namespace Arca

namespace Out

/-- "does not panic" -/
def NP {α} (o : Out α) : Prop := o ≠ .panic

@[simp] theorem np_ok {α} (a : α) : NP (Out.ok a) := by simp [NP]
@[simp] theorem np_err {α} (e : Err) : NP (Out.err e : Out α) := by simp [NP]
@[simp] theorem np_fuel {α} : NP (Out.fuel : Out α) := by simp [NP]
@[simp] theorem np_panic {α} : ¬ NP (Out.panic : Out α) := by simp [NP]
@[simp] theorem np_cerr {α} : NP (Out.cerr : Out α) := by simp [NP, cerr]
@[simp] theorem np_plain {α} : NP (Out.plain : Out α) := by simp [NP, plain]
@[simp] theorem np_cerrAt {α} (p : List String) : NP (Out.cerrAt p : Out α) := by simp [NP, cerrAt]

theorem np_bind {α β} {a : Out α} {f : α → Out β} (ha : NP a) (hf : ∀ x, NP (f x)) : NP (a.bind f) := by
  cases a <;> simp_all [NP, bind]

theorem np_bind' {α β} {a : Out α} {f : α → Out β} (ha : NP a) (hf : ∀ x, a = .ok x → NP (f x)) : NP (a.bind f) := by
  cases a <;> simp_all [NP, bind]

theorem bind_eq_ok {α β} {a : Out α} {f : α → Out β} {r : β} (h : a.bind f = .ok r) :
    ∃ x, a = .ok x ∧ f x = .ok r := by
  cases a <;> simp_all [bind]

theorem np_addSeg {α} {a : Out α} (s : String) (ha : NP a) : NP (a.addSeg s) := by
  cases a <;> simp_all [NP, addSeg]

end Out

open Out

theorem np_rewrapC {α} {a : Out α} (ha : NP a) : NP (rewrapC a) := by
  cases a <;> simp_all [rewrapC]

theorem rewrapC_eq_ok {α} {a : Out α} {r : α} : rewrapC a = .ok r ↔ a = .ok r := by
  cases a <;> simp [rewrapC, Out.cerr]

theorem rewrapP_eq_ok {α} {a : Out α} {r : α} : rewrapP a = .ok r ↔ a = .ok r := by
  cases a <;> simp [rewrapP, Out.plain]

theorem np_rewrapP {α} {a : Out α} (ha : NP a) : NP (rewrapP a) := by
  cases a <;> simp_all [rewrapP]

theorem np_forIdx {f : Nat → V → Out V} (hf : ∀ i x, NP (f i x)) : ∀ (n : Nat) (xs : List V), NP (forIdx f n xs)
  | _, [] => by simp [forIdx]
  | n, x :: xs => by
    have h1 := hf n x
    have h2 := np_forIdx hf (n + 1) xs
    simp only [forIdx]
    cases hx : f n x <;> simp_all
    cases hr : forIdx f (n + 1) xs <;> simp_all

theorem np_forKV {f : V → V → Out (V × V)} (hf : ∀ k v, NP (f k v)) : ∀ (kvs : List (V × V)), NP (forKV f kvs)
  | [] => by simp [forKV]
  | (k, v) :: rest => by
    have h1 := hf k v
    have h2 := np_forKV hf rest
    simp only [forKV]
    cases hx : f k v <;> simp_all
    cases hr : forKV f rest <;> simp_all

theorem np_forSV {f : String → V → Out V} (hf : ∀ k v, NP (f k v)) : ∀ (kvs : List (String × V)), NP (forSV f kvs)
  | [] => by simp [forSV]
  | (k, v) :: rest => by
    have h1 := hf k v
    have h2 := np_forSV hf rest
    simp only [forSV]
    cases hx : f k v <;> simp_all
    cases hr : forSV f rest <;> simp_all

end Arca
