import ArcaModel.Lemmas.StructRoundTripObj
import ArcaModel.Lemmas.StructRoundTripColl
import ArcaModel.Lemmas.StructOneOf
/-
  The end-to-end round trip over whole trees: induction over the budget.
-/
namespace Arca
namespace SM
open Out

/-! ### the whole tree -/

/-- The hypotheses of the end-to-end round trip, with a budget bound `d` (every budget from `d` on
    works): leaves satisfy C01's `WF1`; struct-mapped objects are well-formed, exactly
    typed, round-trip-faithful pairs (`rtPropB`); slices and maps of such trees, the map keys being
    `WF1` leaves. -/
inductive RTOK : Nat → STy → Prop
  | leaf {d t} : WF1 [] t → RTOK d (.leaf t)
  | scope {d t} : RTOK d t → RTOK (d + 1) (.scope t)
  | list {d item a b} : RTOK d item → RTOK (d + 1) (.list item a b)
  | map {d k v a b} : WF1 [] k → RTOK d v → RTOK (d + 1) (.map k v a b)
  /-- a one-of with a SEPARATE discriminator: the members are struct-mapped objects that do not
      declare the discriminator, of pairwise distinct struct types -/
  | oneOf {d ik disc members} : (∀ m, m ∈ members → RTOK d m.2) → (∀ m, m ∈ members → ObjLikeS m.2) →
      (∀ m, m ∈ members → NoDisc disc m.2) → (members.map fun m => reflTy m.2).Nodup →
      RTOK (d + 1) (.oneOf ik disc false members)
  /-- a one-of with an INLINED discriminator: the members are struct-mapped objects that declare
      the discriminator as a leaf of the key kind (with or without treat-empty-as-default), of
      pairwise distinct struct types -/
  | oneOfInl {d ik disc members} : (∀ m, m ∈ members → RTOK d m.2) → (∀ m, m ∈ members → ObjLikeS m.2) →
      (∀ m, m ∈ members → InlDisc ik disc m.2) → (members.map fun m => reflTy m.2).Nodup →
      RTOK (d + 1) (.oneOf ik disc true members)
  | obj {d id st ptrT props} : WFObj st props → exactObjB st props = true →
      (∀ kp, kp ∈ props → rtPropB st props kp = true) → (∀ kp, kp ∈ props → RTOK (d + 2) kp.2.ty) →
      RTOK (d + 3) (.obj id st ptrT props)

theorem rt_leaf (x : Ext) (f : Nat) (t : Ty) (hwf : WF1 [] t) : RTAt (srun x (f + 1)) (.leaf t) := by
  intro v s hU
  simp only [srun, runLeaf] at hU
  split at hU
  · simp [Out.cerr] at hU
  · rename_i v0 _
    cases hr : run x f SOp.U.toOp [] t v0 with
    | ok r =>
      simp only [hr, Out.ok.injEq] at hU
      subst hU
      obtain ⟨hV, w, hS, hU2⟩ := C01_roundtrip_closed_partial x f t v0 r hwf hr
      simp only [done] at hV
      refine ⟨by simp [srun, runLeaf, SV.toV?, SOp.toOp, hV], w, .val r, ?_, ?_, .refl, ?_, ?_, fun _ => rfl⟩
      · simp [srun, runLeaf, SV.toV?, SOp.toOp, hS]
      · simp [srun, runLeaf, SV.toV?, SOp.toOp, hU2]
      · simp [srun, runLeaf, SV.toV?, SOp.toOp, hS]
      · simp [srun, runLeaf, SV.toV?, SOp.toOp, hV]
    | err e => simp [hr] at hU
    | panic => simp [hr] at hU
    | fuel => simp [hr] at hU

/-- the round trip of every tree within the hypotheses, together with the inlined-member form of
    it (`RTInl`) for the trees that may be members of an inlined one-of -/
theorem rt_all2 (x : Ext) : ∀ (fuel d : Nat) (t : STy), RTOK d t → d ≤ fuel →
    RTAt (srun x fuel) t ∧ ∀ ik disc, InlDisc ik disc t → RTInl (srun x fuel) x ik disc t
  | 0, _, _, _, _ => ⟨by intro v s hU; simp [srun] at hU, by intro _ _ _ mIn s d key hU; simp [srun] at hU⟩
  | f + 1, d, t, hok, hd => by
    cases hok with
    | leaf h => exact ⟨rt_leaf x f _ h, fun _ _ hin => by cases hin⟩
    | scope h =>
      rename_i d' t'
      have ih2 := rt_all2 x f d' t' h (by omega)
      have ih := ih2.1
      refine ⟨?_, fun ik disc hin => by cases hin with | scope h' => exact rt_scope_inl (ih2.2 ik disc h')⟩
      intro v s hU
      simp only [srun] at hU
      obtain ⟨hV, w, s', hS, hU2, hE, hS2, hV2, _⟩ := ih v s hU
      exact ⟨by simp only [srun]; exact hV, w, s', by simp only [srun]; exact hS, by simp only [srun]; exact hU2,
        .scope hE, by simp only [srun]; exact hS2, by simp only [srun]; exact hV2, fun h => by simp [plainLeaf] at h⟩
    | list h =>
      rename_i d' item a b
      have ih := (rt_all2 x f d' item h (by omega)).1
      refine ⟨?_, fun _ _ hin => by cases hin⟩
      intro v s hU
      simp only [srun] at hU ⊢
      obtain ⟨hV, w, s', hS, hU2, hE, hS2, hV2⟩ := rt_list a b ih v s hU
      exact ⟨hV, w, s', hS, hU2, hE, hS2, hV2, fun h => by simp [plainLeaf] at h⟩
    | map hk h =>
      rename_i d' k vt a b
      have ih := (rt_all2 x f d' vt h (by omega)).1
      refine ⟨?_, fun _ _ hin => by cases hin⟩
      intro v s hU
      simp only [srun] at hU ⊢
      obtain ⟨hV, w, s', hS, hU2, hE, hS2, hV2⟩ := rt_map x f a b hk ih v s hU
      exact ⟨hV, w, s', hS, hU2, hE, hS2, hV2, fun h => by simp [plainLeaf] at h⟩
    | oneOf hm ho hno hnd =>
      rename_i d' ik disc members
      have ih : ∀ m, m ∈ members → RTAt (srun x f) m.2 := fun m hmm => (rt_all2 x f d' m.2 (hm m hmm) (by omega)).1
      refine ⟨?_, fun _ _ hin => by cases hin⟩
      intro v s hU
      simp only [srun] at hU ⊢
      obtain ⟨hV, w, s', hS, hU2, hE, hS2, hV2⟩ := rt_oneOfS x ik disc ih
        (fun m hmm v r hr => srun_U_objLike x f m.2 v r (ho m hmm) hr)
        (fun m hmm s r hr => by
          obtain ⟨rm, rfl⟩ := srun_S_objLike x f m.2 s r (ho m hmm) hr
          exact ⟨rm, rfl, srun_S_noDisc x disc f m.2 s rm (hno m hmm) hr⟩)
        hnd v s hU
      exact ⟨hV, w, s', hS, hU2, hE, hS2, hV2, fun h => by simp [plainLeaf] at h⟩
    | oneOfInl hm ho hin hnd =>
      rename_i d' ik disc members
      have ih : ∀ m, m ∈ members → RTInl (srun x f) x ik disc m.2 :=
        fun m hmm => (rt_all2 x f d' m.2 (hm m hmm) (by omega)).2 ik disc (hin m hmm)
      refine ⟨?_, fun _ _ hin => by cases hin⟩
      intro v s hU
      simp only [srun] at hU ⊢
      obtain ⟨hV, w, s', hS, hU2, hE, hS2, hV2⟩ := rt_oneOfS_inl x ik disc ih
        (fun m hmm v r hr => srun_U_objLike x f m.2 v r (ho m hmm) hr) hnd v s hU
      exact ⟨hV, w, s', hS, hU2, hE, hS2, hV2, fun h => by simp [plainLeaf] at h⟩
    | obj hw hex hrt hp =>
      rename_i d' id st ptrT props
      obtain ⟨n, rfl⟩ : ∃ n, f = n + 2 := ⟨f - 2, by omega⟩
      have ih : ∀ kp, kp ∈ props → RTAt (srun x (n + 2)) kp.2.ty :=
        fun kp hkp => (rt_all2 x (n + 2) (d' + 2) kp.2.ty (hp kp hkp) (by omega)).1
      refine ⟨?_, fun ik disc hin => by
        cases hin with
        | obj hpd hty hT => exact rt_obj_inl x n ik disc id ptrT hw hex hrt ih hpd hty hT⟩
      intro v s hU
      simp only [srun] at hU ⊢
      obtain ⟨hV, w, s', hS, hU2, hE, hS2⟩ := rt_obj x n id ptrT hw hex hrt ih v s hU
      obtain ⟨hV2, _⟩ := rt_obj x n id ptrT hw hex hrt ih (.val w) s' hU2
      exact ⟨hV, w, s', hS, hU2, hE, hS2, hV2, fun h => by simp [plainLeaf] at h⟩

theorem rt_all (x : Ext) (fuel d : Nat) (t : STy) (hok : RTOK d t) (hd : d ≤ fuel) : RTAt (srun x fuel) t :=
  (rt_all2 x fuel d t hok hd).1

/-- no property of the tree is treat-empty-as-default -/
def noEmptyB : Nat → STy → Bool
  | 0, _ => false
  | _ + 1, .leaf _ => true
  | n + 1, .list item _ _ => noEmptyB n item
  | n + 1, .map _ v _ _ => noEmptyB n v
  | n + 1, .scope t => noEmptyB n t
  | n + 1, .obj _ _ _ props => props.all fun kp => !kp.2.emptyIsDefault && noEmptyB n kp.2.ty
  | n + 1, .oneOf _ _ _ members => members.all fun m => noEmptyB n m.2

theorem EqvList_eq {t : STy} (ih : ∀ x x', Eqv t x x' → x = x') : ∀ (xs xs' : List SV), EqvList t xs xs' → xs = xs'
  | _, _, .nil => rfl
  | _, _, .cons h hr => by rw [ih _ _ h, EqvList_eq ih _ _ hr]

theorem EqvKVs_eq {t : STy} (ih : ∀ x x', Eqv t x x' → x = x') : ∀ (a b : List (V × SV)), EqvKVs t a b → a = b
  | _, _, .nil => rfl
  | _, _, .cons h hr => by rw [ih _ _ h, EqvKVs_eq ih _ _ hr]

/-- without treat-empty-as-default properties the identification is equality -/
theorem Eqv_eq : ∀ (n d : Nat) (t : STy) (s s' : SV), noEmptyB n t = true → RTOK d t → Eqv t s s' → s = s'
  | 0, _, _, _, _, h, _, _ => by simp [noEmptyB] at h
  | n + 1, d, t, s, s', hne, hok, hE => by
    cases hE with
    | refl => rfl
    | scope hE' =>
      cases hok with
      | scope hok' => exact Eqv_eq n _ _ _ _ (by simpa [noEmptyB] using hne) hok' hE'
    | list hL =>
      cases hok with
      | list hok' =>
        rw [EqvList_eq (fun x x' h => Eqv_eq n _ _ x x' (by simpa [noEmptyB] using hne) hok' h) _ _ hL]
    | map hM =>
      cases hok with
      | map _ hok' =>
        rw [EqvKVs_eq (fun x x' h => Eqv_eq n _ _ x x' (by simpa [noEmptyB] using hne) hok' h) _ _ hM]
    | oneOf hkm hE' =>
      rename_i km
      cases hok with
      | oneOf hp _ _ _ =>
        simp only [noEmptyB, List.all_eq_true] at hne
        exact Eqv_eq n _ _ _ _ (hne km hkm) (hp km hkm) hE'
      | oneOfInl hp _ _ _ =>
        simp only [noEmptyB, List.all_eq_true] at hne
        exact Eqv_eq n _ _ _ _ (hne km hkm) (hp km hkm) hE'
    | obj hnames hkeys hun hmap =>
      rename_i id st ptrT props fs fs'
      cases hok with
      | obj hw hex hrt hp =>
        simp only [noEmptyB, List.all_eq_true, Bool.and_eq_true, Bool.not_eq_true'] at hne
        congr 1
        apply assoc_ext hkeys (by rw [hnames]; exact hw.names)
        intro k
        by_cases hmapped : ∃ kp, kp ∈ props ∧ fieldName? st kp.1 = some k
        · obtain ⟨kp, hkp, hfn⟩ := hmapped
          obtain ⟨f, hf, _⟩ := propOK_field (hw.prop kp hkp)
          have hk : k = f.name := by simpa [fieldName?, hf] using hfn.symm
          subst hk
          cases h1 : lookupS f.name fs with
          | none =>
            have : lookupS f.name fs' = none := by
              apply (lookupS_eq_none_iff _ _).mpr
              rw [← hkeys]
              exact (lookupS_eq_none_iff _ _).mp h1
            rw [this]
          | some fv =>
            cases h2 : lookupS f.name fs' with
            | none =>
              have : lookupS f.name fs = none := by
                apply (lookupS_eq_none_iff _ _).mpr
                rw [hkeys]
                exact (lookupS_eq_none_iff _ _).mp h2
              rw [this] at h1; cases h1
            | some fv' =>
              have hfe := hmap kp hkp f fv fv' hf h1 h2
              cases hfe with
              | absent he _ => rw [(hne kp hkp).1] at he; cases he
              | same => rfl
              | val hE' => rw [Eqv_eq n _ _ _ _ (hne kp hkp).2 (hp kp hkp) hE']
              | ptr hE' => rw [Eqv_eq n _ _ _ _ (hne kp hkp).2 (hp kp hkp) hE']
        · exact hun k (fun kp hkp hc => hmapped ⟨kp, hkp, hc⟩)

/-- the executable check implies the hypotheses, with budget bound `n + 2` -/
theorem rtOKB_sound : ∀ (n : Nat) (t : STy), rtOKB n t = true → RTOK (n + 2) t
  | 0, _, h => by simp [rtOKB] at h
  | n + 1, t, h => by
    cases t with
    | leaf t =>
      simp only [rtOKB] at h
      exact .leaf (wf1B_sound _ _ _ h)
    | list item a b => exact .list (rtOKB_sound n item (by simpa [rtOKB] using h))
    | map k v a b =>
      simp only [rtOKB, Bool.and_eq_true] at h
      exact .map (wf1B_sound _ _ _ h.1) (rtOKB_sound n v h.2)
    | scope t => exact .scope (rtOKB_sound n t (by simpa [rtOKB] using h))
    | oneOf ik d inl members =>
      simp only [rtOKB, Bool.and_eq_true, List.all_eq_true, decide_eq_true_eq] at h
      obtain ⟨⟨hm, _⟩, hnd⟩ := h
      cases inl with
      | false =>
        exact .oneOf (fun m hmm => rtOKB_sound n m.2 (hm m hmm).1.1)
          (fun m hmm => objLikeS_sound n m.2 (hm m hmm).1.2)
          (fun m hmm => noDisc_of_discOK n ik d m.2 (hm m hmm).1.2 (hm m hmm).2) hnd
      | true =>
        exact .oneOfInl (fun m hmm => rtOKB_sound n m.2 (hm m hmm).1.1)
          (fun m hmm => objLikeS_sound n m.2 (hm m hmm).1.2)
          (fun m hmm => inlDisc_of_discOK n ik d m.2 (hm m hmm).1.2 (hm m hmm).2) hnd
    | obj id st ptrT props =>
      simp only [rtOKB, rtObjB, Bool.and_eq_true, List.all_eq_true] at h
      exact .obj ((wfObjB_iff st props).mp h.1.1.1) h.1.1.2 h.1.2 (fun kp hkp => rtOKB_sound n kp.2.ty (h.2 kp hkp))

end SM
end Arca
