import ArcaModel.Model.Units
/-
  Lemmas for property C16 (units): characters, decimal rendering, the backtracking matcher
  `matchGroups`/`matchBase` on renderings of the unit grammar, the checked accumulation.
-/
namespace Arca

/-! ### characters -/

theorem isDigit_iff (c : Char) : isDigit c = true ↔ 48 ≤ c.toNat ∧ c.toNat ≤ 57 := by
  unfold isDigit
  simp only [Bool.and_eq_true, decide_eq_true_eq]
  rfl

theorem isReWS_iff (c : Char) :
    isReWS c = true ↔ (c.toNat = 32 ∨ c.toNat = 9 ∨ c.toNat = 10 ∨ c.toNat = 12 ∨ c.toNat = 13) := by
  unfold isReWS
  simp only [Bool.or_eq_true, beq_iff_eq, ← Char.toNat_inj]
  have h1 : ' '.toNat = 32 := rfl
  have h2 : '\t'.toNat = 9 := rfl
  have h3 : '\n'.toNat = 10 := rfl
  have h4 : '\x0c'.toNat = 12 := rfl
  have h5 : '\r'.toNat = 13 := rfl
  omega

theorem isUniSpace_of_small (c : Char) (h : c.toNat ≤ 32) (h9 : 9 ≤ c.toNat) (h' : c.toNat ≤ 13 ∨ c.toNat = 32) :
    isUniSpace c = true := by
  unfold isUniSpace
  simp only [Bool.or_eq_true, Bool.and_eq_true, decide_eq_true_eq, beq_iff_eq]
  omega

theorem isReWS_isUniSpace {c : Char} (h : isReWS c = true) : isUniSpace c = true := by
  rw [isReWS_iff] at h
  apply isUniSpace_of_small <;> omega

theorem isDigit_not_ws {c : Char} (h : isDigit c = true) : isReWS c = false := by
  rw [isDigit_iff] at h
  cases hw : isReWS c with
  | false => rfl
  | true => rw [isReWS_iff] at hw; omega

theorem isDigit_not_uni {c : Char} (h : isDigit c = true) : isUniSpace c = false := by
  rw [isDigit_iff] at h
  cases hw : isUniSpace c with
  | false => rfl
  | true =>
    unfold isUniSpace at hw
    simp only [Bool.or_eq_true, Bool.and_eq_true, decide_eq_true_eq, beq_iff_eq] at hw
    omega

theorem isReWS_not_digit {c : Char} (h : isReWS c = true) : isDigit c = false := by
  cases hd : isDigit c with
  | false => rfl
  | true => rw [isDigit_not_ws hd] at h; cases h

theorem digit_ne_of_toNat {c d : Char} (h : isDigit c = true) (hd : d.toNat < 48 ∨ 57 < d.toNat) : c ≠ d := by
  rw [isDigit_iff] at h
  intro e; subst e; omega


/-! ### decimal digits -/

/-- all characters are ASCII digits -/
def AllDigits (cs : List Char) : Prop := ∀ c ∈ cs, isDigit c = true

/-- all characters are RE2 white space -/
def AllWS (cs : List Char) : Prop := ∀ c ∈ cs, isReWS c = true

/-- value of a digit string read in base ten (`0` for the empty string) -/
def decVal (cs : List Char) : Nat := cs.foldl (fun acc c => acc * 10 + (c.toNat - 48)) 0

theorem decVal_nil : decVal [] = 0 := rfl

theorem decVal_snoc (cs : List Char) (c : Char) : decVal (cs ++ [c]) = decVal cs * 10 + (c.toNat - 48) := by
  simp [decVal, List.foldl_append]

theorem readNatAux_digits (cs : List Char) (h : AllDigits cs) (acc : Nat) :
    readNatAux cs acc = some (cs.foldl (fun acc c => acc * 10 + (c.toNat - 48)) acc) := by
  induction cs generalizing acc with
  | nil => rfl
  | cons c cs ih =>
    have hc : isDigit c = true := h c (by simp)
    have hd : digitVal? c = some (c.toNat - 48) := by
      unfold digitVal?; unfold isDigit at hc; rw [hc]; rfl
    simp only [readNatAux, hd, List.foldl_cons]
    exact ih (fun x hx => h x (by simp [hx])) _

theorem readNat_digits (cs : List Char) (hne : cs ≠ []) (h : AllDigits cs) :
    readNat cs = some (decVal cs) := by
  cases cs with
  | nil => exact absurd rfl hne
  | cons c cs => exact readNatAux_digits (c :: cs) h 0

theorem digitChar_toNat (d : Nat) (h : d < 10) : (Nat.digitChar d).toNat = 48 + d := by
  match d, h with
  | 0, _ => rfl | 1, _ => rfl | 2, _ => rfl | 3, _ => rfl | 4, _ => rfl
  | 5, _ => rfl | 6, _ => rfl | 7, _ => rfl | 8, _ => rfl | 9, _ => rfl
  | d + 10, h => omega

theorem toDigits_spec (n : Nat) :
    Nat.toDigits 10 n ≠ [] ∧ AllDigits (Nat.toDigits 10 n) ∧ decVal (Nat.toDigits 10 n) = n := by
  induction n using Nat.strongRecOn with
  | _ n ih =>
    by_cases hlt : n < 10
    · rw [Nat.toDigits_of_lt_base hlt]
      refine ⟨by simp, ?_, ?_⟩
      · intro c hc
        simp only [List.mem_singleton] at hc
        subst hc
        rw [isDigit_iff, digitChar_toNat n hlt]; omega
      · simp [decVal, digitChar_toNat n hlt]
    · have hq : 0 < n / 10 := by omega
      have hr : n % 10 < 10 := by omega
      have hn : n = 10 * (n / 10) + n % 10 := by omega
      have happ := Nat.toDigits_append_toDigits (b := 10) (n := n / 10) (d := n % 10) (by omega) hq hr
      rw [← hn, Nat.toDigits_of_lt_base hr] at happ
      obtain ⟨_, hD, hV⟩ := ih (n / 10) (by omega)
      rw [← happ]
      refine ⟨by simp, ?_, ?_⟩
      · intro c hc
        rcases List.mem_append.mp hc with hc | hc
        · exact hD c hc
        · simp only [List.mem_singleton] at hc
          subst hc
          rw [isDigit_iff, digitChar_toNat _ hr]; omega
      · rw [decVal_snoc, hV, digitChar_toNat _ hr]; omega

/-- `%d` of a non-negative integer is `Nat.toDigits 10` -/
theorem fmtInt_ofNat (n : Nat) : (fmtInt (n : Int)).toList = Nat.toDigits 10 n := by
  show (toString (Int.ofNat n)).toList = _
  simp [toString, Int.repr, Nat.repr]


/-! ### list helpers of the matcher -/

/-- the list is empty or starts with a character that is not a digit -/
def NoDigitHead : List Char → Prop
  | [] => True
  | c :: _ => isDigit c = false

/-- the list is empty or starts with a character that is not RE2 white space -/
def NoWSHead : List Char → Prop
  | [] => True
  | c :: _ => isReWS c = false

theorem skipWS_of_noWSHead {cs : List Char} (h : NoWSHead cs) : skipWS cs = cs := by
  cases cs with
  | nil => rfl
  | cons c cs => simp only [NoWSHead] at h; simp [skipWS, List.dropWhile, h]

theorem skipWS_ws_append {w : List Char} (hw : AllWS w) (r : List Char) : skipWS (w ++ r) = skipWS r := by
  induction w with
  | nil => rfl
  | cons c w ih =>
    have hc : isReWS c = true := hw c (by simp)
    have : skipWS (c :: (w ++ r)) = skipWS (w ++ r) := by simp [skipWS, List.dropWhile, hc]
    rw [List.cons_append, this]
    exact ih (fun x hx => hw x (by simp [hx]))

theorem skipWS_allWS {w : List Char} (hw : AllWS w) : skipWS w = [] := by
  have := skipWS_ws_append hw []
  simpa [skipWS] using this

theorem skipWS_idem (cs : List Char) : skipWS (skipWS cs) = skipWS cs := by
  induction cs with
  | nil => rfl
  | cons c cs ih =>
    cases hc : isReWS c with
    | true =>
      have : skipWS (c :: cs) = skipWS cs := by simp [skipWS, List.dropWhile, hc]
      rw [this]; exact ih
    | false =>
      have : skipWS (c :: cs) = c :: cs := by simp [skipWS, List.dropWhile, hc]
      rw [this, this]

theorem takeWhile_digits_append {ds r : List Char} (hd : AllDigits ds) (hr : NoDigitHead r) :
    (ds ++ r).takeWhile isDigit = ds := by
  induction ds with
  | nil =>
    cases r with
    | nil => rfl
    | cons c r => simp only [NoDigitHead] at hr; simp [hr]
  | cons d ds ih =>
    have h1 : isDigit d = true := hd d (by simp)
    simp only [List.cons_append, List.takeWhile, h1]
    rw [ih (fun x hx => hd x (by simp [hx]))]

theorem dropWhile_digits_append {ds r : List Char} (hd : AllDigits ds) (hr : NoDigitHead r) :
    (ds ++ r).dropWhile isDigit = r := by
  induction ds with
  | nil =>
    cases r with
    | nil => rfl
    | cons c r => simp only [NoDigitHead] at hr; simp [hr]
  | cons d ds ih =>
    have h1 : isDigit d = true := hd d (by simp)
    simp only [List.cons_append, List.dropWhile, h1]
    exact ih (fun x hx => hd x (by simp [hx]))

theorem stripPrefix?_eq_some {p cs r : List Char} : stripPrefix? p cs = some r ↔ cs = p ++ r := by
  induction p generalizing cs with
  | nil => simp [stripPrefix?, eq_comm]
  | cons a p ih =>
    cases cs with
    | nil => simp [stripPrefix?]
    | cons c cs =>
      simp only [stripPrefix?, List.cons_append, List.cons.injEq]
      by_cases hac : a = c
      · subst hac; simp [ih]
      · have : (a == c) = false := by simpa using hac
        simp [this, hac, eq_comm]

theorem stripPrefix?_append (p r : List Char) : stripPrefix? p (p ++ r) = some r :=
  stripPrefix?_eq_some.mpr rfl

theorem firstSome_none {α β} (l : List α) (f : α → Option β) (h : ∀ x ∈ l, f x = none) :
    firstSome l f = none := by
  induction l with
  | nil => rfl
  | cons x xs ih =>
    simp only [firstSome, h x (by simp)]
    exact ih (fun y hy => h y (by simp [hy]))

/-- if every candidate yields nothing or `v`, and some candidate yields `v`, the first success is `v` -/
theorem firstSome_some {α β} (l : List α) (f : α → Option β) (v : β)
    (hall : ∀ x ∈ l, f x = none ∨ f x = some v) (hex : ∃ x ∈ l, f x = some v) :
    firstSome l f = some v := by
  induction l with
  | nil => obtain ⟨x, hx, _⟩ := hex; cases hx
  | cons x xs ih =>
    rcases hall x (by simp) with h | h
    · simp only [firstSome, h]
      apply ih (fun y hy => hall y (by simp [hy]))
      obtain ⟨y, hy, hfy⟩ := hex
      rcases List.mem_cons.mp hy with e | hy'
      · subst e; rw [h] at hfy; cases hfy
      · exact ⟨y, hy', hfy⟩
    · simp only [firstSome, h]

theorem mem_countsDown {k n : Nat} : k ∈ countsDown n ↔ 1 ≤ k ∧ k ≤ n := by
  induction n with
  | zero => simp [countsDown]; omega
  | succ n ih => simp only [countsDown, List.mem_cons, ih]; omega

/-- the first split tried is the longest one -/
theorem firstSome_countsDown_first {β} (n : Nat) (hn : 0 < n) (f : Nat → Option β) (v : β)
    (h : f n = some v) : firstSome (countsDown n) f = some v := by
  cases n with
  | zero => omega
  | succ n => simp only [countsDown, firstSome, h]


/-! ### (B) an input starting with a character that is neither digit nor space matches nothing -/

theorem matchBase_nondigit (base : List String) (c : Char) (t : List Char)
    (hd : isDigit c = false) (hw : isReWS c = false) : matchBase base (c :: t) = none := by
  have h1 : skipWS (c :: t) = c :: t := skipWS_of_noWSHead (cs := c :: t) hw
  simp [matchBase, h1, List.takeWhile, hd, countsDown, firstSome]

theorem matchGroups_nondigit (gs : List (List String)) (base : List String) (c : Char) (t : List Char)
    (hd : isDigit c = false) (hw : isReWS c = false) : matchGroups gs base (c :: t) = none := by
  have h1 : skipWS (c :: t) = c :: t := skipWS_of_noWSHead (cs := c :: t) hw
  induction gs with
  | nil => simp [matchGroups, matchBase_nondigit base c t hd hw]
  | cons names gs ih =>
    simp [matchGroups, h1, ih, List.takeWhile, hd, countsDown, firstSome]


/-! ### the matcher with its inner closures named -/

/-- `\s*(|names)\s*$` after a captured number (inner closure of `matchBase`) -/
def tryTail (names : List String) (cap r : List Char) : Option String :=
  let r := skipWS r
  if (skipWS r).isEmpty then some (String.ofList cap) else
  firstSome names fun n =>
    match stripPrefix? n.toList r with
    | some r' => if (skipWS r').isEmpty then some (String.ofList cap) else none
    | none => none

/-- one digit split of the base group (body of the `countsDown` loop of `matchBase`) -/
def baseSplit (names : List String) (ds rest : List Char) (k : Nat) : Option String :=
  match tryTail names (ds.take k) (ds.drop k ++ rest) with
  | some c => some c
  | none =>
    match ds.drop k ++ rest with
    | '.' :: r1 =>
      firstSome (countsDown (r1.takeWhile isDigit).length) fun j =>
        tryTail names (ds.take k ++ '.' :: (r1.takeWhile isDigit).take j)
          ((r1.takeWhile isDigit).drop j ++ r1.dropWhile isDigit)
    | _ => none

theorem matchBase_eq (names : List String) (cs : List Char) :
    matchBase names cs =
      if (skipWS cs).isEmpty then some "" else
      firstSome (countsDown (cs.takeWhile isDigit).length)
        (baseSplit names (cs.takeWhile isDigit) (cs.dropWhile isDigit)) := rfl

/-- one name alternative of a multiplier group -/
def groupName (gs : List (List String)) (base : List String) (cap r : List Char) (n : String) :
    Option (List String × String) :=
  match stripPrefix? n.toList r with
  | some r' =>
    match matchGroups gs base (skipWS r') with
    | some (caps, b) => some (String.ofList cap :: caps, b)
    | none => none
  | none => none

/-- one digit split of a multiplier group -/
def groupSplit (names : List String) (gs : List (List String)) (base : List String)
    (ds rest : List Char) (k : Nat) : Option (List String × String) :=
  firstSome names (groupName gs base (ds.take k) (skipWS (ds.drop k ++ rest)))

theorem matchGroups_cons_eq (names : List String) (gs : List (List String)) (base : List String)
    (cs : List Char) :
    matchGroups (names :: gs) base cs =
      match matchGroups gs base (skipWS cs) with
      | some (caps, b) => some ("" :: caps, b)
      | none =>
        firstSome (countsDown (cs.takeWhile isDigit).length)
          (groupSplit names gs base (cs.takeWhile isDigit) (cs.dropWhile isDigit)) := by
  rw [matchGroups]
  rfl

/-! ### (C) a token `digits spaces name tail` is matched by no group list that does not own the name -/

/-- characters allowed in a unit name: neither ASCII digit nor RE2 white space -/
def NameChars (cs : List Char) : Prop := ∀ c ∈ cs, isDigit c = false ∧ isReWS c = false

/-- a unit name as the matcher needs it: non-empty, no digit, no RE2 white space -/
def NameOK (n : String) : Prop := n.toList ≠ [] ∧ NameChars n.toList

/-- what may follow a name in a rendering: nothing, a digit (next count) or white space -/
def TailOK : List Char → Prop
  | [] => True
  | c :: _ => isDigit c = true ∨ isReWS c = true

theorem stripPrefix?_head_ne {c d : Char} (p r : List Char) (h : c ≠ d) :
    stripPrefix? (c :: p) (d :: r) = none := by
  have : (c == d) = false := by simpa using h
  simp [stripPrefix?, this]

/-- stripping a different name from `name ++ tail` leaves something that starts inside the name -/
theorem strip_foreign {nl nm tail r : List Char} (hn : NameChars nl) (hm : NameChars nm)
    (hne : nl ≠ nm) (ht : TailOK tail) (h : stripPrefix? nl (nm ++ tail) = some r) :
    ∃ c t, r = c :: t ∧ isDigit c = false ∧ isReWS c = false := by
  rw [stripPrefix?_eq_some] at h
  rcases List.append_eq_append_iff.mp h with ⟨a', h1, h2⟩ | ⟨c', h1, h2⟩
  · -- nl = nm ++ a', tail = a' ++ r
    cases a' with
    | nil => simp at h1; exact absurd h1 hne
    | cons c t =>
      exfalso
      have hc := hn c (by rw [h1]; simp)
      rw [h2] at ht
      simp only [List.cons_append, TailOK] at ht
      rcases ht with ht | ht
      · rw [hc.1] at ht; cases ht
      · rw [hc.2] at ht; cases ht
  · -- nm = nl ++ c', r = c' ++ tail
    cases c' with
    | nil => simp at h1; exact absurd h1.symm hne
    | cons c t =>
      have hc := hm c (by rw [h1]; simp)
      exact ⟨c, t ++ tail, by simp [h2], hc.1, hc.2⟩

theorem tryTail_digit (names : List String) (cap : List Char) (d : Char) (r : List Char)
    (hd : isDigit d = true) (hnames : ∀ n ∈ names, NameOK n) : tryTail names cap (d :: r) = none := by
  have h1 : skipWS (d :: r) = d :: r := skipWS_of_noWSHead (cs := d :: r) (isDigit_not_ws hd)
  unfold tryTail
  simp only [h1, List.isEmpty_cons, Bool.false_eq_true, if_false]
  apply firstSome_none
  intro n hn
  obtain ⟨hne, hc⟩ := hnames n hn
  cases hl : n.toList with
  | nil => exact absurd hl hne
  | cons c p =>
    have hcd : c ≠ d := by
      intro e; subst e
      have := (hc c (by rw [hl]; simp)).1
      rw [hd] at this; cases this
    rw [stripPrefix?_head_ne p r hcd]

theorem tryTail_foreign (names : List String) (cap w1 nm tail : List Char)
    (hnames : ∀ n ∈ names, NameOK n ∧ n.toList ≠ nm) (hw : AllWS w1)
    (hnm : nm ≠ []) (hnmc : NameChars nm) (ht : TailOK tail) :
    tryTail names cap (w1 ++ (nm ++ tail)) = none := by
  obtain ⟨c0, t0, hnm0⟩ := List.exists_cons_of_ne_nil hnm
  have h0 : NoWSHead (nm ++ tail) := by
    rw [hnm0]; exact (hnmc c0 (by rw [hnm0]; simp)).2
  have h1 : skipWS (w1 ++ (nm ++ tail)) = nm ++ tail := by
    rw [skipWS_ws_append hw, skipWS_of_noWSHead h0]
  have h2 : skipWS (nm ++ tail) = nm ++ tail := skipWS_of_noWSHead h0
  have h3 : (nm ++ tail).isEmpty = false := by rw [hnm0]; rfl
  unfold tryTail
  simp only [h1, h2, h3, Bool.false_eq_true, if_false]
  apply firstSome_none
  intro n hn
  obtain ⟨⟨_, hc⟩, hne⟩ := hnames n hn
  cases hs : stripPrefix? n.toList (nm ++ tail) with
  | none => rfl
  | some r' =>
    obtain ⟨c, t, hr, _, hws⟩ := strip_foreign hc hnmc hne ht hs
    have : skipWS r' = c :: t := by rw [hr]; exact skipWS_of_noWSHead (cs := c :: t) hws
    simp [this]

theorem baseSplit_none (names : List String) (ds rest : List Char) (k : Nat)
    (htry : tryTail names (ds.take k) (ds.drop k ++ rest) = none)
    (hfrac : ∀ r1, ds.drop k ++ rest = '.' :: r1 → r1.takeWhile isDigit = []) :
    baseSplit names ds rest k = none := by
  unfold baseSplit
  rw [htry]
  dsimp only
  split
  · next r1 heq =>
    rw [hfrac r1 heq]
    rfl
  · rfl

theorem dot_not_digit : isDigit '.' = false := by decide
theorem dot_not_ws : isReWS '.' = false := by decide

theorem matchBase_foreign (base : List String) (ds w1 nm tail : List Char)
    (hbase : ∀ n ∈ base, NameOK n ∧ n.toList ≠ nm)
    (hds : ds ≠ []) (hD : AllDigits ds) (hw : AllWS w1) (hnm : nm ≠ []) (hnmc : NameChars nm)
    (hdot : nm ≠ ['.']) (ht : TailOK tail) :
    matchBase base (ds ++ (w1 ++ (nm ++ tail))) = none := by
  obtain ⟨d0, dt, hds0⟩ := List.exists_cons_of_ne_nil hds
  obtain ⟨c0, t0, hnm0⟩ := List.exists_cons_of_ne_nil hnm
  have hd0 : isDigit d0 = true := hD d0 (by rw [hds0]; simp)
  have hrest : NoDigitHead (w1 ++ (nm ++ tail)) := by
    cases w1 with
    | nil => rw [hnm0]; exact (hnmc c0 (by rw [hnm0]; simp)).1
    | cons w ws => exact isReWS_not_digit (hw w (by simp))
  have h1 : skipWS (ds ++ (w1 ++ (nm ++ tail))) = ds ++ (w1 ++ (nm ++ tail)) := by
    rw [hds0]; exact skipWS_of_noWSHead (cs := d0 :: (dt ++ _)) (isDigit_not_ws hd0)
  have h2 : (ds ++ (w1 ++ (nm ++ tail))).isEmpty = false := by rw [hds0]; rfl
  rw [matchBase_eq, h1, h2, takeWhile_digits_append hD hrest, dropWhile_digits_append hD hrest]
  simp only [Bool.false_eq_true, if_false]
  apply firstSome_none
  intro k hk
  rw [mem_countsDown] at hk
  by_cases hlt : k < ds.length
  · -- a shorter split leaves a digit in front
    have hdrop : ds.drop k ≠ [] := by
      intro e; have := congrArg List.length e; simp at this; omega
    obtain ⟨d, dr, hdr⟩ := List.exists_cons_of_ne_nil hdrop
    have hd : isDigit d = true := hD d (List.mem_of_mem_drop (by rw [hdr]; simp))
    apply baseSplit_none
    · rw [hdr]; exact tryTail_digit base _ d _ hd (fun n hn => (hbase n hn).1)
    · intro r1 heq
      rw [hdr] at heq
      simp only [List.cons_append, List.cons.injEq] at heq
      rw [heq.1, dot_not_digit] at hd; cases hd
  · have hk' : k = ds.length := by omega
    subst hk'
    apply baseSplit_none
    · simp only [List.drop_length, List.nil_append]
      exact tryTail_foreign base _ w1 nm tail hbase hw hnm hnmc ht
    · intro r1 heq
      simp only [List.drop_length, List.nil_append] at heq
      cases w1 with
      | cons w ws =>
        simp only [List.cons_append, List.cons.injEq] at heq
        have := hw w (by simp)
        rw [heq.1, dot_not_ws] at this; cases this
      | nil =>
        rw [hnm0] at heq
        simp only [List.nil_append, List.cons_append, List.cons.injEq] at heq
        cases t0 with
        | nil => rw [hnm0, heq.1] at hdot; exact absurd rfl hdot
        | cons c1 t1 =>
          have hc1 := (hnmc c1 (by rw [hnm0]; simp)).1
          rw [← heq.2]
          simp [hc1]


/-- a name alternative fails when the name is not a prefix, or what follows it starts inside a name -/
theorem groupName_foreign (gs : List (List String)) (base : List String) (cap nm tail : List Char)
    (n : String) (hn : NameChars n.toList) (hnmc : NameChars nm) (hne : n.toList ≠ nm)
    (ht : TailOK tail) : groupName gs base cap (nm ++ tail) n = none := by
  unfold groupName
  cases hs : stripPrefix? n.toList (nm ++ tail) with
  | none => rfl
  | some r' =>
    obtain ⟨c, t, hr, hd, hws⟩ := strip_foreign hn hnmc hne ht hs
    have : skipWS r' = c :: t := by rw [hr]; exact skipWS_of_noWSHead (cs := c :: t) hws
    simp only [this, matchGroups_nondigit gs base c t hd hws]

theorem groupName_digit (gs : List (List String)) (base : List String) (cap : List Char) (d : Char)
    (r : List Char) (n : String) (hn : NameOK n) (hd : isDigit d = true) :
    groupName gs base cap (d :: r) n = none := by
  unfold groupName
  obtain ⟨hne, hc⟩ := hn
  cases hl : n.toList with
  | nil => exact absurd hl hne
  | cons c p =>
    have hcd : c ≠ d := by
      intro e; subst e
      have := (hc c (by rw [hl]; simp)).1
      rw [hd] at this; cases this
    rw [stripPrefix?_head_ne p r hcd]

theorem matchGroups_foreign (gs : List (List String)) (base : List String) (ds w1 nm tail : List Char)
    (hgs : ∀ names ∈ gs, ∀ n ∈ names, NameOK n ∧ n.toList ≠ nm)
    (hbase : ∀ n ∈ base, NameOK n ∧ n.toList ≠ nm)
    (hds : ds ≠ []) (hD : AllDigits ds) (hw : AllWS w1) (hnm : nm ≠ []) (hnmc : NameChars nm)
    (hdot : nm ≠ ['.']) (ht : TailOK tail) :
    matchGroups gs base (ds ++ (w1 ++ (nm ++ tail))) = none := by
  induction gs with
  | nil =>
    simp only [matchGroups, matchBase_foreign base ds w1 nm tail hbase hds hD hw hnm hnmc hdot ht,
      Option.map_none]
  | cons names gs ih =>
    obtain ⟨d0, dt, hds0⟩ := List.exists_cons_of_ne_nil hds
    obtain ⟨c0, t0, hnm0⟩ := List.exists_cons_of_ne_nil hnm
    have hd0 : isDigit d0 = true := hD d0 (by rw [hds0]; simp)
    have hrest : NoDigitHead (w1 ++ (nm ++ tail)) := by
      cases w1 with
      | nil => rw [hnm0]; exact (hnmc c0 (by rw [hnm0]; simp)).1
      | cons w ws => exact isReWS_not_digit (hw w (by simp))
    have h1 : skipWS (ds ++ (w1 ++ (nm ++ tail))) = ds ++ (w1 ++ (nm ++ tail)) := by
      rw [hds0]; exact skipWS_of_noWSHead (cs := d0 :: (dt ++ _)) (isDigit_not_ws hd0)
    have h0 : NoWSHead (nm ++ tail) := by
      rw [hnm0]; exact (hnmc c0 (by rw [hnm0]; simp)).2
    rw [matchGroups_cons_eq, h1, ih (fun names hn => hgs names (by simp [hn])),
      takeWhile_digits_append hD hrest, dropWhile_digits_append hD hrest]
    dsimp only
    apply firstSome_none
    intro k hk
    rw [mem_countsDown] at hk
    unfold groupSplit
    apply firstSome_none
    intro n hn
    have hnOK := hgs names (by simp) n hn
    by_cases hlt : k < ds.length
    · have hdrop : ds.drop k ≠ [] := by
        intro e; have := congrArg List.length e; simp at this; omega
      obtain ⟨d, dr, hdr⟩ := List.exists_cons_of_ne_nil hdrop
      have hd : isDigit d = true := hD d (List.mem_of_mem_drop (by rw [hdr]; simp))
      rw [hdr, List.cons_append, skipWS_of_noWSHead (cs := d :: _) (isDigit_not_ws hd)]
      exact groupName_digit gs base _ d _ n hnOK.1 hd
    · have hk' : k = ds.length := by omega
      subst hk'
      rw [List.drop_length, List.nil_append, skipWS_ws_append hw, skipWS_of_noWSHead h0]
      exact groupName_foreign gs base _ nm tail n hnOK.1.2 hnmc hnOK.2 ht


/-! ### renderings of the unit grammar -/

/-- one `count spaces name spaces` token: digit string, white space, the name used, white space -/
structure Piece where
  ds : List Char
  w1 : List Char
  nm : List Char
  w2 : List Char

def Piece.render (p : Piece) : List Char := p.ds ++ (p.w1 ++ (p.nm ++ p.w2))

def renderOpt : Option Piece → List Char
  | none => []
  | some p => p.render

/-- rendering of one optional token per multiplier group (in the order of the group list), then the
    optional base-unit token -/
def renderAll : List (Option Piece) → Option Piece → List Char
  | [], bp => renderOpt bp
  | o :: ps, bp => renderOpt o ++ renderAll ps bp

/-- the text the matcher should capture for a token -/
def capOf : Option Piece → String
  | none => ""
  | some p => String.ofList p.ds

/-- a token of a multiplier group with the given names -/
def PieceOK (names : List String) (p : Piece) : Prop :=
  p.ds ≠ [] ∧ AllDigits p.ds ∧ AllWS p.w1 ∧ AllWS p.w2 ∧ ∃ n ∈ names, n.toList = p.nm

/-- a token of the base unit: the name may be omitted -/
def BasePieceOK (base : List String) (p : Piece) : Prop :=
  p.ds ≠ [] ∧ AllDigits p.ds ∧ AllWS p.w1 ∧ AllWS p.w2 ∧ (p.nm = [] ∨ ∃ n ∈ base, n.toList = p.nm)

/-- one optional token per group, aligned with the group list -/
inductive PiecesOK : List (List String) → List (Option Piece) → Prop
  | nil : PiecesOK [] []
  | cons {names : List String} {o : Option Piece} {gs : List (List String)}
      {ps : List (Option Piece)} :
      (∀ p, o = some p → PieceOK names p) → PiecesOK gs ps → PiecesOK (names :: gs) (o :: ps)

def BaseOK (base : List String) (bp : Option Piece) : Prop := ∀ p, bp = some p → BasePieceOK base p

/-- what the matcher needs of the (sorted) group list: names are non-empty, free of digits and RE2
    white space; no multiplier name is "."; names of different units differ -/
def GroupsWF (gs : List (List String)) (base : List String) : Prop :=
  (∀ names ∈ gs, ∀ n ∈ names, NameOK n ∧ n.toList ≠ ['.']) ∧
  (∀ n ∈ base, NameOK n) ∧
  gs.Pairwise (fun a b => ∀ x ∈ a, ∀ y ∈ b, x ≠ y) ∧
  (∀ names ∈ gs, ∀ x ∈ names, ∀ y ∈ base, x ≠ y)

theorem GroupsWF.tail {names : List String} {gs : List (List String)} {base : List String}
    (h : GroupsWF (names :: gs) base) : GroupsWF gs base := by
  obtain ⟨h1, h2, h3, h4⟩ := h
  exact ⟨fun ns hn => h1 ns (by simp [hn]), h2, (List.pairwise_cons.mp h3).2,
    fun ns hn => h4 ns (by simp [hn])⟩

theorem toList_ne_of_ne {x y : String} (h : x ≠ y) : x.toList ≠ y.toList := by
  intro e
  apply h
  rw [← String.ofList_toList (s := x), ← String.ofList_toList (s := y), e]

/-- the list is empty or starts with a digit -/
def DigitHead : List Char → Prop
  | [] => True
  | c :: _ => isDigit c = true

theorem DigitHead.noWS {l : List Char} (h : DigitHead l) : NoWSHead l := by
  cases l with
  | nil => trivial
  | cons c t => exact isDigit_not_ws h

theorem render_digitHead {p : Piece} (hne : p.ds ≠ []) (hD : AllDigits p.ds) (r : List Char) :
    DigitHead (p.render ++ r) := by
  obtain ⟨d, t, h⟩ := List.exists_cons_of_ne_nil hne
  have : isDigit d = true := hD d (by rw [h]; simp)
  simp only [Piece.render, h, List.cons_append, DigitHead, this]

theorem renderAll_digitHead {gs : List (List String)} {base : List String}
    {ps : List (Option Piece)} {bp : Option Piece} (hv : PiecesOK gs ps) (hb : BaseOK base bp) :
    DigitHead (renderAll ps bp) := by
  induction hv with
  | nil =>
    cases bp with
    | none => trivial
    | some p =>
      obtain ⟨h1, h2, _⟩ := hb p rfl
      have := render_digitHead h1 h2 []
      simpa [renderAll, renderOpt] using this
  | @cons names o gs' ps' ho _ ih =>
    cases o with
    | none => simpa [renderAll, renderOpt] using ih
    | some p =>
      obtain ⟨h1, h2, _⟩ := ho p rfl
      exact render_digitHead h1 h2 _

theorem tailOK_ws_digitHead {w r : List Char} (hw : AllWS w) (hr : DigitHead r) : TailOK (w ++ r) := by
  cases w with
  | nil =>
    cases r with
    | nil => trivial
    | cons c t => exact Or.inl hr
  | cons c t => exact Or.inr (hw c (by simp))

/-! ### the base group on its own token -/

theorem tryTail_own (base : List String) (cap w1 nm w2 : List Char) (hbase : ∀ n ∈ base, NameOK n)
    (hw1 : AllWS w1) (hw2 : AllWS w2) (hnm : nm = [] ∨ ∃ n ∈ base, n.toList = nm) :
    tryTail base cap (w1 ++ (nm ++ w2)) = some (String.ofList cap) := by
  unfold tryTail
  rcases hnm with hnm | ⟨n0, hn0, hnm⟩
  · subst hnm
    have : skipWS (w1 ++ ([] ++ w2)) = [] := by
      rw [skipWS_ws_append hw1]; exact skipWS_allWS hw2
    simp only [this, show skipWS [] = [] from rfl, List.isEmpty_nil, if_true]
  · obtain ⟨hne, hc⟩ := hbase n0 hn0
    rw [hnm] at hne hc
    obtain ⟨c0, t0, hnm0⟩ := List.exists_cons_of_ne_nil hne
    have h0 : NoWSHead (nm ++ w2) := by
      rw [hnm0]; exact (hc c0 (by rw [hnm0]; simp)).2
    have h1 : skipWS (w1 ++ (nm ++ w2)) = nm ++ w2 := by
      rw [skipWS_ws_append hw1, skipWS_of_noWSHead h0]
    have h2 : skipWS (nm ++ w2) = nm ++ w2 := skipWS_of_noWSHead h0
    have h3 : (nm ++ w2).isEmpty = false := by rw [hnm0]; rfl
    simp only [h1, h2, h3, Bool.false_eq_true, if_false]
    apply firstSome_some
    · intro n _
      cases stripPrefix? n.toList (nm ++ w2) with
      | none => exact Or.inl rfl
      | some r' =>
        by_cases he : (skipWS r').isEmpty = true
        · right; simp [he]
        · left; simp [he]
    · refine ⟨n0, hn0, ?_⟩
      simp only [hnm, stripPrefix?_append, skipWS_allWS hw2, List.isEmpty_nil, if_true]

theorem matchBase_render (base : List String) (hbase : ∀ n ∈ base, NameOK n) (bp : Option Piece)
    (hb : BaseOK base bp) : matchBase base (renderOpt bp) = some (capOf bp) := by
  cases bp with
  | none => simp [matchBase_eq, renderOpt, capOf, skipWS]
  | some p =>
    obtain ⟨hne, hD, hw1, hw2, hnm⟩ := hb p rfl
    obtain ⟨d0, dt, hds0⟩ := List.exists_cons_of_ne_nil hne
    have hd0 : isDigit d0 = true := hD d0 (by rw [hds0]; simp)
    have hrest : NoDigitHead (p.w1 ++ (p.nm ++ p.w2)) := by
      cases h1 : p.w1 with
      | cons w ws => exact isReWS_not_digit (hw1 w (by rw [h1]; simp))
      | nil =>
        cases h2 : p.nm with
        | cons c t =>
          rcases hnm with e | ⟨n0, hn0, e⟩
          · rw [h2] at e; cases e
          · have := (hbase n0 hn0).2 c (by rw [e, h2]; simp)
            exact this.1
        | nil =>
          cases h3 : p.w2 with
          | nil => trivial
          | cons w ws => exact isReWS_not_digit (hw2 w (by rw [h3]; simp))
    have h1 : skipWS (p.ds ++ (p.w1 ++ (p.nm ++ p.w2))) = p.ds ++ (p.w1 ++ (p.nm ++ p.w2)) := by
      rw [hds0]; exact skipWS_of_noWSHead (cs := d0 :: (dt ++ _)) (isDigit_not_ws hd0)
    have h2 : (p.ds ++ (p.w1 ++ (p.nm ++ p.w2))).isEmpty = false := by rw [hds0]; rfl
    simp only [renderOpt, Piece.render, capOf]
    rw [matchBase_eq, h1, h2, takeWhile_digits_append hD hrest, dropWhile_digits_append hD hrest]
    simp only [Bool.false_eq_true, if_false]
    apply firstSome_countsDown_first _ (by rw [hds0]; simp)
    unfold baseSplit
    simp only [List.take_length, List.drop_length, List.nil_append]
    rw [tryTail_own base p.ds p.w1 p.nm p.w2 hbase hw1 hw2 hnm]

/-! ### the main matcher theorem: a rendering is matched with exactly its counts as captures -/

theorem matchGroups_render (gs : List (List String)) (base : List String) (hwf : GroupsWF gs base)
    (ps : List (Option Piece)) (bp : Option Piece) (hv : PiecesOK gs ps) (hb : BaseOK base bp) :
    matchGroups gs base (renderAll ps bp) = some (ps.map capOf, capOf bp) := by
  induction hv with
  | nil =>
    simp only [matchGroups, renderAll, matchBase_render base hwf.2.1 bp hb, Option.map_some,
      List.map_nil]
  | @cons names o gs' ps' ho hrest ih =>
    have hwf' := hwf.tail
    have ih := ih hwf'
    have hR : DigitHead (renderAll ps' bp) := renderAll_digitHead hrest hb
    have hRs : skipWS (renderAll ps' bp) = renderAll ps' bp := skipWS_of_noWSHead hR.noWS
    cases o with
    | none =>
      rw [matchGroups_cons_eq]
      simp only [renderAll, renderOpt, List.nil_append, hRs, ih, List.map_cons, capOf]
    | some p =>
      obtain ⟨hne, hD, hw1, hw2, n0, hn0, hnm⟩ := ho p rfl
      obtain ⟨hnames, hbaseOK, hsep, hsepB⟩ := hwf
      have hn0OK := hnames names (by simp) n0 hn0
      have hnmne : p.nm ≠ [] := by rw [← hnm]; exact hn0OK.1.1
      have hnmc : NameChars p.nm := by rw [← hnm]; exact hn0OK.1.2
      have hdot : p.nm ≠ ['.'] := by rw [← hnm]; exact hn0OK.2
      have htail : TailOK (p.w2 ++ renderAll ps' bp) := tailOK_ws_digitHead hw2 hR
      have hcs : renderAll (some p :: ps') bp =
          p.ds ++ (p.w1 ++ (p.nm ++ (p.w2 ++ renderAll ps' bp))) := by
        simp [renderAll, renderOpt, Piece.render]
      obtain ⟨d0, dt, hds0⟩ := List.exists_cons_of_ne_nil hne
      obtain ⟨c0, t0, hnm0⟩ := List.exists_cons_of_ne_nil hnmne
      have hd0 : isDigit d0 = true := hD d0 (by rw [hds0]; simp)
      have hrest' : NoDigitHead (p.w1 ++ (p.nm ++ (p.w2 ++ renderAll ps' bp))) := by
        cases h1 : p.w1 with
        | nil => rw [hnm0]; exact (hnmc c0 (by rw [hnm0]; simp)).1
        | cons w ws => exact isReWS_not_digit (hw1 w (by rw [h1]; simp))
      have h1 : skipWS (p.ds ++ (p.w1 ++ (p.nm ++ (p.w2 ++ renderAll ps' bp)))) =
          p.ds ++ (p.w1 ++ (p.nm ++ (p.w2 ++ renderAll ps' bp))) := by
        rw [hds0]; exact skipWS_of_noWSHead (cs := d0 :: (dt ++ _)) (isDigit_not_ws hd0)
      have h0 : NoWSHead (p.nm ++ (p.w2 ++ renderAll ps' bp)) := by
        rw [hnm0]; exact (hnmc c0 (by rw [hnm0]; simp)).2
      -- the empty alternative of this group fails: nobody below owns the name
      have hforeign : matchGroups gs' base (p.ds ++ (p.w1 ++ (p.nm ++ (p.w2 ++ renderAll ps' bp)))) = none := by
        apply matchGroups_foreign gs' base p.ds p.w1 p.nm _ _ _ hne hD hw1 hnmne hnmc hdot htail
        · intro names' hn' n hn
          refine ⟨(hnames names' (by simp [hn']) n hn).1, ?_⟩
          rw [← hnm]
          exact toList_ne_of_ne (Ne.symm ((List.pairwise_cons.mp hsep).1 names' hn' n0 hn0 n hn))
        · intro n hn
          refine ⟨hbaseOK n hn, ?_⟩
          rw [← hnm]
          exact toList_ne_of_ne (Ne.symm (hsepB names (by simp) n0 hn0 n hn))
      rw [hcs, matchGroups_cons_eq, h1, hforeign, takeWhile_digits_append hD hrest',
        dropWhile_digits_append hD hrest']
      dsimp only
      apply firstSome_countsDown_first _ (by rw [hds0]; simp)
      unfold groupSplit
      rw [List.take_length, List.drop_length, List.nil_append, skipWS_ws_append hw1,
        skipWS_of_noWSHead h0]
      have hown : ∀ n : String, n.toList = p.nm →
          groupName gs' base p.ds (p.nm ++ (p.w2 ++ renderAll ps' bp)) n =
            some (String.ofList p.ds :: ps'.map capOf, capOf bp) := by
        intro n hn
        unfold groupName
        rw [hn, stripPrefix?_append]
        simp only [skipWS_ws_append hw2, hRs, ih]
      simp only [List.map_cons, capOf]
      apply firstSome_some
      · intro n hn
        by_cases he : n.toList = p.nm
        · exact Or.inr (hown n he)
        · exact Or.inl (groupName_foreign gs' base _ p.nm _ n
            (hnames names (by simp) n hn).1.2 hnmc he htail)
      · exact ⟨n0, hn0, hown n0 hnm⟩


/-! ### decimal parsing of a captured count, checked accumulation -/

theorem inInt64_nonneg {v : Int} (h : 0 ≤ v) : inInt64 v = decide (v ≤ maxInt64) := by
  unfold inInt64 minInt64 maxInt64
  rw [Bool.eq_iff_iff]
  simp only [Bool.and_eq_true, decide_eq_true_eq]
  omega

theorem parseInt10_digits (ds : List Char) (hne : ds ≠ []) (hD : AllDigits ds) :
    parseInt10 (String.ofList ds) =
      if (decVal ds : Int) ≤ maxInt64 then some (decVal ds : Int) else none := by
  obtain ⟨d0, dt, hds0⟩ := List.exists_cons_of_ne_nil hne
  have hd0 : isDigit d0 = true := hD d0 (by rw [hds0]; simp)
  have hm : d0 ≠ '-' := digit_ne_of_toNat hd0 (by decide)
  have hp : d0 ≠ '+' := digit_ne_of_toNat hd0 (by decide)
  have hr := readNat_digits ds hne hD
  have hin := inInt64_nonneg (v := (decVal ds : Int)) (by omega)
  unfold parseInt10
  simp only [String.toList_ofList]
  rw [hds0] at hr hin ⊢
  split
  · next v heq =>
    split at heq
    · next cs h => simp only [List.cons.injEq] at h; exact absurd h.1 hm
    · next cs h => simp only [List.cons.injEq] at h; exact absurd h.1 hp
    · rw [hr] at heq
      simp at heq
      subst heq
      rw [hin]
      by_cases h : (decVal (d0 :: dt) : Int) ≤ maxInt64 <;> simp [h]
  · next heq =>
    split at heq
    · next cs h => simp only [List.cons.injEq] at h; exact absurd h.1 hm
    · next cs h => simp only [List.cons.injEq] at h; exact absurd h.1 hp
    · rw [hr] at heq
      simp at heq


/-- value of a capture (`0` for the empty capture) -/
def capVal (c : String) : Int := (decVal c.toList : Int)

/-- the mathematical sum of captured counts times multipliers -/
def capSum : List String → List Int → Int
  | c :: cs, m :: ms => capVal c * m + capSum cs ms
  | _, _ => 0

theorem isEmpty_iff_toList (c : String) : c.isEmpty = true ↔ c.toList = [] := by
  rw [String.isEmpty_iff, String.toList_eq_nil_iff]

theorem parseInt10_cap (c : String) (hne : c.isEmpty = false) (hD : AllDigits c.toList) :
    parseInt10 c = if capVal c ≤ maxInt64 then some (capVal c) else none := by
  have hne' : c.toList ≠ [] := by
    intro e; rw [(isEmpty_iff_toList c).mpr e] at hne; cases hne
  have := parseInt10_digits c.toList hne' hD
  rwa [String.ofList_toList] at this

theorem accInt_some {acc i m a : Int} (h : accInt acc i m = some a) : a = acc + i * m ∧ inInt64 a = true := by
  unfold accInt at h
  by_cases h1 : inInt64 (i * m) = true
  · by_cases h2 : inInt64 (acc + i * m) = true
    · simp [h1, h2] at h; subst h; exact ⟨rfl, h2⟩
    · simp [h1, h2] at h
  · simp [h1] at h

/-- the accumulation never wraps: a result is the exact sum -/
theorem go_exact (caps : List String) (ms : List Int) (acc v : Int)
    (hcaps : ∀ c ∈ caps, AllDigits c.toList) (h : Units.parseInt.go caps ms acc = some v) :
    v = acc + capSum caps ms := by
  induction caps generalizing ms acc with
  | nil => simp [Units.parseInt.go] at h; simp [capSum, h]
  | cons c cs ih =>
    cases ms with
    | nil => simp [Units.parseInt.go] at h; simp [capSum, h]
    | cons m ms =>
      have hcs : ∀ c ∈ cs, AllDigits c.toList := fun x hx => hcaps x (by simp [hx])
      rw [Units.parseInt.go] at h
      by_cases he : c.isEmpty = true
      · simp only [he, if_true] at h
        have := ih ms acc hcs h
        have h0 : capVal c = 0 := by
          unfold capVal; rw [(isEmpty_iff_toList c).mp he]; rfl
        simp [capSum, h0, this]
      · have he' : c.isEmpty = false := by simpa using he
        simp only [he', Bool.false_eq_true, if_false] at h
        rw [parseInt10_cap c he' (hcaps c (by simp))] at h
        by_cases hv : capVal c ≤ maxInt64
        · simp only [hv, if_true] at h
          cases ha : accInt acc (capVal c) m with
          | none => simp [ha] at h
          | some a =>
            simp only [ha] at h
            have := ih ms a hcs h
            rw [this, (accInt_some ha).1]
            simp [capSum]; omega
        · simp [hv] at h



theorem capVal_nonneg (c : String) : 0 ≤ capVal c := by unfold capVal; omega

theorem capSum_nonneg (caps : List String) (ms : List Int) (hms : ∀ m ∈ ms, 1 ≤ m) :
    0 ≤ capSum caps ms := by
  induction caps generalizing ms with
  | nil => simp [capSum]
  | cons c cs ih =>
    cases ms with
    | nil => simp [capSum]
    | cons m ms =>
      simp only [capSum]
      have h1 := ih ms (fun x hx => hms x (by simp [hx]))
      have h2 : 0 ≤ capVal c * m := Int.mul_nonneg (capVal_nonneg c) (by have := hms m (by simp); omega)
      omega

theorem accInt_nonneg {acc i m : Int} (hacc : 0 ≤ acc) (hp : 0 ≤ i * m) :
    accInt acc i m =
      if i * m ≤ maxInt64 then (if acc + i * m ≤ maxInt64 then some (acc + i * m) else none)
      else none := by
  unfold accInt
  simp only [inInt64_nonneg hp, inInt64_nonneg (v := acc + i * m) (by omega)]
  by_cases h1 : i * m ≤ maxInt64 <;> by_cases h2 : acc + i * m ≤ maxInt64 <;> simp [h1, h2]

/-- with non-negative counts and multipliers ≥ 1, the accumulation succeeds exactly when the
    mathematical sum fits -/
theorem go_nonneg (caps : List String) (ms : List Int) (acc : Int)
    (hcaps : ∀ c ∈ caps, AllDigits c.toList) (hms : ∀ m ∈ ms, 1 ≤ m)
    (hacc : 0 ≤ acc) (hacc' : acc ≤ maxInt64) :
    Units.parseInt.go caps ms acc =
      if acc + capSum caps ms ≤ maxInt64 then some (acc + capSum caps ms) else none := by
  induction caps generalizing ms acc with
  | nil => simp [Units.parseInt.go, capSum, hacc']
  | cons c cs ih =>
    cases ms with
    | nil => simp [Units.parseInt.go, capSum, hacc']
    | cons m ms =>
      have hcs : ∀ c ∈ cs, AllDigits c.toList := fun x hx => hcaps x (by simp [hx])
      have hms' : ∀ x ∈ ms, 1 ≤ x := fun x hx => hms x (by simp [hx])
      have hm : 1 ≤ m := hms m (by simp)
      have hT := capSum_nonneg cs ms hms'
      rw [Units.parseInt.go]
      by_cases he : c.isEmpty = true
      · have h0 : capVal c = 0 := by
          unfold capVal; rw [(isEmpty_iff_toList c).mp he]; rfl
        simp only [he, if_true, capSum, h0, Int.zero_mul, Int.zero_add]
        exact ih ms acc hcs hms' hacc hacc'
      · have he' : c.isEmpty = false := by simpa using he
        have hV := capVal_nonneg c
        have hP : capVal c ≤ capVal c * m := by
          have := Int.mul_le_mul_of_nonneg_left hm hV
          simpa using this
        simp only [he', Bool.false_eq_true, if_false, capSum]
        rw [parseInt10_cap c he' (hcaps c (by simp))]
        have hP0 : 0 ≤ capVal c * m := by omega
        by_cases hv : capVal c ≤ maxInt64
        · simp only [hv, if_true]
          rw [accInt_nonneg hacc hP0]
          by_cases h1 : capVal c * m ≤ maxInt64
          · by_cases h2 : acc + capVal c * m ≤ maxInt64
            · simp only [h1, h2, if_true]
              rw [ih ms _ hcs hms' (by omega) h2, Int.add_assoc]
              by_cases h3 : acc + (capVal c * m + capSum cs ms) ≤ maxInt64 <;> simp [h3]
            · have : ¬ (acc + (capVal c * m + capSum cs ms) ≤ maxInt64) := by omega
              simp [h1, h2, this]
          · have : ¬ (acc + (capVal c * m + capSum cs ms) ≤ maxInt64) := by omega
            simp [h1, this]
        · have : ¬ (acc + (capVal c * m + capSum cs ms) ≤ maxInt64) := by omega
          simp [hv, this]



/-! ### the top level of `ParseInt` -/

/-- the base-unit stage of `ParseInt` after the multiplier groups -/
def baseStage (acc : Int) (b : String) : Option Int :=
  if b.isEmpty then some acc
  else if b.toList.contains '.' then none
  else match parseInt10 b with
    | none => none
    | some i => accInt acc i 1

theorem parseInt_eq (u : Units) (s : String) : u.parseInt s =
    if (trimSpace s.toList).isEmpty then none else
    match matchGroups ((sortDesc u.mults).map (·.2.all)) u.base.all (skipWS (trimSpace s.toList)) with
    | none => none
    | some (caps, b) =>
      match Units.parseInt.go caps ((sortDesc u.mults).map (·.1)) 0 with
      | none => none
      | some acc => baseStage acc b := rfl

theorem no_dot_of_digits {l : List Char} (h : AllDigits l) : l.contains '.' = false := by
  cases hc : l.contains '.' with
  | false => rfl
  | true =>
    have := h '.' (List.contains_iff_mem.mp hc)
    rw [dot_not_digit] at this; cases this

theorem baseStage_digits (acc : Int) (b : String) (hb : AllDigits b.toList)
    (hacc : 0 ≤ acc) (hacc' : acc ≤ maxInt64) :
    baseStage acc b = if acc + capVal b ≤ maxInt64 then some (acc + capVal b) else none := by
  unfold baseStage
  by_cases he : b.isEmpty = true
  · have h0 : capVal b = 0 := by
      unfold capVal; rw [(isEmpty_iff_toList b).mp he]; rfl
    simp [he, h0, hacc']
  · have he' : b.isEmpty = false := by simpa using he
    have hV := capVal_nonneg b
    simp only [he', no_dot_of_digits hb, Bool.false_eq_true, if_false]
    rw [parseInt10_cap b he' hb]
    by_cases hv : capVal b ≤ maxInt64
    · simp only [hv, if_true]
      rw [accInt_nonneg hacc (by omega)]
      simp only [Int.mul_one, hv, if_true]
    · have : ¬ (acc + capVal b ≤ maxInt64) := by omega
      simp [hv, this]

theorem baseStage_exact (acc : Int) (b : String) (v : Int)
    (hb : AllDigits b.toList ∨ b.toList.contains '.' = true) (hacc : inInt64 acc = true)
    (h : baseStage acc b = some v) :
    AllDigits b.toList ∧ v = acc + capVal b ∧ inInt64 v = true := by
  unfold baseStage at h
  by_cases he : b.isEmpty = true
  · have hl := (isEmpty_iff_toList b).mp he
    have h0 : capVal b = 0 := by unfold capVal; rw [hl]; rfl
    simp only [he, if_true, Option.some.injEq] at h
    subst h
    refine ⟨?_, by omega, hacc⟩
    rw [hl]; intro c hc; cases hc
  · have he' : b.isEmpty = false := by simpa using he
    simp only [he', Bool.false_eq_true, if_false] at h
    by_cases hdot : b.toList.contains '.' = true
    · simp only [hdot, if_true] at h
      cases h
    · have hD : AllDigits b.toList := by
        rcases hb with hb | hb
        · exact hb
        · exact absurd hb hdot
      have hdot' : b.toList.contains '.' = false := by simpa using hdot
      simp only [hdot', Bool.false_eq_true, if_false] at h
      rw [parseInt10_cap b he' hD] at h
      by_cases hv : capVal b ≤ maxInt64
      · simp only [hv, if_true] at h
        obtain ⟨h1, h2⟩ := accInt_some h
        exact ⟨hD, by rw [h1]; omega, h2⟩
      · simp [hv] at h

theorem go_inInt64 (caps : List String) (ms : List Int) (acc v : Int) (hacc : inInt64 acc = true)
    (h : Units.parseInt.go caps ms acc = some v) : inInt64 v = true := by
  induction caps generalizing ms acc with
  | nil => simp [Units.parseInt.go] at h; subst h; exact hacc
  | cons c cs ih =>
    cases ms with
    | nil => simp [Units.parseInt.go] at h; subst h; exact hacc
    | cons m ms =>
      rw [Units.parseInt.go] at h
      by_cases he : c.isEmpty = true
      · simp only [he, if_true] at h
        exact ih ms acc hacc h
      · have he' : c.isEmpty = false := by simpa using he
        simp only [he', Bool.false_eq_true, if_false] at h
        cases hp : parseInt10 c with
        | none => simp [hp] at h
        | some i =>
          simp only [hp] at h
          cases ha : accInt acc i m with
          | none => simp [ha] at h
          | some a =>
            simp only [ha] at h
            exact ih ms a (accInt_some ha).2 h

/-! ### what the matcher can capture: digit strings (and `digits.digits` for the base group) -/

theorem firstSome_mem {α β} (l : List α) (f : α → Option β) (v : β) (h : firstSome l f = some v) :
    ∃ x ∈ l, f x = some v := by
  induction l with
  | nil => cases h
  | cons x xs ih =>
    simp only [firstSome] at h
    cases hx : f x with
    | some b => rw [hx] at h; exact ⟨x, by simp, by rw [hx]; exact h⟩
    | none =>
      rw [hx] at h
      obtain ⟨y, hy, hfy⟩ := ih h
      exact ⟨y, by simp [hy], hfy⟩

theorem takeWhile_all {α} (p : α → Bool) (l : List α) : ∀ x ∈ l.takeWhile p, p x = true := by
  induction l with
  | nil => intro x hx; cases hx
  | cons a l ih =>
    intro x hx
    by_cases ha : p a = true
    · simp only [List.takeWhile, ha] at hx
      rcases List.mem_cons.mp hx with e | hx
      · subst e; exact ha
      · exact ih x hx
    · have : p a = false := by simpa using ha
      simp [List.takeWhile, this] at hx

theorem allDigits_take_takeWhile (cs : List Char) (k : Nat) :
    AllDigits ((cs.takeWhile isDigit).take k) :=
  fun c hc => takeWhile_all isDigit cs c (List.mem_of_mem_take hc)

theorem tryTail_cap (names : List String) (cap r : List Char) (c : String)
    (h : tryTail names cap r = some c) : c = String.ofList cap := by
  unfold tryTail at h
  dsimp only at h
  split at h
  · exact (Option.some.inj h).symm
  · obtain ⟨n, _, hn⟩ := firstSome_mem _ _ _ h
    split at hn
    · split at hn
      · exact (Option.some.inj hn).symm
      · cases hn
    · cases hn

theorem matchBase_cap (names : List String) (cs : List Char) (b : String)
    (h : matchBase names cs = some b) : AllDigits b.toList ∨ b.toList.contains '.' = true := by
  rw [matchBase_eq] at h
  split at h
  · have := (Option.some.inj h).symm
    subst this
    left; intro c hc; simp at hc
  · obtain ⟨k, _, hk⟩ := firstSome_mem _ _ _ h
    unfold baseSplit at hk
    split at hk
    · next c hc =>
      have := tryTail_cap _ _ _ _ hc
      have hb : b = c := (Option.some.inj hk).symm
      rw [hb, this, String.toList_ofList]
      exact Or.inl (allDigits_take_takeWhile cs k)
    · split at hk
      · obtain ⟨j, _, hj⟩ := firstSome_mem _ _ _ hk
        have := tryTail_cap _ _ _ _ hj
        right
        rw [this, String.toList_ofList]
        simp
      · cases hk

theorem matchGroups_cap (gs : List (List String)) (base : List String) (cs : List Char)
    (caps : List String) (b : String) (h : matchGroups gs base cs = some (caps, b)) :
    (∀ c ∈ caps, AllDigits c.toList) ∧ (AllDigits b.toList ∨ b.toList.contains '.' = true) ∧
      caps.length = gs.length := by
  induction gs generalizing cs caps b with
  | nil =>
    simp only [matchGroups, Option.map_eq_some_iff] at h
    obtain ⟨b', hb', he⟩ := h
    simp only [Prod.mk.injEq] at he
    obtain ⟨e1, e2⟩ := he
    subst e1; subst e2
    exact ⟨(by intro c hc; cases hc), matchBase_cap base cs _ hb', rfl⟩
  | cons names gs ih =>
    rw [matchGroups_cons_eq] at h
    split at h
    · next caps' b' h' =>
      obtain ⟨h1, h2, h3⟩ := ih _ _ _ h'
      simp only [Option.some.injEq, Prod.mk.injEq] at h
      obtain ⟨e1, e2⟩ := h
      subst e1; subst e2
      refine ⟨?_, h2, by simp [h3]⟩
      intro c hc
      rcases List.mem_cons.mp hc with e | hc
      · subst e; intro x hx; simp at hx
      · exact h1 c hc
    · obtain ⟨k, _, hk⟩ := firstSome_mem _ _ _ h
      unfold groupSplit at hk
      obtain ⟨n, _, hn⟩ := firstSome_mem _ _ _ hk
      unfold groupName at hn
      split at hn
      · split at hn
        · next caps' b' h' =>
          obtain ⟨h1, h2, h3⟩ := ih _ _ _ h'
          simp only [Option.some.injEq, Prod.mk.injEq] at hn
          obtain ⟨e1, e2⟩ := hn
          subst e1; subst e2
          refine ⟨?_, h2, by simp [h3]⟩
          intro c hc
          rcases List.mem_cons.mp hc with e | hc
          · subst e; rw [String.toList_ofList]; exact allDigits_take_takeWhile cs k
          · exact h1 c hc
        · cases hn
      · cases hn



/-! ### `strings.TrimSpace` on renderings -/

def ltrim (cs : List Char) : List Char := cs.dropWhile isUniSpace
def rtrim (cs : List Char) : List Char := (cs.reverse.dropWhile isUniSpace).reverse

theorem trimSpace_eq (cs : List Char) : trimSpace cs = rtrim (ltrim cs) := rfl

/-- the list is empty or ends with a character that is not Unicode white space -/
def LastOK (l : List Char) : Prop :=
  match l.reverse with
  | [] => True
  | c :: _ => isUniSpace c = false

def AllUni (cs : List Char) : Prop := ∀ c ∈ cs, isUniSpace c = true

theorem AllWS.allUni {w : List Char} (h : AllWS w) : AllUni w := fun c hc => isReWS_isUniSpace (h c hc)

theorem ltrim_append {lead r : List Char} (hl : AllUni lead) (hr : ∀ c t, r = c :: t → isUniSpace c = false) :
    ltrim (lead ++ r) = r := by
  induction lead with
  | nil =>
    cases r with
    | nil => rfl
    | cons c t => simp [ltrim, hr c t rfl]
  | cons a l ih =>
    have ha : isUniSpace a = true := hl a (by simp)
    simp only [ltrim, List.cons_append, List.dropWhile, ha]
    exact ih (fun x hx => hl x (by simp [hx]))

theorem rtrim_of_lastOK {l : List Char} (h : LastOK l) : rtrim l = l := by
  unfold LastOK at h
  unfold rtrim
  cases hr : l.reverse with
  | nil => simp [List.reverse_eq_nil_iff.mp hr]
  | cons c t =>
    rw [hr] at h
    simp only at h
    simp only [List.dropWhile, h]
    rw [← hr, List.reverse_reverse]

theorem rtrim_allUni {l : List Char} (h : AllUni l) : rtrim l = [] := by
  unfold rtrim
  have : ∀ m : List Char, AllUni m → m.dropWhile isUniSpace = [] := by
    intro m hm
    induction m with
    | nil => rfl
    | cons a m ih =>
      simp only [List.dropWhile, hm a (by simp)]
      exact ih (fun x hx => hm x (by simp [hx]))
  rw [this _ (fun x hx => h x (List.mem_reverse.mp hx))]; rfl

theorem rtrim_append (xs ys : List Char) :
    rtrim (xs ++ ys) = if rtrim ys = [] then rtrim xs else xs ++ rtrim ys := by
  unfold rtrim
  rw [List.reverse_append, List.dropWhile_append]
  by_cases h : (List.dropWhile isUniSpace ys.reverse).isEmpty = true
  · have h' : List.dropWhile isUniSpace ys.reverse = [] := List.isEmpty_iff.mp h
    simp [h']
  · have h' : List.dropWhile isUniSpace ys.reverse ≠ [] := fun e => h (List.isEmpty_iff.mpr e)
    simp [h, h']

theorem rtrim_ne_nil {c : Char} {t : List Char} (hc : isUniSpace c = false) : rtrim (c :: t) ≠ [] := by
  have h1 : rtrim [c] = [c] := rtrim_of_lastOK (l := [c]) (by simp [LastOK, hc])
  have := rtrim_append [c] t
  rw [List.singleton_append] at this
  rw [this]
  by_cases h : rtrim t = []
  · simp [h, h1]
  · simp [h]

theorem lastOK_append_singleton (l : List Char) (c : Char) (h : isUniSpace c = false) : LastOK (l ++ [c]) := by
  simp [LastOK, h]

theorem lastOK_digits {ds : List Char} (hD : AllDigits ds) : LastOK ds := by
  unfold LastOK
  cases hr : ds.reverse with
  | nil => trivial
  | cons c t =>
    have : c ∈ ds := List.mem_reverse.mp (by rw [hr]; simp)
    exact isDigit_not_uni (hD c this)



/-- a token without its trailing white space -/
def Piece.trimmed (p : Piece) : Piece :=
  if p.nm = [] then ⟨p.ds, [], [], []⟩ else ⟨p.ds, p.w1, p.nm, []⟩

theorem Piece.trimmed_ds (p : Piece) : p.trimmed.ds = p.ds := by
  unfold Piece.trimmed; split <;> rfl

theorem Piece.trimmed_nm (p : Piece) : p.trimmed.nm = p.nm := by
  unfold Piece.trimmed; split
  · next h => simp [h]
  · rfl

theorem allWS_nil : AllWS [] := fun c hc => by cases hc

theorem PieceOK.trimmed {names : List String} {p : Piece} (h : PieceOK names p) :
    PieceOK names p.trimmed := by
  obtain ⟨h1, h2, h3, h4, h5⟩ := h
  refine ⟨by rw [Piece.trimmed_ds]; exact h1, by rw [Piece.trimmed_ds]; exact h2, ?_, ?_,
    by rw [Piece.trimmed_nm]; exact h5⟩
  · unfold Piece.trimmed; split
    · exact allWS_nil
    · exact h3
  · unfold Piece.trimmed; split <;> exact allWS_nil

theorem BasePieceOK.trimmed {names : List String} {p : Piece} (h : BasePieceOK names p) :
    BasePieceOK names p.trimmed := by
  obtain ⟨h1, h2, h3, h4, h5⟩ := h
  refine ⟨by rw [Piece.trimmed_ds]; exact h1, by rw [Piece.trimmed_ds]; exact h2, ?_, ?_,
    by rw [Piece.trimmed_nm]; exact h5⟩
  · unfold Piece.trimmed; split
    · exact allWS_nil
    · exact h3
  · unfold Piece.trimmed; split <;> exact allWS_nil

theorem rtrim_render (p : Piece) (hne : p.ds ≠ []) (hD : AllDigits p.ds) (hw1 : AllWS p.w1)
    (hw2 : AllWS p.w2) (hnm : LastOK p.nm) :
    rtrim p.render = p.trimmed.render ∧ p.trimmed.render ≠ [] := by
  have hds : rtrim p.ds = p.ds := rtrim_of_lastOK (lastOK_digits hD)
  have h2 : rtrim p.w2 = [] := rtrim_allUni hw2.allUni
  have h1 : rtrim p.w1 = [] := rtrim_allUni hw1.allUni
  obtain ⟨d0, dt, hds0⟩ := List.exists_cons_of_ne_nil hne
  unfold Piece.render Piece.trimmed
  by_cases he : p.nm = []
  · simp only [he, if_true]
    have h3 : rtrim ([] ++ p.w2) = [] := by simpa using h2
    have h4 : rtrim (p.w1 ++ ([] ++ p.w2)) = [] := by rw [rtrim_append, h3]; simp [h1]
    rw [rtrim_append, h4]
    simp [hds, hne]
  · simp only [he, if_false]
    have h3 : rtrim (p.nm ++ p.w2) = p.nm := by
      rw [rtrim_append]; simp [h2, rtrim_of_lastOK hnm]
    have h4 : rtrim (p.w1 ++ (p.nm ++ p.w2)) = p.w1 ++ p.nm := by
      rw [rtrim_append, h3]; simp [he]
    rw [rtrim_append, h4]
    simp [he, hne]

/-- names end with a character `strings.TrimSpace` does not remove -/
def NamesEndOK (gs : List (List String)) (base : List String) : Prop :=
  (∀ names ∈ gs, ∀ n ∈ names, LastOK n.toList) ∧ (∀ n ∈ base, LastOK n.toList)

theorem lastOK_nil : LastOK [] := by simp [LastOK]

theorem rtrim_renderAll {gs : List (List String)} {base : List String}
    {ps : List (Option Piece)} {bp : Option Piece} (hv : PiecesOK gs ps) (hb : BaseOK base bp)
    (hend : NamesEndOK gs base) :
    ∃ ps' bp', PiecesOK gs ps' ∧ BaseOK base bp' ∧ ps'.map capOf = ps.map capOf ∧
      capOf bp' = capOf bp ∧ rtrim (renderAll ps bp) = renderAll ps' bp' := by
  induction hv with
  | nil =>
    cases bp with
    | none => exact ⟨[], none, .nil, hb, rfl, rfl, rfl⟩
    | some p =>
      have hp := hb p rfl
      obtain ⟨h1, h2, h3, h4, h5⟩ := hp
      have hl : LastOK p.nm := by
        rcases h5 with e | ⟨n, hn, e⟩
        · rw [e]; exact lastOK_nil
        · rw [← e]; exact hend.2 n hn
      refine ⟨[], some p.trimmed, .nil, ?_, rfl, ?_, ?_⟩
      · intro q hq; cases hq; exact (hb p rfl).trimmed
      · simp [capOf, Piece.trimmed_ds]
      · exact (rtrim_render p h1 h2 h3 h4 hl).1
  | @cons names o gs' ps' ho hrest ih =>
    obtain ⟨ps1, bp1, hv1, hb1, hc1, hcb1, hr1⟩ := ih ⟨fun ns hn => hend.1 ns (by simp [hn]), hend.2⟩
    by_cases hR : renderAll ps1 bp1 = []
    · cases o with
      | none =>
        refine ⟨none :: ps1, bp1, .cons (fun p hp => by cases hp) hv1, hb1, by simp [hc1], hcb1, ?_⟩
        simp only [renderAll, renderOpt, List.nil_append]
        exact hr1
      | some p =>
        have hp := ho p rfl
        obtain ⟨h1, h2, h3, h4, n, hn, e⟩ := hp
        have hl : LastOK p.nm := by rw [← e]; exact hend.1 names (by simp) n hn
        refine ⟨some p.trimmed :: ps1, bp1, .cons ?_ hv1, hb1, ?_, hcb1, ?_⟩
        · intro q hq; cases hq; exact (ho p rfl).trimmed
        · simp [capOf, Piece.trimmed_ds, hc1]
        · simp only [renderAll, renderOpt]
          rw [rtrim_append, hr1, hR]
          simp [(rtrim_render p h1 h2 h3 h4 hl).1]
    · refine ⟨o :: ps1, bp1, .cons ho hv1, hb1, by simp [hc1], hcb1, ?_⟩
      simp only [renderAll]
      rw [rtrim_append, hr1]
      simp [hR]



theorem caps_allDigits {gs : List (List String)} {ps : List (Option Piece)} (hv : PiecesOK gs ps) :
    ∀ c ∈ ps.map capOf, AllDigits c.toList := by
  induction hv with
  | nil => intro c hc; cases hc
  | @cons names o gs' ps' ho _ ih =>
    intro c hc
    simp only [List.map_cons, List.mem_cons] at hc
    rcases hc with e | hc
    · subst e
      cases o with
      | none => intro x hx; simp [capOf] at hx
      | some p => simp only [capOf, String.toList_ofList]; exact (ho p rfl).2.1
    · exact ih c hc

theorem capOf_base_allDigits {base : List String} {bp : Option Piece} (hb : BaseOK base bp) :
    AllDigits (capOf bp).toList := by
  cases bp with
  | none => intro x hx; simp [capOf] at hx
  | some p => simp only [capOf, String.toList_ofList]; exact (hb p rfl).2.1

/-- the value denoted by a rendering: sum of count × multiplier, plus the base count -/
def renderTotal (ps : List (Option Piece)) (bp : Option Piece) (ms : List Int) : Int :=
  capSum (ps.map capOf) ms + capVal (capOf bp)

/-- `ParseInt` on a rendering of the grammar, surrounded by any Unicode white space (the ASCII
    white space after the last token is part of that token): the exact sum if it fits int64, an
    error otherwise. -/
theorem parseInt_render (u : Units) (s : String) (lead trail : List Char)
    (ps : List (Option Piece)) (bp : Option Piece)
    (hwf : GroupsWF ((sortDesc u.mults).map (·.2.all)) u.base.all)
    (hend : NamesEndOK ((sortDesc u.mults).map (·.2.all)) u.base.all)
    (hms : ∀ m ∈ (sortDesc u.mults).map (·.1), 1 ≤ m)
    (hs : s.toList = lead ++ (renderAll ps bp ++ trail)) (hlead : AllUni lead)
    (htrail : AllUni trail)
    (hv : PiecesOK ((sortDesc u.mults).map (·.2.all)) ps) (hb : BaseOK u.base.all bp)
    (hne : renderAll ps bp ≠ []) :
    u.parseInt s =
      if renderTotal ps bp ((sortDesc u.mults).map (·.1)) ≤ maxInt64
      then some (renderTotal ps bp ((sortDesc u.mults).map (·.1))) else none := by
  have hR := renderAll_digitHead hv hb
  obtain ⟨d, t, hdt⟩ := List.exists_cons_of_ne_nil hne
  have hd : isDigit d = true := by rw [hdt] at hR; exact hR
  have hl : ltrim (lead ++ (renderAll ps bp ++ trail)) = renderAll ps bp ++ trail := by
    apply ltrim_append hlead
    intro c t' e
    rw [hdt] at e; cases e
    exact isDigit_not_uni hd
  have hrt : rtrim (renderAll ps bp ++ trail) = rtrim (renderAll ps bp) := by
    rw [rtrim_append, rtrim_allUni htrail]; simp
  obtain ⟨ps', bp', hv', hb', hc', hcb', hr'⟩ := rtrim_renderAll hv hb hend
  have hne' : renderAll ps' bp' ≠ [] := by
    rw [← hr', hdt]; exact rtrim_ne_nil (isDigit_not_uni hd)
  have hR' := renderAll_digitHead hv' hb'
  have he : (renderAll ps' bp').isEmpty = false := by
    cases h : renderAll ps' bp' with
    | nil => exact absurd h hne'
    | cons _ _ => rfl
  rw [parseInt_eq, hs, trimSpace_eq, hl, hrt, hr', he, skipWS_of_noWSHead hR'.noWS,
    matchGroups_render _ _ hwf ps' bp' hv' hb', hc', hcb']
  simp only [Bool.false_eq_true, if_false]
  have hz : (0 : Int) ≤ maxInt64 := by unfold maxInt64; omega
  rw [go_nonneg _ _ 0 (caps_allDigits hv) hms (by omega) hz]
  have hA := capSum_nonneg (ps.map capOf) _ hms
  have hV := capVal_nonneg (capOf bp)
  unfold renderTotal
  simp only [Int.zero_add]
  by_cases h1 : capSum (ps.map capOf) ((sortDesc u.mults).map (·.1)) ≤ maxInt64
  · simp only [h1, if_true]
    exact baseStage_digits _ _ (capOf_base_allDigits hb) hA h1
  · have : ¬ (capSum (ps.map capOf) ((sortDesc u.mults).map (·.1)) + capVal (capOf bp) ≤ maxInt64) := by
      omega
    simp [h1, this]

/-! ### well-formed units definitions -/

/-- a unit name the grammar can carry: non-empty, free of ASCII digits and of RE2 white space
    (`\s`), and not ending in a character that `strings.TrimSpace` removes -/
def nameOKb (s : String) : Bool :=
  !s.toList.isEmpty && s.toList.all (fun c => !isDigit c && !isReWS c) &&
  (match s.toList.reverse with
   | [] => true
   | c :: _ => !isUniSpace c)

def unitOKb (n : UnitNames) : Bool := n.all.all nameOKb

/-- no name of the unit is exactly "." (a multiplier unit called "." makes "1.5s" ambiguous) -/
def noDotb (n : UnitNames) : Bool := n.all.all (fun x => x != ".")

/-- every name of `a` differs from every name of `b` -/
def disjointb (a b : UnitNames) : Bool := a.all.all (fun x => b.all.all (fun y => x != y))

/-- Well-formed units definition, as far as the round-trip proof needs it:
    * every multiplier is ≥ 1 (Go itself needs ≥ 2 and pairwise distinct: the multipliers are map
      keys and the base unit occupies the group name `g1`; the proof does not use that);
    * every name (4 per unit) is non-empty, has no ASCII digit and no `\s` character, and does not
      end in a Unicode space;
    * no name of a multiplier unit is ".";
    * names of different units differ (names within one unit may coincide). -/
def WFu (u : Units) : Prop :=
  unitOKb u.base = true ∧
  (∀ x ∈ u.mults, 1 ≤ x.1 ∧ unitOKb x.2 = true ∧ noDotb x.2 = true ∧ disjointb x.2 u.base = true) ∧
  u.mults.Pairwise (fun a b => disjointb a.2 b.2 = true)

instance (u : Units) : Decidable (WFu u) := by unfold WFu; infer_instance

theorem nameOKb_spec {s : String} (h : nameOKb s = true) : NameOK s ∧ LastOK s.toList := by
  unfold nameOKb at h
  simp only [Bool.and_eq_true, List.all_eq_true, Bool.not_eq_eq_eq_not,
    Bool.not_true] at h
  obtain ⟨⟨h1, h2⟩, h3⟩ := h
  refine ⟨⟨?_, fun c hc => h2 c hc⟩, ?_⟩
  · intro e; rw [e] at h1; cases h1
  · unfold LastOK
    cases e : s.toList.reverse with
    | nil => trivial
    | cons c t => rw [e] at h3; simpa using h3

theorem unitOKb_spec {n : UnitNames} (h : unitOKb n = true) :
    ∀ x ∈ n.all, NameOK x ∧ LastOK x.toList := by
  unfold unitOKb at h
  rw [List.all_eq_true] at h
  exact fun x hx => nameOKb_spec (h x hx)

theorem noDotb_spec {n : UnitNames} (h : noDotb n = true) : ∀ x ∈ n.all, x.toList ≠ ['.'] := by
  unfold noDotb at h
  rw [List.all_eq_true] at h
  intro x hx
  have := h x hx
  simp only [bne_iff_ne, ne_eq] at this
  exact toList_ne_of_ne this

theorem disjointb_spec {a b : UnitNames} : disjointb a b = true ↔ ∀ x ∈ a.all, ∀ y ∈ b.all, x ≠ y := by
  unfold disjointb
  simp only [List.all_eq_true, bne_iff_ne, ne_eq]

theorem disjointb_symm {a b : UnitNames} (h : disjointb a b = true) : disjointb b a = true := by
  rw [disjointb_spec] at h ⊢
  exact fun x hx y hy => Ne.symm (h y hy x hx)

theorem insertDesc_perm (x : Int × UnitNames) (l : List (Int × UnitNames)) :
    (insertDesc x l).Perm (x :: l) := by
  induction l with
  | nil => exact List.Perm.refl _
  | cons y ys ih =>
    unfold insertDesc
    split
    · exact List.Perm.refl _
    · exact (List.Perm.cons y ih).trans (List.Perm.swap x y ys)

theorem sortDesc_perm (l : List (Int × UnitNames)) : (sortDesc l).Perm l := by
  induction l with
  | nil => exact List.Perm.refl _
  | cons x xs ih =>
    show (insertDesc x (sortDesc xs)).Perm (x :: xs)
    exact (insertDesc_perm x _).trans (List.Perm.cons x ih)

theorem WFu.groupsWF {u : Units} (h : WFu u) :
    GroupsWF ((sortDesc u.mults).map (·.2.all)) u.base.all ∧
    NamesEndOK ((sortDesc u.mults).map (·.2.all)) u.base.all ∧
    (∀ m ∈ (sortDesc u.mults).map (·.1), 1 ≤ m) := by
  obtain ⟨hb, hm, hp⟩ := h
  have hperm := sortDesc_perm u.mults
  have hm' : ∀ x ∈ sortDesc u.mults, 1 ≤ x.1 ∧ unitOKb x.2 = true ∧ noDotb x.2 = true ∧
      disjointb x.2 u.base = true := fun x hx => hm x (hperm.mem_iff.mp hx)
  have hp' : (sortDesc u.mults).Pairwise (fun a b => disjointb a.2 b.2 = true) :=
    (hperm.pairwise_iff (fun {_ _} h => disjointb_symm h)).mpr hp
  refine ⟨⟨?_, ?_, ?_, ?_⟩, ⟨?_, ?_⟩, ?_⟩
  · intro names hn n hnn
    obtain ⟨x, hx, e⟩ := List.mem_map.mp hn
    subst e
    exact ⟨(unitOKb_spec (hm' x hx).2.1 n hnn).1, noDotb_spec (hm' x hx).2.2.1 n hnn⟩
  · exact fun n hn => (unitOKb_spec hb n hn).1
  · rw [List.pairwise_map]
    exact hp'.imp (fun {a b} h => disjointb_spec.mp h)
  · intro names hn x hx y hy
    obtain ⟨z, hz, e⟩ := List.mem_map.mp hn
    subst e
    exact disjointb_spec.mp (hm' z hz).2.2.2 x hx y hy
  · intro names hn n hnn
    obtain ⟨x, hx, e⟩ := List.mem_map.mp hn
    subst e
    exact (unitOKb_spec (hm' x hx).2.1 n hnn).2
  · exact fun n hn => (unitOKb_spec hb n hn).2
  · intro m hmm
    obtain ⟨x, hx, e⟩ := List.mem_map.mp hmm
    subst e
    exact (hm' x hx).1



/-! ### the formatter produces a rendering of the grammar -/

theorem wrapInt64_id {x : Int} (h0 : 0 ≤ x) (h1 : x ≤ maxInt64) : wrapInt64 x = x := by
  unfold maxInt64 at h1
  unfold wrapInt64
  have : x % 2 ^ 64 = x := Int.emod_eq_of_lt h0 (by omega)
  simp only [this]
  split
  · omega
  · rfl

theorem ediv_le_self {a b : Int} (h0 : 0 ≤ a) (hb : 1 ≤ b) : a / b ≤ a := by
  have h1 := Int.mul_ediv_add_emod a b
  have h2 := Int.emod_nonneg a (show b ≠ 0 by omega)
  have h3 : 0 ≤ a / b := Int.ediv_nonneg h0 (by omega)
  have h4 : a / b * 1 ≤ a / b * b := Int.mul_le_mul_of_nonneg_left hb h3
  rw [Int.mul_comm (a / b) b] at h4
  omega

theorem floorDiv_nonneg {a b : Int} (h0 : 0 ≤ a) (h1 : a ≤ maxInt64) (hb : 1 ≤ b) :
    floorDiv a b = a / b := by
  unfold floorDiv
  have ha : decide (a < 0) = false := by simp; omega
  have hb' : decide (b < 0) = false := by simp; omega
  have hq : 0 ≤ a / b := Int.ediv_nonneg h0 (by omega)
  have hq' : a / b ≤ a := ediv_le_self h0 hb
  simp only [ha, hb', Int.tdiv_eq_ediv_of_nonneg h0, bne_self_eq_false, Bool.and_false,
    Bool.false_eq_true, if_false]
  exact wrapInt64_id hq (by omega)

/-- one step of the greedy decomposition on a non-negative remainder -/
theorem fmt_step {rem m : Int} (h0 : 0 ≤ rem) (h1 : rem ≤ maxInt64) (hm : 1 ≤ m) :
    0 ≤ floorDiv rem m ∧
    0 ≤ wrapInt64 (rem - wrapInt64 (floorDiv rem m * m)) ∧
    wrapInt64 (rem - wrapInt64 (floorDiv rem m * m)) ≤ maxInt64 ∧
    floorDiv rem m * m + wrapInt64 (rem - wrapInt64 (floorDiv rem m * m)) = rem ∧
    (floorDiv rem m = 0 → wrapInt64 (rem - wrapInt64 (floorDiv rem m * m)) = rem) := by
  rw [floorDiv_nonneg h0 h1 hm]
  have hq : 0 ≤ rem / m := Int.ediv_nonneg h0 (by omega)
  have h2 := Int.mul_ediv_add_emod rem m
  have h3 := Int.emod_nonneg rem (show m ≠ 0 by omega)
  rw [Int.mul_comm m (rem / m)] at h2
  have hp : 0 ≤ rem / m * m := Int.mul_nonneg hq (by omega)
  have hw1 : wrapInt64 (rem / m * m) = rem / m * m := wrapInt64_id hp (by omega)
  rw [hw1]
  have hw2 : wrapInt64 (rem - rem / m * m) = rem - rem / m * m := wrapInt64_id (by omega) (by omega)
  rw [hw2]
  refine ⟨hq, by omega, by omega, by omega, ?_⟩
  intro hz
  rw [hz]; simp

/-- what the proof needs of `formatNumberUnitShort/Long` on a non-negative count -/
def FmtSpec (f : Int → UnitNames → Bool → String) : Prop :=
  ∀ (c : Int) (nm : UnitNames), 0 ≤ c →
    (c = 0 → f c nm false = "") ∧
    (c ≠ 0 → ∃ n ∈ nm.all, (f c nm false).toList = Nat.toDigits 10 c.toNat ++ n.toList)

theorem fmtInt_nonneg {c : Int} (h : 0 ≤ c) : (fmtInt c).toList = Nat.toDigits 10 c.toNat := by
  have := fmtInt_ofNat c.toNat
  rwa [Int.toNat_of_nonneg h] at this

theorem fmtCountShort_spec : FmtSpec fmtCountShort := by
  intro c nm hc
  refine ⟨?_, ?_⟩
  · intro e; subst e; rfl
  · intro hne
    unfold fmtCountShort
    have h1 : (c == -1) = false := by simp; omega
    have h2 : (c != 0) = true := by simp; exact hne
    by_cases h : c = 1
    · subst h
      exact ⟨nm.ss, by simp [UnitNames.all], by simp [String.toList_append, fmtInt_nonneg hc]⟩
    · have h3 : (c == 1) = false := by simp; exact h
      exact ⟨nm.sp, by simp [UnitNames.all],
        by simp [h1, h2, h3, String.toList_append, fmtInt_nonneg hc]⟩

theorem fmtCountLong_spec : FmtSpec fmtCountLong := by
  intro c nm hc
  refine ⟨?_, ?_⟩
  · intro e; subst e; rfl
  · intro hne
    unfold fmtCountLong
    have h1 : (c == -1) = false := by simp; omega
    have h2 : (c != 0) = true := by simp; exact hne
    by_cases h : c = 1
    · subst h
      exact ⟨nm.ls, by simp [UnitNames.all], by simp [String.toList_append, fmtInt_nonneg hc]⟩
    · have h3 : (c == 1) = false := by simp; exact h
      exact ⟨nm.lp, by simp [UnitNames.all],
        by simp [h1, h2, h3, String.toList_append, fmtInt_nonneg hc]⟩

/-- the token the formatter writes for a non-zero count -/
def mkPiece (c : Int) (n : String) : Piece := ⟨Nat.toDigits 10 c.toNat, [], n.toList, []⟩

theorem mkPiece_render (c : Int) (n : String) :
    (mkPiece c n).render = Nat.toDigits 10 c.toNat ++ n.toList := by
  simp [mkPiece, Piece.render]

theorem mkPiece_capVal (c : Int) (n : String) (hc : 0 ≤ c) : capVal (capOf (some (mkPiece c n))) = c := by
  simp only [capOf, mkPiece, capVal, String.toList_ofList, (toDigits_spec c.toNat).2.2]
  exact Int.toNat_of_nonneg hc

theorem mkPiece_ok (c : Int) (n : String) (names : List String) (hn : n ∈ names) :
    PieceOK names (mkPiece c n) :=
  ⟨(toDigits_spec c.toNat).1, (toDigits_spec c.toNat).2.1, allWS_nil, allWS_nil, n, hn, rfl⟩

theorem mkPiece_baseOk (c : Int) (n : String) (names : List String) (hn : n ∈ names) :
    BasePieceOK names (mkPiece c n) :=
  ⟨(toDigits_spec c.toNat).1, (toDigits_spec c.toNat).2.1, allWS_nil, allWS_nil, Or.inr ⟨n, hn, rfl⟩⟩

theorem capVal_empty : capVal "" = 0 := by simp [capVal, decVal]

theorem capOf_none : capOf none = "" := rfl

theorem fmtGroups_render (f : Int → UnitNames → Bool → String) (hf : FmtSpec f) (base : UnitNames)
    (sorted : List (Int × UnitNames)) (rem : Int) (h0 : 0 ≤ rem) (h1 : rem ≤ maxInt64)
    (hm : ∀ x ∈ sorted, 1 ≤ x.1) :
    ∃ ps bp, PiecesOK (sorted.map (·.2.all)) ps ∧ BaseOK base.all bp ∧
      (fmtGroups f base sorted rem).toList = renderAll ps bp ∧
      renderTotal ps bp (sorted.map (·.1)) = rem ∧ (0 < rem → renderAll ps bp ≠ []) := by
  induction sorted generalizing rem with
  | nil =>
    obtain ⟨hz, hnz⟩ := hf rem base h0
    by_cases e : rem = 0
    · refine ⟨[], none, .nil, (fun p hp => by cases hp), ?_, ?_, ?_⟩
      · simp [fmtGroups, hz e, renderAll, renderOpt]
      · simp [renderTotal, capSum, capOf_none, capVal_empty, e]
      · intro h; omega
    · obtain ⟨n, hn, hl⟩ := hnz e
      refine ⟨[], some (mkPiece rem n), .nil, ?_, ?_, ?_, ?_⟩
      · intro p hp; cases hp; exact mkPiece_baseOk rem n _ hn
      · simp only [fmtGroups, hl, renderAll, renderOpt, mkPiece_render]
      · simp only [renderTotal, List.map_nil, capSum, mkPiece_capVal rem n h0]; omega
      · intro _
        simp only [renderAll, renderOpt, mkPiece_render]
        intro h
        exact (toDigits_spec rem.toNat).1 (List.append_eq_nil_iff.mp h).1
  | cons x xs ih =>
    obtain ⟨m, nm⟩ := x
    have hm1 : 1 ≤ m := hm (m, nm) (by simp)
    obtain ⟨hb0, hr0, hr1, hsum, hzero⟩ := fmt_step h0 h1 hm1
    obtain ⟨ps, bp, hv, hb, hl, ht, hne⟩ := ih _ hr0 hr1 (fun y hy => hm y (by simp [hy]))
    obtain ⟨hz, hnz⟩ := hf (floorDiv rem m) nm hb0
    simp only [fmtGroups, String.toList_append, List.map_cons]
    by_cases e : floorDiv rem m = 0
    · refine ⟨none :: ps, bp, .cons (fun p hp => by cases hp) hv, hb, ?_, ?_, ?_⟩
      · simp [hz e, hl, renderAll, renderOpt]
      · unfold renderTotal at ht ⊢
        simp only [List.map_cons, capSum, capOf_none, capVal_empty]
        rw [hzero e] at ht
        omega
      · intro h
        simp only [renderAll, renderOpt, List.nil_append]
        exact hne (by rw [hzero e]; exact h)
    · obtain ⟨n, hn, hl'⟩ := hnz e
      refine ⟨some (mkPiece (floorDiv rem m) n) :: ps, bp, .cons ?_ hv, hb, ?_, ?_, ?_⟩
      · intro p hp; cases hp; exact mkPiece_ok _ n _ hn
      · simp only [hl', hl, renderAll, renderOpt, mkPiece_render]
      · unfold renderTotal at ht ⊢
        simp only [List.map_cons, capSum, mkPiece_capVal _ n hb0]
        omega
      · intro _
        simp only [renderAll, renderOpt, mkPiece_render]
        intro h
        exact (toDigits_spec (floorDiv rem m).toNat).1
          (List.append_eq_nil_iff.mp (List.append_eq_nil_iff.mp h).1).1



/-! ### soundness of the matcher: whatever it accepts is a rendering of the grammar
    (any definition, no well-formedness needed) -/

theorem skipWS_split (x : List Char) : ∃ w, AllWS w ∧ x = w ++ skipWS x :=
  ⟨x.takeWhile isReWS, takeWhile_all isReWS x, (List.takeWhile_append_dropWhile (p := isReWS) (l := x)).symm⟩

theorem skipWS_noWSHead (x : List Char) : NoWSHead (skipWS x) := by
  induction x with
  | nil => trivial
  | cons c t ih =>
    cases hc : isReWS c with
    | true =>
      have : skipWS (c :: t) = skipWS t := by simp [skipWS, List.dropWhile, hc]
      rw [this]; exact ih
    | false =>
      have : skipWS (c :: t) = c :: t := by simp [skipWS, List.dropWhile, hc]
      rw [this]; exact hc

theorem allWS_of_skipWS_nil {x : List Char} (h : skipWS x = []) : AllWS x := by
  obtain ⟨w, hw, e⟩ := skipWS_split x
  rw [h, List.append_nil] at e
  rw [e]; exact hw

theorem tryTail_sound (names : List String) (cap x : List Char) (c : String)
    (h : tryTail names cap x = some c) :
    ∃ w1 nm w2, AllWS w1 ∧ AllWS w2 ∧ (nm = [] ∨ ∃ n ∈ names, n.toList = nm) ∧
      x = w1 ++ (nm ++ w2) := by
  obtain ⟨w1, hw1, e1⟩ := skipWS_split x
  unfold tryTail at h
  dsimp only at h
  split at h
  · next he =>
    have : skipWS (skipWS x) = [] := List.isEmpty_iff.mp he
    rw [skipWS_idem] at this
    exact ⟨w1, [], [], hw1, allWS_nil, Or.inl rfl, by rw [this] at e1; simpa using e1⟩
  · obtain ⟨n, hn, hn'⟩ := firstSome_mem _ _ _ h
    split at hn'
    · next r' hs =>
      split at hn'
      · next he =>
        have hr' : AllWS r' := allWS_of_skipWS_nil (List.isEmpty_iff.mp he)
        rw [stripPrefix?_eq_some] at hs
        exact ⟨w1, n.toList, r', hw1, hr', Or.inr ⟨n, hn, rfl⟩, by rw [← hs]; exact e1⟩
      · cases hn'
    · cases hn'

theorem digits_split (cs : List Char) : cs = cs.takeWhile isDigit ++ cs.dropWhile isDigit :=
  (List.takeWhile_append_dropWhile (p := isDigit) (l := cs)).symm

theorem take_ne_nil_of_countsDown {ds : List Char} {k : Nat} (hk : k ∈ countsDown ds.length) :
    ds.take k ≠ [] := by
  rw [mem_countsDown] at hk
  intro e
  rcases List.take_eq_nil_iff.mp e with h | h
  · omega
  · rw [h] at hk; simp at hk; omega

/-- the base group accepts only `[digits ws* (name)? ws*]`, or captures a fraction -/
theorem matchBase_sound (names : List String) (cs : List Char) (b : String) (hcs : NoWSHead cs)
    (h : matchBase names cs = some b) :
    b.toList.contains '.' = true ∨
      ∃ bp, BaseOK names bp ∧ cs = renderOpt bp ∧ b = capOf bp := by
  rw [matchBase_eq] at h
  split at h
  · next he =>
    right
    have : skipWS cs = [] := List.isEmpty_iff.mp he
    rw [skipWS_of_noWSHead hcs] at this
    exact ⟨none, (fun p hp => by cases hp), (by rw [this]; rfl), (Option.some.inj h).symm⟩
  · obtain ⟨k, hk, hk'⟩ := firstSome_mem _ _ _ h
    unfold baseSplit at hk'
    split at hk'
    · next c hc =>
      right
      have hcap := tryTail_cap _ _ _ _ hc
      obtain ⟨w1, nm, w2, hw1, hw2, hnm, ex⟩ := tryTail_sound _ _ _ _ hc
      have hb : b = c := (Option.some.inj hk').symm
      refine ⟨some ⟨(cs.takeWhile isDigit).take k, w1, nm, w2⟩, ?_, ?_, ?_⟩
      · intro p hp; cases hp
        exact ⟨take_ne_nil_of_countsDown hk, allDigits_take_takeWhile cs k, hw1, hw2, hnm⟩
      · simp only [renderOpt, Piece.render]
        rw [← ex, ← List.append_assoc, List.take_append_drop]
        exact digits_split cs
      · rw [hb, hcap]; rfl
    · left
      split at hk'
      · obtain ⟨j, _, hj⟩ := firstSome_mem _ _ _ hk'
        have := tryTail_cap _ _ _ _ hj
        rw [this, String.toList_ofList]
        simp
      · cases hk'

/-- whatever the group matcher accepts is a rendering: one optional token per group in order, then
    the base token - unless the base group captured a fraction -/
theorem matchGroups_sound (gs : List (List String)) (base : List String) (cs : List Char)
    (caps : List String) (b : String) (hcs : NoWSHead cs)
    (h : matchGroups gs base cs = some (caps, b)) :
    b.toList.contains '.' = true ∨
      ∃ ps bp, PiecesOK gs ps ∧ BaseOK base bp ∧ cs = renderAll ps bp ∧
        caps = ps.map capOf ∧ b = capOf bp := by
  induction gs generalizing cs caps b with
  | nil =>
    simp only [matchGroups, Option.map_eq_some_iff] at h
    obtain ⟨b', hb', he⟩ := h
    simp only [Prod.mk.injEq] at he
    obtain ⟨e1, e2⟩ := he
    subst e1; subst e2
    rcases matchBase_sound base cs b' hcs hb' with hdot | ⟨bp, h1, h2, h3⟩
    · exact Or.inl hdot
    · exact Or.inr ⟨[], bp, .nil, h1, h2, rfl, h3⟩
  | cons names gs ih =>
    rw [matchGroups_cons_eq] at h
    split at h
    · next caps' b' h' =>
      simp only [Option.some.injEq, Prod.mk.injEq] at h
      obtain ⟨e1, e2⟩ := h
      subst e1; subst e2
      rw [skipWS_of_noWSHead hcs] at h'
      rcases ih cs caps' b' hcs h' with hdot | ⟨ps, bp, h1, h2, h3, h4, h5⟩
      · exact Or.inl hdot
      · refine Or.inr ⟨none :: ps, bp, .cons (fun p hp => by cases hp) h1, h2, ?_, ?_, h5⟩
        · simpa [renderAll, renderOpt] using h3
        · simp [capOf, h4]
    · obtain ⟨k, hk, hk'⟩ := firstSome_mem _ _ _ h
      unfold groupSplit at hk'
      obtain ⟨n, hn, hn'⟩ := firstSome_mem _ _ _ hk'
      unfold groupName at hn'
      split at hn'
      · next r' hs =>
        split at hn'
        · next caps' b' h' =>
          simp only [Option.some.injEq, Prod.mk.injEq] at hn'
          obtain ⟨e1, e2⟩ := hn'
          subst e1; subst e2
          rcases ih (skipWS r') caps' b' (skipWS_noWSHead r') h' with hdot | ⟨ps, bp, h1, h2, h3, h4, h5⟩
          · exact Or.inl hdot
          · obtain ⟨w1, hw1, ex1⟩ := skipWS_split
              ((cs.takeWhile isDigit).drop k ++ cs.dropWhile isDigit)
            obtain ⟨w2, hw2, ex2⟩ := skipWS_split r'
            rw [stripPrefix?_eq_some] at hs
            refine Or.inr ⟨some ⟨(cs.takeWhile isDigit).take k, w1, n.toList, w2⟩ :: ps, bp,
              .cons ?_ h1, h2, ?_, ?_, h5⟩
            · intro p hp; cases hp
              exact ⟨take_ne_nil_of_countsDown hk, allDigits_take_takeWhile cs k, hw1, hw2, n, hn, rfl⟩
            · simp only [renderAll, renderOpt, Piece.render, List.append_assoc]
              rw [← h3, ← ex2, ← hs, ← ex1, ← List.append_assoc, List.take_append_drop]
              exact digits_split cs
            · simp [capOf, h4]
        · cases hn'
      · cases hn'


theorem ltrim_head (x : List Char) : ∀ c t, ltrim x = c :: t → isUniSpace c = false := by
  induction x with
  | nil => intro c t h; cases h
  | cons a x ih =>
    intro c t h
    cases ha : isUniSpace a with
    | true =>
      have : ltrim (a :: x) = ltrim x := by simp [ltrim, List.dropWhile, ha]
      rw [this] at h; exact ih c t h
    | false =>
      have : ltrim (a :: x) = a :: x := by simp [ltrim, List.dropWhile, ha]
      rw [this] at h; cases h; exact ha

theorem rtrim_cons_head {c : Char} (t : List Char) (hc : isUniSpace c = false) :
    ∃ t', rtrim (c :: t) = c :: t' := by
  have h1 : rtrim [c] = [c] := rtrim_of_lastOK (l := [c]) (by simp [LastOK, hc])
  have := rtrim_append [c] t
  rw [List.singleton_append] at this
  rw [this]
  by_cases h : rtrim t = []
  · exact ⟨[], by simp [h, h1]⟩
  · exact ⟨rtrim t, by simp [h]⟩

/-- a non-empty trimmed string starts with a character that is not white space -/
theorem skipWS_trimSpace (x : List Char) (hne : (trimSpace x).isEmpty = false) :
    skipWS (trimSpace x) = trimSpace x ∧ trimSpace x ≠ [] := by
  rw [trimSpace_eq] at hne ⊢
  cases hl : ltrim x with
  | nil => rw [hl] at hne; simp [rtrim] at hne
  | cons c t =>
    have hc := ltrim_head x c t hl
    obtain ⟨t', ht'⟩ := rtrim_cons_head t hc
    rw [ht']
    refine ⟨skipWS_of_noWSHead (cs := c :: t') ?_, by simp⟩
    cases hw : isReWS c with
    | false => exact hw
    | true => rw [isReWS_isUniSpace hw] at hc; cases hc

end Arca
