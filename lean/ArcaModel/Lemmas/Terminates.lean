import ArcaModel.Lemmas.Termination
import ArcaModel.Model.WF
/-
  Termination (C04, second half): `run` does not run out of fuel.

  * `Out.Halts o` : the outcome is not `fuel`. Generic lemmas, the traversal lemmas restricted to the
    members of the traversed list, scalar and any-schema lemmas, and one lemma per schema kind whose
    hypotheses speak only about the values that kind really hands to the recursive call.
  * `V.depth` : nesting depth of a Go value.
  * `FinDepth env t d` : the schema `t` unfolds (following references through `env`) to depth below `d`.
  * `fin_halts` : `FinDepth env t d → 2 * d + V.depth v + 1 ≤ n → run x n op env t v ≠ .fuel`.
  * `finB` : executable check, sound for `FinDepth`.
-/
namespace Arca

/-! ### depth of a value -/

mutual
/-- nesting depth of a Go value: scalars 0, a container one more than its deepest element -/
def V.depth : V → Nat
  | .list xs => V.depthList xs + 1
  | .map _ kvs => V.depthKVs kvs + 1
  | .named v => v.depth + 1
  | .bytes _ => 1
  | _ => 0
termination_by structural v => v
def V.depthList : List V → Nat
  | [] => 0
  | x :: xs => max x.depth (V.depthList xs)
termination_by structural xs => xs
def V.depthKVs : List (V × V) → Nat
  | [] => 0
  | (k, v) :: rest => max (max k.depth v.depth) (V.depthKVs rest)
termination_by structural kvs => kvs
end

theorem depthList_mem {xs : List V} {e : V} (h : e ∈ xs) : e.depth ≤ V.depthList xs := by
  induction xs with
  | nil => cases h
  | cons a as ih =>
    simp only [V.depthList]
    rcases List.mem_cons.mp h with h | h
    · subst h; omega
    · have := ih h; omega

theorem depthKVs_mem {kvs : List (V × V)} {k e : V} (h : (k, e) ∈ kvs) :
    k.depth ≤ V.depthKVs kvs ∧ e.depth ≤ V.depthKVs kvs := by
  induction kvs with
  | nil => cases h
  | cons a as ih =>
    obtain ⟨k', e'⟩ := a
    simp only [V.depthKVs]
    rcases List.mem_cons.mp h with h | h
    · cases h; omega
    · have := ih h; omega

/-- the elements a list schema visits are strictly shallower than the value -/
theorem depth_sliceElems {v : V} {xs : List V} (h : v.sliceElems? = some xs) {e : V} (he : e ∈ xs) :
    e.depth + 1 ≤ v.depth := by
  cases v <;> simp [V.sliceElems?] at h
  · subst h
    simp only [List.mem_map] at he
    obtain ⟨n, _, rfl⟩ := he
    simp [V.depth]
  · subst h
    have := depthList_mem he
    simp only [V.depth]; omega

/-- the keys and values a map schema visits are strictly shallower than the value -/
theorem depth_mapEntries {v : V} {sh : MapShape} {kvs : List (V × V)} (h : v.mapEntries? = some (sh, kvs))
    {k e : V} (he : (k, e) ∈ kvs) : k.depth + 1 ≤ v.depth ∧ e.depth + 1 ≤ v.depth := by
  cases v <;> simp [V.mapEntries?] at h
  obtain ⟨rfl, rfl⟩ := h
  have := depthKVs_mem he
  simp only [V.depth]; omega

theorem depth_under (v : V) : v.under.depth ≤ v.depth := by
  cases v <;> simp [V.under, V.depth]

theorem mem_of_mem_strKeys : ∀ {kvs : List (V × V)} {m : List (String × V)}, strKeys? kvs = some m →
    ∀ {k : String} {e : V}, (k, e) ∈ m → (V.str k, e) ∈ kvs
  | [], m, h, k, e, he => by simp [strKeys?] at h; subst h; cases he
  | (kk, vv) :: rest, m, h, k, e, he => by
    cases kk <;> simp [strKeys?] at h
    rename_i s
    obtain ⟨m', hm', rfl⟩ := h
    rcases List.mem_cons.mp he with he | he
    · cases he; simp
    · exact List.mem_cons_of_mem _ (mem_of_mem_strKeys hm' he)

theorem depthKVs_map_le (f : String × V → V × V) (hf : ∀ p, f p = (V.str p.1, p.2)) {b : Nat} :
    ∀ {m : List (String × V)}, (∀ k e, (k, e) ∈ m → e.depth ≤ b) → V.depthKVs (m.map f) ≤ b
  | [], _ => by simp [V.depthKVs]
  | (k, e) :: rest, h => by
    have h1 := h k e (by simp)
    have h2 := depthKVs_map_le f hf (m := rest) (fun k e he => h k e (List.mem_cons_of_mem _ he))
    rw [List.map_cons, hf]
    simp only [V.depthKVs, V.depth]
    omega

theorem depth_toStrAny_le {b : Nat} {m : List (String × V)}
    (h : ∀ k e, (k, e) ∈ m → e.depth + 1 ≤ b + 1) : (toStrAny m).depth ≤ b + 1 := by
  unfold toStrAny
  rw [V.depth]
  refine Nat.succ_le_succ (depthKVs_map_le _ ?_ ?_)
  · intro p; obtain ⟨k, e⟩ := p; rfl
  · intro k e he; have := h k e he; omega

theorem mem_of_mem_eraseKey {α} {d k : String} {e : α} : ∀ {m : List (String × α)}, (k, e) ∈ eraseKey d m → (k, e) ∈ m
  | [], h => by simp [eraseKey] at h
  | (k', v') :: rest, h => by
    simp only [eraseKey] at h
    split at h
    · exact List.mem_cons_of_mem _ (mem_of_mem_eraseKey h)
    · rcases List.mem_cons.mp h with h | h
      · rw [h]; simp
      · exact List.mem_cons_of_mem _ (mem_of_mem_eraseKey h)

/-- the map a one-of hands to the selected member -/
def oneOfClone (inlined : Bool) (disc : String) (m : List (String × V)) : List (String × V) :=
  if inlined then m else eraseKey disc m

/-- what a one-of hands to its member (the entries, discriminator possibly removed, as a
    `map[string]any`) is no deeper than the value it was given -/
theorem depth_clone_le {v : V} {sh : MapShape} {kvs : List (V × V)} (hv : v.mapEntries? = some (sh, kvs))
    {m : List (String × V)} (hm : strKeys? kvs = some m) (inlined : Bool) (disc : String) :
    (toStrAny (oneOfClone inlined disc m)).depth ≤ v.depth := by
  have hsub : ∀ k e, (k, e) ∈ oneOfClone inlined disc m → e.depth + 1 ≤ v.depth := by
    intro k e he
    unfold oneOfClone at he
    have he' : (k, e) ∈ m := by
      split at he
      · exact he
      · exact mem_of_mem_eraseKey he
    exact (depth_mapEntries hv (mem_of_mem_strKeys hm he')).2
  have hpos : 1 ≤ v.depth := by
    cases v <;> simp [V.mapEntries?] at hv
    simp [V.depth]
  obtain ⟨b, hb⟩ : ∃ b, v.depth = b + 1 := ⟨v.depth - 1, by omega⟩
  rw [hb] at hsub ⊢
  exact depth_toStrAny_le hsub

/-- a `map[string]any` value is a map value -/
theorem mapEntries_strAny (kvs : List (V × V)) :
    (V.map ⟨.string, true⟩ kvs).mapEntries? = some (⟨.string, true⟩, kvs) := rfl

/-! ### "does not run out of fuel" -/

namespace Out

/-- "does not run out of fuel" -/
def Halts {α} (o : Out α) : Prop := o ≠ .fuel

@[simp] theorem halts_ok {α} (a : α) : Halts (Out.ok a) := by simp [Halts]
@[simp] theorem halts_err {α} (e : Err) : Halts (Out.err e : Out α) := by simp [Halts]
@[simp] theorem halts_panic {α} : Halts (Out.panic : Out α) := by simp [Halts]
@[simp] theorem halts_fuel {α} : ¬ Halts (Out.fuel : Out α) := by simp [Halts]
@[simp] theorem halts_cerr {α} : Halts (Out.cerr : Out α) := by simp [Halts, cerr]
@[simp] theorem halts_plain {α} : Halts (Out.plain : Out α) := by simp [Halts, plain]
@[simp] theorem halts_cerrAt {α} (p : List String) : Halts (Out.cerrAt p : Out α) := by simp [Halts, cerrAt]

theorem halts_bind {α β} {a : Out α} {f : α → Out β} (ha : Halts a) (hf : ∀ x, Halts (f x)) : Halts (a.bind f) := by
  cases a <;> simp_all [Halts, bind]

theorem halts_bind' {α β} {a : Out α} {f : α → Out β} (ha : Halts a) (hf : ∀ x, a = .ok x → Halts (f x)) : Halts (a.bind f) := by
  cases a <;> simp_all [Halts, bind]

theorem halts_addSeg {α} {a : Out α} (s : String) (ha : Halts a) : Halts (a.addSeg s) := by
  cases a <;> simp_all [Halts, addSeg]

end Out

open Out

theorem halts_rewrapC {α} {a : Out α} (ha : Halts a) : Halts (rewrapC a) := by
  cases a <;> simp_all [rewrapC]

theorem halts_rewrapP {α} {a : Out α} (ha : Halts a) : Halts (rewrapP a) := by
  cases a <;> simp_all [rewrapP]

/-- a traversal finishes if the visit of every MEMBER finishes -/
theorem halts_forIdx {f : Nat → V → Out V} : ∀ (n : Nat) (xs : List V),
    (∀ i x, x ∈ xs → Halts (f i x)) → Halts (forIdx f n xs)
  | _, [], _ => by simp [forIdx]
  | n, x :: xs, hf => by
    have h1 := hf n x (by simp)
    have h2 := halts_forIdx (f := f) (n + 1) xs (fun i y hy => hf i y (List.mem_cons_of_mem _ hy))
    simp only [forIdx]
    cases hx : f n x <;> simp_all
    cases hr : forIdx f (n + 1) xs <;> simp_all

theorem halts_forKV {f : V → V → Out (V × V)} : ∀ (kvs : List (V × V)),
    (∀ k v, (k, v) ∈ kvs → Halts (f k v)) → Halts (forKV f kvs)
  | [], _ => by simp [forKV]
  | (k, v) :: rest, hf => by
    have h1 := hf k v (by simp)
    have h2 := halts_forKV (f := f) rest (fun k' v' h => hf k' v' (List.mem_cons_of_mem _ h))
    simp only [forKV]
    cases hx : f k v <;> simp_all
    cases hr : forKV f rest <;> simp_all

theorem halts_forSV {f : String → V → Out V} : ∀ (kvs : List (String × V)),
    (∀ k v, (k, v) ∈ kvs → Halts (f k v)) → Halts (forSV f kvs)
  | [], _ => by simp [forSV]
  | (k, v) :: rest, hf => by
    have h1 := hf k v (by simp)
    have h2 := halts_forSV (f := f) rest (fun k' v' h => hf k' v' (List.mem_cons_of_mem _ h))
    simp only [forSV]
    cases hx : f k v <;> simp_all
    cases hr : forSV f rest <;> simp_all

/-! ### scalars never run out of fuel (they do not recurse) -/

theorem halts_intInputMapper (u : Option Units) (v : V) : Halts (intInputMapper u v) := by
  unfold intInputMapper; (repeat' split) <;> simp

theorem halts_stringInputMapper (x : Ext) (v : V) : Halts (stringInputMapper x v) := by
  unfold stringInputMapper; (repeat' split) <;> simp

theorem halts_boolInputMapper (v : V) : Halts (boolInputMapper v) := by
  unfold boolInputMapper; (repeat' split) <;> simp
  (repeat' split) <;> simp

theorem halts_floatInputMapper (x : Ext) (u : Option Units) (v : V) : Halts (floatInputMapper x u v) := by
  unfold floatInputMapper; (repeat' split) <;> simp

theorem halts_asInt (v : V) : Halts (asInt v) := by unfold asInt; (repeat' split) <;> simp
theorem halts_asFloat (v : V) : Halts (asFloat v) := by unfold asFloat; (repeat' split) <;> simp
theorem halts_asString (v : V) : Halts (asString v) := by unfold asString; (repeat' split) <;> simp
theorem halts_asBool (v : V) : Halts (asBool v) := by unfold asBool; (repeat' split) <;> simp

theorem halts_checkInt (a b : Option Int) (n : Int) : Halts (checkInt a b n) := by
  unfold checkInt; (repeat' split) <;> simp
theorem halts_checkLen (a b : Option Int) (n : Nat) : Halts (checkLen a b n) := by
  unfold checkLen; (repeat' split) <;> simp
theorem halts_checkFloat (a b : Option Nat) (n : Nat) : Halts (checkFloat a b n) := by
  unfold checkFloat; (repeat' split) <;> simp
theorem halts_checkStr (x : Ext) (a b : Option Int) (p : Option String) (s : String) : Halts (checkStr x a b p s) := by
  unfold checkStr
  have := halts_checkLen a b s.utf8ByteSize
  (repeat' split) <;> simp_all

theorem halts_done : Halts done := by simp [done]

theorem halts_runInt (op : Op) (a b : Option Int) (u : Option Units) (v : V) : Halts (runInt op a b u v) := by
  unfold runInt
  cases op <;> simp only <;>
    exact halts_bind (by first | exact halts_rewrapC (halts_intInputMapper _ _) | exact halts_asInt _)
      (fun _ => halts_bind (halts_checkInt _ _ _) (fun _ => by first | exact halts_done | simp))

theorem halts_runFloat (x : Ext) (op : Op) (a b : Option Nat) (u : Option Units) (v : V) : Halts (runFloat x op a b u v) := by
  unfold runFloat
  cases op <;> simp only <;>
    exact halts_bind (by first | exact halts_rewrapC (halts_floatInputMapper _ _ _) | exact halts_asFloat _)
      (fun _ => halts_bind (halts_checkFloat _ _ _) (fun _ => by first | exact halts_done | simp))

theorem halts_runStr (x : Ext) (op : Op) (a b : Option Int) (p : Option String) (v : V) : Halts (runStr x op a b p v) := by
  unfold runStr
  cases op <;> simp only
  · exact halts_bind (halts_rewrapC (halts_stringInputMapper _ _)) (fun _ => halts_bind (halts_checkStr _ _ _ _ _) (fun _ => by simp))
  · exact halts_bind (halts_asString _) (fun _ => halts_bind (halts_checkStr _ _ _ _ _) (fun _ => halts_done))
  · exact halts_bind (halts_asString _) (fun _ => halts_bind (halts_checkStr _ _ _ _ _) (fun _ => by simp))
  · split
    · exact halts_bind (halts_checkStr _ _ _ _ _) (fun _ => halts_done)
    · simp

theorem halts_runBool (op : Op) (v : V) : Halts (runBool op v) := by
  unfold runBool
  cases op <;> simp only <;>
    exact halts_bind (by first | exact halts_boolInputMapper _ | exact halts_asBool _)
      (fun _ => by first | exact halts_done | simp)

theorem halts_runPattern (x : Ext) (op : Op) (v : V) : Halts (runPattern x op v) := by
  unfold runPattern
  cases op <;> simp only
  · exact halts_bind (halts_rewrapC (halts_stringInputMapper _ _)) (fun _ => by split <;> simp)
  all_goals (split <;> simp [halts_done])

theorem halts_runEnumInt (op : Op) (vals : List Int) (u : Option Units) (v : V) : Halts (runEnumInt op vals u v) := by
  unfold runEnumInt
  cases op <;> simp only
  · exact halts_bind (halts_rewrapC (halts_intInputMapper _ _)) (fun _ => by split <;> simp)
  all_goals exact halts_bind (halts_asInt _) (fun _ => by split <;> simp [halts_done])

theorem halts_runEnumStr (x : Ext) (op : Op) (vals : List String) (v : V) : Halts (runEnumStr x op vals v) := by
  unfold runEnumStr
  cases op <;> simp only
  · exact halts_bind (halts_rewrapC (halts_stringInputMapper _ _)) (fun _ => by split <;> simp)
  all_goals exact halts_bind (halts_asString _) (fun _ => by split <;> simp [halts_done])

/-! ### the any schema: fuel above the depth of the value suffices -/

theorem halts_anyConvert : ∀ (n : Nat) (v : V), v.depth + 1 ≤ n → Halts (anyConvert n v)
  | 0, _, h => by omega
  | n + 1, v, h => by
    have ih := halts_anyConvert n
    have hu := depth_under v
    unfold anyConvert
    split
    · split
      · simp
      · split
        · simp
        · exact halts_bind (halts_intInputMapper _ _) (fun _ => by simp)
    · (repeat' split) <;> simp
    · simp
    · simp
    · rename_i xs hxs
      rw [hxs, V.depth] at hu
      exact halts_bind (halts_forIdx _ _ (fun i e he => halts_addSeg _ (ih e (by have := depthList_mem he; omega))))
        (fun _ => by simp)
    · rename_i b hb
      rw [hb, V.depth] at hu
      refine halts_bind (halts_forIdx _ _ (fun i e he => halts_addSeg _ (ih e ?_))) (fun _ => by simp)
      simp only [List.mem_map] at he
      obtain ⟨k, _, rfl⟩ := he
      simp only [V.depth]; omega
    · rename_i sh kvs hkvs
      rw [hkvs, V.depth] at hu
      refine halts_bind (halts_forKV _ (fun k e he => ?_)) (fun _ => by split <;> simp)
      have := depthKVs_mem he
      exact halts_bind (halts_addSeg _ (ih k (by omega))) (fun _ => halts_bind (halts_addSeg _ (ih e (by omega))) (fun _ => by simp))
    · simp

theorem halts_anyCompat : ∀ (n : Nat) (v : V), v.depth + 1 ≤ n → Halts (anyCompat n v)
  | 0, _, h => by omega
  | n + 1, v, h => by
    have ih := halts_anyCompat n
    unfold anyCompat
    split
    · rw [V.depth] at h
      exact halts_bind (halts_forKV _ (fun k e he => halts_bind (halts_rewrapC (ih e (by have := depthKVs_mem he; omega))) (fun _ => by simp)))
        (fun _ => halts_done)
    · rw [V.depth] at h
      exact halts_bind (halts_forKV _ (fun k e he => halts_bind (halts_rewrapC (ih e (by have := depthKVs_mem he; omega))) (fun _ => by simp)))
        (fun _ => halts_done)
    · rw [V.depth] at h
      refine halts_bind (halts_forKV _ (fun k e he => ?_)) (fun _ => halts_done)
      have := depthKVs_mem he
      split
      · split
        · simp
        · exact halts_bind (halts_rewrapC (ih e (by omega))) (fun _ => by simp)
      · split
        · simp
        · exact halts_bind (halts_rewrapC (ih e (by omega))) (fun _ => by simp)
      · simp
    · rw [V.depth] at h
      refine halts_bind (halts_forIdx _ _ (fun _ e he => halts_rewrapC (ih e (by have := depthList_mem he; omega)))) (fun _ => ?_)
      split
      · exact halts_done
      · split
        · simp
        · exact halts_done
    · exact halts_bind (halts_anyConvert _ _ h) (fun _ => halts_done)

theorem halts_runAny (op : Op) (n : Nat) (v : V) (h : v.depth + 1 ≤ n) : Halts (runAny op n v) := by
  unfold runAny
  cases op <;> simp only
  · exact halts_anyConvert _ _ h
  · exact halts_bind (halts_anyConvert _ _ h) (fun _ => halts_done)
  · exact halts_anyConvert _ _ h
  · exact halts_anyCompat _ _ h

/-! ### one lemma per recursive schema kind

The hypotheses quantify only over the values the kind really passes to the recursive call: the
elements / entries of the given value, the defaults of the declared properties, the value itself
for the single-property shorthand, the re-packed entries for a one-of member. -/

theorem halts_runList {rec : Rec} {env : Env} {item : Ty} {v : V}
    (h : ∀ xs, v.sliceElems? = some xs → ∀ e, e ∈ xs → ∀ op, Halts (rec op env item e))
    (op : Op) (a b : Option Int) : Halts (runList rec op env item a b v) := by
  unfold runList
  split
  · simp
  · rename_i xs hxs
    have h' := h xs hxs
    cases op <;> simp only
    · exact halts_bind (halts_checkLen _ _ _) (fun _ => halts_bind (halts_forIdx _ _ (fun i e he => halts_addSeg _ (h' e he _))) (fun _ => by simp))
    · exact halts_bind (halts_checkLen _ _ _) (fun _ => halts_bind (halts_forIdx _ _ (fun i e he => halts_addSeg _ (h' e he _))) (fun _ => halts_done))
    · exact halts_bind (halts_checkLen _ _ _) (fun _ => halts_bind (halts_forIdx _ _ (fun i e he => halts_addSeg _ (h' e he _)))
        (fun _ => halts_bind (halts_forIdx _ _ (fun i e he => halts_addSeg _ (h' e he _))) (fun _ => by simp)))
    · exact halts_bind (halts_forIdx _ _ (fun i e he => halts_addSeg _ (h' e he _))) (fun _ => halts_done)

theorem halts_entryKV {rec : Rec} {env : Env} {kt vt : Ty} {op : Op} {k e : V}
    (hk : Halts (rec op env kt k)) (hv : Halts (rec op env vt e)) : Halts (entryKV rec op env kt vt k e) := by
  unfold entryKV
  exact halts_bind (halts_addSeg _ hk) (fun _ => halts_bind (halts_addSeg _ hv) (fun _ => by simp))

theorem halts_runMap {rec : Rec} {env : Env} {kt vt : Ty} {v : V}
    (h : ∀ sh kvs, v.mapEntries? = some (sh, kvs) → ∀ k e, (k, e) ∈ kvs →
      ∀ op, Halts (rec op env kt k) ∧ Halts (rec op env vt e))
    (op : Op) (a b : Option Int) : Halts (runMap rec op env kt vt a b v) := by
  unfold runMap
  split
  · simp
  · rename_i sh kvs hkvs
    have h' := h sh kvs hkvs
    have hkv : ∀ op k e, (k, e) ∈ kvs → Halts (entryKV rec op env kt vt k e) :=
      fun op k e he => halts_entryKV (h' k e he op).1 (h' k e he op).2
    refine halts_bind (halts_checkLen _ _ _) (fun _ => ?_)
    cases op <;> simp only
    · exact halts_bind (halts_forKV _ (hkv _)) (fun _ => by split <;> simp)
    · exact halts_bind (halts_forKV _ (hkv _)) (fun _ => halts_done)
    · exact halts_bind (halts_forKV _ (hkv _)) (fun _ => halts_bind (halts_forKV _ (hkv _)) (fun _ => by simp))
    · exact halts_bind (halts_forKV _ (hkv _)) (fun _ => halts_done)

theorem halts_interdeps (props : List (String × PropT)) (isSet : String → Bool) : Halts (interdeps props isSet) := by
  unfold interdeps
  induction props with
  | nil => simp [interdeps.go]
  | cons p rest ih =>
    obtain ⟨id, p⟩ := p
    simp only [interdeps.go]
    (repeat' split) <;> first | exact ih | simp

theorem halts_applyDefaults : ∀ (props : List (String × PropT)) (m : List (String × V)), Halts (applyDefaults props m)
  | [], m => by simp [applyDefaults]
  | (id, p) :: rest, m => by
    simp only [applyDefaults]
    split
    · exact halts_applyDefaults rest m
    · split
      · exact halts_applyDefaults rest m
      · simp
      · exact halts_applyDefaults rest _

/-- every entry of the defaulted property map is an entry of the input or a declared default -/
theorem applyDefaults_mem : ∀ {props : List (String × PropT)} {m m' : List (String × V)},
    applyDefaults props m = .ok m' → ∀ {k : String} {e : V}, (k, e) ∈ m' →
      (k, e) ∈ m ∨ ∃ np, np ∈ props ∧ np.1 = k ∧ np.2.defaultV = some (some e)
  | [], m, m', h, k, e, he => by
    simp [applyDefaults] at h; subst h; exact Or.inl he
  | (id, p) :: rest, m, m', h, k, e, he => by
    simp only [applyDefaults] at h
    have lift : ((k, e) ∈ m ∨ ∃ np, np ∈ rest ∧ np.1 = k ∧ np.2.defaultV = some (some e)) →
        ((k, e) ∈ m ∨ ∃ np, np ∈ (id, p) :: rest ∧ np.1 = k ∧ np.2.defaultV = some (some e)) := by
      rintro (h | ⟨np, hnp, hk, hd⟩)
      · exact Or.inl h
      · exact Or.inr ⟨np, List.mem_cons_of_mem _ hnp, hk, hd⟩
    split at h
    · exact lift (applyDefaults_mem h he)
    · split at h
      · exact lift (applyDefaults_mem h he)
      · simp at h
      · rename_i d hd
        rcases applyDefaults_mem h he with h' | ⟨np, hnp, hk, hd'⟩
        · rcases List.mem_append.mp h' with h'' | h''
          · exact Or.inl h''
          · simp at h''
            exact Or.inr ⟨(id, p), by simp, h''.1.symm, by rw [h''.2]; exact hd⟩
        · exact Or.inr ⟨np, List.mem_cons_of_mem _ hnp, hk, hd'⟩

theorem halts_objEntryU {rec : Rec} {env : Env} {props : List (String × PropT)} {k : String} {d : V}
    (h : ∀ np, np ∈ props → np.1 = k → Halts (rec .U env np.2.ty d)) : Halts (objEntryU rec env props k d) := by
  unfold objEntryU
  split
  · simp
  · rename_i p hp
    split
    · simp
    · exact halts_addSeg _ (h (k, p) (lookupS_mem hp) rfl)

/-- what the hypotheses of the object lemmas say about the recursive call `rec` on value `v` -/
structure ObjRecHalts (rec : Rec) (env : Env) (props : List (String × PropT)) (v : V) : Prop where
  /-- the single-property shorthand hands the value itself to the property's type -/
  single : ∀ name p, props = [(name, p)] → v.mapEntries? = none → p.disabled = false → Halts (rec .U env p.ty v)
  /-- the entries of a map value -/
  entries : ∀ sh kvs, v.mapEntries? = some (sh, kvs) → ∀ k e, (k, e) ∈ kvs →
    ∀ np, np ∈ props → ∀ op, Halts (rec op env np.2.ty e)
  /-- the declared defaults: the default of a property is fed to the type found under its name -/
  defaults : ∀ np, np ∈ props → ∀ np', np' ∈ props → np'.1 = np.1 → ∀ dv, np'.2.defaultV = some (some dv) →
    Halts (rec .U env np.2.ty dv)

theorem halts_objRaw {rec : Rec} {env : Env} {props : List (String × PropT)} {v : V}
    (h : ObjRecHalts rec env props v) : Halts (objRaw rec env props v) := by
  unfold objRaw
  split
  · rename_i hnone
    split
    · rename_i name p
      split
      · simp
      · rename_i hdis
        exact halts_bind (halts_rewrapP (h.single name p rfl hnone (by simpa using hdis))) (fun _ => by simp)
    · simp
  · rename_i sh kvs hkvs
    split
    · simp
    · rename_i skvs hs
      split
      · simp
      · refine halts_bind' (halts_applyDefaults _ _) (fun m hm => halts_forSV _ (fun k e he => halts_objEntryU (fun np hnp hk => ?_)))
        rcases applyDefaults_mem hm he with h' | ⟨np', hnp', hk', hd⟩
        · exact h.entries sh kvs hkvs _ e (mem_of_mem_strKeys hs h') np hnp .U
        · exact h.defaults np hnp np' hnp' (by rw [hk', hk]) e hd

theorem halts_objCompatMap {rec : Rec} {env : Env} {props : List (String × PropT)} {m : List (String × V)}
    (h : ∀ k e, (k, e) ∈ m → ∀ np, np ∈ props → Halts (rec .C env np.2.ty e)) : Halts (objCompatMap rec env props m) := by
  unfold objCompatMap
  refine halts_bind (halts_forSV _ (fun k e he => ?_)) (fun _ => by split <;> simp [halts_done])
  split
  · simp
  · rename_i p hp
    exact halts_addSeg _ (halts_bind (halts_rewrapC (h k e he (k, p) (lookupS_mem hp))) (fun _ => by split <;> simp [halts_done]))

theorem halts_runObj {rec : Rec} {env : Env} {id : String} {props : List (String × PropT)} {v : V}
    (h : ObjRecHalts rec env props v)
    (hself : Halts (rec .U env (.obj id props) v)) (op : Op) : Halts (runObj rec op env id props v) := by
  unfold runObj
  have hVS : ∀ (op : Op), Halts (match v with
      | .map ⟨.string, true⟩ kvs =>
        match strKeys? kvs with
        | none => .cerr
        | some m =>
          (interdeps props (fun k => hasKey k m)).bind fun _ =>
            (forSV (objEntry rec op env props) m).bind fun m' =>
              if op == .V then done else .ok (toStrAny m')
      | _ => .cerr) := by
    intro op
    split
    · rename_i kvs
      split
      · simp
      · rename_i m hm
        refine halts_bind (halts_interdeps _ _) (fun _ => halts_bind (halts_forSV _ (fun k e he => ?_)) (fun _ => by split <;> simp [halts_done]))
        unfold objEntry
        split
        · simp
        · rename_i p hp
          exact halts_addSeg _ (h.entries _ kvs (mapEntries_strAny kvs) _ e (mem_of_mem_strKeys hm he) (k, p) (lookupS_mem hp) op)
    · simp
  cases op <;> simp only
  · exact halts_bind (halts_objRaw h) (fun _ => halts_bind (halts_interdeps _ _) (fun _ => by simp))
  · exact hVS .V
  · exact hVS .S
  · split
    · rename_i kvs
      split
      · simp
      · rename_i m hm
        exact halts_objCompatMap (fun k e he np hnp =>
          h.entries _ kvs (mapEntries_strAny kvs) _ e (mem_of_mem_strKeys hm he) np hnp .C)
    · exact halts_bind (halts_rewrapC hself) (fun _ => halts_done)

/-- Unserialize of an object does not need the self-call -/
theorem halts_runObj_U {rec : Rec} {env : Env} {id : String} {props : List (String × PropT)} {v : V}
    (h : ObjRecHalts rec env props v) : Halts (runObj rec .U env id props v) := by
  unfold runObj
  simp only
  exact halts_bind (halts_objRaw h) (fun _ => halts_bind (halts_interdeps _ _) (fun _ => by simp))

theorem halts_oneOfSelect {rec : Rec} {env : Env} {intKey : Bool} {disc : String} {inlined : Bool}
    {members : List (Key × Ty)} {m : List (String × V)}
    (h : ∀ mem, mem ∈ members → ∀ op, Halts (rec op env mem.2 (toStrAny (oneOfClone inlined disc m))))
    (compat : Bool) : Halts (oneOfSelect rec env intKey disc inlined members compat m) := by
  unfold oneOfSelect
  simp only
  split
  · simp
  · split
    · simp
    · rename_i key _ _ mt hmt
      split
      · exact halts_bind (halts_rewrapC (h (key, mt) (lookupK_mem hmt) .C)) (fun _ => by simp)
      · simp

theorem oneOfSelect_ok {rec : Rec} {env : Env} {intKey : Bool} {disc : String} {inlined : Bool}
    {members : List (Key × Ty)} {compat : Bool} {m : List (String × V)} {sel : Key × Ty × List (String × V)}
    (h : oneOfSelect rec env intKey disc inlined members compat m = .ok sel) :
    (sel.1, sel.2.1) ∈ members ∧ sel.2.2 = oneOfClone inlined disc m := by
  unfold oneOfSelect at h
  simp only at h
  split at h
  · simp [cerr] at h
  · split at h
    · simp [cerr] at h
    · rename_i key _ _ mt hmt
      split at h
      · cases hc : rewrapC (rec .C env mt (toStrAny (if inlined = true then m else eraseKey disc m))) <;>
          simp_all [Out.bind]
        subst h
        exact ⟨lookupK_mem hmt, rfl⟩
      · simp at h
        subst h
        exact ⟨lookupK_mem hmt, rfl⟩

theorem halts_oneOfUnser {rec : Rec} {x : Ext} {env : Env} {intKey : Bool} {disc : String} {inlined : Bool}
    {members : List (Key × Ty)} {v : V}
    (h : ∀ sh kvs m, v.mapEntries? = some (sh, kvs) → strKeys? kvs = some m →
      ∀ mem, mem ∈ members → ∀ op, Halts (rec op env mem.2 (toStrAny (oneOfClone inlined disc m)))) :
    Halts (oneOfUnser rec x env intKey disc inlined members v) := by
  unfold oneOfUnser
  split
  · simp
  · split
    · simp
    · rename_i sh kvs hkvs
      split
      · simp
      · split
        · simp
        · simp only
          refine halts_bind ?_ (fun key => ?_)
          · split
            · exact halts_bind (halts_rewrapC (halts_intInputMapper _ _)) (fun _ => by simp)
            · exact halts_bind (halts_rewrapC (halts_stringInputMapper _ _)) (fun _ => by simp)
          · split
            · simp
            · rename_i m hm
              split
              · simp
              · rename_i mt hmt
                refine halts_bind (h sh kvs m hkvs hm (key, mt) (lookupK_mem hmt) .U) (fun r => ?_)
                (repeat' split) <;> simp

theorem halts_runOneOf {rec : Rec} {x : Ext} {env : Env} {intKey : Bool} {disc : String} {inlined : Bool}
    {members : List (Key × Ty)} {v : V}
    (h : ∀ sh kvs m, v.mapEntries? = some (sh, kvs) → strKeys? kvs = some m →
      ∀ mem, mem ∈ members → ∀ op, Halts (rec op env mem.2 (toStrAny (oneOfClone inlined disc m))))
    (op : Op) : Halts (runOneOf rec x op env intKey disc inlined members v) := by
  unfold runOneOf
  cases op <;> simp only
  · exact halts_oneOfUnser h
  · split
    · rename_i kvs
      split
      · simp
      · rename_i m hm
        have h' := h _ kvs m (mapEntries_strAny kvs) hm
        refine halts_bind' (halts_oneOfSelect h' _) (fun sel hs => ?_)
        obtain ⟨hmem, hcl⟩ := oneOfSelect_ok hs
        rw [hcl]
        exact halts_bind (halts_addSeg _ (h' _ hmem .V)) (fun _ => halts_done)
    · simp
  · split
    · rename_i kvs
      split
      · simp
      · rename_i m hm
        have h' := h _ kvs m (mapEntries_strAny kvs) hm
        refine halts_bind' (halts_oneOfSelect h' _) (fun sel hs => ?_)
        obtain ⟨hmem, hcl⟩ := oneOfSelect_ok hs
        rw [hcl]
        refine halts_bind (h' _ hmem .S) (fun r => ?_)
        (repeat' split) <;> simp
    · simp
  · split
    · rename_i kvs
      split
      · simp
      · rename_i m hm
        exact halts_bind (halts_oneOfSelect (h _ kvs m (mapEntries_strAny kvs) hm) _) (fun _ => halts_done)
    · simp

/-- an object with two units of fuel: one for the operation, one for the Unserialize that data-mode
    compatibility of a non-map value falls back to -/
theorem halts_run_obj (x : Ext) {env : Env} {id : String} {props : List (String × PropT)} {v : V} {m : Nat}
    (key : ∀ m', m ≤ m' → ObjRecHalts (run x m') env props v) (op : Op) :
    Halts (run x (m + 2) op env (.obj id props) v) := by
  rw [run]
  refine halts_runObj (key (m + 1) (by omega)) ?_ op
  rw [run]
  exact halts_runObj_U (key m (Nat.le_refl _))

/-! ### acyclic schemas -/

/-- depth of the decoded default of a property (0 when there is none) -/
def PropT.defDepth (p : PropT) : Nat :=
  match p.defaultV with
  | some (some dv) => dv.depth
  | _ => 0

/-- `FinDepth env t d`: the schema `t`, with references followed through `env` (and through the
    objects of a scope inside the scope), unfolds to a finite tree of fewer than `d + 1` levels;
    the defaults of an object's properties count with their own depth, because a default is a value
    that is fed to the property's type. Being inductive, the predicate holds of no schema whose
    unfolding runs through a reference cycle. A dangling reference counts as a leaf (it panics at
    once). -/
inductive FinDepth : Env → Ty → Nat → Prop
  | int {env a b u d} : FinDepth env (.int a b u) d
  | float {env a b u d} : FinDepth env (.float a b u) d
  | str {env a b p d} : FinDepth env (.str a b p) d
  | bool {env d} : FinDepth env .bool d
  | pattern {env d} : FinDepth env .pattern d
  | enumInt {env vs u d} : FinDepth env (.enumInt vs u) d
  | enumStr {env vs d} : FinDepth env (.enumStr vs) d
  | any {env d} : FinDepth env .any d
  | list {env item a b d d'} : FinDepth env item d → d < d' → FinDepth env (.list item a b) d'
  | map {env k v a b d d'} : FinDepth env k d → FinDepth env v d → d < d' → FinDepth env (.map k v a b) d'
  | obj {env id props d e d'} :
      (∀ np, np ∈ props → FinDepth env np.2.ty d) → (∀ np, np ∈ props → np.2.defDepth ≤ e) → d + e < d' →
      FinDepth env (.obj id props) d'
  | oneOf {env ik disc inl members d d'} :
      (∀ m, m ∈ members → FinDepth env m.2 d) → d < d' → FinDepth env (.oneOf ik disc inl members) d'
  | ref {env id o d d'} : lookupS id env = some o → FinDepth env o d → d < d' → FinDepth env (.ref id) d'
  | refNone {env id d} : lookupS id env = none → FinDepth env (.ref id) d
  | scope {env objs root o d d'} :
      lookupS root objs = some o → FinDepth objs o d → d < d' → FinDepth env (.scope objs root) d'
  | scopeNone {env objs root d} : lookupS root objs = none → FinDepth env (.scope objs root) d

theorem FinDepth.mono {env : Env} {t : Ty} {d d' : Nat} (h : FinDepth env t d) (hd : d ≤ d') : FinDepth env t d' := by
  cases h with
  | int => exact .int
  | float => exact .float
  | str => exact .str
  | bool => exact .bool
  | pattern => exact .pattern
  | enumInt => exact .enumInt
  | enumStr => exact .enumStr
  | any => exact .any
  | list h hlt => exact .list h (by omega)
  | map hk hv hlt => exact .map hk hv (by omega)
  | obj hp he hlt => exact .obj hp he (by omega)
  | oneOf hm hlt => exact .oneOf hm (by omega)
  | ref hl h hlt => exact .ref hl h (by omega)
  | refNone hl => exact .refNone hl
  | scope hl h hlt => exact .scope hl h (by omega)
  | scopeNone hl => exact .scopeNone hl

theorem defDepth_of_default {p : PropT} {dv : V} (h : p.defaultV = some (some dv)) : dv.depth = p.defDepth := by
  simp [PropT.defDepth, h]

/-- Acyclic schemas terminate on every input: a budget of twice the unfolding depth of the schema
    plus the nesting depth of the value (plus one) is never exhausted. (Twice, because data-mode
    compatibility of a non-map value against an object first unserializes it with the same object.) -/
theorem fin_halts (x : Ext) {env : Env} {t : Ty} {d : Nat} (h : FinDepth env t d) :
    ∀ (n : Nat) (op : Op) (v : V), 2 * d + v.depth + 1 ≤ n → Halts (run x n op env t v) := by
  induction h with
  | int => intro n op v hn; obtain ⟨m, rfl⟩ : ∃ m, n = m + 1 := ⟨n - 1, by omega⟩; rw [run]; exact halts_runInt _ _ _ _ _
  | float => intro n op v hn; obtain ⟨m, rfl⟩ : ∃ m, n = m + 1 := ⟨n - 1, by omega⟩; rw [run]; exact halts_runFloat _ _ _ _ _ _
  | str => intro n op v hn; obtain ⟨m, rfl⟩ : ∃ m, n = m + 1 := ⟨n - 1, by omega⟩; rw [run]; exact halts_runStr _ _ _ _ _ _
  | bool => intro n op v hn; obtain ⟨m, rfl⟩ : ∃ m, n = m + 1 := ⟨n - 1, by omega⟩; rw [run]; exact halts_runBool _ _
  | pattern => intro n op v hn; obtain ⟨m, rfl⟩ : ∃ m, n = m + 1 := ⟨n - 1, by omega⟩; rw [run]; exact halts_runPattern _ _ _
  | enumInt => intro n op v hn; obtain ⟨m, rfl⟩ : ∃ m, n = m + 1 := ⟨n - 1, by omega⟩; rw [run]; exact halts_runEnumInt _ _ _ _
  | enumStr => intro n op v hn; obtain ⟨m, rfl⟩ : ∃ m, n = m + 1 := ⟨n - 1, by omega⟩; rw [run]; exact halts_runEnumStr _ _ _ _
  | any =>
    intro n op v hn; obtain ⟨m, rfl⟩ : ∃ m, n = m + 1 := ⟨n - 1, by omega⟩; rw [run]
    exact halts_runAny _ _ _ (by omega)
  | list _ hlt ih =>
    intro n op v hn; obtain ⟨m, rfl⟩ : ∃ m, n = m + 1 := ⟨n - 1, by omega⟩; rw [run]
    exact halts_runList (fun xs hxs e he op => ih m op e (by have := depth_sliceElems hxs he; omega)) _ _ _
  | map _ _ hlt ihk ihv =>
    intro n op v hn; obtain ⟨m, rfl⟩ : ∃ m, n = m + 1 := ⟨n - 1, by omega⟩; rw [run]
    exact halts_runMap (fun sh kvs hkvs k e he op => by
      have := depth_mapEntries hkvs he
      exact ⟨ihk m op k (by omega), ihv m op e (by omega)⟩) _ _ _
  | @obj env id props d e d' _ he hlt ih =>
    intro n op v hn
    obtain ⟨m, rfl⟩ : ∃ m, n = m + 2 := ⟨n - 2, by omega⟩
    have key : ∀ m', m ≤ m' → ObjRecHalts (run x m') env props v := fun m' hm' =>
      { single := fun name p hp _ _ => ih (name, p) (by rw [hp]; simp) m' .U v (by omega)
        entries := fun sh kvs hkvs k e' hke np hnp op =>
          ih np hnp m' op e' (by have := depth_mapEntries hkvs hke; omega)
        defaults := fun np hnp np' hnp' _ dv hdv =>
          ih np hnp m' .U dv (by have := he np' hnp'; rw [← defDepth_of_default hdv] at this; omega) }
    exact halts_run_obj x key op
  | @oneOf env ik disc inl members d d' _ hlt ih =>
    intro n op v hn; obtain ⟨m, rfl⟩ : ∃ m, n = m + 1 := ⟨n - 1, by omega⟩; rw [run]
    exact halts_runOneOf (fun sh kvs sm hkvs hsm mem hmem op =>
      ih mem hmem m op _ (by have := depth_clone_le hkvs hsm inl disc; omega)) _
  | ref hl _ hlt ih =>
    intro n op v hn; obtain ⟨m, rfl⟩ : ∃ m, n = m + 1 := ⟨n - 1, by omega⟩
    simp only [run, hl]
    exact ih m op v (by omega)
  | refNone hl =>
    intro n op v hn; obtain ⟨m, rfl⟩ : ∃ m, n = m + 1 := ⟨n - 1, by omega⟩
    simp [run, hl]
  | scope hl _ hlt ih =>
    intro n op v hn; obtain ⟨m, rfl⟩ : ∃ m, n = m + 1 := ⟨n - 1, by omega⟩
    simp only [run, hl]
    exact ih m op v (by omega)
  | scopeNone hl =>
    intro n op v hn; obtain ⟨m, rfl⟩ : ∃ m, n = m + 1 := ⟨n - 1, by omega⟩
    simp [run, hl]

/-! ### executable check -/

/-- maximum of a list of optional bounds; `none` if any is missing -/
def maxOpt : List (Option Nat) → Option Nat
  | [] => some 0
  | none :: _ => none
  | some a :: rest => (maxOpt rest).map (max a)

theorem maxOpt_some : ∀ {l : List (Option Nat)} {d : Nat}, maxOpt l = some d →
    ∀ o, o ∈ l → ∃ a, o = some a ∧ a ≤ d
  | [], _, _, o, ho => by cases ho
  | none :: _, _, h, _, _ => by simp [maxOpt] at h
  | some a :: rest, d, h, o, ho => by
    simp only [maxOpt, Option.map_eq_some_iff] at h
    obtain ⟨r, hr, rfl⟩ := h
    rcases List.mem_cons.mp ho with rfl | ho
    · exact ⟨a, rfl, by omega⟩
    · obtain ⟨a', ha', hle⟩ := maxOpt_some hr o ho
      exact ⟨a', ha', by omega⟩

/-- maximal default depth among the properties -/
def maxDefDepth : List (String × PropT) → Nat
  | [] => 0
  | np :: rest => max np.2.defDepth (maxDefDepth rest)

theorem maxDefDepth_mem : ∀ {props : List (String × PropT)} {np : String × PropT}, np ∈ props →
    np.2.defDepth ≤ maxDefDepth props
  | [], _, h => by cases h
  | a :: rest, np, h => by
    simp only [maxDefDepth]
    rcases List.mem_cons.mp h with rfl | h
    · omega
    · have := maxDefDepth_mem h; omega

/-- fuelled computation of the unfolding depth; `none`: not finite within the budget `k` -/
def finB : Nat → Env → Ty → Option Nat
  | 0, _, _ => none
  | k + 1, env, t =>
    match t with
    | .int _ _ _ | .float _ _ _ | .str _ _ _ | .bool | .pattern | .enumInt _ _ | .enumStr _ | .any => some 0
    | .list item _ _ => (finB k env item).map (· + 1)
    | .map kt vt _ _ => (maxOpt [finB k env kt, finB k env vt]).map (· + 1)
    | .obj _ props => (maxOpt (props.map fun np => finB k env np.2.ty)).map (· + maxDefDepth props + 1)
    | .oneOf _ _ _ members => (maxOpt (members.map fun m => finB k env m.2)).map (· + 1)
    | .ref id => match lookupS id env with
      | none => some 0
      | some o => (finB k env o).map (· + 1)
    | .scope objs root => match lookupS root objs with
      | none => some 0
      | some o => (finB k objs o).map (· + 1)

theorem finB_sound : ∀ (k : Nat) (env : Env) (t : Ty) (d : Nat), finB k env t = some d → FinDepth env t d
  | 0, _, _, _, h => by simp [finB] at h
  | k + 1, env, t, d, h => by
    have ih := finB_sound k
    cases t with
    | int => exact .int
    | float => exact .float
    | str => exact .str
    | bool => exact .bool
    | pattern => exact .pattern
    | enumInt => exact .enumInt
    | enumStr => exact .enumStr
    | any => exact .any
    | list item a b =>
      simp only [finB, Option.map_eq_some_iff] at h
      obtain ⟨d0, h0, rfl⟩ := h
      exact .list (ih _ _ _ h0) (by omega)
    | map kt vt a b =>
      simp only [finB, Option.map_eq_some_iff] at h
      obtain ⟨d0, h0, rfl⟩ := h
      obtain ⟨dk, hk, hkle⟩ := maxOpt_some h0 (finB k env kt) (by simp)
      obtain ⟨dv, hv, hvle⟩ := maxOpt_some h0 (finB k env vt) (by simp)
      exact .map ((ih _ _ _ hk).mono hkle) ((ih _ _ _ hv).mono hvle) (by omega)
    | obj id props =>
      simp only [finB, Option.map_eq_some_iff] at h
      obtain ⟨d0, h0, rfl⟩ := h
      refine .obj (d := d0) (e := maxDefDepth props) (fun np hnp => ?_) (fun np hnp => maxDefDepth_mem hnp) (by omega)
      obtain ⟨a, ha, hle⟩ := maxOpt_some h0 (finB k env np.2.ty) (List.mem_map.mpr ⟨np, hnp, rfl⟩)
      exact (ih _ _ _ ha).mono hle
    | oneOf ik disc inl members =>
      simp only [finB, Option.map_eq_some_iff] at h
      obtain ⟨d0, h0, rfl⟩ := h
      refine .oneOf (d := d0) (fun m hm => ?_) (by omega)
      obtain ⟨a, ha, hle⟩ := maxOpt_some h0 (finB k env m.2) (List.mem_map.mpr ⟨m, hm, rfl⟩)
      exact (ih _ _ _ ha).mono hle
    | ref id =>
      simp only [finB] at h
      cases hl : lookupS id env with
      | none => exact .refNone hl
      | some o =>
        rw [hl] at h
        simp only [Option.map_eq_some_iff] at h
        obtain ⟨d0, h0, rfl⟩ := h
        exact .ref hl (ih _ _ _ h0) (by omega)
    | scope objs root =>
      simp only [finB] at h
      cases hl : lookupS root objs with
      | none => exact .scopeNone hl
      | some o =>
        rw [hl] at h
        simp only [Option.map_eq_some_iff] at h
        obtain ⟨d0, h0, rfl⟩ := h
        exact .scope hl (ih _ _ _ h0) (by omega)

end Arca
