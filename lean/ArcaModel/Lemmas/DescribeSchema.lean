import ArcaModel.Lemmas.DescribeMeta
import ArcaModel.Lemmas.DescribeParse
/-
  Whole plugin schemas: `DescribeSchema().Unserialize` on the description of a schema (steps with
  input, outputs, signal handlers and emitters) and the conversion back (C09).
-/
namespace Arca
open Out Meta Parse

theorem schemaEnv_schema : lookupS "Schema" schemaObjs = some oSchema := rfl
theorem schemaEnv_signal : lookupS "Signal" schemaObjs = some oSignal := rfl
theorem schemaEnv_step : lookupS "Step" schemaObjs = some oStep := rfl
theorem schemaEnv_stepOutput : lookupS "StepOutput" schemaObjs = some oStepOutput := rfl

/-! ### evaluation -/

/-- a data scope inside a plugin schema -/
theorem ev_data {x : Ext} {E : Env} (hE : MetaEnv E) {r : Rep} (hr : r.Good) (t : DTy)
    (h : describableData x t = true) : Evals x E (.ref "Scope") (describeR r t) (describeR .norm t) := by
  simp only [describableData, Bool.and_eq_true] at h
  cases t with
  | scope objs root =>
    exact evals_ref hE.scope (evF_all hE hr (.scope objs root) h.2 r.objShape)
  | _ => simp [DTy.isScope] at h

theorem ent_display {x : Ext} {E : Env} (hE : MetaEnv E) (r : Rep) {props : List (String × PropT)}
    (hl : lookupS "display" props = some displayP) (d : Option Disp) (h : optDispOK d = true) :
    EntEvals x E props (optF "display" (descDisp r) d) (optF "display" (descDisp .norm) d) :=
  .optF d hl rfl fun a ha => ev_disp hE r a (by simpa [optDispOK, ha] using h)

theorem ev_signal {x : Ext} {r : Rep} (hr : r.Good) (k : String) (s : DSignal)
    (h : describableSignal x (k, s) = true) :
    Evals x schemaObjs (.ref "Signal") (descSignal r s) (descSignal .norm s) := by
  simp only [describableSignal, Bool.and_eq_true] at h
  obtain ⟨⟨⟨_, hid⟩, hdata⟩, hd⟩ := h
  refine evals_ref schemaEnv_signal ?_
  show Evals x schemaObjs oSignal (.map r.objShape (kvsOf _)) (toStrAny _)
  refine evals_obj (.append (.cons rfl rfl (ev_id hid) (.one rfl rfl (ev_data metaEnv_schema hr s.data hdata)))
    (ent_display metaEnv_schema r rfl s.disp hd)) ?_ ?_
  · exact noPending_of _ [] _ (by decide) (by simp)
  · exact requiredSet_of _ ["data_schema", "id"] _ (by decide) (by simp [hasKey_cons, hasKey_append])

theorem ev_output {x : Ext} {r : Rep} (hr : r.Good) (k : String) (o : DOutput)
    (h : describableOutput x (k, o) = true) :
    Evals x schemaObjs (.ref "StepOutput") (descOutput r o) (descOutput .norm o) := by
  simp only [describableOutput, Bool.and_eq_true] at h
  obtain ⟨⟨_, hdata⟩, hd⟩ := h
  refine evals_ref schemaEnv_stepOutput ?_
  show Evals x schemaObjs oStepOutput (.map r.objShape (kvsOf _)) (toStrAny _)
  refine evals_obj (.append (.append (.one rfl rfl (ev_data metaEnv_schema hr o.schema hdata))
    (ent_display metaEnv_schema r rfl o.disp hd)) (.one rfl rfl evals_bool)) ?_ ?_
  · exact noPending_of _ ["error"] _ (by decide) (by simp [hasKey_cons, hasKey_append])
  · exact requiredSet_of _ ["schema"] _ (by decide) (by simp [hasKey_cons, hasKey_append])

theorem kv_mapped {α} {x : Ext} {E : Env} {kt vt : Ty} (r : Rep) (f : Rep → α → V) :
    ∀ (l : List (String × α)), (∀ kv, kv ∈ l → Evals x E kt (.str kv.1) (.str kv.1) ∧ Evals x E vt (f r kv.2) (f .norm kv.2)) →
      KVEvals x E kt vt (l.map fun (k, a) => (V.str k, f r a)) (l.map fun (k, a) => (V.str k, f .norm a))
  | [], _ => .nil
  | (k, a) :: rest, h => by
    have h1 := h (k, a) (by simp)
    exact .cons h1.1 h1.2 (kv_mapped r f rest fun kv hkv => h kv (by simp [hkv]))

theorem keys_mapped {α} (f : α → V) : ∀ (l : List (String × α)),
    (l.map fun (k, a) => (V.str k, f a)).map (fun kv => kv.1.key?) = (l.map fun p => Key.s p.1).map some
  | [] => rfl
  | (k, a) :: rest => by
    simp only [List.map_cons, keys_mapped f rest]
    rfl

theorem ev_keyed {α} {x : Ext} {E : Env} {vt : Ty} (r : Rep) (f : Rep → α → V) (l : List (String × α))
    (hnd : (l.map (·.1)).Nodup) (hva : vt.reflectsAny = false)
    (h : ∀ kv, kv ∈ l → idOK x kv.1 = true ∧ Evals x E vt (f r kv.2) (f .norm kv.2)) :
    Evals x E (.map idType vt none none) (r.kv .string false (l.map fun (k, a) => (V.str k, f r a)))
      (Rep.norm.kv .string false (l.map fun (k, a) => (V.str k, f .norm a))) := by
  have := evals_map (sh := r.kvShape .string false) (a := none) (b := none)
    (kv_mapped r f l fun kv hkv => ⟨ev_id (h kv hkv).1, (h kv hkv).2⟩) (checkLen_none _)
    (dupKey_false_of_keys _ _ (keys_mapped (f .norm) l) (nodup_keys_s l hnd))
  simpa [Rep.kv, Rep.norm, Ty.keyTy, idType, hva] using this

theorem ev_step {x : Ext} {r : Rep} (hr : r.Good) (k : String) (s : DStep)
    (h : describableStep x (k, s) = true) :
    Evals x schemaObjs (.ref "Step") (descStep r s) (descStep .norm s) := by
  simp only [describableStep, Bool.and_eq_true, decide_eq_true_eq] at h
  obtain ⟨⟨⟨⟨⟨⟨⟨⟨⟨_, hid⟩, hin⟩, hd⟩, hno⟩, hnh⟩, hne⟩, hos⟩, hhs⟩, hes⟩ := h
  refine evals_ref schemaEnv_step ?_
  show Evals x schemaObjs oStep (.map r.objShape (kvsOf _)) (toStrAny _)
  refine evals_obj (.append (.cons rfl rfl (ev_id hid) (.cons rfl rfl (ev_data metaEnv_schema hr s.input hin)
    (.cons rfl rfl ?_ (.cons rfl rfl ?_ (.one rfl rfl ?_))))) (ent_display metaEnv_schema r rfl s.disp hd)) ?_ ?_
  · exact ev_keyed r descOutput s.outputs hno rfl fun kv hkv => by
      have := all_mem' hos hkv
      refine ⟨?_, ev_output hr kv.1 kv.2 this⟩
      simp only [describableOutput, Bool.and_eq_true] at this
      exact this.1.1
  · exact ev_keyed r descSignal s.handlers hnh rfl fun kv hkv => by
      have := all_mem' hhs hkv
      refine ⟨?_, ev_signal hr kv.1 kv.2 this⟩
      simp only [describableSignal, Bool.and_eq_true] at this
      exact this.1.1.1
  · exact ev_keyed r descSignal s.emitters hne rfl fun kv hkv => by
      have := all_mem' hes hkv
      refine ⟨?_, ev_signal hr kv.1 kv.2 this⟩
      simp only [describableSignal, Bool.and_eq_true] at this
      exact this.1.1.1
  · exact noPending_of _ [] _ (by decide) (by simp)
  · exact requiredSet_of _ ["id", "input", "outputs"] _ (by decide) (by simp [hasKey_cons, hasKey_append])

/-- `DescribeSchema().Unserialize` on the description of a plugin schema -/
theorem ev_schema {x : Ext} {r : Rep} (hr : r.Good) (p : DSchema) (h : describableSchema x p = true) :
    Evals x [] metaSchema (describeSchemaR r p) (describeSchemaR .norm p) := by
  simp only [describableSchema, Bool.and_eq_true, decide_eq_true_eq] at h
  have hobj : Evals x schemaObjs oSchema (describeSchemaR r p) (describeSchemaR .norm p) := by
    show Evals x schemaObjs oSchema (.map r.objShape (kvsOf _)) (toStrAny _)
    refine evals_obj (.one rfl rfl ?_) ?_ ?_
    · exact ev_keyed r descStep p h.1 rfl fun kv hkv => by
        have := all_mem' h.2 hkv
        refine ⟨?_, ev_step hr kv.1 kv.2 this⟩
        simp only [describableStep, Bool.and_eq_true] at this
        exact this.1.1.1.1.1.1.1.1.1
    · exact noPending_of _ [] _ (by decide) (by simp)
    · exact requiredSet_of _ ["steps"] _ (by decide) (by simp [hasKey_cons])
  obtain ⟨f0, hf⟩ := hobj
  refine Evals.step f0 fun f hle => ?_
  show (match lookupS "Schema" schemaObjs with
    | none => Out.panic
    | some o => run x f .U schemaObjs o (describeSchemaR r p)) = _
  exact hf f hle

/-! ### conversion back -/

theorem parse_data {x : Ext} (t : DTy) (h : describableData x t = true) (n : Nat) (hn : t.size ≤ n + 1) :
    fields? (describeR .norm t) = some (descTyF .norm t) ∧ scope (Parse.ty n) (descTyF .norm t) = some t := by
  simp only [describableData, Bool.and_eq_true] at h
  cases t with
  | scope objs root =>
    refine ⟨fields?_norm _, ?_⟩
    have hd := h.2
    simp only [describable, Bool.and_eq_true, decide_eq_true_eq] at hd
    simp only [DTy.size] at hn
    have := parse_scopeF_of (Parse.ty n) objs root (parse_objs objs hd.2 n (by omega)) []
    simpa using this
  | _ => simp [DTy.isScope] at h

theorem parse_signal {x : Ext} (k : String) (s : DSignal) (h : describableSignal x (k, s) = true) (n : Nat)
    (hn : s.data.size ≤ n + 1) : signal n (descSignal .norm s) = some s := by
  simp only [describableSignal, Bool.and_eq_true] at h
  obtain ⟨h1, h2⟩ := parse_data s.data h.1.2 n hn
  obtain ⟨id, data, disp⟩ := s
  simp only [signal, descSignal, fields?_norm]
  cases disp <;> simp_all [optF, lookupS, strOr, optDisp, parse_disp]

theorem parse_output {x : Ext} (k : String) (o : DOutput) (h : describableOutput x (k, o) = true) (n : Nat)
    (hn : o.schema.size ≤ n + 1) : output n (descOutput .norm o) = some o := by
  simp only [describableOutput, Bool.and_eq_true] at h
  obtain ⟨h1, h2⟩ := parse_data o.schema h.1.2 n hn
  obtain ⟨sc, disp, err⟩ := o
  simp only [output, descOutput, fields?_norm]
  cases disp <;> simp_all [optF, lookupS, boolOr, optDisp, parse_disp]

theorem strKeyed_mapped {α} (f : α → V) (g : V → Option α) : ∀ (l : List (String × α)),
    (∀ kv, kv ∈ l → g (f kv.2) = some kv.2) → strKeyed g (l.map fun (k, a) => (V.str k, f a)) = some l
  | [], _ => rfl
  | (k, a) :: rest, h => by
    simp only [List.map_cons]
    exact strKeyed_cons _ _ _ _ (h (k, a) (by simp)) (strKeyed_mapped f g rest fun kv hkv => h kv (by simp [hkv]))

theorem parse_step {x : Ext} (k : String) (s : DStep) (h : describableStep x (k, s) = true) (n : Nat)
    (hn : ∀ sc, sc ∈ s.scopes → sc.size ≤ n + 1) : step n (descStep .norm s) = some s := by
  simp only [describableStep, Bool.and_eq_true, decide_eq_true_eq] at h
  obtain ⟨⟨⟨⟨⟨⟨⟨⟨⟨_, _⟩, hin⟩, _⟩, _⟩, _⟩, _⟩, hos⟩, hhs⟩, hes⟩ := h
  obtain ⟨h1, h2⟩ := parse_data s.input hin n (hn _ (by simp [DStep.scopes]))
  have ho := strKeyed_mapped (descOutput .norm) (output n) s.outputs fun kv hkv =>
    parse_output kv.1 kv.2 (all_mem' hos hkv) n (hn _ (by
      simp only [DStep.scopes, List.mem_cons, List.mem_append, List.mem_map]
      exact Or.inr (Or.inl (Or.inl ⟨kv, hkv, rfl⟩))))
  have hh := strKeyed_mapped (descSignal .norm) (signal n) s.handlers fun kv hkv =>
    parse_signal kv.1 kv.2 (all_mem' hhs hkv) n (hn _ (by
      simp only [DStep.scopes, List.mem_cons, List.mem_append, List.mem_map]
      exact Or.inr (Or.inl (Or.inr ⟨kv, hkv, rfl⟩))))
  have he := strKeyed_mapped (descSignal .norm) (signal n) s.emitters fun kv hkv =>
    parse_signal kv.1 kv.2 (all_mem' hes hkv) n (hn _ (by
      simp only [DStep.scopes, List.mem_cons, List.mem_append, List.mem_map]
      exact Or.inr (Or.inr ⟨kv, hkv, rfl⟩)))
  obtain ⟨id, input, outputs, handlers, emitters, disp⟩ := s
  simp only [step, descStep, fields?_norm]
  cases disp <;> simp_all [optF, lookupS, strOr, entries, optDisp, parse_disp]

/-- `ofSchemaDescription` reads the normal representation of the description of a plugin schema back -/
theorem parse_schema {x : Ext} (p : DSchema) (h : describableSchema x p = true) (n : Nat)
    (hn : ∀ st, st ∈ p → ∀ sc, sc ∈ st.2.scopes → sc.size ≤ n + 1) :
    ofSchemaDescription n (describeSchemaR .norm p) = some p := by
  simp only [describableSchema, Bool.and_eq_true] at h
  have hs := strKeyed_mapped (descStep .norm) (step n) p fun kv hkv =>
    parse_step kv.1 kv.2 (all_mem' h.2 hkv) n (hn kv hkv)
  simp [ofSchemaDescription, Parse.schema, describeSchemaR, fields?_norm, entries, lookupS, hs]

/-- a bound on the size of every data scope of a plugin schema -/
def DSchema.bound (p : DSchema) : Nat := (p.map fun st => (st.2.scopes.map DTy.size).sum).sum

theorem le_sum_of_mem {l : List Nat} {a : Nat} (h : a ∈ l) : a ≤ l.sum := by
  induction l with
  | nil => simp at h
  | cons b rest ih =>
    simp only [List.mem_cons] at h
    simp only [List.sum_cons]
    rcases h with rfl | h
    · omega
    · have := ih h; omega

theorem DSchema.bound_le (p : DSchema) : ∀ st, st ∈ p → ∀ sc, sc ∈ st.2.scopes → sc.size ≤ p.bound := by
  intro st hst sc hsc
  have h1 : sc.size ≤ (st.2.scopes.map DTy.size).sum := le_sum_of_mem (List.mem_map.2 ⟨sc, hsc, rfl⟩)
  have h2 : (st.2.scopes.map DTy.size).sum ≤ p.bound :=
    le_sum_of_mem (List.mem_map.2 ⟨st, hst, rfl⟩)
  omega

end Arca
