import ArcaModel.Lemmas.StructRoundTripObj
/-
  One-ofs over struct-mapped members: routing of Unserialize by the discriminator, selection of the
  member by the value's dynamic type in Validate / Serialize, and the end-to-end round trip through
  a one-of with a separate discriminator (`rt_oneOfS`) and with an inlined one (`rt_obj_inl`,
  `rt_oneOfS_inl`: a treat-empty-as-default discriminator dropped by the member is put back).
-/
namespace Arca
namespace SM
open Out

/-- what the one-of returns for the member's result `mr`: a `map[string]any` gets the converted
    discriminator, anything else (a struct, a pointer to one) is returned as it is -/
def oneOfOut (disc : String) (key : Key) (mr : SV) : Out SV :=
  match mr with
  | .val (.map ⟨.string, true⟩ rk) =>
    match strKeys? rk with
    | some rm => .ok (.val (toStrAny (setKey disc key.toV rm)))
    | none => .cerr
  | _ => .ok mr

/-- ROUTING (soundness): what an accepting Unserialize of a one-of over struct-mapped members did -/
theorem oneOfUnserS_routes {rec : SRec} {x : Ext} {ik : Bool} {disc : String} {inl : Bool}
    {members : List (Key × STy)} {s r : SV} (h : oneOfUnserS rec x ik disc inl members s = .ok r) :
    ∃ sh kvs dk d key m mt mr, s.toV? = some (.map sh kvs) ∧ (sh.key = .any ∨ sh.key = .string) ∧
      kvs.find? (isDiscKey disc) = some (dk, d) ∧ DiscDenotes x ik d key ∧ strKeys? kvs = some m ∧
      lookupK key members = some mt ∧
      rec .U mt (.val (toStrAny (if inl then m else eraseKey disc m))) = .ok mr ∧ oneOfOut disc key mr = .ok r := by
  unfold oneOfUnserS at h
  split at h
  · simp [Out.cerr] at h
  · simp [Out.plain] at h
  · rename_i v hnil hv
    split at h
    · simp [Out.cerr] at h
    · rename_i sh kvs hm
      have hvm : v = .map sh kvs := by
        cases v <;> simp [V.mapEntries?] at hm
        obtain ⟨rfl, rfl⟩ := hm; rfl
      subst hvm
      split at h
      · simp [Out.cerr] at h
      · rename_i hsh
        have hsh' : sh.key = .any ∨ sh.key = .string := by
          cases hk : sh.key <;> simp_all
        split at h
        · simp [Out.cerr] at h
        · rename_i dk d hfind
          obtain ⟨key, h1, h2⟩ := Out.bind_eq_ok h
          split at h2
          · simp [Out.cerr] at h2
          · rename_i m hms
            split at h2
            · simp [Out.cerr] at h2
            · rename_i mt hmt
              obtain ⟨mr, h3, h4⟩ := Out.bind_eq_ok h2
              exact ⟨sh, kvs, dk, d, key, m, mt, mr, hv, hsh', hfind, (typedDisc_ok_iff _ _ _ _).mp h1, hms, hmt, h3, h4⟩

/-- ROUTING (completeness) -/
theorem oneOfUnserS_accepts {rec : SRec} {x : Ext} {ik : Bool} {disc : String} {inl : Bool}
    {members : List (Key × STy)} {s : SV} {sh : MapShape} {kvs : List (V × V)} {dk d : V} {key : Key}
    {m : List (String × V)} {mt : STy} {mr : SV}
    (hs : s.toV? = some (.map sh kvs)) (hsh : sh.key = .any ∨ sh.key = .string)
    (hfind : kvs.find? (isDiscKey disc) = some (dk, d)) (hkey : DiscDenotes x ik d key)
    (hm : strKeys? kvs = some m) (hmt : lookupK key members = some mt)
    (hmr : rec .U mt (.val (toStrAny (if inl then m else eraseKey disc m))) = .ok mr) :
    oneOfUnserS rec x ik disc inl members s = oneOfOut disc key mr := by
  have hsh' : (sh.key == KeyTy.any || sh.key == KeyTy.string) = true := by
    rcases hsh with h | h <;> simp [h]
  have ht := (typedDisc_ok_iff x ik d key).mpr hkey
  unfold oneOfUnserS
  simp only [hs, V.mapEntries?, hsh', Bool.not_true, Bool.false_eq_true, if_false, hfind]
  rw [ht]
  simp only [Out.bind, hm, hmt, hmr]
  rfl

/-! ### selection by the dynamic type -/

theorem filter_eq_singleton {α β} [DecidableEq β] (f : α → β) : ∀ (l : List α), (l.map f).Nodup → ∀ a, a ∈ l →
    l.filter (fun b => f b == f a) = [a]
  | [], _, a, h => by cases h
  | b :: rest, hn, a, h => by
    simp only [List.map_cons, List.nodup_cons, List.mem_map, not_exists, not_and] at hn
    simp only [List.filter_cons]
    rcases List.mem_cons.mp h with h | h
    · subst h
      simp only [beq_self_eq_true, if_true, List.cons.injEq, true_and]
      apply List.filter_eq_nil_iff.mpr
      intro c hc hcf
      exact hn.1 c hc (by simpa using hcf)
    · have hne : ¬ f b = f a := fun e => hn.1 a h e.symm
      have hb : (f b == f a) = false := by simpa using hne
      simp only [hb, Bool.false_eq_true, if_false]
      exact filter_eq_singleton f rest hn.2 a h

/-- when the members' struct types are pairwise distinct, the member of a struct value's dynamic
    type is THE member selected -/
theorem findMember_unique {members : List (Key × STy)} (hnd : (members.map fun m => reflTy m.2).Nodup)
    {km : Key × STy} (hm : km ∈ members) {s : SV} (hs : svTy? s = some (reflTy km.2)) :
    findMember members s = some km := by
  unfold findMember
  rw [hs]
  simp only []
  rw [filter_eq_singleton (fun m => reflTy m.2) members hnd km hm]
  rfl

theorem findMember_none {members : List (Key × STy)} {s : SV}
    (h : ∀ km, km ∈ members → svTy? s ≠ some (reflTy km.2)) : findMember members s = none := by
  unfold findMember
  split
  · rfl
  · rename_i g hg
    have : members.filter (fun m => reflTy m.2 == g) = [] := by
      apply List.filter_eq_nil_iff.mpr
      intro km hkm hc
      exact h km hkm (by rw [hg]; simp only [beq_iff_eq] at hc; rw [hc])
    rw [this]; rfl

/-! ### struct-mapped members -/

/-- an object-like schema that does not declare the property `d` -/
inductive NoDisc (d : String) : STy → Prop
  | obj {id st ptrT props} : hasKey d props = false → NoDisc d (.obj id st ptrT props)
  | scope {t} : NoDisc d t → NoDisc d (.scope t)

theorem noDisc_of_discOK : ∀ (n : Nat) (ik : Bool) (d : String) (t : STy), objLikeS n t = true →
    discOK n ik d false t = true → NoDisc d t
  | 0, _, _, _, h, _ => by simp [objLikeS] at h
  | n + 1, ik, d, t, ho, hd => by
    cases t with
    | obj id st ptrT props =>
      simp only [discOK, memberProps, Bool.false_eq_true, if_false, Bool.not_eq_true'] at hd
      exact .obj hd
    | scope t =>
      simp only [objLikeS] at ho
      have hd' : discOK n ik d false t = true := by simpa [discOK, memberProps] using hd
      exact .scope (noDisc_of_discOK n ik d t ho hd')
    | leaf => simp [objLikeS] at ho
    | list => simp [objLikeS] at ho
    | map => simp [objLikeS] at ho
    | oneOf => simp [objLikeS] at ho

/-- Unserialize of an object-like schema yields a struct value (or a pointer to one) of the schema's
    reflected type - never a `map[string]any` -/
theorem srun_U_objLike (x : Ext) : ∀ (fuel : Nat) (t : STy) (v r : SV), ObjLikeS t →
    srun x fuel .U t v = .ok r → svTy? r = some (reflTy t)
  | 0, _, _, _, _, h => by simp [srun] at h
  | n + 1, t, v, r, ho, h => by
    cases ho with
    | obj =>
      rename_i id st ptrT props
      simp only [srun, runObjS] at h
      obtain ⟨_, _, h⟩ := Out.bind_eq_ok h
      obtain ⟨_, _, h⟩ := Out.bind_eq_ok h
      obtain ⟨_, _, h⟩ := Out.bind_eq_ok h
      cases h
      cases ptrT <;> simp [wrapT, svTy?, reflTy]
    | scope ho' =>
      simp only [srun] at h
      simp only [reflTy]
      exact srun_U_objLike x n _ v r ho' h

theorem oneOfOut_struct {disc : String} {key : Key} {mr : SV} {g : GoTy} (h : svTy? mr = some g) :
    oneOfOut disc key mr = .ok mr := by
  cases mr <;> simp [svTy?] at h <;> rfl

/-- the keys of what an object-like schema serializes are declared properties: a member that does
    not declare the discriminator does not serialize one -/
theorem srun_S_noDisc (x : Ext) (d : String) : ∀ (fuel : Nat) (t : STy) (s : SV) (rm : List (String × V)),
    NoDisc d t → srun x fuel .S t s = .ok (.val (toStrAny rm)) → hasKey d rm = false
  | 0, _, _, _, _, h => by simp [srun] at h
  | n + 1, t, s, rm, hnd, h => by
    cases hnd with
    | obj hno =>
      rename_i id st ptrT props
      simp only [srun, runObjS] at h
      obtain ⟨fs, _, h⟩ := Out.bind_eq_ok h
      obtain ⟨raw, hraw, h⟩ := Out.bind_eq_ok h
      obtain ⟨m1, hm1, h⟩ := Out.bind_eq_ok h
      obtain ⟨m2, hm2, h⟩ := Out.bind_eq_ok h
      obtain ⟨_, _, h⟩ := Out.bind_eq_ok h
      simp only [Out.ok.injEq, SV.val.injEq] at h
      have hrm : m2 = rm := toStrAny_inj h
      subst hrm
      cases hk : hasKey d m2 with
      | false => rfl
      | true =>
        exfalso
        have h1 : d ∈ keysOf m2 := (hasKey_iff_mem _ _).mp hk
        rw [forSVS_keys hm2, forSVS_keys hm1] at h1
        obtain ⟨_, hr⟩ := (fromStruct_ok_iff st fs props raw).mp hraw
        rw [hr] at h1
        have h2 := (keysOf_filterMap_readOpt st fs props).subset h1
        have := (hasKey_iff_mem _ _).mpr h2
        rw [hno] at this; cases this
    | scope hnd' =>
      simp only [srun] at h
      exact srun_S_noDisc x d n _ s rm hnd' h

/-! ### the round trip through a one-of with a separate discriminator -/

theorem toV_val (v : V) : (SV.val v).toV? = some v := rfl

/-- the end-to-end round trip of a one-of whose discriminator is NOT inlined, given that of its
    members: the member is chosen by the discriminator on the way in and by the struct type on the
    way out, and the two choices agree because the members' struct types are pairwise distinct -/
theorem rt_oneOfS {rec : SRec} (x : Ext) (ik : Bool) (disc : String) {members : List (Key × STy)}
    (hrt : ∀ m, m ∈ members → RTAt rec m.2)
    (hUt : ∀ m, m ∈ members → ∀ v r, rec .U m.2 v = .ok r → svTy? r = some (reflTy m.2))
    (hSm : ∀ m, m ∈ members → ∀ s r, rec .S m.2 s = .ok r → ∃ rm, r = .val (toStrAny rm) ∧ hasKey disc rm = false)
    (hnd : (members.map fun m => reflTy m.2).Nodup) (v s : SV)
    (h : runOneOfS rec x .U ik disc false members v = .ok s) :
    runOneOfS rec x .V ik disc false members s = .ok (.val unitV) ∧
    ∃ w s', runOneOfS rec x .S ik disc false members s = .ok (.val w) ∧
      runOneOfS rec x .U ik disc false members (.val w) = .ok s' ∧
      Eqv (.oneOf ik disc false members) s s' ∧
      runOneOfS rec x .S ik disc false members s' = .ok (.val w) ∧
      runOneOfS rec x .V ik disc false members s' = .ok (.val unitV) := by
  simp only [runOneOfS] at h
  obtain ⟨sh, kvs, dk, d, key, m, mt, mr, _, _, _, hkey, _, hmt, hmr, hout⟩ := oneOfUnserS_routes h
  have hmm : (key, mt) ∈ members := lookupK_mem hmt
  have hty := hUt _ hmm _ _ hmr
  rw [oneOfOut_struct hty] at hout
  cases hout
  obtain ⟨hV, w0, s', hS0, hU2, hE, hS2, hV2, _⟩ := hrt _ hmm _ _ hmr
  obtain ⟨rm, hw0, hno⟩ := hSm _ hmm _ _ hS0
  simp only [SV.val.injEq] at hw0
  subst hw0
  have hty' := hUt _ hmm _ _ hU2
  have hfm := findMember_unique hnd hmm hty
  have hfm' := findMember_unique hnd hmm hty'
  have hSout : ∀ (z : SV), rec .S mt z = .ok (.val (toStrAny rm)) → findMember members z = some (key, mt) →
      runOneOfS rec x .S ik disc false members z = .ok (.val (toStrAny (rm ++ [(disc, key.toV)]))) := by
    intro z hz hfz
    simp only [runOneOfS, hfz, hz, Out.bind, toStrAny, MapShape.strAny, strKeys_toStrAny, hno,
      Bool.false_eq_true, if_false]
  refine ⟨?_, toStrAny (rm ++ [(disc, key.toV)]), s', hSout _ hS0 hfm, ?_, .oneOf hmm hE, hSout _ hS2 hfm', ?_⟩
  · simp [runOneOfS, hfm, hV, Out.addSeg, Out.bind]
  · simp only [runOneOfS]
    have hfind := find_disc_append disc key.toV rm hno
    have hkey' := (key_toV_typed x ik d key hkey).2
    have hclone : rec .U mt (.val (toStrAny (if false = true then (rm ++ [(disc, key.toV)])
        else eraseKey disc (rm ++ [(disc, key.toV)])))) = .ok s' := by
      simp only [Bool.false_eq_true, if_false, eraseKey_append_self _ _ _ hno]
      exact hU2
    rw [oneOfUnserS_accepts (s := .val (toStrAny (rm ++ [(disc, key.toV)]))) (sh := .strAny)
      (kvs := (rm ++ [(disc, key.toV)]).map fun (kv : String × V) => (V.str kv.1, kv.2))
      (by simp [toV_val, toStrAny]) (Or.inr rfl) hfind hkey' (strKeys_toStrAny _) hmt hclone]
    exact oneOfOut_struct hty'
  · simp [runOneOfS, hfm', hV2, Out.addSeg, Out.bind]

/-! ### the round trip through a one-of with an INLINED discriminator -/

/-- the member declares the discriminator as a leaf of the one-of's key kind (what
    `validateSubtypeDiscriminatorInlineFields` asks of an inlined member) -/
inductive InlDisc (ik : Bool) (disc : String) : STy → Prop
  | obj {id st ptrT props p T} : lookupS disc props = some p → p.ty = .leaf T → discTyOK ik T = true →
      InlDisc ik disc (.obj id st ptrT props)
  | scope {t} : InlDisc ik disc t → InlDisc ik disc (.scope t)

theorem inlDisc_of_discOK : ∀ (n : Nat) (ik : Bool) (d : String) (t : STy), objLikeS n t = true →
    discOK n ik d true t = true → InlDisc ik d t
  | 0, _, _, _, h, _ => by simp [objLikeS] at h
  | n + 1, ik, d, t, ho, hd => by
    cases t with
    | obj id st ptrT props =>
      simp only [discOK, memberProps, if_true] at hd
      split at hd
      · rename_i p hp
        cases hpt : p.ty with
        | leaf T =>
          rw [hpt] at hd
          refine .obj hp hpt ?_
          cases T <;> simp [discLeafOK] at hd <;> simp [discTyOK, hd]
        | list => rw [hpt] at hd; simp [discLeafOK] at hd
        | map => rw [hpt] at hd; simp [discLeafOK] at hd
        | scope => rw [hpt] at hd; simp [discLeafOK] at hd
        | obj => rw [hpt] at hd; simp [discLeafOK] at hd
        | oneOf => rw [hpt] at hd; simp [discLeafOK] at hd
      · cases hd
    | scope t =>
      simp only [objLikeS] at ho
      have hd' : discOK n ik d true t = true := by simpa [discOK, memberProps] using hd
      exact .scope (inlDisc_of_discOK n ik d t ho hd')
    | leaf => simp [objLikeS] at ho
    | list => simp [objLikeS] at ho
    | map => simp [objLikeS] at ho
    | oneOf => simp [objLikeS] at ho

/-- The end-to-end statement for an inlined member, as the one-of uses it: the input map carries
    the discriminator `d` denoting `key`; the serialized form either carries `key` again, or lacks
    the discriminator (dropped: treat-empty-as-default on a zero key) - then the one-of appends it,
    and the member rebuilds an identified struct from the completed map. -/
def RTInl (rec : SRec) (x : Ext) (ik : Bool) (disc : String) (t : STy) : Prop :=
  ∀ mIn s d key, rec .U t (.val (toStrAny mIn)) = .ok s → lookupS disc mIn = some d → DiscDenotes x ik d key →
    rec .V t s = .ok (.val unitV) ∧
    ∃ wl s', rec .S t s = .ok (.val (toStrAny wl)) ∧
      (∀ a, lookupS disc wl = some a → a = key.toV) ∧
      rec .U t (.val (toStrAny (if hasKey disc wl then wl else wl ++ [(disc, key.toV)]))) = .ok s' ∧
      Eqv t s s' ∧ rec .S t s' = .ok (.val (toStrAny wl)) ∧ rec .V t s' = .ok (.val unitV)

theorem forSVS_lookup {α β} {f : String → α → Out β} : ∀ {l : List (String × α)} {l' : List (String × β)},
    forSVS f l = .ok l' → ∀ k a, lookupS k l = some a → ∃ b, f k a = .ok b ∧ lookupS k l' = some b
  | [], _, _, k, a, hl => by simp [lookupS] at hl
  | (k', v) :: rest, l', h, k, a, hl => by
    simp only [forSVS] at h
    cases hx : f k' v with
    | ok y =>
      simp only [hx] at h
      cases hr : forSVS f rest with
      | ok ys =>
        simp only [hr, Out.ok.injEq] at h
        subst h
        rw [lookupS_cons] at hl ⊢
        by_cases hk : k = k'
        · subst hk
          simp only [if_true, Option.some.injEq] at hl ⊢
          subst hl
          exact ⟨y, hx, rfl⟩
        · simp only [hk, if_false] at hl ⊢
          exact forSVS_lookup hr k a hl
      | err e => simp [hr] at h
      | panic => simp [hr] at h
      | fuel => simp [hr] at h
    | err e => simp [hx] at h
    | panic => simp [hx] at h
    | fuel => simp [hx] at h

theorem applyDefaultsS_lookup (st : StructTy) (fuel : Nat) : ∀ (ps : List (String × SProp)) (m m0 : List (String × V)),
    applyDefaultsS st fuel ps m = .ok m0 → ∀ k d, lookupS k m = some d → lookupS k m0 = some d
  | [], m, m0, h, k, d, hk => by simp only [applyDefaultsS, Out.ok.injEq] at h; subst h; exact hk
  | (k', p) :: rest, m, m0, h, k, d, hk => by
    rw [applyDefaultsS_cons] at h
    split at h
    · exact applyDefaultsS_lookup st fuel rest m m0 h k d hk
    · obtain ⟨o, _, h⟩ := Out.bind_eq_ok h
      refine applyDefaultsS_lookup st fuel rest _ m0 h k d ?_
      cases o with
      | none => exact hk
      | some v => exact lookupS_append_of_some hk _

/-- an entry of the raw map is converted under its own property -/
theorem sobjRaw_lookup {rec : SRec} {fuel : Nat} {st : StructTy} {props : List (String × SProp)}
    {mIn : List (String × V)} {m : List (String × SV)}
    (h : sobjRaw rec fuel st props (.val (toStrAny mIn)) = .ok m) {k : String} {d : V} (hl : lookupS k mIn = some d) :
    ∃ y, lookupS k m = some y ∧ entryUS rec props k d = .ok y := by
  unfold sobjRaw at h
  simp only [rawEntries_toStrAny, strKeys_toStrAny] at h
  split at h
  · simp [Out.cerr] at h
  · split at h
    · simp [Out.cerr] at h
    · obtain ⟨m0, hm0, h⟩ := Out.bind_eq_ok h
      obtain ⟨y, hy, hly⟩ := forSVS_lookup h k d (applyDefaultsS_lookup st fuel props mIn m0 hm0 k d hl)
      exact ⟨y, hly, hy⟩

theorem srun_leaf_run {x : Ext} {n : Nat} {op : SOp} {T : Ty} {v : V} {r : SV}
    (h : srun x (n + 1) op (.leaf T) (.val v) = .ok r) : ∃ r0, r = .val r0 ∧ run x n op.toOp [] T v = .ok r0 := by
  simp only [srun, runLeaf, toV_val] at h
  cases hr : run x n op.toOp [] T v with
  | ok r0 => simp only [hr, Out.ok.injEq] at h; exact ⟨r0, h.symm, rfl⟩
  | err e => simp [hr] at h
  | panic => simp [hr] at h
  | fuel => simp [hr] at h

theorem plainLeaf_of_discTyOK {ik : Bool} {T : Ty} (h : discTyOK ik T = true) : plainLeaf (.leaf T) = true := by
  cases T <;> simp [discTyOK] at h <;> rfl

theorem srun_obj (x : Ext) (f : Nat) (op : SOp) (id : String) (st : StructTy) (ptrT : Bool)
    (props : List (String × SProp)) (s : SV) :
    srun x (f + 1) op (.obj id st ptrT props) s = runObjS (srun x f) f op st ptrT props s := rfl
theorem srun_scope (x : Ext) (f : Nat) (op : SOp) (t : STy) (s : SV) :
    srun x (f + 1) op (.scope t) s = srun x f op t s := rfl

/-- the inlined member's round trip, for a struct-mapped object -/
theorem rt_obj_inl (x : Ext) (n : Nat) (ik : Bool) (disc : String) (id : String) {st : StructTy} (ptrT : Bool)
    {props : List (String × SProp)} (hwf : WFObj st props) (hex : exactObjB st props = true)
    (hrt : ∀ kp, kp ∈ props → rtPropB st props kp = true)
    (ih : ∀ kp, kp ∈ props → RTAt (srun x (n + 2)) kp.2.ty)
    {p : SProp} {T : Ty} (hp : lookupS disc props = some p) (hty : p.ty = .leaf T) (hT : discTyOK ik T = true) :
    RTInl (srun x (n + 3)) x ik disc (.obj id st ptrT props) := by
  intro mIn s d key hU hld hden
  simp only [srun_obj] at hU ⊢
  have hkp : (disc, p) ∈ props := lookupS_mem hp
  obtain ⟨f, hf, _⟩ := propOK_field (hwf.prop (disc, p) hkp)
  simp only [] at hf
  -- the converted map holds the converted key at the discriminator
  have hU' := hU
  simp only [runObjS] at hU'
  obtain ⟨m0, hm0, _⟩ := Out.bind_eq_ok hU'
  obtain ⟨y, hly, hey⟩ := sobjRaw_lookup hm0 hld
  have hdis : p.disabled = false := by
    cases hd : p.disabled with
    | false => rfl
    | true => simp [entryUS, hp, hd, Out.cerrAt] at hey
  have huy : srun x (n + 2) .U (.leaf T) (.val d) = .ok y := by
    simp only [entryUS, hp, hdis, Bool.false_eq_true, if_false, hty] at hey
    exact addSeg_eq_ok hey
  obtain ⟨y0, rfl, hrun⟩ := srun_leaf_run huy
  have hy0 : y0 = key.toV := discProp_unser x (n + 1) [] ik T hT d y0 key hden hrun
  subst hy0
  -- the converted key serializes to itself and unserializes to itself
  obtain ⟨_, w0, s0, hS0, hU0, _, _, _, hpl⟩ := ih (disc, p) hkp (.val d) (.val key.toV) (by simp only [hty]; exact huy)
  simp only [hty] at hS0 hU0 hpl
  have hs0 : s0 = .val key.toV := hpl (plainLeaf_of_discTyOK hT)
  subst hs0
  obtain ⟨w1, hw1, hrunS⟩ := srun_leaf_run hS0
  simp only [SV.val.injEq] at hw1
  subst hw1
  have hw0 : w0 = key.toV := discProp_ser x (n + 1) [] ik T hT d w0 key hden hrunS
  subst hw0
  have hV2of : ∀ (inp s' : SV), runObjS (srun x (n + 2)) (n + 2) .U st ptrT props inp = .ok s' →
      runObjS (srun x (n + 2)) (n + 2) .V st ptrT props s' = .ok (.val unitV) :=
    fun inp s' h => (rt_obj x n id ptrT hwf hex hrt ih inp s' h).1
  cases hrb : readBack f p (some (.val key.toV)) with
  | none =>
    obtain ⟨hV, m, wl, s', hm, hS, hkeys, _, hU2, hE, hS2⟩ :=
      rt_obj_ext x n id ptrT hwf hex hrt ih _ s [(disc, key.toV)] hU (by
        intro m hm
        rw [hm0] at hm; cases hm
        refine ⟨by simp [keysOf], ?_⟩
        intro ka hka
        simp only [List.mem_singleton] at hka
        subst hka
        exact ⟨p, f, .val key.toV, hkp, hf, hly, by simp only [hty]; exact hU0, hrb⟩)
    rw [hm0] at hm; cases hm
    have hno : hasKey disc wl = false := by rw [hkeys disc p f hkp hf, hly, hrb]; rfl
    refine ⟨hV, wl, s', hS, ?_, ?_, hE, hS2, ?_⟩
    · intro a ha
      simp [hasKey, ha] at hno
    · simp only [hno, Bool.false_eq_true, if_false]; exact hU2
    · exact hV2of _ _ hU2
  | some y' =>
    obtain ⟨hV, m, wl, s', hm, hS, hkeys, htr, hU2, hE, hS2⟩ :=
      rt_obj_ext x n id ptrT hwf hex hrt ih _ s [] hU (fun _ _ => ⟨List.nodup_nil, fun _ h => by cases h⟩)
    rw [hm0] at hm; cases hm
    rw [List.append_nil] at hU2
    have hyes : hasKey disc wl = true := by rw [hkeys disc p f hkp hf, hly, hrb]; rfl
    refine ⟨hV, wl, s', hS, ?_, ?_, hE, hS2, ?_⟩
    · intro a ha
      obtain ⟨p', hp', hsa⟩ := htr disc a _ ha hly
      rw [hp] at hp'; cases hp'
      rw [hty] at hsa
      obtain ⟨a0, ha0, hrunA⟩ := srun_leaf_run hsa
      simp only [SV.val.injEq] at ha0
      subst ha0
      exact discProp_ser x (n + 1) [] ik T hT d a key hden hrunA
    · simp only [hyes, if_true]; exact hU2
    · exact hV2of _ _ hU2

theorem rt_scope_inl {x : Ext} {f : Nat} {ik : Bool} {disc : String} {t : STy}
    (h : RTInl (srun x f) x ik disc t) : RTInl (srun x (f + 1)) x ik disc (.scope t) := by
  intro mIn s d key hU hld hden
  simp only [srun_scope] at hU ⊢
  obtain ⟨hV, wl, s', hS, ha, hU2, hE, hS2, hV2⟩ := h mIn s d key hU hld hden
  exact ⟨hV, wl, s', hS, ha, hU2, .scope hE, hS2, hV2⟩

/-- the end-to-end round trip of a one-of whose discriminator IS inlined, given `RTInl` of its
    members: when the member dropped its zero discriminator (treat-empty-as-default), the one-of
    appends the key of the member found by the struct's type, and the completed map leads back to
    the same member and an identified struct -/
theorem rt_oneOfS_inl {rec : SRec} (x : Ext) (ik : Bool) (disc : String) {members : List (Key × STy)}
    (hrt : ∀ m, m ∈ members → RTInl rec x ik disc m.2)
    (hUt : ∀ m, m ∈ members → ∀ v r, rec .U m.2 v = .ok r → svTy? r = some (reflTy m.2))
    (hnd : (members.map fun m => reflTy m.2).Nodup) (v s : SV)
    (h : runOneOfS rec x .U ik disc true members v = .ok s) :
    runOneOfS rec x .V ik disc true members s = .ok (.val unitV) ∧
    ∃ w s', runOneOfS rec x .S ik disc true members s = .ok (.val w) ∧
      runOneOfS rec x .U ik disc true members (.val w) = .ok s' ∧
      Eqv (.oneOf ik disc true members) s s' ∧
      runOneOfS rec x .S ik disc true members s' = .ok (.val w) ∧
      runOneOfS rec x .V ik disc true members s' = .ok (.val unitV) := by
  simp only [runOneOfS] at h
  obtain ⟨sh, kvs, dk, d, key, m, mt, mr, _, _, hfind0, hkey, hm, hmt, hmr, hout⟩ := oneOfUnserS_routes h
  simp only [if_true] at hmr
  have hmm : (key, mt) ∈ members := lookupK_mem hmt
  have hty := hUt _ hmm _ _ hmr
  rw [oneOfOut_struct hty] at hout
  cases hout
  have hld : lookupS disc m = some d := find_lookup_disc disc kvs m dk d hm hfind0
  obtain ⟨hV, wl, s', hS0, hda, hU2, hE, hS2, hV2⟩ := hrt _ hmm m _ d key hmr hld hkey
  have hty' := hUt _ hmm _ _ hU2
  have hfm := findMember_unique hnd hmm hty
  have hfm' := findMember_unique hnd hmm hty'
  have hSout : ∀ (z : SV), rec .S mt z = .ok (.val (toStrAny wl)) → findMember members z = some (key, mt) →
      runOneOfS rec x .S ik disc true members z =
        .ok (.val (toStrAny (if hasKey disc wl then wl else wl ++ [(disc, key.toV)]))) := by
    intro z hz hfz
    simp only [runOneOfS, hfz, hz, Out.bind, toStrAny, MapShape.strAny, strKeys_toStrAny]
  refine ⟨?_, _, s', hSout _ hS0 hfm, ?_, .oneOf hmm hE, hSout _ hS2 hfm', ?_⟩
  · simp [runOneOfS, hfm, hV, Out.addSeg, Out.bind]
  · simp only [runOneOfS]
    have hkey' := (key_toV_typed x ik d key hkey).2
    have hfind : ((if hasKey disc wl then wl else wl ++ [(disc, key.toV)]).map
        fun (kv : String × V) => (V.str kv.1, kv.2)).find? (isDiscKey disc) = some (V.str disc, key.toV) := by
      cases hk : hasKey disc wl with
      | false => simp only [Bool.false_eq_true, if_false]; exact find_disc_append disc key.toV wl hk
      | true =>
        simp only [if_true]
        obtain ⟨a, ha⟩ := Option.isSome_iff_exists.mp hk
        have := hda a ha
        subst this
        exact lookup_find_disc disc _ wl ha
    rw [oneOfUnserS_accepts (s := .val (toStrAny (if hasKey disc wl then wl else wl ++ [(disc, key.toV)]))) (sh := .strAny)
      (kvs := (if hasKey disc wl then wl else wl ++ [(disc, key.toV)]).map fun (kv : String × V) => (V.str kv.1, kv.2))
      (by simp [toV_val, toStrAny]) (Or.inr rfl) hfind hkey' (strKeys_toStrAny _) hmt (by simp only [if_true]; exact hU2)]
    exact oneOfOut_struct hty'
  · simp [runOneOfS, hfm', hV2, Out.addSeg, Out.bind]

end SM
end Arca
