import ArcaModel.Lemmas.StructMapTotal
import ArcaModel.Props.C01
/-
  Lemmas for the end-to-end round trip of struct-mapped trees (`Props/StructRoundTrip.lean`).
-/
namespace Arca
namespace SM
open Out

/-! ### Unserialize never returns the nil interface -/

theorem bind_ok_nn {α} {a : Out α} {f : α → Out V} {r : V} (h : a.bind f = .ok r)
    (hf : ∀ y, f y = .ok r → r ≠ .nil) : r ≠ .nil := by
  obtain ⟨y, _, hy⟩ := Out.bind_eq_ok h
  exact hf y hy

theorem ok_nn {a r : V} (h : (Out.ok a : Out V) = .ok r) (ha : a ≠ .nil) : r ≠ .nil := by
  cases h; exact ha

theorem anyConvert_ne_nil : ∀ (fuel : Nat) (v r : V), anyConvert fuel v = .ok r → r ≠ .nil
  | 0, _, _, h => by simp [anyConvert] at h
  | n + 1, v, r, h => by
    unfold anyConvert at h
    split at h
    · split at h
      · exact ok_nn h (by simp)
      · split at h
        · simp [Out.plain] at h
        · exact bind_ok_nn h (fun _ hy => ok_nn hy (by simp))
    · split at h
      · exact ok_nn h (by simp)
      · split at h
        · simp [Out.plain] at h
        · exact ok_nn h (by simp)
    · exact ok_nn h (by simp)
    · exact ok_nn h (by simp)
    · exact bind_ok_nn h (fun _ hy => ok_nn hy (by simp))
    · exact bind_ok_nn h (fun _ hy => ok_nn hy (by simp))
    · refine bind_ok_nn h (fun _ hy => ?_)
      split at hy
      · simp [Out.cerr] at hy
      · exact ok_nn hy (by simp)
    · simp [Out.cerr] at h

theorem toStrAny_ne_nil (m : List (String × V)) : toStrAny m ≠ .nil := by simp [toStrAny]

theorem run_U_ne_nil (x : Ext) : ∀ (fuel : Nat) (env : Env) (t : Ty) (v r : V),
    run x fuel .U env t v = .ok r → r ≠ .nil
  | 0, _, _, _, _, h => by simp [run] at h
  | n + 1, env, t, v, r, h => by
    have ih := run_U_ne_nil x n
    cases t with
    | int a b u =>
      simp only [run, runInt] at h
      exact bind_ok_nn h (fun _ h2 => bind_ok_nn h2 (fun _ h3 => ok_nn h3 (by simp)))
    | float a b u =>
      simp only [run, runFloat] at h
      exact bind_ok_nn h (fun _ h2 => bind_ok_nn h2 (fun _ h3 => ok_nn h3 (by simp)))
    | str a b p =>
      simp only [run, runStr] at h
      exact bind_ok_nn h (fun _ h2 => bind_ok_nn h2 (fun _ h3 => ok_nn h3 (by simp)))
    | bool =>
      simp only [run, runBool] at h
      exact bind_ok_nn h (fun _ h2 => ok_nn h2 (by simp))
    | pattern =>
      simp only [run, runPattern] at h
      refine bind_ok_nn h (fun _ h2 => ?_)
      split at h2
      · exact ok_nn h2 (by simp)
      · simp [Out.cerr] at h2
    | enumInt vs u =>
      simp only [run, runEnumInt] at h
      refine bind_ok_nn h (fun _ h2 => ?_)
      split at h2
      · exact ok_nn h2 (by simp)
      · simp [Out.cerr] at h2
    | enumStr vs =>
      simp only [run, runEnumStr] at h
      refine bind_ok_nn h (fun _ h2 => ?_)
      split at h2
      · exact ok_nn h2 (by simp)
      · simp [Out.cerr] at h2
    | list item a b =>
      simp only [run, runList] at h
      split at h
      · simp [Out.cerr] at h
      · exact bind_ok_nn h (fun _ h2 => bind_ok_nn h2 (fun _ h3 => ok_nn h3 (by simp)))
    | map k vt a b =>
      simp only [run, runMap] at h
      split at h
      · simp [Out.cerr] at h
      · refine bind_ok_nn h (fun _ h2 => bind_ok_nn h2 (fun _ h3 => ?_))
        split at h3
        · simp [Out.cerr] at h3
        · exact ok_nn h3 (by simp)
    | obj id props =>
      simp only [run, runObj] at h
      exact bind_ok_nn h (fun _ h2 => bind_ok_nn h2 (fun _ h3 => ok_nn h3 (toStrAny_ne_nil _)))
    | oneOf ik d inl ms =>
      simp only [run, runOneOf, oneOfUnser] at h
      split at h
      · simp [Out.plain] at h
      · split at h
        · simp [Out.cerr] at h
        · split at h
          · simp [Out.cerr] at h
          · split at h
            · simp [Out.cerr] at h
            · refine bind_ok_nn h (fun _ h2 => ?_)
              split at h2
              · simp [Out.cerr] at h2
              · split at h2
                · simp [Out.cerr] at h2
                · obtain ⟨y, hy, h3⟩ := Out.bind_eq_ok h2
                  split at h3
                  · split at h3
                    · exact ok_nn h3 (toStrAny_ne_nil _)
                    · simp [Out.cerr] at h3
                  · exact ok_nn h3 (ih _ _ _ _ hy)
    | ref id =>
      simp only [run] at h
      split at h
      · cases h
      · exact ih _ _ _ _ h
    | scope objs root =>
      simp only [run] at h
      split at h
      · cases h
      · exact ih _ _ _ _ h
    | any =>
      simp only [run, runAny] at h
      exact anyConvert_ne_nil _ _ _ h

/-! ### values that `srun U` returns are shaped like their schema's reflected type -/

theorem srun_U_shaped (x : Ext) : ∀ (fuel : Nat) (t : STy) (v s : SV),
    srun x fuel .U t v = .ok s → shaped (reflTy t) s = true
  | 0, _, _, _, h => by simp [srun] at h
  | n + 1, t, v, s, h => by
    cases t with
    | leaf t =>
      simp only [srun, runLeaf] at h
      split at h
      · simp [Out.cerr] at h
      · rename_i v0 _
        cases hr : run x n SOp.U.toOp [] t v0 with
        | ok r =>
          simp only [hr, Out.ok.injEq] at h
          subst h
          have := run_U_ne_nil x n [] t v0 r hr
          cases r <;> simp_all [shaped, SV.isNilPtr, SV.isNilIface]
        | err e => simp [hr] at h
        | panic => simp [hr] at h
        | fuel => simp [hr] at h
    | list item a b =>
      simp only [srun, runListS] at h
      split at h
      · simp [Out.cerr] at h
      · obtain ⟨_, _, h⟩ := Out.bind_eq_ok h
        obtain ⟨_, _, h⟩ := Out.bind_eq_ok h
        cases h
        simp [shaped, SV.isNilPtr, SV.isNilIface]
    | map k vt a b =>
      simp only [srun, runMapS] at h
      split at h
      · simp [Out.cerr] at h
      · obtain ⟨_, _, h⟩ := Out.bind_eq_ok h
        obtain ⟨_, _, h⟩ := Out.bind_eq_ok h
        split at h
        · simp [Out.cerr] at h
        · cases h
          simp [shaped, SV.isNilPtr, SV.isNilIface]
    | scope t =>
      simp only [srun] at h
      exact srun_U_shaped x n t v s h
    | obj id st ptrT props =>
      simp only [srun, runObjS] at h
      obtain ⟨_, _, h⟩ := Out.bind_eq_ok h
      obtain ⟨_, _, h⟩ := Out.bind_eq_ok h
      obtain ⟨_, _, h⟩ := Out.bind_eq_ok h
      cases h
      cases ptrT <;> simp [shaped, wrapT, SV.isNilPtr, SV.isNilIface]
    | oneOf ik d inl members =>
      simp only [srun, runOneOfS, oneOfUnserS] at h
      split at h
      · simp [Out.cerr] at h
      · simp [Out.plain] at h
      · split at h
        · simp [Out.cerr] at h
        · split at h
          · simp [Out.cerr] at h
          · split at h
            · simp [Out.cerr] at h
            · obtain ⟨key, _, h⟩ := Out.bind_eq_ok h
              split at h
              · simp [Out.cerr] at h
              · split at h
                · simp [Out.cerr] at h
                · rename_i mt _
                  obtain ⟨r, hr, h⟩ := Out.bind_eq_ok h
                  have hsr := srun_U_shaped x n mt _ r hr
                  split at h
                  · split at h
                    · cases h; simp [shaped, toStrAny, SV.isNilPtr, SV.isNilIface]
                    · simp [Out.cerr] at h
                  · cases h
                    simpa [shaped] using hsr

/-! ### the hypotheses of the end-to-end round trip -/

/-- a map-backed type accepts the zero value `z` of a field and round-trips it to itself, whatever
    the externals: bounds that include 0, no pattern, enumerations that list the zero value -/
def zeroFine : Ty → V → Bool
  | .int min max _, .int .int64 0 => (checkInt min max 0).isOk
  | .float min max _, .float .f64 0 => (checkFloat min max 0).isOk
  | .str min max none, .str "" => (checkLen min max 0).isOk
  | .bool, .bool false => true
  | .enumInt vals _, .int .int64 0 => vals.contains 0
  | .enumStr vals, .str "" => vals.contains ""
  | _, _ => false

def hasRules (p : PropT) : Bool := !p.requiredIf.isEmpty || !p.requiredIfNot.isEmpty || !p.conflicts.isEmpty

/-- does the presence of `k` matter to some presence rule (it has rules of its own, or a rule of
    some property names it)? -/
def ruleRelevant (rules : List (String × PropT)) (k : String) : Bool :=
  rules.any fun ip => (ip.1 == k && hasRules ip.2) || ip.2.requiredIf.contains k ||
    ip.2.requiredIfNot.contains k || ip.2.conflicts.contains k

/-- a field whose zero value means "absent" to `getFieldReflection` -/
def ptrLike (f : Field) : Bool := f.ty.isPtr || f.ty == .iface

def plainLeaf : STy → Bool
  | .leaf (.obj _ _) => false
  | .leaf _ => true
  | _ => false

/-- One property of a round-trip-faithful pair:
    * treat-empty-as-default only on an optional scalar / container leaf without default (a default
      would replace the dropped zero value on the way back; a required one would be missing);
    * a property whose presence matters to a rule sits on a pointer or interface field and is not
      treat-empty-as-default (otherwise its presence changes through the struct);
    * an optional property without default on a non-pointer, non-interface field either is
      treat-empty-as-default, or is disabled (since f26fa04 its zero value reads as unset), or has a
      type that ACCEPTS THE FIELD'S ZERO VALUE (`zeroFine`) - the hypothesis that excludes the
      recorded finding `struct-optional-bounded-zero-value`. -/
def rtPropB (st : StructTy) (props : List (String × SProp)) (kp : String × SProp) : Bool :=
  match fieldFor st kp.1 with
  | none => false
  | some f =>
    (!kp.2.emptyIsDefault ||
      (plainLeaf kp.2.ty && kp.2.rules.default.isNone && !kp.2.rules.required)) &&
    (!ruleRelevant (rulesOf props) kp.1 || (ptrLike f && !kp.2.emptyIsDefault)) &&
    (ptrLike f || kp.2.emptyIsDefault || kp.2.disabled || kp.2.rules.required || kp.2.rules.default.isSome ||
      (match kp.2.ty, f.zero with
       | .leaf t, .val z => zeroFine t z
       | _, _ => false))

def rtObjB (st : StructTy) (props : List (String × SProp)) : Bool :=
  wfObjB st props && exactObjB st props && props.all (rtPropB st props)

/-- fuelled executable check of the round-trip hypotheses (`RTOK`): leaves satisfy C01's `WF1`,
    struct-mapped objects are well-formed, exactly typed, round-trip-faithful pairs; the key types of
    maps of struct-mapped objects satisfy `WF1`. -/
def rtOKB : Nat → STy → Bool
  | 0, _ => false
  | n + 1, .leaf t => wf1B (n + 1) [] t
  | n + 1, .list item _ _ => rtOKB n item
  | n + 1, .map k v _ _ => wf1B (n + 1) [] k && rtOKB n v
  | n + 1, .scope t => rtOKB n t
  | n + 1, .obj _ st _ props => rtObjB st props && props.all (fun kp => rtOKB n kp.2.ty)
  | n + 1, .oneOf ik d inl members =>
    -- a one-of over struct-mapped members of pairwise distinct struct types, consistent about the
    -- discriminator (separate: no member declares it; inlined: every member declares it as a leaf
    -- of the key kind)
    members.all (fun m => rtOKB n m.2 && objLikeS n m.2 && discOK n ik d inl m.2) &&
    decide (members.map (·.1)).Nodup && decide (members.map fun m => reflTy m.2).Nodup

mutual
/-- the identification the round trip makes, and nothing else: in the field of a
    treat-empty-as-default property a value that reads as unset (the zero value, a pointer to it, a
    negative zero) is identified with absence (the field's zero value, `nil` for a pointer field);
    every other field is equal, or related recursively through a sub-object -/
inductive Eqv : STy → SV → SV → Prop
  | refl {t s} : Eqv t s s
  | scope {t s s'} : Eqv t s s' → Eqv (.scope t) s s'
  | list {item a b xs xs'} : EqvList item xs xs' → Eqv (.list item a b) (.slice xs) (.slice xs')
  | map {k vt a b sh kvs kvs'} : EqvKVs vt kvs kvs' → Eqv (.map k vt a b) (.map sh kvs) (.map sh kvs')
  | oneOf {ik d inl members km s s'} : km ∈ members → Eqv km.2 s s' → Eqv (.oneOf ik d inl members) s s'
  | obj {id st ptrT props fs fs'} :
      keysOf fs = st.fields.map (·.name) → keysOf fs = keysOf fs' →
      (∀ n, (∀ kp, kp ∈ props → fieldName? st kp.1 ≠ some n) → lookupS n fs = lookupS n fs') →
      (∀ kp, kp ∈ props → ∀ f fv fv', fieldFor st kp.1 = some f → lookupS f.name fs = some fv →
        lookupS f.name fs' = some fv' → FieldEqv kp.2 f fv fv') →
      Eqv (.obj id st ptrT props) (wrapT ptrT st.name fs) (wrapT ptrT st.name fs')
/-- two values of the field `f` of property `p` -/
inductive FieldEqv : SProp → Field → SV → SV → Prop
  /-- THE identification: what reads as unset from a treat-empty-as-default property ~ absence -/
  | absent {p f fv} : p.emptyIsDefault = true → readField f (reflTy p.ty) p.disabled true fv = .ok none →
      FieldEqv p f fv f.zero
  | same {p f fv} : FieldEqv p f fv fv
  | val {p f x x'} : Eqv p.ty x x' → FieldEqv p f x x'
  | ptr {p f x x'} : Eqv p.ty x x' → FieldEqv p f (.ptr x) (.ptr x')
/-- element by element -/
inductive EqvList : STy → List SV → List SV → Prop
  | nil {t} : EqvList t [] []
  | cons {t x x' xs xs'} : Eqv t x x' → EqvList t xs xs' → EqvList t (x :: xs) (x' :: xs')
/-- entry by entry, under identical keys -/
inductive EqvKVs : STy → List (V × SV) → List (V × SV) → Prop
  | nil {t} : EqvKVs t [] []
  | cons {t k x x' r r'} : Eqv t x x' → EqvKVs t r r' → EqvKVs t ((k, x) :: r) ((k, x') :: r')
end

/-! ### generic lemmas -/

def okGet {β} [Inhabited β] : Out β → β
  | .ok b => b
  | _ => default

theorem okGet_eq {β} [Inhabited β] {o : Out β} {r : β} (h : o = .ok r) : okGet o = r := by subst h; rfl

theorem forSVS_eq_map {α β} [Inhabited β] (f : String → α → Out β) : ∀ (l : List (String × α)),
    (∀ kv, kv ∈ l → ∃ r, f kv.1 kv.2 = .ok r) →
      forSVS f l = .ok (l.map fun kv => (kv.1, okGet (f kv.1 kv.2)))
  | [], _ => rfl
  | (k, v) :: rest, h => by
    obtain ⟨r, hr⟩ := h (k, v) (List.mem_cons_self ..)
    simp only [] at hr
    have ih := forSVS_eq_map f rest (fun kv hkv => h kv (List.mem_cons_of_mem _ hkv))
    simp only [forSVS, hr, ih, List.map_cons, okGet]

theorem lookupS_map_val {α β} (g : String × α → β) : ∀ (l : List (String × α)) (k : String),
    lookupS k (l.map fun kv => (kv.1, g kv)) = (lookupS k l).map (fun v => g (k, v))
  | [], _ => rfl
  | (k', v) :: rest, k => by
    simp only [List.map_cons, lookupS_cons]
    by_cases h : k = k'
    · subst h; simp
    · simp only [h, if_false]; exact lookupS_map_val g rest k

theorem keysOf_map_val {α β} (g : String × α → β) (l : List (String × α)) :
    keysOf (l.map fun kv => (kv.1, g kv)) = keysOf l := by
  simp [keysOf, List.map_map, Function.comp_def]

theorem hasKey_congr_keys {α β} {a : List (String × α)} {b : List (String × β)} (h : keysOf a = keysOf b) (k : String) :
    hasKey k a = hasKey k b := by
  have h1 := hasKey_iff_mem k a
  have h2 := hasKey_iff_mem k b
  rw [h] at h1
  cases ha : hasKey k a <;> cases hb : hasKey k b <;> simp_all

theorem unwrapT_wrapT (ptrT : Bool) (id : String) (fs : List (String × SV)) :
    unwrapT ptrT id (wrapT ptrT id fs) = .ok fs := by
  cases ptrT <;> simp [unwrapT, wrapT]

theorem rawEntries_toStrAny (l : List (String × V)) :
    (SV.val (toStrAny l)).rawEntries? = some (l.map fun (kv : String × V) => (V.str kv.1, kv.2)) := by
  simp [SV.rawEntries?, SV.toV?, toStrAny, V.mapEntries?]

/-! ### presence rules are stable through the struct -/

theorem ruleRelevant_of_self {rules : List (String × PropT)} {ip : String × PropT} (h : ip ∈ rules)
    (hr : hasRules ip.2 = true) : ruleRelevant rules ip.1 = true := by
  unfold ruleRelevant
  exact List.any_eq_true.mpr ⟨ip, h, by simp [hr]⟩

theorem ruleRelevant_of_named {rules : List (String × PropT)} {ip : String × PropT} (h : ip ∈ rules) {k : String}
    (hk : k ∈ ip.2.requiredIf ∨ k ∈ ip.2.requiredIfNot ∨ k ∈ ip.2.conflicts) : ruleRelevant rules k = true := by
  unfold ruleRelevant
  refine List.any_eq_true.mpr ⟨ip, h, ?_⟩
  rcases hk with hk | hk | hk <;> simp [hk]

/-- two set-ness functions that agree on every key that matters to a rule, the second one at least
    as set on required properties, give the same acceptance -/
theorem interdeps_stable (rules : List (String × PropT)) (f g : String → Bool)
    (hrel : ∀ k, ruleRelevant rules k = true → f k = g k)
    (hreq : ∀ ip, ip ∈ rules → ip.2.required = true → f ip.1 = true → g ip.1 = true)
    (h : interdeps rules f = .ok ()) : interdeps rules g = .ok () := by
  rw [C03_rules_iff] at h ⊢
  intro ip hip
  have hf := h ip hip
  by_cases hr : hasRules ip.2 = true
  · -- every key the rule looks at is relevant
    have h1 : f ip.1 = g ip.1 := hrel _ (ruleRelevant_of_self hip hr)
    unfold RuleHolds at hf ⊢
    rw [← h1]
    split
    · rename_i hs
      simp only [hs, if_true] at hf
      intro c hc
      rw [← hrel c (ruleRelevant_of_named hip (Or.inr (Or.inr hc)))]
      exact hf c hc
    · rename_i hs
      simp only [hs, if_false] at hf
      refine ⟨hf.1, fun r hr => ?_, fun hne => ?_⟩
      · rw [← hrel r (ruleRelevant_of_named hip (Or.inl hr))]; exact hf.2.1 r hr
      · obtain ⟨r, hr1, hr2⟩ := hf.2.2 hne
        exact ⟨r, hr1, by rw [← hrel r (ruleRelevant_of_named hip (Or.inr (Or.inl hr1)))]; exact hr2⟩
  · have hnr : ip.2.requiredIf = [] ∧ ip.2.requiredIfNot = [] ∧ ip.2.conflicts = [] := by
      simp only [hasRules, Bool.or_eq_true, Bool.not_eq_true', not_or, Bool.not_eq_false, List.isEmpty_iff] at hr
      exact ⟨hr.1.1, hr.1.2, hr.2⟩
    unfold RuleHolds at hf ⊢
    rw [hnr.1, hnr.2.1, hnr.2.2] at hf ⊢
    split
    · intro c hc; cases hc
    · rename_i hs
      refine ⟨?_, fun r hr => (by cases hr), fun hne => absurd rfl hne⟩
      cases hreqd : ip.2.required with
      | false => rfl
      | true =>
        exfalso
        by_cases hfs : f ip.1 = true
        · exact hs (hreq ip hip hreqd hfs)
        · simp only [hfs, Bool.false_eq_true, if_false] at hf
          rw [hreqd] at hf
          exact absurd hf.1 (by simp)

/-! ### a type that accepts the zero value -/

theorem isOk_unit {o : Out Unit} (h : o.isOk = true) : o = .ok () := by
  cases o <;> simp_all [Out.isOk]

theorem zeroFine_run (x : Ext) (n : Nat) {t : Ty} {z : V} (h : zeroFine t z = true) :
    run x (n + 1) .V [] t z = done ∧ run x (n + 1) .S [] t z = .ok z ∧ run x (n + 1) .U [] t z = .ok z := by
  unfold zeroFine at h
  split at h
  · have hc := isOk_unit h
    simp [run, runInt, asInt, V.under, wrapInt64, intInputMapper, inInt64, minInt64, maxInt64, rewrapC, hc, Out.bind, done]
  · have hc := isOk_unit h
    simp [run, runFloat, asFloat, V.under, floatInputMapper, rewrapC, hc, Out.bind, done]
  · rename_i min max
    have hc := isOk_unit h
    have hs : checkStr x min max none "" = .ok () := by
      simp only [checkStr]
      have : ("" : String).utf8ByteSize = 0 := by decide
      rw [this, hc]
    simp [run, runStr, asString, V.under, stringInputMapper, rewrapC, hs, Out.bind, done]
  · simp [run, runBool, asBool, V.under, boolInputMapper, Out.bind, done]
  · have h' : (0 : Int) ∈ _ := List.contains_iff_mem.mp h
    simp [run, runEnumInt, asInt, V.under, wrapInt64, intInputMapper, inInt64, minInt64, maxInt64, rewrapC, h', Out.bind, done]
  · have h' : "" ∈ _ := List.contains_iff_mem.mp h
    simp [run, runEnumStr, asString, V.under, stringInputMapper, rewrapC, h', Out.bind, done]
  · cases h

theorem zeroFine_srun (x : Ext) (n : Nat) {t : Ty} {z : V} (h : zeroFine t z = true) :
    srun x (n + 2) .V (.leaf t) (.val z) = .ok (.val unitV) ∧
    srun x (n + 2) .S (.leaf t) (.val z) = .ok (.val z) ∧
    srun x (n + 2) .U (.leaf t) (.val z) = .ok (.val z) := by
  obtain ⟨h1, h2, h3⟩ := zeroFine_run x n h
  simp only [done] at h1
  simp [srun, runLeaf, SV.toV?, SOp.toOp, h1, h2, h3]

/-! ### defaults of absent properties -/

/-- what `convertData` adds for one absent property; `skip`: the property is mapped to a pointer or
    interface field (`fieldSkips`), so the defaults of a sub-object are not expanded -/
def dflStep (skip : Bool) (fuel : Nat) (p : SProp) : Out (Option V) :=
  match p.rules.defaultV with
  | some none => .panic
  | d =>
    if skip then .ok (match d with | some (some v) => some v | _ => none)
    else subDefS fuel p.ty (match d with | some (some v) => some v | _ => none)

theorem applyDefaultsS_cons (st : StructTy) (fuel : Nat) (k : String) (p : SProp) (rest : List (String × SProp)) (m : List (String × V)) :
    applyDefaultsS st fuel ((k, p) :: rest) m =
      if hasKey k m then applyDefaultsS st fuel rest m else
        (dflStep (fieldSkips st k) fuel p).bind fun o =>
          applyDefaultsS st fuel rest (match o with | some v => m ++ [(k, v)] | none => m) := by
  simp only [applyDefaultsS, dflStep]
  split
  · rfl
  · split
    · rename_i hd; simp [hd, Out.bind]
    · rename_i d hd
      cases hp : p.rules.defaultV with
      | none => rfl
      | some o =>
        cases o with
        | none => exact absurd hp (fun e => hd e)
        | some v => rfl

theorem hasKey_append_left {α} {k : String} {m : List (String × α)} (h : hasKey k m = true) (tl : List (String × α)) :
    hasKey k (m ++ tl) = true := by
  rw [hasKey_append]; simp [h]

theorem applyDefaultsS_extends (st : StructTy) (fuel : Nat) : ∀ (ps : List (String × SProp)) (m m0 : List (String × V)),
    applyDefaultsS st fuel ps m = .ok m0 → ∀ k, hasKey k m = true → hasKey k m0 = true
  | [], m, m0, h, k, hk => by simp only [applyDefaultsS, Out.ok.injEq] at h; subst h; exact hk
  | (k', p) :: rest, m, m0, h, k, hk => by
    rw [applyDefaultsS_cons] at h
    split at h
    · exact applyDefaultsS_extends st fuel rest m m0 h k hk
    · obtain ⟨o, _, h⟩ := Out.bind_eq_ok h
      refine applyDefaultsS_extends st fuel rest _ m0 h k ?_
      cases o with
      | none => exact hk
      | some v => exact hasKey_append_left hk _

/-- a property that is absent after the defaults were applied had nothing to add -/
theorem applyDefaultsS_absent (st : StructTy) (fuel : Nat) : ∀ (ps : List (String × SProp)) (m m0 : List (String × V)),
    applyDefaultsS st fuel ps m = .ok m0 → ∀ kp, kp ∈ ps → hasKey kp.1 m0 = false → dflStep (fieldSkips st kp.1) fuel kp.2 = .ok none
  | [], _, _, _, kp, hkp, _ => by cases hkp
  | (k', p) :: rest, m, m0, h, kp, hkp, hno => by
    rw [applyDefaultsS_cons] at h
    split at h
    · rename_i hk
      rcases List.mem_cons.mp hkp with hkp | hkp
      · subst hkp
        have := applyDefaultsS_extends st fuel rest m m0 h k' hk
        simp only [] at hno
        rw [this] at hno; cases hno
      · exact applyDefaultsS_absent st fuel rest m m0 h kp hkp hno
    · obtain ⟨o, ho, h⟩ := Out.bind_eq_ok h
      rcases List.mem_cons.mp hkp with hkp | hkp
      · subst hkp
        cases o with
        | none => exact ho
        | some v =>
          have : hasKey k' (m ++ [(k', v)]) = true := by rw [hasKey_append]; simp [hasKey, lookupS]
          have := applyDefaultsS_extends st fuel rest _ m0 h k' this
          simp only [] at hno
          rw [this] at hno; cases hno
      · exact applyDefaultsS_absent st fuel rest _ m0 h kp hkp hno

/-- when every absent property has nothing to add, the map is unchanged -/
theorem applyDefaultsS_noadd (st : StructTy) (fuel : Nat) : ∀ (ps : List (String × SProp)) (m : List (String × V)),
    (∀ kp, kp ∈ ps → hasKey kp.1 m = true ∨ dflStep (fieldSkips st kp.1) fuel kp.2 = .ok none) → applyDefaultsS st fuel ps m = .ok m
  | [], m, _ => rfl
  | (k', p) :: rest, m, h => by
    rw [applyDefaultsS_cons]
    have ih := applyDefaultsS_noadd st fuel rest m (fun kp hkp => h kp (List.mem_cons_of_mem _ hkp))
    split
    · exact ih
    · rename_i hk
      rcases h (k', p) (List.mem_cons_self ..) with h1 | h1
      · exact absurd h1 hk
      · simp only [] at h1
        simp only [h1, Out.bind]
        exact ih

theorem subDefS_some : ∀ (n : Nat) (t : STy) (d : V) (o : Option V), subDefS n t (some d) = .ok o → o.isSome = true
  | 0, _, _, _, h => by simp [subDefS] at h
  | n + 1, t, d, o, h => by
    cases t with
    | leaf t =>
      simp only [subDefS] at h
      cases t <;> simp only [subDefTy] at h
      all_goals first
        | (simp only [Out.ok.injEq] at h; subst h; rfl)
        | (split at h
           · simp only [Out.ok.injEq] at h; subst h; rfl
           · obtain ⟨_, _, h⟩ := Out.bind_eq_ok h
             obtain ⟨_, _, h⟩ := Out.bind_eq_ok h
             simp only [Out.ok.injEq] at h; subst h
             split <;> rfl)
    | obj id st ptrT props =>
      simp only [subDefS] at h
      split at h
      · simp only [Out.ok.injEq] at h; subst h; rfl
      · split at h
        · simp only [Out.ok.injEq] at h; subst h; rfl
        · obtain ⟨_, _, h⟩ := Out.bind_eq_ok h
          obtain ⟨_, _, h⟩ := Out.bind_eq_ok h
          simp only [Out.ok.injEq] at h; subst h
          split <;> rfl
    | list => simp only [subDefS, Out.ok.injEq] at h; subst h; rfl
    | map => simp only [subDefS, Out.ok.injEq] at h; subst h; rfl
    | scope => simp only [subDefS, Out.ok.injEq] at h; subst h; rfl
    | oneOf => simp only [subDefS, Out.ok.injEq] at h; subst h; rfl

/-- a property with a declared default always has something to add -/
theorem dflStep_none_default {skip : Bool} {fuel : Nat} {p : SProp} (h : dflStep skip fuel p = .ok none) : p.rules.default = none := by
  unfold dflStep at h
  cases hd : p.rules.default with
  | none => rfl
  | some d =>
    exfalso
    have hdv : ∃ o, p.rules.defaultV = some o := by
      unfold PropT.defaultV; rw [hd]
      simp only []
      split
      · exact ⟨_, rfl⟩
      · split <;> exact ⟨_, rfl⟩
    obtain ⟨o, ho⟩ := hdv
    rw [ho] at h
    cases o with
    | none => simp at h
    | some v =>
      simp only [] at h
      split at h
      · cases h
      · have := subDefS_some _ _ _ _ h
        cases this

/-- a treat-empty-as-default scalar without default has nothing to add -/
theorem dflStep_plainLeaf {skip : Bool} {n : Nat} {p : SProp} (hl : plainLeaf p.ty = true) (hd : p.rules.default = none) :
    dflStep skip (n + 1) p = .ok none := by
  unfold dflStep
  have : p.rules.defaultV = none := by unfold PropT.defaultV; rw [hd]
  rw [this]
  simp only []
  split
  · rfl
  rename_i hsk
  cases hp : p.ty with
  | leaf t =>
    rw [hp] at hl
    cases t <;> simp [plainLeaf] at hl <;> simp [subDefS, subDefTy]
  | list => rw [hp] at hl; simp [plainLeaf] at hl
  | map => rw [hp] at hl; simp [plainLeaf] at hl
  | scope => rw [hp] at hl; simp [plainLeaf] at hl
  | obj => rw [hp] at hl; simp [plainLeaf] at hl
  | oneOf => rw [hp] at hl; simp [plainLeaf] at hl

/-! ### what `sobjRaw` returns -/

theorem forSVS_mem {α β} {f : String → α → Out β} : ∀ {l : List (String × α)} {l' : List (String × β)},
    forSVS f l = .ok l' → ∀ kv', kv' ∈ l' → ∃ v, (kv'.1, v) ∈ l ∧ f kv'.1 v = .ok kv'.2
  | [], l', h, kv', hkv' => by simp only [forSVS, Out.ok.injEq] at h; subst h; cases hkv'
  | (k, v) :: rest, l', h, kv', hkv' => by
    simp only [forSVS] at h
    cases hx : f k v with
    | ok y =>
      simp only [hx] at h
      cases hr : forSVS f rest with
      | ok ys =>
        simp only [hr, Out.ok.injEq] at h
        subst h
        rcases List.mem_cons.mp hkv' with e | e
        · subst e; exact ⟨v, List.mem_cons_self .., hx⟩
        · obtain ⟨v', hv', hf⟩ := forSVS_mem hr kv' e
          exact ⟨v', List.mem_cons_of_mem _ hv', hf⟩
      | err e => simp [hr] at h
      | panic => simp [hr] at h
      | fuel => simp [hr] at h
    | err e => simp [hx] at h
    | panic => simp [hx] at h
    | fuel => simp [hx] at h

theorem addSeg_eq_ok {α} {o : Out α} {seg : String} {r : α} (h : o.addSeg seg = .ok r) : o = .ok r := by
  cases o <;> simp_all [Out.addSeg]

theorem applyDefaultsS_nodup (st : StructTy) (fuel : Nat) : ∀ (ps : List (String × SProp)) (m m0 : List (String × V)),
    applyDefaultsS st fuel ps m = .ok m0 → (keysOf m).Nodup → (keysOf m0).Nodup
  | [], m, m0, h, hn => by simp only [applyDefaultsS, Out.ok.injEq] at h; subst h; exact hn
  | (k', p) :: rest, m, m0, h, hn => by
    rw [applyDefaultsS_cons] at h
    split at h
    · exact applyDefaultsS_nodup st fuel rest m m0 h hn
    · rename_i hk
      obtain ⟨o, _, h⟩ := Out.bind_eq_ok h
      refine applyDefaultsS_nodup st fuel rest _ m0 h ?_
      cases o with
      | none => exact hn
      | some v =>
        simp only [keysOf, List.map_append, List.map_cons, List.map_nil]
        have hnk : k' ∉ keysOf m := fun hc => hk ((hasKey_iff_mem _ _).mpr hc)
        apply List.nodup_append.mpr
        refine ⟨hn, by simp, ?_⟩
        intro a ha b hb
        simp only [List.mem_singleton] at hb
        subst hb
        intro e; subst e
        exact hnk ha

theorem sobjRaw_facts {rec : SRec} {fuel : Nat} {st : StructTy} {props : List (String × SProp)} {v : SV} {m : List (String × SV)}
    (h : sobjRaw rec fuel st props v = .ok m) :
    (keysOf m).Nodup ∧
    (∀ kv, kv ∈ m → ∃ p v0, lookupS kv.1 props = some p ∧ p.disabled = false ∧ rec .U p.ty v0 = .ok kv.2) ∧
    (∀ kp, kp ∈ props → hasKey kp.1 m = false → dflStep (fieldSkips st kp.1) fuel kp.2 = .ok none) := by
  unfold sobjRaw at h
  split at h
  · split at h
    · rename_i name p
      split at h
      · simp [Out.plain] at h
      · rename_i hdis
        obtain ⟨r, hr, h⟩ := Out.bind_eq_ok h
        simp only [Out.ok.injEq] at h
        subst h
        refine ⟨by simp [keysOf], ?_, ?_⟩
        · intro kv hkv
          simp only [List.mem_singleton] at hkv
          subst hkv
          exact ⟨p, v, by simp [lookupS], by simpa using hdis, rewrapP_eq_ok.mp hr⟩
        · intro kp hkp hno
          simp only [List.mem_singleton] at hkp
          subst hkp
          simp [hasKey, lookupS] at hno
    · simp [Out.cerr] at h
  · split at h
    · simp [Out.cerr] at h
    · rename_i skvs _
      split at h
      · simp [Out.cerr] at h
      · rename_i hnd
        split at h
        · simp [Out.cerr] at h
        · obtain ⟨m0, hm0, h⟩ := Out.bind_eq_ok h
          have hkeys : keysOf m = keysOf m0 := forSVS_keys h
          have hnd' : (keysOf skvs).Nodup := by simpa [keysOf] using hnd
          refine ⟨by rw [hkeys]; exact applyDefaultsS_nodup st fuel props skvs m0 hm0 hnd', ?_, ?_⟩
          · intro kv hkv
            obtain ⟨d, _, hf⟩ := forSVS_mem h kv hkv
            unfold entryUS at hf
            split at hf
            · simp [Out.cerr] at hf
            · rename_i p hp
              split at hf
              · simp [Out.cerrAt] at hf
              · rename_i hdis
                exact ⟨p, .val d, hp, by simpa using hdis, addSeg_eq_ok hf⟩
          · intro kp hkp hno
            rw [hasKey_congr_keys hkeys] at hno
            exact applyDefaultsS_absent st fuel props skvs m0 hm0 kp hkp hno

/-! ### one struct-mapped object -/

theorem rtPropB_spec {st : StructTy} {props : List (String × SProp)} {kp : String × SProp}
    (h : rtPropB st props kp = true) :
    ∃ f, fieldFor st kp.1 = some f ∧
      (kp.2.emptyIsDefault = true → plainLeaf kp.2.ty = true ∧ kp.2.rules.default = none ∧ kp.2.rules.required = false) ∧
      (ruleRelevant (rulesOf props) kp.1 = true → ptrLike f = true ∧ kp.2.emptyIsDefault = false) ∧
      (ptrLike f = false → kp.2.emptyIsDefault = false → kp.2.disabled = false → kp.2.rules.required = false →
        kp.2.rules.default = none → ∃ t z, kp.2.ty = .leaf t ∧ f.zero = .val z ∧ zeroFine t z = true) := by
  unfold rtPropB at h
  split at h
  · cases h
  · rename_i f hf
    simp only [Bool.and_eq_true, Bool.or_eq_true, Bool.not_eq_true', Option.isNone_iff_eq_none] at h
    obtain ⟨⟨h1, h2⟩, h3⟩ := h
    refine ⟨f, hf, ?_, ?_, ?_⟩
    · intro he
      rcases h1 with h1 | h1
      · rw [he] at h1; cases h1
      · exact ⟨h1.1.1, h1.1.2, h1.2⟩
    · intro hr
      rcases h2 with h2 | h2
      · rw [hr] at h2; cases h2
      · exact h2
    · intro hp he hdis hreq hd
      rcases h3 with ((((h3 | h3) | h3) | h3) | h3) | h3
      · rw [hp] at h3; cases h3
      · rw [he] at h3; cases h3
      · rw [hdis] at h3; cases h3
      · rw [hreq] at h3; cases h3
      · rw [hd] at h3; cases h3
      · split at h3
        · rename_i t z hty hz
          exact ⟨t, z, hty, hz, h3⟩
        · cases h3

theorem forSVS_map_pointwise {α β γ} {f : String → β → Out γ} {g1 : String × α → β} {g2 : String × α → γ} :
    ∀ (l : List (String × α)), (∀ kv, kv ∈ l → f kv.1 (g1 kv) = .ok (g2 kv)) →
      forSVS f (l.map fun kv => (kv.1, g1 kv)) = .ok (l.map fun kv => (kv.1, g2 kv))
  | [], _ => rfl
  | (k, v) :: rest, h => by
    have h1 := h (k, v) (List.mem_cons_self ..)
    have ih := forSVS_map_pointwise rest (fun kv hkv => h kv (List.mem_cons_of_mem _ hkv))
    simp only [] at h1
    simp only [List.map_cons, forSVS, h1, ih]

theorem forSVS_pointwise {α γ} {f : String → α → Out γ} {g2 : String × α → γ} (l : List (String × α))
    (h : ∀ kv, kv ∈ l → f kv.1 kv.2 = .ok (g2 kv)) : forSVS f l = .ok (l.map fun kv => (kv.1, g2 kv)) := by
  have := forSVS_map_pointwise (f := f) (g1 := fun kv => kv.2) (g2 := g2) l h
  simpa using this

/-- the entries of the map read back: a kept value of the converted map, or the zero value of a
    non-pointer field that the input left absent -/
theorem expectedBack_mem {st : StructTy} {props : List (String × SProp)} {m : List (String × SV)} {kv : String × SV}
    (h : kv ∈ expectedBack st props m) :
    ∃ p f, (kv.1, p) ∈ props ∧ fieldFor st kv.1 = some f ∧ readBack f p (lookupS kv.1 m) = some kv.2 := by
  unfold expectedBack at h
  obtain ⟨kp, hkp, hg⟩ := List.mem_filterMap.mp h
  cases hf : fieldFor st kp.1 with
  | none => simp [hf] at hg
  | some f =>
    simp only [hf] at hg
    cases hr : readBack f kp.2 (lookupS kp.1 m) with
    | none => simp [hr] at hg
    | some y =>
      simp only [hr, Option.map_some, Option.some.injEq] at hg
      subst hg
      exact ⟨kp.2, f, hkp, hf, hr⟩

theorem readBack_some {f : Field} {p : SProp} {v y : SV} (h : readBack f p (some v) = some y) :
    y = v ∧ ((p.disabled || p.emptyIsDefault) && reflTy p.ty != .iface && v.isZero) = false := by
  unfold readBack at h
  simp only [] at h
  split at h
  · cases h
  · rename_i hc
    simp only [Option.some.injEq] at h
    exact ⟨h.symm, by simpa using hc⟩

theorem readBack_none_some {f : Field} {p : SProp} {y : SV} (h : readBack f p none = some y) :
    y = f.zero ∧ ptrLike f = false ∧ p.emptyIsDefault = false ∧ p.disabled = false := by
  unfold readBack at h
  simp only [] at h
  split at h
  · cases h
  · rename_i hc
    simp only [Option.some.injEq] at h
    simp only [Bool.or_eq_true, not_or, Bool.not_eq_true] at hc
    refine ⟨h.symm, ?_, hc.2, hc.1.2⟩
    simp [ptrLike, hc.1.1.1, hc.1.1.2]

/-- a supplied value is dropped only from a treat-empty-as-default or disabled property -/
theorem readBack_some_none {f : Field} {p : SProp} {v : SV} (h : readBack f p (some v) = none) :
    p.emptyIsDefault = true ∨ p.disabled = true := by
  unfold readBack at h
  simp only [] at h
  split at h
  · rename_i hc
    simp only [Bool.and_eq_true, Bool.or_eq_true] at hc
    rcases hc.1.1 with h1 | h1
    · exact Or.inr h1
    · exact Or.inl h1
  · cases h

theorem readBack_none_none {f : Field} {p : SProp} (h : readBack f p none = none) :
    ptrLike f = true ∨ p.emptyIsDefault = true ∨ p.disabled = true := by
  unfold readBack at h
  simp only [] at h
  split at h
  · rename_i hc
    simp only [Bool.or_eq_true] at hc
    rcases hc with ((hc | hc) | hc) | hc
    · exact Or.inl (by simp [ptrLike, hc])
    · exact Or.inl (by simp [ptrLike, hc])
    · exact Or.inr (Or.inr hc)
    · exact Or.inr (Or.inl hc)
  · cases h

end SM
end Arca
