import ArcaModel.Lemmas.Termination
import ArcaModel.Lemmas.Traverse
/-
  Inlining references (C14): a simulation argument on the fuelled interpreter `run`.

  `Lim g a` says that the chain of approximations `g 0, g 1, ...` (an operation run with more and
  more fuel) reaches the outcome `a` and keeps it, or that `a` is `fuel` (nothing to show). Every
  schema kind is continuous for `Lim`: if the operations on the sub-schemas of one schema are
  limits of the operations on the sub-schemas of another, so are the operations on the schemas
  themselves - even when the two sides live in different environments.
-/
namespace Arca
open Out

def Lim {α} (g : Nat → Out α) (a : Out α) : Prop := a = .fuel ∨ ∃ m, ∀ k, g (m + k) = a

theorem lim_const {α} (a : Out α) : Lim (fun _ => a) a := Or.inr ⟨0, fun _ => rfl⟩

theorem lim_bind {α β} {g : Nat → Out α} {a : Out α} {f' : Nat → α → Out β} {f : α → Out β}
    (ha : Lim g a) (hf : ∀ x, Lim (fun m => f' m x) (f x)) :
    Lim (fun m => (g m).bind (f' m)) (a.bind f) := by
  rcases ha with h | ⟨m1, h1⟩
  · subst h; exact Or.inl rfl
  · cases a with
    | ok x =>
      rcases hf x with h | ⟨m2, h2⟩
      · exact Or.inl h
      · refine Or.inr ⟨m1 + m2, fun k => ?_⟩
        have e1 : m1 + m2 + k = m1 + (m2 + k) := by omega
        have e2 : m1 + m2 + k = m2 + (m1 + k) := by omega
        show (g (m1 + m2 + k)).bind (f' (m1 + m2 + k)) = f x
        have hg : g (m1 + m2 + k) = .ok x := by rw [e1]; exact h1 _
        rw [hg]
        show f' (m1 + m2 + k) x = f x
        rw [e2]; exact h2 _
    | err e =>
      refine Or.inr ⟨m1, fun k => ?_⟩
      show (g (m1 + k)).bind (f' (m1 + k)) = _
      rw [h1 k]; rfl
    | panic =>
      refine Or.inr ⟨m1, fun k => ?_⟩
      show (g (m1 + k)).bind (f' (m1 + k)) = _
      rw [h1 k]; rfl
    | fuel => exact Or.inl rfl

theorem lim_map {α β} {g : Nat → Out α} {a : Out α} (F : Out α → Out β) (hF : F .fuel = .fuel)
    (ha : Lim g a) : Lim (fun m => F (g m)) (F a) := by
  rcases ha with h | ⟨m1, h1⟩
  · subst h; exact Or.inl hF
  · exact Or.inr ⟨m1, fun k => by show F (g (m1 + k)) = F a; rw [h1 k]⟩

theorem lim_addSeg {α} {g : Nat → Out α} {a : Out α} (s : String) (ha : Lim g a) :
    Lim (fun m => (g m).addSeg s) (a.addSeg s) := lim_map (fun o => o.addSeg s) rfl ha

theorem lim_rewrapC {α} {g : Nat → Out α} {a : Out α} (ha : Lim g a) :
    Lim (fun m => rewrapC (g m)) (rewrapC a) := lim_map rewrapC rfl ha

theorem lim_rewrapP {α} {g : Nat → Out α} {a : Out α} (ha : Lim g a) :
    Lim (fun m => rewrapP (g m)) (rewrapP a) := lim_map rewrapP rfl ha

/-- a chain read one step later has the same limit -/
theorem lim_shift {α} {g g' : Nat → Out α} {a : Out α} (hs : ∀ m, g' (m + 1) = g m) (ha : Lim g a) : Lim g' a := by
  rcases ha with h | ⟨m1, h1⟩
  · exact Or.inl h
  · refine Or.inr ⟨m1 + 1, fun k => ?_⟩
    have : m1 + 1 + k = (m1 + k) + 1 := by omega
    rw [this, hs]; exact h1 k

theorem forIdx_cons_bind (f : Nat → V → Out V) (n : Nat) (x : V) (xs : List V) :
    forIdx f n (x :: xs) = (f n x).bind fun y => (forIdx f (n + 1) xs).bind fun ys => .ok (y :: ys) := by
  simp only [forIdx]
  cases f n x <;> simp only [Out.bind]
  cases forIdx f (n + 1) xs <;> rfl

theorem forKV_cons_bind (f : V → V → Out (V × V)) (k v : V) (rest : List (V × V)) :
    forKV f ((k, v) :: rest) = (f k v).bind fun kv => (forKV f rest).bind fun kvs => .ok (kv :: kvs) := by
  simp only [forKV]
  cases f k v <;> simp only [Out.bind]
  cases forKV f rest <;> rfl

theorem forSV_cons_bind (f : String → V → Out V) (k : String) (v : V) (rest : List (String × V)) :
    forSV f ((k, v) :: rest) = (f k v).bind fun v' => (forSV f rest).bind fun kvs => .ok ((k, v') :: kvs) := by
  simp only [forSV]
  cases f k v <;> simp only [Out.bind]
  cases forSV f rest <;> rfl

theorem lim_forIdx {f' : Nat → Nat → V → Out V} {f : Nat → V → Out V}
    (hf : ∀ i x, Lim (fun m => f' m i x) (f i x)) :
    ∀ (n : Nat) (xs : List V), Lim (fun m => forIdx (f' m) n xs) (forIdx f n xs)
  | _, [] => by simp only [forIdx]; exact lim_const _
  | n, x :: xs => by
    simp only [forIdx_cons_bind]
    exact lim_bind (hf n x) (fun _ => lim_bind (lim_forIdx hf (n + 1) xs) (fun _ => lim_const _))

theorem lim_forKV {f' : Nat → V → V → Out (V × V)} {f : V → V → Out (V × V)}
    (hf : ∀ k v, Lim (fun m => f' m k v) (f k v)) :
    ∀ (kvs : List (V × V)), Lim (fun m => forKV (f' m) kvs) (forKV f kvs)
  | [] => by simp only [forKV]; exact lim_const _
  | (k, v) :: rest => by
    simp only [forKV_cons_bind]
    exact lim_bind (hf k v) (fun _ => lim_bind (lim_forKV hf rest) (fun _ => lim_const _))

theorem lim_forSV {f' : Nat → String → V → Out V} {f : String → V → Out V}
    (hf : ∀ k v, Lim (fun m => f' m k v) (f k v)) :
    ∀ (kvs : List (String × V)), Lim (fun m => forSV (f' m) kvs) (forSV f kvs)
  | [] => by simp only [forSV]; exact lim_const _
  | (k, v) :: rest => by
    simp only [forSV_cons_bind]
    exact lim_bind (hf k v) (fun _ => lim_bind (lim_forSV hf rest) (fun _ => lim_const _))

/-- the operations of `(env', t')`, run with growing fuel by `g`, have the operations `rec` performs
    on `(env, t)` as their limits -/
def LimRec (rec : Rec) (g : Nat → Rec) (env : Env) (t : Ty) (env' : Env) (t' : Ty) : Prop :=
  ∀ op v, Lim (fun m => g m op env' t' v) (rec op env t v)

/-! ### lists and maps -/

theorem lim_runList {rec : Rec} {g : Nat → Rec} {env env' : Env} {item item' : Ty}
    (h : LimRec rec g env item env' item') (op : Op) (a b : Option Int) (v : V) :
    Lim (fun m => runList (g m) op env' item' a b v) (runList rec op env item a b v) := by
  unfold runList
  split
  · exact lim_const _
  · cases op <;> simp only
    · exact lim_bind (lim_const _) (fun _ => lim_bind (lim_forIdx (fun i e => lim_addSeg _ (h _ _)) _ _) (fun _ => lim_const _))
    · exact lim_bind (lim_const _) (fun _ => lim_bind (lim_forIdx (fun i e => lim_addSeg _ (h _ _)) _ _) (fun _ => lim_const _))
    · exact lim_bind (lim_const _) (fun _ => lim_bind (lim_forIdx (fun i e => lim_addSeg _ (h _ _)) _ _)
        (fun _ => lim_bind (lim_forIdx (fun i e => lim_addSeg _ (h _ _)) _ _) (fun _ => lim_const _)))
    · exact lim_bind (lim_forIdx (fun i e => lim_addSeg _ (h _ _)) _ _) (fun _ => lim_const _)

theorem lim_entryKV {rec : Rec} {g : Nat → Rec} {env env' : Env} {kt kt' vt vt' : Ty}
    (hk : LimRec rec g env kt env' kt') (hv : LimRec rec g env vt env' vt') (op : Op) (k e : V) :
    Lim (fun m => entryKV (g m) op env' kt' vt' k e) (entryKV rec op env kt vt k e) := by
  unfold entryKV
  exact lim_bind (lim_addSeg _ (hk _ _)) (fun _ => lim_bind (lim_addSeg _ (hv _ _)) (fun _ => lim_const _))

theorem lim_runMap {rec : Rec} {g : Nat → Rec} {env env' : Env} {kt kt' vt vt' : Ty}
    (hk : LimRec rec g env kt env' kt') (hv : LimRec rec g env vt env' vt')
    (hkt : kt.keyTy = kt'.keyTy) (hvt : vt.reflectsAny = vt'.reflectsAny)
    (op : Op) (a b : Option Int) (v : V) :
    Lim (fun m => runMap (g m) op env' kt' vt' a b v) (runMap rec op env kt vt a b v) := by
  unfold runMap
  split
  · exact lim_const _
  · refine lim_bind (lim_const _) (fun _ => ?_)
    cases op <;> simp only
    · rw [hkt, hvt]
      exact lim_bind (lim_forKV (lim_entryKV hk hv _) _) (fun _ => lim_const _)
    · exact lim_bind (lim_forKV (lim_entryKV hk hv _) _) (fun _ => lim_const _)
    · exact lim_bind (lim_forKV (lim_entryKV hk hv _) _) (fun _ => lim_bind (lim_forKV (lim_entryKV hk hv _) _) (fun _ => lim_const _))
    · exact lim_bind (lim_forKV (lim_entryKV hk hv _) _) (fun _ => lim_const _)

/-! ### relations between labelled lists -/

/-- same label, related payloads -/
def KRel {κ α β} (R : α → β → Prop) (a : κ × α) (b : κ × β) : Prop := a.1 = b.1 ∧ R a.2 b.2

theorem Forall2.refl {α} {R : α → α → Prop} (h : ∀ a, R a a) : ∀ (l : List α), Forall2 R l l
  | [] => .nil
  | a :: l => .cons (h a) (Forall2.refl h l)

theorem Forall2.imp {α β} {R S : α → β → Prop} (h : ∀ a b, R a b → S a b) {as : List α} {bs : List β}
    (hf : Forall2 R as bs) : Forall2 S as bs := by
  induction hf with
  | nil => exact .nil
  | cons hab _ ih => exact .cons (h _ _ hab) ih

theorem Forall2.flip {α β} {R : α → β → Prop} {as : List α} {bs : List β}
    (hf : Forall2 R as bs) : Forall2 (fun b a => R a b) bs as := by
  induction hf with
  | nil => exact .nil
  | cons hab _ ih => exact .cons hab ih

theorem Forall2.append {α β} {R : α → β → Prop} {as as' : List α} {bs bs' : List β}
    (h1 : Forall2 R as bs) (h2 : Forall2 R as' bs') : Forall2 R (as ++ as') (bs ++ bs') := by
  induction h1 with
  | nil => exact h2
  | cons hab _ ih => exact .cons hab ih

/-- lookups in related lists are related -/
theorem lookupS_rel {α β} {R : α → β → Prop} {as : List (String × α)} {bs : List (String × β)}
    (h : Forall2 (KRel R) as bs) (k : String) :
    (lookupS k as = none ∧ lookupS k bs = none) ∨
    ∃ a b, lookupS k as = some a ∧ lookupS k bs = some b ∧ R a b := by
  induction h with
  | nil => exact Or.inl ⟨rfl, rfl⟩
  | @cons a b as bs hab _ ih =>
    obtain ⟨ka, va⟩ := a
    obtain ⟨kb, vb⟩ := b
    obtain ⟨hk, hr⟩ := hab
    simp only at hk hr
    subst hk
    simp only [lookupS]
    by_cases he : (k == ka) = true
    · simp only [he, ↓reduceIte]
      exact Or.inr ⟨va, vb, rfl, rfl, hr⟩
    · simp only [he, Bool.false_eq_true, ↓reduceIte]
      exact ih

theorem lookupK_rel {α β} {R : α → β → Prop} {as : List (Key × α)} {bs : List (Key × β)}
    (h : Forall2 (KRel R) as bs) (k : Key) :
    (lookupK k as = none ∧ lookupK k bs = none) ∨
    ∃ a b, lookupK k as = some a ∧ lookupK k bs = some b ∧ R a b := by
  induction h with
  | nil => exact Or.inl ⟨rfl, rfl⟩
  | @cons a b as bs hab _ ih =>
    obtain ⟨ka, va⟩ := a
    obtain ⟨kb, vb⟩ := b
    obtain ⟨hk, hr⟩ := hab
    simp only at hk hr
    subst hk
    simp only [lookupK]
    by_cases he : (k == ka) = true
    · simp only [he, ↓reduceIte]
      exact Or.inr ⟨va, vb, rfl, rfl, hr⟩
    · simp only [he, Bool.false_eq_true, ↓reduceIte]
      exact ih

/-! ### objects -/

def Ty.isStr : Ty → Bool
  | .str _ _ _ => true
  | _ => false

/-- two properties that differ at most in their type, the types being related by `Q` and agreeing
    on being a string schema (which decides how an undecodable default text is treated) -/
def PRel (Q : Ty → Ty → Prop) (p p' : PropT) : Prop :=
  Q p.ty p'.ty ∧ p.ty.isStr = p'.ty.isStr ∧ p.required = p'.required ∧ p.requiredIf = p'.requiredIf ∧
  p.requiredIfNot = p'.requiredIfNot ∧ p.conflicts = p'.conflicts ∧ p.default = p'.default ∧
  p.disabled = p'.disabled

theorem defaultV_congr {p p' : PropT} (hd : p.default = p'.default) (hs : p.ty.isStr = p'.ty.isStr) :
    p.defaultV = p'.defaultV := by
  unfold PropT.defaultV
  rw [hd]
  cases p'.default with
  | none => rfl
  | some d =>
    simp only
    cases d.d1 with
    | some v => rfl
    | none =>
      simp only
      cases h1 : p.ty <;> cases h2 : p'.ty <;> simp_all [Ty.isStr]

abbrev PropsRel (Q : Ty → Ty → Prop) := Forall2 (KRel (κ := String) (PRel Q))

theorem hasKey_rel {α β} {R : α → β → Prop} {as : List (String × α)} {bs : List (String × β)}
    (h : Forall2 (KRel R) as bs) (k : String) : hasKey k as = hasKey k bs := by
  unfold hasKey
  rcases lookupS_rel h k with ⟨h1, h2⟩ | ⟨a, b, h1, h2, _⟩ <;> rw [h1, h2] <;> rfl

theorem applyDefaults_rel {Q : Ty → Ty → Prop} {ps ps' : List (String × PropT)} (h : PropsRel Q ps ps') :
    ∀ (m : List (String × V)), applyDefaults ps m = applyDefaults ps' m := by
  induction h with
  | nil => intro m; rfl
  | @cons a b as bs hab _ ih =>
    intro m
    obtain ⟨ka, pa⟩ := a
    obtain ⟨kb, pb⟩ := b
    obtain ⟨hk, hr⟩ := hab
    simp only at hk hr
    subst hk
    simp only [applyDefaults]
    rw [defaultV_congr hr.2.2.2.2.2.2.1 hr.2.1]
    split
    · exact ih m
    · split
      · exact ih m
      · rfl
      · exact ih _

theorem interdeps_rel {Q : Ty → Ty → Prop} {ps ps' : List (String × PropT)} (h : PropsRel Q ps ps')
    (isSet : String → Bool) : interdeps ps isSet = interdeps ps' isSet := by
  unfold interdeps
  induction h with
  | nil => rfl
  | @cons a b as bs hab _ ih =>
    obtain ⟨ka, pa⟩ := a
    obtain ⟨kb, pb⟩ := b
    obtain ⟨hk, hr⟩ := hab
    simp only at hk hr
    subst hk
    obtain ⟨_, _, h3, h4, h5, h6, _, _⟩ := hr
    simp only [interdeps.go]
    rw [h3, h4, h5, h6, ih]

theorem requiredMissing_rel {Q : Ty → Ty → Prop} {ps ps' : List (String × PropT)} (h : PropsRel Q ps ps')
    (F : String × PropT → Bool) (hF : ∀ k p p', p.required = p'.required → F (k, p) = F (k, p')) :
    ps.any F = ps'.any F := by
  induction h with
  | nil => rfl
  | @cons a b as bs hab _ ih =>
    obtain ⟨ka, pa⟩ := a
    obtain ⟨kb, pb⟩ := b
    obtain ⟨hk, hr⟩ := hab
    simp only at hk hr
    subst hk
    simp only [List.any_cons, ih, hF ka pa pb hr.2.2.1]

theorem lim_objEntryU {rec : Rec} {g : Nat → Rec} {env env' : Env} {ps ps' : List (String × PropT)}
    (h : PropsRel (fun t t' => LimRec rec g env t env' t') ps ps') (k : String) (d : V) :
    Lim (fun m => objEntryU (g m) env' ps' k d) (objEntryU rec env ps k d) := by
  unfold objEntryU
  rcases lookupS_rel h k with ⟨h1, h2⟩ | ⟨a, b, h1, h2, hr⟩
  · simp only [h1, h2]; exact lim_const _
  · simp only [h1, h2, ← hr.2.2.2.2.2.2.2]
    split
    · exact lim_const _
    · exact lim_addSeg _ (hr.1 _ _)

theorem lim_objEntry {rec : Rec} {g : Nat → Rec} {env env' : Env} {ps ps' : List (String × PropT)}
    (h : PropsRel (fun t t' => LimRec rec g env t env' t') ps ps') (op : Op) (k : String) (d : V) :
    Lim (fun m => objEntry (g m) op env' ps' k d) (objEntry rec op env ps k d) := by
  unfold objEntry
  rcases lookupS_rel h k with ⟨h1, h2⟩ | ⟨a, b, h1, h2, hr⟩
  · simp only [h1, h2]; exact lim_const _
  · simp only [h1, h2]
    exact lim_addSeg _ (hr.1 _ _)

/-- related property lists are both a single property, or neither is -/
theorem propsRel_single {Q : Ty → Ty → Prop} {ps ps' : List (String × PropT)} (h : PropsRel Q ps ps') :
    (∃ n p p', ps = [(n, p)] ∧ ps' = [(n, p')] ∧ PRel Q p p') ∨
    ((∀ n p, ps ≠ [(n, p)]) ∧ (∀ n p, ps' ≠ [(n, p)])) := by
  cases h with
  | nil => exact Or.inr ⟨fun _ _ h => (by cases h), fun _ _ h => (by cases h)⟩
  | @cons a b as bs hab hrest =>
    cases hrest with
    | nil =>
      obtain ⟨ka, pa⟩ := a
      obtain ⟨kb, pb⟩ := b
      obtain ⟨hk, hr⟩ := hab
      simp only at hk hr
      subst hk
      exact Or.inl ⟨ka, pa, pb, rfl, rfl, hr⟩
    | cons _ _ =>
      exact Or.inr ⟨fun _ _ h => (by cases h), fun _ _ h => (by cases h)⟩

theorem lim_objRaw {rec : Rec} {g : Nat → Rec} {env env' : Env} {ps ps' : List (String × PropT)}
    (h : PropsRel (fun t t' => LimRec rec g env t env' t') ps ps') (v : V) :
    Lim (fun m => objRaw (g m) env' ps' v) (objRaw rec env ps v) := by
  unfold objRaw
  split
  · -- not a map: the single-property shorthand
    rcases propsRel_single h with ⟨n, p, p', e1, e2, hr⟩ | ⟨n1, n2⟩
    · subst e1; subst e2
      simp only [← hr.2.2.2.2.2.2.2]
      split
      · exact lim_const _
      · exact lim_bind (lim_rewrapP (hr.1 _ _)) (fun _ => lim_const _)
    · split
      · exfalso; simp_all
      · first
        | exact lim_const _
        | (split
           · exfalso; simp_all
           · exact lim_const _)
  · split
    · exact lim_const _
    · rename_i skvs _
      have : (fun (kv : String × V) => !(hasKey kv.1 ps')) = (fun kv => !(hasKey kv.1 ps)) := by
        funext kv; rw [hasKey_rel h]
      rw [this]
      split
      · exact lim_const _
      · rw [← applyDefaults_rel h]
        exact lim_bind (lim_const _) (fun _ => lim_forSV (lim_objEntryU h) _)

theorem lim_objCompatMap {rec : Rec} {g : Nat → Rec} {env env' : Env} {ps ps' : List (String × PropT)}
    (h : PropsRel (fun t t' => LimRec rec g env t env' t') ps ps') (m : List (String × V)) :
    Lim (fun n => objCompatMap (g n) env' ps' m) (objCompatMap rec env ps m) := by
  unfold objCompatMap
  rw [requiredMissing_rel h _ (fun k p p' hr => by simp only [hr])]
  refine lim_bind (lim_forSV (fun k e => ?_) _) (fun _ => lim_const _)
  rcases lookupS_rel h k with ⟨h1, h2⟩ | ⟨a, b, h1, h2, hr⟩
  · simp only [h1, h2]; exact lim_const _
  · simp only [h1, h2, ← hr.2.2.2.2.2.2.2]
    exact lim_addSeg _ (lim_bind (lim_rewrapC (hr.1 _ _)) (fun _ => lim_const _))

theorem lim_runObj {rec : Rec} {g : Nat → Rec} {env env' : Env} {id : String} {ps ps' : List (String × PropT)}
    (h : PropsRel (fun t t' => LimRec rec g env t env' t') ps ps')
    (hself : LimRec rec g env (.obj id ps) env' (.obj id ps')) (op : Op) (v : V) :
    Lim (fun m => runObj (g m) op env' id ps' v) (runObj rec op env id ps v) := by
  unfold runObj
  cases op <;> simp only
  · refine lim_bind (lim_objRaw h _) (fun m => ?_)
    rw [interdeps_rel h]
    exact lim_const _
  · split
    · split
      · exact lim_const _
      · rw [interdeps_rel h]
        exact lim_bind (lim_const _) (fun _ => lim_bind (lim_forSV (lim_objEntry h _) _) (fun _ => lim_const _))
    · exact lim_const _
  · split
    · split
      · exact lim_const _
      · rw [interdeps_rel h]
        exact lim_bind (lim_const _) (fun _ => lim_bind (lim_forSV (lim_objEntry h _) _) (fun _ => lim_const _))
    · exact lim_const _
  · split
    · split
      · exact lim_const _
      · exact lim_objCompatMap h _
    · exact lim_bind (lim_rewrapC (hself _ _)) (fun _ => lim_const _)

/-! ### one-of -/

theorem lim_of_eq {α} {g : Nat → Out α} {a : Out α} (h : ∀ m, g m = a) : Lim g a := Or.inr ⟨0, fun _ => h _⟩

theorem Out.bind_ok' {α β} (a : α) (f : α → Out β) : (Out.ok a).bind f = f a := rfl

theorem Out.bind_assoc {α β γ} (a : Out α) (f : α → Out β) (h : β → Out γ) :
    (a.bind f).bind h = a.bind (fun x => (f x).bind h) := by
  cases a <;> rfl

abbrev MembersRel (Q : Ty → Ty → Prop) := Forall2 (KRel (κ := Key) Q)

/-- `selectMember` followed by any use of the selected member -/
theorem lim_oneOfSelect_bind {γ} {rec : Rec} {g : Nat → Rec} {env env' : Env} {ms ms' : List (Key × Ty)}
    (hms : MembersRel (fun t t' => LimRec rec g env t env' t') ms ms')
    (intKey : Bool) (disc : String) (inlined : Bool) (compat : Bool) (m : List (String × V))
    (K' : Nat → Key → Ty → List (String × V) → Out γ) (K : Key → Ty → List (String × V) → Out γ)
    (hK : ∀ key mt mt' clone, LimRec rec g env mt env' mt' → Lim (fun n => K' n key mt' clone) (K key mt clone)) :
    Lim (fun n => (oneOfSelect (g n) env' intKey disc inlined ms' compat m).bind fun sel => K' n sel.1 sel.2.1 sel.2.2)
      ((oneOfSelect rec env intKey disc inlined ms compat m).bind fun sel => K sel.1 sel.2.1 sel.2.2) := by
  unfold oneOfSelect
  simp only
  split
  · exact lim_of_eq (fun _ => rfl)
  · rename_i key _
    rcases lookupK_rel hms key with ⟨h1, h2⟩ | ⟨mt, mt', h1, h2, hq⟩
    · simp only [h1, h2]; exact lim_of_eq (fun _ => rfl)
    · simp only [h1, h2]
      cases compat
      · simp only [Bool.false_eq_true, ↓reduceIte, Out.bind_ok']
        exact hK _ _ _ _ hq
      · simp only [↓reduceIte, Out.bind_assoc, Out.bind_ok']
        exact lim_bind (lim_rewrapC (hq _ _)) (fun _ => hK _ _ _ _ hq)

theorem lim_oneOfUnser {rec : Rec} {g : Nat → Rec} {env env' : Env} {ms ms' : List (Key × Ty)}
    (hms : MembersRel (fun t t' => LimRec rec g env t env' t') ms ms')
    (x : Ext) (intKey : Bool) (disc : String) (inlined : Bool) (v : V) :
    Lim (fun n => oneOfUnser (g n) x env' intKey disc inlined ms' v) (oneOfUnser rec x env intKey disc inlined ms v) := by
  unfold oneOfUnser
  split
  · exact lim_const _
  · split
    · exact lim_const _
    · split
      · exact lim_const _
      · split
        · exact lim_const _
        · simp only
          refine lim_bind (lim_const _) (fun key => ?_)
          split
          · exact lim_const _
          · rcases lookupK_rel hms key with ⟨h1, h2⟩ | ⟨mt, mt', h1, h2, hq⟩
            · simp only [h1, h2]; exact lim_const _
            · simp only [h1, h2]
              exact lim_bind (hq _ _) (fun _ => lim_const _)

theorem lim_runOneOf {rec : Rec} {g : Nat → Rec} {env env' : Env} {ms ms' : List (Key × Ty)}
    (hms : MembersRel (fun t t' => LimRec rec g env t env' t') ms ms')
    (x : Ext) (op : Op) (intKey : Bool) (disc : String) (inlined : Bool) (v : V) :
    Lim (fun n => runOneOf (g n) x op env' intKey disc inlined ms' v)
      (runOneOf rec x op env intKey disc inlined ms v) := by
  unfold runOneOf
  cases op <;> simp only
  · exact lim_oneOfUnser hms _ _ _ _ _
  · split
    · split
      · exact lim_const _
      · exact lim_oneOfSelect_bind hms intKey disc inlined false _
          (fun n key mt clone => ((g n .V env' mt (toStrAny clone)).addSeg ("{oneof[" ++ key.fmt ++ "]}")).bind fun _ => done)
          (fun key mt clone => ((rec .V env mt (toStrAny clone)).addSeg ("{oneof[" ++ key.fmt ++ "]}")).bind fun _ => done)
          (fun key mt mt' clone hq => lim_bind (lim_addSeg _ (hq _ _)) (fun _ => lim_const _))
    · exact lim_const _
  · split
    · split
      · exact lim_const _
      · rename_i m _
        exact lim_oneOfSelect_bind hms intKey disc inlined false _
          (fun n key mt clone => (g n .S env' mt (toStrAny clone)).bind fun r =>
            match r with
            | .map ⟨.string, true⟩ rk =>
              match strKeys? rk with
              | some rm => .ok (toStrAny (if hasKey disc rm then rm else rm ++ [(disc, key.toV)]))
              | none => .cerr
            | _ => .panic)
          (fun key mt clone => (rec .S env mt (toStrAny clone)).bind fun r =>
            match r with
            | .map ⟨.string, true⟩ rk =>
              match strKeys? rk with
              | some rm => .ok (toStrAny (if hasKey disc rm then rm else rm ++ [(disc, key.toV)]))
              | none => .cerr
            | _ => .panic)
          (fun key mt mt' clone hq => lim_bind (hq _ _) (fun _ => lim_const _))
    · exact lim_const _
  · split
    · split
      · exact lim_const _
      · exact lim_oneOfSelect_bind hms intKey disc inlined true _
          (fun _ _ _ _ => done) (fun _ _ _ => done) (fun _ _ _ _ _ => lim_const _)
    · exact lim_const _

/-! ### the simulation -/

/-- schemas without sub-schemas -/
def Ty.isLeaf : Ty → Bool
  | .int _ _ _ | .float _ _ _ | .str _ _ _ | .bool | .pattern | .enumInt _ _ | .enumStr _ | .any => true
  | _ => false

theorem run_leaf_env (x : Ext) {t : Ty} (ht : t.isLeaf = true) (n : Nat) (op : Op) (e e' : Env) (v : V) :
    run x n op e t v = run x n op e' t v := by
  cases n with
  | zero => rfl
  | succ n => cases t <;> first | rfl | simp [Ty.isLeaf] at ht

/-- more fuel reaches the same result: a run is the limit of its own chain -/
theorem lim_run_self (x : Ext) (n : Nat) (op : Op) (e : Env) (t : Ty) (v : V) :
    Lim (fun m => run x m op e t v) (run x n op e t v) := by
  by_cases h : run x n op e t v = .fuel
  · exact Or.inl h
  · exact Or.inr ⟨n, fun k => run_mono x n k op e t v _ rfl h⟩

/-- One unfolding of "`(e', t')` is `(e, t)` up to inlining of references" for a candidate relation
    `S`: equal leaves; a reference on both sides whose targets are related; the same container
    around related parts; a scope whose objects are related IN THE NEW environments; and the two
    inlining steps - a reference on one side against the (related copy of the) object it denotes
    on the other. -/
inductive SimView (S : Env → Env → Ty → Ty → Prop) (e e' : Env) : Ty → Ty → Prop
  | leaf {t} : t.isLeaf = true → SimView S e e' t t
  | refNone {id} : lookupS id e = none → lookupS id e' = none → SimView S e e' (.ref id) (.ref id)
  | refSome {id o o'} : lookupS id e = some o → lookupS id e' = some o' → S e e' o o' →
      SimView S e e' (.ref id) (.ref id)
  | list {i i' a b} : S e e' i i' → SimView S e e' (.list i a b) (.list i' a b)
  | map {k k' v v' a b} : S e e' k k' → S e e' v v' → k.keyTy = k'.keyTy → v.reflectsAny = v'.reflectsAny →
      SimView S e e' (.map k v a b) (.map k' v' a b)
  | obj {id ps ps'} : PropsRel (S e e') ps ps' → SimView S e e' (.obj id ps) (.obj id ps')
  | oneOf {ik d inl ms ms'} : MembersRel (S e e') ms ms' → SimView S e e' (.oneOf ik d inl ms) (.oneOf ik d inl ms')
  | scope {objs objs' root} : Forall2 (KRel (κ := String) (S objs objs')) objs objs' →
      SimView S e e' (.scope objs root) (.scope objs' root)
  | inlL {id oid ps ps'} : lookupS id e = some (.obj oid ps) → S e e' (.obj oid ps) (.obj oid ps') →
      SimView S e e' (.ref id) (.obj oid ps')
  | inlR {id oid ps ps'} : lookupS id e' = some (.obj oid ps') → PropsRel (S e e') ps ps' →
      S e e' (.obj oid ps) (.obj oid ps') → SimView S e e' (.obj oid ps) (.ref id)

theorem PRel.imp {Q Q' : Ty → Ty → Prop} (h : ∀ a b, Q a b → Q' a b) {p p' : PropT} (hp : PRel Q p p') : PRel Q' p p' :=
  ⟨h _ _ hp.1, hp.2⟩

theorem KRel.imp {κ α β} {R R' : α → β → Prop} (h : ∀ a b, R a b → R' a b) {a : κ × α} {b : κ × β}
    (hk : KRel R a b) : KRel R' a b := ⟨hk.1, h _ _ hk.2⟩

theorem PropsRel.imp {Q Q' : Ty → Ty → Prop} (h : ∀ a b, Q a b → Q' a b) {ps ps' : List (String × PropT)}
    (hp : PropsRel Q ps ps') : PropsRel Q' ps ps' :=
  Forall2.imp (fun _ _ hk => KRel.imp (fun _ _ => PRel.imp h) hk) hp

theorem MembersRel.imp {Q Q' : Ty → Ty → Prop} (h : ∀ a b, Q a b → Q' a b) {ms ms' : List (Key × Ty)}
    (hp : MembersRel Q ms ms') : MembersRel Q' ms ms' :=
  Forall2.imp (fun _ _ hk => KRel.imp h hk) hp

/-- **Simulation.** If every pair of a relation `S` unfolds (`SimView`) into pairs of `S`, then
    whatever an operation on the left schema returns with some fuel, the operation on the right
    schema returns with enough fuel. -/
theorem sim_lim (x : Ext) (S : Env → Env → Ty → Ty → Prop)
    (hS : ∀ e e' t t', S e e' t t' → SimView S e e' t t') :
    ∀ (n : Nat) (e e' : Env) (t t' : Ty), S e e' t t' →
      ∀ op v, Lim (fun m => run x m op e' t' v) (run x n op e t v)
  | 0, _, _, _, _, _ => fun _ _ => Or.inl rfl
  | n + 1, e, e', t, t', hst => by
    intro op v
    have ih := sim_lim x S hS n
    have ihR : ∀ {e e' a b}, S e e' a b → LimRec (run x n) (run x) e a e' b := fun h op v => ih _ _ _ _ h op v
    cases hS e e' t t' hst with
    | leaf hl => rw [run_leaf_env x hl (n + 1) op e e' v]; exact lim_run_self x _ op e' t v
    | @refNone id h1 h2 =>
      have : run x (n + 1) op e (.ref id) v = .panic := by simp only [run, h1]
      rw [this]
      exact Or.inr ⟨1, fun k => by
        have : 1 + k = k + 1 := by omega
        rw [this]; simp only [run, h2]⟩
    | @refSome id o o' h1 h2 hs =>
      have : run x (n + 1) op e (.ref id) v = run x n op e o v := by simp only [run, h1]
      rw [this]
      exact lim_shift (g := fun m => run x m op e' o' v) (fun m => by simp only [run, h2]) (ih _ _ _ _ hs op v)
    | @list i i' a b hs =>
      exact lim_shift (g := fun m => runList (run x m) op e' i' a b v) (fun m => by simp only [run])
        (by simp only [run]; exact lim_runList (ihR hs) op a b v)
    | @map k k' w w' a b hk hw hkt hvt =>
      exact lim_shift (g := fun m => runMap (run x m) op e' k' w' a b v) (fun m => by simp only [run])
        (by simp only [run]; exact lim_runMap (ihR hk) (ihR hw) hkt hvt op a b v)
    | @obj id ps ps' hps =>
      exact lim_shift (g := fun m => runObj (run x m) op e' id ps' v) (fun m => by simp only [run])
        (by simp only [run]; exact lim_runObj (PropsRel.imp (fun _ _ h => ihR h) hps) (ihR hst) op v)
    | @oneOf ik d inl ms ms' hms =>
      exact lim_shift (g := fun m => runOneOf (run x m) x op e' ik d inl ms' v) (fun m => by simp only [run])
        (by simp only [run]; exact lim_runOneOf (MembersRel.imp (fun _ _ h => ihR h) hms) x op ik d inl v)
    | @scope objs objs' root hobjs =>
      rcases lookupS_rel hobjs root with ⟨h1, h2⟩ | ⟨o, o', h1, h2, hs⟩
      · have : run x (n + 1) op e (.scope objs root) v = .panic := by simp only [run, h1]
        rw [this]
        exact Or.inr ⟨1, fun k => by
          have : 1 + k = k + 1 := by omega
          rw [this]; simp only [run, h2]⟩
      · have : run x (n + 1) op e (.scope objs root) v = run x n op objs o v := by simp only [run, h1]
        rw [this]
        exact lim_shift (g := fun m => run x m op objs' o' v) (fun m => by simp only [run, h2]) (ih _ _ _ _ hs op v)
    | @inlL id oid ps ps' h1 hs =>
      have : run x (n + 1) op e (.ref id) v = run x n op e (.obj oid ps) v := by simp only [run, h1]
      rw [this]
      exact ih _ _ _ _ hs op v
    | @inlR id oid ps ps' h2 hps hs =>
      -- right side: reference, then the object; left side: the object
      refine lim_shift (g := fun m => run x m op e' (.obj oid ps') v) (fun m => by simp only [run, h2]) ?_
      exact lim_shift (g := fun m => runObj (run x m) op e' oid ps' v) (fun m => by simp only [run])
        (by simp only [run]; exact lim_runObj (PropsRel.imp (fun _ _ h => ihR h) hps) (ihR hs) op v)

/-! ### both directions -/

/-- `op` on `(e, t)` and `v` returns `r` (with some amount of fuel) -/
def Reaches (x : Ext) (op : Op) (e : Env) (t : Ty) (v : V) (r : Out V) : Prop :=
  ∃ n, run x n op e t v = r ∧ r ≠ .fuel

/-- an operation has at most one result -/
theorem Reaches.functional {x : Ext} {op : Op} {e : Env} {t : Ty} {v : V} {r r' : Out V}
    (h : Reaches x op e t v r) (h' : Reaches x op e t v r') : r = r' := by
  obtain ⟨n, hn, hne⟩ := h
  obtain ⟨n', hn', hne'⟩ := h'
  have a := run_mono x n n' op e t v r hn hne
  have b := run_mono x n' n op e t v r' hn' hne'
  rw [Nat.add_comm n' n] at b
  rw [← a, ← b]

theorem PRel.flip {Q : Ty → Ty → Prop} {p p' : PropT} (h : PRel Q p p') : PRel (fun a b => Q b a) p' p :=
  ⟨h.1, h.2.1.symm, h.2.2.1.symm, h.2.2.2.1.symm, h.2.2.2.2.1.symm, h.2.2.2.2.2.1.symm, h.2.2.2.2.2.2.1.symm,
    h.2.2.2.2.2.2.2.symm⟩

theorem PropsRel.flip {Q : Ty → Ty → Prop} {ps ps' : List (String × PropT)} (h : PropsRel Q ps ps') :
    PropsRel (fun a b => Q b a) ps' ps :=
  Forall2.imp (fun _ _ hk => ⟨hk.1.symm, PRel.flip hk.2⟩) (Forall2.flip h)

theorem MembersRel.flip {Q : Ty → Ty → Prop} {ms ms' : List (Key × Ty)} (h : MembersRel Q ms ms') :
    MembersRel (fun a b => Q b a) ms' ms :=
  Forall2.imp (fun _ _ hk => ⟨hk.1.symm, hk.2⟩) (Forall2.flip h)

/-- the unfolding is symmetric -/
theorem SimView.flip {S : Env → Env → Ty → Ty → Prop} (hS : ∀ e e' t t', S e e' t t' → SimView S e e' t t')
    {e e' : Env} {t t' : Ty} (h : SimView S e e' t t') : SimView (fun a b c d => S b a d c) e' e t' t := by
  cases h with
  | leaf hl => exact .leaf hl
  | refNone h1 h2 => exact .refNone h2 h1
  | refSome h1 h2 hs => exact .refSome h2 h1 hs
  | list hs => exact .list hs
  | map hk hv hkt hvt => exact .map hk hv hkt.symm hvt.symm
  | obj hps => exact .obj (PropsRel.flip hps)
  | oneOf hms => exact .oneOf (MembersRel.flip hms)
  | scope hobjs => exact .scope (Forall2.imp (fun _ _ hk => ⟨hk.1.symm, hk.2⟩) (Forall2.flip hobjs))
  | inlL h1 hs =>
    -- the properties are related because the two objects are
    cases hS _ _ _ _ hs with
    | leaf hl => simp [Ty.isLeaf] at hl
    | obj hps => exact .inlR h1 (PropsRel.flip hps) hs
  | inlR h2 _ hs => exact .inlL h2 hs

/-- **Bisimulation.** Related schemas have exactly the same results, for every operation and value. -/
theorem sim_reaches (x : Ext) (S : Env → Env → Ty → Ty → Prop)
    (hS : ∀ e e' t t', S e e' t t' → SimView S e e' t t')
    {e e' : Env} {t t' : Ty} (h : S e e' t t') (op : Op) (v : V) (r : Out V) :
    Reaches x op e t v r ↔ Reaches x op e' t' v r := by
  constructor
  · rintro ⟨n, hn, hne⟩
    rcases sim_lim x S hS n e e' t t' h op v with hf | ⟨m, hm⟩
    · rw [hn] at hf; exact absurd hf hne
    · exact ⟨m, by rw [← hn]; exact hm 0, hne⟩
  · rintro ⟨n, hn, hne⟩
    rcases sim_lim x (fun a b c d => S b a d c) (fun e e' t t' hs => SimView.flip hS (hS _ _ _ _ hs))
        n e' e t' t h op v with hf | ⟨m, hm⟩
    · rw [hn] at hf; exact absurd hf hne
    · exact ⟨m, by rw [← hn]; exact hm 0, hne⟩

/-! ### a concrete family: inlining to finite depth -/

/-- `Sim k e e' t t'`: `t'` (read in `e'`) is `t` (read in `e`) with references replaced by the objects
    they denote, or vice versa, at any positions, nested at most `k` levels deep. -/
def Sim : Nat → Env → Env → Ty → Ty → Prop
  | 0 => fun _ _ t t' => t = t'
  | k + 1 => fun e e' t t' => t = t' ∨ SimView (Sim k) e e' t t'

theorem Sim.refl : ∀ (k : Nat) (e e' : Env) (t : Ty), Sim k e e' t t
  | 0, _, _, _ => rfl
  | _ + 1, _, _, _ => Or.inl rfl

/-- the environments agree up to inlining -/
def EnvSim (e e' : Env) : Prop := Forall2 (KRel (κ := String) (fun a b => ∃ k, Sim k e e' a b)) e e'

theorem EnvSim.refl (e : Env) : EnvSim e e := Forall2.refl (fun _ => ⟨rfl, 0, rfl⟩) e

/-- the relation the simulation theorem is instantiated with -/
def SimAny (e e' : Env) (t t' : Ty) : Prop := EnvSim e e' ∧ ∃ k, Sim k e e' t t'

theorem PRel.refl {Q : Ty → Ty → Prop} (h : ∀ t, Q t t) (p : PropT) : PRel Q p p :=
  ⟨h _, rfl, rfl, rfl, rfl, rfl, rfl, rfl⟩

theorem simAny_view_refl {e e' : Env} (hE : EnvSim e e') : ∀ (t : Ty), SimView SimAny e e' t t := by
  have hr : ∀ t, SimAny e e' t t := fun t => ⟨hE, 0, rfl⟩
  intro t
  cases t with
  | int => exact .leaf rfl
  | float => exact .leaf rfl
  | str => exact .leaf rfl
  | bool => exact .leaf rfl
  | pattern => exact .leaf rfl
  | enumInt => exact .leaf rfl
  | enumStr => exact .leaf rfl
  | any => exact .leaf rfl
  | list i a b => exact .list (hr i)
  | map k v a b => exact .map (hr k) (hr v) rfl rfl
  | obj id ps => exact .obj (Forall2.refl (fun a => ⟨rfl, PRel.refl hr a.2⟩) ps)
  | oneOf ik d inl ms => exact .oneOf (Forall2.refl (fun a => ⟨rfl, hr a.2⟩) ms)
  | ref id =>
    rcases lookupS_rel hE id with ⟨h1, h2⟩ | ⟨o, o', h1, h2, k, hk⟩
    · exact .refNone h1 h2
    · exact .refSome h1 h2 ⟨hE, k, hk⟩
  | scope objs root =>
    exact .scope (Forall2.refl (fun a => ⟨rfl, EnvSim.refl objs, 0, rfl⟩) objs)

theorem simAny_view : ∀ (e e' : Env) (t t' : Ty), SimAny e e' t t' → SimView SimAny e e' t t' := by
  intro e e' t t' ⟨hE, k, hk⟩
  have lift : ∀ {a b}, Sim (k - 1) e e' a b → SimAny e e' a b := fun h => ⟨hE, k - 1, h⟩
  cases k with
  | zero => cases hk; exact simAny_view_refl hE t
  | succ k =>
    rcases hk with hk | hk
    · cases hk; exact simAny_view_refl hE t
    · simp only [Nat.add_sub_cancel] at lift
      cases hk with
      | leaf hl => exact .leaf hl
      | refNone h1 h2 => exact .refNone h1 h2
      | refSome h1 h2 hs => exact .refSome h1 h2 (lift hs)
      | list hs => exact .list (lift hs)
      | map h1 h2 h3 h4 => exact .map (lift h1) (lift h2) h3 h4
      | obj hps => exact .obj (PropsRel.imp (fun _ _ h => lift h) hps)
      | oneOf hms => exact .oneOf (MembersRel.imp (fun _ _ h => lift h) hms)
      | scope hobjs =>
        have hE' := Forall2.imp (fun _ _ hk => KRel.imp (fun _ _ h => (⟨k, h⟩ : ∃ k, Sim k _ _ _ _)) hk) hobjs
        exact .scope (Forall2.imp (fun _ _ hk => KRel.imp (fun _ _ h => ⟨hE', k, h⟩) hk) hobjs)
      | inlL h1 hs => exact .inlL h1 (lift hs)
      | inlR h2 hps hs => exact .inlR h2 (PropsRel.imp (fun _ _ h => lift h) hps) (lift hs)

/-- related schemas agree on the three shape questions the operations ask about a sub-schema -/
theorem SimView.shape {S : Env → Env → Ty → Ty → Prop} {e e' : Env} {t t' : Ty} (h : SimView S e e' t t') :
    t.keyTy = t'.keyTy ∧ t.reflectsAny = t'.reflectsAny ∧ t.isStr = t'.isStr := by
  cases h <;> exact ⟨rfl, rfl, rfl⟩

theorem Sim.shape {k : Nat} {e e' : Env} {t t' : Ty} (h : Sim k e e' t t') :
    t.keyTy = t'.keyTy ∧ t.reflectsAny = t'.reflectsAny ∧ t.isStr = t'.isStr := by
  cases k with
  | zero => cases h; exact ⟨rfl, rfl, rfl⟩
  | succ k =>
    rcases h with h | h
    · cases h; exact ⟨rfl, rfl, rfl⟩
    · exact h.shape

/-- schemas related by `Sim` (in environments related by `Sim`) have the same results -/
theorem sim_reaches_of_Sim (x : Ext) {k : Nat} {e e' : Env} {t t' : Ty} (hE : EnvSim e e') (h : Sim k e e' t t')
    (op : Op) (v : V) (r : Out V) : Reaches x op e t v r ↔ Reaches x op e' t' v r :=
  sim_reaches x SimAny simAny_view ⟨hE, k, h⟩ op v r

end Arca
