import ArcaModel.Lemmas.AtpServer
/-
  The ghost identity used by `C07_terminal_once` (the goroutine index) and the run ID on the wire:
  every terminal message counted for goroutine `g` carries the run ID of the work-start that
  spawned `g`, and is a work-done or a step-fatal (not server-fatal) error message.
-/
namespace Arca.AtpServer

variable {c : Cfg}

/-- `g` is a step goroutine spawned for run ID `r` -/
def Acc (s : State) (g : Gid) (r : Run) : Prop :=
  ∃ x, s.gs[g]? = some x ∧ x.kind = .step ∧ x.run = r

def errOk (s : State) (e : SErr) : Prop :=
  ∀ g, e.origin = .step g → Acc s g e.run ∧ e.stepFatal = true ∧ e.serverFatal = false

def msgOk (s : State) : OutMsg → Prop
  | .hello => True
  | .workDone r g => Acc s g r
  | .error e => errOk s e

structure InvR (s : State) : Prop where
  written : ∀ m ∈ s.written, msgOk s m
  held : ∀ e ∈ heldErrs s, errOk s e

/-- goroutines are never removed and never change kind or run ID -/
def GsExt (s s' : State) : Prop :=
  ∀ (g : Nat) (x : G), s.gs[g]? = some x → ∃ x', s'.gs[g]? = some x' ∧ x'.kind = x.kind ∧ x'.run = x.run

theorem gsExt_refl {s s' : State} (h : s'.gs = s.gs) : GsExt s s' := by
  intro g x hx; exact ⟨x, by rw [h]; exact hx, rfl, rfl⟩

theorem gsExt_set {s s' : State} {g : Nat} {x : G} {pc : GPc} (hx : s.gs[g]? = some x)
    (h : s'.gs = s.gs.set g { x with pc := pc }) : GsExt s s' := by
  intro g' y hy
  have hlt := getElem?_lt hx
  by_cases hgg : g = g'
  · subst hgg
    rw [hx] at hy; simp at hy; subst hy
    exact ⟨{ x with pc := pc }, by rw [h, List.getElem?_set_self hlt], rfl, rfl⟩
  · exact ⟨y, by rw [h, List.getElem?_set_ne hgg]; exact hy, rfl, rfl⟩

theorem gsExt_append {s s' : State} {y : G} (h : s'.gs = s.gs ++ [y]) : GsExt s s' := by
  intro g x hx
  exact ⟨x, by rw [h, List.getElem?_append_left (getElem?_lt hx)]; exact hx, rfl, rfl⟩

theorem acc_mono {s s' : State} (h : GsExt s s') {g : Gid} {r : Run} (a : Acc s g r) : Acc s' g r := by
  obtain ⟨x, hx, hk, hr⟩ := a
  obtain ⟨x', hx', hk', hr'⟩ := h g x hx
  exact ⟨x', hx', by rw [hk', hk], by rw [hr', hr]⟩

theorem errOk_mono {s s' : State} (h : GsExt s s') {e : SErr} (a : errOk s e) : errOk s' e := by
  intro g hg
  obtain ⟨h1, h2, h3⟩ := a g hg
  exact ⟨acc_mono h h1, h2, h3⟩

theorem msgOk_mono {s s' : State} (h : GsExt s s') {m : OutMsg} (a : msgOk s m) : msgOk s' m := by
  cases m with
  | hello => trivial
  | workDone r g => exact acc_mono h a
  | error e => exact errOk_mono h a

/-- nothing new is written or reported; goroutines only extended -/
theorem invR_frame {s s' : State} (h : InvR s) (hg : GsExt s s') (hw : s'.written = s.written)
    (hh : heldErrs s' = heldErrs s) : InvR s' := by
  constructor
  · intro m hm; rw [hw] at hm; exact msgOk_mono hg (h.written m hm)
  · intro e he; rw [hh] at he; exact errOk_mono hg (h.held e he)

theorem invR_init : InvR State.init := by
  constructor <;> simp [State.init, heldErrs]

theorem heldErrs_eq {s s' : State} (h1 : s'.h = s.h) (h2 : s'.queue = s.queue) : heldErrs s' = heldErrs s := by
  simp [heldErrs, h1, h2]

theorem invR_react {s : State} (src : Nat) (d : Decoded) (h : InvR s) : InvR (react s src d) := by
  unfold react
  repeat' split
  all_goals first
    | exact invR_frame h (gsExt_refl rfl) rfl (heldErrs_eq rfl rfl)
    | exact invR_frame h (gsExt_append (y := ⟨_, _, _, .spawned⟩) rfl) rfl (heldErrs_eq rfl rfl)

theorem invR_step (hg : c.Good) {s s' : State} {a : Act} (hA : InvA s) (hS : InvS s) (h : InvR s)
    (e : step? c s a = some s') : InvR s' := by
  unfold step? at e
  split at e
  · simp at e
  · cases a <;> simp only at e
    case offer =>
      split at e <;> simp at e
      subst e; exact invR_frame h (gsExt_refl rfl) rfl (heldErrs_eq rfl rfl)
    case closeInput => simp at e; subst e; exact invR_frame h (gsExt_refl rfl) rfl (heldErrs_eq rfl rfl)
    case breakOutput => simp at e; subst e; exact invR_frame h (gsExt_refl rfl) rfl (heldErrs_eq rfl rfl)
    case cancel => simp at e; subst e; exact invR_frame h (gsExt_refl rfl) rfl (heldErrs_eq rfl rfl)
    case observe =>
      unfold doObserve at e
      split at e <;> simp at e
      subst e; exact invR_frame h (gsExt_refl rfl) rfl (heldErrs_eq rfl rfl)
    case exit g b =>
      unfold gExit at e
      split at e
      · rename_i x hx
        split at e
        · simp at e; subst e
          exact invR_frame h (gsExt_set hx rfl) rfl (heldErrs_eq rfl rfl)
        · simp at e
      · simp at e
    case loopRead =>
      unfold loopRead at e
      split at e
      · simp at e
      · split at e
        · split at e <;> simp at e <;> subst e
          · exact invR_frame h (gsExt_refl rfl) rfl (heldErrs_eq rfl rfl)
          · constructor
            · intro m hm
              simp at hm
              rcases hm with hm | hm
              · exact msgOk_mono (gsExt_refl rfl) (h.written m hm)
              · subst hm; trivial
            · intro er he
              exact errOk_mono (gsExt_refl rfl) (h.held er (by simpa [heldErrs] using he))
        · simp at e; subst e; exact invR_frame h (gsExt_refl rfl) rfl (heldErrs_eq rfl rfl)
        · simp at e; subst e
          apply invR_react
          exact invR_frame h (gsExt_refl rfl) rfl (heldErrs_eq rfl rfl)
        · simp at e; subst e; exact invR_frame h (gsExt_refl rfl) rfl (heldErrs_eq rfl rfl)
        · simp at e
    case loopReadErr =>
      unfold loopReadErr at e
      split at e
      · split at e <;> simp at e <;> subst e <;>
          exact invR_frame h (gsExt_refl rfl) rfl (heldErrs_eq rfl rfl)
      · simp at e
    case loopSend =>
      obtain ⟨er, stop, hloop, hlt, hcl, e⟩ := loopSend_spec hA e
      subst e
      have ho := hS.loopOrigin er stop hloop
      constructor
      · intro m hm; exact msgOk_mono (gsExt_refl rfl) (h.written m hm)
      · intro e2 he
        simp [heldErrs] at he
        rcases he with he | he | he
        · exact errOk_mono (gsExt_refl rfl) (h.held e2 (by simp [heldErrs, he]))
        · exact errOk_mono (gsExt_refl rfl) (h.held e2 (by simp [heldErrs, he]))
        · subst he; intro g hgo; rw [ho] at hgo; simp at hgo
    case loopEnd =>
      unfold loopEnd at e
      split at e
      · simp at e; subst e; exact invR_frame h (gsExt_refl rfl) rfl (heldErrs_eq rfl rfl)
      · simp at e
    case gStart g p =>
      unfold gStart at e
      split at e
      · rename_i x hx
        split at e
        · simp at e; subst e
          exact invR_frame h (gsExt_set hx rfl) rfl (heldErrs_eq rfl rfl)
        · simp at e
      · simp at e
    case gWrite g =>
      unfold gWrite at e
      split at e
      · rename_i x hx
        split at e
        · rename_i hc
          split at e <;> simp at e <;> subst e
          · exact invR_frame h (gsExt_set hx rfl) rfl (heldErrs_eq rfl rfl)
          · have hext : GsExt s { setPc s g x .doneOk with wg := s.wg - 1, written := s.written ++ [.workDone x.run g] } :=
              gsExt_set hx rfl
            constructor
            · intro m hm
              simp at hm
              rcases hm with hm | hm
              · exact msgOk_mono hext (h.written m hm)
              · subst hm
                exact acc_mono hext ⟨x, hx, hc.1, rfl⟩
            · intro er he
              exact errOk_mono hext (h.held er (by simpa [heldErrs, setPc] using he))
        · simp at e
      · simp at e
    case gSend g =>
      obtain ⟨x, hx, hc, hlt, hcl, e⟩ := gSend_spec hA e
      subst e
      have hext : GsExt s { s with gs := s.gs.set g { x with pc := .doneErr }, queue := s.queue ++ [gErr g x], wg := s.wg - 1 } :=
        gsExt_set hx rfl
      constructor
      · intro m hm; exact msgOk_mono hext (h.written m hm)
      · intro e2 he
        simp [heldErrs] at he
        rcases he with he | he | he
        · exact errOk_mono hext (h.held e2 (by simp [heldErrs, he]))
        · exact errOk_mono hext (h.held e2 (by simp [heldErrs, he]))
        · subst he
          intro g' hgo
          have hkk : x.kind = .step ∨ x.kind = .signal := by cases x.kind <;> simp
          rcases hkk with hk | hk
          · simp [gErr, hk] at hgo
            subst hgo
            have hrun : (gErr g x).run = x.run := by simp [gErr, hk]
            refine ⟨?_, by simp [gErr, hk], by simp [gErr, hk]⟩
            rw [hrun]
            exact acc_mono hext ⟨x, hx, hk, rfl⟩
          · simp [gErr, hk] at hgo
    case sigRun g r =>
      unfold sigRun at e
      split at e
      · rename_i x hx
        split at e
        · cases r <;> simp [hg.guarded] at e <;> subst e <;>
            exact invR_frame h (gsExt_set hx rfl) rfl (heldErrs_eq rfl rfl)
        · simp at e
      · simp at e
    case hRecv =>
      unfold hRecv at e
      split at e
      · rename_i hh
        split at e
        · rename_i er rest hq
          simp at e; subst e
          exact invR_frame h (gsExt_refl rfl) rfl (by simp [heldErrs, hh, hq])
        · split at e <;> simp at e
          subst e
          exact invR_frame h (gsExt_refl rfl) rfl (by simp [heldErrs, hh])
      · simp at e
    case hEmit =>
      obtain ⟨er, w, hh, hh', hq, hgs, hw, ho, hwo⟩ := hEmit_spec e
      have hext : GsExt s s' := gsExt_refl hgs
      have her : errOk s er := h.held er (by simp [heldErrs, hh])
      constructor
      · intro m hm
        rw [hw] at hm
        cases w
        · simp at hm; exact msgOk_mono hext (h.written m hm)
        · simp at hm
          rcases hm with hm | hm
          · exact msgOk_mono hext (h.written m hm)
          · subst hm; exact errOk_mono hext her
      · intro e2 he
        have : e2 ∈ s.queue := by
          rcases hh' with hh' | hh' <;> simpa [heldErrs, hh', hq] using he
        exact errOk_mono hext (h.held e2 (by simp [heldErrs, this]))
    case hCancel =>
      unfold hCancel at e
      split at e
      · simp [hg.drain] at e; subst e
        exact invR_frame h (gsExt_refl rfl) rfl (heldErrs_eq rfl rfl)
      · simp at e
    case close =>
      unfold closeChan at e
      split at e
      · simp at e; subst e; exact invR_frame h (gsExt_refl rfl) rfl (heldErrs_eq rfl rfl)
      · simp at e
    case ret =>
      unfold doRet at e
      split at e
      · simp at e; subst e; exact invR_frame h (gsExt_refl rfl) rfl (heldErrs_eq rfl rfl)
      · simp at e

theorem invR_reachable (hg : c.Good) {s : State} (h : Reachable c s) : InvR s := by
  induction h with
  | init => exact invR_init
  | step hr e ih =>
    have I := inv_reachable hg hr
    exact invR_step hg I.a I.s ih e

end Arca.AtpServer
