import ArcaModel.Lemmas.Out
/-
  No operation of the model reaches a panicking path on a well-formed schema (C04, first half).
-/
namespace Arca
open Out

/-! ### scalars never panic -/

theorem np_intInputMapper (u : Option Units) (v : V) : NP (intInputMapper u v) := by
  unfold intInputMapper; (repeat' split) <;> simp

theorem np_stringInputMapper (x : Ext) (v : V) : NP (stringInputMapper x v) := by
  unfold stringInputMapper; (repeat' split) <;> simp

theorem np_boolInputMapper (v : V) : NP (boolInputMapper v) := by
  unfold boolInputMapper; (repeat' split) <;> simp
  (repeat' split) <;> simp

theorem np_floatInputMapper (x : Ext) (u : Option Units) (v : V) : NP (floatInputMapper x u v) := by
  unfold floatInputMapper; (repeat' split) <;> simp

theorem np_asInt (v : V) : NP (asInt v) := by unfold asInt; (repeat' split) <;> simp
theorem np_asFloat (v : V) : NP (asFloat v) := by unfold asFloat; (repeat' split) <;> simp
theorem np_asString (v : V) : NP (asString v) := by unfold asString; (repeat' split) <;> simp
theorem np_asBool (v : V) : NP (asBool v) := by unfold asBool; (repeat' split) <;> simp

theorem np_checkInt (a b : Option Int) (n : Int) : NP (checkInt a b n) := by
  unfold checkInt; (repeat' split) <;> simp
theorem np_checkLen (a b : Option Int) (n : Nat) : NP (checkLen a b n) := by
  unfold checkLen; (repeat' split) <;> simp
theorem np_checkFloat (a b : Option Nat) (n : Nat) : NP (checkFloat a b n) := by
  unfold checkFloat; (repeat' split) <;> simp
theorem np_checkStr (x : Ext) (a b : Option Int) (p : Option String) (s : String) : NP (checkStr x a b p s) := by
  unfold checkStr
  have := np_checkLen a b s.utf8ByteSize
  (repeat' split) <;> simp_all

theorem np_done : NP done := by simp [done]

theorem np_runInt (op : Op) (a b : Option Int) (u : Option Units) (v : V) : NP (runInt op a b u v) := by
  unfold runInt
  cases op <;> simp only <;>
    exact np_bind (by first | exact np_rewrapC (np_intInputMapper _ _) | exact np_asInt _)
      (fun _ => np_bind (np_checkInt _ _ _) (fun _ => by first | exact np_done | simp))

theorem np_runFloat (x : Ext) (op : Op) (a b : Option Nat) (u : Option Units) (v : V) : NP (runFloat x op a b u v) := by
  unfold runFloat
  cases op <;> simp only <;>
    exact np_bind (by first | exact np_rewrapC (np_floatInputMapper _ _ _) | exact np_asFloat _)
      (fun _ => np_bind (np_checkFloat _ _ _) (fun _ => by first | exact np_done | simp))

theorem np_runStr (x : Ext) (op : Op) (a b : Option Int) (p : Option String) (v : V) : NP (runStr x op a b p v) := by
  unfold runStr
  cases op <;> simp only
  · exact np_bind (np_rewrapC (np_stringInputMapper _ _)) (fun _ => np_bind (np_checkStr _ _ _ _ _) (fun _ => by simp))
  · exact np_bind (np_asString _) (fun _ => np_bind (np_checkStr _ _ _ _ _) (fun _ => np_done))
  · exact np_bind (np_asString _) (fun _ => np_bind (np_checkStr _ _ _ _ _) (fun _ => by simp))
  · split
    · exact np_bind (np_checkStr _ _ _ _ _) (fun _ => np_done)
    · simp

theorem np_runBool (op : Op) (v : V) : NP (runBool op v) := by
  unfold runBool
  cases op <;> simp only <;>
    exact np_bind (by first | exact np_boolInputMapper _ | exact np_asBool _)
      (fun _ => by first | exact np_done | simp)

theorem np_runPattern (x : Ext) (op : Op) (v : V) : NP (runPattern x op v) := by
  unfold runPattern
  cases op <;> simp only
  · exact np_bind (np_rewrapC (np_stringInputMapper _ _)) (fun _ => by split <;> simp)
  all_goals (split <;> simp [np_done])

theorem np_runEnumInt (op : Op) (vals : List Int) (u : Option Units) (v : V) : NP (runEnumInt op vals u v) := by
  unfold runEnumInt
  cases op <;> simp only
  · exact np_bind (np_rewrapC (np_intInputMapper _ _)) (fun _ => by split <;> simp)
  all_goals exact np_bind (np_asInt _) (fun _ => by split <;> simp [np_done])

theorem np_runEnumStr (x : Ext) (op : Op) (vals : List String) (v : V) : NP (runEnumStr x op vals v) := by
  unfold runEnumStr
  cases op <;> simp only
  · exact np_bind (np_rewrapC (np_stringInputMapper _ _)) (fun _ => by split <;> simp)
  all_goals exact np_bind (np_asString _) (fun _ => by split <;> simp [np_done])

end Arca

namespace Arca
open Out

/-! ### the any schema never panics -/

theorem np_anyConvert : ∀ (fuel : Nat) (v : V), NP (anyConvert fuel v)
  | 0, _ => by simp [anyConvert]
  | n + 1, v => by
    have ih := np_anyConvert n
    unfold anyConvert
    split
    · split
      · simp
      · split
        · simp
        · exact np_bind (np_intInputMapper _ _) (fun _ => by simp)
    · (repeat' split) <;> simp
    · simp
    · simp
    · exact np_bind (np_forIdx (fun i x => np_addSeg _ (ih x)) _ _) (fun _ => by simp)
    · exact np_bind (np_forIdx (fun i x => np_addSeg _ (ih x)) _ _) (fun _ => by simp)
    · refine np_bind (np_forKV (fun k x => ?_) _) (fun _ => by split <;> simp)
      exact np_bind (np_addSeg _ (ih k)) (fun k' => np_bind (np_addSeg _ (ih x)) (fun _ => by simp))
    · simp

theorem np_anyCompat : ∀ (fuel : Nat) (v : V), NP (anyCompat fuel v)
  | 0, _ => by simp [anyCompat]
  | n + 1, v => by
    have ih := np_anyCompat n
    unfold anyCompat
    split
    · exact np_bind (np_forKV (fun k e => np_bind (np_rewrapC (ih e)) (fun _ => by simp)) _) (fun _ => np_done)
    · exact np_bind (np_forKV (fun k e => np_bind (np_rewrapC (ih e)) (fun _ => by simp)) _) (fun _ => np_done)
    · refine np_bind (np_forKV (fun k e => ?_) _) (fun _ => np_done)
      split
      · split
        · simp
        · exact np_bind (np_rewrapC (ih e)) (fun _ => by simp)
      · split
        · simp
        · exact np_bind (np_rewrapC (ih e)) (fun _ => by simp)
      · simp
    · refine np_bind (np_forIdx (fun _ e => np_rewrapC (ih e)) _ _) (fun _ => ?_)
      split
      · exact np_done
      · split
        · simp
        · exact np_done
    · exact np_bind (np_anyConvert _ _) (fun _ => np_done)

theorem np_runAny (op : Op) (fuel : Nat) (v : V) : NP (runAny op fuel v) := by
  unfold runAny
  cases op <;> simp only
  · exact np_anyConvert _ _
  · exact np_bind (np_anyConvert _ _) (fun _ => np_done)
  · exact np_anyConvert _ _
  · exact np_anyCompat _ _

end Arca
