import ArcaModel.Model.Link
import ArcaModel.Lemmas.Out
/-
  Lemmas about the linking model: what one `ApplyNamespace` pass and the constructors do to every
  reference occurrence, stated on the list of occurrences `occs`.
-/
namespace Arca.Link
open Arca Arca.Out

/-! ### outcomes: linking returns or panics -/

theorem applyNs_ok_or_panic (w : String) (ns : String) : ∀ (t : LTy) (tbl : Table) (p : Path),
    (∃ t', applyNs w tbl ns p t = .ok t') ∨ applyNs w tbl ns p t = .panic := by
  intro t
  induction t with
  | leaf ty => intro tbl p; exact Or.inl ⟨_, rfl⟩
  | nil => intro tbl p; exact Or.inl ⟨_, rfl⟩
  | ref id n link =>
    intro tbl p
    simp only [applyNs]
    split
    · exact Or.inl ⟨_, rfl⟩
    · split
      · exact Or.inl ⟨_, rfl⟩
      · exact Or.inr rfl
  | list i ih =>
    intro tbl p
    simp only [applyNs]
    rcases ih tbl (p ++ ["[]"]) with ⟨i', h⟩ | h <;> rw [h]
    · exact Or.inl ⟨_, rfl⟩
    · exact Or.inr rfl
  | map k v ihk ihv =>
    intro tbl p
    simp only [applyNs]
    rcases ihk tbl (p ++ ["{k}"]) with ⟨k', h⟩ | h <;> rw [h]
    · rcases ihv tbl (p ++ ["{v}"]) with ⟨v', h2⟩ | h2
      · exact Or.inl ⟨.map k' v', by simp [Out.bind, h2]⟩
      · exact Or.inr (by simp [Out.bind, h2])
    · exact Or.inr rfl
  | obj id ps ih =>
    intro tbl p
    simp only [applyNs]
    rcases ih tbl p with ⟨x, h⟩ | h <;> rw [h]
    · exact Or.inl ⟨_, rfl⟩
    · exact Or.inr rfl
  | oneOf d ms ih =>
    intro tbl p
    simp only [applyNs]
    rcases ih tbl p with ⟨x, h⟩ | h <;> rw [h]
    · exact Or.inl ⟨_, rfl⟩
    · exact Or.inr rfl
  | scope objs root ih =>
    intro tbl p
    simp only [applyNs]
    rcases ih (if ns == "" then selfTable w p objs else tbl) p with ⟨x, h⟩ | h <;> rw [h]
    · exact Or.inl ⟨_, rfl⟩
    · exact Or.inr rfl
  | cons l h t ihh iht =>
    intro tbl p
    simp only [applyNs]
    rcases ihh tbl (p ++ [l]) with ⟨h', e⟩ | e <;> rw [e]
    · rcases iht tbl p with ⟨t', e2⟩ | e2
      · exact Or.inl ⟨.cons l h' t', by simp [Out.bind, e2]⟩
      · exact Or.inr (by simp [Out.bind, e2])
    · exact Or.inr rfl

theorem applySeq_ok_or_panic : ∀ (apps : List (String × Table)) (t : LTy),
    (∃ t', applySeq apps t = .ok t') ∨ applySeq apps t = .panic
  | [], t => Or.inl ⟨t, rfl⟩
  | (ns, tbl) :: rest, t => by
    simp only [applySeq]
    rcases applyNs_ok_or_panic "" ns t tbl [] with ⟨t', h⟩ | h <;> rw [h]
    · exact applySeq_ok_or_panic rest t'
    · exact Or.inr rfl

/-! ### shape: linking never changes the labels of a child list (so a scope's own table is stable) -/

theorem labels_applyNs {w ns : String} : ∀ (t : LTy) {tbl : Table} {p : Path} {t' : LTy},
    applyNs w tbl ns p t = .ok t' → labels t' = labels t := by
  intro t
  induction t with
  | leaf ty => intro tbl p t' h; simp only [applyNs] at h; cases h; rfl
  | nil => intro tbl p t' h; simp only [applyNs] at h; cases h; rfl
  | ref id n link =>
    intro tbl p t' h
    simp only [applyNs] at h
    split at h
    · cases h; rfl
    · split at h
      · cases h; rfl
      · cases h
  | list i ih =>
    intro tbl p t' h; simp only [applyNs] at h
    obtain ⟨x, _, hx⟩ := bind_eq_ok h; cases hx; rfl
  | map k v ihk ihv =>
    intro tbl p t' h; simp only [applyNs] at h
    obtain ⟨x, _, hx⟩ := bind_eq_ok h
    obtain ⟨y, _, hy⟩ := bind_eq_ok hx; cases hy; rfl
  | obj id ps ih =>
    intro tbl p t' h; simp only [applyNs] at h
    obtain ⟨x, _, hx⟩ := bind_eq_ok h; cases hx; rfl
  | oneOf d ms ih =>
    intro tbl p t' h; simp only [applyNs] at h
    obtain ⟨x, _, hx⟩ := bind_eq_ok h; cases hx; rfl
  | scope objs root ih =>
    intro tbl p t' h; simp only [applyNs] at h
    obtain ⟨x, _, hx⟩ := bind_eq_ok h; cases hx; rfl
  | cons l h t ihh iht =>
    intro tbl p t' hh; simp only [applyNs] at hh
    obtain ⟨h', _, h2⟩ := bind_eq_ok hh
    obtain ⟨t'', h3, h4⟩ := bind_eq_ok h2
    cases h4
    simp only [labels, iht h3]

theorem labels_build {w : String} : ∀ (t : LTy) {p : Path} {t' : LTy},
    build w p t = .ok t' → labels t' = labels t := by
  intro t
  induction t with
  | leaf ty => intro p t' h; simp only [build] at h; cases h; rfl
  | nil => intro p t' h; simp only [build] at h; cases h; rfl
  | ref id n link => intro p t' h; simp only [build] at h; cases h; rfl
  | list i ih =>
    intro p t' h; simp only [build] at h
    obtain ⟨x, _, hx⟩ := bind_eq_ok h; cases hx; rfl
  | map k v ihk ihv =>
    intro p t' h; simp only [build] at h
    obtain ⟨x, _, hx⟩ := bind_eq_ok h
    obtain ⟨y, _, hy⟩ := bind_eq_ok hx; cases hy; rfl
  | obj id ps ih =>
    intro p t' h; simp only [build] at h
    obtain ⟨x, _, hx⟩ := bind_eq_ok h; cases hx; rfl
  | oneOf d ms ih =>
    intro p t' h; simp only [build] at h
    obtain ⟨x, _, hx⟩ := bind_eq_ok h; cases hx; rfl
  | scope objs root ih =>
    intro p t' h; simp only [build] at h
    obtain ⟨x, _, hx⟩ := bind_eq_ok h
    rw [labels_applyNs _ hx]; rfl
  | cons l h t ihh iht =>
    intro p t' hh; simp only [build] at hh
    obtain ⟨h', _, h2⟩ := bind_eq_ok hh
    obtain ⟨t'', h3, h4⟩ := bind_eq_ok h2
    cases h4
    simp only [labels, iht h3]

theorem selfTable_congr {w : String} {p : Path} {a b : LTy} (h : labels a = labels b) :
    selfTable w p a = selfTable w p b := by
  simp only [selfTable, h]

/-! ### occurrences below a scope know their scope -/

theorem occs_ctx_some (w : String) : ∀ (t : LTy) (ctx : Option Table) (p : Path),
    ctx.isSome → ∀ o ∈ occs w ctx p t, o.ctx.isSome := by
  intro t
  induction t with
  | leaf ty => intro ctx p _ o ho; simp [occs] at ho
  | nil => intro ctx p _ o ho; simp [occs] at ho
  | ref id n link =>
    intro ctx p hc o ho
    simp only [occs, List.mem_singleton] at ho
    subst ho; exact hc
  | list i ih => intro ctx p hc o ho; exact ih ctx _ hc o (by simpa [occs] using ho)
  | map k v ihk ihv =>
    intro ctx p hc o ho
    simp only [occs, List.mem_append] at ho
    rcases ho with ho | ho
    · exact ihk ctx _ hc o ho
    · exact ihv ctx _ hc o ho
  | obj id ps ih => intro ctx p hc o ho; exact ih ctx _ hc o (by simpa [occs] using ho)
  | oneOf d ms ih => intro ctx p hc o ho; exact ih ctx _ hc o (by simpa [occs] using ho)
  | scope objs root ih =>
    intro ctx p _ o ho
    exact ih (some (selfTable w p objs)) p rfl o (by simpa [occs] using ho)
  | cons l h t ihh iht =>
    intro ctx p hc o ho
    simp only [occs, List.mem_append] at ho
    rcases ho with ho | ho
    · exact ihh ctx _ hc o ho
    · exact iht ctx _ hc o ho

/-- give the occurrences outside every scope of the traversed tree the ambient scope `c` -/
def fill (c : Option Table) (o : Occ) : Occ :=
  match o.ctx with
  | none => { o with ctx := c }
  | some _ => o

theorem fill_of_some {c : Option Table} {o : Occ} (h : o.ctx.isSome) : fill c o = o := by
  unfold fill
  cases hc : o.ctx with
  | none => rw [hc] at h; cases h
  | some _ => rfl

theorem map_id_of_forall {α} {f : α → α} : ∀ {l : List α}, (∀ a ∈ l, f a = a) → l.map f = l
  | [], _ => rfl
  | a :: l, h => by
    simp only [List.map]
    rw [h a (List.mem_cons_self ..), map_id_of_forall (fun b hb => h b (List.mem_cons_of_mem _ hb))]

theorem map_congr_of_forall {α β} {f g : α → β} : ∀ {l : List α}, (∀ a ∈ l, f a = g a) → l.map f = l.map g
  | [], _ => rfl
  | a :: l, h => by
    simp only [List.map]
    rw [h a (List.mem_cons_self ..), map_congr_of_forall (fun b hb => h b (List.mem_cons_of_mem _ hb))]

theorem occs_fill (w : String) : ∀ (t : LTy) (ctx : Option Table) (p : Path),
    occs w ctx p t = (occs w none p t).map (fill ctx) := by
  intro t
  induction t with
  | leaf ty => intro ctx p; simp [occs]
  | nil => intro ctx p; simp [occs]
  | ref id n link => intro ctx p; simp [occs, fill]
  | list i ih => intro ctx p; simp only [occs]; exact ih ctx _
  | map k v ihk ihv => intro ctx p; simp only [occs, List.map_append]; rw [ihk ctx, ihv ctx]
  | obj id ps ih => intro ctx p; simp only [occs]; exact ih ctx _
  | oneOf d ms ih => intro ctx p; simp only [occs]; exact ih ctx _
  | scope objs root ih =>
    intro ctx p
    simp only [occs]
    exact (map_id_of_forall (fun o ho => fill_of_some (occs_ctx_some w objs _ p rfl o ho))).symm
  | cons l h t ihh iht => intro ctx p; simp only [occs, List.map_append]; rw [ihh ctx, iht ctx]

/-! ### one `ApplyNamespace` pass, on occurrences -/

/-- `relink` reads the table argument only for occurrences outside every scope -/
theorem relink_tbl_irrelevant {tbl tbl' : Table} {ns : String} {o : Occ}
    (h : ns = "" ∨ tbl' = tbl) (hs : ns = "" → o.ctx.isSome) : relink tbl' ns o = relink tbl ns o := by
  unfold relink
  split
  · rfl
  · rcases h with h | h
    · subst h
      have := hs rfl
      cases hc : o.ctx with
      | none => rw [hc] at this; cases this
      | some c => simp [Option.getD]
    · subst h; rfl

/-- The pass `t.ApplyNamespace(tbl, ns)`, provided - for the self namespace - that the table handed
    down is the one of the nearest enclosing scope (which is how scopes call it), relinks exactly
    the occurrences of namespace `ns`, each to the entry of ITS nearest scope / of the table. -/
theorem applyNs_occs (w : String) (ns : String) : ∀ (t : LTy) (tbl : Table) (ctx : Option Table) (p : Path) (t' : LTy),
    (ns = "" → ctx.getD tbl = tbl) → applyNs w tbl ns p t = .ok t' →
    occs w ctx p t' = (occs w ctx p t).map (relink tbl ns) := by
  intro t
  induction t with
  | leaf ty => intro tbl ctx p t' _ h; simp only [applyNs] at h; cases h; simp [occs]
  | nil => intro tbl ctx p t' _ h; simp only [applyNs] at h; cases h; simp [occs]
  | ref id n link =>
    intro tbl ctx p t' hc h
    simp only [applyNs] at h
    split at h
    · rename_i hn
      cases h
      simp [occs, relink, hn]
    · rename_i hn
      split at h
      · rename_i a ha
        cases h
        have hn' : n = ns := by simpa using hn
        subst hn'
        simp only [occs, List.map, relink, bne_self_eq_false, Bool.false_eq_true, ↓reduceIte]
        by_cases he : n = ""
        · subst he
          simp only [BEq.rfl, ↓reduceIte, hc rfl, ha]
        · have : (n == "") = false := by simpa using he
          simp only [this, Bool.false_eq_true, ↓reduceIte, ha]
      · cases h
  | list i ih =>
    intro tbl ctx p t' hc h; simp only [applyNs] at h
    obtain ⟨x, hx, e⟩ := bind_eq_ok h; cases e
    simp only [occs]; exact ih tbl ctx _ x hc hx
  | map k v ihk ihv =>
    intro tbl ctx p t' hc h; simp only [applyNs] at h
    obtain ⟨x, hx, e⟩ := bind_eq_ok h
    obtain ⟨y, hy, e2⟩ := bind_eq_ok e; cases e2
    simp only [occs, List.map_append]
    rw [ihk tbl ctx _ x hc hx, ihv tbl ctx _ y hc hy]
  | obj id ps ih =>
    intro tbl ctx p t' hc h; simp only [applyNs] at h
    obtain ⟨x, hx, e⟩ := bind_eq_ok h; cases e
    simp only [occs]; exact ih tbl ctx _ x hc hx
  | oneOf d ms ih =>
    intro tbl ctx p t' hc h; simp only [applyNs] at h
    obtain ⟨x, hx, e⟩ := bind_eq_ok h; cases e
    simp only [occs]; exact ih tbl ctx _ x hc hx
  | scope objs root ih =>
    intro tbl ctx p t' _ h; simp only [applyNs] at h
    obtain ⟨x, hx, e⟩ := bind_eq_ok h; cases e
    simp only [occs]
    rw [selfTable_congr (labels_applyNs objs hx)]
    rw [ih _ (some (selfTable w p objs)) p x (by
      intro hns; subst hns; simp) hx]
    apply map_congr_of_forall
    intro o ho
    apply relink_tbl_irrelevant
    · by_cases hns : ns = ""
      · exact Or.inl hns
      · right
        have : (ns == "") = false := by simpa using hns
        simp [this]
    · intro _
      exact occs_ctx_some w objs _ p rfl o ho
  | cons l h t ihh iht =>
    intro tbl ctx p t' hc hh; simp only [applyNs] at hh
    obtain ⟨x, hx, e⟩ := bind_eq_ok hh
    obtain ⟨y, hy, e2⟩ := bind_eq_ok e; cases e2
    simp only [occs, List.map_append]
    rw [ihh tbl ctx _ x hc hx, iht tbl ctx _ y hc hy]

/-- the table an occurrence of namespace `ns` is looked up in during the pass `(tbl, ns)` -/
def passTable (tbl : Table) (ns : String) (o : Occ) : Table :=
  if ns == "" then o.ctx.getD tbl else tbl

/-- The pass returns (does not panic) exactly when every occurrence of the namespace finds its ID. -/
theorem applyNs_ok_iff (w : String) (ns : String) : ∀ (t : LTy) (tbl : Table) (ctx : Option Table) (p : Path),
    (ns = "" → ctx.getD tbl = tbl) →
    ((∃ t', applyNs w tbl ns p t = .ok t') ↔
      ∀ o ∈ occs w ctx p t, o.ns = ns → (lookupS o.id (passTable tbl ns o)).isSome) := by
  intro t
  induction t with
  | leaf ty => intro tbl ctx p _; simp [applyNs, occs]
  | nil => intro tbl ctx p _; simp [applyNs, occs]
  | ref id n link =>
    intro tbl ctx p hc
    simp only [applyNs, occs, List.mem_singleton, forall_eq, passTable]
    by_cases hn : n = ns
    · subst hn
      have htb : (if (n == "") = true then ctx.getD tbl else tbl) = tbl := by
        by_cases he : n = ""
        · subst he; simp [hc rfl]
        · have : (n == "") = false := by simpa using he
          simp [this]
      simp only [bne_self_eq_false, Bool.false_eq_true, ↓reduceIte, htb, forall_const]
      cases hl : lookupS id tbl with
      | none => simp
      | some a => simp
    · have : (n != ns) = true := by simpa using hn
      simp [this, hn]
  | list i ih =>
    intro tbl ctx p hc
    simp only [applyNs, occs]
    rw [← ih tbl ctx _ hc]
    constructor
    · rintro ⟨t', h⟩; obtain ⟨x, hx, _⟩ := bind_eq_ok h; exact ⟨x, hx⟩
    · rintro ⟨x, hx⟩; exact ⟨_, by rw [hx]; rfl⟩
  | map k v ihk ihv =>
    intro tbl ctx p hc
    simp only [applyNs, occs, List.mem_append]
    constructor
    · rintro ⟨t', h⟩
      obtain ⟨x, hx, e⟩ := bind_eq_ok h
      obtain ⟨y, hy, _⟩ := bind_eq_ok e
      intro o ho
      rcases ho with ho | ho
      · exact (ihk tbl ctx _ hc).mp ⟨x, hx⟩ o ho
      · exact (ihv tbl ctx _ hc).mp ⟨y, hy⟩ o ho
    · intro hall
      obtain ⟨x, hx⟩ := (ihk tbl ctx _ hc).mpr (fun o ho => hall o (Or.inl ho))
      obtain ⟨y, hy⟩ := (ihv tbl ctx _ hc).mpr (fun o ho => hall o (Or.inr ho))
      exact ⟨_, by rw [hx]; simp only [Out.bind]; rw [hy]⟩
  | obj id ps ih =>
    intro tbl ctx p hc
    simp only [applyNs, occs]
    rw [← ih tbl ctx _ hc]
    constructor
    · rintro ⟨t', h⟩; obtain ⟨x, hx, _⟩ := bind_eq_ok h; exact ⟨x, hx⟩
    · rintro ⟨x, hx⟩; exact ⟨_, by rw [hx]; rfl⟩
  | oneOf d ms ih =>
    intro tbl ctx p hc
    simp only [applyNs, occs]
    rw [← ih tbl ctx _ hc]
    constructor
    · rintro ⟨t', h⟩; obtain ⟨x, hx, _⟩ := bind_eq_ok h; exact ⟨x, hx⟩
    · rintro ⟨x, hx⟩; exact ⟨_, by rw [hx]; rfl⟩
  | scope objs root ih =>
    intro tbl ctx p _
    simp only [applyNs, occs]
    have hc' : ns = "" → (some (selfTable w p objs)).getD (if ns == "" then selfTable w p objs else tbl)
        = (if ns == "" then selfTable w p objs else tbl) := by
      intro hns; subst hns; simp
    have key := ih (if ns == "" then selfTable w p objs else tbl) (some (selfTable w p objs)) p hc'
    have hpt : ∀ o ∈ occs w (some (selfTable w p objs)) p objs,
        passTable (if ns == "" then selfTable w p objs else tbl) ns o = passTable tbl ns o := by
      intro o ho
      have hs := occs_ctx_some w objs _ p rfl o ho
      unfold passTable
      by_cases hns : ns = ""
      · subst hns
        cases hcx : o.ctx with
        | none => rw [hcx] at hs; cases hs
        | some c => simp [Option.getD]
      · have : (ns == "") = false := by simpa using hns
        simp [this]
    constructor
    · rintro ⟨t', h⟩
      obtain ⟨x, hx, _⟩ := bind_eq_ok h
      intro o ho hn
      rw [← hpt o ho]
      exact key.mp ⟨x, hx⟩ o ho hn
    · intro hall
      obtain ⟨x, hx⟩ := key.mpr (fun o ho hn => by rw [hpt o ho]; exact hall o ho hn)
      exact ⟨_, by rw [hx]; rfl⟩
  | cons l h t ihh iht =>
    intro tbl ctx p hc
    simp only [applyNs, occs, List.mem_append]
    constructor
    · rintro ⟨t', hh⟩
      obtain ⟨x, hx, e⟩ := bind_eq_ok hh
      obtain ⟨y, hy, _⟩ := bind_eq_ok e
      intro o ho
      rcases ho with ho | ho
      · exact (ihh tbl ctx _ hc).mp ⟨x, hx⟩ o ho
      · exact (iht tbl ctx _ hc).mp ⟨y, hy⟩ o ho
    · intro hall
      obtain ⟨x, hx⟩ := (ihh tbl ctx _ hc).mpr (fun o ho => hall o (Or.inl ho))
      obtain ⟨y, hy⟩ := (iht tbl ctx _ hc).mpr (fun o ho => hall o (Or.inr ho))
      exact ⟨_, by rw [hx]; simp only [Out.bind]; rw [hy]⟩

/-! ### `ValidateReferences` -/

theorem validateRefs_iff (w : String) : ∀ (t : LTy) (ctx : Option Table) (p : Path),
    validateRefs t = true ↔ ∀ o ∈ occs w ctx p t, o.link.isSome = true := by
  intro t
  induction t with
  | leaf ty => intro ctx p; simp [validateRefs, occs]
  | nil => intro ctx p; simp [validateRefs, occs]
  | ref id n link => intro ctx p; simp [validateRefs, occs]
  | list i ih => intro ctx p; simp only [validateRefs, occs]; exact ih ctx _
  | map k v ihk ihv =>
    intro ctx p
    simp only [validateRefs, occs, Bool.and_eq_true, List.mem_append, ihk ctx (p ++ ["{k}"]), ihv ctx (p ++ ["{v}"])]
    constructor
    · rintro ⟨h1, h2⟩ o (ho | ho)
      · exact h1 o ho
      · exact h2 o ho
    · intro h; exact ⟨fun o ho => h o (Or.inl ho), fun o ho => h o (Or.inr ho)⟩
  | obj id ps ih => intro ctx p; simp only [validateRefs, occs]; exact ih ctx _
  | oneOf d ms ih => intro ctx p; simp only [validateRefs, occs]; exact ih ctx _
  | scope objs root ih => intro ctx p; simp only [validateRefs, occs]; exact ih _ _
  | cons l h t ihh iht =>
    intro ctx p
    simp only [validateRefs, occs, Bool.and_eq_true, List.mem_append, ihh ctx (p ++ [l]), iht ctx p]
    constructor
    · rintro ⟨h1, h2⟩ o (ho | ho)
      · exact h1 o ho
      · exact h2 o ho
    · intro h; exact ⟨fun o ho => h o (Or.inl ho), fun o ho => h o (Or.inr ho)⟩

/-! ### the constructors -/

/-- what construction does to an occurrence: a self-namespace reference below a scope is linked to
    the entry of its nearest scope -/
def selfLinked (o : Occ) : Occ :=
  if o.ns == "" then
    match o.ctx with
    | some tb => { o with link := lookupS o.id tb }
    | none => o
  else o

theorem selfLinked_step (S : Table) (o : Occ) :
    relink S "" (fill (some S) (selfLinked o)) = selfLinked (fill (some S) o) := by
  obtain ⟨path, id, ns, link, ctx⟩ := o
  by_cases hn : ns = ""
  · subst hn
    cases ctx with
    | none => simp [selfLinked, fill, relink]
    | some tb => simp [selfLinked, fill, relink]
  · have h1 : (ns == "") = false := by simpa using hn
    have h2 : (ns != "") = true := by simpa using hn
    cases ctx with
    | none => simp [selfLinked, fill, relink, h1, h2]
    | some tb => simp [selfLinked, fill, relink, h1, h2]

theorem build_occs (w : String) : ∀ (t : LTy) (p : Path) (t' : LTy),
    build w p t = .ok t' → occs w none p t' = (occs w none p t).map selfLinked := by
  intro t
  induction t with
  | leaf ty => intro p t' h; simp only [build] at h; cases h; simp [occs]
  | nil => intro p t' h; simp only [build] at h; cases h; simp [occs]
  | ref id n link =>
    intro p t' h; simp only [build] at h; cases h
    simp only [occs, List.map, selfLinked]
    split <;> rfl
  | list i ih =>
    intro p t' h; simp only [build] at h
    obtain ⟨x, hx, e⟩ := bind_eq_ok h; cases e
    simp only [occs]; exact ih _ x hx
  | map k v ihk ihv =>
    intro p t' h; simp only [build] at h
    obtain ⟨x, hx, e⟩ := bind_eq_ok h
    obtain ⟨y, hy, e2⟩ := bind_eq_ok e; cases e2
    simp only [occs, List.map_append]
    rw [ihk _ x hx, ihv _ y hy]
  | obj id ps ih =>
    intro p t' h; simp only [build] at h
    obtain ⟨x, hx, e⟩ := bind_eq_ok h; cases e
    simp only [occs]; exact ih _ x hx
  | oneOf d ms ih =>
    intro p t' h; simp only [build] at h
    obtain ⟨x, hx, e⟩ := bind_eq_ok h; cases e
    simp only [occs]; exact ih _ x hx
  | scope objs root ih =>
    intro p t' h; simp only [build] at h
    obtain ⟨x, hx, e⟩ := bind_eq_ok h
    -- `e : applyNs w [] "" p (.scope x root) = ok t'`
    simp only [applyNs] at e
    obtain ⟨y, hy, e2⟩ := bind_eq_ok e; cases e2
    have hlab : labels y = labels objs := by rw [labels_applyNs x hy, labels_build objs hx]
    have hlx : labels x = labels objs := labels_build objs hx
    simp only [occs]
    rw [selfTable_congr hlab]
    have hy' : applyNs w (selfTable w p objs) "" p x = .ok y := by
      rw [← selfTable_congr hlx]; simpa using hy
    rw [applyNs_occs w "" x (selfTable w p objs) (some (selfTable w p objs)) p y (by intro _; rfl) hy']
    rw [occs_fill w x, ih p x hx, occs_fill w objs (some (selfTable w p objs))]
    simp only [List.map_map]
    apply map_congr_of_forall
    intro o _
    exact selfLinked_step _ o
  | cons l h t ihh iht =>
    intro p t' hh; simp only [build] at hh
    obtain ⟨x, hx, e⟩ := bind_eq_ok hh
    obtain ⟨y, hy, e2⟩ := bind_eq_ok e; cases e2
    simp only [occs, List.map_append]
    rw [ihh _ x hx, iht _ y hy]

/-! ### sequences of passes -/

/-- the effect of a sequence of passes on one occurrence -/
def seqLink (apps : List (String × Table)) (o : Occ) : Occ :=
  apps.foldl (fun o a => relink a.2 a.1 o) o

theorem applySeq_occs : ∀ (apps : List (String × Table)) (t t' : LTy),
    applySeq apps t = .ok t' → occs "" none [] t' = (occs "" none [] t).map (seqLink apps)
  | [], t, t', h => by
    simp only [applySeq] at h; cases h
    have : seqLink [] = id := by funext o; rfl
    rw [this, List.map_id]
  | (ns, tbl) :: rest, t, t', h => by
    simp only [applySeq] at h
    obtain ⟨x, hx, e⟩ := bind_eq_ok h
    rw [applySeq_occs rest x t' e, applyNs_occs "" ns t tbl none [] x (by intro _; rfl) hx]
    simp only [List.map_map]
    rfl

/-- a pass changes nothing but links -/
theorem relink_fields (tbl : Table) (ns : String) (o : Occ) :
    (relink tbl ns o).id = o.id ∧ (relink tbl ns o).ns = o.ns ∧ (relink tbl ns o).ctx = o.ctx ∧
    (relink tbl ns o).path = o.path := by
  unfold relink; split <;> simp

/-- with pairwise distinct, non-self namespaces the order of passes is irrelevant for every
    occurrence: its link is the entry of the table applied for its namespace, if any -/
theorem seqLink_eq : ∀ (apps : List (String × Table)) (o : Occ),
    (apps.map (·.1)).Nodup → (∀ a ∈ apps, a.1 ≠ "") →
    seqLink apps o = match lookupS o.ns apps with
      | some tb => { o with link := lookupS o.id tb }
      | none => o
  | [], o, _, _ => by simp [seqLink, lookupS]
  | (ns, tbl) :: rest, o, hnd, hne => by
    have hnd' : (rest.map (·.1)).Nodup := (List.nodup_cons.mp hnd).2
    have hnot : ns ∉ rest.map (·.1) := (List.nodup_cons.mp hnd).1
    have hne' : ∀ a ∈ rest, a.1 ≠ "" := fun a ha => hne a (List.mem_cons_of_mem _ ha)
    have hns : ns ≠ "" := hne (ns, tbl) (List.mem_cons_self ..)
    have ih := seqLink_eq rest (relink tbl ns o) hnd' hne'
    have hstep : seqLink ((ns, tbl) :: rest) o = seqLink rest (relink tbl ns o) := by
      simp [seqLink]
    rw [hstep, ih]
    obtain ⟨hid, hons, _, _⟩ := relink_fields tbl ns o
    rw [hons, hid]
    simp only [lookupS]
    by_cases he : o.ns = ns
    · -- this pass links it; no later pass has the same namespace
      have hb : (o.ns == ns) = true := by simpa using he
      have hnone : lookupS o.ns rest = none := by
        rw [he]
        clear ih hstep hnd hne hne' hnd'
        induction rest with
        | nil => rfl
        | cons a rest ihr =>
          obtain ⟨k, v⟩ := a
          simp only [List.map, List.mem_cons, not_or] at hnot
          have : (ns == k) = false := by simpa using hnot.1
          simp only [lookupS, this, Bool.false_eq_true, ↓reduceIte]
          exact ihr hnot.2
      rw [hnone]
      simp only [hb, ↓reduceIte]
      have h2 : (ns == "") = false := by simpa using hns
      have h3 : (o.ns != ns) = false := by simpa using he
      simp [relink, h3, h2]
    · have hb : (o.ns == ns) = false := by simpa using he
      have h3 : (o.ns != ns) = true := by simpa using he
      simp only [hb, Bool.false_eq_true, ↓reduceIte]
      have : relink tbl ns o = o := by simp [relink, h3]
      rw [this]

/-! ### passes for different namespaces commute (on whole trees) -/

theorem applyNs_comm (w : String) {n1 n2 : String} (hne : n1 ≠ n2) : ∀ (t : LTy) (tb1 tb2 : Table) (p : Path) (a b : LTy),
    applyNs w tb1 n1 p t = .ok a → applyNs w tb2 n2 p a = .ok b →
    ∃ a', applyNs w tb2 n2 p t = .ok a' ∧ applyNs w tb1 n1 p a' = .ok b := by
  intro t
  induction t with
  | leaf ty =>
    intro tb1 tb2 p a b h1 h2
    simp only [applyNs] at h1; cases h1
    simp only [applyNs] at h2; cases h2
    exact ⟨_, rfl, rfl⟩
  | nil =>
    intro tb1 tb2 p a b h1 h2
    simp only [applyNs] at h1; cases h1
    simp only [applyNs] at h2; cases h2
    exact ⟨_, rfl, rfl⟩
  | ref id n link =>
    intro tb1 tb2 p a b h1 h2
    by_cases e1 : n = n1
    · -- linked by the first pass, skipped by the second
      have e2 : n ≠ n2 := fun h => hne (e1.symm.trans h)
      have b1 : (n != n1) = false := by simpa using e1
      have b2 : (n != n2) = true := by simpa using e2
      simp only [applyNs, b1, Bool.false_eq_true, ↓reduceIte] at h1
      split at h1
      · rename_i x hx
        cases h1
        simp only [applyNs, b2, ↓reduceIte] at h2; cases h2
        exact ⟨.ref id n link, by simp [applyNs, b2], by simp [applyNs, b1, hx]⟩
      · cases h1
    · have b1 : (n != n1) = true := by simpa using e1
      simp only [applyNs, b1, ↓reduceIte] at h1; cases h1
      exact ⟨b, h2, by
        by_cases e2 : n = n2
        · have b2 : (n != n2) = false := by simpa using e2
          simp only [applyNs, b2, Bool.false_eq_true, ↓reduceIte] at h2
          split at h2
          · cases h2; simp [applyNs, b1]
          · cases h2
        · have b2 : (n != n2) = true := by simpa using e2
          simp only [applyNs, b2, ↓reduceIte] at h2; cases h2
          simp [applyNs, b1]⟩
  | list i ih =>
    intro tb1 tb2 p a b h1 h2
    simp only [applyNs] at h1
    obtain ⟨x, hx, e⟩ := bind_eq_ok h1; cases e
    simp only [applyNs] at h2
    obtain ⟨y, hy, e⟩ := bind_eq_ok h2; cases e
    obtain ⟨a', ha1, ha2⟩ := ih tb1 tb2 _ x y hx hy
    exact ⟨.list a', by simp [applyNs, ha1, Out.bind], by simp [applyNs, ha2, Out.bind]⟩
  | map k v ihk ihv =>
    intro tb1 tb2 p a b h1 h2
    simp only [applyNs] at h1
    obtain ⟨x, hx, e⟩ := bind_eq_ok h1
    obtain ⟨x2, hx2, e'⟩ := bind_eq_ok e; cases e'
    simp only [applyNs] at h2
    obtain ⟨y, hy, e⟩ := bind_eq_ok h2
    obtain ⟨y2, hy2, e'⟩ := bind_eq_ok e; cases e'
    obtain ⟨a', ha1, ha2⟩ := ihk tb1 tb2 _ x y hx hy
    obtain ⟨c', hc1, hc2⟩ := ihv tb1 tb2 _ x2 y2 hx2 hy2
    exact ⟨.map a' c', by simp [applyNs, ha1, hc1, Out.bind], by simp [applyNs, ha2, hc2, Out.bind]⟩
  | obj id ps ih =>
    intro tb1 tb2 p a b h1 h2
    simp only [applyNs] at h1
    obtain ⟨x, hx, e⟩ := bind_eq_ok h1; cases e
    simp only [applyNs] at h2
    obtain ⟨y, hy, e⟩ := bind_eq_ok h2; cases e
    obtain ⟨a', ha1, ha2⟩ := ih tb1 tb2 _ x y hx hy
    exact ⟨.obj id a', by simp [applyNs, ha1, Out.bind], by simp [applyNs, ha2, Out.bind]⟩
  | oneOf d ms ih =>
    intro tb1 tb2 p a b h1 h2
    simp only [applyNs] at h1
    obtain ⟨x, hx, e⟩ := bind_eq_ok h1; cases e
    simp only [applyNs] at h2
    obtain ⟨y, hy, e⟩ := bind_eq_ok h2; cases e
    obtain ⟨a', ha1, ha2⟩ := ih tb1 tb2 _ x y hx hy
    exact ⟨.oneOf d a', by simp [applyNs, ha1, Out.bind], by simp [applyNs, ha2, Out.bind]⟩
  | scope objs root ih =>
    intro tb1 tb2 p a b h1 h2
    simp only [applyNs] at h1
    obtain ⟨x, hx, e⟩ := bind_eq_ok h1; cases e
    simp only [applyNs] at h2
    obtain ⟨y, hy, e⟩ := bind_eq_ok h2; cases e
    rw [selfTable_congr (labels_applyNs objs hx)] at hy
    obtain ⟨a', ha1, ha2⟩ := ih _ _ p x y hx hy
    refine ⟨.scope a' root, by simp only [applyNs]; rw [ha1]; rfl, ?_⟩
    simp only [applyNs]
    rw [selfTable_congr (labels_applyNs objs ha1), ha2]
    rfl
  | cons l h t ihh iht =>
    intro tb1 tb2 p a b h1 h2
    simp only [applyNs] at h1
    obtain ⟨x, hx, e⟩ := bind_eq_ok h1
    obtain ⟨x2, hx2, e'⟩ := bind_eq_ok e; cases e'
    simp only [applyNs] at h2
    obtain ⟨y, hy, e⟩ := bind_eq_ok h2
    obtain ⟨y2, hy2, e'⟩ := bind_eq_ok e; cases e'
    obtain ⟨a', ha1, ha2⟩ := ihh tb1 tb2 _ x y hx hy
    obtain ⟨c', hc1, hc2⟩ := iht tb1 tb2 _ x2 y2 hx2 hy2
    exact ⟨.cons l a' c', by simp [applyNs, ha1, hc1, Out.bind], by simp [applyNs, ha2, hc2, Out.bind]⟩

/-- any reordering of passes with pairwise distinct namespaces yields the same tree -/
theorem applySeq_perm_ok {apps apps' : List (String × Table)} (hp : apps.Perm apps') :
    (apps.map (·.1)).Nodup → ∀ (t r : LTy), applySeq apps t = .ok r → applySeq apps' t = .ok r := by
  induction hp with
  | nil => intro _ t r h; exact h
  | cons x _ ih =>
    intro hnd t r h
    obtain ⟨ns, tbl⟩ := x
    simp only [applySeq] at h ⊢
    obtain ⟨m, hm, e⟩ := bind_eq_ok h
    rw [hm]
    exact ih (List.nodup_cons.mp hnd).2 m r e
  | swap x y l =>
    intro hnd t r h
    obtain ⟨n1, tb1⟩ := x
    obtain ⟨n2, tb2⟩ := y
    -- h : y first, then x
    simp only [applySeq] at h ⊢
    obtain ⟨m, hm, e⟩ := bind_eq_ok h
    obtain ⟨m2, hm2, e2⟩ := bind_eq_ok e
    have hne : n2 ≠ n1 := by
      intro he
      simp only [List.map, List.nodup_cons, List.mem_cons] at hnd
      exact hnd.1 (Or.inl he)
    obtain ⟨a', ha1, ha2⟩ := applyNs_comm "" hne t tb2 tb1 [] m m2 hm hm2
    rw [ha1]
    simp only [Out.bind]
    rw [ha2]
    exact e2
  | trans h1 _ ih1 ih2 =>
    intro hnd t r h
    exact ih2 ((h1.map (·.1)).nodup_iff.mp hnd) t r (ih1 hnd t r h)

/-- the outcome (linked tree or panic) does not depend on the order of the passes -/
theorem applySeq_perm {apps apps' : List (String × Table)} (hp : apps.Perm apps')
    (hnd : (apps.map (·.1)).Nodup) (t : LTy) : applySeq apps t = applySeq apps' t := by
  have hnd' : (apps'.map (·.1)).Nodup := (hp.map (·.1)).nodup_iff.mp hnd
  rcases applySeq_ok_or_panic apps t with ⟨r, h⟩ | h
  · rw [h, applySeq_perm_ok hp hnd t r h]
  · rcases applySeq_ok_or_panic apps' t with ⟨r', h'⟩ | h'
    · have := applySeq_perm_ok hp.symm hnd' t r' h'
      rw [h] at this; cases this
    · rw [h, h']

/-! ### the translation `toTy` commutes with looking an object up in its scope -/

theorem lookupS_selfTable (w : String) (p : Path) (id : String) : ∀ (objs : LTy),
    lookupS id (selfTable w p objs) = (child id objs).map (fun _ => (⟨w, p, id⟩ : Addr)) := by
  intro objs
  induction objs with
  | cons l h t _ iht =>
    simp only [selfTable, labels, List.map, lookupS, child]
    by_cases he : id = l
    · subst he; simp
    · have : (id == l) = false := by simpa using he
      simp only [this, Bool.false_eq_true, ↓reduceIte]
      exact iht
  | _ => simp [selfTable, labels, lookupS, child]

theorem toKids_lookup (id : String) : ∀ (objs : LTy) (env : List (String × Ty)),
    toTy.toKids objs = some env → lookupS id env = (child id objs).bind toTy := by
  intro objs
  induction objs with
  | nil => intro env h; simp only [toTy.toKids] at h; cases h; simp [lookupS, child]
  | cons l h t _ iht =>
    intro env he
    simp only [toTy.toKids] at he
    cases hh : toTy h with
    | none => rw [hh] at he; simp at he
    | some h' =>
      rw [hh] at he
      cases ht : toTy.toKids t with
      | none => rw [ht] at he; simp at he
      | some t' =>
        rw [ht] at he
        simp only [Option.bind_some, Option.map_some, Option.some.injEq] at he
        subst he
        simp only [lookupS, child]
        by_cases hid : id = l
        · subst hid; simp [hh]
        · have : (id == l) = false := by simpa using hid
          simp only [this, Bool.false_eq_true, ↓reduceIte]
          exact iht t' ht
  | leaf ty => intro env h; simp [toTy.toKids] at h
  | ref a b c => intro env h; simp [toTy.toKids] at h
  | list i _ => intro env h; simp [toTy.toKids] at h
  | map k v _ _ => intro env h; simp [toTy.toKids] at h
  | obj a b _ => intro env h; simp [toTy.toKids] at h
  | oneOf a b _ => intro env h; simp [toTy.toKids] at h
  | scope a b _ => intro env h; simp [toTy.toKids] at h

/-! ### re-application -/

/-- a successful pass is a fixed point of itself: applying the same namespace (same table) again
    changes nothing and cannot panic -/
theorem applyNs_idem (w : String) (ns : String) : ∀ (t : LTy) (tbl : Table) (p : Path) (t' : LTy),
    applyNs w tbl ns p t = .ok t' → applyNs w tbl ns p t' = .ok t' := by
  intro t
  induction t with
  | leaf ty => intro tbl p t' h; simp only [applyNs] at h; cases h; rfl
  | nil => intro tbl p t' h; simp only [applyNs] at h; cases h; rfl
  | ref id n link =>
    intro tbl p t' h
    simp only [applyNs] at h
    split at h
    · rename_i hn; cases h; simp only [applyNs, hn, ↓reduceIte]
    · rename_i hn
      split at h
      · rename_i a ha; cases h; simp only [applyNs, hn, ha]; rfl
      · cases h
  | list i ih =>
    intro tbl p t' h; simp only [applyNs] at h
    obtain ⟨x, hx, e⟩ := bind_eq_ok h; cases e
    simp only [applyNs, ih tbl _ x hx]; rfl
  | map k v ihk ihv =>
    intro tbl p t' h; simp only [applyNs] at h
    obtain ⟨x, hx, e⟩ := bind_eq_ok h
    obtain ⟨y, hy, e2⟩ := bind_eq_ok e; cases e2
    simp only [applyNs, ihk tbl _ x hx, ihv tbl _ y hy]; rfl
  | obj id ps ih =>
    intro tbl p t' h; simp only [applyNs] at h
    obtain ⟨x, hx, e⟩ := bind_eq_ok h; cases e
    simp only [applyNs, ih tbl _ x hx]; rfl
  | oneOf d ms ih =>
    intro tbl p t' h; simp only [applyNs] at h
    obtain ⟨x, hx, e⟩ := bind_eq_ok h; cases e
    simp only [applyNs, ih tbl _ x hx]; rfl
  | scope objs root ih =>
    intro tbl p t' h; simp only [applyNs] at h
    obtain ⟨x, hx, e⟩ := bind_eq_ok h; cases e
    simp only [applyNs]
    rw [selfTable_congr (labels_applyNs objs hx), ih _ _ x hx]; rfl
  | cons l h t ihh iht =>
    intro tbl p t' hh; simp only [applyNs] at hh
    obtain ⟨x, hx, e⟩ := bind_eq_ok hh
    obtain ⟨y, hy, e2⟩ := bind_eq_ok e; cases e2
    simp only [applyNs, ihh tbl _ x hx, iht tbl _ y hy]; rfl

/-- a fixed point of one pass stays a fixed point of it under passes for other namespaces and under
    repetitions of the pass itself -/
theorem fix_preserved (ns : String) (tbl : Table) : ∀ (apps : List (String × Table)) (t r : LTy),
    applyNs "" tbl ns [] t = .ok t → (∀ b ∈ apps, b.1 = ns → b.2 = tbl) →
    applySeq apps t = .ok r → applyNs "" tbl ns [] r = .ok r
  | [], t, r, hfix, _, h => by simp only [applySeq] at h; cases h; exact hfix
  | (n2, tb2) :: rest, t, r, hfix, hcons, h => by
    simp only [applySeq] at h
    obtain ⟨m, hm, e⟩ := bind_eq_ok h
    have hrest : ∀ b ∈ rest, b.1 = ns → b.2 = tbl := fun b hb => hcons b (List.mem_cons_of_mem _ hb)
    by_cases hn : n2 = ns
    · have htb : tb2 = tbl := hcons (n2, tb2) (List.mem_cons_self ..) hn
      subst hn; subst htb
      rw [hfix] at hm; cases hm
      exact fix_preserved n2 tb2 rest t r hfix hrest e
    · obtain ⟨a', ha1, ha2⟩ := applyNs_comm "" (fun h => hn h.symm) t tbl tb2 [] t m hfix hm
      rw [hm] at ha1; cases ha1
      exact fix_preserved ns tbl rest m r ha2 hrest e

/-- after any sequence of passes in which a namespace is always applied with the same table, the
    tree is a fixed point of every pass of the sequence -/
theorem applySeq_fix : ∀ (apps : List (String × Table)) (t r : LTy) (ns : String) (tbl : Table),
    applySeq apps t = .ok r → (ns, tbl) ∈ apps → (∀ b ∈ apps, b.1 = ns → b.2 = tbl) →
    applyNs "" tbl ns [] r = .ok r
  | [], _, _, _, _, _, hmem, _ => by cases hmem
  | (n2, tb2) :: rest, t, r, ns, tbl, h, hmem, hcons => by
    simp only [applySeq] at h
    obtain ⟨m, hm, e⟩ := bind_eq_ok h
    have hrest : ∀ b ∈ rest, b.1 = ns → b.2 = tbl := fun b hb => hcons b (List.mem_cons_of_mem _ hb)
    by_cases hn : n2 = ns
    · have htb : tb2 = tbl := hcons (n2, tb2) (List.mem_cons_self ..) hn
      subst hn; subst htb
      exact fix_preserved n2 tb2 rest m r (applyNs_idem "" n2 t tb2 [] m hm) hrest e
    · rcases List.mem_cons.mp hmem with he | hm'
      · cases he; exact absurd rfl hn
      · exact applySeq_fix rest m r ns tbl e hm' hrest

/-! ### re-binding -/

/-- applying a namespace again with ANOTHER table overwrites: the result is what applying the second
    table to the original tree gives (no occurrence keeps its old link, wherever it sits) -/
theorem applyNs_overwrite (w : String) (ns : String) : ∀ (t : LTy) (tb1 tb2 : Table) (p : Path) (t1 t2 : LTy),
    applyNs w tb1 ns p t = .ok t1 → applyNs w tb2 ns p t1 = .ok t2 → applyNs w tb2 ns p t = .ok t2 := by
  intro t
  induction t with
  | leaf ty =>
    intro tb1 tb2 p t1 t2 h1 h2
    simp only [applyNs] at h1; cases h1; exact h2
  | nil =>
    intro tb1 tb2 p t1 t2 h1 h2
    simp only [applyNs] at h1; cases h1; exact h2
  | ref id n link =>
    intro tb1 tb2 p t1 t2 h1 h2
    simp only [applyNs] at h1
    split at h1
    · cases h1; exact h2
    · rename_i hn
      split at h1
      · cases h1
        simp only [applyNs, hn] at h2 ⊢
        exact h2
      · cases h1
  | list i ih =>
    intro tb1 tb2 p t1 t2 h1 h2
    simp only [applyNs] at h1
    obtain ⟨x, hx, e⟩ := bind_eq_ok h1; cases e
    simp only [applyNs] at h2
    obtain ⟨y, hy, e⟩ := bind_eq_ok h2; cases e
    simp only [applyNs, ih tb1 tb2 _ x y hx hy]; rfl
  | map k v ihk ihv =>
    intro tb1 tb2 p t1 t2 h1 h2
    simp only [applyNs] at h1
    obtain ⟨x, hx, e⟩ := bind_eq_ok h1
    obtain ⟨x2, hx2, e'⟩ := bind_eq_ok e; cases e'
    simp only [applyNs] at h2
    obtain ⟨y, hy, e⟩ := bind_eq_ok h2
    obtain ⟨y2, hy2, e'⟩ := bind_eq_ok e; cases e'
    simp only [applyNs, ihk tb1 tb2 _ x y hx hy, ihv tb1 tb2 _ x2 y2 hx2 hy2]; rfl
  | obj id ps ih =>
    intro tb1 tb2 p t1 t2 h1 h2
    simp only [applyNs] at h1
    obtain ⟨x, hx, e⟩ := bind_eq_ok h1; cases e
    simp only [applyNs] at h2
    obtain ⟨y, hy, e⟩ := bind_eq_ok h2; cases e
    simp only [applyNs, ih tb1 tb2 _ x y hx hy]; rfl
  | oneOf d ms ih =>
    intro tb1 tb2 p t1 t2 h1 h2
    simp only [applyNs] at h1
    obtain ⟨x, hx, e⟩ := bind_eq_ok h1; cases e
    simp only [applyNs] at h2
    obtain ⟨y, hy, e⟩ := bind_eq_ok h2; cases e
    simp only [applyNs, ih tb1 tb2 _ x y hx hy]; rfl
  | scope objs root ih =>
    intro tb1 tb2 p t1 t2 h1 h2
    simp only [applyNs] at h1
    obtain ⟨x, hx, e⟩ := bind_eq_ok h1; cases e
    simp only [applyNs] at h2
    obtain ⟨y, hy, e⟩ := bind_eq_ok h2; cases e
    rw [selfTable_congr (labels_applyNs objs hx)] at hy
    simp only [applyNs, ih _ _ p x y hx hy]; rfl
  | cons l h t ihh iht =>
    intro tb1 tb2 p t1 t2 h1 h2
    simp only [applyNs] at h1
    obtain ⟨x, hx, e⟩ := bind_eq_ok h1
    obtain ⟨x2, hx2, e'⟩ := bind_eq_ok e; cases e'
    simp only [applyNs] at h2
    obtain ⟨y, hy, e⟩ := bind_eq_ok h2
    obtain ⟨y2, hy2, e'⟩ := bind_eq_ok e; cases e'
    simp only [applyNs, ihh tb1 tb2 _ x y hx hy, iht tb1 tb2 _ x2 y2 hx2 hy2]; rfl

end Arca.Link
