import ArcaModel.Props.C03
import ArcaModel.Lemmas.Termination
/-
  Where an error path leads.

  Part 1: inversion lemmas of the model - for every schema kind, every way its operation can return
          an error: either the level itself produced it, or it is the error of exactly one
          recursive call on a sub-schema and a sub-value, with this level's segment prefixed.
  Part 2: positions (`Pos`), the one-segment navigation relation `PathStep`, its closure `Leads`,
          `FailsHere`, `NamesProperty`, and `Located` / `Verdict` that combine them.
  Part 3: the induction on the fuel that composes part 1 along part 2.

  The property-level statements are in `Props/C17.lean`.
-/
namespace Arca
open Out

/-! ## Part 1: inversion of errors -/

namespace PL

theorem bind_err {α β} {a : Out α} {f : α → Out β} {e : Err} (h : a.bind f = .err e) :
    a = .err e ∨ ∃ r, a = .ok r ∧ f r = .err e := by
  cases a <;> simp_all [Out.bind]

theorem addSeg_err {α} {a : Out α} {s : String} {e : Err} (h : a.addSeg s = .err e) :
    ∃ e', a = .err e' ∧ e = ⟨true, s :: e'.path⟩ := by
  cases a <;> simp [addSeg] at h
  exact ⟨_, rfl, h.symm⟩

theorem rewrapC_err {α} {a : Out α} {e : Err} (h : rewrapC a = .err e) : (∃ e', a = .err e') ∧ e = ⟨true, []⟩ := by
  cases a <;> simp [rewrapC, cerr] at h
  exact ⟨⟨_, rfl⟩, h.symm⟩

theorem rewrapP_err {α} {a : Out α} {e : Err} (h : rewrapP a = .err e) : (∃ e', a = .err e') ∧ e = ⟨false, []⟩ := by
  cases a <;> simp [rewrapP, plain] at h
  exact ⟨⟨_, rfl⟩, h.symm⟩

theorem cerr_eq {α} {e : Err} (h : (cerr : Out α) = .err e) : e = ⟨true, []⟩ := by
  simp [cerr] at h; exact h.symm

theorem plain_eq {α} {e : Err} (h : (plain : Out α) = .err e) : e = ⟨false, []⟩ := by
  simp [plain] at h; exact h.symm

theorem checkInt_err {a b : Option Int} {n : Int} {e : Err} (h : checkInt a b n = .err e) : e = ⟨true, []⟩ := by
  unfold checkInt at h
  (repeat' split at h) <;> simp [cerr] at h <;> exact h.symm

theorem checkLen_err {a b : Option Int} {n : Nat} {e : Err} (h : checkLen a b n = .err e) : e = ⟨true, []⟩ := by
  unfold checkLen at h
  (repeat' split at h) <;> simp [cerr] at h <;> exact h.symm

theorem checkFloat_err {a b : Option Nat} {n : Nat} {e : Err} (h : checkFloat a b n = .err e) : e = ⟨true, []⟩ := by
  unfold checkFloat at h
  (repeat' split at h) <;> simp [cerr] at h <;> exact h.symm

theorem checkStr_err {x : Ext} {a b : Option Int} {p : Option String} {s : String} {e : Err}
    (h : checkStr x a b p s = .err e) : e = ⟨true, []⟩ := by
  unfold checkStr at h
  cases hl : checkLen a b s.utf8ByteSize with
  | ok u =>
    rw [hl] at h
    simp only at h
    (repeat' split at h) <;> simp [cerr] at h <;> exact h.symm
  | err e' =>
    rw [hl] at h
    simp at h
    subst h
    exact checkLen_err hl
  | panic => rw [hl] at h; simp at h
  | fuel => rw [hl] at h; simp at h

theorem asInt_err {v : V} {e : Err} (h : asInt v = .err e) : e = ⟨true, []⟩ := by
  unfold asInt at h
  (repeat' split at h) <;> simp [cerr] at h <;> exact h.symm

theorem asFloat_err {v : V} {e : Err} (h : asFloat v = .err e) : e = ⟨true, []⟩ := by
  unfold asFloat at h
  (repeat' split at h) <;> simp [cerr] at h <;> exact h.symm

theorem asString_err {v : V} {e : Err} (h : asString v = .err e) : e = ⟨true, []⟩ := by
  unfold asString at h
  (repeat' split at h) <;> simp [cerr] at h <;> exact h.symm

theorem asBool_err {v : V} {e : Err} (h : asBool v = .err e) : e = ⟨true, []⟩ := by
  unfold asBool at h
  (repeat' split at h) <;> simp [cerr] at h <;> exact h.symm

theorem boolInputMapper_err {v : V} {e : Err} (h : boolInputMapper v = .err e) : e = ⟨true, []⟩ := by
  unfold boolInputMapper at h
  split at h
  · simp at h
  · split at h <;> simp [cerr] at h
    exact h.symm
  · simp only at h
    (repeat' split at h) <;> simp [cerr] at h
    exact h.symm
  · simp [cerr] at h
    exact h.symm

/-! ### scalars: every rejection, under every operation, is a constraint error without path -/

theorem runInt_err {op : Op} {a b : Option Int} {u : Option Units} {v : V} {e : Err}
    (h : runInt op a b u v = .err e) : e = ⟨true, []⟩ := by
  unfold runInt at h
  cases op <;> simp only at h <;> rcases bind_err h with h1 | ⟨_, _, h2⟩
  all_goals first
    | exact (rewrapC_err h1).2
    | exact asInt_err h1
    | (rcases bind_err h2 with h3 | ⟨_, _, h4⟩
       · exact checkInt_err h3
       · simp [done] at h4)

theorem runFloat_err {x : Ext} {op : Op} {a b : Option Nat} {u : Option Units} {v : V} {e : Err}
    (h : runFloat x op a b u v = .err e) : e = ⟨true, []⟩ := by
  unfold runFloat at h
  cases op <;> simp only at h <;> rcases bind_err h with h1 | ⟨_, _, h2⟩
  all_goals first
    | exact (rewrapC_err h1).2
    | exact asFloat_err h1
    | (rcases bind_err h2 with h3 | ⟨_, _, h4⟩
       · exact checkFloat_err h3
       · simp [done] at h4)

theorem runStr_err {x : Ext} {op : Op} {a b : Option Int} {p : Option String} {v : V} {e : Err}
    (h : runStr x op a b p v = .err e) : e = ⟨true, []⟩ := by
  unfold runStr at h
  cases op <;> simp only at h
  case C =>
    split at h
    · rcases bind_err h with h3 | ⟨_, _, h4⟩
      · exact checkStr_err h3
      · simp [done] at h4
    · exact cerr_eq h
  all_goals
    rcases bind_err h with h1 | ⟨_, _, h2⟩
    · first
      | exact (rewrapC_err h1).2
      | exact asString_err h1
    · rcases bind_err h2 with h3 | ⟨_, _, h4⟩
      · exact checkStr_err h3
      · simp [done] at h4

theorem runBool_err {op : Op} {v : V} {e : Err} (h : runBool op v = .err e) : e = ⟨true, []⟩ := by
  unfold runBool at h
  cases op <;> simp only at h <;> rcases bind_err h with h1 | ⟨_, _, h2⟩
  all_goals first
    | exact boolInputMapper_err h1
    | exact asBool_err h1
    | simp [done] at h2

theorem runPattern_err {x : Ext} {op : Op} {v : V} {e : Err} (h : runPattern x op v = .err e) : e = ⟨true, []⟩ := by
  unfold runPattern at h
  cases op <;> simp only at h
  case U =>
    rcases bind_err h with h1 | ⟨_, _, h2⟩
    · exact (rewrapC_err h1).2
    · split at h2
      · simp at h2
      · exact cerr_eq h2
  all_goals
    split at h
    · simp [done] at h
    · exact cerr_eq h

theorem runEnumInt_err {op : Op} {vals : List Int} {u : Option Units} {v : V} {e : Err}
    (h : runEnumInt op vals u v = .err e) : e = ⟨true, []⟩ := by
  unfold runEnumInt at h
  cases op <;> simp only at h <;> rcases bind_err h with h1 | ⟨_, _, h2⟩
  all_goals first
    | exact (rewrapC_err h1).2
    | exact asInt_err h1
    | (split at h2
       · simp [done] at h2
       · exact cerr_eq h2)

theorem runEnumStr_err {x : Ext} {op : Op} {vals : List String} {v : V} {e : Err}
    (h : runEnumStr x op vals v = .err e) : e = ⟨true, []⟩ := by
  unfold runEnumStr at h
  cases op <;> simp only at h <;> rcases bind_err h with h1 | ⟨_, _, h2⟩
  all_goals first
    | exact (rewrapC_err h1).2
    | exact asString_err h1
    | (split at h2
       · simp [done] at h2
       · exact cerr_eq h2)

/-! ### traversals: the error of a traversal is the error of one of its elements -/

theorem forIdx_err {f : Nat → V → Out V} {e : Err} : ∀ {n : Nat} {xs : List V}, forIdx f n xs = .err e →
    ∃ i a, xs[i]? = some a ∧ f (n + i) a = .err e
  | _, [], h => by simp [forIdx] at h
  | n, a :: xs, h => by
    simp only [forIdx] at h
    cases ha : f n a with
    | ok y =>
      rw [ha] at h
      simp only at h
      cases hr : forIdx f (n + 1) xs with
      | ok ys => rw [hr] at h; simp at h
      | err e' =>
        rw [hr] at h
        simp at h
        subst h
        obtain ⟨i, b, hi, hb⟩ := forIdx_err hr
        exact ⟨i + 1, b, by simpa using hi, by simpa [Nat.add_assoc, Nat.add_comm 1] using hb⟩
      | panic => rw [hr] at h; simp at h
      | fuel => rw [hr] at h; simp at h
    | err e' =>
      rw [ha] at h
      simp at h
      subst h
      exact ⟨0, a, by simp, by simpa using ha⟩
    | panic => rw [ha] at h; simp at h
    | fuel => rw [ha] at h; simp at h

theorem forKV_err {f : V → V → Out (V × V)} {e : Err} : ∀ {kvs : List (V × V)}, forKV f kvs = .err e →
    ∃ k a, (k, a) ∈ kvs ∧ f k a = .err e
  | [], h => by simp [forKV] at h
  | (k, a) :: rest, h => by
    simp only [forKV] at h
    cases ha : f k a with
    | ok y =>
      rw [ha] at h
      simp only at h
      cases hr : forKV f rest with
      | ok ys => rw [hr] at h; simp at h
      | err e' =>
        rw [hr] at h
        simp at h
        subst h
        obtain ⟨k', b, hi, hb⟩ := forKV_err hr
        exact ⟨k', b, List.mem_cons_of_mem _ hi, hb⟩
      | panic => rw [hr] at h; simp at h
      | fuel => rw [hr] at h; simp at h
    | err e' =>
      rw [ha] at h
      simp at h
      subst h
      exact ⟨k, a, List.mem_cons_self, ha⟩
    | panic => rw [ha] at h; simp at h
    | fuel => rw [ha] at h; simp at h

theorem forSV_err {f : String → V → Out V} {e : Err} : ∀ {kvs : List (String × V)}, forSV f kvs = .err e →
    ∃ k a, (k, a) ∈ kvs ∧ f k a = .err e
  | [], h => by simp [forSV] at h
  | (k, a) :: rest, h => by
    simp only [forSV] at h
    cases ha : f k a with
    | ok y =>
      rw [ha] at h
      simp only at h
      cases hr : forSV f rest with
      | ok ys => rw [hr] at h; simp at h
      | err e' =>
        rw [hr] at h
        simp at h
        subst h
        obtain ⟨k', b, hi, hb⟩ := forSV_err hr
        exact ⟨k', b, List.mem_cons_of_mem _ hi, hb⟩
      | panic => rw [hr] at h; simp at h
      | fuel => rw [hr] at h; simp at h
    | err e' =>
      rw [ha] at h
      simp at h
      subst h
      exact ⟨k, a, List.mem_cons_self, ha⟩
    | panic => rw [ha] at h; simp at h
    | fuel => rw [ha] at h; simp at h

/-! ### lists -/

end PL

/-- the operation a container's pass runs on its elements: the same one, and Serialize validates
    every element first -/
def SubOp (op op' : Op) : Prop := op' = op ∨ (op = .S ∧ op' = .V)

namespace PL

/-- A list level's error is its own (not a slice, length bounds) or the error of ONE element under
    the item schema with `[i]` prefixed. -/
theorem runList_err {rec : Rec} {op : Op} {env : Env} {item : Ty} {mn mx : Option Int} {v : V} {e : Err}
    (h : runList rec op env item mn mx v = .err e) :
    e = ⟨true, []⟩ ∨
    ∃ xs i a e' op', v.sliceElems? = some xs ∧ xs[i]? = some a ∧ SubOp op op' ∧
      rec op' env item a = .err e' ∧ e = ⟨true, idxSeg i :: e'.path⟩ := by
  unfold runList at h
  split at h
  · exact Or.inl (cerr_eq h)
  · rename_i xs hxs
    have elem : ∀ {op' : Op} {e : Err}, SubOp op op' →
        forIdx (fun i a => (rec op' env item a).addSeg (idxSeg i)) 0 xs = .err e →
        ∃ xs i a e' op', v.sliceElems? = some xs ∧ xs[i]? = some a ∧ SubOp op op' ∧
          rec op' env item a = .err e' ∧ e = ⟨true, idxSeg i :: e'.path⟩ := by
      intro op' e hop hf
      obtain ⟨i, a, hi, ha⟩ := forIdx_err hf
      obtain ⟨e', he', hee⟩ := addSeg_err ha
      exact ⟨xs, i, a, e', op', hxs, hi, hop, he', by simpa using hee⟩
    cases op <;> simp only at h
    · rcases bind_err h with h1 | ⟨_, _, h2⟩
      · exact Or.inl (checkLen_err h1)
      · rcases bind_err h2 with h3 | ⟨_, _, h4⟩
        · exact Or.inr (elem (Or.inl rfl) h3)
        · simp at h4
    · rcases bind_err h with h1 | ⟨_, _, h2⟩
      · exact Or.inl (checkLen_err h1)
      · rcases bind_err h2 with h3 | ⟨_, _, h4⟩
        · exact Or.inr (elem (Or.inl rfl) h3)
        · simp [done] at h4
    · rcases bind_err h with h1 | ⟨_, _, h2⟩
      · exact Or.inl (checkLen_err h1)
      · rcases bind_err h2 with h3 | ⟨_, _, h4⟩
        · exact Or.inr (elem (Or.inr ⟨rfl, rfl⟩) h3)
        · rcases bind_err h4 with h5 | ⟨_, _, h6⟩
          · exact Or.inr (elem (Or.inl rfl) h5)
          · simp at h6
    · rcases bind_err h with h3 | ⟨_, _, h4⟩
      · exact Or.inr (elem (Or.inl rfl) h3)
      · simp [done] at h4

/-! ### maps -/

theorem entryKV_err {rec : Rec} {op : Op} {env : Env} {kt vt : Ty} {k a : V} {e : Err}
    (h : entryKV rec op env kt vt k a = .err e) :
    (∃ e', rec op env kt k = .err e' ∧ e = ⟨true, keySeg k :: e'.path⟩) ∨
    (∃ e', rec op env vt a = .err e' ∧ e = ⟨true, valSeg k :: e'.path⟩) := by
  unfold entryKV at h
  rcases bind_err h with h1 | ⟨_, _, h2⟩
  · exact Or.inl (addSeg_err h1)
  · rcases bind_err h2 with h3 | ⟨_, _, h4⟩
    · exact Or.inr (addSeg_err h3)
    · simp at h4

/-- A map level's error is its own (not a map, length bounds, duplicate key after conversion) or
    the error of ONE key under the key schema with `{k}` prefixed, or of ONE value under the value
    schema with `[k]` prefixed; `k` is the raw key as formatted by `%v`. -/
theorem runMap_err {rec : Rec} {op : Op} {env : Env} {kt vt : Ty} {mn mx : Option Int} {v : V} {e : Err}
    (h : runMap rec op env kt vt mn mx v = .err e) :
    e = ⟨true, []⟩ ∨
    ∃ sh kvs k a e' op', v.mapEntries? = some (sh, kvs) ∧ (k, a) ∈ kvs ∧ SubOp op op' ∧
      ((rec op' env kt k = .err e' ∧ e = ⟨true, keySeg k :: e'.path⟩) ∨
       (rec op' env vt a = .err e' ∧ e = ⟨true, valSeg k :: e'.path⟩)) := by
  unfold runMap at h
  split at h
  · exact Or.inl (cerr_eq h)
  · rename_i sh kvs hm
    have elem : ∀ {op' : Op} {e : Err}, SubOp op op' → forKV (entryKV rec op' env kt vt) kvs = .err e →
        ∃ sh' kvs' k a e' op', v.mapEntries? = some (sh', kvs') ∧ (k, a) ∈ kvs' ∧ SubOp op op' ∧
          ((rec op' env kt k = .err e' ∧ e = ⟨true, keySeg k :: e'.path⟩) ∨
           (rec op' env vt a = .err e' ∧ e = ⟨true, valSeg k :: e'.path⟩)) := by
      intro op' e hop hf
      obtain ⟨k, a, hi, ha⟩ := forKV_err hf
      rcases entryKV_err ha with ⟨e', h1, h2⟩ | ⟨e', h1, h2⟩
      · exact ⟨sh, kvs, k, a, e', op', hm, hi, hop, Or.inl ⟨h1, h2⟩⟩
      · exact ⟨sh, kvs, k, a, e', op', hm, hi, hop, Or.inr ⟨h1, h2⟩⟩
    rcases bind_err h with h1 | ⟨_, _, h2⟩
    · exact Or.inl (checkLen_err h1)
    · cases op <;> simp only at h2
      · rcases bind_err h2 with h3 | ⟨_, _, h4⟩
        · exact Or.inr (elem (Or.inl rfl) h3)
        · split at h4
          · exact Or.inl (cerr_eq h4)
          · simp at h4
      · rcases bind_err h2 with h3 | ⟨_, _, h4⟩
        · exact Or.inr (elem (Or.inl rfl) h3)
        · simp [done] at h4
      · rcases bind_err h2 with h3 | ⟨_, _, h4⟩
        · exact Or.inr (elem (Or.inr ⟨rfl, rfl⟩) h3)
        · rcases bind_err h4 with h5 | ⟨_, _, h6⟩
          · exact Or.inr (elem (Or.inl rfl) h5)
          · simp at h6
      · rcases bind_err h2 with h3 | ⟨_, _, h4⟩
        · exact Or.inr (elem (Or.inl rfl) h3)
        · simp [done] at h4

/-! ### any-schema -/

theorem under_of_not_named {k : V} (h : ∀ w, k = .named w → False) : k.under = k := by
  cases k <;> simp [V.under]
  exact (h _ rfl).elim

theorem anyConvert_fmtKey {n : Nat} {k k' : V} (h : anyConvert n k = .ok k') : fmtKey k' = fmtKey k := by
  cases n with
  | zero => simp [anyConvert] at h
  | succ n =>
    unfold anyConvert at h
    split at h
    · rename_i kd m hu
      have fk : fmtKey k = fmtInt m := by simp only [fmtKey, hu]
      split at h
      · simp at h; subst h; rw [fk]; simp [fmtKey, V.under]
      · split at h
        · simp [plain] at h
        · rename_i hnn
          obtain ⟨r, h1, h2⟩ := bind_eq_ok h
          simp at h2; subst h2
          rw [under_of_not_named hnn] at hu
          subst hu
          simp only [intInputMapper] at h1
          split at h1 <;> simp [plain] at h1
          subst h1
          rw [fk]; simp [fmtKey, V.under]
    · rename_i fkd b hu
      have fk : fmtKey k = "?" := by simp only [fmtKey, hu]
      split at h
      · simp at h; subst h; rw [fk]; simp [fmtKey, V.under]
      · split at h
        · simp [plain] at h
        · simp at h; subst h; rw [fk]; simp [fmtKey, V.under]
    · rename_i s hu
      have fk : fmtKey k = s := by simp only [fmtKey, hu]
      simp at h; subst h
      rw [fk]; simp [fmtKey, V.under]
    · rename_i b hu
      have fk : fmtKey k = if b then "true" else "false" := by simp only [fmtKey, hu]
      simp at h; subst h
      rw [fk]; simp [fmtKey, V.under]
    · rename_i xs hu
      have fk : fmtKey k = "?" := by simp only [fmtKey, hu]
      obtain ⟨r, h1, h2⟩ := bind_eq_ok h
      simp at h2; subst h2
      rw [fk]; simp [fmtKey, V.under]
    · rename_i xs hu
      have fk : fmtKey k = "?" := by simp only [fmtKey, hu]
      obtain ⟨r, h1, h2⟩ := bind_eq_ok h
      simp at h2; subst h2
      rw [fk]; simp [fmtKey, V.under]
    · rename_i sh kvs hu
      have fk : fmtKey k = "?" := by simp only [fmtKey, hu]
      obtain ⟨r, h1, h2⟩ := bind_eq_ok h
      split at h2 <;> simp [cerr] at h2
      subst h2
      rw [fk]; simp [fmtKey, V.under, MapShape.anyAny]
    · simp [cerr] at h


theorem intInputMapper_err {u : Option Units} {v : V} {e : Err} (h : intInputMapper u v = .err e) : e = ⟨false, []⟩ := by
  unfold intInputMapper at h
  (repeat' split at h) <;> simp [plain] at h <;> exact h.symm

/-- An any-schema's conversion error is its own (empty path) or the error of ONE element, key or
    value of the slice / map with the segment prefixed. -/
theorem anyConvert_err {n : Nat} {v : V} {e : Err} (h : anyConvert n v = .err e) :
    e.path = [] ∨
    ∃ m, n = m + 1 ∧
      ((∃ xs i a e', v.under.sliceElems? = some xs ∧ xs[i]? = some a ∧ anyConvert m a = .err e' ∧
          e = ⟨true, idxSeg i :: e'.path⟩) ∨
       (∃ sh kvs k a e', v.under = .map sh kvs ∧ (k, a) ∈ kvs ∧
          ((anyConvert m k = .err e' ∧ e = ⟨true, keySeg k :: e'.path⟩) ∨
           (anyConvert m a = .err e' ∧ e = ⟨true, valSeg k :: e'.path⟩)))) := by
  cases n with
  | zero => simp [anyConvert] at h
  | succ n =>
    unfold anyConvert at h
    have elems : ∀ {xs : List V}, v.under.sliceElems? = some xs →
        forIdx (fun i x => (anyConvert n x).addSeg ("[" ++ toString i ++ "]")) 0 xs = .err e →
        ∃ xs i a e', v.under.sliceElems? = some xs ∧ xs[i]? = some a ∧ anyConvert n a = .err e' ∧
          e = ⟨true, idxSeg i :: e'.path⟩ := by
      intro xs hxs hf
      obtain ⟨i, a, hi, ha⟩ := forIdx_err hf
      obtain ⟨e', he', hee⟩ := addSeg_err ha
      exact ⟨xs, i, a, e', hxs, hi, he', by simpa [idxSeg] using hee⟩
    split at h
    · split at h
      · simp at h
      · split at h
        · left; rw [plain_eq h]
        · rcases bind_err h with h1 | ⟨_, _, h2⟩
          · left; rw [intInputMapper_err h1]
          · simp at h2
    · split at h
      · simp at h
      · split at h
        · left; rw [plain_eq h]
        · simp at h
    · simp at h
    · simp at h
    · rename_i xs hu
      rcases bind_err h with h1 | ⟨_, _, h2⟩
      · exact Or.inr ⟨n, rfl, Or.inl (elems (by rw [hu]; rfl) h1)⟩
      · simp at h2
    · rename_i b hu
      rcases bind_err h with h1 | ⟨_, _, h2⟩
      · exact Or.inr ⟨n, rfl, Or.inl (elems (by rw [hu]; rfl) h1)⟩
      · simp at h2
    · rename_i sh kvs hu
      rcases bind_err h with h1 | ⟨_, _, h2⟩
      · obtain ⟨k, a, hi, ha⟩ := forKV_err h1
        refine Or.inr ⟨n, rfl, Or.inr ⟨sh, kvs, k, a, ?_⟩⟩
        rcases bind_err ha with h3 | ⟨k', hk', h4⟩
        · obtain ⟨e', he', hee⟩ := addSeg_err h3
          exact ⟨e', hu, hi, Or.inl ⟨he', by simpa [keySeg] using hee⟩⟩
        · rcases bind_err h4 with h5 | ⟨_, _, h6⟩
          · obtain ⟨e', he', hee⟩ := addSeg_err h5
            rw [anyConvert_fmtKey (addSeg_eq_ok.mp hk')] at hee
            exact ⟨e', hu, hi, Or.inr ⟨he', by simpa [valSeg] using hee⟩⟩
          · simp at h6
      · split at h2
        · left; rw [cerr_eq h2]
        · simp at h2
    · left; rw [cerr_eq h]

end PL

/-! ### objects -/

/-- The property map an object's Unserialize works on: the supplied entries followed by the
    defaults of absent properties; for the single-property shorthand, the lone value under the
    single property's name. `none` when the level rejects before looking at any property. -/
def objInput (props : List (String × PropT)) (v : V) : Option (List (String × V)) :=
  match v.mapEntries? with
  | none =>
    match props with
    | [(name, _)] => some [(name, v)]
    | _ => none
  | some (_, kvs) =>
    match strKeys? kvs with
    | none => none
    | some skvs =>
      match applyDefaults props skvs with
      | .ok m => some m
      | _ => none

/-- The property values an object level hands to its property schemas under operation `op`:
    `objInput` for Unserialize, the entries of the `map[string]any` for the operations on native
    values. -/
def objEntries (op : Op) (props : List (String × PropT)) (v : V) : Option (List (String × V)) :=
  match op with
  | .U => objInput props v
  | _ =>
    match v with
    | .map ⟨.string, true⟩ kvs => strKeys? kvs
    | _ => none

namespace PL

theorem applyDefaults_not_err : ∀ (props : List (String × PropT)) (m : List (String × V)) (e : Err),
    applyDefaults props m ≠ .err e
  | [], m, e => by simp [applyDefaults]
  | (id, p) :: rest, m, e => by
    simp only [applyDefaults]
    split
    · exact applyDefaults_not_err rest m e
    · split
      · exact applyDefaults_not_err rest m e
      · simp
      · exact applyDefaults_not_err rest _ e

theorem interdeps_go_cons (isSet : String → Bool) (id : String) (p : PropT) (rest : List (String × PropT)) :
    interdeps.go isSet ((id, p) :: rest) =
      if (interdeps.go isSet [(id, p)]).isOk then interdeps.go isSet rest else .cerrAt [id] := by
  simp only [interdeps.go]
  split <;> split <;> simp_all [cerrAt, Out.isOk]

theorem interdeps_go_single_iff (isSet : String → Bool) (id : String) (p : PropT) :
    (interdeps.go isSet [(id, p)]).isOk = true ↔ RuleHolds isSet id p := by
  have : (interdeps.go isSet [(id, p)]).isOk = true ↔ interdeps.go isSet [(id, p)] = .ok () := by
    cases interdeps.go isSet [(id, p)] <;> simp [Out.isOk]
  rw [this, interdeps_go_ok_iff]
  constructor
  · intro h; exact h (id, p) (by simp)
  · intro h np hnp; simp at hnp; subst hnp; exact h

/-- a violated presence rule is reported under the name of the property that declares it -/
theorem interdeps_go_err (isSet : String → Bool) : ∀ (props : List (String × PropT)) (e : Err),
    interdeps.go isSet props = .err e → ∃ id p, (id, p) ∈ props ∧ ¬ RuleHolds isSet id p ∧ e = ⟨true, [id]⟩
  | [], e, h => by simp [interdeps.go] at h
  | (id, p) :: rest, e, h => by
    rw [interdeps_go_cons] at h
    split at h
    · obtain ⟨id', p', hm, hn, he⟩ := interdeps_go_err isSet rest e h
      exact ⟨id', p', List.mem_cons_of_mem _ hm, hn, he⟩
    · rename_i hb
      refine ⟨id, p, List.mem_cons_self, fun hr => hb ((interdeps_go_single_iff _ _ _).mpr hr), ?_⟩
      simp [cerrAt] at h
      exact h.symm

theorem interdeps_err {props : List (String × PropT)} {isSet : String → Bool} {e : Err}
    (h : interdeps props isSet = .err e) : ∃ id p, (id, p) ∈ props ∧ ¬ RuleHolds isSet id p ∧ e = ⟨true, [id]⟩ := by
  unfold interdeps at h
  exact interdeps_go_err isSet props e h

theorem mapEntries_eq {v : V} {sh : MapShape} {kvs : List (V × V)} (h : v.mapEntries? = some (sh, kvs)) :
    v = .map sh kvs := by
  cases v <;> simp [V.mapEntries?] at h
  obtain ⟨h1, h2⟩ := h
  subst h1; subst h2; rfl

theorem ruleHolds_congr {f g : String → Bool} (h : ∀ k, f k = g k) (id : String) (p : PropT) :
    RuleHolds f id p ↔ RuleHolds g id p := by
  have : f = g := funext h
  subst this
  exact Iff.rfl

/-- the part of `ObjectSchema.Unserialize` before the presence rules -/
theorem objRaw_err {rec : Rec} {env : Env} {props : List (String × PropT)} {v : V} {e : Err}
    (h : objRaw rec env props v = .err e) :
    e = ⟨true, []⟩ ∨
    (e = ⟨false, []⟩ ∧ v.mapEntries? = none ∧ ∃ name p, props = [(name, p)]) ∨
    ∃ m k d p, objInput props v = some m ∧ (k, d) ∈ m ∧ lookupS k props = some p ∧
      ((p.disabled = true ∧ e = ⟨true, [k]⟩) ∨
       (∃ e', rec .U env p.ty d = .err e' ∧ e = ⟨true, k :: e'.path⟩)) := by
  unfold objRaw at h
  split at h
  · rename_i hv
    split at h
    · rename_i name p
      right; left
      split at h
      · exact ⟨plain_eq h, hv, name, p, rfl⟩
      · rcases bind_err h with h1 | ⟨_, _, h2⟩
        · exact ⟨(rewrapP_err h1).2, hv, name, p, rfl⟩
        · simp at h2
    · left; exact cerr_eq h
  · rename_i sh kvs hv
    split at h
    · left; exact cerr_eq h
    · rename_i skvs hs
      split at h
      · left; exact cerr_eq h
      · rcases bind_err h with h1 | ⟨m, hm, h2⟩
        · exact absurd h1 (applyDefaults_not_err _ _ _)
        · obtain ⟨k, d, hkd, hf⟩ := forSV_err h2
          unfold objEntryU at hf
          split at hf
          · left; exact cerr_eq hf
          · rename_i p hp
            right; right
            have hin : objInput props v = some m := by simp [objInput, hv, hs, hm]
            refine ⟨m, k, d, p, hin, hkd, hp, ?_⟩
            split at hf
            · rename_i hd
              left
              simp [cerrAt] at hf
              exact ⟨hd, hf.symm⟩
            · right
              exact addSeg_err hf

theorem objRaw_ok_keys {rec : Rec} {env : Env} {props : List (String × PropT)} {v : V} {m' : List (String × V)}
    (h : objRaw rec env props v = .ok m') : ∃ m, objInput props v = some m ∧ ∀ k, hasKey k m' = hasKey k m := by
  unfold objRaw at h
  split at h
  · rename_i hv
    split at h
    · rename_i name p
      split at h
      · simp [plain] at h
      · obtain ⟨r, _, h2⟩ := bind_eq_ok h
        simp at h2
        subst h2
        exact ⟨[(name, v)], by simp [objInput, hv], fun k => by simp only [hasKey, lookupS]; split <;> rfl⟩
    · simp [cerr] at h
  · rename_i sh kvs hv
    split at h
    · simp [cerr] at h
    · rename_i skvs hs
      split at h
      · simp [cerr] at h
      · obtain ⟨m, hm, h2⟩ := bind_eq_ok h
        exact ⟨m, by simp [objInput, hv, hs, hm], fun k => C03_unser_keeps_keys props m m' k h2⟩

/-- the shape of an object level's error (see `runObj_err`) -/
def ObjErr (rec : Rec) (op : Op) (env : Env) (props : List (String × PropT)) (v : V) (e : Err) : Prop :=
  e = ⟨true, []⟩ ∨
  (op = .U ∧ e = ⟨false, []⟩ ∧ v.mapEntries? = none ∧ ∃ name p, props = [(name, p)]) ∨
  ∃ m, objEntries op props v = some m ∧
    ((∃ k d p e', (k, d) ∈ m ∧ lookupS k props = some p ∧ rec op env p.ty d = .err e' ∧ e = ⟨true, k :: e'.path⟩) ∨
     (∃ k d p, op = .U ∧ (k, d) ∈ m ∧ lookupS k props = some p ∧ p.disabled = true ∧ e = ⟨true, [k]⟩) ∨
     (∃ name p, (name, p) ∈ props ∧ ¬ RuleHolds (fun k => hasKey k m) name p ∧ e = ⟨true, [name]⟩))

theorem runObj_VS_err {rec : Rec} {op : Op} {env : Env} {props : List (String × PropT)} {v : V} {e : Err}
    (hne : op ≠ .U)
    (h : (match v with
      | .map ⟨.string, true⟩ kvs =>
        match strKeys? kvs with
        | none => .cerr
        | some m =>
          (interdeps props (fun k => hasKey k m)).bind fun _ =>
            (forSV (objEntry rec op env props) m).bind fun m' =>
              if op == .V then done else .ok (toStrAny m')
      | _ => .cerr) = Out.err e) : ObjErr rec op env props v e := by
  split at h
  · rename_i kvs
    split at h
    · left; exact cerr_eq h
    · rename_i m hs
      have hin : objEntries op props (.map ⟨.string, true⟩ kvs) = some m := by
        cases op <;> simp [objEntries, hs] at hne ⊢
      rcases bind_err h with h1 | ⟨_, _, h2⟩
      · obtain ⟨name, p, hm, hn, he⟩ := interdeps_err h1
        exact Or.inr (Or.inr ⟨m, hin, Or.inr (Or.inr ⟨name, p, hm, hn, he⟩)⟩)
      · rcases bind_err h2 with h3 | ⟨_, _, h4⟩
        · obtain ⟨k, d, hkd, hf⟩ := forSV_err h3
          unfold objEntry at hf
          split at hf
          · left; exact cerr_eq hf
          · rename_i p hp
            obtain ⟨e', he', hee⟩ := addSeg_err hf
            exact Or.inr (Or.inr ⟨m, hin, Or.inl ⟨k, d, p, e', hkd, hp, he', hee⟩⟩)
        · split at h4 <;> simp [done] at h4
  · left; exact cerr_eq h

/-- An object level's error: its own (wrong kind, non-string or undeclared key, shorthand), the
    error of ONE present property's value under the property's schema with the property name
    prefixed, or - naming a property although the fault is the object's - a present disabled
    property or a violated presence rule. -/
theorem runObj_err {rec : Rec} {op : Op} {env : Env} {id : String} {props : List (String × PropT)} {v : V} {e : Err}
    (hop : op ≠ .C) (h : runObj rec op env id props v = .err e) : ObjErr rec op env props v e := by
  unfold runObj at h
  cases op <;> simp only at h
  · rcases bind_err h with h1 | ⟨m', hm', h2⟩
    · rcases objRaw_err h1 with h3 | ⟨h3, h4, h5⟩ | ⟨m, k, d, p, hin, hkd, hp, h6⟩
      · exact Or.inl h3
      · exact Or.inr (Or.inl ⟨rfl, h3, h4, h5⟩)
      · refine Or.inr (Or.inr ⟨m, hin, ?_⟩)
        rcases h6 with ⟨hd, he⟩ | ⟨e', he', hee⟩
        · exact Or.inr (Or.inl ⟨k, d, p, rfl, hkd, hp, hd, he⟩)
        · exact Or.inl ⟨k, d, p, e', hkd, hp, he', hee⟩
    · obtain ⟨m, hin, hkeys⟩ := objRaw_ok_keys hm'
      rcases bind_err h2 with h3 | ⟨_, _, h4⟩
      · obtain ⟨name, p, hm, hn, he⟩ := interdeps_err h3
        refine Or.inr (Or.inr ⟨m, hin, Or.inr (Or.inr ⟨name, p, hm, ?_, he⟩)⟩)
        exact fun hr => hn ((ruleHolds_congr hkeys name p).mpr hr)
      · simp at h4
  · exact runObj_VS_err (by simp) h
  · exact runObj_VS_err (by simp) h
  · exact absurd rfl hop

end PL

/-! ### one-of -/

/-- the discriminator of a NATIVE value is exactly typed: an `int64` for an integer-keyed one-of,
    a `string` otherwise (`selectMember`); compare `DiscDenotes` for raw input -/
def NativeDisc (intKey : Bool) (d : V) (key : Key) : Prop :=
  if intKey then ∃ n, d = .int .int64 n ∧ key = .i n else ∃ s, d = .str s ∧ key = .s s

namespace PL

theorem oneOfSelect_err {rec : Rec} {env : Env} {ik : Bool} {disc : String} {inl : Bool} {ms : List (Key × Ty)}
    {m : List (String × V)} {e : Err} (h : oneOfSelect rec env ik disc inl ms false m = .err e) : e = ⟨true, []⟩ := by
  unfold oneOfSelect at h
  simp only at h
  split at h
  · exact cerr_eq h
  · split at h
    · exact cerr_eq h
    · simp at h

theorem oneOfSelect_ok {rec : Rec} {env : Env} {ik : Bool} {disc : String} {inl : Bool} {ms : List (Key × Ty)}
    {m : List (String × V)} {sel : Key × Ty × List (String × V)}
    (h : oneOfSelect rec env ik disc inl ms false m = .ok sel) :
    ∃ d, lookupS disc m = some d ∧ NativeDisc ik d sel.1 ∧ lookupK sel.1 ms = some sel.2.1 ∧
      sel.2.2 = if inl then m else eraseKey disc m := by
  unfold oneOfSelect at h
  simp only at h
  split at h
  · simp [cerr] at h
  · rename_i key hkey
    split at h
    · simp [cerr] at h
    · rename_i mt hmt
      simp at h
      subst h
      split at hkey
      · rename_i n hl
        refine ⟨_, hl, ?_, hmt, rfl⟩
        unfold NativeDisc
        split at hkey <;> simp_all
      · rename_i s hl
        refine ⟨_, hl, ?_, hmt, rfl⟩
        unfold NativeDisc
        split at hkey <;> simp_all
      · simp at hkey

/-- the shape of a one-of level's error under Unserialize -/
theorem oneOfUnser_err {rec : Rec} {x : Ext} {env : Env} {ik : Bool} {disc : String} {inl : Bool}
    {ms : List (Key × Ty)} {v : V} {e : Err} (h : oneOfUnser rec x env ik disc inl ms v = .err e) :
    e = ⟨true, []⟩ ∨ (e = ⟨false, []⟩ ∧ v = .nil) ∨
    ∃ sh kvs dk d key m mt, v = .map sh kvs ∧ (sh.key = .any ∨ sh.key = .string) ∧
      kvs.find? (isDiscKey disc) = some (dk, d) ∧ DiscDenotes x ik d key ∧ strKeys? kvs = some m ∧
      lookupK key ms = some mt ∧ rec .U env mt (toStrAny (if inl then m else eraseKey disc m)) = .err e := by
  unfold oneOfUnser at h
  split at h
  · exact Or.inr (Or.inl ⟨plain_eq h, rfl⟩)
  · split at h
    · exact Or.inl (cerr_eq h)
    · rename_i sh kvs hv
      split at h
      · exact Or.inl (cerr_eq h)
      · rename_i hsh
        have hsh' : sh.key = .any ∨ sh.key = .string := by
          cases hk : sh.key <;> simp_all
        split at h
        · exact Or.inl (cerr_eq h)
        · rename_i dk d hfind
          rcases bind_err h with h1 | ⟨key, hkey, h2⟩
          · left
            split at h1
            · rcases bind_err h1 with h3 | ⟨_, _, h4⟩
              · exact (rewrapC_err h3).2
              · simp at h4
            · rcases bind_err h1 with h3 | ⟨_, _, h4⟩
              · exact (rewrapC_err h3).2
              · simp at h4
          · split at h2
            · exact Or.inl (cerr_eq h2)
            · rename_i m hm
              split at h2
              · exact Or.inl (cerr_eq h2)
              · rename_i mt hmt
                rcases bind_err h2 with h3 | ⟨r, _, h4⟩
                · exact Or.inr (Or.inr ⟨sh, kvs, dk, d, key, m, mt, mapEntries_eq hv, hsh', hfind,
                    (typedDisc_ok_iff _ _ _ _).mp hkey, hm, hmt, h3⟩)
                · left
                  split at h4
                  · split at h4
                    · simp at h4
                    · exact cerr_eq h4
                  · simp at h4

/-- the shape of a one-of level's error on a native value (Validate, Serialize): its own, or the
    selected member's - under Validate with the segment `{oneof[key]}` prefixed, under Serialize
    unchanged. -/
theorem runOneOf_VS_err {rec : Rec} {x : Ext} {op : Op} {env : Env} {ik : Bool} {disc : String} {inl : Bool}
    {ms : List (Key × Ty)} {v : V} {e : Err} (hop : op = .V ∨ op = .S)
    (h : runOneOf rec x op env ik disc inl ms v = .err e) :
    e = ⟨true, []⟩ ∨
    ∃ kvs m d key mt e', v = .map ⟨.string, true⟩ kvs ∧ strKeys? kvs = some m ∧ lookupS disc m = some d ∧
      NativeDisc ik d key ∧ lookupK key ms = some mt ∧
      rec op env mt (toStrAny (if inl then m else eraseKey disc m)) = .err e' ∧
      ((op = .V ∧ e = ⟨true, ("{oneof[" ++ key.fmt ++ "]}") :: e'.path⟩) ∨ (op = .S ∧ e = e')) := by
  unfold runOneOf at h
  rcases hop with hop | hop <;> subst hop <;> simp only at h
  · split at h
    · rename_i kvs
      split at h
      · exact Or.inl (cerr_eq h)
      · rename_i m hm
        rcases bind_err h with h1 | ⟨sel, hsel, h2⟩
        · exact Or.inl (oneOfSelect_err h1)
        · obtain ⟨d, hd, hnd, hmt, hcl⟩ := oneOfSelect_ok hsel
          rcases bind_err h2 with h3 | ⟨_, _, h4⟩
          · obtain ⟨e', he', hee⟩ := addSeg_err h3
            rw [hcl] at he'
            exact Or.inr ⟨kvs, m, d, sel.1, sel.2.1, e', rfl, hm, hd, hnd, hmt, he', Or.inl ⟨rfl, hee⟩⟩
          · simp [done] at h4
    · exact Or.inl (cerr_eq h)
  · split at h
    · rename_i kvs
      split at h
      · exact Or.inl (cerr_eq h)
      · rename_i m hm
        rcases bind_err h with h1 | ⟨sel, hsel, h2⟩
        · exact Or.inl (oneOfSelect_err h1)
        · obtain ⟨d, hd, hnd, hmt, hcl⟩ := oneOfSelect_ok hsel
          rcases bind_err h2 with h3 | ⟨r, _, h4⟩
          · rw [hcl] at h3
            exact Or.inr ⟨kvs, m, d, sel.1, sel.2.1, e, rfl, hm, hd, hnd, hmt, h3, Or.inr ⟨rfl, rfl⟩⟩
          · left
            split at h4
            · split at h4
              · simp at h4
              · exact cerr_eq h4
            · simp at h4
    · exact Or.inl (cerr_eq h)


theorem discDenotes_det {x : Ext} {ik : Bool} {d : V} {k1 k2 : Key} (h1 : DiscDenotes x ik d k1)
    (h2 : DiscDenotes x ik d k2) : k1 = k2 := by
  have a := (typedDisc_ok_iff x ik d k1).mpr h1
  have b := (typedDisc_ok_iff x ik d k2).mpr h2
  rw [a] at b
  simpa using b

theorem nativeDisc_det {ik : Bool} {d : V} {k1 k2 : Key} (h1 : NativeDisc ik d k1) (h2 : NativeDisc ik d k2) :
    k1 = k2 := by
  unfold NativeDisc at h1 h2
  cases ik
  · simp only [Bool.false_eq_true, if_false] at h1 h2
    obtain ⟨n, hd, hk⟩ := h1
    obtain ⟨n', hd', hk'⟩ := h2
    subst hd; cases hd'; rw [hk, hk']
  · simp only [if_true] at h1 h2
    obtain ⟨n, hd, hk⟩ := h1
    obtain ⟨n', hd', hk'⟩ := h2
    subst hd; cases hd'; rw [hk, hk']

/-- when the routing conditions hold the selected member IS evaluated, and an error of the one-of
    is the member's error or arises after the member succeeded -/
theorem oneOfUnser_member {rec : Rec} {x : Ext} {env : Env} {ik : Bool} {disc : String} {inl : Bool}
    {ms : List (Key × Ty)} {sh : MapShape} {kvs : List (V × V)} {dk d : V} {key : Key} {m : List (String × V)}
    {mt : Ty} {e : Err}
    (hsh : sh.key = .any ∨ sh.key = .string) (hfind : kvs.find? (isDiscKey disc) = some (dk, d))
    (hkey : DiscDenotes x ik d key) (hm : strKeys? kvs = some m) (hmt : lookupK key ms = some mt)
    (h : oneOfUnser rec x env ik disc inl ms (.map sh kvs) = .err e) :
    rec .U env mt (toStrAny (if inl then m else eraseKey disc m)) = .err e ∨
    ∃ r, rec .U env mt (toStrAny (if inl then m else eraseKey disc m)) = .ok r := by
  have hsh' : (sh.key == KeyTy.any || sh.key == KeyTy.string) = true := by
    rcases hsh with h | h <;> simp [h]
  have ht := (typedDisc_ok_iff x ik d key).mpr hkey
  simp only [oneOfUnser, V.mapEntries?, hsh', Bool.not_true, Bool.false_eq_true, if_false, hfind] at h
  rw [ht] at h
  simp only [Out.bind, hm, hmt] at h
  cases hr : rec .U env mt (toStrAny (if inl then m else eraseKey disc m)) with
  | ok r => exact Or.inr ⟨r, rfl⟩
  | err e' => rw [hr] at h; simp at h; subst h; exact Or.inl rfl
  | panic => rw [hr] at h; simp at h
  | fuel => rw [hr] at h; simp at h

theorem oneOfSelect_of {rec : Rec} {env : Env} {ik : Bool} {disc : String} {inl : Bool} {ms : List (Key × Ty)}
    {m : List (String × V)} {d : V} {key : Key} {mt : Ty} (hd : lookupS disc m = some d) (hnd : NativeDisc ik d key)
    (hmt : lookupK key ms = some mt) :
    oneOfSelect rec env ik disc inl ms false m = .ok (key, mt, if inl then m else eraseKey disc m) := by
  unfold NativeDisc at hnd
  unfold oneOfSelect
  cases ik
  · simp only [Bool.false_eq_true, if_false] at hnd
    obtain ⟨s, hd', hk⟩ := hnd
    subst hd'; subst hk
    simp [hd, hmt]
  · simp only [if_true] at hnd
    obtain ⟨n, hd', hk⟩ := hnd
    subst hd'; subst hk
    simp [hd, hmt]

theorem oneOfSer_member {rec : Rec} {x : Ext} {env : Env} {ik : Bool} {disc : String} {inl : Bool}
    {ms : List (Key × Ty)} {kvs : List (V × V)} {d : V} {key : Key} {m : List (String × V)} {mt : Ty} {e : Err}
    (hm : strKeys? kvs = some m) (hd : lookupS disc m = some d) (hnd : NativeDisc ik d key)
    (hmt : lookupK key ms = some mt)
    (h : runOneOf rec x .S env ik disc inl ms (.map ⟨.string, true⟩ kvs) = .err e) :
    rec .S env mt (toStrAny (if inl then m else eraseKey disc m)) = .err e ∨
    ∃ r, rec .S env mt (toStrAny (if inl then m else eraseKey disc m)) = .ok r := by
  simp only [runOneOf, hm, oneOfSelect_of hd hnd hmt, Out.bind] at h
  cases hr : rec .S env mt (toStrAny (if inl then m else eraseKey disc m)) with
  | ok r => exact Or.inr ⟨r, rfl⟩
  | err e' => rw [hr] at h; simp at h; subst h; exact Or.inl rfl
  | panic => rw [hr] at h; simp at h
  | fuel => rw [hr] at h; simp at h


theorem runAny_err {op : Op} {k : Nat} {v : V} {e : Err} (hop : op ≠ .C) (h : runAny op k v = .err e) :
    anyConvert k v = .err e := by
  unfold runAny at h
  cases op <;> simp only at h
  · exact h
  · rcases bind_err h with h1 | ⟨_, _, h2⟩
    · exact h1
    · simp [done] at h2
  · exact h
  · exact absurd rfl hop

theorem run_any_of_convert {x : Ext} {op : Op} {n : Nat} {env : Env} {a : V} {e : Err} (hop : op ≠ .C)
    (h : anyConvert n a = .err e) : run x n op env .any a = .err e := by
  cases n with
  | zero => simp [anyConvert] at h
  | succ n =>
    simp only [run, runAny]
    cases op <;> simp only [h, Out.bind]
    exact absurd rfl hop

theorem subOp_ne_C {op op' : Op} (hop : op ≠ .C) (h : SubOp op op') : op' ≠ .C := by
  rcases h with h | ⟨_, h⟩ <;> subst h
  · exact hop
  · simp

end PL

/-! ### data-mode compatibility (`C`): paths are truncated -/

/-- the Go values the any-schema's data-mode compatibility check treats natively (everything
    else is checked by converting it as Unserialize would) -/
def anyCompatNative : V → Bool
  | .map ⟨.string, true⟩ _ | .map ⟨.int64, true⟩ _ | .map ⟨.any, true⟩ _ | .list _ => true
  | _ => false


/-- the operation under which an any-schema looks at the elements of a slice or map: the same one;
    except that the data-mode compatibility check, on a value it does not treat natively, runs
    the Unserialize conversion -/
def AnySub (op : Op) (v : V) (op' : Op) : Prop :=
  (op ≠ .C ∧ op' = op) ∨ (op = .C ∧ anyCompatNative v = false ∧ op' = .U)

namespace PL

theorem oneOfSelect_err' {rec : Rec} {env : Env} {ik : Bool} {disc : String} {inl : Bool} {ms : List (Key × Ty)}
    {compat : Bool} {m : List (String × V)} {e : Err} (h : oneOfSelect rec env ik disc inl ms compat m = .err e) :
    e = ⟨true, []⟩ := by
  unfold oneOfSelect at h
  simp only at h
  split at h
  · exact cerr_eq h
  · split at h
    · exact cerr_eq h
    · split at h
      · rcases bind_err h with h1 | ⟨_, _, h2⟩
        · exact (rewrapC_err h1).2
        · simp at h2
      · simp at h

theorem runOneOf_C_err {rec : Rec} {x : Ext} {env : Env} {ik : Bool} {disc : String} {inl : Bool}
    {ms : List (Key × Ty)} {v : V} {e : Err} (h : runOneOf rec x .C env ik disc inl ms v = .err e) :
    e = ⟨true, []⟩ := by
  unfold runOneOf at h
  simp only at h
  split at h
  · split at h
    · exact cerr_eq h
    · rcases bind_err h with h1 | ⟨_, _, h2⟩
      · exact oneOfSelect_err' h1
      · simp [done] at h2
  · exact cerr_eq h

/-- data-mode compatibility of an object: the error is the level's own, or names ONE present
    property - with exactly that one segment, whatever the property's own error path was -/
theorem runObj_C_err {rec : Rec} {env : Env} {id : String} {props : List (String × PropT)} {v : V} {e : Err}
    (h : runObj rec .C env id props v = .err e) :
    e = ⟨true, []⟩ ∨
    ∃ m k d p, objEntries .C props v = some m ∧ (k, d) ∈ m ∧ lookupS k props = some p ∧ e = ⟨true, [k]⟩ ∧
      ((∃ e', rec .C env p.ty d = .err e') ∨ p.disabled = true) := by
  unfold runObj at h
  simp only at h
  split at h
  · rename_i kvs
    split at h
    · exact Or.inl (cerr_eq h)
    · rename_i m hm
      unfold objCompatMap at h
      rcases bind_err h with h1 | ⟨_, _, h2⟩
      · obtain ⟨k, d, hkd, hf⟩ := forSV_err h1
        split at hf
        · exact Or.inl (cerr_eq hf)
        · rename_i p hp
          obtain ⟨e2, he2, hee⟩ := addSeg_err hf
          right
          refine ⟨m, k, d, p, by simp [objEntries, hm], hkd, hp, ?_, ?_⟩
          · rcases bind_err he2 with h3 | ⟨_, _, h4⟩
            · rw [(rewrapC_err h3).2] at hee; exact hee
            · split at h4
              · rw [cerr_eq h4] at hee; exact hee
              · simp [done] at h4
          · rcases bind_err he2 with h3 | ⟨_, _, h4⟩
            · exact Or.inl (rewrapC_err h3).1
            · split at h4
              · rename_i hd; exact Or.inr hd
              · simp [done] at h4
      · split at h2
        · exact Or.inl (cerr_eq h2)
        · simp [done] at h2
  · rcases bind_err h with h1 | ⟨_, _, h2⟩
    · exact Or.inl (rewrapC_err h1).2
    · simp [done] at h2

theorem anyCompat_err {n : Nat} {v : V} {e : Err} (h : anyCompat n v = .err e) :
    e = ⟨true, []⟩ ∨ (anyCompatNative v = false ∧ anyConvert n v = .err e) := by
  cases n with
  | zero => simp [anyCompat] at h
  | succ n =>
    unfold anyCompat at h
    split at h
    · left
      rcases bind_err h with h1 | ⟨_, _, h2⟩
      · obtain ⟨k, a, _, hf⟩ := forKV_err h1
        rcases bind_err hf with h3 | ⟨_, _, h4⟩
        · exact (rewrapC_err h3).2
        · simp at h4
      · simp [done] at h2
    · left
      rcases bind_err h with h1 | ⟨_, _, h2⟩
      · obtain ⟨k, a, _, hf⟩ := forKV_err h1
        rcases bind_err hf with h3 | ⟨_, _, h4⟩
        · exact (rewrapC_err h3).2
        · simp at h4
      · simp [done] at h2
    · left
      rcases bind_err h with h1 | ⟨_, _, h2⟩
      · obtain ⟨k, a, _, hf⟩ := forKV_err h1
        split at hf
        · split at hf
          · exact cerr_eq hf
          · rcases bind_err hf with h3 | ⟨_, _, h4⟩
            · exact (rewrapC_err h3).2
            · simp at h4
        · split at hf
          · exact cerr_eq hf
          · rcases bind_err hf with h3 | ⟨_, _, h4⟩
            · exact (rewrapC_err h3).2
            · simp at h4
        · exact cerr_eq hf
      · simp [done] at h2
    · left
      rcases bind_err h with h1 | ⟨_, _, h2⟩
      · obtain ⟨i, a, _, hf⟩ := forIdx_err h1
        exact (rewrapC_err hf).2
      · split at h2
        · simp [done] at h2
        · split at h2
          · exact cerr_eq h2
          · simp [done] at h2
    · right
      rename_i h1 h2 h3 h4
      refine ⟨?_, ?_⟩
      · unfold anyCompatNative
        split <;> simp_all
      · rcases bind_err h with h5 | ⟨_, _, h6⟩
        · exact h5
        · simp [done] at h6

end PL

/-! ## Part 2: positions, navigation, and where the fault is -/

/-- A position inside a schema and a value: the operation performed there, the objects of the
    enclosing scope, the sub-schema and the sub-value. -/
structure Pos where
  op : Op
  env : Env
  ty : Ty
  val : V

/-- the operation at a position, run on its own -/
def Pos.run (x : Ext) (n : Nat) (p : Pos) : Out V := Arca.run x n p.op p.env p.ty p.val

/-- `PathStep x p segs q`: one level of the schema at position `p` hands the sub-value of `q` to the
    sub-schema of `q`, and labels it with the path segments `segs` (one segment, or none).
    There is one constructor per place where the model calls a sub-schema:

    * `ref`, `scope`: no segment; a scope switches the environment to its own objects;
    * `listItem`: `[i]` into the i-th element of a slice value (`[]byte` counts as a slice of `uint8`);
    * `mapKey`, `mapValue`: `{k}` to a key under the key schema, `[k]` to its value under the value
      schema, `k` = the RAW key printed with `%v` (`fmtKey`);
    * `property`: the property name, into the property's value. Under Unserialize the values are those of
      `objInput`: the supplied ones followed by the DEFAULTS of absent properties (so a path can lead
      to a declared default), or the lone value itself for the single-property shorthand. (The
      model never reports a path through the shorthand - it rewraps the property's error into a
      plain error with the empty path - so that use of the constructor never occurs in `Located`.)
    * `memberU`, `memberS`: no segment, one-of to the member selected by the discriminator; the member
      sees the map with the discriminator removed unless the one-of is inlined. Under Unserialize
      the discriminator is converted leniently (`DiscDenotes`), on native values it is exactly
      typed (`NativeDisc`).
    * `memberV`: Validate labels the selected member with the segment `{oneof[key]}`;
    * `anyItem`, `anyKey`, `anyValue`: an any-schema descends into slices and maps (looking through
      a defined type) with the same segments as lists and maps, and stays an any-schema (`AnySub`:
      in data-mode compatibility only for values it does not treat natively, and then as Unserialize).

    Serialize validates every list element / map entry before serializing it, so from a Serialize
    position the container steps may also arrive at a Validate position (`SubOp`). -/
inductive PathStep (x : Ext) : Pos → List String → Pos → Prop
  | ref {op env id o v} : lookupS id env = some o → PathStep x ⟨op, env, .ref id, v⟩ [] ⟨op, env, o, v⟩
  | scope {op env objs root o v} : lookupS root objs = some o →
      PathStep x ⟨op, env, .scope objs root, v⟩ [] ⟨op, objs, o, v⟩
  | listItem {op op' env item mn mx v xs i a} : v.sliceElems? = some xs → xs[i]? = some a → SubOp op op' →
      PathStep x ⟨op, env, .list item mn mx, v⟩ [idxSeg i] ⟨op', env, item, a⟩
  | mapKey {op op' env kt vt mn mx v sh kvs k a} : v.mapEntries? = some (sh, kvs) → (k, a) ∈ kvs → SubOp op op' →
      PathStep x ⟨op, env, .map kt vt mn mx, v⟩ [keySeg k] ⟨op', env, kt, k⟩
  | mapValue {op op' env kt vt mn mx v sh kvs k a} : v.mapEntries? = some (sh, kvs) → (k, a) ∈ kvs → SubOp op op' →
      PathStep x ⟨op, env, .map kt vt mn mx, v⟩ [valSeg k] ⟨op', env, vt, a⟩
  | property {op env id props v m k d p} : objEntries op props v = some m → (k, d) ∈ m → lookupS k props = some p →
      PathStep x ⟨op, env, .obj id props, v⟩ [k] ⟨op, env, p.ty, d⟩
  | memberU {env ik disc inl ms sh kvs dk d key m mt} : (sh.key = .any ∨ sh.key = .string) →
      kvs.find? (isDiscKey disc) = some (dk, d) → DiscDenotes x ik d key → strKeys? kvs = some m →
      lookupK key ms = some mt →
      PathStep x ⟨.U, env, .oneOf ik disc inl ms, .map sh kvs⟩ []
        ⟨.U, env, mt, toStrAny (if inl then m else eraseKey disc m)⟩
  | memberV {env ik disc inl ms kvs d key m mt} : strKeys? kvs = some m → lookupS disc m = some d →
      NativeDisc ik d key → lookupK key ms = some mt →
      PathStep x ⟨.V, env, .oneOf ik disc inl ms, .map ⟨.string, true⟩ kvs⟩ ["{oneof[" ++ key.fmt ++ "]}"]
        ⟨.V, env, mt, toStrAny (if inl then m else eraseKey disc m)⟩
  | memberS {env ik disc inl ms kvs d key m mt} : strKeys? kvs = some m → lookupS disc m = some d →
      NativeDisc ik d key → lookupK key ms = some mt →
      PathStep x ⟨.S, env, .oneOf ik disc inl ms, .map ⟨.string, true⟩ kvs⟩ []
        ⟨.S, env, mt, toStrAny (if inl then m else eraseKey disc m)⟩
  | anyItem {op op' env v xs i a} : AnySub op v op' → v.under.sliceElems? = some xs → xs[i]? = some a →
      PathStep x ⟨op, env, .any, v⟩ [idxSeg i] ⟨op', env, .any, a⟩
  | anyKey {op op' env v sh kvs k a} : AnySub op v op' → v.under = .map sh kvs → (k, a) ∈ kvs →
      PathStep x ⟨op, env, .any, v⟩ [keySeg k] ⟨op', env, .any, k⟩
  | anyValue {op op' env v sh kvs k a} : AnySub op v op' → v.under = .map sh kvs → (k, a) ∈ kvs →
      PathStep x ⟨op, env, .any, v⟩ [valSeg k] ⟨op', env, .any, a⟩

/-- `Leads x p path q`: following the path segment by segment from position `p` one arrives at
    position `q`. Steps without a segment (reference, scope, one-of member) may occur anywhere. -/
inductive Leads (x : Ext) : Pos → List String → Pos → Prop
  | here {p} : Leads x p [] p
  | step {p q r segs path} : PathStep x p segs q → Leads x q path r → Leads x p (segs ++ path) r

/-- `FailsHere x n q`: the position `q` is rejected BY ITS OWN LEVEL. The operation at `q`, run on its
    own (sub-schema on sub-value, budget `n`), returns an error whose path is EMPTY - so the
    fault is not further down a property, index or key - and no position that `q` hands its value
    to WITHOUT a segment (reference target, scope root, selected one-of member) is rejected, under
    any budget - so the fault is not theirs either. What remains is a wrong kind, a bound, length,
    pattern, enum, an undeclared or non-string key, a duplicate key, a bad discriminator. -/
def FailsHere (x : Ext) (n : Nat) (q : Pos) : Prop :=
  (∃ c, q.run x n = .err ⟨c, []⟩) ∧ ∀ r, PathStep x q [] r → ∀ k e, r.run x k ≠ .err e

/-- `NamesProperty x n q name`: `q` is an object level that rejects its value and reports it under the
    NAME OF ONE OF ITS OWN DECLARED PROPERTIES although that property's value is not what is
    wrong: either the property's presence rule (required, required-if, required-if-not,
    conflicts - `RuleHolds`) is violated on the set of present properties - typically the
    property is ABSENT, so there is no sub-value to lead to - or (Unserialize and data-mode
    compatibility only) the property is present but disabled. The error is a constraint error
    with the one-segment path `[name]`. -/
def NamesProperty (x : Ext) (n : Nat) (q : Pos) (name : String) : Prop :=
  q.run x n = .err ⟨true, [name]⟩ ∧
  ∃ id props p m, q.ty = .obj id props ∧ (name, p) ∈ props ∧ objEntries q.op props q.val = some m ∧
    (¬ RuleHolds (fun k => hasKey k m) name p ∨
     ((q.op = .U ∨ q.op = .C) ∧ p.disabled = true ∧ ∃ d, (name, d) ∈ m))

/-- `Located x n p path`: the path, read from position `p`, really leads to the fault. Either it
    leads - all of it - to a position that fails on its own; or all but its last segment leads to an
    object level that rejects and names, in the last segment, the declared property whose presence
    rule is violated (or which is disabled). -/
def Located (x : Ext) (n : Nat) (p : Pos) (path : List String) : Prop :=
  (∃ q, Leads x p path q ∧ FailsHere x n q) ∨
  (∃ pre name q, path = pre ++ [name] ∧ Leads x p pre q ∧ NamesProperty x n q name)

/-- The three places where the model produces an error that is NOT a `ConstraintError`:
    the any-schema (a value of a defined integer / float32 type, a uint64 beyond int64),
    a one-of unserializing `nil`, and the single-property shorthand of an object (disabled
    property, or the property's own error rewrapped with `fmt.Errorf`). -/
def PlainSite (q : Pos) : Prop :=
  q.ty = .any ∨
  (q.op = .U ∧ ((∃ ik d inl ms, q.ty = .oneOf ik d inl ms ∧ q.val = .nil) ∨
                (∃ id name p, q.ty = .obj id [(name, p)] ∧ q.val.mapEntries? = none)))

/-- what is proved about an error `e` returned at position `p` -/
def Verdict (x : Ext) (n : Nat) (p : Pos) (e : Err) : Prop :=
  Located x n p e.path ∧
  (e.constraint = true ∨
    (e.path = [] ∧ ∃ q, Leads x p [] q ∧ q.run x n = .err ⟨false, []⟩ ∧ PlainSite q))

theorem Pos.run_mono {x : Ext} {n : Nat} {q : Pos} {e : Err} (h : q.run x n = .err e) : q.run x (n + 1) = .err e :=
  Arca.run_mono x n 1 q.op q.env q.ty q.val _ h (by simp)

/-- a position that accepts under some budget rejects under none -/
theorem Pos.ok_never_err {x : Ext} {n : Nat} {q : Pos} {a : V} (h : q.run x n = .ok a) (k : Nat) (e : Err) :
    q.run x k ≠ .err e := by
  intro hk
  have h1 := Arca.run_mono x n k q.op q.env q.ty q.val _ h (by simp)
  have h2 := Arca.run_mono x k n q.op q.env q.ty q.val _ hk (by simp)
  rw [Nat.add_comm] at h2
  rw [h1] at h2
  simp at h2

theorem FailsHere.mono {x : Ext} {n : Nat} {q : Pos} (h : FailsHere x n q) : FailsHere x (n + 1) q := by
  obtain ⟨⟨c, hc⟩, hf⟩ := h
  exact ⟨⟨c, Pos.run_mono hc⟩, hf⟩

/-- segment-free steps are deterministic: a reference has one target, a scope one root, a one-of
    one selected member -/
theorem PathStep.free_det {x : Ext} {p r1 r2 : Pos} (h1 : PathStep x p [] r1) (h2 : PathStep x p [] r2) : r1 = r2 := by
  cases h1 with
  | ref hl => cases h2 with | ref hl2 => rw [hl] at hl2; cases hl2; rfl
  | scope hl => cases h2 with | scope hl2 => rw [hl] at hl2; cases hl2; rfl
  | memberU hsh hfind hdisc hm hmt =>
    cases h2 with
    | memberU hsh2 hfind2 hdisc2 hm2 hmt2 =>
      rw [hfind] at hfind2; cases hfind2
      have := PL.discDenotes_det hdisc hdisc2; subst this
      rw [hm] at hm2; cases hm2
      rw [hmt] at hmt2; cases hmt2
      rfl
  | memberS hm hd hnd hmt =>
    cases h2 with
    | memberS hm2 hd2 hnd2 hmt2 =>
      rw [hm] at hm2; cases hm2
      rw [hd] at hd2; cases hd2
      have := PL.nativeDisc_det hnd hnd2; subst this
      rw [hmt] at hmt2; cases hmt2
      rfl

theorem NamesProperty.mono {x : Ext} {n : Nat} {q : Pos} {name : String} (h : NamesProperty x n q name) :
    NamesProperty x (n + 1) q name := ⟨Pos.run_mono h.1, h.2⟩

theorem Located.mono {x : Ext} {n : Nat} {p : Pos} {path : List String} (h : Located x n p path) :
    Located x (n + 1) p path := by
  rcases h with ⟨q, hl, hf⟩ | ⟨pre, name, q, hp, hl, hn⟩
  · exact Or.inl ⟨q, hl, hf.mono⟩
  · exact Or.inr ⟨pre, name, q, hp, hl, hn.mono⟩

theorem Verdict.mono {x : Ext} {n : Nat} {p : Pos} {e : Err} (h : Verdict x n p e) : Verdict x (n + 1) p e := by
  refine ⟨h.1.mono, ?_⟩
  rcases h.2 with hc | ⟨hp, q, hl, hr, hs⟩
  · exact Or.inl hc
  · exact Or.inr ⟨hp, q, hl, Pos.run_mono hr, hs⟩

theorem Located.step {x : Ext} {n : Nat} {p q : Pos} {segs path : List String} (hs : PathStep x p segs q)
    (h : Located x n q path) : Located x n p (segs ++ path) := by
  rcases h with ⟨r, hl, hf⟩ | ⟨pre, name, r, hp, hl, hn⟩
  · exact Or.inl ⟨r, .step hs hl, hf⟩
  · exact Or.inr ⟨segs ++ pre, name, r, by rw [hp, List.append_assoc], .step hs hl, hn⟩

/-- the error is this level's own -/
theorem Verdict.own {x : Ext} {n : Nat} {p : Pos} {e : Err} (h : p.run x n = .err e) (hp : e.path = [])
    (hc : e.constraint = false → PlainSite p) (hfree : ∀ r, PathStep x p [] r → ∀ k e, r.run x k ≠ .err e) :
    Verdict x n p e := by
  obtain ⟨c, path⟩ := e
  simp only at hp hc
  subst hp
  refine ⟨Or.inl ⟨p, .here, ⟨c, h⟩, hfree⟩, ?_⟩
  cases c with
  | true => exact Or.inl rfl
  | false => exact Or.inr ⟨rfl, p, .here, h, hc rfl⟩

/-- the error is the sub-position's, with this level's segment prefixed -/
theorem Verdict.seg {x : Ext} {n : Nat} {p q : Pos} {s : String} {e' : Err} (hs : PathStep x p [s] q)
    (h : Verdict x n q e') : Verdict x n p ⟨true, s :: e'.path⟩ :=
  ⟨Located.step hs h.1, Or.inl rfl⟩

/-- the error is the sub-position's, unchanged -/
theorem Verdict.free {x : Ext} {n : Nat} {p q : Pos} {e : Err} (hs : PathStep x p [] q)
    (h : Verdict x n q e) : Verdict x n p e := by
  refine ⟨Located.step hs h.1, ?_⟩
  rcases h.2 with hc | ⟨hp, r, hl, hr, hsite⟩
  · exact Or.inl hc
  · exact Or.inr ⟨hp, r, .step hs hl, hr, hsite⟩

/-- the object level names one of its properties -/
theorem Verdict.names {x : Ext} {n : Nat} {p : Pos} {name : String} (h : NamesProperty x n p name) :
    Verdict x n p ⟨true, [name]⟩ :=
  ⟨Or.inr ⟨[], name, p, rfl, .here, h⟩, Or.inl rfl⟩

/-! ## Part 3: composition by induction on the fuel -/

/-- Every error returned by Unserialize, Validate or Serialize at any position, for any schema
    (well-formed or not: an ill-formed schema panics, it does not reject) and any value. -/
theorem verdict_aux (x : Ext) : ∀ (n : Nat) (op : Op) (env : Env) (t : Ty) (v : V) (e : Err), op ≠ .C →
    run x n op env t v = .err e → Verdict x n ⟨op, env, t, v⟩ e
  | 0, _, _, _, _, _, _, h => by simp [run] at h
  | n + 1, op, env, t, v, e, hop, h => by
    have ih : ∀ (op' : Op) (env' : Env) (t' : Ty) (v' : V) (e' : Err), op' ≠ .C →
        run x n op' env' t' v' = .err e' → Verdict x (n + 1) ⟨op', env', t', v'⟩ e' :=
      fun op' env' t' v' e' h1 h2 => (verdict_aux x n op' env' t' v' e' h1 h2).mono
    have own : e = ⟨true, []⟩ → (∀ r, PathStep x ⟨op, env, t, v⟩ [] r → False) →
        Verdict x (n + 1) ⟨op, env, t, v⟩ e := by
      intro he hno
      subst he
      exact Verdict.own h rfl (by simp) (fun r hs => (hno r hs).elim)
    have h' := h
    cases t with
    | int => simp only [run] at h'; exact own (PL.runInt_err h') (by intro r hs; cases hs)
    | float => simp only [run] at h'; exact own (PL.runFloat_err h') (by intro r hs; cases hs)
    | str => simp only [run] at h'; exact own (PL.runStr_err h') (by intro r hs; cases hs)
    | bool => simp only [run] at h'; exact own (PL.runBool_err h') (by intro r hs; cases hs)
    | pattern => simp only [run] at h'; exact own (PL.runPattern_err h') (by intro r hs; cases hs)
    | enumInt => simp only [run] at h'; exact own (PL.runEnumInt_err h') (by intro r hs; cases hs)
    | enumStr => simp only [run] at h'; exact own (PL.runEnumStr_err h') (by intro r hs; cases hs)
    | list item mn mx =>
      simp only [run] at h'
      rcases PL.runList_err h' with he | ⟨xs, i, a, e', op', hxs, hi, hsub, hrec, he⟩
      · exact own he (by intro r hs; cases hs)
      · subst he
        exact Verdict.seg (.listItem hxs hi hsub) (ih op' env item a e' (PL.subOp_ne_C hop hsub) hrec)
    | map kt vt mn mx =>
      simp only [run] at h'
      rcases PL.runMap_err h' with he | ⟨sh, kvs, k, a, e', op', hm, hka, hsub, ⟨hrec, he⟩ | ⟨hrec, he⟩⟩
      · exact own he (by intro r hs; cases hs)
      · subst he
        exact Verdict.seg (.mapKey hm hka hsub) (ih op' env kt k e' (PL.subOp_ne_C hop hsub) hrec)
      · subst he
        exact Verdict.seg (.mapValue hm hka hsub) (ih op' env vt a e' (PL.subOp_ne_C hop hsub) hrec)
    | obj id props =>
      simp only [run] at h'
      rcases PL.runObj_err hop h' with he | ⟨hU, he, hv, name, p, hprops⟩ |
          ⟨m, hm, ⟨k, d, p, e', hkd, hp, hrec, he⟩ | ⟨k, d, p, hU, hkd, hp, hdis, he⟩ | ⟨name, p, hmem, hrule, he⟩⟩
      · exact own he (by intro r hs; cases hs)
      · subst he; subst hU; subst hprops
        exact Verdict.own h rfl (fun _ => Or.inr ⟨rfl, Or.inr ⟨id, name, p, rfl, hv⟩⟩) (by intro r hs; cases hs)
      · subst he
        exact Verdict.seg (.property hm hkd hp) (ih op env p.ty d e' hop hrec)
      · subst he
        exact Verdict.names ⟨h, id, props, p, m, rfl, lookupS_mem hp, hm, Or.inr ⟨Or.inl hU, hdis, d, hkd⟩⟩
      · subst he
        exact Verdict.names ⟨h, id, props, p, m, rfl, hmem, hm, Or.inl hrule⟩
    | oneOf ik disc inl ms =>
      cases op with
      | U =>
        simp only [run, runOneOf] at h'
        by_cases hst : ∃ r, PathStep x ⟨.U, env, .oneOf ik disc inl ms, v⟩ [] r
        · obtain ⟨r, hs⟩ := hst
          have hfree_of : ∀ a, r.run x n = .ok a →
              ∀ r2, PathStep x ⟨.U, env, .oneOf ik disc inl ms, v⟩ [] r2 → ∀ k e, r2.run x k ≠ .err e := by
            intro a hok r2 h2
            rw [PathStep.free_det h2 hs]
            exact Pos.ok_never_err hok
          cases hs with
          | memberU hsh hfind hdisc hm hmt =>
            rcases PL.oneOfUnser_member hsh hfind hdisc hm hmt h' with hrec | ⟨a, hok⟩
            · exact Verdict.free (.memberU hsh hfind hdisc hm hmt) (ih .U env _ _ e hop hrec)
            · have hfree := hfree_of a hok
              rcases PL.oneOfUnser_err h' with he | ⟨he, hv⟩ |
                  ⟨sh2, kvs2, dk2, d2, key2, m2, mt2, hv2, hsh2, hfind2, hdisc2, hm2, hmt2, hrec⟩
              · subst he
                exact Verdict.own h rfl (by simp) hfree
              · cases hv
              · cases hv2
                exact absurd hrec (hfree _ (.memberU hsh2 hfind2 hdisc2 hm2 hmt2) n e)
        · have hfree : ∀ r, PathStep x ⟨.U, env, .oneOf ik disc inl ms, v⟩ [] r → ∀ k e, r.run x k ≠ .err e :=
            fun r hs => (hst ⟨r, hs⟩).elim
          rcases PL.oneOfUnser_err h' with he | ⟨he, hv⟩ |
              ⟨sh, kvs, dk, d, key, m, mt, hv, hsh, hfind, hdisc, hm, hmt, hrec⟩
          · subst he
            exact Verdict.own h rfl (by simp) hfree
          · subst he; subst hv
            exact Verdict.own h rfl (fun _ => Or.inr ⟨rfl, Or.inl ⟨ik, disc, inl, ms, rfl, rfl⟩⟩) hfree
          · subst hv
            exact (hst ⟨_, .memberU hsh hfind hdisc hm hmt⟩).elim
      | V =>
        rcases PL.runOneOf_VS_err (Or.inl rfl) (by simpa only [run] using h') with he |
            ⟨kvs, m, d, key, mt, e', hv, hm, hd, hnd, hmt, hrec, ⟨_, he⟩ | ⟨hS, _⟩⟩
        · exact own he (by intro r hs; cases hs)
        · subst he; subst hv
          exact Verdict.seg (.memberV hm hd hnd hmt) (ih .V env mt _ e' hop hrec)
        · cases hS
      | S =>
        simp only [run] at h'
        by_cases hst : ∃ r, PathStep x ⟨.S, env, .oneOf ik disc inl ms, v⟩ [] r
        · obtain ⟨r, hs⟩ := hst
          have hfree_of : ∀ a, r.run x n = .ok a →
              ∀ r2, PathStep x ⟨.S, env, .oneOf ik disc inl ms, v⟩ [] r2 → ∀ k e, r2.run x k ≠ .err e := by
            intro a hok r2 h2
            rw [PathStep.free_det h2 hs]
            exact Pos.ok_never_err hok
          cases hs with
          | memberS hm hd hnd hmt =>
            rcases PL.oneOfSer_member hm hd hnd hmt h' with hrec | ⟨a, hok⟩
            · exact Verdict.free (.memberS hm hd hnd hmt) (ih .S env _ _ e hop hrec)
            · have hfree := hfree_of a hok
              rcases PL.runOneOf_VS_err (Or.inr rfl) h' with he |
                  ⟨kvs2, m2, d2, key2, mt2, e', hv2, hm2, hd2, hnd2, hmt2, hrec, ⟨hV, _⟩ | ⟨_, he⟩⟩
              · subst he
                exact Verdict.own h rfl (by simp) hfree
              · cases hV
              · cases hv2; subst he
                exact absurd hrec (hfree _ (.memberS hm2 hd2 hnd2 hmt2) n e)
        · have hfree : ∀ r, PathStep x ⟨.S, env, .oneOf ik disc inl ms, v⟩ [] r → ∀ k e, r.run x k ≠ .err e :=
            fun r hs => (hst ⟨r, hs⟩).elim
          rcases PL.runOneOf_VS_err (Or.inr rfl) h' with he |
              ⟨kvs, m, d, key, mt, e', hv, hm, hd, hnd, hmt, hrec, ⟨hV, _⟩ | ⟨_, he⟩⟩
          · subst he
            exact Verdict.own h rfl (by simp) hfree
          · cases hV
          · subst hv
            exact (hst ⟨_, .memberS hm hd hnd hmt⟩).elim
      | C => exact absurd rfl hop
    | ref id =>
      simp only [run] at h'
      split at h'
      · simp at h'
      · rename_i o hl
        exact Verdict.free (.ref hl) (ih op env o v e hop h')
    | scope objs root =>
      simp only [run] at h'
      split at h'
      · simp at h'
      · rename_i o hl
        exact Verdict.free (.scope hl) (ih op objs o v e hop h')
    | any =>
      simp only [run] at h'
      have hc := PL.runAny_err hop h'
      rcases PL.anyConvert_err hc with hp | ⟨m, hm, ⟨xs, i, a, e', hxs, hi, hrec, he⟩ |
          ⟨sh, kvs, k, a, e', hu, hka, ⟨hrec, he⟩ | ⟨hrec, he⟩⟩⟩
      · exact Verdict.own h hp (fun _ => Or.inl rfl) (by intro r hs; cases hs)
      · cases hm; subst he
        exact Verdict.seg (.anyItem (Or.inl ⟨hop, rfl⟩) hxs hi) (ih op env .any a e' hop (PL.run_any_of_convert hop hrec))
      · cases hm; subst he
        exact Verdict.seg (.anyKey (Or.inl ⟨hop, rfl⟩) hu hka) (ih op env .any k e' hop (PL.run_any_of_convert hop hrec))
      · cases hm; subst he
        exact Verdict.seg (.anyValue (Or.inl ⟨hop, rfl⟩) hu hka) (ih op env .any a e' hop (PL.run_any_of_convert hop hrec))

/-! ### data-mode compatibility -/

/-- `RejectedBelow x n q`: the data-mode compatibility check at `q` rejects, with whatever path: the
    object level above `q` DISCARDED that path (it builds a fresh error carrying only the property
    name), so the fault is at `q` or anywhere inside it. -/
def RejectedBelow (x : Ext) (n : Nat) (q : Pos) : Prop := q.op = .C ∧ ∃ e, q.run x n = .err e

/-- `Located` for data-mode compatibility: as `Located`, or the path leads to the value of an object
    property that is rejected at an unreported depth. -/
def LocatedC (x : Ext) (n : Nat) (p : Pos) (path : List String) : Prop :=
  Located x n p path ∨ ∃ q, Leads x p path q ∧ RejectedBelow x n q

theorem LocatedC.mono {x : Ext} {n : Nat} {p : Pos} {path : List String} (h : LocatedC x n p path) :
    LocatedC x (n + 1) p path := by
  rcases h with h | ⟨q, hl, hq, e, he⟩
  · exact Or.inl h.mono
  · exact Or.inr ⟨q, hl, hq, e, Pos.run_mono he⟩

theorem LocatedC.step {x : Ext} {n : Nat} {p q : Pos} {segs path : List String} (hs : PathStep x p segs q)
    (h : LocatedC x n q path) : LocatedC x n p (segs ++ path) := by
  rcases h with h | ⟨r, hl, hr⟩
  · exact Or.inl (Located.step hs h)
  · exact Or.inr ⟨r, .step hs hl, hr⟩

/-- Every error returned by data-mode ValidateCompatibility. -/
theorem located_C (x : Ext) : ∀ (n : Nat) (env : Env) (t : Ty) (v : V) (e : Err),
    run x n .C env t v = .err e →
      LocatedC x n ⟨.C, env, t, v⟩ e.path ∧ (e.constraint = true ∨ e.path = [])
  | 0, _, _, _, _, h => by simp [run] at h
  | n + 1, env, t, v, e, h => by
    have ih : ∀ (env' : Env) (t' : Ty) (v' : V) (e' : Err),
        run x n .C env' t' v' = .err e' → LocatedC x (n + 1) ⟨.C, env', t', v'⟩ e'.path :=
      fun env' t' v' e' h2 => (located_C x n env' t' v' e' h2).1.mono
    have ihU : ∀ (env' : Env) (t' : Ty) (v' : V) (e' : Err),
        run x n .U env' t' v' = .err e' → Located x (n + 1) ⟨.U, env', t', v'⟩ e'.path :=
      fun env' t' v' e' h2 => (verdict_aux x n .U env' t' v' e' (by simp) h2).1.mono
    have own : e = ⟨true, []⟩ → (∀ r, PathStep x ⟨.C, env, t, v⟩ [] r → False) →
        LocatedC x (n + 1) ⟨.C, env, t, v⟩ e.path ∧ (e.constraint = true ∨ e.path = []) := by
      intro he hno
      subst he
      exact ⟨Or.inl (Verdict.own (p := ⟨.C, env, t, v⟩) h rfl (by simp) (fun r hs => (hno r hs).elim)).1, Or.inl rfl⟩
    have subC : ∀ {op' : Op}, SubOp .C op' → op' = .C := by
      intro op' hs
      rcases hs with hs | ⟨hs, _⟩
      · exact hs
      · cases hs
    have h' := h
    cases t with
    | int => simp only [run] at h'; exact own (PL.runInt_err h') (by intro r hs; cases hs)
    | float => simp only [run] at h'; exact own (PL.runFloat_err h') (by intro r hs; cases hs)
    | str => simp only [run] at h'; exact own (PL.runStr_err h') (by intro r hs; cases hs)
    | bool => simp only [run] at h'; exact own (PL.runBool_err h') (by intro r hs; cases hs)
    | pattern => simp only [run] at h'; exact own (PL.runPattern_err h') (by intro r hs; cases hs)
    | enumInt => simp only [run] at h'; exact own (PL.runEnumInt_err h') (by intro r hs; cases hs)
    | enumStr => simp only [run] at h'; exact own (PL.runEnumStr_err h') (by intro r hs; cases hs)
    | list item mn mx =>
      simp only [run] at h'
      rcases PL.runList_err h' with he | ⟨xs, i, a, e', op', hxs, hi, hsub, hrec, he⟩
      · exact own he (by intro r hs; cases hs)
      · subst he
        have := subC hsub
        subst this
        exact ⟨LocatedC.step (.listItem hxs hi hsub) (ih env item a e' hrec), Or.inl rfl⟩
    | map kt vt mn mx =>
      simp only [run] at h'
      rcases PL.runMap_err h' with he | ⟨sh, kvs, k, a, e', op', hm, hka, hsub, ⟨hrec, he⟩ | ⟨hrec, he⟩⟩
      · exact own he (by intro r hs; cases hs)
      · subst he
        have := subC hsub
        subst this
        exact ⟨LocatedC.step (.mapKey hm hka hsub) (ih env kt k e' hrec), Or.inl rfl⟩
      · subst he
        have := subC hsub
        subst this
        exact ⟨LocatedC.step (.mapValue hm hka hsub) (ih env vt a e' hrec), Or.inl rfl⟩
    | obj id props =>
      simp only [run] at h'
      rcases PL.runObj_C_err h' with he | ⟨m, k, d, p, hm, hkd, hp, he, ⟨e', hrec⟩ | hdis⟩
      · exact own he (by intro r hs; cases hs)
      · subst he
        refine ⟨Or.inr ⟨⟨.C, env, p.ty, d⟩, ?_, rfl, e', Pos.run_mono (n := n) hrec⟩, Or.inl rfl⟩
        exact .step (segs := [k]) (path := []) (.property hm hkd hp) .here
      · subst he
        exact ⟨Or.inl (Verdict.names (p := ⟨.C, env, .obj id props, v⟩) ⟨h, id, props, p, m, rfl, lookupS_mem hp, hm,
          Or.inr ⟨Or.inr rfl, hdis, d, hkd⟩⟩).1, Or.inl rfl⟩
    | oneOf ik disc inl ms =>
      simp only [run] at h'
      exact own (PL.runOneOf_C_err h') (by intro r hs; cases hs)
    | ref id =>
      simp only [run] at h'
      split at h'
      · simp at h'
      · rename_i o hl
        exact ⟨LocatedC.step (.ref hl) (ih env o v e h'), (located_C x n env o v e h').2⟩
    | scope objs root =>
      simp only [run] at h'
      split at h'
      · simp at h'
      · rename_i o hl
        exact ⟨LocatedC.step (.scope hl) (ih objs o v e h'), (located_C x n objs o v e h').2⟩
    | any =>
      simp only [run, runAny] at h'
      rcases PL.anyCompat_err h' with he | ⟨hnat, hc⟩
      · exact own he (by intro r hs; cases hs)
      · have hsub : AnySub .C v .U := Or.inr ⟨rfl, hnat, rfl⟩
        rcases PL.anyConvert_err hc with hp | ⟨m, hm, ⟨xs, i, a, e', hxs, hi, hrec, he⟩ |
            ⟨sh, kvs, k, a, e', hu, hka, ⟨hrec, he⟩ | ⟨hrec, he⟩⟩⟩
        · exact ⟨Or.inl (Verdict.own (p := ⟨.C, env, .any, v⟩) h hp (fun _ => Or.inl rfl) (by intro r hs; cases hs)).1, Or.inr hp⟩
        · cases hm; subst he
          exact ⟨Or.inl (Located.step (.anyItem hsub hxs hi)
            (ihU env .any a e' (PL.run_any_of_convert (by simp) hrec))), Or.inl rfl⟩
        · cases hm; subst he
          exact ⟨Or.inl (Located.step (.anyKey hsub hu hka)
            (ihU env .any k e' (PL.run_any_of_convert (by simp) hrec))), Or.inl rfl⟩
        · cases hm; subst he
          exact ⟨Or.inl (Located.step (.anyValue hsub hu hka)
            (ihU env .any a e' (PL.run_any_of_convert (by simp) hrec))), Or.inl rfl⟩

end Arca
