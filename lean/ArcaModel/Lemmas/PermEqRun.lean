import ArcaModel.Lemmas.PermEq
/-
  The schema operations respect `V.PermEq` (C12, deep order independence): per-kind lemmas with the
  recursive call as a parameter, then the induction on the fuel.
-/
namespace Arca
open Out

/-- inputs of a recursive call: the same value, or a genuine Go value and a reordering of it
    (the first alternative covers the defaults a schema supplies, about which nothing is assumed) -/
def InRel (x y : V) : Prop := x = y ∨ (x ≈ᵥ y ∧ x.DistinctKeys)

theorem InRel.permEq {x y : V} (h : InRel x y) : x ≈ᵥ y := by
  rcases h with rfl | h
  · exact .refl _
  · exact h.1

/-- what the induction on the fuel provides about the recursive call: related inputs, related outcomes -/
def RecRel (rec : Rec) : Prop :=
  ∀ op env t v w, v ≈ᵥ w → v.DistinctKeys → Out.Rel V.PermEq (rec op env t v) (rec op env t w)

/-- ... and an unserialized `map[string]any` has distinct keys if the input had -/
def RecTop (rec : Rec) : Prop :=
  ∀ env t v r, v.TopDistinct → rec .U env t v = .ok r → r.TopDistinct

theorem RecRel.inRel {rec : Rec} (h : RecRel rec) (op : Op) (env : Env) (t : Ty) {v w : V} (hvw : InRel v w) :
    Out.Rel V.PermEq (rec op env t v) (rec op env t w) := by
  rcases hvw with rfl | hvw
  · exact Out.Rel.rfl' V.PermEq.refl _
  · exact h op env t v w hvw.1 hvw.2

/-- the same call on both sides, result ignored -/
theorem Out.Rel.same {α} (o : Out α) : Out.Rel (fun _ _ => True) o o := Out.Rel.rfl' (fun _ => trivial) o

theorem Forall2.and_mem_left {α β} {R : α → β → Prop} {P : α → Prop} {as : List α} {bs : List β}
    (h : Forall2 R as bs) (hp : ∀ a, a ∈ as → P a) : Forall2 (fun a b => R a b ∧ P a) as bs := by
  induction h with
  | nil => exact .nil
  | cons hab _ ih =>
    exact .cons ⟨hab, hp _ (List.mem_cons_self ..)⟩ (ih fun a ha => hp a (List.mem_cons_of_mem _ ha))

theorem PermRel.and_mem_left {α β} {R : α → β → Prop} {P : α → Prop} {as : List α} {bs : List β}
    (h : PermRel R as bs) (hp : ∀ a, a ∈ as → P a) : PermRel (fun a b => R a b ∧ P a) as bs := by
  obtain ⟨mid, h1, h2⟩ := h
  exact ⟨mid, h1.and_mem_left hp, h2⟩

/-! ### lists -/

theorem V.PermEq.sliceElems {v w : V} (h : v ≈ᵥ w) : ORel ListEq v.sliceElems? w.sliceElems? := by
  cases h with
  | bytes b => exact ListEq.refl _
  | listNil => exact Forall2.nil
  | listCons a b => exact Forall2.cons a (V.permEq_list_iff.mp b)
  | _ => trivial

theorem V.DistinctKeys.sliceElems {v : V} (h : v.DistinctKeys) {xs : List V} (hs : v.sliceElems? = some xs) :
    ∀ x, x ∈ xs → x.DistinctKeys := by
  cases h <;> simp only [V.sliceElems?, Option.some.injEq, reduceCtorEq] at hs
  · subst hs
    intro x hx
    obtain ⟨n, _, rfl⟩ := List.mem_map.mp hx
    exact .int _ _
  · subst hs; assumption

theorem runList_rel {rec : Rec} (hrec : RecRel rec) (op : Op) (env : Env) (item : Ty) (a b : Option Int)
    {v w : V} (h : v ≈ᵥ w) (hd : v.DistinctKeys) :
    Out.Rel V.PermEq (runList rec op env item a b v) (runList rec op env item a b w) := by
  have hs := h.sliceElems
  unfold runList
  cases h1 : v.sliceElems? with
  | none =>
    cases h2 : w.sliceElems? with
    | none => simp
    | some ys => rw [h1, h2] at hs; exact absurd hs (by simp)
  | some xs =>
    cases h2 : w.sliceElems? with
    | none => rw [h1, h2] at hs; exact absurd hs (by simp)
    | some ys =>
      rw [h1, h2] at hs
      simp only [ORel.some_some] at hs
      have hlen : xs.length = ys.length := hs.length_eq
      have hin : Forall2 (fun x y => x ≈ᵥ y ∧ x.DistinctKeys) xs ys := hs.and_mem_left (hd.sliceElems h1)
      have trav : ∀ op', Out.Rel ListEq (forIdx (fun i e => (rec op' env item e).addSeg (idxSeg i)) 0 xs)
          (forIdx (fun i e => (rec op' env item e).addSeg (idxSeg i)) 0 ys) := fun op' =>
        forIdx_rel (fun i x y hxy => Out.Rel.addSeg _ _ (hrec op' env item x y hxy.1 hxy.2)) hin 0
      cases op <;> simp only [hlen]
      · exact Out.Rel.bind (Out.Rel.same _) fun _ _ _ =>
          Out.Rel.bind (trav .U) fun ys ys' hy => Out.Rel.ok_ok.mpr (V.permEq_list_of hy)
      · exact Out.Rel.bind (Out.Rel.same _) fun _ _ _ =>
          Out.Rel.bind (trav .V) fun _ _ _ => Out.Rel.rfl' V.PermEq.refl _
      · exact Out.Rel.bind (Out.Rel.same _) fun _ _ _ =>
          Out.Rel.bind (trav .V) fun _ _ _ =>
            Out.Rel.bind (trav .S) fun ys ys' hy => Out.Rel.ok_ok.mpr (V.permEq_list_of hy)
      · exact Out.Rel.bind (trav .C) fun _ _ _ => Out.Rel.rfl' V.PermEq.refl _

/-! ### maps -/

theorem V.PermEq.mapEntries {v w : V} (h : v ≈ᵥ w) :
    ORel (fun a b => a.1 = b.1 ∧ MapEq a.2 b.2) v.mapEntries? w.mapEntries? := by
  cases h with
  | mapNil sh => exact ⟨rfl, .nil⟩
  | mapCons a b c => exact ⟨rfl, (V.permEq_map_iff.mp (.mapCons a b c)).2⟩
  | _ => trivial

theorem V.mapEntries_eq {v : V} {sh : MapShape} {kvs : List (V × V)} (h : v.mapEntries? = some (sh, kvs)) :
    v = .map sh kvs := by
  cases v <;> simp only [V.mapEntries?, Option.some.injEq, Prod.mk.injEq, reduceCtorEq] at h
  obtain ⟨rfl, rfl⟩ := h; rfl

/-- entries handed to the recursive call -/
def EntryIn (a b : V × V) : Prop := EntryEq a b ∧ a.1.DistinctKeys ∧ a.2.DistinctKeys

theorem entryKV_rel {rec : Rec} (hrec : RecRel rec) (op : Op) (env : Env) (kt vt : Ty) {a b : V × V} (h : EntryIn a b) :
    Out.Rel EntryEq (entryKV rec op env kt vt a.1 a.2) (entryKV rec op env kt vt b.1 b.2) := by
  unfold entryKV
  exact Out.Rel.bind (Out.Rel.addSeg _ _ (hrec op env kt _ _ h.1.1 h.2.1)) fun k k' hk =>
    Out.Rel.bind (Out.Rel.addSeg _ _ (hrec op env vt _ _ h.1.2 h.2.2)) fun e e' he => Out.Rel.ok_ok.mpr ⟨hk, he⟩

theorem MapEq.entryIn {sh : MapShape} {kvs kvs' : List (V × V)} (h : MapEq kvs kvs') (hd : (V.map sh kvs).DistinctKeys) :
    PermRel EntryIn kvs kvs' :=
  (h.and_mem_left (P := fun a => a.1.DistinctKeys ∧ a.2.DistinctKeys) hd.entries).imp
    (fun _ _ hab => ⟨hab.1, hab.2.1, hab.2.2⟩)

theorem runMap_rel {rec : Rec} (hrec : RecRel rec) (op : Op) (env : Env) (kt vt : Ty) (a b : Option Int)
    {v w : V} (h : v ≈ᵥ w) (hd : v.DistinctKeys) :
    Out.Rel V.PermEq (runMap rec op env kt vt a b v) (runMap rec op env kt vt a b w) := by
  have hs := h.mapEntries
  unfold runMap
  cases h1 : v.mapEntries? with
  | none =>
    cases h2 : w.mapEntries? with
    | none => simp
    | some ys => rw [h1, h2] at hs; exact absurd hs (by simp)
  | some p =>
    cases h2 : w.mapEntries? with
    | none => rw [h1, h2] at hs; exact absurd hs (by simp)
    | some q =>
      obtain ⟨sh, kvs⟩ := p
      obtain ⟨sh', kvs'⟩ := q
      rw [h1, h2] at hs
      simp only [ORel.some_some] at hs
      obtain ⟨_, hm⟩ := hs
      have hlen : kvs.length = kvs'.length := hm.length_eq
      rw [V.mapEntries_eq h1] at hd
      have hin := hm.entryIn hd
      have trav : ∀ op', Out.Rel MapEq (forKV (entryKV rec op' env kt vt) kvs) (forKV (entryKV rec op' env kt vt) kvs') :=
        fun op' => forKV_permRel (fun a b hab => entryKV_rel hrec op' env kt vt hab) hin
      simp only [hlen]
      refine Out.Rel.bind (Out.Rel.same _) fun _ _ _ => ?_
      cases op <;> simp only []
      · refine Out.Rel.bind (trav .U) fun es es' hes => ?_
        rw [dupKey_mapEq hes]
        split
        · simp
        · exact Out.Rel.ok_ok.mpr (V.permEq_map_of hes)
      · exact Out.Rel.bind (trav .V) fun _ _ _ => Out.Rel.rfl' V.PermEq.refl _
      · exact Out.Rel.bind (trav .V) fun _ _ _ =>
          Out.Rel.bind (trav .S) fun es es' hes => Out.Rel.ok_ok.mpr (V.permEq_map_of hes)
      · exact Out.Rel.bind (trav .C) fun _ _ _ => Out.Rel.rfl' V.PermEq.refl _

/-! ### objects -/

/-- string-keyed entries handed to the recursive call -/
def SIn (a b : String × V) : Prop := a.1 = b.1 ∧ InRel a.2 b.2

theorem SIn.sEntryEq {a b : String × V} (h : SIn a b) : SEntryEq a b := ⟨h.1, h.2.permEq⟩

theorem hasKey_permRel {α β} {R : String × α → String × β → Prop} {m : List (String × α)} {m' : List (String × β)}
    (h : PermRel R m m') (hk : ∀ a b, R a b → a.1 = b.1) (k : String) : hasKey k m = hasKey k m' := by
  rw [hasKey_eq_any, hasKey_eq_any]
  exact h.any_eq (fun a b hab => by rw [hk a b hab])

theorem sIn_of_sMapEq {m m' : List (String × V)} (h : SMapEq m m') (hd : ∀ kv, kv ∈ m → kv.2.DistinctKeys) :
    PermRel SIn m m' :=
  (h.and_mem_left (P := fun a => a.2.DistinctKeys) hd).imp (fun _ _ hab => ⟨hab.1.1, .inr ⟨hab.1.2, hab.2⟩⟩)

/-- defaults are appended for the same absent properties, whatever the order of the supplied ones -/
theorem applyDefaults_permRel : ∀ (props : List (String × PropT)) {m m' : List (String × V)}, PermRel SIn m m' →
    Out.Rel (PermRel SIn) (applyDefaults props m) (applyDefaults props m')
  | [], m, m', h => by simp only [applyDefaults]; exact Out.Rel.ok_ok.mpr h
  | (id, p) :: rest, m, m', h => by
    simp only [applyDefaults]
    rw [hasKey_permRel h (fun _ _ hab => hab.1) id]
    cases hasKey id m'
    · simp only [Bool.false_eq_true, if_false]
      cases hdv : p.defaultV with
      | none => exact applyDefaults_permRel rest h
      | some o =>
        cases o with
        | none => simp
        | some d =>
          exact applyDefaults_permRel rest (h.append (PermRel.cons ⟨rfl, .inl rfl⟩ .nil))
    · simp only [if_true]
      exact applyDefaults_permRel rest h

theorem objEntryU_rel {rec : Rec} (hrec : RecRel rec) (env : Env) (props : List (String × PropT)) {a b : String × V}
    (h : SIn a b) :
    Out.Rel (fun r r' => SEntryEq (a.1, r) (b.1, r')) (objEntryU rec env props a.1 a.2) (objEntryU rec env props b.1 b.2) := by
  obtain ⟨a1, a2⟩ := a
  obtain ⟨b1, b2⟩ := b
  obtain ⟨e, hv⟩ := h
  simp only at e hv; subst e
  unfold objEntryU
  cases lookupS a1 props with
  | none => simp
  | some p =>
    simp only
    split
    · simp [Out.cerrAt]
    · exact (Out.Rel.addSeg _ _ (hrec.inRel .U env p.ty hv)).imp (fun _ _ hr => ⟨rfl, hr⟩)

theorem objRaw_rel {rec : Rec} (hrec : RecRel rec) (env : Env) (props : List (String × PropT))
    {v w : V} (h : v ≈ᵥ w) (hd : v.DistinctKeys) :
    Out.Rel SMapEq (objRaw rec env props v) (objRaw rec env props w) := by
  have hs := h.mapEntries
  unfold objRaw
  cases h1 : v.mapEntries? with
  | none =>
    cases h2 : w.mapEntries? with
    | some ys => rw [h1, h2] at hs; exact absurd hs (by simp)
    | none =>
      simp only
      split
      · split
        · simp
        · exact Out.Rel.bind (Out.Rel.rewrapP (hrec .U env _ v w h hd)) fun r r' hr =>
            Out.Rel.ok_ok.mpr (PermRel.cons ⟨rfl, hr⟩ .nil)
      · simp
  | some p =>
    cases h2 : w.mapEntries? with
    | none => rw [h1, h2] at hs; exact absurd hs (by simp)
    | some q =>
      obtain ⟨sh, kvs⟩ := p
      obtain ⟨sh', kvs'⟩ := q
      rw [h1, h2] at hs
      simp only [ORel.some_some] at hs
      obtain ⟨_, hm⟩ := hs
      rw [V.mapEntries_eq h1] at hd
      simp only
      cases hk : strKeys? kvs with
      | none => rw [strKeys_mapEq_none hm hk]; simp
      | some m =>
        obtain ⟨m', hk', hmm⟩ := strKeys_mapEq hm hk
        rw [hk']
        simp only
        rw [hmm.any_eq (q := fun kv => !(hasKey kv.1 props)) (fun a b hab => by rw [hab.1])]
        split
        · simp
        · have hin := sIn_of_sMapEq hmm (hd.strView hk).2
          exact Out.Rel.bind (applyDefaults_permRel props hin) fun m1 m1' h1 =>
            forSV_permRel (fun a b hab => objEntryU_rel hrec env props hab) h1

/-- is a required property absent or nil? (the second half of `validateMapTypesCompatibility`) -/
def reqMissing (props : List (String × PropT)) (m : List (String × V)) : Bool :=
  props.any (fun kp => kp.2.required &&
    (match lookupS kp.1 m with | none => true | some .nil => true | _ => false))

theorem objCompatMap_eq (rec : Rec) (env : Env) (props : List (String × PropT)) (m : List (String × V)) :
    objCompatMap rec env props m =
      (forSV (fun k e =>
        match lookupS k props with
        | none => .cerr
        | some p =>
          ((rewrapC (rec .C env p.ty e)).bind fun _ => if p.disabled then .cerr else done).addSeg k) m).bind fun _ =>
        if reqMissing props m then .cerr else done := rfl

theorem reqMissing_sMapEq (props : List (String × PropT)) {m m' : List (String × V)} (h : SMapEq m m')
    (hnd : (m.map Prod.fst).Nodup) : reqMissing props m = reqMissing props m' := by
  unfold reqMissing
  congr 1
  funext kp
  congr 1
  have hl := lookupS_sMapEq h hnd kp.1
  cases h1 : lookupS kp.1 m <;> cases h2 : lookupS kp.1 m' <;> rw [h1, h2] at hl <;> simp at hl
  cases hl <;> rfl

theorem objCompatMap_rel {rec : Rec} (hrec : RecRel rec) (env : Env) (props : List (String × PropT))
    {m m' : List (String × V)} (h : SMapEq m m') (hnd : (m.map Prod.fst).Nodup)
    (hd : ∀ kv, kv ∈ m → kv.2.DistinctKeys) :
    Out.Rel V.PermEq (objCompatMap rec env props m) (objCompatMap rec env props m') := by
  rw [objCompatMap_eq, objCompatMap_eq, reqMissing_sMapEq props h hnd]
  refine Out.Rel.bind (S := V.PermEq) (forSV_permRel (S := SEntryEq) ?_ (sIn_of_sMapEq h hd)) fun _ _ _ =>
    Out.Rel.rfl' V.PermEq.refl _
  intro a b hab
  obtain ⟨a1, a2⟩ := a
  obtain ⟨b1, b2⟩ := b
  obtain ⟨e, hv⟩ := hab
  simp only at e hv; subst e
  simp only
  cases lookupS a1 props with
  | none => simp
  | some p =>
    simp only
    refine Out.Rel.addSeg _ _ ?_
    exact Out.Rel.bind (Out.Rel.rewrapC (hrec.inRel .C env p.ty hv)) fun _ _ _ =>
      Out.Rel.rfl' (fun _ => ⟨rfl, V.PermEq.refl _⟩) _

theorem objEntry_rel {rec : Rec} (hrec : RecRel rec) (op : Op) (env : Env) (props : List (String × PropT)) {a b : String × V}
    (h : SIn a b) :
    Out.Rel (fun r r' => SEntryEq (a.1, r) (b.1, r')) (objEntry rec op env props a.1 a.2) (objEntry rec op env props b.1 b.2) := by
  obtain ⟨a1, a2⟩ := a
  obtain ⟨b1, b2⟩ := b
  obtain ⟨e, hv⟩ := h
  simp only at e hv; subst e
  unfold objEntry
  cases lookupS a1 props with
  | none => simp
  | some p => exact (Out.Rel.addSeg _ _ (hrec.inRel op env p.ty hv)).imp (fun _ _ hr => ⟨rfl, hr⟩)

/-- a value that is a `map[string]any` on one side is one on the other -/
theorem V.PermEq.strAny_inv {v w : V} (h : v ≈ᵥ w) {kvs : List (V × V)} (hv : v = .map ⟨.string, true⟩ kvs) :
    ∃ kvs', w = .map ⟨.string, true⟩ kvs' ∧ MapEq kvs kvs' := V.permEq_map_inv h _ _ hv

theorem runObj_rel {rec : Rec} (hrec : RecRel rec) (op : Op) (env : Env) (id : String) (props : List (String × PropT))
    {v w : V} (h : v ≈ᵥ w) (hd : v.DistinctKeys) :
    Out.Rel V.PermEq (runObj rec op env id props v) (runObj rec op env id props w) := by
  -- Validate / Serialize on a native object value
  have hVS : ∀ op', (op' = .V ∨ op' = .S) → ∀ kvs kvs', MapEq kvs kvs' → (V.map ⟨.string, true⟩ kvs).DistinctKeys →
      Out.Rel V.PermEq
        (match strKeys? kvs with
          | none => .cerr
          | some m =>
            (interdeps props (fun k => hasKey k m)).bind fun _ =>
              (forSV (objEntry rec op' env props) m).bind fun m' =>
                if op' == .V then done else .ok (toStrAny m'))
        (match strKeys? kvs' with
          | none => .cerr
          | some m =>
            (interdeps props (fun k => hasKey k m)).bind fun _ =>
              (forSV (objEntry rec op' env props) m).bind fun m' =>
                if op' == .V then done else .ok (toStrAny m')) := by
    intro op' _ kvs kvs' hm hdk
    cases hk : strKeys? kvs with
    | none => rw [strKeys_mapEq_none hm hk]; simp
    | some m =>
      obtain ⟨m', hk', hmm⟩ := strKeys_mapEq hm hk
      rw [hk']
      simp only
      have hf : (fun k => hasKey k m) = (fun k => hasKey k m') := funext (hasKey_sMapEq hmm)
      rw [hf]
      refine Out.Rel.bind (Out.Rel.same _) fun _ _ _ => ?_
      refine Out.Rel.bind (S := V.PermEq) (forSV_permRel (S := SEntryEq)
        (fun a b hab => objEntry_rel hrec op' env props hab) (sIn_of_sMapEq hmm (hdk.strView hk).2)) fun r r' hr => ?_
      split
      · exact Out.Rel.rfl' V.PermEq.refl _
      · exact Out.Rel.ok_ok.mpr (toStrAny_sMapEq hr)
  cases op
  case U =>
    simp only [runObj]
    refine Out.Rel.bind (objRaw_rel hrec env props h hd) fun m m' hm => ?_
    have hf : (fun k => hasKey k m) = (fun k => hasKey k m') := funext (hasKey_sMapEq hm)
    rw [hf]
    exact Out.Rel.bind (Out.Rel.same _) fun _ _ _ => Out.Rel.ok_ok.mpr (toStrAny_sMapEq hm)
  case V =>
    simp only [runObj]
    split
    · rename_i kvs
      obtain ⟨kvs', rfl, hm⟩ := h.strAny_inv rfl
      exact hVS .V (.inl rfl) kvs kvs' hm hd
    · split
      · rename_i hne _ kvs'
        obtain ⟨kvs, rfl, _⟩ := h.symm.strAny_inv rfl
        exact absurd rfl (hne kvs)
      · simp
  case S =>
    simp only [runObj]
    split
    · rename_i kvs
      obtain ⟨kvs', rfl, hm⟩ := h.strAny_inv rfl
      exact hVS .S (.inr rfl) kvs kvs' hm hd
    · split
      · rename_i hne _ kvs'
        obtain ⟨kvs, rfl, _⟩ := h.symm.strAny_inv rfl
        exact absurd rfl (hne kvs)
      · simp
  case C =>
    simp only [runObj]
    split
    · rename_i kvs
      obtain ⟨kvs', rfl, hm⟩ := h.strAny_inv rfl
      simp only
      cases hk : strKeys? kvs with
      | none => rw [strKeys_mapEq_none hm hk]; simp
      | some m =>
        obtain ⟨m', hk', hmm⟩ := strKeys_mapEq hm hk
        rw [hk']
        exact objCompatMap_rel hrec env props hmm (hd.strView hk).1 (hd.strView hk).2
    · split
      · rename_i hne _ kvs'
        obtain ⟨kvs, rfl, _⟩ := h.symm.strAny_inv rfl
        exact absurd rfl (hne kvs)
      · exact Out.Rel.bind (Out.Rel.rewrapC (hrec .U env _ v w h hd)) fun _ _ _ => Out.Rel.rfl' V.PermEq.refl _

/-! ### one-of -/

theorem Out.Rel.bind' {α β γ δ} {R : α → β → Prop} {S : γ → δ → Prop} {o : Out α} {o' : Out β}
    {f : α → Out γ} {g : β → Out δ} (h : Out.Rel R o o')
    (hfg : ∀ a b, o = .ok a → o' = .ok b → R a b → Out.Rel S (f a) (g b)) : Out.Rel S (o.bind f) (o'.bind g) := by
  cases o <;> cases o' <;> simp_all [Out.bind]

theorem Out.Rel.of_not_ok {α β} {R : α → β → Prop} {o : Out α} {o' : Out β} (h1 : ∀ a, o ≠ .ok a) (h2 : ∀ b, o' ≠ .ok b) :
    Out.Rel R o o' :=
  Out.Rel.of_ok (fun a ha => absurd ha (h1 a)) (fun b hb => absurd hb (h2 b))

theorem clone_sMapEq {m m' : List (String × V)} (h : SMapEq m m') (inlined : Bool) (disc : String) :
    SMapEq (if inlined then m else eraseKey disc m) (if inlined then m' else eraseKey disc m') := by
  cases inlined
  · simp only [Bool.false_eq_true, if_false]; exact eraseKey_sMapEq h disc
  · simp only [if_true]; exact h

theorem clone_distinct {m : List (String × V)} (hnd : (m.map Prod.fst).Nodup) (hv : ∀ kv, kv ∈ m → kv.2.DistinctKeys)
    (inlined : Bool) (disc : String) : (toStrAny (if inlined then m else eraseKey disc m)).DistinctKeys := by
  cases inlined
  · simp only [Bool.false_eq_true, if_false]
    exact V.distinctKeys_toStrAny (eraseKey_keys_nodup hnd disc) (fun kv hkv => hv kv (eraseKey_mem' hkv).1)
  · simp only [if_true]
    exact V.distinctKeys_toStrAny hnd hv

/-- the typed discriminator of a native one-of value -/
def typedKey (intKey : Bool) (o : Option V) : Option Key :=
  match o with
  | some (.int .int64 n) => if intKey then some (.i n) else none
  | some (.str s) => if intKey then none else some (.s s)
  | _ => none

theorem oneOfSelect_eq (rec : Rec) (env : Env) (intKey : Bool) (disc : String) (inlined : Bool)
    (members : List (Key × Ty)) (compat : Bool) (m : List (String × V)) :
    oneOfSelect rec env intKey disc inlined members compat m =
      match typedKey intKey (lookupS disc m) with
      | none => .cerr
      | some key =>
        match lookupK key members with
        | none => .cerr
        | some mt =>
          if compat then
            (rewrapC (rec .C env mt (toStrAny (if inlined then m else eraseKey disc m)))).bind fun _ =>
              .ok (key, mt, if inlined then m else eraseKey disc m)
          else .ok (key, mt, if inlined then m else eraseKey disc m) := rfl

theorem typedKey_rel (intKey : Bool) {o o' : Option V} (h : ORel V.PermEq o o') : typedKey intKey o = typedKey intKey o' := by
  cases o <;> cases o' <;> simp at h
  · rfl
  · cases h <;> rfl

/-- selections of a member: same key, same member schema, related clones of a genuine Go map -/
def SelRel (s s' : Key × Ty × List (String × V)) : Prop :=
  s.1 = s'.1 ∧ s.2.1 = s'.2.1 ∧ SMapEq s.2.2 s'.2.2 ∧ (toStrAny s.2.2).DistinctKeys

theorem oneOfSelect_rel {rec : Rec} (hrec : RecRel rec) (env : Env) (intKey : Bool) (disc : String) (inlined : Bool)
    (members : List (Key × Ty)) (compat : Bool) {m m' : List (String × V)} (h : SMapEq m m')
    (hnd : (m.map Prod.fst).Nodup) (hd : ∀ kv, kv ∈ m → kv.2.DistinctKeys) :
    Out.Rel SelRel (oneOfSelect rec env intKey disc inlined members compat m)
      (oneOfSelect rec env intKey disc inlined members compat m') := by
  rw [oneOfSelect_eq, oneOfSelect_eq, typedKey_rel intKey (lookupS_sMapEq h hnd disc)]
  cases typedKey intKey (lookupS disc m') with
  | none => simp
  | some key =>
    simp only
    cases lookupK key members with
    | none => simp
    | some mt =>
      simp only
      have hc := clone_sMapEq h inlined disc
      have hdc := clone_distinct hnd hd inlined disc
      cases compat
      · simp only [Bool.false_eq_true, if_false]
        exact Out.Rel.ok_ok.mpr ⟨rfl, rfl, hc, hdc⟩
      · simp only [if_true]
        exact Out.Rel.bind (Out.Rel.rewrapC (hrec .C env mt _ _ (toStrAny_sMapEq hc) hdc)) fun _ _ _ =>
          Out.Rel.ok_ok.mpr ⟨rfl, rfl, hc, hdc⟩

/-- `MapIndex(name)` on the entries is the lookup in the string-keyed view -/
theorem find_isDiscKey (disc : String) : ∀ {kvs : List (V × V)} {m : List (String × V)}, strKeys? kvs = some m →
    kvs.find? (isDiscKey disc) = (lookupS disc m).map (fun d => (V.str disc, d))
  | [], m, h => by simp only [strKeys?, Option.some.injEq] at h; subst h; rfl
  | (k, v) :: rest, m, h => by
    cases k <;> simp only [strKeys?, Option.map_eq_some_iff, reduceCtorEq] at h
    obtain ⟨m0, h0, rfl⟩ := h
    rename_i s
    simp only [List.find?_cons, isDiscKey, lookupS]
    by_cases hs : s = disc
    · subst hs; simp
    · have h1 : (s == disc) = false := by simpa using hs
      have h2 : (disc == s) = false := by simpa using (fun e => hs e.symm)
      simp only [h1, h2, Bool.false_eq_true, if_false]
      exact find_isDiscKey disc h0

theorem bind_cerr_ne_ok {α β} (o : Out α) (f : α → Out β) (hf : ∀ a b, f a ≠ .ok b) : ∀ b, o.bind f ≠ .ok b := by
  intro b; cases o <;> simp [Out.bind, hf]

theorem oneOfUnser_map_rel {rec : Rec} (hrec : RecRel rec) (htop : RecTop rec) (x : Ext) (env : Env) (intKey : Bool)
    (disc : String) (inlined : Bool) (members : List (Key × Ty)) (sh : MapShape) {kvs kvs' : List (V × V)}
    (hm : MapEq kvs kvs') (hd : (V.map sh kvs).DistinctKeys) :
    Out.Rel V.PermEq (oneOfUnser rec x env intKey disc inlined members (.map sh kvs))
      (oneOfUnser rec x env intKey disc inlined members (.map sh kvs')) := by
  unfold oneOfUnser
  simp only [V.mapEntries?]
  split
  · simp
  · cases hk : strKeys? kvs with
    | none =>
      rw [strKeys_mapEq_none hm hk]
      refine Out.Rel.of_not_ok ?_ ?_ <;>
      · intro r
        split
        · simp [Out.cerr]
        · exact bind_cerr_ne_ok _ _ (fun _ _ => by simp [Out.cerr]) r
    | some m =>
      obtain ⟨m', hk', hmm⟩ := strKeys_mapEq hm hk
      obtain ⟨hnd, hdv⟩ := hd.strView hk
      rw [hk', find_isDiscKey disc hk, find_isDiscKey disc hk']
      have hl := lookupS_sMapEq hmm hnd disc
      cases hl1 : lookupS disc m <;> cases hl2 : lookupS disc m' <;> rw [hl1, hl2] at hl <;> simp at hl
      · simp
      · rename_i d d'
        simp only [Option.map_some, hl.intInputMapper, hl.stringInputMapper]
        refine Out.Rel.bind (R := Eq) (Out.Rel.rfl' (fun _ => rfl) _) fun key key' ek => ?_
        subst ek
        cases lookupK key members with
        | none => simp
        | some mt =>
          simp only
          have hc := clone_sMapEq hmm inlined disc
          have hdc := clone_distinct hnd hdv inlined disc
          refine Out.Rel.bind' (hrec .U env mt _ _ (toStrAny_sMapEq hc) hdc) fun r r' hr1 _ hr => ?_
          have hrt : r.TopDistinct := htop env mt _ r hdc.top hr1
          split
          · rename_i rk
            obtain ⟨rk', rfl, hrm⟩ := hr.strAny_inv rfl
            simp only
            cases hrk : strKeys? rk with
            | none => rw [strKeys_mapEq_none hrm hrk]; simp
            | some rm =>
              obtain ⟨rm', hrk', hrmm⟩ := strKeys_mapEq hrm hrk
              rw [hrk']
              have hrnd : (rm.map Prod.fst).Nodup := by
                rw [← strKeysOf_of_strKeys hrk]; exact hrt
              exact Out.Rel.ok_ok.mpr (toStrAny_sMapEq (setKey_sMapEq hrmm hrnd disc (.refl _)))
          · split
            · rename_i hne _ rk' _
              obtain ⟨rk, rfl, _⟩ := hr.symm.strAny_inv rfl
              exact absurd rfl (hne rk)
            · exact Out.Rel.ok_ok.mpr hr

theorem oneOfUnser_rel {rec : Rec} (hrec : RecRel rec) (htop : RecTop rec) (x : Ext) (env : Env) (intKey : Bool)
    (disc : String) (inlined : Bool) (members : List (Key × Ty)) {v w : V} (h : v ≈ᵥ w) (hd : v.DistinctKeys) :
    Out.Rel V.PermEq (oneOfUnser rec x env intKey disc inlined members v)
      (oneOfUnser rec x env intKey disc inlined members w) := by
  cases h with
  | mapNil sh => exact oneOfUnser_map_rel hrec htop x env intKey disc inlined members sh (MapEq.refl _) hd
  | mapCons a b c =>
    exact oneOfUnser_map_rel hrec htop x env intKey disc inlined members _ (V.permEq_map_iff.mp (.mapCons a b c)).2 hd
  | _ => simp [oneOfUnser, V.mapEntries?]

theorem runOneOf_rel {rec : Rec} (hrec : RecRel rec) (htop : RecTop rec) (x : Ext) (op : Op) (env : Env) (intKey : Bool)
    (disc : String) (inlined : Bool) (members : List (Key × Ty)) {v w : V} (h : v ≈ᵥ w) (hd : v.DistinctKeys) :
    Out.Rel V.PermEq (runOneOf rec x op env intKey disc inlined members v)
      (runOneOf rec x op env intKey disc inlined members w) := by
  cases op
  case U => exact oneOfUnser_rel hrec htop x env intKey disc inlined members h hd
  case V =>
    simp only [runOneOf]
    split
    · rename_i kvs
      obtain ⟨kvs', rfl, hm⟩ := h.strAny_inv rfl
      simp only
      cases hk : strKeys? kvs with
      | none => rw [strKeys_mapEq_none hm hk]; simp
      | some m =>
        obtain ⟨m', hk', hmm⟩ := strKeys_mapEq hm hk
        rw [hk']
        refine Out.Rel.bind (oneOfSelect_rel hrec env intKey disc inlined members false hmm
          (hd.strView hk).1 (hd.strView hk).2) fun s s' hs => ?_
        obtain ⟨k, t, c⟩ := s
        obtain ⟨k', t', c'⟩ := s'
        obtain ⟨e1, e2, hc, hdc⟩ := hs
        simp only at e1 e2 hc hdc; subst e1 e2
        exact Out.Rel.bind (Out.Rel.addSeg _ _ (hrec .V env t _ _ (toStrAny_sMapEq hc) hdc)) fun _ _ _ =>
          Out.Rel.rfl' V.PermEq.refl _
    · split
      · rename_i hne _ kvs'
        obtain ⟨kvs, rfl, _⟩ := h.symm.strAny_inv rfl
        exact absurd rfl (hne kvs)
      · simp
  case S =>
    simp only [runOneOf]
    split
    · rename_i kvs
      obtain ⟨kvs', rfl, hm⟩ := h.strAny_inv rfl
      simp only
      cases hk : strKeys? kvs with
      | none => rw [strKeys_mapEq_none hm hk]; simp
      | some m =>
        obtain ⟨m', hk', hmm⟩ := strKeys_mapEq hm hk
        rw [hk']
        refine Out.Rel.bind (oneOfSelect_rel hrec env intKey disc inlined members false hmm
          (hd.strView hk).1 (hd.strView hk).2) fun s s' hs => ?_
        obtain ⟨k, t, c⟩ := s
        obtain ⟨k', t', c'⟩ := s'
        obtain ⟨e1, e2, hc, hdc⟩ := hs
        simp only at e1 e2 hc hdc; subst e1 e2
        refine Out.Rel.bind (hrec .S env t _ _ (toStrAny_sMapEq hc) hdc) fun r r' hr => ?_
        simp only
        split
        · rename_i rk
          obtain ⟨rk', rfl, hrm⟩ := hr.strAny_inv rfl
          simp only
          cases hrk : strKeys? rk with
          | none => rw [strKeys_mapEq_none hrm hrk]; simp
          | some rm =>
            obtain ⟨rm', hrk', hrmm⟩ := strKeys_mapEq hrm hrk
            rw [hrk']
            simp only
            rw [hasKey_sMapEq hrmm disc]
            split
            · exact Out.Rel.ok_ok.mpr (toStrAny_sMapEq hrmm)
            · exact Out.Rel.ok_ok.mpr (toStrAny_sMapEq (hrmm.append (SMapEq.refl _)))
        · split
          · rename_i hne _ rk'
            obtain ⟨rk, rfl, _⟩ := hr.symm.strAny_inv rfl
            exact absurd rfl (hne rk)
          · simp
    · split
      · rename_i hne _ kvs'
        obtain ⟨kvs, rfl, _⟩ := h.symm.strAny_inv rfl
        exact absurd rfl (hne kvs)
      · simp
  case C =>
    simp only [runOneOf]
    split
    · rename_i kvs
      obtain ⟨kvs', rfl, hm⟩ := h.strAny_inv rfl
      simp only
      cases hk : strKeys? kvs with
      | none => rw [strKeys_mapEq_none hm hk]; simp
      | some m =>
        obtain ⟨m', hk', hmm⟩ := strKeys_mapEq hm hk
        rw [hk']
        exact Out.Rel.bind (oneOfSelect_rel hrec env intKey disc inlined members true hmm
          (hd.strView hk).1 (hd.strView hk).2) fun _ _ _ => Out.Rel.rfl' V.PermEq.refl _
    · split
      · rename_i hne _ kvs'
        obtain ⟨kvs, rfl, _⟩ := h.symm.strAny_inv rfl
        exact absurd rfl (hne kvs)
      · simp

/-! ### the any-schema -/

theorem anyConvert_list_eq (n : Nat) (xs : List V) :
    anyConvert (n + 1) (.list xs) =
      (forIdx (fun i x => (anyConvert n x).addSeg ("[" ++ toString i ++ "]")) 0 xs).bind fun ys => .ok (.list ys) := rfl
theorem anyConvert_named_list_eq (n : Nat) (xs : List V) :
    anyConvert (n + 1) (.named (.list xs)) =
      (forIdx (fun i x => (anyConvert n x).addSeg ("[" ++ toString i ++ "]")) 0 xs).bind fun ys => .ok (.list ys) := rfl
theorem anyConvert_map_eq (n : Nat) (sh : MapShape) (kvs : List (V × V)) :
    anyConvert (n + 1) (.map sh kvs) =
      (forKV (fun k x =>
        ((anyConvert n k).addSeg ("{" ++ fmtKey k ++ "}")).bind fun k' =>
          ((anyConvert n x).addSeg ("[" ++ fmtKey k' ++ "]")).bind fun x' => .ok (k', x')) kvs).bind fun kvs' =>
        if dupKey kvs' then .cerr else .ok (.map .anyAny kvs') := rfl
theorem anyConvert_named_map_eq (n : Nat) (sh : MapShape) (kvs : List (V × V)) :
    anyConvert (n + 1) (.named (.map sh kvs)) =
      (forKV (fun k x =>
        ((anyConvert n k).addSeg ("{" ++ fmtKey k ++ "}")).bind fun k' =>
          ((anyConvert n x).addSeg ("[" ++ fmtKey k' ++ "]")).bind fun x' => .ok (k', x')) kvs).bind fun kvs' =>
        if dupKey kvs' then .cerr else .ok (.map .anyAny kvs') := rfl

/-- `AnySchema.checkAndConvert` respects `PermEq` (no distinctness needed: it never looks a key up) -/
theorem anyConvert_rel : ∀ (n : Nat) {v w : V}, v ≈ᵥ w → Out.Rel V.PermEq (anyConvert n v) (anyConvert n w)
  | 0, _, _, _ => by simp [anyConvert]
  | n + 1, v, w, h => by
    have ih : ∀ {a b : V}, a ≈ᵥ b → Out.Rel V.PermEq (anyConvert n a) (anyConvert n b) := anyConvert_rel n
    have hlist : ∀ {xs ys : List V}, ListEq xs ys → Out.Rel V.PermEq
        ((forIdx (fun i x => (anyConvert n x).addSeg ("[" ++ toString i ++ "]")) 0 xs).bind fun ys => .ok (.list ys))
        ((forIdx (fun i x => (anyConvert n x).addSeg ("[" ++ toString i ++ "]")) 0 ys).bind fun ys => .ok (.list ys)) :=
      fun hl => Out.Rel.bind (forIdx_rel (R := V.PermEq) (S := V.PermEq) (fun i x y hxy => Out.Rel.addSeg _ _ (@ih x y hxy)) hl 0) fun _ _ hy =>
        Out.Rel.ok_ok.mpr (V.permEq_list_of hy)
    have hmap : ∀ {kvs kvs' : List (V × V)}, MapEq kvs kvs' → Out.Rel V.PermEq
        ((forKV (fun k x =>
          ((anyConvert n k).addSeg ("{" ++ fmtKey k ++ "}")).bind fun k' =>
            ((anyConvert n x).addSeg ("[" ++ fmtKey k' ++ "]")).bind fun x' => .ok (k', x')) kvs).bind fun kvs' =>
          if dupKey kvs' then .cerr else .ok (.map .anyAny kvs'))
        ((forKV (fun k x =>
          ((anyConvert n k).addSeg ("{" ++ fmtKey k ++ "}")).bind fun k' =>
            ((anyConvert n x).addSeg ("[" ++ fmtKey k' ++ "]")).bind fun x' => .ok (k', x')) kvs').bind fun kvs' =>
          if dupKey kvs' then .cerr else .ok (.map .anyAny kvs')) := by
      intro kvs kvs' hm
      refine Out.Rel.bind (forKV_permRel (R := EntryEq) (S := EntryEq) ?_ hm) fun es es' hes => ?_
      · intro a b hab
        exact Out.Rel.bind (Out.Rel.addSeg _ _ (ih hab.1)) fun k k' hk =>
          Out.Rel.bind (Out.Rel.addSeg _ _ (ih hab.2)) fun e e' he => Out.Rel.ok_ok.mpr ⟨hk, he⟩
      · rw [dupKey_mapEq hes]
        split
        · simp
        · exact Out.Rel.ok_ok.mpr (V.permEq_map_of hes)
    cases h with
    | listNil => rw [anyConvert_list_eq]; exact hlist .nil
    | listCons a b => rw [anyConvert_list_eq, anyConvert_list_eq]; exact hlist (.cons a (V.permEq_list_iff.mp b))
    | mapNil sh => rw [anyConvert_map_eq]; exact hmap .nil
    | mapCons a b c =>
      rw [anyConvert_map_eq, anyConvert_map_eq]; exact hmap (V.permEq_map_iff.mp (.mapCons a b c)).2
    | named h' =>
      cases h' with
      | listNil => rw [anyConvert_named_list_eq]; exact hlist .nil
      | listCons a b =>
        rw [anyConvert_named_list_eq, anyConvert_named_list_eq]; exact hlist (.cons a (V.permEq_list_iff.mp b))
      | mapNil sh => rw [anyConvert_named_map_eq]; exact hmap .nil
      | mapCons a b c =>
        rw [anyConvert_named_map_eq, anyConvert_named_map_eq]; exact hmap (V.permEq_map_iff.mp (.mapCons a b c)).2
      | named _ => simp [anyConvert, V.under]
      | _ => exact Out.Rel.rfl' V.PermEq.refl _
    | _ => exact Out.Rel.rfl' V.PermEq.refl _

/-- keys a `map[any]any` may have under the any-schema's compatibility check -/
def anyKeyOK (u : V) : Bool := match u with | .int .int64 _ | .str _ => true | _ => false

theorem anyCompat_anyMap_eq (n : Nat) (kvs : List (V × V)) :
    anyCompat (n + 1) (.map ⟨.any, true⟩ kvs) =
      (forKV (fun k e =>
        if anyKeyOK k.under then
          (if kvs.any (fun kv => kindTag kv.1 != kindTag k && anyKeyOK kv.1.under) then .cerr
           else (rewrapC (anyCompat n e)).bind fun _ => .ok (k, e))
        else .cerr) kvs).bind fun _ => done := by
  simp only [anyCompat]
  congr 1
  congr 1
  funext k e
  have : ∀ u : V, ∀ (A B : Out (V × V)), (match u with | .int .int64 _ | .str _ => A | _ => B) = if anyKeyOK u then A else B := by
    intro u A B
    cases u <;> try rfl
    rename_i k _; cases k <;> rfl
  exact this _ _ _

theorem anyCompat_strMap_eq (n : Nat) (kvs : List (V × V)) :
    anyCompat (n + 1) (.map ⟨.string, true⟩ kvs) =
      (forKV (fun k e => (rewrapC (anyCompat n e)).bind fun _ => .ok (k, e)) kvs).bind fun _ => done := rfl
theorem anyCompat_intMap_eq (n : Nat) (kvs : List (V × V)) :
    anyCompat (n + 1) (.map ⟨.int64, true⟩ kvs) =
      (forKV (fun k e => (rewrapC (anyCompat n e)).bind fun _ => .ok (k, e)) kvs).bind fun _ => done := rfl
theorem anyCompat_list_eq (n : Nat) (xs : List V) :
    anyCompat (n + 1) (.list xs) =
      (forIdx (fun _ e => rewrapC (anyCompat n e)) 0 xs).bind fun _ =>
        match xs with
        | [] => done
        | f :: rest => if rest.any (fun e => kindTag e != kindTag f) then .cerr else done := rfl

theorem V.PermEq.anyKeyOK_under {v w : V} (h : v ≈ᵥ w) : anyKeyOK v.under = anyKeyOK w.under := by
  cases h with
  | named h' => cases h' <;> rfl
  | _ => rfl

/-- `AnySchema.ValidateCompatibility` on data respects `PermEq` -/
theorem anyCompat_rel : ∀ (n : Nat) {v w : V}, v ≈ᵥ w → Out.Rel V.PermEq (anyCompat n v) (anyCompat n w)
  | 0, _, _, _ => by simp [anyCompat]
  | n + 1, v, w, h => by
    have ih : ∀ {a b : V}, a ≈ᵥ b → Out.Rel V.PermEq (anyCompat n a) (anyCompat n b) := anyCompat_rel n
    have hdef : ∀ {a b : V}, a ≈ᵥ b → Out.Rel V.PermEq ((anyConvert (n + 1) a).bind fun _ => done)
        ((anyConvert (n + 1) b).bind fun _ => done) :=
      fun hab => Out.Rel.bind (anyConvert_rel (n + 1) hab) fun _ _ _ => Out.Rel.rfl' V.PermEq.refl _
    have hlist : ∀ {xs ys : List V}, ListEq xs ys →
        Out.Rel V.PermEq (anyCompat (n + 1) (.list xs)) (anyCompat (n + 1) (.list ys)) := by
      intro xs ys hl
      rw [anyCompat_list_eq, anyCompat_list_eq]
      refine Out.Rel.bind (forIdx_rel (R := V.PermEq) (S := V.PermEq) (fun i x y hxy => Out.Rel.rewrapC (@ih x y hxy)) hl 0) fun _ _ _ => ?_
      cases hl with
      | nil => exact Out.Rel.rfl' V.PermEq.refl _
      | @cons a b as bs hab hrest =>
        simp only
        rw [hrest.any_eq (q := fun e => kindTag e != kindTag b) (fun c d h => by rw [h.kindTag, hab.kindTag])]
        exact Out.Rel.rfl' V.PermEq.refl _
    have hplain : ∀ {kvs kvs' : List (V × V)}, MapEq kvs kvs' → Out.Rel V.PermEq
        ((forKV (fun k e => (rewrapC (anyCompat n e)).bind fun _ => .ok (k, e)) kvs).bind fun _ => done)
        ((forKV (fun k e => (rewrapC (anyCompat n e)).bind fun _ => .ok (k, e)) kvs').bind fun _ => done) := by
      intro kvs kvs' hm
      refine Out.Rel.bind (forKV_permRel (R := EntryEq) (S := EntryEq) ?_ hm) fun _ _ _ => Out.Rel.rfl' V.PermEq.refl _
      intro a b hab
      exact Out.Rel.bind (Out.Rel.rewrapC (ih hab.2)) fun _ _ _ => Out.Rel.ok_ok.mpr hab
    have hmap : ∀ (sh : MapShape) {kvs kvs' : List (V × V)}, MapEq kvs kvs' →
        Out.Rel V.PermEq (anyCompat (n + 1) (.map sh kvs)) (anyCompat (n + 1) (.map sh kvs')) := by
      intro sh kvs kvs' hm
      obtain ⟨key, va⟩ := sh
      cases va
      · cases key <;> exact hdef (V.permEq_map_of hm)
      · cases key
        · -- map[any]any
          rw [anyCompat_anyMap_eq, anyCompat_anyMap_eq]
          refine Out.Rel.bind (forKV_permRel (R := EntryEq) (S := EntryEq) ?_ hm) fun _ _ _ => Out.Rel.rfl' V.PermEq.refl _
          intro a b hab
          rw [hab.1.anyKeyOK_under]
          rw [hm.any_eq (q := fun kv => kindTag kv.1 != kindTag b.1 && anyKeyOK kv.1.under)
            (fun c d hcd => by rw [hcd.1.kindTag, hab.1.kindTag, hcd.1.anyKeyOK_under])]
          split
          · split
            · simp
            · exact Out.Rel.bind (Out.Rel.rewrapC (ih hab.2)) fun _ _ _ => Out.Rel.ok_ok.mpr hab
          · simp
        · rw [anyCompat_strMap_eq, anyCompat_strMap_eq]; exact hplain hm
        · rw [anyCompat_intMap_eq, anyCompat_intMap_eq]; exact hplain hm
        · exact hdef (V.permEq_map_of hm)
    cases h with
    | listNil => exact hlist .nil
    | listCons a b => exact hlist (.cons a (V.permEq_list_iff.mp b))
    | mapNil sh => exact hmap sh .nil
    | mapCons a b c => exact hmap _ (V.permEq_map_iff.mp (.mapCons a b c)).2
    | named h' => exact hdef (.named h')
    | _ => exact Out.Rel.rfl' V.PermEq.refl _

theorem runAny_rel (op : Op) (n : Nat) {v w : V} (h : v ≈ᵥ w) : Out.Rel V.PermEq (runAny op n v) (runAny op n w) := by
  cases op <;> simp only [runAny]
  · exact anyConvert_rel n h
  · exact Out.Rel.bind (anyConvert_rel n h) fun _ _ _ => Out.Rel.rfl' V.PermEq.refl _
  · exact anyConvert_rel n h
  · exact anyCompat_rel n h

/-! ### an unserialized `map[string]any` has distinct keys -/

theorem dupKey_false_strKeys : ∀ {kvs : List (V × V)}, (kvs.filterMap fun kv => kv.1.key?).Nodup → (strKeysOf kvs).Nodup
  | [], _ => List.nodup_nil
  | (k, v) :: rest, h => by
    have hrest : (rest.filterMap fun kv => kv.1.key?).Nodup := by
      simp only [List.filterMap_cons] at h
      split at h
      · exact h
      · exact (List.nodup_cons.mp h).2
    have ih := dupKey_false_strKeys hrest
    cases k with
    | str s =>
      simp only [strKeysOf, List.filterMap_cons, V.strKey?]
      refine List.nodup_cons.mpr ⟨?_, ih⟩
      intro hm
      obtain ⟨kv, hkv, e⟩ := List.mem_filterMap.mp hm
      have hk : kv.1 = V.str s := by
        obtain ⟨k', v'⟩ := kv
        cases k' <;> simp only [Option.some.injEq, reduceCtorEq] at e
        -- (only the `str` case survives)
        subst e; rfl
      have hin : Key.s s ∈ rest.filterMap fun kv => kv.1.key? :=
        List.mem_filterMap.mpr ⟨kv, hkv, by rw [hk]; rfl⟩
      have h' : (Key.s s :: rest.filterMap fun kv => kv.1.key?).Nodup := h
      exact (List.nodup_cons.mp h').1 hin
    | _ => exact ih

theorem V.topDistinct_of_dupKey {sh : MapShape} {kvs : List (V × V)} (h : dupKey kvs = false) :
    (V.map sh kvs).TopDistinct :=
  dupKey_false_strKeys ((dupKey_false_iff' kvs).mp h)

theorem applyDefaults_nodup : ∀ (props : List (String × PropT)) {m m1 : List (String × V)},
    applyDefaults props m = .ok m1 → (m.map Prod.fst).Nodup → (m1.map Prod.fst).Nodup
  | [], m, m1, h, hnd => by simp only [applyDefaults, Out.ok.injEq] at h; subst h; exact hnd
  | (id, p) :: rest, m, m1, h, hnd => by
    simp only [applyDefaults] at h
    cases hk : hasKey id m with
    | true => rw [hk] at h; exact applyDefaults_nodup rest h hnd
    | false =>
      rw [hk] at h
      simp only [Bool.false_eq_true, if_false] at h
      cases hdv : p.defaultV with
      | none => rw [hdv] at h; exact applyDefaults_nodup rest h hnd
      | some o =>
        rw [hdv] at h
        cases o with
        | none => simp at h
        | some d =>
          refine applyDefaults_nodup rest h ?_
          have hnm : id ∉ m.map Prod.fst := by
            intro hm
            have := (hasKey_iff_mem id m).mpr hm
            rw [hk] at this; exact absurd this (by simp)
          simp only [List.map_append, List.map_cons, List.map_nil]
          refine List.nodup_append.mpr ⟨hnd, by simp, ?_⟩
          intro a ha b hb
          simp only [List.mem_singleton] at hb
          subst hb
          intro e; subst e; exact hnm ha

theorem allSV_keys' {f : String → V → Out V} {m m' : List (String × V)} (h : AllSV f m m') :
    m'.map Prod.fst = m.map Prod.fst := by
  induction h with
  | nil => rfl
  | cons _ _ ih => simp [ih]

theorem objRaw_keys_nodup {rec : Rec} {env : Env} {props : List (String × PropT)} {v : V} {m : List (String × V)}
    (htd : v.TopDistinct) (h : objRaw rec env props v = .ok m) : (m.map Prod.fst).Nodup := by
  unfold objRaw at h
  split at h
  · split at h
    · split at h
      · simp [Out.plain] at h
      · obtain ⟨r, _, h⟩ := bind_eq_ok h
        simp only [Out.ok.injEq] at h; subst h
        simp
    · simp [Out.cerr] at h
  · rename_i sh kvs hme
    rw [V.mapEntries_eq hme] at htd
    split at h
    · simp [Out.cerr] at h
    · rename_i skvs hsk
      split at h
      · simp [Out.cerr] at h
      · obtain ⟨m1, h1, h2⟩ := bind_eq_ok h
        rw [allSV_keys' (forSV_ok_iff.mp h2)]
        refine applyDefaults_nodup props h1 ?_
        rw [← strKeysOf_of_strKeys hsk]; exact htd

theorem V.topDistinct_nonmap {v : V} (h : v.mapEntries? = none) : v.TopDistinct := by
  cases v <;> simp_all [V.mapEntries?, V.TopDistinct]

theorem oneOfUnser_top {rec : Rec} (htop : RecTop rec) {x : Ext} {env : Env} {intKey : Bool} {disc : String}
    {inlined : Bool} {members : List (Key × Ty)} {v r : V} (htd : v.TopDistinct)
    (h : oneOfUnser rec x env intKey disc inlined members v = .ok r) : r.TopDistinct := by
  unfold oneOfUnser at h
  split at h
  · simp [Out.plain] at h
  · split at h
    · simp [Out.cerr] at h
    · rename_i sh kvs hme
      rw [V.mapEntries_eq hme] at htd
      split at h
      · simp [Out.cerr] at h
      · split at h
        · simp [Out.cerr] at h
        · obtain ⟨key, _, h⟩ := bind_eq_ok h
          split at h
          · simp [Out.cerr] at h
          · rename_i m hsk
            have hnd : (m.map Prod.fst).Nodup := by rw [← strKeysOf_of_strKeys hsk]; exact htd
            split at h
            · simp [Out.cerr] at h
            · rename_i mt _
              obtain ⟨r0, hr0, h⟩ := bind_eq_ok h
              have hclone : (toStrAny (if inlined then m else eraseKey disc m)).TopDistinct := by
                rw [V.topDistinct_toStrAny]
                cases inlined
                · simp only [Bool.false_eq_true, if_false]; exact eraseKey_keys_nodup hnd disc
                · simp only [if_true]; exact hnd
              have hr0t : r0.TopDistinct := htop env mt _ r0 hclone hr0
              split at h
              · rename_i rk
                split at h
                · rename_i rm hrk
                  simp only [Out.ok.injEq] at h; subst h
                  rw [V.topDistinct_toStrAny]
                  refine setKey_keys_nodup ?_ disc _
                  rw [← strKeysOf_of_strKeys hrk]; exact hr0t
                · simp [Out.cerr] at h
              · simp only [Out.ok.injEq] at h; subst h; exact hr0t

theorem anyConvert_top : ∀ (n : Nat) {v r : V}, anyConvert n v = .ok r → r.TopDistinct
  | 0, _, _, h => by simp [anyConvert] at h
  | n + 1, v, r, h => by
    unfold anyConvert at h
    split at h
    · split at h
      · simp only [Out.ok.injEq] at h; subst h; trivial
      · split at h
        · simp [Out.plain] at h
        · obtain ⟨_, _, h⟩ := bind_eq_ok h
          simp only [Out.ok.injEq] at h; subst h; trivial
    · split at h
      · simp only [Out.ok.injEq] at h; subst h; trivial
      · split at h
        · simp [Out.plain] at h
        · simp only [Out.ok.injEq] at h; subst h; trivial
    · simp only [Out.ok.injEq] at h; subst h; trivial
    · simp only [Out.ok.injEq] at h; subst h; trivial
    · obtain ⟨_, _, h⟩ := bind_eq_ok h
      simp only [Out.ok.injEq] at h; subst h; trivial
    · obtain ⟨_, _, h⟩ := bind_eq_ok h
      simp only [Out.ok.injEq] at h; subst h; trivial
    · obtain ⟨es, _, h⟩ := bind_eq_ok h
      split at h
      · simp [Out.cerr] at h
      · rename_i hdup
        simp only [Out.ok.injEq] at h; subst h
        exact V.topDistinct_of_dupKey (by simpa using hdup)
    · simp [Out.cerr] at h

/-- `RecTop` holds of `run` at every budget -/
theorem run_topDistinct (x : Ext) : ∀ (n : Nat), RecTop (run x n)
  | 0 => by intro env t v r _ h; simp [run] at h
  | n + 1 => by
    have ih := run_topDistinct x n
    intro env t v r htd h
    cases t <;> simp only [run] at h
    case int a b u =>
      simp only [runInt] at h
      obtain ⟨_, _, h⟩ := bind_eq_ok h
      obtain ⟨_, _, h⟩ := bind_eq_ok h
      simp only [Out.ok.injEq] at h; subst h; trivial
    case float a b u =>
      simp only [runFloat] at h
      obtain ⟨_, _, h⟩ := bind_eq_ok h
      obtain ⟨_, _, h⟩ := bind_eq_ok h
      simp only [Out.ok.injEq] at h; subst h; trivial
    case str a b p =>
      simp only [runStr] at h
      obtain ⟨_, _, h⟩ := bind_eq_ok h
      obtain ⟨_, _, h⟩ := bind_eq_ok h
      simp only [Out.ok.injEq] at h; subst h; trivial
    case bool =>
      simp only [runBool] at h
      obtain ⟨_, _, h⟩ := bind_eq_ok h
      simp only [Out.ok.injEq] at h; subst h; trivial
    case pattern =>
      simp only [runPattern] at h
      obtain ⟨_, _, h⟩ := bind_eq_ok h
      split at h
      · simp only [Out.ok.injEq] at h; subst h; trivial
      · simp [Out.cerr] at h
    case enumInt vals u =>
      simp only [runEnumInt] at h
      obtain ⟨_, _, h⟩ := bind_eq_ok h
      split at h
      · simp only [Out.ok.injEq] at h; subst h; trivial
      · simp [Out.cerr] at h
    case enumStr vals =>
      simp only [runEnumStr] at h
      obtain ⟨_, _, h⟩ := bind_eq_ok h
      split at h
      · simp only [Out.ok.injEq] at h; subst h; trivial
      · simp [Out.cerr] at h
    case list item a b =>
      unfold runList at h
      split at h
      · simp [Out.cerr] at h
      · simp only at h
        obtain ⟨_, _, h⟩ := bind_eq_ok h
        obtain ⟨_, _, h⟩ := bind_eq_ok h
        simp only [Out.ok.injEq] at h; subst h; trivial
    case map kt vt a b =>
      unfold runMap at h
      split at h
      · simp [Out.cerr] at h
      · simp only at h
        obtain ⟨_, _, h⟩ := bind_eq_ok h
        obtain ⟨es, _, h⟩ := bind_eq_ok h
        split at h
        · simp [Out.cerr] at h
        · rename_i hdup
          simp only [Out.ok.injEq] at h; subst h
          exact V.topDistinct_of_dupKey (by simpa using hdup)
    case obj id props =>
      simp only [runObj] at h
      obtain ⟨m, hm, h⟩ := bind_eq_ok h
      obtain ⟨_, _, h⟩ := bind_eq_ok h
      simp only [Out.ok.injEq] at h; subst h
      rw [V.topDistinct_toStrAny]
      exact objRaw_keys_nodup htd hm
    case oneOf ik disc inl members =>
      simp only [runOneOf] at h
      exact oneOfUnser_top ih htd h
    case ref id =>
      split at h
      · simp at h
      · exact ih _ _ _ _ htd h
    case scope objs root =>
      split at h
      · simp at h
      · exact ih _ _ _ _ htd h
    case any =>
      simp only [runAny] at h
      exact anyConvert_top _ h

/-! ### the induction on the fuel -/

/-- **Deep order independence.** On a genuine Go value (`DistinctKeys`) and any reordering of it
    (`PermEq`), every schema operation either succeeds on both with results equal up to order, or
    fails on both. -/
theorem run_permEq (x : Ext) : ∀ (n : Nat), RecRel (run x n)
  | 0 => by intro op env t v w _ _; simp [run]
  | n + 1 => by
    have ih := run_permEq x n
    have ihtop := run_topDistinct x n
    intro op env t v w h hd
    cases t <;> simp only [run]
    case int a b u => exact Out.Rel.of_eq V.PermEq.refl (h.runInt op a b u)
    case float a b u => exact Out.Rel.of_eq V.PermEq.refl (h.runFloat x op a b u)
    case str a b p => exact Out.Rel.of_eq V.PermEq.refl (h.runStr x op a b p)
    case bool => exact Out.Rel.of_eq V.PermEq.refl (h.runBool op)
    case pattern => exact Out.Rel.of_eq V.PermEq.refl (h.runPattern x op)
    case enumInt vals u => exact Out.Rel.of_eq V.PermEq.refl (h.runEnumInt op vals u)
    case enumStr vals => exact Out.Rel.of_eq V.PermEq.refl (h.runEnumStr x op vals)
    case list item a b => exact runList_rel ih op env item a b h hd
    case map kt vt a b => exact runMap_rel ih op env kt vt a b h hd
    case obj id props => exact runObj_rel ih op env id props h hd
    case oneOf ik disc inl members => exact runOneOf_rel ih ihtop x op env ik disc inl members h hd
    case ref id =>
      cases lookupS id env with
      | none => simp
      | some o => exact ih op env o v w h hd
    case scope objs root =>
      cases lookupS root objs with
      | none => simp
      | some o => exact ih op objs o v w h hd
    case any => exact runAny_rel op (n + 1) h

end Arca
