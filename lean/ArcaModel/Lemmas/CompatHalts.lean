import ArcaModel.Model.Compat
import ArcaModel.Lemmas.Terminates
/-
  Schema-mode ValidateCompatibility terminates whenever the CONSUMER's reference graph is acyclic,
  whatever the producer is: every recursive call of `compatS` descends in the consumer schema.
-/
namespace Arca
open Out

theorem halts_forAll {α} {f : α → Out Unit} : ∀ {xs : List α}, (∀ a, a ∈ xs → Halts (f a)) → Halts (forAll f xs)
  | [], _ => by simp [forAll]
  | a :: rest, h => by
    have h1 := h a (by simp)
    have h2 := halts_forAll (f := f) (xs := rest) (fun b hb => h b (by simp [hb]))
    simp only [forAll]
    cases hx : f a with
    | ok u => cases u; simpa using h2
    | err e => simp
    | panic => simp
    | fuel => rw [hx] at h1; simp at h1

theorem compatS_halts {es : Env} {s : Ty} {d : Nat} (h : FinDepth es s d) :
    ∀ (n : Nat), d < n → ∀ (eo : Env) (o : Ty), Halts (compatS n es eo s o) := by
  induction h with
  | int | float | str | bool | pattern | enumInt | enumStr =>
    intro n hn eo o
    obtain ⟨m, rfl⟩ : ∃ m, n = m + 1 := ⟨n - 1, by omega⟩
    unfold compatS; simp only []
    (repeat' split) <;> simp
  | any =>
    intro n hn eo o
    obtain ⟨m, rfl⟩ : ∃ m, n = m + 1 := ⟨n - 1, by omega⟩
    unfold compatS; simp only []
    (repeat' split) <;> simp
  | list _ hlt ih =>
    intro n hn eo o
    obtain ⟨m, rfl⟩ : ∃ m, n = m + 1 := ⟨n - 1, by omega⟩
    unfold compatS; simp only []
    split
    · split
      · simp
      · exact ih m (by omega) eo _
    · simp
  | map _ _ hlt ihk ihv =>
    intro n hn eo o
    obtain ⟨m, rfl⟩ : ∃ m, n = m + 1 := ⟨n - 1, by omega⟩
    unfold compatS; simp only []
    split
    · refine halts_bind (halts_rewrapC (ihk m (by omega) eo _)) (fun _ => ?_)
      refine halts_bind (halts_rewrapC (ihv m (by omega) eo _)) (fun _ => ?_)
      split <;> simp
    · simp
  | obj _ _ hlt ih =>
    intro n hn eo o
    obtain ⟨m, rfl⟩ : ∃ m, n = m + 1 := ⟨n - 1, by omega⟩
    unfold compatS; simp only []
    split
    · simp
    · simp
    · split
      · simp
      · refine halts_bind (halts_forAll (fun kp _ => ?_)) (fun _ => by split <;> simp)
        simp only [objPropCompat]
        split
        · simp
        · rename_i sp hsp
          exact halts_addSeg _ (ih (kp.1, sp) (lookupS_mem hsp) m (by omega) _ _)
  | oneOf _ hlt ih =>
    intro n hn eo o
    obtain ⟨m, rfl⟩ : ∃ m, n = m + 1 := ⟨n - 1, by omega⟩
    unfold compatS; simp only []
    split
    · split
      · simp
      · split
        · simp
        · refine halts_forAll (fun km hkm => ?_)
          simp only [oneOfMemberCompat]
          split
          · simp
          · exact halts_rewrapC (ih km hkm m (by omega) _ _)
    · simp
  | ref hl _ hlt ih =>
    intro n hn eo o
    obtain ⟨m, rfl⟩ : ∃ m, n = m + 1 := ⟨n - 1, by omega⟩
    unfold compatS; simp only []
    simp only [hl]
    split
    · split
      · exact ih m (by omega) _ _
      · simp
    · exact ih m (by omega) _ _
  | refNone hl =>
    intro n hn eo o
    obtain ⟨m, rfl⟩ : ∃ m, n = m + 1 := ⟨n - 1, by omega⟩
    unfold compatS; simp only []
    simp [hl]
  | scope hl _ hlt ih =>
    intro n hn eo o
    obtain ⟨m, rfl⟩ : ∃ m, n = m + 1 := ⟨n - 1, by omega⟩
    unfold compatS; simp only []
    simp only [hl]
    split
    · split
      · exact ih m (by omega) _ _
      · simp
    · exact ih m (by omega) _ _
  | scopeNone hl =>
    intro n hn eo o
    obtain ⟨m, rfl⟩ : ∃ m, n = m + 1 := ⟨n - 1, by omega⟩
    unfold compatS; simp only []
    simp [hl]

end Arca
