import ArcaModel.Lemmas.RoundTrip
import ArcaModel.Model.Describe
/-
  The CBOR leg of the round trip (C01).

  ATP sends a serialized value through `cbor.Marshal` and decodes it into `any` on the other
  side. `cborNorm` (Model/Describe.lean) is what that does to the Go types. This file proves that
  Unserialize does not see the difference: whatever Unserialize accepts, it accepts in its
  CBOR-normalised form as well, with the identical result (`unser_cborNorm`).

  The only requirement is that the value is a Go value at all (`GoV`): the model type `V` is wider
  than Go's value universe (it can write down an `int64` holding 2^63), and `cborNorm` - like the
  real encoder - decides by the NUMBER, not by the kind, whether an integer travels as unsigned.
-/
namespace Arca
open Out

/-! ### Go values -/

/-- a scalar that a defined (named) type can wrap, within the range of its kind -/
def GoScalar : V → Bool
  | .int k n => k.inRange n
  | .float _ _ => true
  | .str _ => true
  | .bool _ => true
  | _ => false

mutual
/-- The values of `V` that are Go values: every integer lies within the range of its kind, a byte
    is below 256, a defined type wraps a scalar (as the docstring of `V.named` says). -/
def GoV : V → Bool
  | .int k n => k.inRange n
  | .bytes b => b.all (· < 256)
  | .list xs => GoVL xs
  | .map _ kvs => GoVKV kvs
  | .named x => GoScalar x
  | _ => true
termination_by structural v => v
def GoVL : List V → Bool
  | [] => true
  | x :: xs => GoV x && GoVL xs
termination_by structural l => l
def GoVKV : List (V × V) → Bool
  | [] => true
  | (k, e) :: rest => GoV k && GoV e && GoVKV rest
termination_by structural l => l
end

/-- string-keyed entries whose values are Go values -/
def GoVS (m : List (String × V)) : Prop := ∀ kv, kv ∈ m → GoV kv.2 = true

theorem inInt64_of_inRange_int64 {n : Int} (h : IKind.int64.inRange n = true) : inInt64 n = true := by
  simp [IKind.inRange, IKind.lo, IKind.hi, IKind.signed, IKind.bits, inInt64, minInt64, maxInt64] at h ⊢
  exact ⟨decide_eq_true h.1, decide_eq_true h.2⟩

theorem goVS_of_strKeys : ∀ {kvs : List (V × V)} {m : List (String × V)}, strKeys? kvs = some m →
    GoVKV kvs = true → GoVS m
  | [], m, h, _ => by simp [strKeys?] at h; subst h; intro kv hkv; simp at hkv
  | (k, v) :: rest, m, h, hg => by
    cases k <;> simp only [strKeys?, reduceCtorEq] at h
    rename_i s
    cases hr : strKeys? rest with
    | none => simp [hr] at h
    | some a =>
      simp [hr] at h
      subst h
      simp only [GoVKV, Bool.and_eq_true] at hg
      intro kv hkv
      rcases List.mem_cons.mp hkv with heq | hkv'
      · subst heq; exact hg.1.2
      · exact goVS_of_strKeys hr hg.2 kv hkv'

theorem goVKV_of_goVS : ∀ {m : List (String × V)}, GoVS m →
    GoVKV (m.map fun (kv : String × V) => (V.str kv.1, kv.2)) = true
  | [], _ => by simp [GoVKV]
  | (k, v) :: rest, h => by
    simp only [List.map_cons, GoVKV, GoV, Bool.true_and, Bool.and_eq_true]
    exact ⟨h (k, v) (by simp), goVKV_of_goVS (fun kv hkv => h kv (List.mem_cons_of_mem _ hkv))⟩

theorem goV_toStrAny {m : List (String × V)} (h : GoVS m) : GoV (toStrAny m) = true := by
  simp only [toStrAny, GoV]
  exact goVKV_of_goVS h

/-! ### string-keyed property maps under normalisation -/

/-- normalise the values of a property map -/
def normS (m : List (String × V)) : List (String × V) := m.map fun kv => (kv.1, cborNorm kv.2)

theorem cborNormKV_strKeys : ∀ {kvs : List (V × V)} {m : List (String × V)}, strKeys? kvs = some m →
    cborNormKV kvs = (normS m).map fun (kv : String × V) => (V.str kv.1, kv.2)
  | [], m, h => by simp [strKeys?] at h; subst h; simp [cborNormKV, normS]
  | (k, v) :: rest, m, h => by
    cases k <;> simp only [strKeys?, reduceCtorEq] at h
    rename_i s
    cases hr : strKeys? rest with
    | none => simp [hr] at h
    | some a =>
      simp [hr] at h
      subst h
      have := cborNormKV_strKeys hr
      simp only [cborNormKV, cborNorm, this, normS, List.map_cons]

theorem cborNorm_toStrAny (m : List (String × V)) :
    cborNorm (toStrAny m) = .map .anyAny ((normS m).map fun (kv : String × V) => (V.str kv.1, kv.2)) := by
  simp only [toStrAny, cborNorm]
  rw [cborNormKV_strKeys (strKeys_toStrAny m)]

theorem normS_keys (m : List (String × V)) : (normS m).map Prod.fst = m.map Prod.fst := by
  simp [normS]

theorem lookupS_normS (k : String) : ∀ (m : List (String × V)), lookupS k (normS m) = (lookupS k m).map cborNorm
  | [] => by simp [normS, lookupS]
  | (k', v) :: rest => by
    have ih := lookupS_normS k rest
    simp only [normS, List.map_cons, lookupS] at ih ⊢
    split
    · simp
    · exact ih

theorem eraseKey_normS (k : String) : ∀ (m : List (String × V)), eraseKey k (normS m) = normS (eraseKey k m)
  | [] => by simp [normS, eraseKey]
  | (k', v) :: rest => by
    have ih := eraseKey_normS k rest
    simp only [normS, List.map_cons, eraseKey] at ih ⊢
    split
    · exact ih
    · simp [ih]

theorem goVS_eraseKey {k : String} : ∀ {m : List (String × V)}, GoVS m → GoVS (eraseKey k m)
  | [], _ => by intro kv hkv; simp [eraseKey] at hkv
  | (k', v) :: rest, h => by
    have hr : GoVS rest := fun kv hkv => h kv (List.mem_cons_of_mem _ hkv)
    simp only [eraseKey]
    split
    · exact goVS_eraseKey hr
    · intro kv hkv
      rcases List.mem_cons.mp hkv with heq | hkv'
      · subst heq; exact h (k', v) (by simp)
      · exact goVS_eraseKey hr kv hkv'

/-! ### the input mappers do not look at the kind of an integer or float -/

theorem intInputMapper_cn {u : Option Units} {a : V} {n : Int} (h : intInputMapper u a = .ok n) :
    intInputMapper u (cborNorm a) = .ok n := by
  cases a <;> simp only [cborNorm] <;> try exact h
  · rename_i k i
    split <;> exact h
  · simp [intInputMapper, plain] at h

theorem floatInputMapper_cn {x : Ext} {u : Option Units} {a : V} {b : Nat} (h : floatInputMapper x u a = .ok b) :
    floatInputMapper x u (cborNorm a) = .ok b := by
  cases a <;> simp only [cborNorm] <;> try exact h
  · rename_i k i
    split <;> exact h
  · simp [floatInputMapper, plain] at h

theorem stringInputMapper_cn {x : Ext} {a : V} {s : String} (h : stringInputMapper x a = .ok s) :
    stringInputMapper x (cborNorm a) = .ok s := by
  cases a <;> simp only [cborNorm] <;> try exact h
  · rename_i k i
    split <;> exact h
  · simp [stringInputMapper, plain] at h

theorem boolInputMapper_cn {a : V} {b : Bool} (h : boolInputMapper a = .ok b) :
    boolInputMapper (cborNorm a) = .ok b := by
  cases a <;> simp only [cborNorm] <;> try exact h
  · rename_i k i
    split <;> exact h
  · simp [boolInputMapper, cerr] at h

theorem bind_mono {α β} {o1 o2 : Out α} {f : α → Out β} {r : β} (h : ∀ n, o1 = .ok n → o2 = .ok n)
    (h1 : o1.bind f = .ok r) : o2.bind f = .ok r := by
  obtain ⟨n, h2, h3⟩ := bind_eq_ok h1
  rw [h n h2]
  exact h3

theorem bind_rewrapC_mono {α β} {o1 o2 : Out α} {f : α → Out β} {r : β} (h : ∀ n, o1 = .ok n → o2 = .ok n)
    (h1 : (rewrapC o1).bind f = .ok r) : (rewrapC o2).bind f = .ok r :=
  bind_mono (fun n hn => rewrapC_eq_ok.mpr (h n (rewrapC_eq_ok.mp hn))) h1

theorem discDenotes_cn {x : Ext} {ik : Bool} {d : V} {key : Key} (h : DiscDenotes x ik d key) :
    DiscDenotes x ik (cborNorm d) key := by
  unfold DiscDenotes at h ⊢
  by_cases hik : ik = true
  · simp only [hik, if_true] at h ⊢
    obtain ⟨n, hn, hk⟩ := h
    exact ⟨n, (intInputMapper_ok_iff _ _ _).mp (intInputMapper_cn ((intInputMapper_ok_iff _ _ _).mpr hn)), hk⟩
  · simp only [hik, if_false, Bool.false_eq_true] at h ⊢
    obtain ⟨s, hs, hk⟩ := h
    exact ⟨s, (stringInputMapper_ok_iff _ _ _).mp (stringInputMapper_cn ((stringInputMapper_ok_iff _ _ _).mpr hs)), hk⟩

end Arca

namespace Arca
open Out

/-! ### element-wise transport -/

theorem forall2_cn {g : V → Out V} (hg : ∀ a r, GoV a = true → g a = .ok r → g (cborNorm a) = .ok r)
    {xs ys : List V} (h : Forall2 (fun e y => g e = .ok y) xs ys) (hgo : GoVL xs = true) :
    Forall2 (fun e y => g e = .ok y) (cborNormL xs) ys := by
  induction h with
  | nil => simp only [cborNormL]; exact .nil
  | cons hab _ ih =>
    simp only [GoVL, Bool.and_eq_true] at hgo
    simp only [cborNormL]
    exact .cons (hg _ _ hgo.1 hab) (ih hgo.2)

theorem forall2_kv_cn {gk gv : V → Out V}
    (hk : ∀ a r, GoV a = true → gk a = .ok r → gk (cborNorm a) = .ok r)
    (hv : ∀ a r, GoV a = true → gv a = .ok r → gv (cborNorm a) = .ok r)
    {kvs kvs' : List (V × V)}
    (h : Forall2 (fun (kv kv' : V × V) => gk kv.1 = .ok kv'.1 ∧ gv kv.2 = .ok kv'.2) kvs kvs') (hgo : GoVKV kvs = true) :
    Forall2 (fun (kv kv' : V × V) => gk kv.1 = .ok kv'.1 ∧ gv kv.2 = .ok kv'.2) (cborNormKV kvs) kvs' := by
  induction h with
  | nil => simp only [cborNormKV]; exact .nil
  | @cons a b as bs hab _ ih =>
    obtain ⟨k, e⟩ := a
    simp only [GoVKV, Bool.and_eq_true] at hgo
    simp only [cborNormKV]
    exact .cons ⟨hk _ _ hgo.1.1 hab.1, hv _ _ hgo.1.2 hab.2⟩ (ih hgo.2)

/-! ### the any schema -/

theorem anyConvert_int {n : Nat} {k : IKind} {i : Int} {r : V} (hg : k.inRange i = true)
    (h : anyConvert (n + 1) (.int k i) = .ok r) : r = .int .int64 i ∧ inInt64 i = true := by
  simp only [anyConvert, V.under] at h
  split at h
  · rename_i hk
    have : k = .int64 := by simpa using hk
    subst this
    simp at h
    exact ⟨h.symm, inInt64_of_inRange_int64 hg⟩
  · obtain ⟨m, h1, h2⟩ := bind_eq_ok h
    simp only [intInputMapper] at h1
    split at h1
    · rename_i hi
      simp at h1 h2
      subst h1
      exact ⟨h2.symm, hi⟩
    · simp [plain] at h1

theorem anyConvert_cn_int {n : Nat} {k : IKind} {i : Int} {r : V} (hg : k.inRange i = true)
    (h : anyConvert (n + 1) (.int k i) = .ok r) : anyConvert (n + 1) (cborNorm (.int k i)) = .ok r := by
  obtain ⟨hr, hi⟩ := anyConvert_int hg h
  subst hr
  simp only [cborNorm]
  split <;> simp [anyConvert, V.under, intInputMapper, hi, Out.bind]

theorem allKV_any_cn {n : Nat} (ih : ∀ a r, GoV a = true → anyConvert n a = .ok r → anyConvert n (cborNorm a) = .ok r)
    {kvs kvs' : List (V × V)} (hall : AllKV (anyEntry n) kvs kvs') (hgo : GoVKV kvs = true) :
    AllKV (anyEntry n) (cborNormKV kvs) kvs' := by
  induction hall with
  | nil => simp only [cborNormKV]; exact .nil
  | @cons k v kv rest rest' hf _ ih' =>
    simp only [GoVKV, Bool.and_eq_true] at hgo
    unfold anyEntry at hf
    obtain ⟨k', hk, h3⟩ := bind_eq_ok hf
    obtain ⟨x', hx, h4⟩ := bind_eq_ok h3
    simp at h4; subst h4
    simp only [cborNormKV]
    refine .cons ?_ (ih' hgo.2)
    simp [anyEntry, addSeg_eq_ok.mpr (ih _ _ hgo.1.1 (addSeg_eq_ok.mp hk)),
      addSeg_eq_ok.mpr (ih _ _ hgo.1.2 (addSeg_eq_ok.mp hx)), Out.bind]

theorem anyConvert_cn : ∀ (n : Nat) (a r : V), GoV a = true → anyConvert n a = .ok r →
    anyConvert n (cborNorm a) = .ok r
  | 0, _, _, _, h => by simp [anyConvert] at h
  | n + 1, a, r, hg, h => by
    have ih := anyConvert_cn n
    cases a with
    | nil => simp [anyConvert, V.under, cerr] at h
    | regex s => simp [anyConvert, V.under, cerr] at h
    | «opaque» => simp [anyConvert, V.under, cerr] at h
    | bool b => simp only [cborNorm]; exact h
    | str s => simp only [cborNorm]; exact h
    | bytes b => simp only [cborNorm]; exact h
    | int k i => exact anyConvert_cn_int (by simpa [GoV] using hg) h
    | float k b =>
      have hr : r = .float .f64 b := by
        simp only [anyConvert, V.under] at h
        (repeat' split at h) <;> simp at h <;> exact h.symm
      subst hr
      simp [cborNorm, anyConvert, V.under]
    | list xs =>
      simp only [anyConvert, V.under] at h
      obtain ⟨ys, h1, h2⟩ := bind_eq_ok h
      simp at h2; subst h2
      have hall := allIdx_any_iff.mp (forIdx_ok_iff.mp h1)
      have hys := forIdx_ok_iff.mpr (allIdx_any_iff (n := 0) |>.mpr (forall2_cn ih hall (by simpa [GoV] using hg)))
      simp only [cborNorm, anyConvert, V.under]
      rw [hys]; rfl
    | map sh kvs =>
      simp only [anyConvert, V.under] at h
      obtain ⟨kvs', h1, h2⟩ := bind_eq_ok h
      have hall : AllKV (anyEntry n) kvs kvs' := forKV_ok_iff.mp h1
      have hf := forKV_ok_iff.mpr (allKV_any_cn ih hall (by simpa [GoV] using hg))
      unfold anyEntry at hf
      simp only [cborNorm, anyConvert, V.under]
      rw [hf]
      exact h2
    | named y =>
      simp only [GoV] at hg
      cases y <;> simp only [GoScalar, Bool.false_eq_true] at hg
      · -- named bool
        simp only [cborNorm]; exact h
      · -- named int
        rename_i k i
        have h' : anyConvert (n + 1) (.int k i) = .ok r := by
          simp only [anyConvert, V.under] at h ⊢
          split at h
          · rename_i hk; simp only [hk, if_true]; exact h
          · simp [plain] at h
        simp only [cborNorm]
        exact anyConvert_cn_int hg h'
      · -- named float
        rename_i k b
        have hr : r = .float .f64 b := by
          simp only [anyConvert, V.under] at h
          (repeat' split at h) <;> simp [plain] at h <;> exact h.symm
        subst hr
        simp [cborNorm, anyConvert, V.under]
      · -- named str
        simp only [cborNorm]; exact h

end Arca

namespace Arca
open Out

/-! ### Unserialize does not look at the static type of a map (`map[string]any` / `map[any]any`) -/

theorem run_U_shape (x : Ext) : ∀ (n : Nat) (env : Env) (t : Ty) (sh sh' : MapShape) (kvs : List (V × V)),
    (sh.key = .any ∨ sh.key = .string) → (sh'.key = .any ∨ sh'.key = .string) →
    run x n .U env t (.map sh kvs) = run x n .U env t (.map sh' kvs)
  | 0, _, _, _, _, _, _, _ => rfl
  | n + 1, env, t, sh, sh', kvs, h1, h2 => by
    have ih := run_U_shape x n
    cases t with
    | int => rfl
    | float => rfl
    | str => rfl
    | bool => rfl
    | pattern => rfl
    | enumInt => rfl
    | enumStr => rfl
    | list => rfl
    | map => rfl
    | obj => rfl
    | any => rfl
    | oneOf ik d inl ms =>
      have e1 : (sh.key == KeyTy.any || sh.key == KeyTy.string) = true := by
        rcases h1 with h | h <;> simp [h]
      have e2 : (sh'.key == KeyTy.any || sh'.key == KeyTy.string) = true := by
        rcases h2 with h | h <;> simp [h]
      simp only [run, runOneOf, oneOfUnser, V.mapEntries?, e1, e2]
    | ref id =>
      simp only [run]
      cases lookupS id env with
      | none => rfl
      | some o => exact ih env o sh sh' kvs h1 h2
    | scope objs root =>
      simp only [run]
      cases lookupS root objs with
      | none => rfl
      | some o => exact ih objs o sh sh' kvs h1 h2

/-! ### objects -/

/-- the recursive call accepts the normalised form of every Go value it accepts, identically -/
def RecCN (rec : Rec) (env : Env) : Prop :=
  ∀ t a r, GoV a = true → rec .U env t a = .ok r → rec .U env t (cborNorm a) = .ok r

theorem mapEntries_cn_none {a : V} (hg : GoV a = true) (h : a.mapEntries? = none) :
    (cborNorm a).mapEntries? = none := by
  have hint : ∀ (k : IKind) (n : Int), (cborNorm (.int k n)).mapEntries? = none := by
    intro k n
    simp only [cborNorm]
    by_cases hn : n ≥ 0 <;> simp [hn, V.mapEntries?]
  cases a <;> simp only [V.mapEntries?, reduceCtorEq] at h
  all_goals first | exact hint _ _ | (simp only [cborNorm, V.mapEntries?]; done) | skip
  rename_i y
  simp only [GoV] at hg
  cases y <;> simp only [GoScalar, Bool.false_eq_true] at hg
  · simp only [cborNorm, V.mapEntries?]
  · rename_i k n
    have := hint k n
    simp only [cborNorm] at this ⊢
    exact this
  · simp only [cborNorm, V.mapEntries?]
  · simp only [cborNorm, V.mapEntries?]

/-- defaulting appends the same entries whatever the values of the supplied properties are -/
theorem applyDefaults_tail : ∀ (props : List (String × PropT)) (m m' m2 : List (String × V)),
    applyDefaults props m = .ok m' → m2.map Prod.fst = m.map Prod.fst →
    ∃ tl, m' = m ++ tl ∧ applyDefaults props m2 = .ok (m2 ++ tl)
  | [], m, m', m2, h, _ => by
    simp [applyDefaults] at h
    exact ⟨[], by simp [h], by simp [applyDefaults]⟩
  | (id, p) :: rest, m, m', m2, h, hk => by
    have hkey : hasKey id m2 = hasKey id m := hasKey_eq_of_keys hk id
    simp only [applyDefaults, hkey] at h ⊢
    split at h
    · rename_i hh
      simp only [hh, if_true]
      exact applyDefaults_tail rest m m' m2 h hk
    · rename_i hh
      simp only [hh]
      split at h
      · exact applyDefaults_tail rest m m' m2 h hk
      · simp at h
      · rename_i d hd
        obtain ⟨tl, h1, h2⟩ := applyDefaults_tail rest (m ++ [(id, d)]) m' (m2 ++ [(id, d)]) h (by simp [hk])
        exact ⟨(id, d) :: tl, by simp [h1], by simp [h2]⟩

theorem objEntryU_cn {rec : Rec} {env : Env} {props : List (String × PropT)} (ih : RecCN rec env) {k : String} {a r : V}
    (hg : GoV a = true) (h : objEntryU rec env props k a = .ok r) : objEntryU rec env props k (cborNorm a) = .ok r := by
  unfold objEntryU at h ⊢
  split at h
  · simp [cerr] at h
  · split at h
    · simp [cerrAt] at h
    · rename_i hd
      rw [if_neg hd]
      exact addSeg_eq_ok.mpr (ih _ _ _ hg (addSeg_eq_ok.mp h))

theorem allSV_normS_tail {f : String → V → Out V}
    (hf : ∀ k a r, GoV a = true → f k a = .ok r → f k (cborNorm a) = .ok r) (tl : List (String × V)) :
    ∀ (m m' : List (String × V)), GoVS m → AllSV f (m ++ tl) m' → AllSV f (normS m ++ tl) m'
  | [], _, _, h => by simpa [normS] using h
  | (k, v) :: rest, m', hg, h => by
    simp only [List.cons_append] at h
    cases h with
    | cons hx hr =>
      simp only [normS, List.map_cons, List.cons_append]
      exact .cons (hf _ _ _ (hg (k, v) (by simp)) hx)
        (allSV_normS_tail hf tl rest _ (fun kv hkv => hg kv (List.mem_cons_of_mem _ hkv)) hr)

theorem objRaw_cn {rec : Rec} {env : Env} {props : List (String × PropT)} {a : V} {m' : List (String × V)}
    (ih : RecCN rec env) (hg : GoV a = true) (h : objRaw rec env props a = .ok m') :
    objRaw rec env props (cborNorm a) = .ok m' := by
  cases hm : a.mapEntries? with
  | none =>
    have hm' := mapEntries_cn_none hg hm
    unfold objRaw at h ⊢
    simp only [hm, hm'] at h ⊢
    split at h
    · split at h
      · simp [plain] at h
      · rename_i hd
        simp only [hd]
        exact bind_mono (fun r hr => rewrapP_eq_ok.mpr (ih _ _ _ hg (rewrapP_eq_ok.mp hr))) h
    · simp [cerr] at h
  | some p =>
    obtain ⟨sh, kvs⟩ := p
    have ha : a = .map sh kvs := by
      cases a <;> simp [V.mapEntries?] at hm
      obtain ⟨rfl, rfl⟩ := hm; rfl
    subst ha
    simp only [GoV] at hg
    simp only [objRaw, V.mapEntries?] at h
    split at h
    · simp [cerr] at h
    · rename_i skvs hs
      split at h
      · simp [cerr] at h
      · rename_i hany
        obtain ⟨m, h1, h2⟩ := bind_eq_ok h
        obtain ⟨tl, hm1, hd⟩ := applyDefaults_tail props skvs m (normS skvs) h1 (normS_keys skvs)
        subst hm1
        have hall := allSV_normS_tail (f := objEntryU rec env props) (fun k a r hga hka => objEntryU_cn ih hga hka) tl skvs m'
          (goVS_of_strKeys hs hg) (forSV_ok_iff.mp h2)
        have hany' : ((normS skvs).any fun kv => !hasKey kv.1 props) = (skvs.any fun kv => !hasKey kv.1 props) := by
          simp [normS, List.any_map, Function.comp_def]
        simp only [cborNorm, objRaw, V.mapEntries?, cborNormKV_strKeys hs, strKeys_toStrAny, hany', hany, hd, Out.bind]
        exact forSV_ok_iff.mpr hall

/-! ### one-of -/

theorem oneOfUnser_cn {rec : Rec} {x : Ext} {env : Env} {ik : Bool} {disc : String} {inl : Bool}
    {members : List (Key × Ty)} {a r : V} (ih : RecCN rec env)
    (hshape : ∀ t kvs, rec .U env t (.map .strAny kvs) = rec .U env t (.map .anyAny kvs))
    (hg : GoV a = true) (h : oneOfUnser rec x env ik disc inl members a = .ok r) :
    oneOfUnser rec x env ik disc inl members (cborNorm a) = .ok r := by
  have hvm : ∃ sh kvs, a = .map sh kvs := by
    simp only [oneOfUnser] at h
    split at h
    · simp [plain] at h
    · split at h
      · simp [cerr] at h
      · rename_i sh kvs hm
        cases a <;> simp [V.mapEntries?] at hm
        obtain ⟨rfl, rfl⟩ := hm
        exact ⟨_, _, rfl⟩
  obtain ⟨sh, kvs, rfl⟩ := hvm
  simp only [GoV] at hg
  simp only [oneOfUnser, V.mapEntries?] at h
  split at h
  · simp [cerr] at h
  · split at h
    · simp [cerr] at h
    · rename_i dk d hfind
      obtain ⟨key, h1, h2⟩ := bind_eq_ok h
      split at h2
      · simp [cerr] at h2
      · rename_i m hm
        split at h2
        · simp [cerr] at h2
        · rename_i mt hmt
          obtain ⟨mr, h3, h4⟩ := bind_eq_ok h2
          have hgm : GoVS m := goVS_of_strKeys hm hg
          have hld : lookupS disc m = some d := find_lookup_disc disc kvs m dk d hm hfind
          have hfind' := lookup_find_disc disc (cborNorm d) (normS m) (by rw [lookupS_normS, hld]; rfl)
          have ht' := (typedDisc_ok_iff x ik (cborNorm d) key).mpr (discDenotes_cn ((typedDisc_ok_iff x ik d key).mp h1))
          have hclone : (if inl = true then normS m else eraseKey disc (normS m)) =
              normS (if inl = true then m else eraseKey disc m) := by
            cases inl <;> simp [eraseKey_normS]
          have hgc : GoVS (if inl = true then m else eraseKey disc m) := by
            cases inl
            · simpa using goVS_eraseKey hgm
            · simpa using hgm
          have h3' : rec .U env mt (toStrAny (normS (if inl = true then m else eraseKey disc m))) = .ok mr := by
            have := ih mt _ _ (goV_toStrAny hgc) h3
            rw [cborNorm_toStrAny] at this
            rw [toStrAny, hshape]
            exact this
          simp only [cborNorm, oneOfUnser, V.mapEntries?, MapShape.anyAny, BEq.rfl, Bool.true_or, Bool.not_true,
            Bool.false_eq_true, if_false, cborNormKV_strKeys hm, hfind']
          rw [ht']
          simp only [Out.bind, strKeys_toStrAny, hmt, hclone]
          rw [h3']
          exact h4

end Arca

namespace Arca
open Out

/-! ### the induction over the fuel -/

theorem cborNormL_length : ∀ (xs : List V), (cborNormL xs).length = xs.length
  | [] => by simp [cborNormL]
  | _ :: xs => by simp [cborNormL, cborNormL_length xs]

theorem cborNormKV_length : ∀ (kvs : List (V × V)), (cborNormKV kvs).length = kvs.length
  | [] => by simp [cborNormKV]
  | (_, _) :: rest => by simp [cborNormKV, cborNormKV_length rest]

/-- THE CBOR LEG. Whatever Unserialize accepts (a Go value), it accepts in its CBOR-normalised
    form too, with the identical result - for every schema, environment and externals. No
    well-formedness of the schema is needed. -/
theorem unser_cborNorm (x : Ext) : ∀ (n : Nat) (env : Env) (t : Ty) (a r : V), GoV a = true →
    run x n .U env t a = .ok r → run x n .U env t (cborNorm a) = .ok r
  | 0, _, _, _, _, _, h => by simp [run] at h
  | n + 1, env, t, a, r, hg, h => by
    have ih := unser_cborNorm x n
    cases t with
    | int mn mx u =>
      simp only [run, runInt] at h ⊢
      exact bind_rewrapC_mono (fun _ => intInputMapper_cn) h
    | float mn mx u =>
      simp only [run, runFloat] at h ⊢
      exact bind_rewrapC_mono (fun _ => floatInputMapper_cn) h
    | str mn mx pat =>
      simp only [run, runStr] at h ⊢
      exact bind_rewrapC_mono (fun _ => stringInputMapper_cn) h
    | bool =>
      simp only [run, runBool] at h ⊢
      exact bind_mono (fun _ => boolInputMapper_cn) h
    | pattern =>
      simp only [run, runPattern] at h ⊢
      exact bind_rewrapC_mono (fun _ => stringInputMapper_cn) h
    | enumInt vals u =>
      simp only [run, runEnumInt] at h ⊢
      exact bind_rewrapC_mono (fun _ => intInputMapper_cn) h
    | enumStr vals =>
      simp only [run, runEnumStr] at h ⊢
      exact bind_rewrapC_mono (fun _ => stringInputMapper_cn) h
    | list item mn mx =>
      obtain ⟨xs, ys, hxs, hl, hall, hr⟩ := (C02_list_unser_iff x n env item mn mx a r).mp h
      cases a <;> simp only [V.sliceElems?, reduceCtorEq, Option.some.injEq] at hxs
      · -- []byte travels as a byte string
        simp only [cborNorm]; exact h
      · subst hxs
        simp only [GoV] at hg
        have hall' := forall2_cn (ih env item) hall hg
        refine (C02_list_unser_iff x n env item mn mx _ r).mpr ⟨cborNormL _, ys, by simp [cborNorm, V.sliceElems?], ?_, hall', hr⟩
        rw [cborNormL_length]; exact hl
    | map kt vt mn mx =>
      obtain ⟨sh, kvs, kvs', ha, hl, hall, hd, hr⟩ := (C02_map_unser_iff x n env kt vt mn mx a r).mp h
      subst ha
      simp only [GoV] at hg
      have hall' := forall2_kv_cn (ih env kt) (ih env vt) hall hg
      refine (C02_map_unser_iff x n env kt vt mn mx _ r).mpr ⟨.anyAny, cborNormKV kvs, kvs', by simp [cborNorm], ?_, hall', hd, hr⟩
      rw [cborNormKV_length]; exact hl
    | obj id props =>
      simp only [run, runObj] at h ⊢
      exact bind_mono (fun m hm => objRaw_cn (ih env) hg hm) h
    | oneOf ik d inl ms =>
      simp only [run, runOneOf] at h ⊢
      exact oneOfUnser_cn (ih env)
        (fun t kvs => run_U_shape x n env t .strAny .anyAny kvs (Or.inr rfl) (Or.inl rfl)) hg h
    | ref id =>
      simp only [run] at h ⊢
      cases hl : lookupS id env with
      | none => simp [hl] at h
      | some o =>
        simp only [hl] at h ⊢
        exact ih env o a r hg h
    | scope objs root =>
      simp only [run] at h ⊢
      cases hl : lookupS root objs with
      | none => simp [hl] at h
      | some o =>
        simp only [hl] at h ⊢
        exact ih objs o a r hg h
    | any =>
      simp only [run, runAny] at h ⊢
      exact anyConvert_cn _ _ _ hg h

end Arca

namespace Arca
open Out

/-! ### Go values in, Go values out -/

theorem inInt64_wrapInt64 (n : Int) : inInt64 (wrapInt64 n) = true := by
  unfold inInt64 minInt64 maxInt64 wrapInt64
  have h1 : (2:Int)^64 = 18446744073709551616 := by decide
  have h2 : (2:Int)^63 = 9223372036854775808 := by decide
  simp only [h1, h2]
  have h3 := Int.emod_nonneg n (b := 18446744073709551616) (by decide)
  have h4 := Int.emod_lt_of_pos n (b := 18446744073709551616) (by decide)
  simp only [Bool.and_eq_true, decide_eq_true_eq]
  split <;> omega

theorem inInt64_clamp (v : Int) : inInt64 (if inInt64 v = true then v else minInt64) = true := by
  by_cases h : inInt64 v = true
  · simp only [h, if_true]
  · rw [if_neg h]; decide

theorem inInt64_truncInt64 (b : Nat) : inInt64 (F64.truncInt64 b) = true := by
  unfold F64.truncInt64
  split
  · decide
  · decide
  · exact inInt64_clamp _

theorem inRange_int64_of_inInt64 {n : Int} (h : inInt64 n = true) : IKind.int64.inRange n = true := by
  simp [IKind.inRange, IKind.lo, IKind.hi, IKind.signed, IKind.bits, inInt64, minInt64, maxInt64] at h ⊢
  exact ⟨of_decide_eq_true h.1, of_decide_eq_true h.2⟩

theorem asInt_inInt64 {v : V} {k : Int} (h : asInt v = .ok k) : inInt64 k = true := by
  unfold asInt at h
  split at h
  · simp at h; subst h; exact inInt64_wrapInt64 _
  · simp at h; subst h; exact inInt64_truncInt64 _
  · simp [cerr] at h

theorem goVL_of_forall2 {g : V → Out V} (hg : ∀ e y, GoV e = true → g e = .ok y → GoV y = true)
    {xs ys : List V} (h : Forall2 (fun e y => g e = .ok y) xs ys) (hgo : GoVL xs = true) : GoVL ys = true := by
  induction h with
  | nil => rfl
  | cons hab _ ih =>
    simp only [GoVL, Bool.and_eq_true] at hgo ⊢
    exact ⟨hg _ _ hgo.1 hab, ih hgo.2⟩

theorem goVKV_of_forall2 {gk gv : V → Out V}
    (hk : ∀ e y, GoV e = true → gk e = .ok y → GoV y = true)
    (hv : ∀ e y, GoV e = true → gv e = .ok y → GoV y = true)
    {kvs kvs' : List (V × V)}
    (h : Forall2 (fun (kv kv' : V × V) => gk kv.1 = .ok kv'.1 ∧ gv kv.2 = .ok kv'.2) kvs kvs') (hgo : GoVKV kvs = true) :
    GoVKV kvs' = true := by
  induction h with
  | nil => rfl
  | @cons a b as bs hab _ ih =>
    obtain ⟨k, e⟩ := a
    obtain ⟨k', e'⟩ := b
    simp only [GoVKV, Bool.and_eq_true] at hgo ⊢
    exact ⟨⟨hk _ _ hgo.1.1 hab.1, hv _ _ hgo.1.2 hab.2⟩, ih hgo.2⟩

theorem goVS_of_allSV {f : String → V → Out V} (hf : ∀ k e y, GoV e = true → f k e = .ok y → GoV y = true)
    {m m' : List (String × V)} (h : AllSV f m m') (hgo : GoVS m) : GoVS m' := by
  induction h with
  | nil => intro kv hkv; simp at hkv
  | @cons k v v' rest rest' hx _ ih =>
    intro kv hkv
    rcases List.mem_cons.mp hkv with heq | hkv'
    · subst heq; exact hf _ _ _ (hgo (k, v) (by simp)) hx
    · exact ih (fun kv hkv => hgo kv (List.mem_cons_of_mem _ hkv)) kv hkv'

theorem goVL_bytes : ∀ (b : List Nat), (b.all (· < 256)) = true →
    GoVL (b.map fun (n : Nat) => V.int .uint8 (Int.ofNat n)) = true
  | [], _ => rfl
  | n :: rest, h => by
    simp only [List.all_cons, Bool.and_eq_true, decide_eq_true_eq] at h
    simp only [List.map_cons, GoVL, GoV, Bool.and_eq_true]
    refine ⟨?_, goVL_bytes rest h.2⟩
    simp [IKind.inRange, IKind.lo, IKind.hi, IKind.signed, IKind.bits]
    omega

theorem goVL_sliceElems {v : V} {xs : List V} (hg : GoV v = true) (h : v.sliceElems? = some xs) : GoVL xs = true := by
  cases v <;> simp only [V.sliceElems?, reduceCtorEq, Option.some.injEq] at h
  · subst h; exact goVL_bytes _ (by simpa [GoV] using hg)
  · subst h; simpa [GoV] using hg

theorem allKV_any_goV {n : Nat} (ih : ∀ a r, GoV a = true → anyConvert n a = .ok r → GoV r = true)
    {kvs kvs' : List (V × V)} (hall : AllKV (anyEntry n) kvs kvs') (hg : GoVKV kvs = true) : GoVKV kvs' = true := by
  induction hall with
  | nil => rfl
  | @cons k v kv rest rest' hf _ ih' =>
    simp only [GoVKV, Bool.and_eq_true] at hg
    unfold anyEntry at hf
    obtain ⟨k', hk, h3⟩ := bind_eq_ok hf
    obtain ⟨x', hx, h4⟩ := bind_eq_ok h3
    simp at h4; subst h4
    simp only [GoVKV, Bool.and_eq_true]
    exact ⟨⟨ih _ _ hg.1.1 (addSeg_eq_ok.mp hk), ih _ _ hg.1.2 (addSeg_eq_ok.mp hx)⟩, ih' hg.2⟩

/-- the any schema's conversion yields Go values from Go values -/
theorem anyConvert_goV : ∀ (n : Nat) (a r : V), GoV a = true → anyConvert n a = .ok r → GoV r = true
  | 0, _, _, _, h => by simp [anyConvert] at h
  | n + 1, a, r, hg, h => by
    have ih := anyConvert_goV n
    have hlist : ∀ xs, GoVL xs = true →
        (forIdx (fun i x => (anyConvert n x).addSeg ("[" ++ toString i ++ "]")) 0 xs).bind (fun ys => Out.ok (V.list ys)) = .ok r →
        GoV r = true := by
      intro xs hxs h
      obtain ⟨ys, h1, h2⟩ := bind_eq_ok h
      simp at h2; subst h2
      simp only [GoV]
      exact goVL_of_forall2 ih (allIdx_any_iff.mp (forIdx_ok_iff.mp h1)) hxs
    cases a with
    | nil => simp [anyConvert, V.under, cerr] at h
    | regex s => simp [anyConvert, V.under, cerr] at h
    | «opaque» => simp [anyConvert, V.under, cerr] at h
    | bool b => simp [anyConvert, V.under] at h; subst h; rfl
    | str s => simp [anyConvert, V.under] at h; subst h; rfl
    | int k i =>
      obtain ⟨hr, hi⟩ := anyConvert_int (by simpa [GoV] using hg) h
      subst hr
      simp only [GoV]
      exact inRange_int64_of_inInt64 hi
    | float k b =>
      simp only [anyConvert, V.under] at h
      (repeat' split at h) <;> simp at h <;> (subst h; rfl)
    | bytes b =>
      simp only [anyConvert, V.under] at h
      exact hlist _ (goVL_bytes b (by simpa [GoV] using hg)) h
    | list xs =>
      simp only [anyConvert, V.under] at h
      exact hlist _ (by simpa [GoV] using hg) h
    | map sh kvs =>
      simp only [anyConvert, V.under] at h
      obtain ⟨kvs', h1, h2⟩ := bind_eq_ok h
      split at h2
      · simp [cerr] at h2
      · simp at h2; subst h2
        have hall : AllKV (anyEntry n) kvs kvs' := forKV_ok_iff.mp h1
        simp only [GoV] at hg ⊢
        exact allKV_any_goV ih hall hg
    | named y =>
      simp only [GoV] at hg
      cases y <;> simp only [GoScalar, Bool.false_eq_true] at hg
      · simp [anyConvert, V.under] at h; subst h; rfl
      · rename_i k i
        simp only [anyConvert, V.under] at h
        split at h
        · rename_i hk
          have : k = .int64 := by simpa using hk
          subst this
          simp at h; subst h
          simp only [GoV]; exact hg
        · simp [plain] at h
      · simp only [anyConvert, V.under] at h
        (repeat' split at h) <;> simp [plain] at h <;> (subst h; rfl)
      · simp [anyConvert, V.under] at h; subst h; rfl

end Arca

namespace Arca
open Out

/-! ### Serialize yields Go values from Go values -/

theorem oneOfSelect_goV {rec : Rec} {env : Env} {ik : Bool} {disc : String} {inl : Bool} {members : List (Key × Ty)}
    {m : List (String × V)} {sel : Key × Ty × List (String × V)} (hgm : GoVS m)
    (h : oneOfSelect rec env ik disc inl members false m = .ok sel) : GoV sel.1.toV = true ∧ GoVS sel.2.2 := by
  simp only [oneOfSelect] at h
  split at h
  · simp [cerr] at h
  · rename_i key hkey
    split at h
    · simp [cerr] at h
    · rename_i mt hmt
      simp only [Bool.false_eq_true, if_false] at h
      simp at h
      subst h
      refine ⟨?_, ?_⟩
      · split at hkey
        · rename_i n hl
          split at hkey
          · simp at hkey; subst hkey
            exact hgm _ (lookupS_mem hl)
          · simp at hkey
        · rename_i s hl
          split at hkey
          · simp at hkey
          · simp at hkey; subst hkey; rfl
        · simp at hkey
      · simp only
        cases inl
        · simpa using goVS_eraseKey hgm
        · simpa using hgm

theorem goVS_append {m : List (String × V)} {k : String} {v : V} (hm : GoVS m) (hv : GoV v = true) :
    GoVS (m ++ [(k, v)]) := by
  intro kv hkv
  rcases List.mem_append.mp hkv with h | h
  · exact hm kv h
  · simp at h; subst h; exact hv

theorem serialize_goV (x : Ext) : ∀ (n : Nat) (env : Env) (t : Ty) (r w : V), GoV r = true →
    run x n .S env t r = .ok w → GoV w = true
  | 0, _, _, _, _, _, h => by simp [run] at h
  | n + 1, env, t, r, w, hg, h => by
    have ih := serialize_goV x n
    cases t with
    | int mn mx u =>
      simp only [run, runInt] at h
      obtain ⟨k, h1, h2⟩ := bind_eq_ok h
      obtain ⟨_, _, h4⟩ := bind_eq_ok h2
      simp at h4; subst h4
      simp only [GoV]
      exact inRange_int64_of_inInt64 (asInt_inInt64 h1)
    | float mn mx u =>
      simp only [run, runFloat] at h
      obtain ⟨k, h1, h2⟩ := bind_eq_ok h
      obtain ⟨_, _, h4⟩ := bind_eq_ok h2
      simp at h4; subst h4; rfl
    | str mn mx pat =>
      simp only [run, runStr] at h
      obtain ⟨k, h1, h2⟩ := bind_eq_ok h
      obtain ⟨_, _, h4⟩ := bind_eq_ok h2
      simp at h4; subst h4; rfl
    | bool =>
      simp only [run, runBool] at h
      obtain ⟨k, h1, h2⟩ := bind_eq_ok h
      simp at h2; subst h2; rfl
    | pattern =>
      simp only [run, runPattern] at h
      split at h
      · simp at h; subst h; rfl
      · simp [cerr] at h
    | enumInt vals u =>
      simp only [run, runEnumInt] at h
      obtain ⟨k, h1, h2⟩ := bind_eq_ok h
      split at h2
      · simp at h2; subst h2
        simp only [GoV]
        exact inRange_int64_of_inInt64 (asInt_inInt64 h1)
      · simp [cerr] at h2
    | enumStr vals =>
      simp only [run, runEnumStr] at h
      obtain ⟨k, h1, h2⟩ := bind_eq_ok h
      split at h2
      · simp at h2; subst h2; rfl
      · simp [cerr] at h2
    | list item mn mx =>
      simp only [run, runList] at h
      split at h
      · simp [cerr] at h
      · rename_i xs hxs
        obtain ⟨_, _, h2⟩ := bind_eq_ok h
        obtain ⟨_, _, h3⟩ := bind_eq_ok h2
        obtain ⟨ys, h4, h5⟩ := bind_eq_ok h3
        simp at h5; subst h5
        simp only [GoV]
        exact goVL_of_forall2 (ih env item) (allIdx_addSeg_iff.mp (forIdx_ok_iff.mp h4)) (goVL_sliceElems hg hxs)
    | map kt vt mn mx =>
      simp only [run, runMap] at h
      split at h
      · simp [cerr] at h
      · rename_i sh kvs hm
        have hr : r = .map sh kvs := by
          cases r <;> simp [V.mapEntries?] at hm
          obtain ⟨rfl, rfl⟩ := hm; rfl
        subst hr
        obtain ⟨_, _, h2⟩ := bind_eq_ok h
        obtain ⟨_, _, h3⟩ := bind_eq_ok h2
        obtain ⟨kvs', h4, h5⟩ := bind_eq_ok h3
        simp at h5; subst h5
        simp only [GoV] at hg ⊢
        exact goVKV_of_forall2 (ih env kt) (ih env vt) (allKV_entry_iff.mp (forKV_ok_iff.mp h4)) hg
    | obj id props =>
      simp only [run, runObj] at h
      split at h
      · rename_i kvs
        split at h
        · simp [cerr] at h
        · rename_i m hm
          obtain ⟨_, _, h2⟩ := bind_eq_ok h
          obtain ⟨m', h3, h4⟩ := bind_eq_ok h2
          simp at h4; subst h4
          simp only [GoV] at hg
          refine goV_toStrAny (goVS_of_allSV ?_ (forSV_ok_iff.mp h3) (goVS_of_strKeys hm hg))
          intro k e y he hy
          unfold objEntry at hy
          split at hy
          · simp [cerr] at hy
          · exact ih _ _ _ _ he (addSeg_eq_ok.mp hy)
      · simp [cerr] at h
    | oneOf ik d inl ms =>
      simp only [run, runOneOf] at h
      split at h
      · rename_i kvs
        split at h
        · simp [cerr] at h
        · rename_i m hm
          simp only [GoV] at hg
          obtain ⟨sel, h1, h2⟩ := bind_eq_ok h
          obtain ⟨r', h3, h4⟩ := bind_eq_ok h2
          obtain ⟨hkey, hclone⟩ := oneOfSelect_goV (goVS_of_strKeys hm hg) h1
          have hr' := ih _ _ _ _ (goV_toStrAny hclone) h3
          split at h4
          · rename_i rk
            split at h4
            · rename_i rm hrm
              simp at h4; subst h4
              simp only [GoV] at hr'
              have hgrm := goVS_of_strKeys hrm hr'
              apply goV_toStrAny
              split
              · exact hgrm
              · exact goVS_append hgrm hkey
            · simp [cerr] at h4
          · simp at h4
      · simp [cerr] at h
    | ref id =>
      simp only [run] at h
      cases hl : lookupS id env with
      | none => simp [hl] at h
      | some o =>
        simp only [hl] at h
        exact ih env o r w hg h
    | scope objs root =>
      simp only [run] at h
      cases hl : lookupS root objs with
      | none => simp [hl] at h
      | some o =>
        simp only [hl] at h
        exact ih objs o r w hg h
    | any =>
      simp only [run, runAny] at h
      exact anyConvert_goV _ _ _ hg h

end Arca

namespace Arca
open Out

/-! ### Unserialize yields Go values from Go values (given Go values as defaults) -/

/-- every property default in the schema is a Go value (defaults are produced by `encoding/json`
    decoding into `any`, so they are: float64, string, bool, nil, `[]any`, `map[string]any`) -/
inductive DefGo : Ty → Prop
  | int {a b u} : DefGo (.int a b u)
  | float {a b u} : DefGo (.float a b u)
  | str {a b p} : DefGo (.str a b p)
  | bool : DefGo .bool
  | pattern : DefGo .pattern
  | enumInt {vs u} : DefGo (.enumInt vs u)
  | enumStr {vs} : DefGo (.enumStr vs)
  | any : DefGo .any
  | ref {id} : DefGo (.ref id)
  | list {item a b} : DefGo item → DefGo (.list item a b)
  | map {k v a b} : DefGo k → DefGo v → DefGo (.map k v a b)
  | obj {id props} : (∀ np, np ∈ props → DefGo np.2.ty) →
      (∀ np d, np ∈ props → np.2.defaultV = some (some d) → GoV d = true) → DefGo (.obj id props)
  | oneOf {ik d inl members} : (∀ m, m ∈ members → DefGo m.2) → DefGo (.oneOf ik d inl members)
  | scope {objs root} : (∀ p, p ∈ objs → DefGo p.2) → DefGo (.scope objs root)

def EnvDefGo (env : Env) : Prop := ∀ p, p ∈ env → DefGo p.2

theorem applyDefaults_goVS : ∀ (props : List (String × PropT)) (m m' : List (String × V)),
    (∀ np d, np ∈ props → np.2.defaultV = some (some d) → GoV d = true) →
    applyDefaults props m = .ok m' → GoVS m → GoVS m'
  | [], m, m', _, h, hg => by simp [applyDefaults] at h; subst h; exact hg
  | (id, p) :: rest, m, m', hd, h, hg => by
    have hd' : ∀ np d, np ∈ rest → np.2.defaultV = some (some d) → GoV d = true :=
      fun np d hnp => hd np d (List.mem_cons_of_mem _ hnp)
    simp only [applyDefaults] at h
    split at h
    · exact applyDefaults_goVS rest m m' hd' h hg
    · split at h
      · exact applyDefaults_goVS rest m m' hd' h hg
      · simp at h
      · rename_i d hdv
        exact applyDefaults_goVS rest _ m' hd' h (goVS_append hg (hd (id, p) d (by simp) hdv))

theorem objRaw_goV {rec : Rec} {env : Env} {props : List (String × PropT)} {v : V} {m' : List (String × V)}
    (hrec : ∀ np, np ∈ props → ∀ a r, GoV a = true → rec .U env np.2.ty a = .ok r → GoV r = true)
    (hdefs : ∀ np d, np ∈ props → np.2.defaultV = some (some d) → GoV d = true)
    (hg : GoV v = true) (h : objRaw rec env props v = .ok m') : GoVS m' := by
  unfold objRaw at h
  split at h
  · split at h
    · rename_i name p
      split at h
      · simp [plain] at h
      · obtain ⟨r, h1, h2⟩ := bind_eq_ok h
        simp at h2; subst h2
        intro kv hkv
        simp at hkv; subst hkv
        exact hrec (name, p) (by simp) v r hg (rewrapP_eq_ok.mp h1)
    · simp [cerr] at h
  · rename_i sh kvs hm
    have hv : v = .map sh kvs := by
      cases v <;> simp [V.mapEntries?] at hm
      obtain ⟨rfl, rfl⟩ := hm; rfl
    subst hv
    simp only [GoV] at hg
    split at h
    · simp [cerr] at h
    · rename_i skvs hs
      split at h
      · simp [cerr] at h
      · obtain ⟨m, h1, h2⟩ := bind_eq_ok h
        have hgm := applyDefaults_goVS props skvs m hdefs h1 (goVS_of_strKeys hs hg)
        refine goVS_of_allSV ?_ (forSV_ok_iff.mp h2) hgm
        intro k e y he hy
        unfold objEntryU at hy
        split at hy
        · simp [cerr] at hy
        · rename_i p hp
          split at hy
          · simp [cerrAt] at hy
          · exact hrec (k, p) (lookupS_mem hp) e y he (addSeg_eq_ok.mp hy)

theorem goVS_setKey {k : String} {v : V} (hv : GoV v = true) : ∀ {m : List (String × V)}, GoVS m → GoVS (setKey k v m)
  | [], _ => by intro kv hkv; simp [setKey] at hkv; subst hkv; exact hv
  | (k', v') :: rest, h => by
    have hr : GoVS rest := fun kv hkv => h kv (List.mem_cons_of_mem _ hkv)
    simp only [setKey]
    split
    · intro kv hkv
      rcases List.mem_cons.mp hkv with heq | hkv'
      · subst heq; exact hv
      · exact hr kv hkv'
    · intro kv hkv
      rcases List.mem_cons.mp hkv with heq | hkv'
      · subst heq; exact h (k', v') (by simp)
      · exact goVS_setKey hv hr kv hkv'

theorem discDenotes_goV {x : Ext} {ik : Bool} {d : V} {key : Key} (h : DiscDenotes x ik d key) : GoV key.toV = true := by
  unfold DiscDenotes at h
  by_cases hik : ik = true
  · simp only [hik, if_true] at h
    obtain ⟨n, hn, hk⟩ := h
    subst hk
    simp only [Key.toV, GoV]
    exact inRange_int64_of_inInt64 (intDenotes_inInt64 hn)
  · simp only [hik, if_false, Bool.false_eq_true] at h
    obtain ⟨s, _, hk⟩ := h
    subst hk; rfl

theorem unserialize_goV (x : Ext) : ∀ (n : Nat) (env : Env) (t : Ty) (v r : V), EnvDefGo env → DefGo t →
    GoV v = true → run x n .U env t v = .ok r → GoV r = true
  | 0, _, _, _, _, _, _, _, h => by simp [run] at h
  | n + 1, env, t, v, r, henv, hdef, hg, h => by
    have ih := unserialize_goV x n
    cases hdef with
    | int =>
      obtain ⟨k, hd, _, hr⟩ := (C02_int_unser_iff x n env _ _ _ v r).mp h
      subst hr; simp only [GoV]
      exact inRange_int64_of_inInt64 (intDenotes_inInt64 hd)
    | float =>
      obtain ⟨b, _, _, hr⟩ := (C02_float_unser_iff x n env _ _ _ v r).mp h
      subst hr; rfl
    | str =>
      obtain ⟨s, _, _, hr⟩ := (C02_str_unser_iff x n env _ _ _ v r).mp h
      subst hr; rfl
    | bool =>
      obtain ⟨b, _, hr⟩ := (C02_bool_unser_iff x n env v r).mp h
      subst hr; rfl
    | pattern =>
      obtain ⟨s, _, _, hr⟩ := (C02_pattern_unser_iff x n env v r).mp h
      subst hr; rfl
    | enumInt =>
      obtain ⟨k, hd, _, hr⟩ := (C02_enumInt_unser_iff x n env _ _ v r).mp h
      subst hr; simp only [GoV]
      exact inRange_int64_of_inInt64 (intDenotes_inInt64 hd)
    | enumStr =>
      obtain ⟨s, _, _, hr⟩ := (C02_enumStr_unser_iff x n env _ v r).mp h
      subst hr; rfl
    | any =>
      simp only [run, runAny] at h
      exact anyConvert_goV _ _ _ hg h
    | @ref id =>
      simp only [run] at h
      cases hl : lookupS id env with
      | none => simp [hl] at h
      | some o =>
        simp only [hl] at h
        exact ih env o v r henv (henv _ (lookupS_mem hl)) hg h
    | list hi =>
      obtain ⟨xs, ys, hxs, _, hall, hr⟩ := (C02_list_unser_iff x n env _ _ _ v r).mp h
      subst hr; simp only [GoV]
      exact goVL_of_forall2 (fun e y => ih env _ e y henv hi) hall (goVL_sliceElems hg hxs)
    | map hk hv =>
      obtain ⟨sh, kvs, kvs', ha, _, hall, _, hr⟩ := (C02_map_unser_iff x n env _ _ _ _ v r).mp h
      subst ha hr
      simp only [GoV] at hg ⊢
      exact goVKV_of_forall2 (fun e y => ih env _ e y henv hk) (fun e y => ih env _ e y henv hv) hall hg
    | obj hp hd =>
      simp only [run, runObj] at h
      obtain ⟨m', h1, h2⟩ := bind_eq_ok h
      obtain ⟨_, _, h4⟩ := bind_eq_ok h2
      simp at h4; subst h4
      exact goV_toStrAny (objRaw_goV (fun np hnp a r => ih env _ a r henv (hp np hnp)) hd hg h1)
    | @oneOf ik disc inl members hm =>
      have hvm : ∃ sh kvs, v = .map sh kvs := by
        simp only [run, runOneOf, oneOfUnser] at h
        split at h
        · simp [plain] at h
        · split at h
          · simp [cerr] at h
          · rename_i sh kvs hme
            cases v <;> simp [V.mapEntries?] at hme
            obtain ⟨rfl, rfl⟩ := hme
            exact ⟨_, _, rfl⟩
      obtain ⟨sh, kvs, rfl⟩ := hvm
      simp only [GoV] at hg
      simp only [run, runOneOf, oneOfUnser, V.mapEntries?] at h
      split at h
      · simp [cerr] at h
      · split at h
        · simp [cerr] at h
        · rename_i dk d hfind
          obtain ⟨key, h1, h2⟩ := bind_eq_ok h
          split at h2
          · simp [cerr] at h2
          · rename_i m hms
            split at h2
            · simp [cerr] at h2
            · rename_i mt hmt
              obtain ⟨mr, h3, h4⟩ := bind_eq_ok h2
              have hgm : GoVS m := goVS_of_strKeys hms hg
              have hgc : GoVS (if inl = true then m else eraseKey disc m) := by
                cases inl
                · simpa using goVS_eraseKey hgm
                · simpa using hgm
              have hmr := ih env mt _ mr henv (hm _ (lookupK_mem hmt)) (goV_toStrAny hgc) h3
              have hkey := discDenotes_goV ((typedDisc_ok_iff x ik d key).mp h1)
              split at h4
              · rename_i rk
                split at h4
                · rename_i rm hrm
                  simp at h4; subst h4
                  simp only [GoV] at hmr
                  exact goV_toStrAny (goVS_setKey hkey (goVS_of_strKeys hrm hmr))
                · simp [cerr] at h4
              · simp at h4; subst h4; exact hmr
    | @scope objs root hobjs =>
      simp only [run] at h
      cases hl : lookupS root objs with
      | none => simp [hl] at h
      | some o =>
        simp only [hl] at h
        exact ih objs o v r hobjs (hobjs _ (lookupS_mem hl)) hg h

end Arca

namespace Arca

/-! ### an executable check of `DefGo`, for the non-vacuity examples -/

def defGoB : Nat → Ty → Bool
  | 0, _ => false
  | n + 1, t =>
    match t with
    | .list item _ _ => defGoB n item
    | .map k v _ _ => defGoB n k && defGoB n v
    | .obj _ props => props.all fun np => defGoB n np.2.ty &&
        (match np.2.defaultV with
          | some (some d) => GoV d
          | _ => true)
    | .oneOf _ _ _ members => members.all fun m => defGoB n m.2
    | .scope objs _ => objs.all fun p => defGoB n p.2
    | _ => true

theorem defGoB_sound : ∀ (n : Nat) (t : Ty), defGoB n t = true → DefGo t
  | 0, _, h => by simp [defGoB] at h
  | n + 1, t, h => by
    have ih := defGoB_sound n
    cases t with
    | int => exact .int
    | float => exact .float
    | str => exact .str
    | bool => exact .bool
    | pattern => exact .pattern
    | enumInt => exact .enumInt
    | enumStr => exact .enumStr
    | any => exact .any
    | ref => exact .ref
    | list item a b => exact .list (ih _ (by simpa [defGoB] using h))
    | map k v a b =>
      simp only [defGoB, Bool.and_eq_true] at h
      exact .map (ih _ h.1) (ih _ h.2)
    | obj id props =>
      simp only [defGoB, List.all_eq_true, Bool.and_eq_true] at h
      refine .obj (fun np hnp => ih _ (h np hnp).1) (fun np d hnp hd => ?_)
      have := (h np hnp).2
      simpa [hd] using this
    | oneOf ik d inl members =>
      simp only [defGoB, List.all_eq_true] at h
      exact .oneOf (fun m hmm => ih _ (h m hmm))
    | scope objs root =>
      simp only [defGoB, List.all_eq_true] at h
      exact .scope (fun p hp => ih _ (h p hp))

theorem envDefGo_nil : EnvDefGo [] := by intro p hp; simp at hp

end Arca
