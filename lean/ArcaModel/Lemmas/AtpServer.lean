import ArcaModel.Model.AtpServer
/-
  Invariants of the ATP server model under the repaired rules, proved by induction over `Reachable`.
  Used by `Props/C07.lean`.
-/
namespace Arca.AtpServer

/-- the configurations the positive theorems are about (`repaired` is one) -/
structure Cfg.Good (c : Cfg) : Prop where
  cap : 1 ≤ c.cap
  close : c.closeAtLoopEnd = false
  drain : c.drainAfterStop = true
  guarded : c.signalGuarded = true

theorem repaired_good : Cfg.Good repaired := ⟨by decide, rfl, rfl, rfl⟩

/-! ### weighted sums over the goroutine list -/

def sumW (w : G → Nat) : List G → Nat
  | [] => 0
  | x :: xs => w x + sumW w xs

theorem sumW_append (w : G → Nat) (a b : List G) : sumW w (a ++ b) = sumW w a + sumW w b := by
  induction a with
  | nil => simp [sumW]
  | cons x xs ih => simp [sumW, ih, Nat.add_assoc]

theorem sumW_set (w : G → Nat) : ∀ (gs : List G) (g : Nat) (x y : G), gs[g]? = some x →
    sumW w (gs.set g y) + w x = sumW w gs + w y := by
  intro gs
  induction gs with
  | nil => intro g x y h; simp at h
  | cons a as ih =>
    intro g x y h
    cases g with
    | zero =>
      simp at h
      subst h
      simp [sumW]; omega
    | succ n =>
      simp at h
      have := ih n x y h
      simp [sumW]; omega

theorem sumW_zero_all (w : G → Nat) : ∀ (gs : List G), sumW w gs = 0 → ∀ (g : Nat) (x : G), gs[g]? = some x → w x = 0 := by
  intro gs
  induction gs with
  | nil => intro _ g x h; simp at h
  | cons a as ih =>
    intro h0 g x h
    simp [sumW] at h0
    cases g with
    | zero => simp at h; subst h; exact h0.1
    | succ n => simp at h; exact ih h0.2 n x h

/-- 1 for a goroutine that has not yet called `wg.Done()` -/
def liveW (x : G) : Nat := if x.pc.done then 0 else 1

def live (gs : List G) : Nat := sumW liveW gs

def loopLive (l : LoopPc) : Nat := if l = .ended then 0 else 1

/-! ### invariant A: WaitGroup accounting, channel closure, no crash -/

structure InvA (s : State) : Prop where
  wg : s.wg = loopLive s.loop + live s.gs
  closed : s.closed = true → s.wg = 0
  crashed : s.crashed = false

theorem invA_init : InvA State.init := by
  constructor <;> simp [State.init, loopLive, live, sumW]

theorem liveW_setpc (x : G) (pc : GPc) : liveW { x with pc := pc } = if pc.done then 0 else 1 := rfl


theorem live_set (gs : List G) (g : Nat) (x : G) (pc : GPc) (h : gs[g]? = some x) :
    live (gs.set g { x with pc := pc }) + liveW x = live gs + (if pc.done then 0 else 1) := by
  have := sumW_set liveW gs g x { x with pc := pc } h
  simpa [live, liveW_setpc] using this

theorem live_spawn (gs : List G) (k : GKind) (r : Run) (src : Nat) :
    live (gs ++ [⟨k, r, src, .spawned⟩]) = live gs + 1 := by
  simp [live, sumW_append, sumW, liveW, GPc.done]

variable {c : Cfg}

theorem invA_react {s : State} (src : Nat) (d : Decoded) (hl : s.loop = .idle) (h : InvA s) :
    InvA (react s src d) := by
  obtain ⟨hw, hc, hx⟩ := h
  have hwg : s.wg = 1 + live s.gs := by simpa [hl, loopLive] using hw
  have hcl : s.closed = false := by
    cases hcc : s.closed with
    | false => rfl
    | true => have := hc hcc; omega
  unfold react
  split
  · split
    · constructor <;> simp_all [loopLive]
    · split
      · constructor <;> simp_all [loopLive]
      · constructor <;> simp_all [spawn, loopLive, live_spawn] <;> omega
  · split
    · split
      · constructor <;> simp_all [loopLive]
      · split
        · constructor <;> simp_all [loopLive]
        · split
          · constructor <;> simp_all [loopLive]
          · constructor <;> simp_all [spawn, loopLive, live_spawn] <;> omega
    · split
      · constructor <;> simp_all [loopLive]
      · constructor <;> simp_all [loopLive]


theorem invA_closed_false {s : State} (h : InvA s) (hl : s.loop ≠ .ended) : s.closed = false := by
  cases hcc : s.closed with
  | false => rfl
  | true =>
    have h0 := h.closed hcc
    have := h.wg
    simp [loopLive, hl] at this
    omega

theorem invA_loopRead {s s' : State} (h : InvA s) (e : loopRead c s = some s') : InvA s' := by
  unfold loopRead at e
  split at e
  · simp at e
  · rename_i it rest hin
    split at e
    · -- start, msg
      rename_i hloop
      split at e <;> simp at e <;> subst e <;>
        (obtain ⟨hw, hc, hx⟩ := h; constructor <;> simp_all [loopLive])
    · rename_i hloop
      simp at e; subst e
      obtain ⟨hw, hc, hx⟩ := h; constructor <;> simp_all [loopLive]
    · rename_i w hloop
      simp at e; subst e
      apply invA_react
      · simpa using hloop
      · obtain ⟨hw, hc, hx⟩ := h; constructor <;> simp_all [loopLive]
    · rename_i hloop
      simp at e; subst e
      obtain ⟨hw, hc, hx⟩ := h; constructor <;> simp_all [loopLive]
    · simp at e

theorem invA_loopReadErr {s s' : State} (h : InvA s) (e : loopReadErr s = some s') : InvA s' := by
  unfold loopReadErr at e
  split at e
  · split at e <;> simp at e <;> subst e <;>
      (obtain ⟨hw, hc, hx⟩ := h; constructor <;> simp_all [loopLive])
  · simp at e


theorem invA_loopSend {s s' : State} (h : InvA s) (e : loopSend c s = some s') : InvA s' := by
  unfold loopSend at e
  split at e
  · rename_i er stop hloop
    have hcl : s.closed = false := invA_closed_false h (by simp [hloop])
    simp [chanSend, hcl] at e
    obtain ⟨hlt, e⟩ := e
    subst e
    obtain ⟨hw, hc, hx⟩ := h
    constructor <;> simp_all [loopLive] <;> (split <;> simp_all)
  · simp at e

theorem invA_loopEnd (hg : c.Good) {s s' : State} (h : InvA s) (e : loopEnd c s = some s') : InvA s' := by
  unfold loopEnd at e
  split at e
  · rename_i hloop
    have hcl : s.closed = false := invA_closed_false h (by simp [hloop])
    simp [hg.close] at e
    subst e
    obtain ⟨hw, hc, hx⟩ := h
    constructor <;> simp_all [loopLive] <;> omega
  · simp at e

theorem invA_setPc_same {s : State} {g : Nat} {x : G} {pc : GPc} (h : InvA s) (hx : s.gs[g]? = some x)
    (hd : x.pc.done = false) (hd' : pc.done = false) : InvA (setPc s g x pc) := by
  obtain ⟨hw, hc, hcr⟩ := h
  have := live_set s.gs g x pc hx
  simp [liveW, hd, hd'] at this
  constructor <;> simp_all [setPc]

theorem invA_setPc_done {s : State} {g : Nat} {x : G} {pc : GPc} (h : InvA s) (hx : s.gs[g]? = some x)
    (hd : x.pc.done = false) (hd' : pc.done = true) :
    InvA { setPc s g x pc with wg := s.wg - 1 } ∧ s.closed = false := by
  obtain ⟨hw, hc, hcr⟩ := h
  have := live_set s.gs g x pc hx
  simp [liveW, hd, hd'] at this
  have hcl : s.closed = false := by
    cases hcc : s.closed with
    | false => rfl
    | true => have := hc hcc; omega
  refine ⟨?_, hcl⟩
  constructor <;> simp_all [setPc] <;> omega

theorem invA_gStart {s s' : State} {g : Nat} {p : Pre} (h : InvA s) (e : gStart s g p = some s') : InvA s' := by
  unfold gStart at e
  split at e
  · rename_i x hx
    split at e
    · rename_i hc
      simp at e; subst e
      apply invA_setPc_same h hx (by simp [hc.2, GPc.done])
      cases p <;> simp [GPc.done]
    · simp at e
  · simp at e

theorem invA_gExit {s s' : State} {g : Nat} {b : Beh} (h : InvA s) (e : gExit s g b = some s') : InvA s' := by
  unfold gExit at e
  split at e
  · rename_i x hx
    split at e
    · rename_i hc
      simp at e; subst e
      apply invA_setPc_same h hx (by simp [hc.2, GPc.done])
      cases b <;> simp [GPc.done]
    · simp at e
  · simp at e

theorem invA_gWrite {s s' : State} {g : Nat} (h : InvA s) (e : gWrite s g = some s') : InvA s' := by
  unfold gWrite at e
  split at e
  · rename_i x hx
    split at e
    · rename_i hc
      split at e
      · simp at e; subst e
        exact (invA_setPc_done h hx (by simp [hc.2, GPc.done]) (by simp [GPc.done])).1
      · simp at e; subst e
        have := (invA_setPc_done (pc := .doneOk) h hx (by simp [hc.2, GPc.done]) (by simp [GPc.done])).1
        obtain ⟨hw, hcl, hcr⟩ := this
        constructor <;> simp_all [setPc]
    · simp at e
  · simp at e

theorem invA_gSend {s s' : State} {g : Nat} (h : InvA s) (e : gSend c s g = some s') : InvA s' := by
  unfold gSend at e
  split at e
  · rename_i x hx
    split at e
    · rename_i hc
      have hd := invA_setPc_done (pc := .doneErr) h hx (by simp [hc, GPc.done]) (by simp [GPc.done])
      simp [chanSend, hd.2] at e
      obtain ⟨hlt, e⟩ := e
      subst e
      obtain ⟨hw, hcl, hcr⟩ := hd.1
      constructor <;> simp_all [setPc]
    · simp at e
  · simp at e

theorem invA_sigRun (hg : c.Good) {s s' : State} {g : Nat} {r : SigRes} (h : InvA s)
    (e : sigRun c s g r = some s') : InvA s' := by
  unfold sigRun at e
  split at e
  · rename_i x hx
    split at e
    · rename_i hc
      cases r <;> simp [hg.guarded] at e <;> subst e
      · exact (invA_setPc_done h hx (by simp [hc.2, GPc.done]) (by simp [GPc.done])).1
      · exact invA_setPc_same h hx (by simp [hc.2, GPc.done]) (by simp [GPc.done])
      · exact invA_setPc_same h hx (by simp [hc.2, GPc.done]) (by simp [GPc.done])
      · exact invA_setPc_same h hx (by simp [hc.2, GPc.done]) (by simp [GPc.done])
    · simp at e
  · simp at e

theorem invA_hRecv {s s' : State} (h : InvA s) (e : hRecv s = some s') : InvA s' := by
  unfold hRecv at e
  obtain ⟨hw, hc, hx⟩ := h
  split at e
  · split at e
    · simp at e; subst e; constructor <;> simp_all
    · split at e <;> simp at e
      subst e; constructor <;> simp_all
  · simp at e

theorem hEmit_frame {s s' : State} (e : hEmit c s = some s') :
    s'.wg = s.wg ∧ s'.loop = s.loop ∧ s'.gs = s.gs ∧ s'.closed = s.closed ∧ s'.crashed = s.crashed ∧
    s'.queue = s.queue ∧ s'.returned = s.returned ∧ s'.input = s.input ∧ s'.inputClosed = s.inputClosed := by
  unfold hEmit at e
  repeat' split at e
  all_goals (try simp at e)
  all_goals (try (subst e; simp))

theorem invA_hEmit {s s' : State} (h : InvA s) (e : hEmit c s = some s') : InvA s' := by
  obtain ⟨h1, h2, h3, h4, h5, _⟩ := hEmit_frame e
  obtain ⟨hw, hc, hx⟩ := h
  constructor <;> simp_all

theorem invA_hCancel {s s' : State} (h : InvA s) (e : hCancel c s = some s') : InvA s' := by
  unfold hCancel at e
  obtain ⟨hw, hc, hx⟩ := h
  split at e
  · split at e <;> simp at e <;> subst e <;> (constructor <;> simp_all)
  · simp at e

theorem invA_close {s s' : State} (h : InvA s) (e : closeChan c s = some s') : InvA s' := by
  unfold closeChan at e
  obtain ⟨hw, hc, hx⟩ := h
  split at e
  · simp at e; subst e; constructor <;> simp_all
  · simp at e

theorem invA_ret {s s' : State} (h : InvA s) (e : doRet s = some s') : InvA s' := by
  unfold doRet at e
  obtain ⟨hw, hc, hx⟩ := h
  split at e
  · simp at e; subst e; constructor <;> simp_all
  · simp at e

theorem invA_observe {s s' : State} (h : InvA s) (e : doObserve s = some s') : InvA s' := by
  unfold doObserve at e
  obtain ⟨hw, hc, hx⟩ := h
  split at e
  · simp at e; subst e; constructor <;> simp_all
  · simp at e

theorem invA_step (hg : c.Good) {s s' : State} {a : Act} (h : InvA s) (e : step? c s a = some s') : InvA s' := by
  unfold step? at e
  split at e
  · simp at e
  · cases a <;> simp only at e
    · split at e <;> simp at e
      subst e; obtain ⟨hw, hc, hx⟩ := h; constructor <;> simp_all
    · simp at e; subst e; obtain ⟨hw, hc, hx⟩ := h; constructor <;> simp_all
    · simp at e; subst e; obtain ⟨hw, hc, hx⟩ := h; constructor <;> simp_all
    · simp at e; subst e; obtain ⟨hw, hc, hx⟩ := h; constructor <;> simp_all
    · exact invA_observe h e
    · exact invA_gExit h e
    · exact invA_loopRead h e
    · exact invA_loopReadErr h e
    · exact invA_loopSend h e
    · exact invA_loopEnd hg h e
    · exact invA_gStart h e
    · exact invA_gWrite h e
    · exact invA_gSend h e
    · exact invA_sigRun hg h e
    · exact invA_hRecv h e
    · exact invA_hEmit h e
    · exact invA_hCancel h e
    · exact invA_close h e
    · exact invA_ret h e

theorem invA_reachable (hg : c.Good) {s : State} (h : Reachable c s) : InvA s := by
  induction h with
  | init => exact invA_init
  | step _ e ih => exact invA_step hg ih e


/-! ### invariant T: terminal messages per accepted work-start -/

/-- `m` is a terminal message written on behalf of goroutine `g`: its work-done, or the error
    message for the report it sent on `workDone` -/
def isTerm (g : Gid) : OutMsg → Bool
  | .workDone _ g' => g' == g
  | .error e => e.origin == .step g
  | .hello => false

def termCount (s : State) (g : Gid) : Nat := s.written.countP (isTerm g)

def fromStep (g : Gid) (e : SErr) : Bool := e.origin == .step g

/-- the reports the handler holds or has still to receive -/
def heldErrs (s : State) : List SErr :=
  (match s.h with | .holding e => [e] | _ => []) ++ s.queue

def pendCount (s : State) (g : Gid) : Nat := (heldErrs s).countP (fromStep g)

/-- the model's notion of "the output is no longer open": the handler has stopped sending (after a
    server-fatal error message, a failed write or cancellation) or the client closed the output -/
def outClosed (s : State) : Bool := s.stopped || s.outBroken

/-- the table relating a goroutine's control state to the number of terminal messages written for
    it (`t`) and of its reports still on their way to the handler (`p`) -/
def TG (x : Option G) (t p : Nat) (oc : Bool) : Prop :=
  match x with
  | none => t = 0 ∧ p = 0
  | some x =>
    match x.kind, x.pc with
    | .signal, _ => t = 0 ∧ p = 0
    | .step, .doneOk => t = 1 ∧ p = 0
    | .step, .doneLost => t = 0 ∧ p = 0 ∧ oc = true
    | .step, .doneErr => t + p = 1 ∨ (t = 0 ∧ p = 0 ∧ oc = true)
    | .step, _ => t = 0 ∧ p = 0

def InvT (s : State) : Prop := ∀ g : Gid, TG s.gs[g]? (termCount s g) (pendCount s g) (outClosed s)

theorem invT_init : InvT State.init := by
  intro g
  simp [State.init, TG, termCount, pendCount, heldErrs]

/-- nothing relevant changed, or only `outClosed` became true -/
theorem TG_mono {x : Option G} {t p : Nat} {oc oc' : Bool} (h : TG x t p oc) (hm : oc = true → oc' = true) :
    TG x t p oc' := by
  unfold TG at *
  split
  · simpa using h
  · rename_i y
    simp only at h
    split <;> simp_all
    · rcases h with h | h
      · exact Or.inl h
      · exact Or.inr ⟨h.1, h.2.1, hm h.2.2⟩


/-- the read loop only ever reports errors of origin `loop` -/
def InvL (s : State) : Prop := ∀ e st, s.loop = .sending e st → e.origin = .loop

theorem invT_frame {s s' : State} (h : InvT s) (hgs : s'.gs = s.gs)
    (ht : ∀ g, termCount s' g = termCount s g) (hp : ∀ g, pendCount s' g = pendCount s g)
    (ho : outClosed s = true → outClosed s' = true) : InvT s' := by
  intro g
  rw [hgs, ht, hp]
  exact TG_mono (h g) ho

theorem termCount_eq {s s' : State} (h : s'.written = s.written) (g : Gid) : termCount s' g = termCount s g := by
  simp [termCount, h]

theorem pendCount_eq {s s' : State} (h1 : s'.h = s.h) (h2 : s'.queue = s.queue) (g : Gid) :
    pendCount s' g = pendCount s g := by
  simp [pendCount, heldErrs, h1, h2]

theorem TG_running {x : G} {pc : GPc} {t p : Nat} {oc : Bool} (hd : x.pc.done = false) (hd' : pc.done = false)
    (h : TG (some x) t p oc) : TG (some { x with pc := pc }) t p oc := by
  unfold TG at *
  simp only at *
  cases hk : x.kind <;> cases hpc : x.pc <;> cases pc <;> simp_all [GPc.done]

/-- a goroutine moves between two not-finished control states -/
theorem invT_setPc_running {s : State} {g : Nat} {x : G} {pc : GPc} (h : InvT s) (hx : s.gs[g]? = some x)
    (hd : x.pc.done = false) (hd' : pc.done = false) : InvT (setPc s g x pc) := by
  intro g'
  have ht : termCount (setPc s g x pc) g' = termCount s g' := rfl
  have hp : pendCount (setPc s g x pc) g' = pendCount s g' := rfl
  have ho : outClosed (setPc s g x pc) = outClosed s := rfl
  rw [ht, hp, ho]
  have hlt : g < s.gs.length := by
    have := List.getElem?_eq_some_iff.mp hx
    exact this.1
  by_cases hgg : g = g'
  · subst hgg
    have : (setPc s g x pc).gs[g]? = some { x with pc := pc } := by
      simp [setPc, List.getElem?_set_self hlt]
    rw [this]
    have h0 := h g
    rw [hx] at h0
    exact TG_running hd hd' h0
  · have : (setPc s g x pc).gs[g']? = s.gs[g']? := by
      simp [setPc, List.getElem?_set_ne hgg]
    rw [this]
    exact h g'


theorem invT_spawn {s : State} (k : GKind) (r : Run) (src : Nat) (h : InvT s) : InvT (spawn s k r src) := by
  intro g
  have ht : termCount (spawn s k r src) g = termCount s g := rfl
  have hp : pendCount (spawn s k r src) g = pendCount s g := rfl
  have ho : outClosed (spawn s k r src) = outClosed s := rfl
  rw [ht, hp, ho]
  have h0 := h g
  simp only [spawn]
  rcases Nat.lt_trichotomy g s.gs.length with hlt | heq | hgt
  · rw [List.getElem?_append_left hlt]; exact h0
  · subst heq
    have hn : s.gs[s.gs.length]? = none := by simp
    rw [hn] at h0
    simp [TG] at h0 ⊢
    cases k <;> simp [h0]
  · have hn : s.gs[g]? = none := by simp; omega
    have hn' : (s.gs ++ [⟨k, r, src, .spawned⟩])[g]? = none := by simp; omega
    rw [hn] at h0
    rw [hn']; exact h0

theorem invT_react {s : State} (src : Nat) (d : Decoded) (h : InvT s) : InvT (react s src d) := by
  unfold react
  repeat' split
  all_goals first
    | exact invT_frame h rfl (fun _ => rfl) (fun _ => rfl) (fun x => x)
    | exact invT_spawn _ _ _ (invT_frame h rfl (fun _ => rfl) (fun _ => rfl) (fun x => x))

theorem invL_react {s : State} (src : Nat) (d : Decoded) (hl : s.loop = .idle) : InvL (react s src d) := by
  unfold react
  repeat' split
  all_goals (intro e st he; simp_all [spawn])
  all_goals (try (obtain ⟨he, _⟩ := he; rw [← he]))


theorem getElem?_lt {gs : List G} {g : Nat} {x : G} (hx : gs[g]? = some x) : g < gs.length :=
  (List.getElem?_eq_some_iff.mp hx).1

theorem termCount_push {s s' : State} {m : OutMsg} (hw : s'.written = s.written ++ [m]) (g : Gid) :
    termCount s' g = termCount s g + (if isTerm g m then 1 else 0) := by
  simp [termCount, hw, List.countP_append, List.countP_cons]

theorem pendCount_push {s s' : State} {e : SErr} (hq : s'.queue = s.queue ++ [e]) (hh : s'.h = s.h) (g : Gid) :
    pendCount s' g = pendCount s g + (if fromStep g e then 1 else 0) := by
  simp [pendCount, heldErrs, hq, hh, List.countP_append, List.countP_cons]
  omega

theorem pendCount_pop {s s' : State} {e : SErr} (hh : s.h = .holding e) (hh' : s'.h = .idle ∨ s'.h = .done)
    (hq : s'.queue = s.queue) (g : Gid) :
    pendCount s g = pendCount s' g + (if fromStep g e then 1 else 0) := by
  rcases hh' with hh' | hh' <;>
    simp [pendCount, heldErrs, hq, hh, hh', List.countP_cons] <;> omega

/-- goroutine `g` moves to control state `pc`; the counters of `g` (only) grow by `dt`, `dp` -/
theorem invT_update {s s' : State} (h : InvT s) {g : Nat} {x : G} (hx : s.gs[g]? = some x) {pc : GPc}
    (hgs : s'.gs = s.gs.set g { x with pc := pc }) (dt dp : Nat)
    (ht : ∀ g', termCount s' g' = termCount s g' + (if g' = g then dt else 0))
    (hp : ∀ g', pendCount s' g' = pendCount s g' + (if g' = g then dp else 0))
    (ho : outClosed s = true → outClosed s' = true)
    (hlocal : TG (some x) (termCount s g) (pendCount s g) (outClosed s) →
      TG (some { x with pc := pc }) (termCount s g + dt) (pendCount s g + dp) (outClosed s')) : InvT s' := by
  have hlt := getElem?_lt hx
  intro g'
  rw [ht, hp, hgs]
  by_cases hgg : g' = g
  · subst hgg
    simp only [if_true]
    rw [List.getElem?_set_self hlt]
    have h0 := h g'
    rw [hx] at h0
    exact hlocal h0
  · simp only [hgg, if_false, Nat.add_zero]
    rw [List.getElem?_set_ne (Ne.symm hgg)]
    exact TG_mono (h g') ho

theorem invT_gWrite {s s' : State} {g : Nat} (h : InvT s) (e : gWrite s g = some s') : InvT s' := by
  unfold gWrite at e
  split at e
  · rename_i x hx
    split at e
    · rename_i hc
      split at e
      · rename_i hb
        simp at e; subst e
        refine invT_update h hx (pc := .doneLost) rfl 0 0 ?_ ?_ ?_ ?_
        · intro g'; simp; rfl
        · intro g'; simp; rfl
        · exact fun x => x
        · intro h0
          simp [TG, hc.1, hc.2] at h0
          simp [TG, hc.1, h0, outClosed, setPc, hb]
      · simp at e; subst e
        refine invT_update h hx (pc := .doneOk) rfl 1 0 ?_ ?_ ?_ ?_
        · intro g'
          rw [termCount_push (s := s) (m := .workDone x.run g) rfl]
          by_cases hgg : g' = g <;> simp [isTerm, hgg]
          intro hh; exact absurd hh.symm hgg
        · intro g'; simp; rfl
        · exact fun x => x
        · intro h0
          simp [TG, hc.1, hc.2] at h0
          simp [TG, hc.1, h0]
    · simp at e
  · simp at e

theorem invT_gSend {s s' : State} {g : Nat} (hA : InvA s) (h : InvT s) (e : gSend c s g = some s') : InvT s' := by
  unfold gSend at e
  split at e
  · rename_i x hx
    split at e
    · rename_i hc
      have hd := invA_setPc_done (pc := .doneErr) hA hx (by simp [hc, GPc.done]) (by simp [GPc.done])
      simp [chanSend, hd.2, hA.crashed] at e
      obtain ⟨_, e⟩ := e
      subst e
      refine invT_update h hx (pc := .doneErr) rfl 0 (if x.kind = .step then 1 else 0) ?_ ?_ ?_ ?_
      · intro g'; simp; rfl
      · intro g'
        rw [pendCount_push (s := s) (e := gErr g x) (by rfl) (by rfl)]
        cases hk : x.kind <;> by_cases hgg : g' = g <;> simp [gErr, fromStep, hk, hgg]
        intro hh; exact absurd hh.symm hgg
      · exact fun x => x
      · intro h0
        cases hk : x.kind
        · simp [TG, hk, hc] at h0
          simp [TG, h0]
        · simp [TG, hk] at h0
          simp [TG, h0]
    · simp at e
  · simp at e

theorem invT_hRecv {s s' : State} (h : InvT s) (e : hRecv s = some s') : InvT s' := by
  unfold hRecv at e
  split at e
  · rename_i hh
    split at e
    · rename_i er rest hq
      simp at e; subst e
      refine invT_frame h rfl (fun _ => rfl) ?_ ?_
      · intro g; simp [pendCount, heldErrs, hh, hq]
      · exact fun x => x
    · split at e <;> simp at e
      subst e
      refine invT_frame h rfl (fun _ => rfl) ?_ ?_
      · intro g; simp [pendCount, heldErrs, hh]
      · exact fun x => x
  · simp at e

theorem TG_emit {x : Option G} {t p : Nat} {b w oc oc' : Bool}
    (h : TG x t (p + (if b then 1 else 0)) oc) (hoc : oc = true → oc' = true)
    (hw : w = true ∨ oc' = true) : TG x (t + (if w && b then 1 else 0)) p oc' := by
  cases b
  · simpa using TG_mono h hoc
  · simp at h
    unfold TG at *
    split
    · simp at h
    · rename_i y
      simp only at h ⊢
      cases hk : y.kind <;> cases hpc : y.pc <;> cases w <;> simp_all
      all_goals omega


theorem hEmit_spec {s s' : State} (e : hEmit c s = some s') :
    ∃ er w, s.h = .holding er ∧ (s'.h = .idle ∨ s'.h = .done) ∧ s'.queue = s.queue ∧ s'.gs = s.gs ∧
      s'.written = (if w then s.written ++ [.error er] else s.written) ∧
      (outClosed s = true → outClosed s' = true) ∧ (w = true ∨ outClosed s' = true) := by
  unfold hEmit at e
  split at e
  · rename_i er hh
    split at e
    · rename_i hst
      simp at e; subst e
      exact ⟨er, false, hh, by simp [outClosed, hst]⟩
    · rename_i hst
      by_cases hb : s.outBroken = true
      · simp [hb] at e
        split at e <;> simp at e <;> subst e <;> exact ⟨er, false, hh, by simp [outClosed, hb]⟩
      · simp [hb] at e
        split at e
        · split at e <;> simp at e <;> subst e <;> exact ⟨er, true, hh, by simp [outClosed, hst, hb]⟩
        · simp at e; subst e; exact ⟨er, true, hh, by simp [outClosed, hst, hb]⟩
  · simp at e

theorem invT_hEmit {s s' : State} (h : InvT s) (e : hEmit c s = some s') : InvT s' := by
  obtain ⟨er, w, hh, hh', hq, hgs, hw, ho, hwo⟩ := hEmit_spec e
  intro g
  have hp := pendCount_pop hh hh' hq g
  have ht : termCount s' g = termCount s g + (if (w && fromStep g er) then 1 else 0) := by
    cases w
    · simp at hw; simp [termCount, hw]
    · simp at hw
      rw [termCount_push hw]
      simp [isTerm, fromStep]
  have h0 := h g
  rw [hp] at h0
  rw [hgs, ht]
  exact TG_emit h0 ho hwo


theorem invT_loopRead {s s' : State} (h : InvT s) (e : loopRead c s = some s') : InvT s' := by
  unfold loopRead at e
  split at e
  · simp at e
  · split at e
    · split at e <;> simp at e <;> subst e
      · exact invT_frame h rfl (fun _ => rfl) (fun _ => rfl) (fun x => x)
      · refine invT_frame h rfl ?_ (fun _ => rfl) (fun x => x)
        intro g
        rw [termCount_push (s := s) (m := .hello) (by rfl)]
        simp [isTerm]
    · simp at e; subst e; exact invT_frame h rfl (fun _ => rfl) (fun _ => rfl) (fun x => x)
    · simp at e; subst e
      apply invT_react
      exact invT_frame h rfl (fun _ => rfl) (fun _ => rfl) (fun x => x)
    · simp at e; subst e; exact invT_frame h rfl (fun _ => rfl) (fun _ => rfl) (fun x => x)
    · simp at e

theorem invL_loopRead {s s' : State} (e : loopRead c s = some s') : InvL s' := by
  unfold loopRead at e
  split at e
  · simp at e
  · rename_i it rest hin
    split at e
    · split at e <;> simp at e <;> subst e <;> intro er st he <;> simp at he
      obtain ⟨he, _⟩ := he; rw [← he]; rfl
    · simp at e; subst e; intro er st he; simp at he; obtain ⟨he, _⟩ := he; rw [← he]; rfl
    · rename_i w hl
      simp at e; subst e
      apply invL_react
      simpa using hl
    · simp at e; subst e; intro er st he; simp at he; obtain ⟨he, _⟩ := he; rw [← he]; rfl
    · simp at e

theorem invT_loopSend {s s' : State} (hA : InvA s) (hL : InvL s) (h : InvT s) (e : loopSend c s = some s') :
    InvT s' := by
  unfold loopSend at e
  split at e
  · rename_i er stop hloop
    have hcl : s.closed = false := invA_closed_false hA (by simp [hloop])
    have ho := hL er stop hloop
    simp [chanSend, hcl, hA.crashed] at e
    obtain ⟨_, e⟩ := e
    subst e
    refine invT_frame h rfl (fun _ => rfl) ?_ (fun x => x)
    intro g
    rw [pendCount_push (s := s) (e := er) (by rfl) (by rfl)]
    simp [fromStep, ho]
  · simp at e


/-! ### clean descriptions of the two sending actions (no crash branch under `InvA`) -/

theorem loopSend_spec {s s' : State} (hA : InvA s) (e : loopSend c s = some s') :
    ∃ er stop, s.loop = .sending er stop ∧ s.queue.length < c.cap ∧ s.closed = false ∧
      s' = { s with queue := s.queue ++ [er], loop := if stop then .ending else .idle } := by
  unfold loopSend at e
  split at e
  · rename_i er stop hloop
    have hcl : s.closed = false := invA_closed_false hA (by simp [hloop])
    simp [chanSend, hcl, hA.crashed] at e
    obtain ⟨hlt, e⟩ := e
    refine ⟨er, stop, hloop, hlt, hcl, ?_⟩
    subst e; simp [hcl, hA.crashed]
  · simp at e

theorem gSend_spec {s s' : State} {g : Nat} (hA : InvA s) (e : gSend c s g = some s') :
    ∃ x, s.gs[g]? = some x ∧ x.pc = .failing ∧ s.queue.length < c.cap ∧ s.closed = false ∧
      s' = { s with gs := s.gs.set g { x with pc := .doneErr }, queue := s.queue ++ [gErr g x], wg := s.wg - 1 } := by
  unfold gSend at e
  split at e
  · rename_i x hx
    split at e
    · rename_i hc
      have hd := invA_setPc_done (pc := .doneErr) hA hx (by simp [hc, GPc.done]) (by simp [GPc.done])
      simp [chanSend, hd.2, hA.crashed] at e
      obtain ⟨hlt, e⟩ := e
      refine ⟨x, hx, hc, hlt, hd.2, ?_⟩
      subst e; simp [setPc, hd.2, hA.crashed]
    · simp at e
  · simp at e


/-! ### the remaining small invariants, proved together -/

structure InvS (s : State) : Prop where
  /-- the read loop only ever reports errors of origin `loop` -/
  loopOrigin : InvL s
  /-- a signal goroutine is never inside a step handler or writing a work-done -/
  sigPc : ∀ (g : Nat) (x : G), s.gs[g]? = some x → x.kind = .signal → x.pc ≠ .entered ∧ x.pc ≠ .writing
  /-- the handler returns only when the channel is closed and drained -/
  hDone : s.h = .done → s.closed = true ∧ s.queue = []
  /-- `RunATPServer` returns only after the handler and every goroutine -/
  ret : s.returned = true → s.h = .done ∧ s.wg = 0

theorem invS_init : InvS State.init := by
  constructor <;> simp [State.init, InvL]

theorem sigPc_setPc {s : State} {g : Nat} {x : G} {pc : GPc}
    (h : ∀ (g : Nat) (x : G), s.gs[g]? = some x → x.kind = .signal → x.pc ≠ .entered ∧ x.pc ≠ .writing)
    (hx : s.gs[g]? = some x) (hpc : x.kind = .signal → pc ≠ .entered ∧ pc ≠ .writing) :
    ∀ (g' : Nat) (y : G), (s.gs.set g { x with pc := pc })[g']? = some y → y.kind = .signal →
      y.pc ≠ .entered ∧ y.pc ≠ .writing := by
  intro g' y hy hk
  have hlt := getElem?_lt hx
  by_cases hgg : g = g'
  · subst hgg
    rw [List.getElem?_set_self hlt] at hy
    simp at hy; subst hy
    exact hpc hk
  · rw [List.getElem?_set_ne hgg] at hy
    exact h g' y hy hk

theorem sigPc_spawn {s : State} (k : GKind) (r : Run) (src : Nat)
    (h : ∀ (g : Nat) (x : G), s.gs[g]? = some x → x.kind = .signal → x.pc ≠ .entered ∧ x.pc ≠ .writing) :
    ∀ (g' : Nat) (y : G), (s.gs ++ [⟨k, r, src, .spawned⟩])[g']? = some y → y.kind = .signal →
      y.pc ≠ .entered ∧ y.pc ≠ .writing := by
  intro g' y hy hk
  rcases Nat.lt_trichotomy g' s.gs.length with hlt | heq | hgt
  · rw [List.getElem?_append_left hlt] at hy; exact h g' y hy hk
  · subst heq; simp at hy; subst hy; simp
  · have : (s.gs ++ [⟨k, r, src, .spawned⟩])[g']? = none := by simp; omega
    rw [this] at hy; simp at hy

theorem invS_react {s : State} (src : Nat) (d : Decoded) (hA : InvA s) (hl : s.loop = .idle) (h : InvS s) :
    InvS (react s src d) := by
  have hwg : 1 ≤ s.wg := by have := hA.wg; simp [hl, loopLive] at this; omega
  have hcl := invA_closed_false hA (by simp [hl])
  have hnd : s.h ≠ .done := by
    intro hd; have := (h.hDone hd).1; simp [hcl] at this
  have hnr : s.returned = false := by
    cases hr : s.returned with
    | false => rfl
    | true => exact absurd (h.ret hr).1 hnd
  refine ⟨invL_react src d hl, ?_, ?_, ?_⟩
  · unfold react
    repeat' split
    all_goals first
      | exact h.sigPc
      | exact sigPc_spawn _ _ _ h.sigPc
  · unfold react
    repeat' split
    all_goals (simp [spawn]; exact h.hDone)
  · unfold react
    repeat' split
    all_goals (simp [spawn, hnr])


theorem invS_of_frame {s s' : State} (h : InvS s) (hloop : s'.loop = s.loop) (hgs : s'.gs = s.gs)
    (hh : s'.h = s.h) (hc : s'.closed = s.closed) (hq : s'.queue = s.queue) (hr : s'.returned = s.returned)
    (hw : s'.wg = s.wg) : InvS s' := by
  obtain ⟨h1, h2, h3, h4⟩ := h
  refine ⟨?_, ?_, ?_, ?_⟩
  · intro e st he; rw [hloop] at he; exact h1 e st he
  · rw [hgs]; exact h2
  · rw [hh, hc, hq]; exact h3
  · rw [hr, hh, hw]; exact h4

theorem not_returned_of_wg {s : State} (h : InvS s) (hw : 1 ≤ s.wg) : s.returned = false := by
  cases hr : s.returned with
  | false => rfl
  | true => have := (h.ret hr).2; omega

theorem wg_pos_of_get {s : State} (hA : InvA s) {g : Nat} {x : G} (hx : s.gs[g]? = some x)
    (hd : x.pc.done = false) : 1 ≤ s.wg := by
  have h1 := hA.wg
  by_cases h0 : live s.gs = 0
  · have := sumW_zero_all liveW s.gs h0 g x hx
    simp [liveW, hd] at this
  · omega

theorem invS_setPc {s : State} {g : Nat} {x : G} {pc : GPc} (hA : InvA s) (h : InvS s) (hx : s.gs[g]? = some x)
    (hd : x.pc.done = false) (hpc : x.kind = .signal → pc ≠ .entered ∧ pc ≠ .writing) (w : Nat) :
    InvS { setPc s g x pc with wg := w } := by
  have hnr := not_returned_of_wg h (wg_pos_of_get hA hx hd)
  obtain ⟨h1, h2, h3, h4⟩ := h
  refine ⟨h1, sigPc_setPc h2 hx hpc, h3, ?_⟩
  simp [setPc, hnr]

theorem hEmit_idle (hg : c.Good) {s s' : State} (e : hEmit c s = some s') : s'.h = .idle := by
  unfold hEmit at e
  simp [hg.drain] at e
  repeat' split at e
  all_goals (try simp at e)
  all_goals (try (subst e; rfl))

theorem invS_step (hg : c.Good) {s s' : State} {a : Act} (hA : InvA s) (h : InvS s)
    (e : step? c s a = some s') : InvS s' := by
  unfold step? at e
  split at e
  · simp at e
  · cases a <;> simp only at e
    case offer =>
      split at e <;> simp at e
      subst e; exact invS_of_frame h rfl rfl rfl rfl rfl rfl rfl
    case closeInput => simp at e; subst e; exact invS_of_frame h rfl rfl rfl rfl rfl rfl rfl
    case breakOutput => simp at e; subst e; exact invS_of_frame h rfl rfl rfl rfl rfl rfl rfl
    case cancel => simp at e; subst e; exact invS_of_frame h rfl rfl rfl rfl rfl rfl rfl
    case observe =>
      unfold doObserve at e
      split at e <;> simp at e
      subst e; exact invS_of_frame h rfl rfl rfl rfl rfl rfl rfl
    case exit g b =>
      unfold gExit at e
      split at e
      · rename_i x hx
        split at e
        · rename_i hc
          simp at e; subst e
          have := invS_setPc (pc := match b with | .ok => .writing | _ => .failing) hA h hx
            (by simp [hc.2, GPc.done]) (by simp [hc.1]) s.wg
          exact this
        · simp at e
      · simp at e
    case loopRead =>
      unfold loopRead at e
      split at e
      · simp at e
      · rename_i it rest hin
        split at e
        · rename_i hloop
          have hwg : 1 ≤ s.wg := by have := hA.wg; simp [hloop, loopLive] at this; omega
          have hnr := not_returned_of_wg h hwg
          obtain ⟨h1, h2, h3, h4⟩ := h
          split at e <;> simp at e <;> subst e
          · exact ⟨by intro er st he; simp at he; obtain ⟨he, _⟩ := he; rw [← he]; rfl, h2, h3, by simp [hnr]⟩
          · exact ⟨by intro er st he; simp at he, h2, h3, by simp [hnr]⟩
        · rename_i hloop
          have hwg : 1 ≤ s.wg := by have := hA.wg; simp [hloop, loopLive] at this; omega
          have hnr := not_returned_of_wg h hwg
          obtain ⟨h1, h2, h3, h4⟩ := h
          simp at e; subst e
          exact ⟨by intro er st he; simp at he; obtain ⟨he, _⟩ := he; rw [← he]; rfl, h2, h3, by simp [hnr]⟩
        · rename_i w hloop
          simp at e; subst e
          have hloop' : s.loop = .idle := by simpa using hloop
          apply invS_react
          · obtain ⟨hw, hc, hx⟩ := hA; constructor <;> simp_all [loopLive]
          · exact hloop'
          · exact invS_of_frame h rfl rfl rfl rfl rfl rfl rfl
        · rename_i hloop
          have hwg : 1 ≤ s.wg := by have := hA.wg; simp [hloop, loopLive] at this; omega
          have hnr := not_returned_of_wg h hwg
          obtain ⟨h1, h2, h3, h4⟩ := h
          simp at e; subst e
          exact ⟨by intro er st he; simp at he; obtain ⟨he, _⟩ := he; rw [← he]; rfl, h2, h3, by simp [hnr]⟩
        · simp at e
    case loopReadErr =>
      unfold loopReadErr at e
      split at e
      · split at e <;> simp at e <;> subst e <;>
        · rename_i hloop
          have hwg : 1 ≤ s.wg := by have := hA.wg; simp [hloop, loopLive] at this; omega
          have hnr := not_returned_of_wg h hwg
          obtain ⟨h1, h2, h3, h4⟩ := h
          exact ⟨by intro er st he; simp at he; obtain ⟨he, _⟩ := he; rw [← he]; rfl, h2, h3, by simp [hnr]⟩
      · simp at e
    case loopSend =>
      obtain ⟨er, stop, hloop, hlt, hcl, e⟩ := loopSend_spec hA e
      have hwg : 1 ≤ s.wg := by have := hA.wg; simp [hloop, loopLive] at this; omega
      have hnr := not_returned_of_wg h hwg
      obtain ⟨h1, h2, h3, h4⟩ := h
      subst e
      refine ⟨?_, h2, ?_, by simp [hnr]⟩
      · intro e2 st he; simp at he; split at he <;> simp at he
      · intro hd; have := (h3 hd).1; simp [hcl] at this
    case loopEnd =>
      unfold loopEnd at e
      split at e
      · rename_i hloop
        have hwg : 1 ≤ s.wg := by have := hA.wg; simp [hloop, loopLive] at this; omega
        have hnr := not_returned_of_wg h hwg
        obtain ⟨h1, h2, h3, h4⟩ := h
        simp [hg.close] at e; subst e
        exact ⟨by intro er st he; simp at he, h2, h3, by simp [hnr]⟩
      · simp at e
    case gStart g p =>
      unfold gStart at e
      split at e
      · rename_i x hx
        split at e
        · rename_i hc
          simp at e; subst e
          exact invS_setPc (pc := match p with | .reject => .failing | .enter => .entered) hA h hx
            (by simp [hc.2, GPc.done]) (by simp [hc.1]) s.wg
        · simp at e
      · simp at e
    case gWrite g =>
      unfold gWrite at e
      split at e
      · rename_i x hx
        split at e
        · rename_i hc
          split at e <;> simp at e <;> subst e
          · exact invS_setPc (pc := .doneLost) hA h hx (by simp [hc.2, GPc.done]) (by simp) (s.wg - 1)
          · have := invS_setPc (pc := .doneOk) hA h hx (by simp [hc.2, GPc.done]) (by simp) (s.wg - 1)
            exact invS_of_frame this rfl rfl rfl rfl rfl rfl rfl
        · simp at e
      · simp at e
    case gSend g =>
      obtain ⟨x, hx, hc, hlt, hcl, e⟩ := gSend_spec hA e
      have hnr := not_returned_of_wg h (wg_pos_of_get hA hx (by simp [hc, GPc.done]))
      obtain ⟨h1, h2, h3, h4⟩ := h
      subst e
      refine ⟨h1, sigPc_setPc h2 hx (by simp), ?_, by simp [hnr]⟩
      intro hd; have := (h3 hd).1; simp [hcl] at this
    case sigRun g r =>
      unfold sigRun at e
      split at e
      · rename_i x hx
        split at e
        · rename_i hc
          cases r <;> simp [hg.guarded] at e <;> subst e
          · exact invS_setPc (pc := .doneOk) hA h hx (by simp [hc.2, GPc.done]) (by simp) (s.wg - 1)
          · exact invS_setPc (pc := .failing) hA h hx (by simp [hc.2, GPc.done]) (by simp) s.wg
          · exact invS_setPc (pc := .failing) hA h hx (by simp [hc.2, GPc.done]) (by simp) s.wg
          · exact invS_setPc (pc := .failing) hA h hx (by simp [hc.2, GPc.done]) (by simp) s.wg
        · simp at e
      · simp at e
    case hRecv =>
      unfold hRecv at e
      split at e
      · rename_i hh
        have hnr : s.returned = false := by
          cases hr : s.returned with
          | false => rfl
          | true => have := (h.ret hr).1; simp [hh] at this
        obtain ⟨h1, h2, h3, h4⟩ := h
        split at e
        · simp at e; subst e
          exact ⟨h1, h2, by simp, by simp [hnr]⟩
        · rename_i hq
          split at e <;> simp at e
          rename_i hcl
          subst e
          exact ⟨h1, h2, by simp [hcl, hq], by simp [hnr]⟩
      · simp at e
    case hEmit =>
      obtain ⟨er, w, hh, hh', hq, hgs, hw, ho, hwo⟩ := hEmit_spec e
      obtain ⟨f1, f2, f3, f4, f5, f6, f7, _⟩ := hEmit_frame e
      have hnr : s.returned = false := by
        cases hr : s.returned with
        | false => rfl
        | true => have := (h.ret hr).1; simp [hh] at this
      have hidle : s'.h = .idle := hEmit_idle hg e
      obtain ⟨h1, h2, h3, h4⟩ := h
      refine ⟨?_, ?_, by simp [hidle], by simp [f7, hnr]⟩
      · intro e2 st he; rw [f2] at he; exact h1 e2 st he
      · rw [f3]; exact h2
    case hCancel =>
      unfold hCancel at e
      split at e
      · simp [hg.drain] at e; subst e
        exact invS_of_frame h rfl rfl rfl rfl rfl rfl rfl
      · simp at e
    case close =>
      unfold closeChan at e
      split at e
      · rename_i hc
        simp at e; subst e
        obtain ⟨h1, h2, h3, h4⟩ := h
        exact ⟨h1, h2, by intro hd; have := h3 hd; simp_all, h4⟩
      · simp at e
    case ret =>
      unfold doRet at e
      split at e
      · rename_i hc
        simp at e; subst e
        obtain ⟨h1, h2, h3, h4⟩ := h
        exact ⟨h1, h2, h3, by intro _; exact ⟨hc.1, hc.2.1⟩⟩
      · simp at e


theorem invT_step (hg : c.Good) {s s' : State} {a : Act} (hA : InvA s) (hS : InvS s) (h : InvT s)
    (e : step? c s a = some s') : InvT s' := by
  unfold step? at e
  split at e
  · simp at e
  · cases a <;> simp only at e
    case offer =>
      split at e <;> simp at e
      subst e; exact invT_frame h rfl (fun _ => rfl) (fun _ => rfl) (fun x => x)
    case closeInput => simp at e; subst e; exact invT_frame h rfl (fun _ => rfl) (fun _ => rfl) (fun x => x)
    case breakOutput =>
      simp at e; subst e
      refine invT_frame h rfl (fun _ => rfl) (fun _ => rfl) ?_
      simp [outClosed]
    case cancel => simp at e; subst e; exact invT_frame h rfl (fun _ => rfl) (fun _ => rfl) (fun x => x)
    case observe =>
      unfold doObserve at e
      split at e <;> simp at e
      subst e; exact invT_frame h rfl (fun _ => rfl) (fun _ => rfl) (fun x => x)
    case exit g b =>
      unfold gExit at e
      split at e
      · rename_i x hx
        split at e
        · rename_i hc
          simp at e; subst e
          apply invT_setPc_running h hx (by simp [hc.2, GPc.done])
          cases b <;> simp [GPc.done]
        · simp at e
      · simp at e
    case loopRead => exact invT_loopRead h e
    case loopReadErr =>
      unfold loopReadErr at e
      split at e
      · split at e <;> simp at e <;> subst e <;>
          exact invT_frame h rfl (fun _ => rfl) (fun _ => rfl) (fun x => x)
      · simp at e
    case loopSend => exact invT_loopSend hA hS.loopOrigin h e
    case loopEnd =>
      unfold loopEnd at e
      split at e
      · simp at e; subst e; exact invT_frame h rfl (fun _ => rfl) (fun _ => rfl) (fun x => x)
      · simp at e
    case gStart g p =>
      unfold gStart at e
      split at e
      · rename_i x hx
        split at e
        · rename_i hc
          simp at e; subst e
          apply invT_setPc_running h hx (by simp [hc.2, GPc.done])
          cases p <;> simp [GPc.done]
        · simp at e
      · simp at e
    case gWrite g => exact invT_gWrite h e
    case gSend g => exact invT_gSend hA h e
    case sigRun g r =>
      unfold sigRun at e
      split at e
      · rename_i x hx
        split at e
        · rename_i hc
          cases r <;> simp [hg.guarded] at e <;> subst e
          · refine invT_update h hx (pc := .doneOk) rfl 0 0 ?_ ?_ ?_ ?_
            · intro g'; simp; rfl
            · intro g'; simp; rfl
            · exact fun x => x
            · intro h0
              simp [TG, hc.1] at h0
              simp [TG, hc.1, h0]
          · exact invT_setPc_running h hx (by simp [hc.2, GPc.done]) (by simp [GPc.done])
          · exact invT_setPc_running h hx (by simp [hc.2, GPc.done]) (by simp [GPc.done])
          · exact invT_setPc_running h hx (by simp [hc.2, GPc.done]) (by simp [GPc.done])
        · simp at e
      · simp at e
    case hRecv => exact invT_hRecv h e
    case hEmit => exact invT_hEmit h e
    case hCancel =>
      unfold hCancel at e
      split at e
      · simp [hg.drain] at e; subst e
        refine invT_frame h rfl (fun _ => rfl) (fun _ => rfl) ?_
        simp [outClosed]
      · simp at e
    case close =>
      unfold closeChan at e
      split at e
      · simp at e; subst e; exact invT_frame h rfl (fun _ => rfl) (fun _ => rfl) (fun x => x)
      · simp at e
    case ret =>
      unfold doRet at e
      split at e
      · simp at e; subst e; exact invT_frame h rfl (fun _ => rfl) (fun _ => rfl) (fun x => x)
      · simp at e

/-- all invariants of the repaired rules -/
structure Inv (st : State) : Prop where
  a : InvA st
  s : InvS st
  t : InvT st

theorem inv_reachable (hg : c.Good) {s : State} (h : Reachable c s) : Inv s := by
  induction h with
  | init => exact ⟨invA_init, invS_init, invT_init⟩
  | step _ e ih => exact ⟨invA_step hg ih.a e, invS_step hg ih.a ih.s e, invT_step hg ih.a ih.s ih.t e⟩

end Arca.AtpServer
